import BnpVerif.Model.C01
/-! C01 property theorems: the chunked reader delivers exactly the newline-terminated file,
for every well-formed file, every chunk size and both modes. -/
namespace C01

/-! ### small list facts -/

theorem addNL_getLast (b : Bytes) : (addNL b).getLast? = some NL := by
  unfold addNL; split
  · assumption
  · simp

theorem addNL_ne_nil (b : Bytes) : addNL b ≠ [] := by
  intro h; have := addNL_getLast b; rw [h] at this; simp at this

theorem getLast?_append_of_ne_nil {α} (a b : List α) (hb : b ≠ []) : (a ++ b).getLast? = b.getLast? := by
  induction a with
  | nil => rfl
  | cons x xs ih =>
    cases h : xs ++ b with
    | nil => simp at h; exact absurd h.2 hb
    | cons y ys =>
      rw [List.cons_append, h, List.getLast?_cons_cons, ← h, ih]

theorem addNL_append (a b : Bytes) (hb : b ≠ []) : addNL (a ++ b) = a ++ addNL b := by
  unfold addNL
  rw [getLast?_append_of_ne_nil a b hb]
  split <;> simp

theorem addNL_of_getLast (b : Bytes) (h : b.getLast? = some NL) : addNL b = b := by
  unfold addNL; simp [h]

/-- slices: `l[a:a+d] ++ l[a+d:a+d+k] = l[a:a+d+k]` -/
theorem take_add' {α} (l : List α) (d k : Nat) : l.take (d + k) = l.take d ++ (l.drop d).take k := by
  rw [List.take_add]

/-! ### laws an instance of `Fmt` has to satisfy -/

structure Laws (F : Fmt) (WF : Bytes → Prop) (AL : Bytes → Prop) : Prop where
  /-- a complete pending buffer yields a positive cut inside the buffer … -/
  cut_pos : ∀ c, F.complete c = true → 0 < F.cutLen c ∧ F.cutLen c ≤ c.length
  /-- … that ends right after a newline -/
  cut_nl : ∀ c, F.complete c = true → (c.take (F.cutLen c)).getLast? = some NL
  /-- cutting a complete prefix of a well-formed remainder leaves a well-formed remainder -/
  wf_drop : ∀ r c, WF r → c <+: r → F.complete c = true → WF (r.drop (F.cutLen c))
  /-- the terminated remainder is complete and is consumed whole (only the marker is cut off) -/
  wf_final : ∀ r, WF r → r ≠ [] →
    F.complete (fixEnd F r) = true ∧ F.cutLen (fixEnd F r) = (addNL r).length
  /-- what is delivered is entry-aligned (`AL`): a cut prefix of a well-formed remainder … -/
  cut_al : ∀ r c, WF r → c <+: r → F.complete c = true → AL (c.take (F.cutLen c))
  /-- … and the terminated well-formed remainder -/
  final_al : ∀ r, WF r → r ≠ [] → AL (addNL r)

/-! ### the inner loop -/

/-- postcondition of the inner loop -/
def AccPost (F : Fmt) (file : Bytes) (lp d : Nat) : Option (Bytes × Nat × Bool) → Prop
  | none => file.drop lp = []
  | some (chunk, pos', fin) =>
    F.complete chunk = true ∧ lp + d ≤ pos' ∧ pos' ≤ file.length ∧
    (fin = false → chunk = (file.drop lp).take (pos' - lp) ∧ lp < pos') ∧
    (fin = true → pos' = file.length ∧ file.drop lp ≠ [] ∧ chunk = fixEnd F (file.drop lp))

/-- specification of `accumulate` under the repaired end-of-file rule.
`r` is the remaining file content from the logical position `lp`; `d` bytes of it are already
pending in `acc`. -/
theorem accumulate_spec (F : Fmt) (WF : Bytes → Prop) (AL : Bytes → Prop) (L : Laws F WF AL) (file : Bytes) (k : Nat) (hk : 0 < k)
    (lp : Nat) (hwf : WF (file.drop lp)) :
    ∀ (fuel d : Nat) (acc : Bytes) (finPrev : Bool),
      lp + d ≤ file.length → acc = (file.drop lp).take d →
      (finPrev = true → lp + d = file.length ∧ d = 0) →
      file.length - (lp + d) < fuel →
      AccPost F file lp d (accumulate F true file k fuel (lp + d) acc finPrev) := by
  intro fuel
  induction fuel with
  | zero => intro d acc finPrev _ _ _ hf; omega
  | succ fuel ih =>
    intro d acc finPrev hle hacc hfin hfuel
    obtain ⟨r, hr⟩ : ∃ r, r = file.drop lp := ⟨_, rfl⟩
    have hrlen : r.length = file.length - lp := by rw [hr]; simp
    have hdrop : file.drop (lp + d) = r.drop d := by rw [hr, List.drop_drop]
    obtain ⟨raw, hraw⟩ : ∃ raw, raw = (r.drop d).take k := ⟨_, rfl⟩
    have hrawlen : raw.length = min k (file.length - (lp + d)) := by
      rw [hraw]; simp [hrlen]; omega
    have hstep : accumulate F true file k (fuel + 1) (lp + d) acc finPrev =
        (if raw.length = 0 then
          if (true && !acc.isEmpty && !finPrev) = true then
            if F.complete (fixEnd F acc) = true then some (fixEnd F acc, lp + d, true) else none
          else none
        else
          if F.complete (acc ++ (if decide (raw.length < k) = true then fixEnd F raw else raw)) = true then
            some (acc ++ (if decide (raw.length < k) = true then fixEnd F raw else raw), lp + d + raw.length, decide (raw.length < k))
          else accumulate F true file k fuel (lp + d + raw.length)
            (acc ++ (if decide (raw.length < k) = true then fixEnd F raw else raw)) (decide (raw.length < k))) := by
      rw [accumulate, hdrop, ← hraw]
    rw [hstep]
    rw [← hr] at hacc hwf
    by_cases h0 : raw.length = 0
    · -- end of file: nothing more to read
      have hpos : lp + d = file.length := by omega
      have hacc' : acc = r := by
        rw [hacc]; apply List.take_of_length_le; omega
      rw [if_pos h0]
      by_cases hc : (true && !acc.isEmpty && !finPrev) = true
      · rw [if_pos hc]
        simp only [Bool.true_and, Bool.and_eq_true, Bool.not_eq_true', List.isEmpty_eq_false_iff] at hc
        have hrne : r ≠ [] := by rw [← hacc']; exact hc.1
        have hfinal := L.wf_final r hwf hrne
        rw [hacc', if_pos hfinal.1]
        unfold AccPost
        rw [← hr]
        exact ⟨hfinal.1, by omega, by omega, by simp, fun _ => ⟨hpos, hrne, rfl⟩⟩
      · rw [if_neg hc]
        unfold AccPost
        rw [← hr]
        simp only [Bool.true_and, Bool.and_eq_true, Bool.not_eq_true', List.isEmpty_eq_false_iff, not_and,
          Bool.not_eq_false] at hc
        by_cases hne : acc = []
        · rw [← hacc', hne]
        · have := hfin (hc hne)
          have : r.length = 0 := by omega
          exact List.eq_nil_of_length_eq_zero this
    · rw [if_neg h0]
      have hrawne : raw ≠ [] := by intro h; rw [h] at h0; simp at h0
      have happ : acc ++ raw = r.take (d + k) := by rw [hacc, hraw, ← take_add']
      by_cases hfinb : raw.length < k
      · -- short read: this is the final chunk
        have hend : lp + d + raw.length = file.length := by omega
        have hall : acc ++ raw = r := by
          rw [happ]; apply List.take_of_length_le; omega
        have hrne : r ≠ [] := by rw [← hall]; simp [hrawne]
        have hfix : acc ++ fixEnd F raw = fixEnd F r := by
          unfold fixEnd
          rw [← List.append_assoc, ← addNL_append acc raw hrawne, hall]
        have hfinal := L.wf_final r hwf hrne
        have hd : decide (raw.length < k) = true := by simp [hfinb]
        rw [hd]
        simp only [↓reduceIte]
        rw [hfix, if_pos hfinal.1]
        unfold AccPost
        rw [← hr]
        exact ⟨hfinal.1, by omega, by omega, by simp, fun _ => ⟨by omega, hrne, rfl⟩⟩
      · -- full read
        have hlen : raw.length = k := by omega
        have hd : decide (raw.length < k) = false := by simp [hfinb]
        rw [hd]
        simp only [Bool.false_eq_true, ↓reduceIte]
        by_cases hcomp : F.complete (acc ++ raw) = true
        · rw [if_pos hcomp]
          unfold AccPost
          rw [← hr]
          refine ⟨hcomp, by omega, by omega, fun _ => ⟨?_, by omega⟩, by simp⟩
          rw [happ]; congr 1; omega
        · rw [if_neg hcomp]
          have := ih (d + k) (acc ++ raw) false (by omega) (by rw [← hr]; exact happ) (by simp) (by omega)
          have e : lp + (d + k) = lp + d + raw.length := by omega
          rw [e] at this
          revert this
          generalize accumulate F true file k fuel (lp + d + raw.length) (acc ++ raw) false = res
          intro h
          cases res with
          | none => exact h
          | some v =>
            obtain ⟨chunk, pos', fin⟩ := v
            unfold AccPost at h ⊢
            exact ⟨h.1, by omega, h.2.2.1, h.2.2.2.1, h.2.2.2.2⟩

/-! ### one `read_chunk` call -/

/-- reader state `s` is consistent with logical position `lp` -/
structure Inv (file : Bytes) (s : St) (lp : Nat) : Prop where
  pos : lp + s.carry.length = s.pos
  le : s.pos ≤ file.length
  carry : s.carry = (file.drop lp).take s.carry.length
  fin : s.finished = true → s.pos = file.length ∧ s.carry = []

theorem readChunk_spec (F : Fmt) (WF : Bytes → Prop) (AL : Bytes → Prop) (L : Laws F WF AL) (mode : Mode) (file : Bytes)
    (k : Nat) (hk : 0 < k) (s : St) (lp : Nat) (hI : Inv file s lp) (hwf : WF (file.drop lp)) :
    match readChunk F true mode file k s with
    | none => file.drop lp = []
    | some (out, s') =>
      (∃ n, 0 < n ∧ out = (file.drop lp).take n ∧ out.length = n ∧ out.getLast? = some NL ∧
        Inv file s' (lp + n) ∧ WF (file.drop (lp + n)) ∧ lp + n ≤ file.length ∧ AL out) ∨
      (out = addNL (file.drop lp) ∧ file.drop lp ≠ [] ∧ Inv file s' file.length ∧ s'.finished = true ∧ AL out) := by
  unfold readChunk
  have hspec := accumulate_spec F WF AL L file k hk lp hwf (file.length + 2) s.carry.length s.carry s.finished
    (by rw [hI.pos]; exact hI.le) hI.carry
    (by intro h; have := hI.fin h; rw [hI.pos]; refine ⟨this.1, ?_⟩; rw [this.2]; rfl)
    (by omega)
  rw [hI.pos] at hspec
  revert hspec
  cases hacc : accumulate F true file k (file.length + 2) s.pos s.carry s.finished with
  | none => intro h; exact h
  | some res =>
    obtain ⟨chunk, pos', fin⟩ := res
    intro h
    unfold AccPost at h
    obtain ⟨hcomp, hle1, hle2, hnf, hf⟩ := h
    obtain ⟨r, hr⟩ : ∃ r, r = file.drop lp := ⟨_, rfl⟩
    have hrlen : r.length = file.length - lp := by rw [hr]; simp
    rw [← hr] at hnf hf hwf ⊢
    cases fin with
    | true =>
      right
      obtain ⟨hp, hrne, hchunk⟩ := hf rfl
      have hfinal := L.wf_final r hwf hrne
      simp only [↓reduceIte]
      have hout : (chunk.take (F.cutLen chunk)) = addNL r := by
        rw [hchunk, hfinal.2]
        unfold fixEnd
        simp
      refine ⟨hout, hrne, ⟨by simp [hp], by simp [hp], by simp, by intro _; simp [hp]⟩, trivial, ?_⟩
      rw [hout]; exact L.final_al r hwf hrne
    | false =>
      left
      obtain ⟨hchunk, hlt⟩ := hnf rfl
      have hcp := L.cut_pos chunk hcomp
      have hnl := L.cut_nl chunk hcomp
      have hclen : chunk.length = pos' - lp := by
        rw [hchunk]; simp [hrlen]; omega
      obtain ⟨n, hn⟩ : ∃ n, n = F.cutLen chunk := ⟨_, rfl⟩
      rw [← hn] at hcp hnl
      have hout : chunk.take n = r.take n := by
        rw [hchunk, List.take_take]; congr 1; omega
      have hpre : chunk <+: r := by rw [hchunk]; exact List.take_prefix _ _
      have hwf' := L.wf_drop r chunk hwf hpre hcomp
      rw [← hn] at hwf'
      have hdd : r.drop n = file.drop (lp + n) := by rw [hr, List.drop_drop]
      have hal := L.cut_al r chunk hwf (by rw [hchunk]; exact List.take_prefix _ _) hcomp
      refine ⟨n, hcp.1, ?_, ?_, ?_, ?_, ?_, by omega, hal⟩
      · simp only [← hn]; exact hout
      · simp only [← hn]; rw [List.length_take]; omega
      · simp only [← hn]; exact hnl
      · simp only [Bool.false_eq_true, ↓reduceIte, ← hn]
        cases mode with
        | seek =>
          refine ⟨by simp; omega, by simp; omega, by simp, by simp⟩
        | carry =>
          have hcl : (chunk.drop n).length = pos' - lp - n := by simp [hclen]
          refine ⟨by simp only [hcl]; omega, hle2, ?_, by simp⟩
          simp only [hcl]
          rw [hchunk, List.drop_take, ← hdd]
      · rw [← hdd]; exact hwf'

/-! ### the whole read -/

/-- a finished reader delivers nothing more -/
theorem readChunk_finished (F : Fmt) (WF : Bytes → Prop) (AL : Bytes → Prop) (L : Laws F WF AL) (mode : Mode) (file : Bytes)
    (k : Nat) (hk : 0 < k) (s : St) (hI : Inv file s file.length) (hwf : WF []) :
    readChunk F true mode file k s = none := by
  have h := readChunk_spec F WF AL L mode file k hk s file.length hI (by simpa using hwf)
  revert h
  cases readChunk F true mode file k s with
  | none => intro _; rfl
  | some res =>
    obtain ⟨out, s'⟩ := res
    intro h
    rcases h with ⟨n, hn, hout, hlen, _⟩ | ⟨_, hne, _⟩
    · simp at hout; rw [hout] at hlen; simp at hlen; omega
    · simp at hne

theorem readLoop_spec (F : Fmt) (WF : Bytes → Prop) (AL : Bytes → Prop) (L : Laws F WF AL) (hnil : WF []) (mode : Mode)
    (file : Bytes) (k : Nat) (hk : 0 < k) :
    ∀ (fuel : Nat) (s : St) (lp : Nat), Inv file s lp → WF (file.drop lp) →
      (lp = 0 ∨ (file.take lp).getLast? = some NL) → lp ≤ file.length → file.length - lp < fuel →
      file.take lp ++ (readLoop F true mode file k fuel s).flatten = norm file ∧
      ∀ c ∈ readLoop F true mode file k fuel s, c ≠ [] ∧ c.getLast? = some NL ∧ AL c := by
  intro fuel
  induction fuel with
  | zero => intro s lp _ _ _ _ hf; omega
  | succ fuel ih =>
    intro s lp hI hwf hJ hle hfuel
    have hspec := readChunk_spec F WF AL L mode file k hk s lp hI hwf
    unfold readLoop
    revert hspec
    cases hrc : readChunk F true mode file k s with
    | none =>
      intro h
      simp only [List.flatten_nil, List.append_nil, List.not_mem_nil, false_imp_iff, implies_true, and_true]
      have hlen : file.length ≤ lp := by
        have := congrArg List.length h; simp at this; omega
      rw [List.take_of_length_le hlen]
      unfold norm
      by_cases hf : file = []
      · simp [hf]
      · have hne : file.isEmpty = false := by simp [hf]
        simp only [hne, Bool.false_eq_true, ↓reduceIte]
        rcases hJ with h0 | hl
        · exfalso; apply hf; apply List.eq_nil_of_length_eq_zero; omega
        · rw [List.take_of_length_le hlen] at hl
          exact (addNL_of_getLast file hl).symm
    | some res =>
      obtain ⟨out, s'⟩ := res
      intro h
      rcases h with ⟨n, hn, hout, hlen, hnl, hI', hwf', hle', hal⟩ | ⟨hout, hne, hI', hfin', hal⟩
      · have hone : out ≠ [] := by intro e; rw [e] at hlen; simp at hlen; omega
        have hemp : out.isEmpty = false := by simp [hone]
        simp only [hemp, Bool.false_eq_true, ↓reduceIte, List.flatten_cons, List.mem_cons, forall_eq_or_imp]
        have hJ' : lp + n = 0 ∨ (file.take (lp + n)).getLast? = some NL := by
          right
          rw [take_add', ← hout, getLast?_append_of_ne_nil _ _ hone]; exact hnl
        have := ih s' (lp + n) hI' hwf' hJ' hle' (by omega)
        refine ⟨?_, ⟨hone, hnl, hal⟩, this.2⟩
        rw [← this.1, take_add', ← hout, List.append_assoc]
      · have hone : out ≠ [] := by rw [hout]; exact addNL_ne_nil _
        have hemp : out.isEmpty = false := by simp [hone]
        simp only [hemp, Bool.false_eq_true, ↓reduceIte, List.flatten_cons, List.mem_cons, forall_eq_or_imp]
        have hrest : readLoop F true mode file k fuel s' = [] := by
          cases fuel with
          | zero => rfl
          | succ f =>
            unfold readLoop
            rw [readChunk_finished F WF AL L mode file k hk s' hI' hnil]
        rw [hrest]
        simp only [List.flatten_nil, List.append_nil, List.not_mem_nil, false_imp_iff, implies_true, and_true]
        refine ⟨?_, hone, by rw [hout]; exact addNL_getLast _, hal⟩
        rw [hout, ← addNL_append _ _ hne, List.take_append_drop]
        unfold norm
        have : file ≠ [] := by intro e; rw [e] at hne; simp at hne
        simp [this]

/-- **C01.readAll_bytes** — for every format satisfying the laws, every well-formed file, every
chunk size `k ≥ 1` and both modes: the delivered chunks concatenate to exactly the
newline-terminated file (nothing lost, duplicated or reordered), and every chunk is non-empty,
ends after a newline and is entry-aligned (`AL`: a whole number of entries). -/
theorem readAll_bytes (F : Fmt) (WF : Bytes → Prop) (AL : Bytes → Prop) (L : Laws F WF AL) (hnil : WF []) (mode : Mode)
    (file : Bytes) (hwf : WF file) (k : Nat) (hk : 0 < k) :
    (readAll F true mode file k).flatten = norm file ∧
    ∀ c ∈ readAll F true mode file k, c ≠ [] ∧ c.getLast? = some NL ∧ AL c := by
  have h := readLoop_spec F WF AL L hnil mode file k hk (file.length + 2) init 0
    ⟨by simp [init], by simp [init], by simp [init], by simp [init]⟩ (by simpa using hwf) (Or.inl rfl)
    (by omega) (by omega)
  simpa [readAll] using h

/-! ### entries: chunks that end with a newline parse independently -/

theorem linesOf_cons (x : Nat) (xs : Bytes) :
    linesOf (x :: xs) = if x = NL then [] :: linesOf xs
      else match linesOf xs with
        | [] => [[x]]
        | l :: ls => (x :: l) :: ls := by
  rw [linesOf]; rfl

theorem linesOf_ne_nil (l : Bytes) (h : l ≠ []) : linesOf l ≠ [] := by
  cases l with
  | nil => exact absurd rfl h
  | cons x xs =>
    rw [linesOf_cons]
    split
    · simp
    · split <;> simp

theorem linesOf_append (a b : Bytes) (ha : a.getLast? = some NL) :
    linesOf (a ++ b) = linesOf a ++ linesOf b := by
  induction a with
  | nil => simp at ha
  | cons x xs ih =>
    cases xs with
    | nil =>
      simp at ha
      rw [List.cons_append, List.nil_append, linesOf_cons, linesOf_cons, ha]
      simp [linesOf]
    | cons y ys =>
      have ha' : (y :: ys).getLast? = some NL := by simpa [List.getLast?_cons_cons] using ha
      have h := ih ha'
      rw [List.cons_append, linesOf_cons x, linesOf_cons x (y :: ys), h]
      by_cases hx : x = NL
      · simp [hx]
      · simp only [hx, ↓reduceIte]
        have hne := linesOf_ne_nil (y :: ys) (by simp)
        cases h1 : linesOf (y :: ys) with
        | nil => exact absurd h1 hne
        | cons l ls => simp

/-- **C01.lines_chunks** — the lines (delimited-format entries) of the chunks, concatenated in
order, are exactly the lines of the newline-terminated file. -/
theorem lines_chunks (cs : List Bytes) (h : ∀ c ∈ cs, c ≠ [] ∧ c.getLast? = some NL) :
    (cs.map linesOf).flatten = linesOf cs.flatten := by
  induction cs with
  | nil => simp [linesOf]
  | cons c cs ih =>
    simp only [List.map_cons, List.flatten_cons]
    rw [linesOf_append c _ (h c (by simp)).2, ih (fun c hc => h c (by simp [hc]))]

/-! ### the shipped end-of-file rule loses data (recorded refutation) -/

/-- BED-like file `a\nb` (no final newline), chunk size 1, seek mode: the old rule returns only
the first line; the repaired rule returns both. -/
theorem readAll_old_loses :
    readAll (Fmt.kLine 1) false .seek [97, 10, 98] 1 = [[97, 10]] ∧
    readAll (Fmt.kLine 1) true .seek [97, 10, 98] 1 = [[97, 10], [98, 10]] := by decide

/-- wrapped FASTA `>a\nAC\n>b\nGG\n`, chunk size 2 (tail length a multiple of k): old rule loses `b` -/
theorem readAll_old_loses_fasta :
    (readAll Fmt.fasta false .seek [62,97,10,65,67,10,62,98,10,71,71,10] 2).flatten = [62,97,10,65,67,10] ∧
    (readAll Fmt.fasta true .seek [62,97,10,65,67,10,62,98,10,71,71,10] 2).flatten = [62,97,10,65,67,10,62,98,10,71,71,10] := by
  decide

end C01

/-! ### the k-line instance (delimited n = 1, two-line FASTA n = 2, FASTQ n = 4) satisfies the laws -/
namespace C01

def WFk (n : Nat) (r : Bytes) : Prop := n ∣ countNL (norm r)

theorem countNL_cons (x : Nat) (xs : Bytes) : countNL (x :: xs) = (if x = NL then 1 else 0) + countNL xs := by
  unfold countNL
  by_cases h : x = NL
  · simp [h]; omega
  · simp [h]

theorem countNL_append (a b : Bytes) : countNL (a ++ b) = countNL a + countNL b := by
  unfold countNL; exact List.count_append

theorem countNL_pos_of_getLast (b : Bytes) (h : b.getLast? = some NL) : 0 < countNL b := by
  unfold countNL
  apply List.count_pos_iff.mpr
  exact List.mem_of_getLast? h

theorem prefix_spec : ∀ (b : Bytes) (m : Nat), 0 < m → m ≤ countNL b →
    0 < prefixThroughNL m b ∧ prefixThroughNL m b ≤ b.length ∧
    (b.take (prefixThroughNL m b)).getLast? = some NL ∧ countNL (b.take (prefixThroughNL m b)) = m := by
  intro b
  induction b with
  | nil => intro m hm hle; simp [countNL] at hle; omega
  | cons x xs ih =>
    intro m hm hle
    cases m with
    | zero => omega
    | succ m' =>
      rw [countNL_cons] at hle
      by_cases hx : x = NL
      · simp only [hx, ↓reduceIte] at hle
        have hp : prefixThroughNL (m' + 1) (x :: xs) = 1 + prefixThroughNL m' xs := by
          simp [prefixThroughNL, hx]
        rw [hp]
        cases m' with
        | zero =>
          have : prefixThroughNL 0 xs = 0 := by cases xs <;> rfl
          rw [this]
          simp [hx, countNL]
        | succ m'' =>
          have := ih (m'' + 1) (by omega) (by omega)
          obtain ⟨h1, h2, h3, h4⟩ := this
          have e : 1 + prefixThroughNL (m'' + 1) xs = prefixThroughNL (m'' + 1) xs + 1 := by omega
          rw [e, List.take_succ_cons]
          refine ⟨by omega, by simp; omega, ?_, ?_⟩
          · have hne : xs.take (prefixThroughNL (m'' + 1) xs) ≠ [] := by
              intro hh; rw [hh] at h3; simp at h3
            rw [show x :: xs.take (prefixThroughNL (m'' + 1) xs) = [x] ++ xs.take (prefixThroughNL (m'' + 1) xs) from rfl,
              getLast?_append_of_ne_nil _ _ hne]
            exact h3
          · rw [countNL_cons, h4]; simp [hx]; omega
      · simp only [hx, ↓reduceIte, Nat.zero_add] at hle
        have hp : prefixThroughNL (m' + 1) (x :: xs) = 1 + prefixThroughNL (m' + 1) xs := by
          simp [prefixThroughNL, hx]
        rw [hp]
        have := ih (m' + 1) (by omega) hle
        obtain ⟨h1, h2, h3, h4⟩ := this
        have e : 1 + prefixThroughNL (m' + 1) xs = prefixThroughNL (m' + 1) xs + 1 := by omega
        rw [e, List.take_succ_cons]
        refine ⟨by omega, by simp; omega, ?_, ?_⟩
        · have hne : xs.take (prefixThroughNL (m' + 1) xs) ≠ [] := by
            intro hh; rw [hh] at h3; simp at h3
          rw [show x :: xs.take (prefixThroughNL (m' + 1) xs) = [x] ++ xs.take (prefixThroughNL (m' + 1) xs) from rfl,
            getLast?_append_of_ne_nil _ _ hne]
          exact h3
        · rw [countNL_cons, h4]; simp [hx]

theorem prefix_all (b : Bytes) (h : b.getLast? = some NL) : prefixThroughNL (countNL b) b = b.length := by
  induction b with
  | nil => simp at h
  | cons x xs ih =>
    cases xs with
    | nil =>
      simp at h
      simp [h, countNL, prefixThroughNL]
    | cons y ys =>
      have h' : (y :: ys).getLast? = some NL := by simpa [List.getLast?_cons_cons] using h
      have ih' := ih h'
      have hpos := countNL_pos_of_getLast _ h'
      rw [countNL_cons]
      by_cases hx : x = NL
      · simp only [hx, ↓reduceIte]
        have : prefixThroughNL (1 + countNL (y :: ys)) (NL :: y :: ys) = 1 + prefixThroughNL (countNL (y :: ys)) (y :: ys) := by
          rw [show 1 + countNL (y :: ys) = countNL (y :: ys) + 1 by omega]
          simp [prefixThroughNL]
        rw [this, ih']; simp; omega
      · simp only [hx, ↓reduceIte, Nat.zero_add]
        obtain ⟨c, hc⟩ : ∃ c, countNL (y :: ys) = c + 1 := ⟨countNL (y :: ys) - 1, by omega⟩
        rw [hc] at ih' ⊢
        have : prefixThroughNL (c + 1) (x :: y :: ys) = 1 + prefixThroughNL (c + 1) (y :: ys) := by
          simp [prefixThroughNL, hx]
        rw [this, ih']; simp; omega

theorem mult_facts (n cnt : Nat) (hn : 0 < n) (hle : n ≤ cnt) :
    0 < cnt - cnt % n ∧ cnt - cnt % n ≤ cnt ∧ n ∣ (cnt - cnt % n) := by
  have h1 := Nat.div_add_mod cnt n
  have h2 : 0 < cnt / n := Nat.div_pos hle hn
  have h3 : n ≤ n * (cnt / n) := Nat.le_mul_of_pos_right n h2
  have h4 : cnt - cnt % n = n * (cnt / n) := by omega
  refine ⟨by omega, by omega, ?_⟩
  rw [h4]; exact Nat.dvd_mul_right n _

theorem kLine_laws (n : Nat) (hn : 0 < n) : Laws (Fmt.kLine n) (WFk n) (fun c => n ∣ countNL c) where
  cut_pos := by
    intro c hc
    simp only [Fmt.kLine, decide_eq_true_eq] at hc ⊢
    have hm := mult_facts n (countNL c) hn hc
    have := prefix_spec c _ hm.1 hm.2.1
    exact ⟨this.1, this.2.1⟩
  cut_nl := by
    intro c hc
    simp only [Fmt.kLine, decide_eq_true_eq] at hc ⊢
    have hm := mult_facts n (countNL c) hn hc
    exact (prefix_spec c _ hm.1 hm.2.1).2.2.1
  wf_drop := by
    intro r c hwf hpre hc
    simp only [Fmt.kLine, decide_eq_true_eq] at hc ⊢
    have hm := mult_facts n (countNL c) hn hc
    obtain ⟨p, hp⟩ : ∃ p, p = prefixThroughNL (countNL c - countNL c % n) c := ⟨_, rfl⟩
    have hs := prefix_spec c _ hm.1 hm.2.1
    rw [← hp] at hs ⊢
    obtain ⟨t, ht⟩ := hpre
    have hdrop : r.drop p = c.drop p ++ t := by
      rw [← ht, List.drop_append_of_le_length hs.2.1]
    have hr : r = c.take p ++ r.drop p := by
      rw [hdrop, ← List.append_assoc, List.take_append_drop, ht]
    unfold WFk at hwf ⊢
    by_cases hnil : r.drop p = []
    · rw [hnil]; simp [norm, countNL]
    · have hrne : r ≠ [] := by intro e; rw [e] at hnil; simp at hnil
      have h1 : norm r = c.take p ++ addNL (r.drop p) := by
        unfold norm
        have : r.isEmpty = false := by simp [hrne]
        rw [this]
        simp only [Bool.false_eq_true, ↓reduceIte]
        conv => lhs; rw [hr]
        exact addNL_append _ _ hnil
      have h2 : norm (r.drop p) = addNL (r.drop p) := by
        unfold norm
        have : (r.drop p).isEmpty = false := by simp [hnil]
        rw [this]; simp
      rw [h1, countNL_append, hs.2.2.2] at hwf
      rw [h2]
      exact (Nat.dvd_add_right hm.2.2).mp hwf
  wf_final := by
    intro r hwf hrne
    unfold WFk at hwf
    have h2 : norm r = addNL r := by
      unfold norm
      have : r.isEmpty = false := by simp [hrne]
      rw [this]; simp
    rw [h2] at hwf
    have hpos := countNL_pos_of_getLast _ (addNL_getLast r)
    have hle : n ≤ countNL (addNL r) := Nat.le_of_dvd hpos hwf
    have hmod : countNL (addNL r) % n = 0 := Nat.mod_eq_zero_of_dvd hwf
    simp only [Fmt.kLine, fixEnd, List.append_nil, decide_eq_true_eq]
    refine ⟨hle, ?_⟩
    rw [hmod, Nat.sub_zero]
    exact prefix_all _ (addNL_getLast r)
  cut_al := by
    intro _ c _ _ hc
    simp only [Fmt.kLine, decide_eq_true_eq] at hc ⊢
    have hm := mult_facts n (countNL c) hn hc
    rw [(prefix_spec c _ hm.1 hm.2.1).2.2.2]
    exact hm.2.2
  final_al := by
    intro r hwf hrne
    unfold WFk at hwf
    have h2 : norm r = addNL r := by
      unfold norm
      have : r.isEmpty = false := by simp [hrne]
      rw [this]; simp
    rw [h2] at hwf
    exact hwf

/-- **C01.readAll_bytes_kLine** — FASTQ (n = 4), two-line FASTA (n = 2) and delimited (n = 1)
files whose line count is a multiple of `n`: for EVERY chunk size and both modes the chunks
concatenate to the newline-terminated file; each chunk is non-empty and newline-terminated. -/
theorem readAll_bytes_kLine (n : Nat) (hn : 0 < n) (mode : Mode) (file : Bytes)
    (hwf : n ∣ countNL (norm file)) (k : Nat) (hk : 0 < k) :
    (readAll (Fmt.kLine n) true mode file k).flatten = norm file ∧
    ∀ c ∈ readAll (Fmt.kLine n) true mode file k, c ≠ [] ∧ c.getLast? = some NL ∧ n ∣ countNL c :=
  readAll_bytes (Fmt.kLine n) (WFk n) (fun c => n ∣ countNL c) (kLine_laws n hn) (by simp [WFk, norm, countNL]) mode file hwf k hk

/-- **C01.readAll_delimited** — every byte string is a well-formed delimited file: for every
file, chunk size and mode, the lines of the delivered chunks in order are exactly the lines of
the newline-terminated file: no entry lost, duplicated or reordered. -/
theorem readAll_delimited (mode : Mode) (file : Bytes) (k : Nat) (hk : 0 < k) :
    ((readAll (Fmt.kLine 1) true mode file k).map linesOf).flatten = linesOf (norm file) := by
  have h := readAll_bytes_kLine 1 (by omega) mode file (Nat.one_dvd _) k hk
  rw [lines_chunks _ (fun c hc => ⟨(h.2 c hc).1, (h.2 c hc).2.1⟩), h.1]

/-! non-vacuity: a FASTQ-shaped file satisfies the hypothesis and is read in 3 chunks -/
example : 4 ∣ countNL (norm [64,97,10,65,10,43,10,73,10,64,98,10,67,10,43,10,73]) := by decide
example : (readAll (Fmt.kLine 4) true .carry [64,97,10,65,10,43,10,73,10,64,98,10,67,10,43,10,73] 5).length = 2 := by decide

end C01

/-! ### the wrapped-FASTA instance satisfies the laws (every byte string; the code's
`assert chunk[0] == '>'` is outside the model) -/
namespace C01

theorem les_cons_cons (x y : Nat) (rest : Bytes) :
    lastEntryStart (x :: y :: rest) =
      if lastEntryStart (y :: rest) > 0 then lastEntryStart (y :: rest) + 1
      else if x = NL ∧ y = GT then 1 else 0 := by
  rw [lastEntryStart]

theorem les_spec : ∀ (b : Bytes), lastEntryStart b ≤ b.length ∧
    (0 < lastEntryStart b → (b.take (lastEntryStart b)).getLast? = some NL) := by
  intro b
  induction b with
  | nil => simp [lastEntryStart]
  | cons x xs ih =>
    cases xs with
    | nil => simp [lastEntryStart]
    | cons y rest =>
      rw [les_cons_cons]
      by_cases h : lastEntryStart (y :: rest) > 0
      · simp only [h, ↓reduceIte]
        refine ⟨by have := ih.1; simp at this ⊢; omega, fun _ => ?_⟩
        rw [List.take_succ_cons]
        have hne : (y :: rest).take (lastEntryStart (y :: rest)) ≠ [] := by
          intro e; have := ih.2 h; rw [e] at this; simp at this
        rw [show x :: (y :: rest).take (lastEntryStart (y :: rest)) = [x] ++ (y :: rest).take (lastEntryStart (y :: rest)) from rfl,
          getLast?_append_of_ne_nil _ _ hne]
        exact ih.2 h
      · simp only [h, ↓reduceIte]
        by_cases h2 : x = NL ∧ y = GT
        · simp [h2]
        · simp [h2]

theorem les_append_pair (a : Bytes) : lastEntryStart (a ++ [NL, GT]) = a.length + 1 := by
  induction a with
  | nil => decide
  | cons x a' ih =>
    cases hrest : a' ++ [NL, GT] with
    | nil => simp at hrest
    | cons y rest =>
      rw [List.cons_append, hrest, les_cons_cons, ← hrest, ih]
      simp

theorem addNL_split (r : Bytes) : ∃ a, addNL r = a ++ [NL] := by
  have h := addNL_getLast r
  have hne := addNL_ne_nil r
  refine ⟨(addNL r).dropLast, ?_⟩
  have h1 := List.dropLast_concat_getLast hne
  have h2 : (addNL r).getLast hne = NL := by
    rw [List.getLast?_eq_some_getLast hne] at h
    exact Option.some.inj h
  rw [h2] at h1
  exact h1.symm

/-- a remaining FASTA content is well formed when it is empty or starts with a header marker -/
def WFfasta (r : Bytes) : Prop := r = [] ∨ r.head? = some GT

theorem les_getElem : ∀ (b : Bytes), 0 < lastEntryStart b → b[lastEntryStart b]? = some GT := by
  intro b
  induction b with
  | nil => simp [lastEntryStart]
  | cons x xs ih =>
    cases xs with
    | nil => simp [lastEntryStart]
    | cons y rest =>
      rw [les_cons_cons]
      by_cases h : lastEntryStart (y :: rest) > 0
      · simp only [h, ↓reduceIte]
        intro _
        rw [List.getElem?_cons_succ]
        exact ih h
      · simp only [h, ↓reduceIte]
        by_cases h2 : x = NL ∧ y = GT
        · simp [h2]
        · simp [h2]

theorem fasta_laws : Laws Fmt.fasta WFfasta (fun c => c.head? = some GT) where
  cut_pos := by
    intro c hc
    simp only [Fmt.fasta, hasEntryBreak, decide_eq_true_eq] at hc ⊢
    exact ⟨hc, (les_spec c).1⟩
  cut_nl := by
    intro c hc
    simp only [Fmt.fasta, hasEntryBreak, decide_eq_true_eq] at hc ⊢
    exact (les_spec c).2 hc
  wf_drop := by
    intro r c _ hpre hc
    simp only [Fmt.fasta, hasEntryBreak, decide_eq_true_eq] at hc ⊢
    obtain ⟨t, ht⟩ := hpre
    have hg := les_getElem c hc
    right
    rw [← ht, List.head?_drop, List.getElem?_append_left (by
      have := hg; rw [List.getElem?_eq_some_iff] at this; obtain ⟨h, _⟩ := this; exact h)]
    exact hg
  wf_final := by
    intro r _ _
    obtain ⟨a, ha⟩ := addNL_split r
    simp only [Fmt.fasta, fixEnd, hasEntryBreak, decide_eq_true_eq]
    rw [ha, List.append_assoc]
    simp only [List.cons_append, List.nil_append]
    rw [les_append_pair]
    simp
  cut_al := by
    intro r c hwf hpre hc
    simp only [Fmt.fasta, hasEntryBreak, decide_eq_true_eq] at hc ⊢
    obtain ⟨t, ht⟩ := hpre
    have hpos := hc
    rcases hwf with h | h
    · subst h; simp at ht; rw [ht.1] at hc; simp [lastEntryStart] at hc
    · cases c with
      | nil => simp [lastEntryStart] at hc
      | cons x xs =>
        rw [← ht] at h
        simp only [List.cons_append, List.head?_cons, Option.some.injEq] at h
        obtain ⟨k, hk⟩ : ∃ k, lastEntryStart (x :: xs) = k + 1 := ⟨lastEntryStart (x :: xs) - 1, by omega⟩
        rw [hk, List.take_succ_cons]
        simp [h]
  final_al := by
    intro r hwf hrne
    rcases hwf with h | h
    · exact absurd h hrne
    · cases r with
      | nil => exact absurd rfl hrne
      | cons x xs =>
        simp only [List.head?_cons, Option.some.injEq] at h
        unfold addNL
        split <;> simp [h]

/-- **C01.readAll_bytes_fasta** — wrapped (multi-line) FASTA: for EVERY file that is empty or
starts with a header line, every chunk size and both modes, the delivered chunks concatenate
to the newline-terminated file; each chunk is non-empty, ends with a newline and STARTS WITH A
HEADER MARKER — so every chunk is a whole number of records (a record is never split). -/
theorem readAll_bytes_fasta (mode : Mode) (file : Bytes) (hwf : file = [] ∨ file.head? = some GT)
    (k : Nat) (hk : 0 < k) :
    (readAll Fmt.fasta true mode file k).flatten = norm file ∧
    ∀ c ∈ readAll Fmt.fasta true mode file k, c ≠ [] ∧ c.getLast? = some NL ∧ c.head? = some GT :=
  readAll_bytes Fmt.fasta WFfasta (fun c => c.head? = some GT) fasta_laws (Or.inl rfl) mode file hwf k hk

example : (readAll Fmt.fasta true .seek [62,97,10,65,67,10,62,98,10,71,71,10] 2) = [[62,97,10,65,67,10],[62,98,10,71,71,10]] := by decide

end C01

/-! ### entries of n-line formats: chunks parse independently -/
namespace C01

theorem linesOf_length (b : Bytes) (h : b = [] ∨ b.getLast? = some NL) : (linesOf b).length = countNL b := by
  induction b with
  | nil => simp [linesOf, countNL]
  | cons x xs ih =>
    have hx : xs = [] ∨ xs.getLast? = some NL := by
      cases xs with
      | nil => exact Or.inl rfl
      | cons y ys =>
        right
        rcases h with h | h
        · simp at h
        · simpa [List.getLast?_cons_cons] using h
    rw [linesOf_cons, countNL_cons]
    by_cases hnl : x = NL
    · simp [hnl, ih hx]; omega
    · simp only [hnl, ↓reduceIte, Nat.zero_add]
      cases xs with
      | nil => rcases h with h | h <;> simp at h; exact absurd h hnl
      | cons y ys =>
        have hne := linesOf_ne_nil (y :: ys) (by simp)
        cases h1 : linesOf (y :: ys) with
        | nil => exact absurd h1 hne
        | cons l ls => rw [← ih hx, h1]; simp

theorem groupsOf_append {α} (n : Nat) (hn : 0 < n) (l1 l2 : List α) (h : n ∣ l1.length) :
    groupsOf n (l1 ++ l2) = groupsOf n l1 ++ groupsOf n l2 := by
  obtain ⟨a, ha⟩ := h
  unfold groupsOf
  have hlen : (l1 ++ l2).length / n = a + l2.length / n := by
    rw [List.length_append, ha, Nat.mul_add_div hn]
  have hl1 : l1.length / n = a := by rw [ha, Nat.mul_div_cancel_left _ hn]
  rw [hlen, hl1, List.range_add, List.map_append, List.map_map]
  congr 1
  · apply List.map_congr_left
    intro i hi
    have hi' : i < a := by simpa using hi
    have hle : i * n + n ≤ l1.length := by
      rw [ha]; calc i * n + n = (i + 1) * n := by rw [Nat.add_mul]; simp
        _ ≤ a * n := Nat.mul_le_mul_right n hi'
        _ = n * a := Nat.mul_comm _ _
    rw [List.drop_append_of_le_length (by omega), List.take_append_of_le_length (by simp; omega)]
  · apply List.map_congr_left
    intro j _
    simp only [Function.comp]
    have : (a + j) * n = l1.length + j * n := by rw [Nat.add_mul, ha, Nat.mul_comm a n]
    rw [this, ← List.drop_drop, List.drop_left' rfl]

theorem entriesK_append (n : Nat) (hn : 0 < n) (a b : Bytes) (ha : a.getLast? = some NL)
    (hal : n ∣ countNL a) : entriesK n (a ++ b) = entriesK n a ++ entriesK n b := by
  unfold entriesK
  rw [linesOf_append a b ha]
  apply groupsOf_append n hn
  rw [linesOf_length a (Or.inr ha)]; exact hal

theorem entriesK_chunks (n : Nat) (hn : 0 < n) (cs : List Bytes)
    (h : ∀ c ∈ cs, c ≠ [] ∧ c.getLast? = some NL ∧ n ∣ countNL c) :
    (cs.map (entriesK n)).flatten = entriesK n cs.flatten := by
  induction cs with
  | nil => simp [entriesK, groupsOf, linesOf]
  | cons c cs ih =>
    simp only [List.map_cons, List.flatten_cons]
    have hc := h c (by simp)
    rw [entriesK_append n hn c _ hc.2.1 hc.2.2, ih (fun c hc => h c (by simp [hc]))]

/-- **C01.entries_chunks_kLine** — FASTQ / two-line FASTA / delimited: the entries (groups of `n`
lines) of the delivered chunks, concatenated in order, are exactly the entries of the
newline-terminated file — for every chunk size and both modes. -/
theorem entries_chunks_kLine (n : Nat) (hn : 0 < n) (mode : Mode) (file : Bytes)
    (hwf : n ∣ countNL (norm file)) (k : Nat) (hk : 0 < k) :
    ((readAll (Fmt.kLine n) true mode file k).map (entriesK n)).flatten = entriesK n (norm file) := by
  have h := readAll_bytes_kLine n hn mode file hwf k hk
  rw [entriesK_chunks n hn _ h.2, h.1]

example : entriesK 2 [62,97,10,65,10,62,98,10,67,10] = [[[62,97],[65]],[[62,98],[67]]] := by decide

end C01

namespace C01
/-- **C01.whole_read** — `read()` (the whole file at once) delivers the newline-terminated file for
every format satisfying the laws and every well-formed file; so chunked reading (`readAll_bytes`)
and whole reading deliver the same bytes. -/
theorem whole_read (F : Fmt) (WF : Bytes → Prop) (AL : Bytes → Prop) (L : Laws F WF AL) (file : Bytes)
    (hwf : WF file) : readWhole F file = norm file := by
  unfold readWhole norm
  by_cases h : file = []
  · simp [h]
  · have hne : file.isEmpty = false := by simp [h]
    simp only [hne, Bool.false_eq_true, ↓reduceIte]
    have hf := L.wf_final file hwf h
    rw [hf.2]
    unfold fixEnd
    simp

/-- chunked = whole, for every chunk size and both modes -/
theorem chunked_eq_whole (F : Fmt) (WF : Bytes → Prop) (AL : Bytes → Prop) (L : Laws F WF AL) (hnil : WF [])
    (mode : Mode) (file : Bytes) (hwf : WF file) (k : Nat) (hk : 0 < k) :
    (readAll F true mode file k).flatten = readWhole F file := by
  rw [(readAll_bytes F WF AL L hnil mode file hwf k hk).1, whole_read F WF AL L file hwf]

/-! ### `max_chunk_size`: a cap can only turn a read into an error, never change what is delivered -/

theorem accumulateCap_refines (F : Fmt) (nr : Bool) (file : Bytes) (k cap : Nat) :
    ∀ (fuel pos : Nat) (acc : Bytes) (fp : Bool),
      (∀ r, accumulateCap F nr file k cap fuel pos acc fp = .ok r → accumulate F nr file k fuel pos acc fp = some r) ∧
      (accumulateCap F nr file k cap fuel pos acc fp = .stop → accumulate F nr file k fuel pos acc fp = none) := by
  intro fuel
  induction fuel with
  | zero => intro pos acc fp; simp [accumulateCap, accumulate]
  | succ fuel ih =>
    intro pos acc fp
    simp only [accumulateCap, accumulate]
    generalize (file.drop pos).take k = raw
    generalize decide (raw.length < k) = fin
    by_cases h0 : raw.length = 0
    · simp only [h0, ↓reduceIte]
      by_cases hc : (nr && !acc.isEmpty && !fp) = true
      · simp only [hc, ↓reduceIte]
        by_cases hcap : (fixEnd F acc).length > cap
        · simp [hcap]
        · simp only [hcap, ↓reduceIte]
          by_cases hcomp : F.complete (fixEnd F acc) = true <;> simp [hcomp]
      · simp [hc]
    · simp only [h0, ↓reduceIte]
      generalize acc ++ (if fin = true then fixEnd F raw else raw) = acc'
      by_cases hcap : acc'.length > cap
      · simp [hcap]
      · simp only [hcap, ↓reduceIte]
        by_cases hcomp : F.complete acc' = true
        · simp [hcomp]
        · simp only [hcomp]; exact ih _ _ _

theorem readChunkCap_refines (F : Fmt) (nr : Bool) (mode : Mode) (file : Bytes) (k cap : Nat) (s : St) :
    (∀ r, readChunkCap F nr mode file k cap s = .ok r → readChunk F nr mode file k s = some r) ∧
    (readChunkCap F nr mode file k cap s = .stop → readChunk F nr mode file k s = none) := by
  have h := accumulateCap_refines F nr file k cap (file.length + 2) s.pos s.carry s.finished
  unfold readChunkCap readChunk
  cases hc : accumulateCap F nr file k cap (file.length + 2) s.pos s.carry s.finished with
  | stop => simp [h.2 hc]
  | err => simp
  | ok r =>
    obtain ⟨chunk, pos', fin⟩ := r
    simp [h.1 _ hc]

theorem readLoopCap_refines (F : Fmt) (nr : Bool) (mode : Mode) (file : Bytes) (k cap : Nat) :
    ∀ (fuel : Nat) (s : St) (cs : List Bytes),
      readLoopCap F nr mode file k cap fuel s = some cs → readLoop F nr mode file k fuel s = cs := by
  intro fuel
  induction fuel with
  | zero => intro s cs h; simp [readLoopCap] at h; simp [readLoop, h]
  | succ fuel ih =>
    intro s cs h
    have hr := readChunkCap_refines F nr mode file k cap s
    unfold readLoopCap at h
    unfold readLoop
    cases hc : readChunkCap F nr mode file k cap s with
    | stop => rw [hc] at h; simp at h; simp [hr.2 hc, h]
    | err => rw [hc] at h; simp at h
    | ok r =>
      obtain ⟨out, s'⟩ := r
      rw [hc] at h
      simp only at h
      rw [hr.1 _ hc]
      simp only
      by_cases he : out.isEmpty = true
      · simp [he] at h ⊢; first | exact h | exact h.symm
      · simp only [he, Bool.false_eq_true, ↓reduceIte] at h ⊢
        cases hl : readLoopCap F nr mode file k cap fuel s' with
        | none => rw [hl] at h; simp at h
        | some rest =>
          rw [hl] at h
          simp at h
          rw [ih s' rest hl, h]

/-- **C01.capped_read** — `read_chunks(min_chunk_size=k, max_chunk_size=cap)`: for every format, file,
chunk size, cap and mode, a capped read that completes delivers exactly the chunks of the uncapped
read (hence, by `readAll_bytes`, the whole newline-terminated file): the cap can make the read
refuse, it can never make it lose, duplicate or alter an entry. -/
theorem capped_read (F : Fmt) (nr : Bool) (mode : Mode) (file : Bytes) (k cap : Nat) (cs : List Bytes)
    (h : readAllCap F nr mode file k cap = some cs) : cs = readAll F nr mode file k :=
  (readLoopCap_refines F nr mode file k cap _ _ cs h).symm

/-- a cap below the first entry refuses (non-vacuity of the error branch), a generous one does not -/
example : readAllCap (Fmt.kLine 1) true .seek [65, 66, 67, 10, 68, 10] 2 3 = none ∧
    readAllCap (Fmt.kLine 1) true .seek [65, 66, 67, 10, 68, 10] 2 6 = some [[65, 66, 67, 10], [68, 10]] := by decide

end C01

/-! ## responses to the independent review (audit/review-C01-C10.md): a generous cap never refuses; wrapped FASTA at record level; CRLF per-chunk stripping composes -/
namespace C01

/-! ### a generous cap never refuses -/

theorem fixEnd_length (F : Fmt) (b : Bytes) : (fixEnd F b).length ≤ b.length + 1 + F.marker.length := by
  unfold fixEnd addNL
  split <;> simp <;> omega

theorem accumulate_eof_fin (F : Fmt) (nr : Bool) (file : Bytes) (k cap : Nat) (acc : Bytes) : ∀ fuel,
    accumulateCap F nr file k cap fuel file.length acc true = .stop ∧
    accumulate F nr file k fuel file.length acc true = none := by
  intro fuel
  cases fuel with
  | zero => simp [accumulateCap, accumulate]
  | succ fuel => simp [accumulateCap, accumulate]

theorem accumulateCap_of_bound (F : Fmt) (nr : Bool) (file : Bytes) (k cap : Nat)
    (hcap : file.length + 1 + F.marker.length ≤ cap) :
    ∀ (fuel pos : Nat) (acc : Bytes) (fp : Bool), acc.length ≤ pos → pos ≤ file.length →
      accumulateCap F nr file k cap fuel pos acc fp = toRes (accumulate F nr file k fuel pos acc fp) ∧
      (∀ chunk pos' fin, accumulate F nr file k fuel pos acc fp = some (chunk, pos', fin) →
        pos' ≤ file.length ∧ (fin = false → chunk.length ≤ pos')) := by
  intro fuel
  induction fuel with
  | zero => intro pos acc fp _ _; simp [accumulateCap, accumulate, toRes]
  | succ fuel ih =>
    intro pos acc fp hacc hpos
    simp only [accumulateCap, accumulate]
    have hrawlen : ((file.drop pos).take k).length ≤ file.length - pos := by
      simp only [List.length_take, List.length_drop]; omega
    have hfinlen : decide (((file.drop pos).take k).length < k) = true → pos + ((file.drop pos).take k).length = file.length := by
      simp only [List.length_take, List.length_drop, decide_eq_true_eq]; omega
    generalize (file.drop pos).take k = raw at hrawlen hfinlen
    generalize decide (raw.length < k) = fin at hfinlen
    by_cases h0 : raw.length = 0
    · simp only [h0, ↓reduceIte]
      by_cases hc : (nr && !acc.isEmpty && !fp) = true
      · simp only [hc, ↓reduceIte]
        have hl := fixEnd_length F acc
        have hcap' : ¬ (fixEnd F acc).length > cap := by omega
        simp only [hcap', ↓reduceIte]
        by_cases hcomp : F.complete (fixEnd F acc) = true
        · simp only [hcomp, ↓reduceIte, toRes, true_and]
          intro chunk pos' fin' h
          simp only [Option.some.injEq, Prod.mk.injEq] at h
          obtain ⟨_, rfl, rfl⟩ := h
          exact ⟨hpos, by simp⟩
        · simp [hcomp, toRes]
      · simp [hc, toRes]
    · simp only [h0, ↓reduceIte]
      have hacc' : (acc ++ (if fin = true then fixEnd F raw else raw)).length ≤ pos + raw.length + 1 + F.marker.length := by
        have := fixEnd_length F raw
        split <;> simp <;> omega
      have hnofix : fin = false → (acc ++ (if fin = true then fixEnd F raw else raw)).length ≤ pos + raw.length := by
        intro hf; simp [hf]; omega
      generalize acc ++ (if fin = true then fixEnd F raw else raw) = acc' at hacc' hnofix
      have hcap' : ¬ acc'.length > cap := by omega
      simp only [hcap', ↓reduceIte]
      by_cases hcomp : F.complete acc' = true
      · simp only [hcomp, ↓reduceIte, toRes, true_and]
        intro chunk pos' fin' h
        simp only [Option.some.injEq, Prod.mk.injEq] at h
        obtain ⟨rfl, rfl, rfl⟩ := h
        exact ⟨by omega, hnofix⟩
      · simp only [hcomp]
        by_cases hf : fin = false
        · exact ih (pos + raw.length) acc' fin (hnofix hf) (by omega)
        · have hfin : fin = true := by simpa using hf
          subst hfin
          rw [hfinlen rfl]
          have := accumulate_eof_fin F nr file k cap acc' fuel
          rw [this.1, this.2]
          simp [toRes]

theorem readChunkCap_of_bound (F : Fmt) (nr : Bool) (mode : Mode) (file : Bytes) (k cap : Nat)
    (hcap : file.length + 1 + F.marker.length ≤ cap) (s : St) (hs : StOK file s) :
    readChunkCap F nr mode file k cap s = toRes (readChunk F nr mode file k s) ∧
    (∀ out s', readChunk F nr mode file k s = some (out, s') → StOK file s') := by
  have h := accumulateCap_of_bound F nr file k cap hcap (file.length + 2) s.pos s.carry s.finished hs.1 hs.2
  unfold readChunkCap readChunk
  rw [h.1]
  cases hacc : accumulate F nr file k (file.length + 2) s.pos s.carry s.finished with
  | none => simp [toRes]
  | some r =>
    obtain ⟨chunk, pos', fin⟩ := r
    have hb := h.2 chunk pos' fin hacc
    simp only [toRes, true_and]
    intro out s' hs'
    simp only [Option.some.injEq, Prod.mk.injEq] at hs'
    obtain ⟨_, rfl⟩ := hs'
    by_cases hf : fin = true
    · simp [hf, StOK, hb.1]
    · have hf' : fin = false := by simpa using hf
      have hlen := hb.2 hf'
      cases mode with
      | seek => simp only [hf', Bool.false_eq_true, ↓reduceIte, StOK, List.length_nil]; omega
      | carry =>
        simp only [hf', Bool.false_eq_true, ↓reduceIte, StOK, List.length_drop]
        omega

theorem readLoopCap_of_bound (F : Fmt) (nr : Bool) (mode : Mode) (file : Bytes) (k cap : Nat)
    (hcap : file.length + 1 + F.marker.length ≤ cap) :
    ∀ (fuel : Nat) (s : St), StOK file s →
      readLoopCap F nr mode file k cap fuel s = some (readLoop F nr mode file k fuel s) := by
  intro fuel
  induction fuel with
  | zero => intro s _; rfl
  | succ fuel ih =>
    intro s hs
    have h := readChunkCap_of_bound F nr mode file k cap hcap s hs
    unfold readLoopCap readLoop
    rw [h.1]
    cases hc : readChunk F nr mode file k s with
    | none => simp [toRes]
    | some r =>
      obtain ⟨out, s'⟩ := r
      simp only [toRes]
      by_cases he : out.isEmpty = true
      · simp [he]
      · simp only [he, Bool.false_eq_true, ↓reduceIte]
        rw [ih s' (h.2 out s' hc)]
        rfl

/-- **C01.capped_read_succeeds** — the converse of `capped_read`: a cap of at least the file size plus the bytes
appended at end of file (one newline and the format's entry marker) never refuses: the capped read delivers
exactly the chunks of the uncapped read — for every format, file, chunk size and mode. -/
theorem capped_read_succeeds (F : Fmt) (nr : Bool) (mode : Mode) (file : Bytes) (k cap : Nat)
    (hcap : file.length + 1 + F.marker.length ≤ cap) :
    readAllCap F nr mode file k cap = some (readAll F nr mode file k) :=
  readLoopCap_of_bound F nr mode file k cap hcap _ init (by simp [StOK, init])

/-- the bound is tight for wrapped FASTA in carry mode (the reviewer's example): one byte less can refuse -/
example : readAllCap Fmt.fasta true .carry [62, 97, 10, 65, 67, 10, 62, 98, 10, 71, 71] 100 12 = none ∧
    readAllCap Fmt.fasta true .carry [62, 97, 10, 65, 67, 10, 62, 98, 10, 71, 71] 100 13 =
      some (readAll Fmt.fasta true .carry [62, 97, 10, 65, 67, 10, 62, 98, 10, 71, 71] 100) := by decide

end C01

namespace C01

/-! ### wrapped FASTA at the level of records (a header line and the sequence lines that follow it) -/

theorem splitRec_append_hdr (h : Bytes) (t : List Bytes) (hh : isHdr h = true) :
    ∀ (a cur : List Bytes), splitRec (a ++ h :: t) cur =
      (if cur ++ a = [] then [] else splitRec a cur) ++ splitRec (h :: t) [] := by
  intro a
  induction a with
  | nil =>
    intro cur
    simp only [List.nil_append, List.append_nil, splitRec, hh, ne_eq, not_true_eq_false, and_false, ↓reduceIte]
    by_cases hc : cur = []
    · simp [hc]
    · simp [hc]
  | cons l a ih =>
    intro cur
    simp only [List.cons_append, splitRec]
    have hne : ¬ (cur ++ l :: a = []) := by simp
    simp only [hne, ↓reduceIte]
    split
    · rw [ih [l]]; simp [splitRec]
    · rw [ih (cur ++ [l])]; simp [splitRec]

theorem linesOf_head_hdr (b : Bytes) (hb : b.head? = some GT) : ∃ h t, linesOf b = h :: t ∧ isHdr h = true := by
  cases b with
  | nil => simp at hb
  | cons x xs =>
    have hx : x = GT := by simpa using hb
    rw [linesOf_cons]
    have : ¬ x = NL := by rw [hx]; decide
    simp only [this, ↓reduceIte]
    cases linesOf xs with
    | nil => exact ⟨[x], [], rfl, by simp [isHdr, hx]⟩
    | cons l ls => exact ⟨x :: l, ls, rfl, by simp [isHdr, hx]⟩

theorem recordsFasta_append (a b : Bytes) (ha : a ≠ []) (hal : a.getLast? = some NL) (hb : b = [] ∨ b.head? = some GT) :
    recordsFasta (a ++ b) = recordsFasta a ++ recordsFasta b := by
  unfold recordsFasta
  rcases hb with rfl | hb
  · simp [linesOf, splitRec]
  · obtain ⟨h, t, hl, hh⟩ := linesOf_head_hdr b hb
    rw [linesOf_append a b hal, hl, splitRec_append_hdr h t hh (linesOf a) []]
    have hne : linesOf a ≠ [] := linesOf_ne_nil a ha
    simp [hne]

/-- **C01.records_chunks_fasta** — wrapped (multi-line) FASTA at the level of records: for every file that is empty
or starts with a header line, every chunk size and both modes, the records of the delivered chunks, concatenated in
order, are exactly the records of the newline-terminated file — no record is lost, duplicated, reordered or split
between two chunks. -/
theorem records_chunks_fasta (mode : Mode) (file : Bytes) (hwf : file = [] ∨ file.head? = some GT)
    (k : Nat) (hk : 0 < k) :
    ((readAll Fmt.fasta true mode file k).map recordsFasta).flatten = recordsFasta (norm file) := by
  have h := readAll_bytes_fasta mode file hwf k hk
  rw [← h.1]
  have hall := h.2
  generalize readAll Fmt.fasta true mode file k = cs at hall
  induction cs with
  | nil => simp [recordsFasta, linesOf, splitRec]
  | cons c cs ih =>
    have hc := hall c (by simp)
    simp only [List.map_cons, List.flatten_cons]
    have hrest : cs.flatten = [] ∨ cs.flatten.head? = some GT := by
      cases cs with
      | nil => exact Or.inl rfl
      | cons d ds =>
        have hd := hall d (by simp)
        right
        cases d with
        | nil => exact absurd rfl hd.1
        | cons x xs => simpa using hd.2.2
    rw [recordsFasta_append c cs.flatten hc.1 hc.2.1 hrest, ih (fun d hd => hall d (by simp [hd]))]

example : recordsFasta [62,97,10,65,67,10,71,10,62,98,10,71,71,10] = [[[62,97],[65,67],[71]], [[62,98],[71,71]]] := by decide

end C01

namespace C01

/-! ### CRLF: the buffers strip a trailing carriage return from every line of a chunk when the chunk's FIRST line has
one (`_modify_for_carriage_return`), so parsing happens per chunk — it must still compose -/

theorem dropCR_of_not (l : Bytes) (h : endsCR l = false) : dropCR l = l := by simp [dropCR, h]

theorem parseLines_LF (ls : List Bytes) (h : AllLF ls) : parseLines ls = ls.map dropCR := by
  have hm : ls.map dropCR = ls := by
    rw [List.map_congr_left (fun l hl => dropCR_of_not l (h l hl))]; simp
  cases ls with
  | nil => rfl
  | cons l t => simp only [parseLines, h l (by simp), Bool.false_eq_true, ↓reduceIte]; exact hm.symm

theorem parseLines_CRLF (ls : List Bytes) (h : AllCRLF ls) : parseLines ls = ls.map dropCR := by
  obtain ⟨init, last, rfl, hi⟩ := h
  cases init with
  | nil =>
    simp only [List.nil_append, parseLines]
    split
    · rfl
    · rename_i hl; simp [dropCR_of_not last (by simpa using hl)]
  | cons l t => simp [parseLines, hi l (by simp)]

theorem crlf_chunks_CRLF : ∀ (cs : List (List Bytes)), (∀ c ∈ cs, c ≠ []) → AllCRLF cs.flatten →
    (cs.map parseLines).flatten = cs.flatten.map dropCR := by
  intro cs
  induction cs with
  | nil => intro _ _; rfl
  | cons c cs ih =>
    intro hne hB
    cases cs with
    | nil =>
      simp only [List.flatten_cons, List.flatten_nil, List.append_nil, List.map_cons, List.map_nil] at hB ⊢
      exact parseLines_CRLF c hB
    | cons c2 rest =>
      obtain ⟨init, last, hE, hi⟩ := hB
      have hneTail : ∀ d ∈ c2 :: rest, d ≠ [] := fun d hd => hne d (List.mem_cons_of_mem _ hd)
      have hcne := hne c (by simp)
      have hc2 : (c2 :: rest).flatten ≠ [] := by
        have := hne c2 (by simp)
        cases c2 with
        | nil => exact absurd rfl this
        | cons x xs => simp
      have hE' : c ++ (c2 :: rest).flatten = init ++ [last] := by simpa using hE
      -- in both cases: every line of c ends with CR, and the rest is again a CRLF text
      have key : (∀ l ∈ c, endsCR l = true) ∧ AllCRLF (c2 :: rest).flatten := by
        rcases List.append_eq_append_iff.mp hE' with ⟨a', h1, h2⟩ | ⟨c', h1, h2⟩
        · exact ⟨fun l hl => hi l (by rw [h1]; simp [hl]), a', last, h2, fun l hl => hi l (by rw [h1]; simp [hl])⟩
        · cases c' with
          | nil =>
            simp only [List.append_nil] at h1
            simp only [List.nil_append] at h2
            exact ⟨fun l hl => hi l (by rw [← h1]; exact hl), [], last, by simpa using h2.symm, by simp⟩
          | cons x xs =>
            simp only [List.cons_append, List.cons.injEq] at h2
            have : xs ++ (c2 :: rest).flatten = [] := h2.2.symm
            exact absurd (List.append_eq_nil_iff.mp this).2 hc2
      have hpc : parseLines c = c.map dropCR := by
        cases c with
        | nil => exact absurd rfl hcne
        | cons l t => simp [parseLines, key.1 l (by simp)]
      have hrec := ih hneTail key.2
      rw [List.map_cons, List.flatten_cons, hpc, hrec]
      simp

theorem crlf_chunks_LF (cs : List (List Bytes)) (hA : AllLF cs.flatten) :
    (cs.map parseLines).flatten = cs.flatten.map dropCR := by
  induction cs with
  | nil => rfl
  | cons c cs ih =>
    simp only [List.map_cons, List.flatten_cons, List.map_append]
    rw [parseLines_LF c (fun l hl => hA l (by simp [hl])), ih (fun l hl => hA l (by simp [hl]))]

/-- **C01.crlf_chunks** — per-chunk carriage-return stripping composes: for a file whose lines all end with LF, or all
with CRLF (the last line possibly unterminated), every chunk size and both modes, stripping per delivered chunk and
concatenating gives exactly what stripping the whole file gives (and both are "drop the CR of every line"). -/
theorem crlf_chunks (n : Nat) (hn : 0 < n) (mode : Mode) (file : Bytes) (hwf : n ∣ countNL (norm file)) (k : Nat) (hk : 0 < k)
    (hU : AllLF (linesOf (norm file)) ∨ AllCRLF (linesOf (norm file))) :
    ((readAll (Fmt.kLine n) true mode file k).map (fun c => parseLines (linesOf c))).flatten = parseLines (linesOf (norm file)) := by
  have h := readAll_bytes_kLine n hn mode file hwf k hk
  have hl : ((readAll (Fmt.kLine n) true mode file k).map linesOf).flatten = linesOf (norm file) := by
    rw [lines_chunks _ (fun c hc => ⟨(h.2 c hc).1, (h.2 c hc).2.1⟩), h.1]
  have hne : ∀ c ∈ (readAll (Fmt.kLine n) true mode file k).map linesOf, c ≠ [] := by
    intro c hc
    obtain ⟨b, hb, rfl⟩ := List.mem_map.mp hc
    exact linesOf_ne_nil b (h.2 b hb).1
  have hmap : (readAll (Fmt.kLine n) true mode file k).map (fun c => parseLines (linesOf c)) =
      ((readAll (Fmt.kLine n) true mode file k).map linesOf).map parseLines := by simp
  rw [hmap]
  rcases hU with hA | hB
  · rw [crlf_chunks_LF _ (by rw [hl]; exact hA), hl, parseLines_LF _ hA]
  · rw [crlf_chunks_CRLF _ hne (by rw [hl]; exact hB), hl, parseLines_CRLF _ hB]

/-- mixed line ends are outside the property ({LF, CRLF}); there the per-chunk rule IS chunk dependent -/
theorem crlf_mixed_chunk_dependent :
    parseLines [[97], [98, 13]] = [[97], [98, 13]] ∧ ([[[97]], [[98, 13]]].map parseLines).flatten = [[97], [98]] := by decide

end C01

/-! ### files that are NOT made of whole records (a truncated last record)

The development above assumes a well-formed file (`WF`). Here nothing is assumed about the file: the
delivered chunks are still consecutive pieces of the terminated file, each entry-aligned, and what is
never delivered (`rest`) holds no complete entry. For the k-line formats this pins down the delivered
bytes exactly: the largest whole number of records, for every chunk size and mode. -/
namespace C01

structure LawsT (F : Fmt) (AL : Bytes → Prop) : Prop where
  marker_nil : F.marker = []
  nil_incomplete : F.complete [] = false
  cut_pos : ∀ c, F.complete c = true → 0 < F.cutLen c ∧ F.cutLen c ≤ c.length
  cut_nl : ∀ c, F.complete c = true → (c.take (F.cutLen c)).getLast? = some NL
  cut_al : ∀ c, F.complete c = true → AL (c.take (F.cutLen c))
  cut_rest : ∀ c, F.complete c = true → F.complete (c.drop (F.cutLen c)) = false

def AccPostT (F : Fmt) (file : Bytes) (lp d : Nat) : Option (Bytes × Nat × Bool) → Prop
  | none => file.drop lp = [] ∨ F.complete (fixEnd F (file.drop lp)) = false
  | some (chunk, pos', fin) =>
    F.complete chunk = true ∧ lp + d ≤ pos' ∧ pos' ≤ file.length ∧
    (fin = false → chunk = (file.drop lp).take (pos' - lp) ∧ lp < pos') ∧
    (fin = true → pos' = file.length ∧ file.drop lp ≠ [] ∧ chunk = fixEnd F (file.drop lp))

/-- after a short read that did not complete an entry, the next raw read is empty and the loop gives up -/
theorem accumulate_after_fin (F : Fmt) (file : Bytes) (k : Nat) (fuel : Nat) (acc : Bytes) :
    accumulate F true file k fuel file.length acc true = none := by
  cases fuel with
  | zero => rfl
  | succ f => simp [accumulate]

theorem accumulate_specT (F : Fmt) (file : Bytes) (k : Nat) (hk : 0 < k) (lp : Nat) :
    ∀ (fuel d : Nat) (acc : Bytes) (finPrev : Bool),
      lp + d ≤ file.length → acc = (file.drop lp).take d →
      (finPrev = true → lp + d = file.length ∧ d = 0) →
      file.length - (lp + d) < fuel →
      AccPostT F file lp d (accumulate F true file k fuel (lp + d) acc finPrev) := by
  intro fuel
  induction fuel with
  | zero => intro d acc finPrev _ _ _ hf; omega
  | succ fuel ih =>
    intro d acc finPrev hle hacc hfin hfuel
    obtain ⟨r, hr⟩ : ∃ r, r = file.drop lp := ⟨_, rfl⟩
    have hrlen : r.length = file.length - lp := by rw [hr]; simp
    have hdrop : file.drop (lp + d) = r.drop d := by rw [hr, List.drop_drop]
    obtain ⟨raw, hraw⟩ : ∃ raw, raw = (r.drop d).take k := ⟨_, rfl⟩
    have hrawlen : raw.length = min k (file.length - (lp + d)) := by
      rw [hraw]; simp [hrlen]; omega
    have hstep : accumulate F true file k (fuel + 1) (lp + d) acc finPrev =
        (if raw.length = 0 then
          if (true && !acc.isEmpty && !finPrev) = true then
            if F.complete (fixEnd F acc) = true then some (fixEnd F acc, lp + d, true) else none
          else none
        else
          if F.complete (acc ++ (if decide (raw.length < k) = true then fixEnd F raw else raw)) = true then
            some (acc ++ (if decide (raw.length < k) = true then fixEnd F raw else raw), lp + d + raw.length, decide (raw.length < k))
          else accumulate F true file k fuel (lp + d + raw.length)
            (acc ++ (if decide (raw.length < k) = true then fixEnd F raw else raw)) (decide (raw.length < k))) := by
      rw [accumulate, hdrop, ← hraw]
    rw [hstep]
    rw [← hr] at hacc
    by_cases h0 : raw.length = 0
    · have hpos : lp + d = file.length := by omega
      have hacc' : acc = r := by
        rw [hacc]; apply List.take_of_length_le; omega
      rw [if_pos h0]
      by_cases hc : (true && !acc.isEmpty && !finPrev) = true
      · rw [if_pos hc]
        simp only [Bool.true_and, Bool.and_eq_true, Bool.not_eq_true', List.isEmpty_eq_false_iff] at hc
        have hrne : r ≠ [] := by rw [← hacc']; exact hc.1
        rw [hacc']
        by_cases hcomp : F.complete (fixEnd F r) = true
        · rw [if_pos hcomp]
          unfold AccPostT
          rw [← hr]
          exact ⟨hcomp, by omega, by omega, by simp, fun _ => ⟨hpos, hrne, rfl⟩⟩
        · rw [if_neg hcomp]
          unfold AccPostT
          rw [← hr]
          right; simpa using hcomp
      · rw [if_neg hc]
        unfold AccPostT
        rw [← hr]
        left
        simp only [Bool.true_and, Bool.and_eq_true, Bool.not_eq_true', List.isEmpty_eq_false_iff, not_and,
          Bool.not_eq_false] at hc
        by_cases hne : acc = []
        · rw [← hacc', hne]
        · have := hfin (hc hne)
          have : r.length = 0 := by omega
          exact List.eq_nil_of_length_eq_zero this
    · rw [if_neg h0]
      have hrawne : raw ≠ [] := by intro h; rw [h] at h0; simp at h0
      have happ : acc ++ raw = r.take (d + k) := by rw [hacc, hraw, ← take_add']
      by_cases hfinb : raw.length < k
      · have hend : lp + d + raw.length = file.length := by omega
        have hall : acc ++ raw = r := by
          rw [happ]; apply List.take_of_length_le; omega
        have hrne : r ≠ [] := by rw [← hall]; simp [hrawne]
        have hfix : acc ++ fixEnd F raw = fixEnd F r := by
          unfold fixEnd
          rw [← List.append_assoc, ← addNL_append acc raw hrawne, hall]
        have hd : decide (raw.length < k) = true := by simp [hfinb]
        rw [hd]
        simp only [↓reduceIte]
        rw [hfix]
        by_cases hcomp : F.complete (fixEnd F r) = true
        · rw [if_pos hcomp]
          unfold AccPostT
          rw [← hr]
          exact ⟨hcomp, by omega, by omega, by simp, fun _ => ⟨by omega, hrne, rfl⟩⟩
        · rw [if_neg hcomp, hend, accumulate_after_fin]
          unfold AccPostT
          rw [← hr]
          right; simpa using hcomp
      · have hlen : raw.length = k := by omega
        have hd : decide (raw.length < k) = false := by simp [hfinb]
        rw [hd]
        simp only [Bool.false_eq_true, ↓reduceIte]
        by_cases hcomp : F.complete (acc ++ raw) = true
        · rw [if_pos hcomp]
          unfold AccPostT
          rw [← hr]
          refine ⟨hcomp, by omega, by omega, fun _ => ⟨?_, by omega⟩, by simp⟩
          rw [happ]; congr 1; omega
        · rw [if_neg hcomp]
          have := ih (d + k) (acc ++ raw) false (by omega) (by rw [← hr]; exact happ) (by simp) (by omega)
          have e : lp + (d + k) = lp + d + raw.length := by omega
          rw [e] at this
          revert this
          generalize accumulate F true file k fuel (lp + d + raw.length) (acc ++ raw) false = res
          intro h
          cases res with
          | none => exact h
          | some v =>
            obtain ⟨chunk, pos', fin⟩ := v
            unfold AccPostT at h ⊢
            exact ⟨h.1, by omega, h.2.2.1, h.2.2.2.1, h.2.2.2.2⟩

theorem readChunk_specT (F : Fmt) (AL : Bytes → Prop) (L : LawsT F AL) (mode : Mode) (file : Bytes)
    (k : Nat) (hk : 0 < k) (s : St) (lp : Nat) (hI : Inv file s lp) :
    match readChunk F true mode file k s with
    | none => file.drop lp = [] ∨ F.complete (addNL (file.drop lp)) = false
    | some (out, s') =>
      (∃ n, 0 < n ∧ out = (file.drop lp).take n ∧ out.length = n ∧ out.getLast? = some NL ∧
        Inv file s' (lp + n) ∧ lp + n ≤ file.length ∧ AL out ∧ s'.finished = false) ∨
      (∃ n, 0 < n ∧ n ≤ (addNL (file.drop lp)).length ∧ out = (addNL (file.drop lp)).take n ∧
        out.getLast? = some NL ∧ F.complete ((addNL (file.drop lp)).drop n) = false ∧
        file.drop lp ≠ [] ∧ Inv file s' file.length ∧ s'.finished = true ∧ AL out) := by
  unfold readChunk
  have hspec := accumulate_specT F file k hk lp (file.length + 2) s.carry.length s.carry s.finished
    (by rw [hI.pos]; exact hI.le) hI.carry
    (by intro h; have := hI.fin h; rw [hI.pos]; refine ⟨this.1, ?_⟩; rw [this.2]; rfl)
    (by omega)
  rw [hI.pos] at hspec
  have hfix : ∀ b, fixEnd F b = addNL b := by intro b; unfold fixEnd; rw [L.marker_nil]; simp
  revert hspec
  cases hacc : accumulate F true file k (file.length + 2) s.pos s.carry s.finished with
  | none => intro h; unfold AccPostT at h; rw [hfix] at h; exact h
  | some res =>
    obtain ⟨chunk, pos', fin⟩ := res
    intro h
    unfold AccPostT at h
    obtain ⟨hcomp, hle1, hle2, hnf, hf⟩ := h
    obtain ⟨r, hr⟩ : ∃ r, r = file.drop lp := ⟨_, rfl⟩
    have hrlen : r.length = file.length - lp := by rw [hr]; simp
    rw [← hr] at hnf hf ⊢
    have hcp := L.cut_pos chunk hcomp
    have hnl := L.cut_nl chunk hcomp
    have hal := L.cut_al chunk hcomp
    have hrest := L.cut_rest chunk hcomp
    cases fin with
    | true =>
      right
      obtain ⟨hp, hrne, hchunk⟩ := hf rfl
      rw [hfix] at hchunk
      simp only [↓reduceIte]
      rw [hchunk] at hcp hnl hal hrest ⊢
      exact ⟨_, hcp.1, hcp.2, rfl, hnl, hrest, hrne,
        ⟨by simp [hp], by simp [hp], by simp, by intro _; simp [hp]⟩, trivial, hal⟩
    | false =>
      left
      obtain ⟨hchunk, hlt⟩ := hnf rfl
      have hclen : chunk.length = pos' - lp := by
        rw [hchunk]; simp [hrlen]; omega
      obtain ⟨n, hn⟩ : ∃ n, n = F.cutLen chunk := ⟨_, rfl⟩
      rw [← hn] at hcp hnl hal
      have hout : chunk.take n = r.take n := by
        rw [hchunk, List.take_take]; congr 1; omega
      have hdd : r.drop n = file.drop (lp + n) := by rw [hr, List.drop_drop]
      refine ⟨n, hcp.1, ?_, ?_, ?_, ?_, by omega, ?_, ?_⟩
      · simp only [← hn]; exact hout
      · simp only [← hn]; rw [List.length_take]; omega
      · simp only [← hn]; exact hnl
      · simp only [Bool.false_eq_true, ↓reduceIte, ← hn]
        cases mode with
        | seek =>
          refine ⟨by simp; omega, by simp; omega, by simp, by simp⟩
        | carry =>
          have hcl : (chunk.drop n).length = pos' - lp - n := by simp [hclen]
          refine ⟨by simp only [hcl]; omega, hle2, ?_, by simp⟩
          simp only [hcl]
          rw [hchunk, List.drop_take, ← hdd]
      · simp only [← hn]; exact hal
      · simp only [Bool.false_eq_true, ↓reduceIte]
        cases mode <;> rfl

theorem readChunk_finishedT (F : Fmt) (AL : Bytes → Prop) (L : LawsT F AL) (mode : Mode) (file : Bytes)
    (k : Nat) (hk : 0 < k) (s : St) (hI : Inv file s file.length) :
    readChunk F true mode file k s = none := by
  have h := readChunk_specT F AL L mode file k hk s file.length hI
  revert h
  cases readChunk F true mode file k s with
  | none => intro _; rfl
  | some res =>
    obtain ⟨out, s'⟩ := res
    intro h
    rcases h with ⟨n, hn, hout, hlen, _⟩ | ⟨n, _, _, _, _, _, hne, _⟩
    · simp at hout; rw [hout] at hlen; simp at hlen; omega
    · simp at hne

theorem readLoop_specT (F : Fmt) (AL : Bytes → Prop) (L : LawsT F AL) (mode : Mode)
    (file : Bytes) (k : Nat) (hk : 0 < k) :
    ∀ (fuel : Nat) (s : St) (lp : Nat), Inv file s lp →
      (lp = 0 ∨ (file.take lp).getLast? = some NL) → lp ≤ file.length → file.length - lp < fuel →
      (∃ rest, file.take lp ++ (readLoop F true mode file k fuel s).flatten ++ rest = norm file ∧
        F.complete rest = false) ∧
      ∀ c ∈ readLoop F true mode file k fuel s, c ≠ [] ∧ c.getLast? = some NL ∧ AL c := by
  intro fuel
  induction fuel with
  | zero => intro s lp _ _ _ hf; omega
  | succ fuel ih =>
    intro s lp hI hJ hle hfuel
    have hspec := readChunk_specT F AL L mode file k hk s lp hI
    unfold readLoop
    revert hspec
    cases hrc : readChunk F true mode file k s with
    | none =>
      intro h
      simp only [List.flatten_nil, List.append_nil, List.not_mem_nil, false_imp_iff, implies_true, and_true]
      rcases h with h | h
      · -- nothing left
        refine ⟨[], ?_, L.nil_incomplete⟩
        have hlen : file.length ≤ lp := by
          have := congrArg List.length h; simp at this; omega
        rw [List.take_of_length_le hlen, List.append_nil]
        unfold norm
        by_cases hf : file = []
        · simp [hf]
        · have hne : file.isEmpty = false := by simp [hf]
          simp only [hne, Bool.false_eq_true, ↓reduceIte]
          rcases hJ with h0 | hl
          · exfalso; apply hf; apply List.eq_nil_of_length_eq_zero; omega
          · rw [List.take_of_length_le hlen] at hl
            exact (addNL_of_getLast file hl).symm
      · -- what is left holds no complete entry
        by_cases hne : file.drop lp = []
        · rw [hne] at h
          refine ⟨[], ?_, L.nil_incomplete⟩
          have hlen : file.length ≤ lp := by
            have := congrArg List.length hne; simp at this; omega
          rw [List.take_of_length_le hlen, List.append_nil]
          unfold norm
          by_cases hf : file = []
          · simp [hf]
          · have hne' : file.isEmpty = false := by simp [hf]
            simp only [hne', Bool.false_eq_true, ↓reduceIte]
            rcases hJ with h0 | hl
            · exfalso; apply hf; apply List.eq_nil_of_length_eq_zero; omega
            · rw [List.take_of_length_le hlen] at hl
              exact (addNL_of_getLast file hl).symm
        · refine ⟨addNL (file.drop lp), ?_, h⟩
          rw [← addNL_append _ _ hne, List.take_append_drop]
          unfold norm
          have : file ≠ [] := by intro e; rw [e] at hne; simp at hne
          simp [this]
    | some res =>
      obtain ⟨out, s'⟩ := res
      intro h
      rcases h with ⟨n, hn, hout, hlen, hnl, hI', hle', hal, _⟩ | ⟨n, hn, hnle, hout, hnl, hrest, hne, hI', hfin', hal⟩
      · have hone : out ≠ [] := by intro e; rw [e] at hlen; simp at hlen; omega
        have hemp : out.isEmpty = false := by simp [hone]
        simp only [hemp, Bool.false_eq_true, ↓reduceIte, List.flatten_cons, List.mem_cons, forall_eq_or_imp]
        have hJ' : lp + n = 0 ∨ (file.take (lp + n)).getLast? = some NL := by
          right
          rw [take_add', ← hout, getLast?_append_of_ne_nil _ _ hone]; exact hnl
        have := ih s' (lp + n) hI' hJ' hle' (by omega)
        obtain ⟨⟨rest, hrest1, hrest2⟩, hall⟩ := this
        refine ⟨⟨rest, ?_, hrest2⟩, ⟨hone, hnl, hal⟩, hall⟩
        rw [← hrest1, take_add', ← hout]; simp [List.append_assoc]
      · have hone : out ≠ [] := by
          intro e; rw [e] at hout
          have := congrArg List.length hout; simp at this; omega
        have hemp : out.isEmpty = false := by simp [hone]
        simp only [hemp, Bool.false_eq_true, ↓reduceIte, List.flatten_cons, List.mem_cons, forall_eq_or_imp]
        have hrestl : readLoop F true mode file k fuel s' = [] := by
          cases fuel with
          | zero => rfl
          | succ f =>
            unfold readLoop
            rw [readChunk_finishedT F AL L mode file k hk s' hI']
        rw [hrestl]
        simp only [List.flatten_nil, List.append_nil, List.not_mem_nil, false_imp_iff, implies_true, and_true]
        refine ⟨⟨(addNL (file.drop lp)).drop n, ?_, hrest⟩, hone, hnl, hal⟩
        rw [hout, List.append_assoc, List.take_append_drop, ← addNL_append _ _ hne, List.take_append_drop]
        unfold norm
        have : file ≠ [] := by intro e; rw [e] at hne; simp at hne
        simp [this]

/-- **C01.readAll_bytesT** — no hypothesis on the file: the delivered chunks followed by what is never delivered
are the terminated file; what is never delivered holds no complete entry; every chunk is non-empty, ends after
a newline and is entry-aligned. For formats obeying the six `LawsT`; `marker_nil` restricts this to the k-line
formats (delimited, two-line FASTA, FASTQ) — wrapped FASTA appends a marker at end of file and is covered by the
well-formed development only. -/
theorem readAll_bytesT (F : Fmt) (AL : Bytes → Prop) (L : LawsT F AL) (mode : Mode) (file : Bytes) (k : Nat) (hk : 0 < k) :
    (∃ rest, (readAll F true mode file k).flatten ++ rest = norm file ∧ F.complete rest = false) ∧
    ∀ c ∈ readAll F true mode file k, c ≠ [] ∧ c.getLast? = some NL ∧ AL c := by
  have h := readLoop_specT F AL L mode file k hk (file.length + 2) init 0
    ⟨by simp [init], by simp [init], by simp [init], by simp [init]⟩ (Or.inl rfl) (by omega) (by omega)
  simpa [readAll] using h

end C01

/-! ### the k-line instance without well-formedness: exactly the whole records are delivered -/
namespace C01

theorem prefix_append (p rest : Bytes) (h : p.getLast? = some NL) :
    prefixThroughNL (countNL p) (p ++ rest) = p.length := by
  induction p with
  | nil => simp at h
  | cons x xs ih =>
    cases xs with
    | nil =>
      simp at h
      simp [h, countNL, prefixThroughNL]
    | cons y ys =>
      have h' : (y :: ys).getLast? = some NL := by simpa [List.getLast?_cons_cons] using h
      have ih' := ih h'
      have hpos := countNL_pos_of_getLast _ h'
      rw [countNL_cons]
      by_cases hx : x = NL
      · simp only [hx, ↓reduceIte]
        have : prefixThroughNL (1 + countNL (y :: ys)) (NL :: ((y :: ys) ++ rest)) =
            1 + prefixThroughNL (countNL (y :: ys)) ((y :: ys) ++ rest) := by
          rw [show 1 + countNL (y :: ys) = countNL (y :: ys) + 1 by omega]
          simp [prefixThroughNL]
        rw [List.cons_append, this, ih']; simp; omega
      · simp only [hx, ↓reduceIte, Nat.zero_add]
        obtain ⟨c, hc⟩ : ∃ c, countNL (y :: ys) = c + 1 := ⟨countNL (y :: ys) - 1, by omega⟩
        rw [hc] at ih' ⊢
        have : prefixThroughNL (c + 1) (x :: ((y :: ys) ++ rest)) = 1 + prefixThroughNL (c + 1) ((y :: ys) ++ rest) := by
          simp [prefixThroughNL, hx]
        rw [List.cons_append, this, ih']; simp; omega

theorem kLine_lawsT (n : Nat) (hn : 0 < n) : LawsT (Fmt.kLine n) (fun c => n ∣ countNL c) where
  marker_nil := rfl
  nil_incomplete := by simp [Fmt.kLine, countNL]; omega
  cut_pos := (kLine_laws n hn).cut_pos
  cut_nl := (kLine_laws n hn).cut_nl
  cut_al := by
    intro c hc
    simp only [Fmt.kLine, decide_eq_true_eq] at hc ⊢
    have hm := mult_facts n (countNL c) hn hc
    rw [(prefix_spec c _ hm.1 hm.2.1).2.2.2]
    exact hm.2.2
  cut_rest := by
    intro c hc
    simp only [Fmt.kLine, decide_eq_true_eq, decide_eq_false_iff_not, Nat.not_le] at hc ⊢
    have hm := mult_facts n (countNL c) hn hc
    have hs := (prefix_spec c _ hm.1 hm.2.1).2.2.2
    have hsplit : countNL c = countNL (c.take (prefixThroughNL (countNL c - countNL c % n) c)) +
        countNL (c.drop (prefixThroughNL (countNL c - countNL c % n) c)) := by
      rw [← countNL_append, List.take_append_drop]
    have := Nat.mod_lt (countNL c) hn
    omega

theorem dvd_countNL_flatten (n : Nat) (cs : List Bytes) (h : ∀ c ∈ cs, n ∣ countNL c) : n ∣ countNL cs.flatten := by
  induction cs with
  | nil => simp [countNL]
  | cons c cs ih =>
    rw [List.flatten_cons, countNL_append]
    exact Nat.dvd_add (h c (by simp)) (ih (fun c hc => h c (by simp [hc])))

theorem flatten_getLast (cs : List Bytes) (h : ∀ c ∈ cs, c ≠ [] ∧ c.getLast? = some NL) (hne : cs ≠ []) :
    cs.flatten.getLast? = some NL := by
  induction cs with
  | nil => exact absurd rfl hne
  | cons c cs ih =>
    rw [List.flatten_cons]
    by_cases hcs : cs = []
    · rw [hcs]; simp; exact (h c (by simp)).2
    · have hfl : cs.flatten ≠ [] := by
        cases cs with
        | nil => exact absurd rfl hcs
        | cons d ds =>
          intro e
          have := (h d (by simp)).1
          rw [List.flatten_cons] at e
          exact this (List.append_eq_nil_iff.mp e).1
      rw [getLast?_append_of_ne_nil _ _ hfl]
      exact ih (fun c hc => h c (by simp [hc])) hcs

/-- **C01.readAll_kLine_any_file** — FASTQ (n = 4) / two-line FASTA (n = 2) files of ANY content, in particular files
that end inside a record: for every chunk size and both modes the delivered chunks concatenate to the first
`⌊lines/n⌋·n` lines of the terminated file — all whole records, nothing of the truncated one — and every chunk
holds a whole number of records. -/
theorem readAll_kLine_any_file (n : Nat) (hn : 0 < n) (mode : Mode) (file : Bytes) (k : Nat) (hk : 0 < k) :
    (readAll (Fmt.kLine n) true mode file k).flatten =
      (norm file).take (prefixThroughNL (countNL (norm file) - countNL (norm file) % n) (norm file)) ∧
    countNL (readAll (Fmt.kLine n) true mode file k).flatten = countNL (norm file) - countNL (norm file) % n ∧
    ∀ c ∈ readAll (Fmt.kLine n) true mode file k, c ≠ [] ∧ c.getLast? = some NL ∧ n ∣ countNL c := by
  obtain ⟨⟨rest, hsplit, hrest⟩, hall⟩ := readAll_bytesT (Fmt.kLine n) _ (kLine_lawsT n hn) mode file k hk
  obtain ⟨cs, hcs⟩ : ∃ cs, cs = readAll (Fmt.kLine n) true mode file k := ⟨_, rfl⟩
  rw [← hcs] at hsplit hall ⊢
  have hdvd := dvd_countNL_flatten n cs (fun c hc => (hall c hc).2.2)
  simp only [Fmt.kLine, decide_eq_false_iff_not, Nat.not_le] at hrest
  have hcount : countNL (norm file) = countNL cs.flatten + countNL rest := by rw [← hsplit, countNL_append]
  have hm : countNL cs.flatten = countNL (norm file) - countNL (norm file) % n := by
    obtain ⟨q, hq⟩ := hdvd
    have h1 : countNL (norm file) % n = countNL rest := by
      rw [hcount, hq, Nat.mul_add_mod]; exact Nat.mod_eq_of_lt hrest
    omega
  refine ⟨?_, hm, hall⟩
  by_cases hnil : cs = []
  · rw [hnil] at hm ⊢
    simp only [List.flatten_nil] at hm ⊢
    have h0 : countNL (norm file) - countNL (norm file) % n = 0 := by rw [← hm]; simp [countNL]
    rw [h0]
    cases norm file <;> simp [prefixThroughNL]
  · have hlast := flatten_getLast cs (fun c hc => ⟨(hall c hc).1, (hall c hc).2.1⟩) hnil
    rw [← hm, ← hsplit, prefix_append _ _ hlast]
    simp

/-- non-vacuity: `@a/A/+/I/@b` (ends inside the second record), chunk size 3: one record delivered, `@b` never -/
example : (readAll (Fmt.kLine 4) true .seek [64,97,10,65,10,43,10,73,10,64,98,10] 3).flatten = [64,97,10,65,10,43,10,73,10] := by decide

end C01

namespace C01

/-- **C01.chunks_eq_whole_kLine_any_file** — FASTQ / two-line FASTA / delimited files of ANY content holding at least one
record's worth of lines: for every chunk size and both modes the chunks of `read_chunks` concatenate to exactly what
`read()` delivers (no well-formedness hypothesis: a truncated last record is left out by both). The hypothesis `hc` is
not needed by the Lean statement (`readWhole` is total: below one record it returns `[]`, like the chunks); it is
there because the code's `read()` raises `IncompleteEntryException` on such files, which `readWhole` does not model
(C15's `wholeValidateT` does, as `Res.err`). -/
theorem chunks_eq_whole_kLine_any_file (n : Nat) (hn : 0 < n) (mode : Mode) (file : Bytes) (k : Nat) (hk : 0 < k)
    (hc : n ≤ countNL (norm file)) :
    (readAll (Fmt.kLine n) true mode file k).flatten = readWhole (Fmt.kLine n) file := by
  rw [(readAll_kLine_any_file n hn mode file k hk).1]
  have hne : file.isEmpty = false := by
    cases file with
    | nil => simp [norm, countNL] at hc; omega
    | cons x xs => rfl
  unfold readWhole
  simp only [hne, Bool.false_eq_true, ↓reduceIte]
  have hfix : fixEnd (Fmt.kLine n) file = norm file := by
    unfold fixEnd norm
    simp [hne, Fmt.kLine]
  rw [hfix]
  rfl

example : (readAll (Fmt.kLine 2) true .carry [62,97,10,65,10,62,98] 3).flatten = readWhole (Fmt.kLine 2) [62,97,10,65,10,62,98] := by decide

end C01

/-! ### the reader's own end-of-file test (sites 1 and 2) sees exactly what is never delivered -/
namespace C01

theorem isBlank_append (a b : Bytes) : isBlank (a ++ b) = (isBlank a && isBlank b) := by
  unfold isBlank; simp [List.all_append]

theorem isBlank_addNL (r : Bytes) : isBlank (addNL r) = isBlank r := by
  unfold addNL
  split
  · rfl
  · rw [isBlank_append]; simp [isBlank, NL]

theorem carry_drop (file : Bytes) (s : St) (lp : Nat) (hI : Inv file s lp) :
    s.carry ++ file.drop s.pos = file.drop lp := by
  have h1 := hI.carry
  have h2 := hI.pos
  have h3 := List.take_append_drop s.carry.length (file.drop lp)
  rw [← h1, List.drop_drop, h2] at h3
  exact h3

/-- what `restOf` is, in terms of the logical position: site 1 = everything from `lp` on; site 2 = the terminated
remainder behind the delivered buffer -/
theorem restOf_spec (F : Fmt) (AL : Bytes → Prop) (L : LawsT F AL) (mode : Mode) (file : Bytes)
    (k : Nat) (hk : 0 < k) (s : St) (lp : Nat) (hI : Inv file s lp) :
    match readChunk F true mode file k s with
    | none => restOf F file k s = file.drop lp
    | some (out, s') => s'.finished = true → restOf F file k s = (addNL (file.drop lp)).drop out.length := by
  unfold readChunk restOf
  have hspec := accumulate_specT F file k hk lp (file.length + 2) s.carry.length s.carry s.finished
    (by rw [hI.pos]; exact hI.le) hI.carry
    (by intro h; have := hI.fin h; rw [hI.pos]; refine ⟨this.1, ?_⟩; rw [this.2]; rfl)
    (by omega)
  rw [hI.pos] at hspec
  have hfix : ∀ b, fixEnd F b = addNL b := by intro b; unfold fixEnd; rw [L.marker_nil]; simp
  revert hspec
  cases hacc : accumulate F true file k (file.length + 2) s.pos s.carry s.finished with
  | none => intro _; exact carry_drop file s lp hI
  | some res =>
    obtain ⟨chunk, pos', fin⟩ := res
    intro h
    unfold AccPostT at h
    obtain ⟨hcomp, _, _, _, hf⟩ := h
    have hcp := L.cut_pos chunk hcomp
    cases fin with
    | true =>
      intro _
      obtain ⟨_, _, hchunk⟩ := hf rfl
      rw [hfix] at hchunk
      simp only [↓reduceIte, List.length_take]
      rw [Nat.min_eq_left hcp.2, hchunk]
    | false =>
      intro hfin
      simp only [Bool.false_eq_true, ↓reduceIte] at hfin
      cases mode <;> simp at hfin

theorem readLoopRest_spec (F : Fmt) (AL : Bytes → Prop) (L : LawsT F AL) (mode : Mode)
    (file : Bytes) (k : Nat) (hk : 0 < k) :
    ∀ (fuel : Nat) (s : St) (lp : Nat), Inv file s lp →
      (lp = 0 ∨ (file.take lp).getLast? = some NL) → lp ≤ file.length → file.length - lp < fuel →
      ∃ rest, file.take lp ++ (readLoop F true mode file k fuel s).flatten ++ rest = norm file ∧
        isBlank rest = isBlank (readLoopRest F mode file k fuel s) := by
  intro fuel
  induction fuel with
  | zero => intro s lp _ _ _ hf; omega
  | succ fuel ih =>
    intro s lp hI hJ hle hfuel
    have hspec := readChunk_specT F AL L mode file k hk s lp hI
    have hrest := restOf_spec F AL L mode file k hk s lp hI
    unfold readLoop readLoopRest
    revert hspec hrest
    cases hrc : readChunk F true mode file k s with
    | none =>
      intro h hr
      simp only [List.flatten_nil, List.append_nil]
      simp only at hr
      rw [hr]
      by_cases hne : file.drop lp = []
      · refine ⟨[], ?_, by rw [hne]⟩
        have hlen : file.length ≤ lp := by
          have := congrArg List.length hne; simp at this; omega
        rw [List.take_of_length_le hlen, List.append_nil]
        unfold norm
        by_cases hf : file = []
        · simp [hf]
        · have hne' : file.isEmpty = false := by simp [hf]
          simp only [hne', Bool.false_eq_true, ↓reduceIte]
          rcases hJ with h0 | hl
          · exfalso; apply hf; apply List.eq_nil_of_length_eq_zero; omega
          · rw [List.take_of_length_le hlen] at hl
            exact (addNL_of_getLast file hl).symm
      · refine ⟨addNL (file.drop lp), ?_, isBlank_addNL _⟩
        rw [← addNL_append _ _ hne, List.take_append_drop]
        unfold norm
        have : file ≠ [] := by intro e; rw [e] at hne; simp at hne
        simp [this]
    | some res =>
      obtain ⟨out, s'⟩ := res
      intro h hr
      simp only at hr
      rcases h with ⟨n, hn, hout, hlen, hnl, hI', hle', hal, hnf⟩ | ⟨n, hn, hnle, hout, hnl, hrst, hne, hI', hfin', hal⟩
      · have hone : out ≠ [] := by intro e; rw [e] at hlen; simp at hlen; omega
        have hemp : out.isEmpty = false := by simp [hone]
        simp only [hemp, Bool.false_eq_true, ↓reduceIte, List.flatten_cons, hnf]
        have hJ' : lp + n = 0 ∨ (file.take (lp + n)).getLast? = some NL := by
          right
          rw [take_add', ← hout, getLast?_append_of_ne_nil _ _ hone]; exact hnl
        obtain ⟨rest, hrest1, hrest2⟩ := ih s' (lp + n) hI' hJ' hle' (by omega)
        refine ⟨rest, ?_, hrest2⟩
        rw [← hrest1, take_add', ← hout]; simp [List.append_assoc]
      · have hone : out ≠ [] := by
          intro e; rw [e] at hout
          have := congrArg List.length hout; simp at this; omega
        have hemp : out.isEmpty = false := by simp [hone]
        simp only [hemp, Bool.false_eq_true, ↓reduceIte, List.flatten_cons, hfin']
        have hrestl : readLoop F true mode file k fuel s' = [] := by
          cases fuel with
          | zero => rfl
          | succ f =>
            unfold readLoop
            rw [readChunk_finishedT F AL L mode file k hk s' hI']
        rw [hrestl, hr hfin']
        simp only [List.flatten_nil, List.append_nil]
        have holen : out.length = n := by rw [hout, List.length_take]; omega
        refine ⟨(addNL (file.drop lp)).drop n, ?_, by rw [holen]⟩
        rw [hout, List.append_assoc, List.take_append_drop, ← addNL_append _ _ hne, List.take_append_drop]
        unfold norm
        have : file ≠ [] := by intro e; rw [e] at hne; simp at hne
        simp [this]

/-- **C01.readAllRest_blank_iff** — for the k-line formats, every file, chunk size and mode: the bytes the reader
examines when its iteration ends (site 1: the pending chunks; site 2: the final chunk behind its buffer) are blank
exactly when what was never delivered is blank. Deleting either site from the code changes `readAllRest`, not this
characterisation of it. -/
theorem readAllRest_blank_iff (n : Nat) (hn : 0 < n) (mode : Mode) (file : Bytes) (k : Nat) (hk : 0 < k) :
    isBlank (readAllRest (Fmt.kLine n) mode file k) =
      isBlank ((norm file).drop (readAll (Fmt.kLine n) true mode file k).flatten.length) := by
  obtain ⟨rest, h1, h2⟩ := readLoopRest_spec (Fmt.kLine n) _ (kLine_lawsT n hn) mode file k hk (file.length + 2) init 0
    ⟨by simp [init], by simp [init], by simp [init], by simp [init]⟩ (Or.inl rfl) (by omega) (by omega)
  simp only [List.take_zero, List.nil_append] at h1
  unfold readAllRest readAll
  rw [← h2, ← h1]
  simp

end C01

namespace C01

/-- **C01.count_entries_chunks** — `bnp.count_entries` adds up the entry counts of the buffers of a chunked read: for
FASTQ / two-line FASTA / delimited files made of whole records, every chunk size and both modes, that sum is the number of
entries of the terminated file. -/
theorem count_entries_chunks (n : Nat) (hn : 0 < n) (mode : Mode) (file : Bytes)
    (hwf : n ∣ countNL (norm file)) (k : Nat) (hk : 0 < k) :
    ((readAll (Fmt.kLine n) true mode file k).map (fun c => (entriesK n c).length)).sum = (entriesK n (norm file)).length := by
  have h := congrArg List.length (entries_chunks_kLine n hn mode file hwf k hk)
  rw [List.length_flatten, List.map_map] at h
  exact h

example : ((readAll (Fmt.kLine 2) true .seek [62,97,10,65,10,62,98,10,67,10] 3).map (fun c => (entriesK 2 c).length)).sum = 2 := by decide

end C01
