import BnpVerif.Model.C07
/-! C07 property theorems: every supported structural operation commutes with decoding (it is
natural in the element type), so the decoded result is what the same operation gives on the
list of strings; comparison with a character agrees with comparison on the decoded text when
the decode table is injective; split/join are mutually inverse. -/
namespace C07
open Base Py

/-! ### helpers: omap and map -/

theorem omap_map_comm {α β γ δ} (g : γ → Option δ) (h : α → Option β) (f' : α → γ) (F : β → δ)
    (hc : ∀ a, g (f' a) = (h a).map F) (l : List α) :
    omap g (l.map f') = (omap h l).map (List.map F) := by
  induction l with
  | nil => rfl
  | cons x xs ih =>
    simp only [List.map_cons, omap, hc x, ih]
    cases h x <;> cases omap h xs <;> simp

theorem scatter_map {α β} (f : α → β) (l : List α) (pos : List Nat) (vs : List α) :
    (scatter l pos vs).map f = scatter (l.map f) pos (vs.map f) := by
  induction pos generalizing l vs with
  | nil => cases vs <;> simp [scatter]
  | cons p ps ih =>
    cases vs with
    | nil => simp [scatter]
    | cons v vs => simp only [scatter, List.map_cons, ih, List.map_set]

theorem fitValues_map {α β} (f : α → β) (n : Nat) (v : List α) :
    fitValues n (v.map f) = (fitValues n v).map (List.map f) := by
  unfold fitValues
  simp only [List.length_map]
  split
  · simp
  · match v with
    | [] => simp
    | [c] => simp
    | _ :: _ :: _ => simp

theorem sliceRow_map {α β} (f : α → β) (a b : Option Int) (s : Int) (row : List α) :
    sliceRow a b s (row.map f) = (sliceRow a b s row).map (List.map f) := by
  unfold sliceRow
  rw [List.length_map, pick_map]

/-! ### naturality of one operation -/

/-- **C07.natural** — for every value, every operation and every element map `f` (decoding is one):
applying the operation to the mapped value is the mapped result of applying it to the value.
With `f = decode`, the decoded result of an operation on an encoded array is the same operation
on the decoded text; shapes, failures (IndexError etc.) and order are identical.
SCOPE (independent review, `audit/review-C01-C10.md`): this is parametricity of the model's `apply` — it
says that the operations never look at the codes (so the encoding cannot influence structure), NOT that
`apply` is the right operation. What each operation MEANS is pinned by the list-vocabulary theorems below
(`slice_general`, `slice_take_drop`, `mask_filter`, `pick_getElem`, `scatter_get`, `join_split`, …) and by
the independent Python oracle; that the real code behaves like `apply` is the correspondence. -/
theorem natural {α β} (f : α → β) (v : Val α) (op : Op α) :
    apply (v.map f) (op.map f) = (apply v op).map (Val.map f) := by
  cases v with
  | scalar c => cases op <;> simp [apply, Val.map, Op.map]
  | flat l =>
    cases op with
    | index ix =>
      cases ix with
      | int i =>
        simp only [Val.map, Op.map, apply, List.length_map, List.getElem?_map]
        cases normIdx l.length i with
        | none => rfl
        | some p => simp only [Option.bind_some]; cases l[p]? <;> rfl
      | slice a b s =>
        simp only [Val.map, Op.map, apply, List.length_map, pick_map]
        cases Idx.resolve l.length (.slice a b s) with
        | none => rfl
        | some pos => simp only [Option.bind_some]; cases pick l pos <;> rfl
      | mask m =>
        simp only [Val.map, Op.map, apply, List.length_map, pick_map]
        cases Idx.resolve l.length (.mask m) with
        | none => rfl
        | some pos => simp only [Option.bind_some]; cases pick l pos <;> rfl
      | list is =>
        simp only [Val.map, Op.map, apply, List.length_map, pick_map]
        cases Idx.resolve l.length (.list is) with
        | none => rfl
        | some pos => simp only [Option.bind_some]; cases pick l pos <;> rfl
    | colSlice a b s => simp [apply, Val.map, Op.map]
    | colInt rows j => simp [apply, Val.map, Op.map]
    | concat w => cases w <;> simp [apply, Val.map, Op.map]
    | ravel => simp [apply, Val.map, Op.map]
    | copy => simp [apply, Val.map, Op.map]
    | setRow i v => simp [apply, Val.map, Op.map]
    | setRowSlice i a b v => simp [apply, Val.map, Op.map]
    | setFlat ix v =>
      simp only [Val.map, Op.map, apply, List.length_map, fitValues_map]
      cases Idx.resolve l.length ix with
      | none => rfl
      | some pos =>
        simp only [Option.bind_some]
        cases fitValues pos.length v with
        | none => rfl
        | some vs => simp [Val.map, scatter_map]
    | append v => simp [apply, Val.map, Op.map]
    | insert i v =>
      simp only [Val.map, Op.map, apply, List.length_map]
      cases insertPos l.length i with
      | none => rfl
      | some p => simp [Val.map, List.map_take, List.map_drop]
  | rag r =>
    cases op with
    | index ix =>
      cases ix with
      | int i =>
        simp only [Val.map, Op.map, apply, List.length_map, List.getElem?_map]
        cases normIdx r.length i with
        | none => rfl
        | some p => simp only [Option.bind_some]; cases r[p]? <;> rfl
      | slice a b s =>
        simp only [Val.map, Op.map, apply, List.length_map, pick_map]
        cases Idx.resolve r.length (.slice a b s) with
        | none => rfl
        | some pos => simp only [Option.bind_some]; cases pick r pos <;> rfl
      | mask m =>
        simp only [Val.map, Op.map, apply, List.length_map, pick_map]
        cases Idx.resolve r.length (.mask m) with
        | none => rfl
        | some pos => simp only [Option.bind_some]; cases pick r pos <;> rfl
      | list is =>
        simp only [Val.map, Op.map, apply, List.length_map, pick_map]
        cases Idx.resolve r.length (.list is) with
        | none => rfl
        | some pos => simp only [Option.bind_some]; cases pick r pos <;> rfl
    | colSlice a b s =>
      simp only [Val.map, Op.map, apply]
      split
      · rfl
      · rw [omap_map_comm (sliceRow a b s) (sliceRow a b s) (List.map f) (List.map f) (sliceRow_map f a b s)]
        cases omap (sliceRow a b s) r <;> rfl
    | colInt rows j =>
      simp only [Val.map, Op.map, apply, List.length_map, pick_map]
      cases Idx.resolve r.length rows with
      | none => rfl
      | some pos =>
        simp only [Option.bind_some]
        cases pick r pos with
        | none => rfl
        | some sel =>
          simp only [Option.map_some, Option.bind_some]
          rw [omap_map_comm (fun row : List β => (normIdx row.length j).bind (fun p => row[p]?))
            (fun row : List α => (normIdx row.length j).bind (fun p => row[p]?)) (List.map f) f]
          · cases omap (fun row : List α => (normIdx row.length j).bind (fun p => row[p]?)) sel <;> rfl
          · intro row
            simp only [List.length_map, List.getElem?_map]
            cases normIdx row.length j with
            | none => rfl
            | some p => simp
    | concat w => cases w <;> simp [apply, Val.map, Op.map]
    | ravel => simp [apply, Val.map, Op.map, List.map_flatten]
    | copy => simp [apply, Val.map, Op.map]
    | setRow i v =>
      simp only [Val.map, Op.map, apply, List.length_map, List.getElem?_map]
      cases normIdx r.length i with
      | none => rfl
      | some p =>
        simp only [Option.bind_some]
        cases r[p]? with
        | none => rfl
        | some row =>
          simp only [Option.map_some, Option.bind_some, List.length_map, fitValues_map]
          cases fitValues row.length v with
          | none => rfl
          | some vs => simp [Val.map, List.map_set]
    | setRowSlice i a b v =>
      simp only [Val.map, Op.map, apply, List.length_map, List.getElem?_map]
      cases normIdx r.length i with
      | none => rfl
      | some p =>
        simp only [Option.bind_some]
        cases r[p]? with
        | none => rfl
        | some row =>
          simp only [Option.map_some, Option.bind_some, List.length_map, fitValues_map]
          cases fitValues (sliceIdx row.length a b 1).length v with
          | none => rfl
          | some vs => simp [Val.map, List.map_set, scatter_map]
    | setFlat ix v => simp [apply, Val.map, Op.map]
    | append v => simp [apply, Val.map, Op.map]
    | insert i v => simp [apply, Val.map, Op.map]

/-- **C07.programs** — every finite sequence of operations: the decoded final result equals the
same program run on the decoded input (or both fail at the same step). -/
theorem programs {α β} (f : α → β) (ops : List (Op α)) (v : Val α) :
    run (v.map f) (ops.map (Op.map f)) = (run v ops).map (Val.map f) := by
  induction ops generalizing v with
  | nil => rfl
  | cons op ops ih =>
    simp only [List.map_cons, run, natural]
    cases apply v op with
    | none => rfl
    | some v' => simp only [Option.map_some, Option.bind_some, ih]

/-! ### comparison -/

/-- **C07.eq_char** — comparing codes with the code of a character gives the same boolean array
as comparing the decoded text with the character, provided decoding is injective (a Gen
obligation of C06 for the alphabet encodings; trivially true for ASCII). -/
theorem eq_char {α β} [DecidableEq α] [DecidableEq β] (f : α → β) (hf : Function.Injective f)
    (c : α) (v : Val α) : eqChar (f c) (v.map f) = eqChar c v := by
  have h : ∀ x, decide (f x = f c) = decide (x = c) := fun x => by
    by_cases hx : x = c
    · simp [hx]
    · have : f x ≠ f c := fun e => hx (hf e)
      simp [hx, this]
  cases v with
  | flat l => simp [eqChar, Val.map, h]
  | rag r => simp [eqChar, Val.map, h, Function.comp_def]
  | scalar x => simp [eqChar, Val.map, h]

theorem strEqual_map {α β} [DecidableEq α] [DecidableEq β] (f : α → β) (hf : Function.Injective f)
    (s : List α) (r : List (List α)) : strEqual (s.map f) (r.map (List.map f)) = strEqual s r := by
  unfold strEqual
  rw [List.map_map]
  apply List.map_congr_left
  intro row _
  simp only [Function.comp]
  have : List.map f row = List.map f s ↔ row = s := List.map_inj_right (fun x y e => hf e)
  by_cases h : row = s
  · simp [h]
  · simp [h, this]

/-! ### split / join -/

theorem splitAux_no_sep {α} [DecidableEq α] (sep : α) (cur s : List α) (h : sep ∉ s) :
    splitAux sep cur s = [cur.reverse ++ s] := by
  induction s generalizing cur with
  | nil => simp [splitAux]
  | cons x xs ih =>
    have hx : x ≠ sep := fun e => h (by simp [e])
    have hxs : sep ∉ xs := fun m => h (by simp [m])
    simp [splitAux, hx, ih (x :: cur) hxs]

theorem splitAux_sep {α} [DecidableEq α] (sep : α) (cur s rest : List α) (h : sep ∉ s) :
    splitAux sep cur (s ++ sep :: rest) = (cur.reverse ++ s) :: splitAux sep [] rest := by
  induction s generalizing cur with
  | nil => simp [splitAux]
  | cons x xs ih =>
    have hx : x ≠ sep := fun e => h (by simp [e])
    have hxs : sep ∉ xs := fun m => h (by simp [m])
    simp [splitAux, hx, ih (x :: cur) hxs]

theorem split_flatMap {α} [DecidableEq α] (sep : α) (rows : List (List α)) (last : List α)
    (h : ∀ r ∈ rows, sep ∉ r) (hl : sep ∉ last) :
    split sep (rows.flatMap (fun r => r ++ [sep]) ++ last) = rows ++ [last] := by
  unfold split
  induction rows with
  | nil => simp [splitAux_no_sep sep [] last hl]
  | cons r rs ih =>
    simp only [List.flatMap_cons, List.append_assoc, List.cons_append, List.nil_append]
    rw [splitAux_sep sep [] r _ (h r (by simp))]
    simp only [List.reverse_nil, List.nil_append, List.cons.injEq, true_and]
    exact ih (fun r' hr' => h r' (by simp [hr']))

/-- **C07.split_join** — splitting the joined rows gives the rows back, whenever no row contains
the separator and there is at least one row. -/
theorem split_join {α} [DecidableEq α] (sep : α) (rows : List (List α)) (hne : rows ≠ [])
    (h : ∀ r ∈ rows, sep ∉ r) : split sep (join sep rows) = rows := by
  obtain ⟨init, last, rfl⟩ : ∃ init last, rows = init ++ [last] :=
    ⟨rows.dropLast, rows.getLast hne, (List.dropLast_concat_getLast hne).symm⟩
  unfold join
  have : (init ++ [last]).flatMap (fun r => r ++ [sep]) = init.flatMap (fun r => r ++ [sep]) ++ (last ++ [sep]) := by
    simp [List.flatMap_append]
  rw [this, ← List.append_assoc, List.dropLast_concat]
  exact split_flatMap sep init last (fun r hr => h r (by simp [hr])) (h last (by simp))

/-! ### non-vacuity / sanity -/
example : apply (Val.rag [[0,1,2,3],[0,1],[],[2,2,3,1,0]]) (Op.colSlice none none (-1)) =
    some (Val.rag [[3,2,1,0],[1,0],[],[0,1,3,2,2]]) := by decide
example : apply (Val.rag [[0,1,2,3],[0,1]]) (Op.index (.list [1, -2, 1])) = some (Val.rag [[0,1],[0,1,2,3],[0,1]]) := by decide
example : apply (Val.flat [0,1,2,3]) (Op.index (.slice (some 3) none (-2))) = some (Val.flat [3,1]) := by decide
example : split 44 (join 44 [[65],[],[66,67]]) = [[65],[],[66,67]] := by decide

end C07

/-! ### what the index semantics mean -/
namespace C07
open Py

theorem rangeI_mem_pos (e step : Int) (hstep : 0 < step) : ∀ (fuel : Nat) (s : Int) (x : Nat), 0 ≤ s →
    x ∈ rangeI s e step fuel → s ≤ (x : Int) ∧ (x : Int) < e := by
  intro fuel
  induction fuel with
  | zero => intro s x _ hx; simp [rangeI] at hx
  | succ fuel ih =>
    intro s x hs hx
    unfold rangeI at hx
    split at hx
    · rename_i hc
      have hlt : s < e := by rcases hc with ⟨_, h⟩ | ⟨h, _⟩ <;> omega
      rcases List.mem_cons.mp hx with h | h
      · subst h
        have : ((s.toNat : Nat) : Int) = s := Int.toNat_of_nonneg hs
        omega
      · have := ih (s + step) x (by omega) h
        omega
    · simp at hx

theorem rangeI_mem_neg (e step : Int) (hstep : step < 0) (he : -1 ≤ e) : ∀ (fuel : Nat) (s : Int) (x : Nat),
    x ∈ rangeI s e step fuel → e < (x : Int) ∧ (x : Int) ≤ s := by
  intro fuel
  induction fuel with
  | zero => intro s x hx; simp [rangeI] at hx
  | succ fuel ih =>
    intro s x hx
    unfold rangeI at hx
    split at hx
    · rename_i hc
      have hgt : s > e := by rcases hc with ⟨h, _⟩ | ⟨_, h⟩ <;> omega
      rcases List.mem_cons.mp hx with h | h
      · subst h
        have : ((s.toNat : Nat) : Int) = s := Int.toNat_of_nonneg (by omega)
        omega
      · have := ih (s + step) x h
        omega
    · simp at hx

theorem sliceBounds_range (len : Nat) (a b : Option Int) (step : Int) :
    (0 < step → 0 ≤ (sliceBounds len a b step).1 ∧ (sliceBounds len a b step).2 ≤ len) ∧
    (step < 0 → (sliceBounds len a b step).1 ≤ (len : Int) - 1 ∧ -1 ≤ (sliceBounds len a b step).2) := by
  unfold sliceBounds
  constructor
  · intro hp
    have h1 : ¬ step < 0 := by omega
    simp only [h1, ↓reduceIte]
    constructor
    · cases a with
      | none => simp
      | some v => simp only; split <;> split <;> (try split) <;> omega
    · cases b with
      | none => simp
      | some v => simp only; split <;> split <;> (try split) <;> omega
  · intro hn
    simp only [hn, ↓reduceIte]
    constructor
    · cases a with
      | none => simp
      | some v => simp only; split <;> split <;> (try split) <;> omega
    · cases b with
      | none => simp
      | some v => simp only; split <;> split <;> (try split) <;> omega

/-- **C07.slice_in_range** — a slice never selects a position outside the sequence (slicing
cannot raise), whatever start, stop and non-zero step (negative, out of range, omitted). -/
theorem slice_in_range (len : Nat) (a b : Option Int) (step : Int) (hstep : step ≠ 0) :
    ∀ x ∈ sliceIdx len a b step, x < len := by
  intro x hx
  unfold sliceIdx at hx
  have hb := sliceBounds_range len a b step
  obtain ⟨se, hsb⟩ : ∃ se, se = sliceBounds len a b step := ⟨_, rfl⟩
  rw [← hsb] at hx hb
  obtain ⟨s, e⟩ := se
  simp only at hx hb
  by_cases hp : 0 < step
  · have := rangeI_mem_pos e step hp (len + 1) s x (hb.1 hp).1 hx
    have := (hb.1 hp).2
    omega
  · have hn : step < 0 := by omega
    have := rangeI_mem_neg e step hn (hb.2 hn).2 (len + 1) s x hx
    have := (hb.2 hn).1
    omega

theorem rangeI_down (n : Nat) : ∀ fuel, n ≤ fuel → rangeI ((n : Int) - 1) (-1) (-1) fuel = (List.range n).reverse := by
  induction n with
  | zero => intro fuel _; cases fuel <;> simp [rangeI]
  | succ n ih =>
    intro fuel hf
    cases fuel with
    | zero => omega
    | succ fuel =>
      unfold rangeI
      have h1 : ((n + 1 : Nat) : Int) - 1 = (n : Int) := by omega
      rw [h1]
      have hc : (0 < (-1 : Int) ∧ (n : Int) < -1) ∨ ((-1 : Int) < 0 ∧ (n : Int) > -1) := Or.inr ⟨by omega, by omega⟩
      simp only [hc, ↓reduceIte, Int.toNat_natCast]
      have h2 : (n : Int) + -1 = (n : Int) - 1 := by omega
      rw [h2, ih fuel (by omega), List.range_succ, List.reverse_append]
      simp

/-- **C07.reverse_slice** — `[::-1]` selects every position in reverse order, so `r[:, ::-1]`
reverses every row and `f[::-1]` reverses a flat array. -/
theorem reverse_slice (len : Nat) : sliceIdx len none none (-1) = (List.range len).reverse := by
  unfold sliceIdx sliceBounds
  simp only [show ((-1 : Int) < 0) from by omega, ↓reduceIte]
  exact rangeI_down len (len + 1) (by omega)

end C07

/-! ### the list reading of every selection: slices are drop/take, masks are filters, fancy indexing reads `l[pos[k]]`, assignment then selection reads back -/
namespace C07
open Base Py

/-- `normIdx` is Python's index rule -/
theorem normIdx_spec (len : Nat) (i : Int) (p : Nat) :
    normIdx len i = some p ↔ ((0 ≤ i ∧ i < len ∧ (p : Int) = i) ∨ (i < 0 ∧ -(len : Int) ≤ i ∧ (p : Int) = len + i)) := by
  unfold normIdx
  split
  · split
    · simp only [Option.some.injEq]; omega
    · simp only [reduceCtorEq, false_iff]; omega
  · split
    · simp only [Option.some.injEq]; omega
    · simp only [reduceCtorEq, false_iff]; omega

/-- ascending unit-step range -/
theorem rangeI_one (s : Nat) : ∀ (n fuel : Nat), n ≤ fuel →
    rangeI (s : Int) ((s + n : Nat) : Int) 1 fuel = List.range' s n := by
  intro n
  induction n generalizing s with
  | zero => intro fuel _; cases fuel <;> simp [rangeI]
  | succ n ih =>
    intro fuel hf
    cases fuel with
    | zero => omega
    | succ fuel =>
      unfold rangeI
      have hc : ((0 : Int) < 1 ∧ (s : Int) < ((s + (n + 1) : Nat) : Int)) ∨ ((1 : Int) < 0 ∧ (s : Int) > ((s + (n + 1) : Nat) : Int)) :=
        Or.inl ⟨by omega, by omega⟩
      simp only [hc, ↓reduceIte, Int.toNat_natCast]
      have h1 : (s : Int) + 1 = ((s + 1 : Nat) : Int) := by omega
      have h2 : ((s + (n + 1) : Nat) : Int) = ((s + 1 + n : Nat) : Int) := by omega
      rw [h1, h2, ih (s + 1) fuel (by omega)]
      simp [List.range'_succ]

theorem rangeI_empty (s e : Int) (h : e ≤ s) (fuel : Nat) : rangeI s e 1 fuel = [] := by
  cases fuel with
  | zero => rfl
  | succ f =>
    unfold rangeI
    have hc : ¬ (((0 : Int) < 1 ∧ s < e) ∨ ((1 : Int) < 0 ∧ s > e)) := by omega
    rw [if_neg hc]

theorem pick_range' {α} (l : List α) (s n : Nat) (h : s + n ≤ l.length) :
    pick l (List.range' s n) = some ((l.drop s).take n) := by
  unfold pick
  induction n generalizing s with
  | zero => simp
  | succ n ih =>
    rw [List.range'_succ]
    simp only [omap]
    rw [ih (s + 1) (by omega)]
    have hs : s < l.length := by omega
    rw [List.getElem?_eq_getElem hs]
    rw [List.drop_eq_getElem_cons hs, List.take_succ_cons]
end C07

namespace C07
open Base Py

/-- **C07.slice_take_drop** — a unit-step slice `l[a:b]` is `drop`/`take` between the clamped bounds
(CPython's adjustment of negative and out-of-range bounds), for every `a`, `b` (present or omitted). -/
theorem slice_take_drop {α} (l : List α) (a b : Option Int) :
    pick l (sliceIdx l.length a b 1) =
      some ((l.drop (sliceBounds l.length a b 1).1.toNat).take
        ((sliceBounds l.length a b 1).2 - (sliceBounds l.length a b 1).1).toNat) := by
  have hb := (sliceBounds_range l.length a b 1).1 (by omega)
  unfold sliceIdx
  obtain ⟨se, hse⟩ : ∃ se, se = sliceBounds l.length a b 1 := ⟨_, rfl⟩
  rw [← hse] at hb ⊢
  obtain ⟨s, e⟩ := se
  simp only at hb ⊢
  by_cases hle : e ≤ s
  · rw [rangeI_empty s e hle]
    have : (e - s).toNat = 0 := by omega
    rw [this]; simp [pick]
  · obtain ⟨sn, hsn⟩ : ∃ sn : Nat, s = sn := ⟨s.toNat, by omega⟩
    obtain ⟨n, hn⟩ : ∃ n : Nat, e = ((sn + n : Nat) : Int) := ⟨(e - s).toNat, by omega⟩
    subst hsn; subst hn
    rw [rangeI_one sn n (l.length + 1) (by omega)]
    have h1 : ((sn : Int)).toNat = sn := by omega
    have h2 : (((sn + n : Nat) : Int) - (sn : Int)).toNat = n := by omega
    rw [h1, h2]
    exact pick_range' l sn n (by omega)

/-- `l[:]` is `l` -/
theorem slice_full {α} (l : List α) : pick l (sliceIdx l.length none none 1) = some l := by
  rw [slice_take_drop]
  simp [sliceBounds]

theorem pick_length {α} (l : List α) (pos : List Nat) (r : List α) (h : pick l pos = some r) :
    r.length = pos.length := omap_length _ pos r h

/-- fancy indexing reads element `pos[k]` into place `k` -/
theorem pick_getElem {α} (l : List α) : ∀ (pos : List Nat) (r : List α), pick l pos = some r →
    ∀ k, k < pos.length → r[k]? = l[pos[k]!]? := by
  intro pos
  induction pos with
  | nil => intro r _ k hk; simp at hk
  | cons p ps ih =>
    intro r h k hk
    obtain ⟨b, bs, hb, hbs, rfl⟩ := omap_cons_eq_some _ p ps r h
    cases k with
    | zero => simp [hb]
    | succ k =>
      simp only [List.getElem?_cons_succ, List.getElem!_cons_succ]
      exact ih bs hbs k (by simpa using hk)

/-- it raises exactly when a position is out of range -/
theorem pick_isSome_iff {α} (l : List α) (pos : List Nat) :
    (pick l pos).isSome ↔ ∀ p ∈ pos, p < l.length := by
  unfold pick
  rw [omap_isSome_iff]
  constructor
  · intro h p hp
    have := h p hp
    rcases Nat.lt_or_ge p l.length with hlt | hge
    · exact hlt
    · rw [List.getElem?_eq_none hge] at this; simp at this
  · intro h p hp
    rw [List.getElem?_eq_getElem (h p hp)]; rfl

theorem pick_range {α} (l : List α) : pick l (List.range l.length) = some l := by
  have := pick_range' l 0 l.length (by omega)
  rw [List.range_eq_range']
  simpa using this

theorem omap_reverse {α β} (f : α → Option β) (l : List α) :
    omap f l.reverse = (omap f l).map List.reverse := by
  induction l with
  | nil => rfl
  | cons x xs ih =>
    rw [List.reverse_cons, omap_append, ih]
    simp only [omap]
    cases f x <;> cases omap f xs <;> simp

/-- `l[::-1]` is `l.reverse` -/
theorem slice_reverse {α} (l : List α) : pick l (sliceIdx l.length none none (-1)) = some l.reverse := by
  rw [reverse_slice]
  unfold pick
  rw [omap_reverse]
  have := pick_range l
  unfold pick at this
  rw [this]; rfl

/-- **C07.reverse_involutive** — reversing twice (`v[::-1][::-1]`, rows of a ragged array or elements
of a flat one) gives back the operand. -/
theorem reverse_involutive {α} (v : Val α) (hv : ∀ c, v ≠ .scalar c) :
    run v [.index (.slice none none (-1)), .index (.slice none none (-1))] = some v := by
  have hs : ((-1 : Int) = 0) = False := by simp
  cases v with
  | scalar c => exact absurd rfl (hv c)
  | flat l =>
    simp only [run, apply, Idx.resolve, hs, ↓reduceIte, Option.bind_some, slice_reverse, Option.map_some]
    have := slice_reverse l.reverse
    rw [List.length_reverse] at this
    simp [this]
  | rag r =>
    simp only [run, apply, Idx.resolve, hs, ↓reduceIte, Option.bind_some, slice_reverse, Option.map_some]
    have := slice_reverse r.reverse
    rw [List.length_reverse] at this
    simp [this]

/-- `r[:, ::-1]` reverses every row -/
theorem colSlice_reverse {α} (r : List (List α)) :
    apply (.rag r) (.colSlice none none (-1)) = some (.rag (r.map List.reverse)) := by
  have hs : ((-1 : Int) = 0) = False := by simp
  simp only [apply, hs, ↓reduceIte]
  rw [omap_some_map (sliceRow none none (-1)) List.reverse r (fun row _ => slice_reverse row)]
  rfl

/-! ### item assignment -/

theorem scatter_length {α} : ∀ (pos : List Nat) (l vs : List α), (scatter l pos vs).length = l.length := by
  intro pos
  induction pos with
  | nil => intro l vs; simp [scatter]
  | cons p ps ih =>
    intro l vs
    cases vs with
    | nil => simp [scatter]
    | cons v vs => simp [scatter, ih]

/-- positions that are not assigned keep their value -/
theorem scatter_other {α} (q : Nat) : ∀ (pos : List Nat) (l vs : List α), q ∉ pos →
    (scatter l pos vs)[q]? = l[q]? := by
  intro pos
  induction pos with
  | nil => intro l vs _; simp [scatter]
  | cons p ps ih =>
    intro l vs hq
    cases vs with
    | nil => simp [scatter]
    | cons v vs =>
      simp only [scatter]
      rw [ih (l.set p v) vs (fun h => hq (List.mem_cons_of_mem _ h))]
      have : p ≠ q := fun h => hq (by simp [h])
      simp [List.getElem?_set_ne this]

/-- **C07.scatter_get** — after `f[ix] = v` (distinct in-range positions), `f[ix]` is `v`: assignment
followed by the same selection reads back the assigned characters. -/
theorem scatter_get {α} : ∀ (pos : List Nat) (l vs : List α), pos.Nodup → (∀ p ∈ pos, p < l.length) →
    vs.length = pos.length → pick (scatter l pos vs) pos = some vs := by
  intro pos
  induction pos with
  | nil => intro l vs _ _ hl; cases vs with
    | nil => rfl
    | cons _ _ => simp at hl
  | cons p ps ih =>
    intro l vs hnd hin hl
    cases vs with
    | nil => simp at hl
    | cons v vs =>
      have hnd' := List.nodup_cons.mp hnd
      simp only [scatter]
      apply omap_cons_some
      · rw [scatter_other p ps (l.set p v) vs hnd'.1]
        simp [hin p (by simp)]
      · have := ih (l.set p v) vs hnd'.2 (fun q hq => by simpa using hin q (by simp [hq])) (by simpa using hl)
        exact this

/-! ### boolean masks -/

theorem pick_mask_aux {α} : ∀ (m : List Bool) (pre rest : List α), m.length = rest.length →
    pick (pre ++ rest) (maskPositions pre.length m) = some (((rest.zip m).filter (·.2)).map (·.1)) := by
  intro m
  induction m with
  | nil => intro pre rest h; cases rest with
    | nil => rfl
    | cons _ _ => simp at h
  | cons b bs ih =>
    intro pre rest h
    cases rest with
    | nil => simp at h
    | cons x xs =>
      have hrec := ih (pre ++ [x]) xs (by simpa using h)
      simp only [List.length_append, List.length_singleton, List.append_assoc, List.singleton_append] at hrec
      cases b with
      | false => simpa [maskPositions] using hrec
      | true =>
        simp only [maskPositions, ↓reduceIte, List.zip_cons_cons, List.filter_cons_of_pos, List.map_cons]
        unfold pick at hrec ⊢
        apply omap_cons_some _ _ _ _ _ _ hrec
        simp

/-- **C07.mask_filter** — boolean-mask indexing `l[m]` keeps exactly the elements whose mask entry is
true, in order (`[x for x, b in zip(l, m) if b]`). -/
theorem mask_filter {α} (l : List α) (m : List Bool) (h : m.length = l.length) :
    pick l (maskPositions 0 m) = some (((l.zip m).filter (·.2)).map (·.1)) := by
  simpa using pick_mask_aux m [] l h

/-- concatenation then ravel is ravel then concatenation -/
theorem ravel_concat {α} (r q : List (List α)) :
    run (.rag r) [.concat (.rag q), .ravel] = run (.flat r.flatten) [.concat (.flat q.flatten)] := by
  simp [run, apply]

/-- `np.append(f, v)` is `np.insert(f, len(f), v)` -/
theorem append_insert {α} (l v : List α) :
    apply (.flat l) (.append v) = apply (.flat l) (.insert l.length v) := by
  simp [apply, insertPos]

end C07

/-! ### observations other than the text commute with decoding -/
namespace C07
open Base Py

theorem zipEq_map {α β} [DecidableEq α] [DecidableEq β] (f : α → β) (hf : Function.Injective f) :
    ∀ (l s : List α), ((l.map f).zip (s.map f)).map (fun p => decide (p.1 = p.2)) = (l.zip s).map (fun p => decide (p.1 = p.2)) := by
  intro l
  induction l with
  | nil => intro s; simp
  | cons x xs ih =>
    intro s
    cases s with
    | nil => simp
    | cons y ys =>
      simp only [List.map_cons, List.zip_cons_cons, ih ys, List.cons.injEq, and_true]
      by_cases h : x = y
      · simp [h]
      · have : f x ≠ f y := fun hh => h (hf hh)
        simp [h, this]

/-- `v == "text"` / `v == other` computed on codes equals the comparison of the decoded texts -/
theorem eqStr_map {α β} [DecidableEq α] [DecidableEq β] (f : α → β) (hf : Function.Injective f) (s : List α) (v : Val α) :
    eqStr (s.map f) (v.map f) = eqStr s v := by
  cases v with
  | flat l =>
    simp only [Val.map, eqStr, List.length_map]
    split
    · rw [zipEq_map f hf]
    · rfl
  | rag r => rfl
  | scalar c => rfl

theorem whereZip_map {α β} (f : α → β) : ∀ (m : List Bool) (a b : List α),
    (m.zip ((a.map f).zip (b.map f))).map (fun p => if p.1 then p.2.1 else p.2.2) =
      ((m.zip (a.zip b)).map (fun p => if p.1 then p.2.1 else p.2.2)).map f := by
  intro m
  induction m with
  | nil => intro a b; simp
  | cons c cs ih =>
    intro a b
    cases a with
    | nil => simp
    | cons x xs =>
      cases b with
      | nil => simp
      | cons y ys =>
        simp only [List.map_cons, List.zip_cons_cons, List.cons.injEq]
        exact ⟨by cases c <;> simp, ih xs ys⟩

theorem whereFlat_map {α β} (f : α → β) (m : List Bool) (a b : List α) :
    whereFlat m (a.map f) (b.map f) = (whereFlat m a b).map (List.map f) := by
  unfold whereFlat
  simp only [List.length_map]
  split
  · simp only [Option.map_some, Option.some.injEq]
    exact whereZip_map f m a b
  · rfl

theorem vlen_map {α β} (f : α → β) (v : Val α) : vlen (v.map f) = vlen v := by
  cases v <;> simp [Val.map, vlen]

/-- **C07.observe_natural** — every modelled observation of a result other than its text (`== string/array`,
`!= char`, `np.where` between two arrays, `len`) computed on the codes is the observation of the decoded
characters: booleans and lengths are equal, `np.where` text decodes to the `where` of the texts. -/
theorem observe_natural {α β} [DecidableEq α] [DecidableEq β] (f : α → β) (hf : Function.Injective f)
    (o : Obs α) (v : Val α) : observe (o.map f) (v.map f) = (observe o v).map (ObsRes.map f) := by
  cases o with
  | eqStr s =>
    simp only [Obs.map, observe, eqStr_map f hf]
    cases eqStr s v <;> simp [ObsRes.map]
  | neChar c =>
    simp only [Obs.map, observe, neChar, eq_char f hf, Option.map_some, ObsRes.map]
  | whereWith m w =>
    cases v with
    | flat l =>
      simp only [Obs.map, Val.map, observe, whereFlat_map]
      cases whereFlat m l w <;> simp [ObsRes.map]
    | rag r => rfl
    | scalar c => rfl
  | len =>
    simp only [Obs.map, observe, vlen_map]
    cases vlen v <;> simp [ObsRes.map]

/-- programs followed by an observation: the whole pipeline commutes with decoding -/
theorem programs_observe {α β} [DecidableEq α] [DecidableEq β] (f : α → β) (hf : Function.Injective f)
    (ops : List (Op α)) (o : Obs α) (v : Val α) :
    (run (v.map f) (ops.map (Op.map f))).bind (observe (o.map f)) = ((run v ops).bind (observe o)).map (ObsRes.map f) := by
  rw [programs f ops v]
  cases run v ops with
  | none => rfl
  | some r => simp [observe_natural f hf]

example : observe (.whereWith [true, false, true] [9, 9, 9]) (Val.flat [1, 2, 3]) = some (.text [1, 9, 3]) := by decide
example : observe (.eqStr [1, 5, 3]) (Val.flat [1, 2, 3]) = some (.boolList [true, false, true]) := by decide

end C07

/-! ### responses to the independent review: general-step slices, definedness, comparison on the present characters, join∘split -/
namespace C07
open Base Py

/-! ### general-step slices: the k-th selected position is `start + k·step`, and the selection is maximal -/

theorem rangeI_getElem (e step : Int) : ∀ (fuel : Nat) (s : Int) (k : Nat), 0 ≤ s ∨ True →
    k < (rangeI s e step fuel).length → (rangeI s e step fuel)[k]? = some (s + k * step).toNat := by
  intro fuel
  induction fuel with
  | zero => intro s k _ hk; simp [rangeI] at hk
  | succ fuel ih =>
    intro s k _ hk
    unfold rangeI at hk ⊢
    split at hk
    · rename_i hc
      simp only [hc, ↓reduceIte]
      cases k with
      | zero => simp
      | succ k =>
        simp only [List.length_cons, Nat.add_lt_add_iff_right] at hk
        rw [List.getElem?_cons_succ, ih (s + step) k (Or.inr trivial) hk]
        congr 2
        have : ((k + 1 : Nat) : Int) * step = (k : Int) * step + step := by
          rw [Int.natCast_add, Int.add_mul]; simp
        omega
    · simp at hk

/-- ascending: every `k` with `s + k·step < e` is selected (given enough fuel) -/
theorem rangeI_complete_pos (e step : Int) (hstep : 0 < step) : ∀ (fuel : Nat) (s : Int) (k : Nat),
    (e - s).toNat ≤ fuel → s + k * step < e → k < (rangeI s e step fuel).length := by
  intro fuel
  induction fuel with
  | zero =>
    intro s k hf hk
    have : 0 ≤ (k : Int) * step := Int.mul_nonneg (by omega) (by omega)
    omega
  | succ fuel ih =>
    intro s k hf hk
    have hkn : 0 ≤ (k : Int) * step := Int.mul_nonneg (by omega) (by omega)
    unfold rangeI
    have hc : (0 < step ∧ s < e) ∨ (step < 0 ∧ s > e) := Or.inl ⟨hstep, by omega⟩
    simp only [hc, ↓reduceIte, List.length_cons]
    cases k with
    | zero => omega
    | succ k =>
      have h1 : ((k + 1 : Nat) : Int) * step = (k : Int) * step + step := by
        rw [Int.natCast_add, Int.add_mul]; simp
      have := ih (s + step) k (by omega) (by omega)
      omega

/-- descending: every `k` with `s + k·step > e` is selected -/
theorem rangeI_complete_neg (e step : Int) (hstep : step < 0) : ∀ (fuel : Nat) (s : Int) (k : Nat),
    (s - e).toNat ≤ fuel → s + k * step > e → k < (rangeI s e step fuel).length := by
  intro fuel
  induction fuel with
  | zero =>
    intro s k hf hk
    have : (k : Int) * step ≤ 0 := Int.mul_nonpos_of_nonneg_of_nonpos (by omega) (by omega)
    omega
  | succ fuel ih =>
    intro s k hf hk
    have hkn : (k : Int) * step ≤ 0 := Int.mul_nonpos_of_nonneg_of_nonpos (by omega) (by omega)
    unfold rangeI
    have hc : (0 < step ∧ s < e) ∨ (step < 0 ∧ s > e) := Or.inr ⟨hstep, by omega⟩
    simp only [hc, ↓reduceIte, List.length_cons]
    cases k with
    | zero => omega
    | succ k =>
      have h1 : ((k + 1 : Nat) : Int) * step = (k : Int) * step + step := by
        rw [Int.natCast_add, Int.add_mul]; simp
      have := ih (s + step) k (by omega) (by omega)
      omega

/-- every selected position satisfies the loop condition -/
theorem rangeI_cond (e step : Int) : ∀ (fuel : Nat) (s : Int) (k : Nat),
    k < (rangeI s e step fuel).length → (0 < step ∧ s + k * step < e) ∨ (step < 0 ∧ s + k * step > e) := by
  intro fuel
  induction fuel with
  | zero => intro s k hk; simp [rangeI] at hk
  | succ fuel ih =>
    intro s k hk
    unfold rangeI at hk
    split at hk
    · rename_i hc
      cases k with
      | zero => simpa using hc
      | succ k =>
        simp only [List.length_cons, Nat.add_lt_add_iff_right] at hk
        have := ih (s + step) k hk
        have h1 : ((k + 1 : Nat) : Int) * step = (k : Int) * step + step := by
          rw [Int.natCast_add, Int.add_mul]; simp
        rcases this with ⟨h, h'⟩ | ⟨h, h'⟩
        · exact Or.inl ⟨h, by omega⟩
        · exact Or.inr ⟨h, by omega⟩
    · simp at hk

/-- **C07.slice_general** — every slice `a:b:step` (any non-zero step, bounds present or omitted, negative or
out of range): with `(s, e)` CPython's adjusted bounds, the `k`-th selected position is `s + k·step`, every
selected position lies strictly before `e` in the direction of the step, and every `k` whose `s + k·step` does
so is selected — i.e. the selection is exactly `range(s, e, step)`. -/
theorem slice_general (len : Nat) (a b : Option Int) (step : Int) (hstep : step ≠ 0) :
    let s := (sliceBounds len a b step).1
    let e := (sliceBounds len a b step).2
    (∀ k, k < (sliceIdx len a b step).length → (sliceIdx len a b step)[k]? = some (s + k * step).toNat) ∧
    (∀ k : Nat, (if 0 < step then s + k * step < e else s + k * step > e) → k < (sliceIdx len a b step).length) ∧
    (∀ k, k < (sliceIdx len a b step).length → (if 0 < step then s + k * step < e else s + k * step > e)) := by
  have hb := sliceBounds_range len a b step
  unfold sliceIdx
  obtain ⟨se, hse⟩ : ∃ se, se = sliceBounds len a b step := ⟨_, rfl⟩
  rw [← hse] at hb ⊢
  obtain ⟨s, e⟩ := se
  simp only at hb ⊢
  refine ⟨fun k hk => rangeI_getElem e step _ s k (Or.inr trivial) hk, ?_, ?_⟩
  · intro k hk
    by_cases hp : 0 < step
    · simp only [hp, ↓reduceIte] at hk
      have := hb.1 hp
      exact rangeI_complete_pos e step hp _ s k (by omega) hk
    · have hn : step < 0 := by omega
      simp only [hp, ↓reduceIte] at hk
      have := hb.2 hn
      exact rangeI_complete_neg e step hn _ s k (by omega) hk
  · intro k hk
    rcases rangeI_cond e step _ s k hk with ⟨hp, h⟩ | ⟨hn, h⟩
    · simp only [hp, ↓reduceIte]; exact h
    · have : ¬ 0 < step := by omega
      simp only [this, ↓reduceIte]; exact h

example : sliceIdx 7 (some 5) (some 0) (-2) = [5, 3, 1] ∧ sliceIdx 7 (some (-1)) none (-3) = [6, 3, 0] ∧
    sliceIdx 7 (some 1) (some 100) 3 = [1, 4] := by decide

/-! ### definedness: in-range operations do not raise -/

/-- slicing never raises (rows or elements), whatever the bounds -/
theorem slice_defined {α} (v : Val α) (hv : ∀ c, v ≠ .scalar c) (a b : Option Int) (s : Int) (hs : s ≠ 0) :
    (apply v (.index (.slice a b s))).isSome = true := by
  cases v with
  | scalar c => exact absurd rfl (hv c)
  | flat l =>
    simp only [apply, Idx.resolve, hs, ↓reduceIte, Option.bind_some]
    have := (pick_isSome_iff l (sliceIdx l.length a b s)).mpr (slice_in_range l.length a b s hs)
    cases h : pick l (sliceIdx l.length a b s) <;> simp [h] at this ⊢
  | rag r =>
    simp only [apply, Idx.resolve, hs, ↓reduceIte, Option.bind_some]
    have := (pick_isSome_iff r (sliceIdx r.length a b s)).mpr (slice_in_range r.length a b s hs)
    cases h : pick r (sliceIdx r.length a b s) <;> simp [h] at this ⊢

/-- an integer index in `[-len, len)` does not raise -/
theorem int_index_defined {α} (l : List α) (i : Int) (h : -(l.length : Int) ≤ i ∧ i < l.length) :
    (apply (.flat l) (.index (.int i))).isSome = true := by
  simp only [apply]
  unfold normIdx
  split
  · have : i.toNat < l.length := by omega
    simp [this]
  · have h1 : (-i).toNat ≤ l.length := by omega
    have h2 : l.length - (-i).toNat < l.length := by omega
    simp [h1, h2]

/-! ### comparison needs the decoding to be injective only on what is present -/

theorem eq_char_on {α β} [DecidableEq α] [DecidableEq β] (f : α → β) (c : α) (l : List α)
    (hf : ∀ x ∈ l, f x = f c → x = c) : eqChar (f c) ((Val.flat l).map f) = eqChar c (Val.flat l) := by
  simp only [Val.map, eqChar, List.map_map, Val.flat.injEq]
  apply List.map_congr_left
  intro x hx
  by_cases h : x = c
  · simp [h]
  · have : f x ≠ f c := fun e => h (hf x hx e)
    simp [h, this]

/-! ### split and join are mutually inverse -/

theorem splitAux_ne_nil {α} [DecidableEq α] (sep : α) : ∀ (s cur : List α), splitAux sep cur s ≠ [] := by
  intro s
  induction s with
  | nil => intro cur; simp [splitAux]
  | cons x xs ih => intro cur; unfold splitAux; split <;> simp [ih]

theorem flatMap_sep_ne_nil {α} (sep : α) (l : List (List α)) (h : l ≠ []) : l.flatMap (fun r => r ++ [sep]) ≠ [] := by
  cases l with
  | nil => exact absurd rfl h
  | cons r rs => simp

theorem join_splitAux {α} [DecidableEq α] (sep : α) : ∀ (s cur : List α),
    join sep (splitAux sep cur s) = cur.reverse ++ s := by
  intro s
  induction s with
  | nil => intro cur; simp [splitAux, join]
  | cons x xs ih =>
    intro cur
    unfold splitAux
    split
    · rename_i hx
      have h := ih []
      simp only [List.reverse_nil, List.nil_append] at h
      unfold join at h ⊢
      simp only [List.flatMap_cons]
      rw [List.dropLast_append_of_ne_nil (flatMap_sep_ne_nil sep _ (splitAux_ne_nil sep xs [])), h, hx]
      simp
    · have h := ih (x :: cur)
      simpa using h

/-- **C07.join_split** — `join(split(s, sep), sep) = s` for every text (no hypothesis) -/
theorem join_split {α} [DecidableEq α] (sep : α) (s : List α) : join sep (split sep s) = s := by
  simpa [split] using join_splitAux sep s []

/-- **C07.pick_pick** — fancy indexing composes: `f[ix][jx]` is `f[ix[jx]]` — the same characters, and
the one raises exactly when the other does (given that `ix` is valid for `f` and `jx` for `ix`). -/
theorem pick_pick {α} (l : List α) (ix : List Nat) (r : List α) (h : pick l ix = some r) :
    ∀ (jx kx : List Nat), pick ix jx = some kx → pick r jx = pick l kx := by
  intro jx
  induction jx with
  | nil => intro kx hk; simp [pick] at hk; subst hk; simp [pick]
  | cons j js ih =>
    intro kx hk
    obtain ⟨b, bs, hb, hbs, rfl⟩ := omap_cons_eq_some _ j js kx hk
    have hj : j < ix.length := by
      rcases Nat.lt_or_ge j ix.length with h1 | h1
      · exact h1
      · rw [List.getElem?_eq_none h1] at hb; simp at hb
    have hget := pick_getElem l ix r h j hj
    have hb' : ix[j]! = b := by
      rw [List.getElem?_eq_getElem hj] at hb
      simp only [Option.some.injEq] at hb
      simp [hj, hb]
    have := ih bs hbs
    unfold pick at this ⊢
    simp only [omap, this, hget, hb']

/-- non-vacuity: `"ACGT"[[3,0,2]][[1,1,0]]` = `"ACGT"[[0,0,3]]` = `"AAT"` -/
example : pick [65, 67, 71, 84] [3, 0, 2] = some [84, 65, 71] ∧ pick [3, 0, 2] [1, 1, 0] = some [0, 0, 3]
    ∧ pick [84, 65, 71] [1, 1, 0] = some [65, 65, 84] ∧ pick [65, 67, 71, 84] [0, 0, 3] = some [65, 65, 84] := by decide

theorem maskPositions_bounds : ∀ (m : List Bool) (i : Nat), ∀ p ∈ maskPositions i m, i ≤ p ∧ p < i + m.length := by
  intro m
  induction m with
  | nil => intro i p hp; simp [maskPositions] at hp
  | cons b bs ih =>
    intro i p hp
    unfold maskPositions at hp
    split at hp
    · rcases List.mem_cons.mp hp with rfl | hp
      · simp
      · have := ih (i + 1) p hp; simp only [List.length_cons]; omega
    · have := ih (i + 1) p hp; simp only [List.length_cons]; omega

theorem maskPositions_nodup : ∀ (m : List Bool) (i : Nat), (maskPositions i m).Nodup := by
  intro m
  induction m with
  | nil => intro i; simp [maskPositions]
  | cons b bs ih =>
    intro i
    unfold maskPositions
    split
    · refine List.nodup_cons.mpr ⟨?_, ih (i + 1)⟩
      intro hmem
      have := maskPositions_bounds bs (i + 1) i hmem
      omega
    · exact ih (i + 1)

/-- **C07.mask_assign_get** — `f[m] = v` followed by `f[m]` reads back `v`, for every boolean mask of the
operand's length and every `v` with one value per selected position. -/
theorem mask_assign_get {α} (l vs : List α) (m : List Bool) (h : m.length = l.length)
    (hv : vs.length = (maskPositions 0 m).length) :
    pick (scatter l (maskPositions 0 m) vs) (maskPositions 0 m) = some vs :=
  scatter_get _ l vs (maskPositions_nodup m 0)
    (fun p hp => by have := maskPositions_bounds m 0 p hp; omega) hv

/-- positions outside the mask keep their character -/
theorem mask_assign_other {α} (l vs : List α) (m : List Bool) (q : Nat) (hq : q ∉ maskPositions 0 m) :
    (scatter l (maskPositions 0 m) vs)[q]? = l[q]? := by
  exact scatter_other q _ l vs hq

/-- non-vacuity: `f = "ACGT"; f[[T,F,T,F]] = "NN"` gives `"NCNT"` and reads back `"NN"` -/
example : scatter [65, 67, 71, 84] (maskPositions 0 [true, false, true, false]) [78, 78] = [78, 67, 78, 84]
    ∧ pick [78, 67, 78, 84] (maskPositions 0 [true, false, true, false]) = some [78, 78] := by decide

/-- **C07.pick_concat_left** — selecting from a concatenation at positions inside the first operand is selecting from the
first operand (`np.concatenate([f, g])[ix] = f[ix]`). -/
theorem pick_concat_left {α} (l m : List α) (pos : List Nat) (h : ∀ p ∈ pos, p < l.length) :
    pick (l ++ m) pos = pick l pos := by
  unfold pick
  apply omap_congr
  intro p hp
  exact List.getElem?_append_left (h p hp)

/-- **C07.pick_concat_right** — positions shifted by the length of the first operand select from the second
(`np.concatenate([f, g])[len(f) + ix] = g[ix]`, raising exactly when `g[ix]` does). -/
theorem pick_concat_right {α} (l m : List α) (pos : List Nat) :
    pick (l ++ m) (pos.map (· + l.length)) = pick m pos := by
  induction pos with
  | nil => rfl
  | cons p ps ih =>
    unfold pick at ih ⊢
    simp only [List.map_cons, omap, ih]
    rw [List.getElem?_append_right (by omega)]
    simp

/-- non-vacuity: `"AC" ++ "GT"` at `[1, 0]` and at `[2+1, 2+0]` -/
example : pick ([65, 67] ++ [71, 84]) [1, 0] = some [67, 65] ∧ pick ([65, 67] ++ [71, 84]) ([1, 0].map (· + 2)) = some [84, 71] := by decide

end C07
