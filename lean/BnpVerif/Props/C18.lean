import BnpVerif.Model.C18
/-! C18 property theorems. Helper lemmas first; the property theorems are the ones listed in
`Audit/C18.lean`. -/
namespace C18
open Base

/-! ### power_array -/

/-- the array before the final cumsum, row by row: `L-1` at the row start, then `-1`s -/
def jumpRow (L : Nat) : List Int := ((L : Int) - 1) :: List.replicate (L - 1) (-1)

/-- scatter positions/values written recursively -/
def pairsFrom (off : Nat) : List Nat → List (Nat × Int)
  | [] => []
  | [_] => []
  | L :: L2 :: r => (off + L, (L2 : Int)) :: pairsFrom (off + L) (L2 :: r)

theorem prefixSums_ne_nil (off : Nat) (L : Nat) (r : List Nat) : prefixSums off (L :: r) ≠ [] := by
  simp [prefixSums]

theorem pairs_eq (off : Nat) (lengths : List Nat) :
    (prefixSums off lengths).dropLast.zip (lengths.tail.map Int.ofNat) = pairsFrom off lengths := by
  induction lengths generalizing off with
  | nil => rfl
  | cons L r ih =>
    cases r with
    | nil => simp [prefixSums, pairsFrom]
    | cons L2 r' =>
      have := ih (off + L)
      simp only [prefixSums, List.tail_cons, List.map_cons] at this ⊢
      rw [List.dropLast_cons_of_ne_nil (by simp)]
      simp only [List.zip_cons_cons, pairsFrom]
      congr 1

theorem modify_append_length {α} (pre : List α) (x : α) (xs : List α) (f : α → α) :
    (pre ++ x :: xs).modify pre.length f = pre ++ f x :: xs := by
  induction pre with
  | nil => simp
  | cons a as ih => simp [ih]

theorem scatter_rows (r : List Nat) (hpos : ∀ l ∈ r, 0 < l) (pre row : List Int) (L : Nat)
    (hrow : row.length = L) :
    scatterAdd (pre ++ row ++ List.replicate r.sum (-1)) (pairsFrom pre.length (L :: r)) =
      pre ++ row ++ (r.map jumpRow).flatten := by
  induction r generalizing pre row L with
  | nil => simp [pairsFrom, scatterAdd]
  | cons L2 r' ih =>
    have hL2 : 0 < L2 := hpos L2 (by simp)
    simp only [pairsFrom, scatterAdd, List.sum_cons]
    obtain ⟨k, hk⟩ : ∃ k, L2 = k + 1 := ⟨L2 - 1, by omega⟩
    have h1 : List.replicate (L2 + r'.sum) (-1 : Int) = (-1) :: (List.replicate k (-1) ++ List.replicate r'.sum (-1)) := by
      rw [hk, show k + 1 + r'.sum = (k + r'.sum) + 1 by omega, List.replicate_succ, List.replicate_append_replicate]
    rw [h1]
    have h2 : pre.length + L = (pre ++ row).length := by simp [hrow]
    rw [h2, modify_append_length]
    have h3 : (pre ++ row) ++ ((-1 : Int) + (L2 : Int)) :: (List.replicate k (-1) ++ List.replicate r'.sum (-1))
        = (pre ++ row) ++ jumpRow L2 ++ List.replicate r'.sum (-1) := by
      simp [jumpRow, hk]
      omega
    rw [h3]
    have := ih (fun l hl => hpos l (by simp [hl])) (pre ++ row) (jumpRow L2) L2 (by simp [jumpRow]; omega)
    rw [this]
    simp

theorem cumsum_append (acc : Int) (a b : List Int) :
    cumsumFrom acc (a ++ b) = cumsumFrom acc a ++ cumsumFrom (acc + a.sum) b := by
  induction a generalizing acc with
  | nil => simp [cumsumFrom]
  | cons x xs ih => simp [cumsumFrom, ih, Int.add_assoc]

theorem cumsum_replicate (acc : Int) (k : Nat) (h : acc = k) :
    cumsumFrom acc (List.replicate k (-1)) = countdown k := by
  induction k generalizing acc with
  | zero => rfl
  | succ n ih =>
    simp only [List.replicate_succ, cumsumFrom, countdown]
    rw [ih (acc + -1) (by omega)]
    congr 1; omega

theorem cumsum_jumpRow (L : Nat) (h : 0 < L) : cumsumFrom 0 (jumpRow L) = countdown L := by
  obtain ⟨k, rfl⟩ : ∃ k, L = k + 1 := ⟨L - 1, by omega⟩
  simp only [jumpRow, cumsumFrom, countdown, Nat.add_sub_cancel]
  rw [cumsum_replicate _ k (by omega)]
  congr 1; omega

theorem sum_jumpRow (L : Nat) (h : 0 < L) : (jumpRow L).sum = 0 := by
  obtain ⟨k, rfl⟩ : ∃ k, L = k + 1 := ⟨L - 1, by omega⟩
  simp only [jumpRow, List.sum_cons, Nat.add_sub_cancel]
  have : (List.replicate k (-1 : Int)).sum = -(k : Int) := by
    induction k with
    | zero => rfl
    | succ n ih => simp [List.replicate_succ, ih]; omega
  rw [this]; omega

theorem cumsum_rows (ls : List Nat) (hpos : ∀ l ∈ ls, 0 < l) :
    cumsumFrom 0 (ls.map jumpRow).flatten = (ls.map countdown).flatten := by
  induction ls with
  | nil => rfl
  | cons L r ih =>
    simp only [List.map_cons, List.flatten_cons, cumsum_append]
    rw [sum_jumpRow L (hpos L (by simp)), cumsum_jumpRow L (hpos L (by simp))]
    simp only [Int.add_zero]
    rw [ih (fun l hl => hpos l (by simp [hl]))]

/-- **C18.power_array** -/
theorem power_array (lengths : List Nat) (hpos : ∀ l ∈ lengths, 0 < l) :
    buildPowerArray lengths = (lengths.map countdown).flatten := by
  cases lengths with
  | nil => rfl
  | cons L r =>
    have hL : 0 < L := hpos L (by simp)
    unfold buildPowerArray
    simp only [pairs_eq, List.sum_cons, List.headD_cons]
    have h0 : List.replicate (L + r.sum) (-1 : Int) = [] ++ List.replicate L (-1) ++ List.replicate r.sum (-1) := by
      simp [List.replicate_append_replicate]
    rw [h0]
    have := scatter_rows r (fun l hl => hpos l (by simp [hl])) [] (List.replicate L (-1)) L (by simp)
    simp only [List.length_nil] at this
    rw [this]
    have h1 : ([] ++ List.replicate L (-1 : Int) ++ (r.map jumpRow).flatten).modifyHead (· + (L : Int))
        = ((L :: r).map jumpRow).flatten := by
      obtain ⟨k, rfl⟩ : ∃ k, L = k + 1 := ⟨L - 1, by omega⟩
      simp [List.replicate_succ, jumpRow]
      omega
    rw [h1]
    exact cumsum_rows (L :: r) hpos


theorem unflatten_flatten {α} (rows : List (List α)) :
    unflatten (rows.map List.length) rows.flatten = rows := by
  induction rows with
  | nil => simp [unflatten]
  | cons r rs ih => simp [unflatten, ih]

theorem length_countdown (L : Nat) : (countdown L).length = L := by
  induction L with
  | zero => rfl
  | succ n ih => simp [countdown, ih]

/-- canonical big-endian decimal digits (`digitsBE 0 = [0]`) -/
def digitsBE (m : Nat) : List Nat :=
  if _h : m < 10 then [m] else digitsBE (m / 10) ++ [m % 10]
termination_by m
decreasing_by omega

/-- the digits the code extracts for a row of the power table -/
def digitsDown (L : Nat) (m : Nat) : List Nat := (countdown L).map (fun p => m / 10 ^ p.toNat % 10)

theorem digitsDown_succ (L m : Nat) : digitsDown (L + 1) m = (m / 10 ^ L % 10) :: digitsDown L m := by
  simp [digitsDown, countdown]

theorem digitsDown_snoc (L m : Nat) : digitsDown (L + 1) m = digitsDown L (m / 10) ++ [m % 10] := by
  induction L with
  | zero => simp [digitsDown, countdown]
  | succ n ih =>
    rw [digitsDown_succ, ih, digitsDown_succ]
    simp only [List.cons_append]
    congr 2
    rw [Nat.div_div_eq_div_mul, Nat.pow_succ, Nat.mul_comm]

theorem digitsDown_eq (L m : Nat) (hlt : m < 10 ^ (L + 1)) (hge : L = 0 ∨ 10 ^ L ≤ m) :
    digitsDown (L + 1) m = digitsBE m := by
  induction L generalizing m with
  | zero =>
    have : m < 10 := by simpa using hlt
    rw [digitsBE]; simp [this, digitsDown, countdown, Nat.mod_eq_of_lt this]
  | succ n ih =>
    have h10 : 10 ^ (n + 1) ≤ m := by cases hge with | inl h => omega | inr h => exact h
    have hpos : 0 < 10 ^ n := Nat.pow_pos (by omega)
    have hm : ¬ m < 10 := by
      have : 10 ≤ 10 ^ (n + 1) := by rw [Nat.pow_succ]; omega
      omega
    rw [digitsDown_snoc, digitsBE]
    simp only [hm, dite_false]
    rw [ih (m / 10)]
    · rw [Nat.div_lt_iff_lt_mul (by omega)]; rw [Nat.pow_succ] at hlt; exact hlt
    · right; rw [Nat.le_div_iff_mul_le (by omega)]; rw [Nat.pow_succ] at h10; exact h10

theorem digitsBE_bounds (m : Nat) :
    m < 10 ^ (digitsBE m).length ∧ ((digitsBE m).length = 1 ∨ 10 ^ ((digitsBE m).length - 1) ≤ m) ∧ 0 < (digitsBE m).length := by
  induction m using Nat.strongRecOn with
  | _ m ih =>
    rw [digitsBE]
    by_cases h : m < 10
    · simp [h]
    · simp only [h, dite_false, List.length_append, List.length_singleton]
      obtain ⟨h1, h2, h3⟩ := ih (m / 10) (by omega)
      obtain ⟨k, hk⟩ : ∃ k, (digitsBE (m / 10)).length = k := ⟨_, rfl⟩
      rw [hk] at h1 h2 h3 ⊢
      refine ⟨?_, ?_, by omega⟩
      · rw [Nat.pow_succ]; omega
      · right
        simp only [Nat.add_sub_cancel]
        cases h2 with
        | inl h2 => subst h2; simp; omega
        | inr h2 =>
          obtain ⟨j, rfl⟩ : ∃ j, k = j + 1 := ⟨k - 1, by omega⟩
          simp only [Nat.add_sub_cancel] at h2
          rw [Nat.pow_succ]; omega

theorem count_thresholds (m j : Nat) (hlt : m < 10 ^ (j + 1)) (hge : j = 0 ∨ 10 ^ j ≤ m) (N : Nat) :
    (((List.range N).map (fun k => 10 ^ (k + 1))).filter (fun t => decide (t ≤ m))).length = min N j := by
  induction N with
  | zero => simp
  | succ n ih =>
    rw [List.range_succ, List.map_append, List.filter_append, List.length_append, ih]
    simp only [List.map_cons, List.map_nil, List.filter_cons, List.filter_nil]
    by_cases hn : n < j
    · have : 10 ^ (n + 1) ≤ m := by
        have : 10 ^ (n + 1) ≤ 10 ^ j := Nat.pow_le_pow_right (by omega) (by omega)
        cases hge with | inl h => omega | inr h => omega
      simp [this]; omega
    · have : ¬ 10 ^ (n + 1) ≤ m := by
        have : 10 ^ (j + 1) ≤ 10 ^ (n + 1) := Nat.pow_le_pow_right (by omega) (by omega)
        omega
      simp [this]; omega

/-- the repaired width is the number of decimal digits (all magnitudes below `10^20`, so all of
int64 and uint64) -/
theorem width_spec (m : Nat) (h : m < 10 ^ 20) : width m = (digitsBE m).length := by
  obtain ⟨h1, h2, h3⟩ := digitsBE_bounds m
  obtain ⟨k, hk⟩ : ∃ k, (digitsBE m).length = k := ⟨_, rfl⟩
  rw [hk] at h1 h2 h3 ⊢
  obtain ⟨j, rfl⟩ : ∃ j, k = j + 1 := ⟨k - 1, by omega⟩
  simp only [Nat.add_sub_cancel] at h2
  have hj : j ≤ 19 := by
    apply Classical.byContradiction
    intro hc
    have : 10 ^ 20 ≤ 10 ^ j := Nat.pow_le_pow_right (by omega) (by omega)
    cases h2 with | inl h => omega | inr h => omega
  unfold width powTable
  rw [count_thresholds m j h1 (by cases h2 with | inl h => left; omega | inr h => right; exact h) 19]
  omega



/-! ### the specification text is core `Int.repr` -/

theorem digitChar_toNat (d : Nat) (h : d < 10) : (Nat.digitChar d).toNat = d + 48 := by
  have : d = 0 ∨ d = 1 ∨ d = 2 ∨ d = 3 ∨ d = 4 ∨ d = 5 ∨ d = 6 ∨ d = 7 ∨ d = 8 ∨ d = 9 := by omega
  rcases this with h | h | h | h | h | h | h | h | h | h <;> subst h <;> rfl

theorem toDigits_eq (m : Nat) : (Nat.toDigits 10 m).map Char.toNat = (digitsBE m).map (· + 48) := by
  induction m using Nat.strongRecOn with
  | _ m ih =>
    rw [Nat.toDigits_eq_if (by omega), digitsBE]
    by_cases h : m < 10
    · simp [h, digitChar_toNat m h]
    · simp only [h, if_false, dite_false, List.map_append, List.map_cons, List.map_nil]
      rw [ih (m / 10) (by omega), digitChar_toNat _ (Nat.mod_lt _ (by omega))]

theorem decimal_nonneg (n : Int) (h : 0 ≤ n) : decimal n = (digitsBE n.natAbs).map (· + 48) := by
  unfold decimal
  rw [Int.toString_eq_repr, Int.repr_eq_if]
  simp only [h, if_true, Nat.toList_repr, toDigits_eq]
  congr 2
  omega

theorem decimal_neg (n : Int) (h : n < 0) : decimal n = 45 :: (digitsBE n.natAbs).map (· + 48) := by
  unfold decimal
  rw [Int.toString_eq_repr, Int.repr_eq_if]
  have : ¬ 0 ≤ n := by omega
  simp only [this, if_false, String.toList_append, List.map_append, Nat.toList_repr, toDigits_eq]
  have h2 : (-n).toNat = n.natAbs := by omega
  rw [h2]
  rfl

/-! ### format_int -/

theorem fmt_digit (m k : Nat) : ((48 : Int) + (m : Int) / 10 ^ k % 10).toNat = m / 10 ^ k % 10 + 48 := by
  have : (m : Int) / 10 ^ k % 10 = ((m / 10 ^ k % 10 : Nat) : Int) := by
    push_cast; rfl
  rw [this]; omega

theorem fmtRow_pos (m L : Nat) :
    fmtRow (m : Int) false (countdown L) = (digitsDown L m).map (· + 48) := by
  simp only [fmtRow, Bool.false_eq_true, if_false, digitsDown, List.map_map]
  apply List.map_congr_left
  intro p _
  simp [fmt_digit]

theorem fmtRow_neg (m L : Nat) :
    fmtRow (m : Int) true (countdown (L + 1)) = 45 :: (digitsDown L m).map (· + 48) := by
  have := fmtRow_pos m L
  simp only [fmtRow, Bool.false_eq_true, if_false] at this
  simp only [fmtRow, if_true, countdown, List.map_cons, List.set_cons_zero, this]

/-- one row, as the repaired code computes it once the power table is known -/
def fmtOne (n : Int) : Bytes :=
  fmtRow (n.natAbs : Int) (decide (n < 0)) (countdown (width n.natAbs + (if n < 0 then 1 else 0)))

theorem width_pos (m : Nat) : 0 < width m := by unfold width; omega

theorem fmtOne_eq (n : Int) (h : n.natAbs < 10 ^ 20) : fmtOne n = decimal n := by
  unfold fmtOne
  have hw := width_spec n.natAbs h
  obtain ⟨h1, h2, h3⟩ := digitsBE_bounds n.natAbs
  obtain ⟨j, hj⟩ : ∃ j, (digitsBE n.natAbs).length = j + 1 := ⟨(digitsBE n.natAbs).length - 1, by omega⟩
  rw [hj] at h1 h2
  simp only [Nat.add_sub_cancel] at h2
  have hd : digitsDown (j + 1) n.natAbs = digitsBE n.natAbs :=
    digitsDown_eq j _ h1 (by cases h2 with | inl h => left; omega | inr h => right; exact h)
  rw [hw, hj]
  by_cases hn : n < 0
  · simp only [hn, decide_true, if_true]
    rw [fmtRow_neg, hd, decimal_neg n hn]
  · simp only [hn, decide_false, if_false, Nat.add_zero]
    rw [fmtRow_pos, hd, decimal_nonneg n (by omega)]

theorem zip_map_self {α β γ} (l : List α) (g : α → β) (f : α × β → γ) :
    (l.zip (l.map g)).map f = l.map (fun a => f (a, g a)) := by
  induction l with
  | nil => rfl
  | cons a as ih => simp [ih]

theorem power_rows (lengths : List Nat) (hpos : ∀ l ∈ lengths, 0 < l) :
    unflatten lengths (buildPowerArray lengths) = lengths.map countdown := by
  rw [power_array lengths hpos]
  have : lengths = (lengths.map countdown).map List.length := by
    simp [List.map_map, Function.comp_def, length_countdown]
  rw (occs := [1]) [this]
  exact unflatten_flatten _

/-- the batch is computed row by row (for every batch, any values) -/
theorem intsToStrings_rows (ns : List Int) : intsToStrings ns = ns.map fmtOne := by
  unfold intsToStrings
  simp only
  rw [power_rows]
  · rw [List.map_map, zip_map_self]
    rfl
  · intro l hl
    simp only [List.mem_map] at hl
    obtain ⟨n, _, rfl⟩ := hl
    have := width_pos n.natAbs
    omega

def int64 (n : Int) : Prop := -9223372036854775808 ≤ n ∧ n < 9223372036854775808

/-- **C18.format_int**: every batch of int64 values is formatted element-wise to the canonical
decimal text (`decimal n` is core `toString n`) -/
theorem format_int (ns : List Int) (h : ∀ n ∈ ns, int64 n) : intsToStrings ns = ns.map decimal := by
  rw [intsToStrings_rows]
  apply List.map_congr_left
  intro n hn
  apply fmtOne_eq
  have := h n hn
  unfold int64 at this
  omega

example : ∀ n ∈ [0, -9223372036854775808, 9223372036854775807, 999999999999999, (-10 : Int)], int64 n := by
  unfold int64; decide


/-! ### the rule shipped before the repair is refuted (concrete witnesses, replayed on the code) -/

/-- `ints_to_strings([-2^63])` gave `'-2'`: `np.abs` wraps, `max(·,1) = 1`, `log10(1.0) = 0` exactly -/
theorem format_int_old_unsound_min (w : Int → Nat) (hw : w 1 = 1) :
    intsToStringsOld w [-9223372036854775808] = ["-2".toList.map Char.toNat] ∧
    intsToStringsOld w [-9223372036854775808] ≠ [decimal (-9223372036854775808)] := by
  have h : intsToStringsOld w [-9223372036854775808] = ["-2".toList.map Char.toNat] := by
    have e : max (wrap64 (((-9223372036854775808 : Int).natAbs : Nat) : Int)) 1 = 1 := by decide
    unfold intsToStringsOld
    simp only [List.map_cons, List.map_nil, e, hw]
    decide
  rw [h]
  exact ⟨rfl, by decide⟩

/-- `ints_to_strings([10^15-1])` gave a leading `'0'`: `float(10^15-1)` is exact and the correctly
rounded `log10` of it is `15.0`, so the float width is 16 (hypothesis `hw`; observed on the code) -/
theorem format_int_old_unsound_pow (w : Int → Nat) (hw : w 999999999999999 = 16) :
    intsToStringsOld w [999999999999999] = ["0999999999999999".toList.map Char.toNat] ∧
    intsToStringsOld w [999999999999999] ≠ [decimal 999999999999999] := by
  have h : intsToStringsOld w [999999999999999] = ["0999999999999999".toList.map Char.toNat] := by
    have e : max (wrap64 (((999999999999999 : Int).natAbs : Nat) : Int)) 1 = 999999999999999 := by decide
    unfold intsToStringsOld
    simp only [List.map_cons, List.map_nil, e, hw]
    decide
  rw [h]
  exact ⟨rfl, by decide⟩

end C18
