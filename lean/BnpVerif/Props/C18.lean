import BnpVerif.Model.C18
/-! C18 property theorems. Helper lemmas first; the property theorems are the ones listed in
`Audit/C18.lean`. -/
namespace C18
open Base

/-! ### power_array -/

/-- the array before the final cumsum, row by row: `L-1` at the row start, then `-1`s -/
def jumpRow (L : Nat) : List Int := ((L : Int) - 1) :: List.replicate (L - 1) (-1)

/-- scatter positions/values written recursively -/
def pairsFrom (off : Nat) : List Nat → List (Nat × Int)
  | [] => []
  | [_] => []
  | L :: L2 :: r => (off + L, (L2 : Int)) :: pairsFrom (off + L) (L2 :: r)

theorem prefixSums_ne_nil (off : Nat) (L : Nat) (r : List Nat) : prefixSums off (L :: r) ≠ [] := by
  simp [prefixSums]

theorem pairs_eq (off : Nat) (lengths : List Nat) :
    (prefixSums off lengths).dropLast.zip (lengths.tail.map Int.ofNat) = pairsFrom off lengths := by
  induction lengths generalizing off with
  | nil => rfl
  | cons L r ih =>
    cases r with
    | nil => simp [prefixSums, pairsFrom]
    | cons L2 r' =>
      have := ih (off + L)
      simp only [prefixSums, List.tail_cons, List.map_cons] at this ⊢
      rw [List.dropLast_cons_of_ne_nil (by simp)]
      simp only [List.zip_cons_cons, pairsFrom]
      congr 1

theorem modify_append_length {α} (pre : List α) (x : α) (xs : List α) (f : α → α) :
    (pre ++ x :: xs).modify pre.length f = pre ++ f x :: xs := by
  induction pre with
  | nil => simp
  | cons a as ih => simp [ih]

theorem scatter_rows (r : List Nat) (hpos : ∀ l ∈ r, 0 < l) (pre row : List Int) (L : Nat)
    (hrow : row.length = L) :
    scatterAdd (pre ++ row ++ List.replicate r.sum (-1)) (pairsFrom pre.length (L :: r)) =
      pre ++ row ++ (r.map jumpRow).flatten := by
  induction r generalizing pre row L with
  | nil => simp [pairsFrom, scatterAdd]
  | cons L2 r' ih =>
    have hL2 : 0 < L2 := hpos L2 (by simp)
    simp only [pairsFrom, scatterAdd, List.sum_cons]
    obtain ⟨k, hk⟩ : ∃ k, L2 = k + 1 := ⟨L2 - 1, by omega⟩
    have h1 : List.replicate (L2 + r'.sum) (-1 : Int) = (-1) :: (List.replicate k (-1) ++ List.replicate r'.sum (-1)) := by
      rw [hk, show k + 1 + r'.sum = (k + r'.sum) + 1 by omega, List.replicate_succ, List.replicate_append_replicate]
    rw [h1]
    have h2 : pre.length + L = (pre ++ row).length := by simp [hrow]
    rw [h2, modify_append_length]
    have h3 : (pre ++ row) ++ ((-1 : Int) + (L2 : Int)) :: (List.replicate k (-1) ++ List.replicate r'.sum (-1))
        = (pre ++ row) ++ jumpRow L2 ++ List.replicate r'.sum (-1) := by
      simp [jumpRow, hk]
      omega
    rw [h3]
    have := ih (fun l hl => hpos l (by simp [hl])) (pre ++ row) (jumpRow L2) L2 (by simp [jumpRow]; omega)
    rw [this]
    simp

theorem cumsum_append (acc : Int) (a b : List Int) :
    cumsumFrom acc (a ++ b) = cumsumFrom acc a ++ cumsumFrom (acc + a.sum) b := by
  induction a generalizing acc with
  | nil => simp [cumsumFrom]
  | cons x xs ih => simp [cumsumFrom, ih, Int.add_assoc]

theorem cumsum_replicate (acc : Int) (k : Nat) (h : acc = k) :
    cumsumFrom acc (List.replicate k (-1)) = countdown k := by
  induction k generalizing acc with
  | zero => rfl
  | succ n ih =>
    simp only [List.replicate_succ, cumsumFrom, countdown]
    rw [ih (acc + -1) (by omega)]
    congr 1; omega

theorem cumsum_jumpRow (L : Nat) (h : 0 < L) : cumsumFrom 0 (jumpRow L) = countdown L := by
  obtain ⟨k, rfl⟩ : ∃ k, L = k + 1 := ⟨L - 1, by omega⟩
  simp only [jumpRow, cumsumFrom, countdown, Nat.add_sub_cancel]
  rw [cumsum_replicate _ k (by omega)]
  congr 1; omega

theorem sum_jumpRow (L : Nat) (h : 0 < L) : (jumpRow L).sum = 0 := by
  obtain ⟨k, rfl⟩ : ∃ k, L = k + 1 := ⟨L - 1, by omega⟩
  simp only [jumpRow, List.sum_cons, Nat.add_sub_cancel]
  have : (List.replicate k (-1 : Int)).sum = -(k : Int) := by
    induction k with
    | zero => rfl
    | succ n ih => simp [List.replicate_succ, ih]; omega
  rw [this]; omega

theorem cumsum_rows (ls : List Nat) (hpos : ∀ l ∈ ls, 0 < l) :
    cumsumFrom 0 (ls.map jumpRow).flatten = (ls.map countdown).flatten := by
  induction ls with
  | nil => rfl
  | cons L r ih =>
    simp only [List.map_cons, List.flatten_cons, cumsum_append]
    rw [sum_jumpRow L (hpos L (by simp)), cumsum_jumpRow L (hpos L (by simp))]
    simp only [Int.add_zero]
    rw [ih (fun l hl => hpos l (by simp [hl]))]

/-- **C18.power_array** -/
theorem power_array (lengths : List Nat) (hpos : ∀ l ∈ lengths, 0 < l) :
    buildPowerArray lengths = (lengths.map countdown).flatten := by
  cases lengths with
  | nil => rfl
  | cons L r =>
    have hL : 0 < L := hpos L (by simp)
    unfold buildPowerArray
    simp only [pairs_eq, List.sum_cons, List.headD_cons]
    have h0 : List.replicate (L + r.sum) (-1 : Int) = [] ++ List.replicate L (-1) ++ List.replicate r.sum (-1) := by
      simp [List.replicate_append_replicate]
    rw [h0]
    have := scatter_rows r (fun l hl => hpos l (by simp [hl])) [] (List.replicate L (-1)) L (by simp)
    simp only [List.length_nil] at this
    rw [this]
    have h1 : ([] ++ List.replicate L (-1 : Int) ++ (r.map jumpRow).flatten).modifyHead (· + (L : Int))
        = ((L :: r).map jumpRow).flatten := by
      obtain ⟨k, rfl⟩ : ∃ k, L = k + 1 := ⟨L - 1, by omega⟩
      simp [List.replicate_succ, jumpRow]
      omega
    rw [h1]
    exact cumsum_rows (L :: r) hpos


theorem unflatten_flatten {α} (rows : List (List α)) :
    unflatten (rows.map List.length) rows.flatten = rows := by
  induction rows with
  | nil => simp [unflatten]
  | cons r rs ih => simp [unflatten, ih]

theorem length_countdown (L : Nat) : (countdown L).length = L := by
  induction L with
  | zero => rfl
  | succ n ih => simp [countdown, ih]

/-- canonical big-endian decimal digits (`digitsBE 0 = [0]`) -/
def digitsBE (m : Nat) : List Nat :=
  if _h : m < 10 then [m] else digitsBE (m / 10) ++ [m % 10]
termination_by m
decreasing_by omega

/-- the digits the code extracts for a row of the power table -/
def digitsDown (L : Nat) (m : Nat) : List Nat := (countdown L).map (fun p => m / 10 ^ p.toNat % 10)

theorem digitsDown_succ (L m : Nat) : digitsDown (L + 1) m = (m / 10 ^ L % 10) :: digitsDown L m := by
  simp [digitsDown, countdown]

theorem digitsDown_snoc (L m : Nat) : digitsDown (L + 1) m = digitsDown L (m / 10) ++ [m % 10] := by
  induction L with
  | zero => simp [digitsDown, countdown]
  | succ n ih =>
    rw [digitsDown_succ, ih, digitsDown_succ]
    simp only [List.cons_append]
    congr 2
    rw [Nat.div_div_eq_div_mul, Nat.pow_succ, Nat.mul_comm]

theorem digitsDown_eq (L m : Nat) (hlt : m < 10 ^ (L + 1)) (hge : L = 0 ∨ 10 ^ L ≤ m) :
    digitsDown (L + 1) m = digitsBE m := by
  induction L generalizing m with
  | zero =>
    have : m < 10 := by simpa using hlt
    rw [digitsBE]; simp [this, digitsDown, countdown, Nat.mod_eq_of_lt this]
  | succ n ih =>
    have h10 : 10 ^ (n + 1) ≤ m := by cases hge with | inl h => omega | inr h => exact h
    have hpos : 0 < 10 ^ n := Nat.pow_pos (by omega)
    have hm : ¬ m < 10 := by
      have : 10 ≤ 10 ^ (n + 1) := by rw [Nat.pow_succ]; omega
      omega
    rw [digitsDown_snoc, digitsBE]
    simp only [hm, dite_false]
    rw [ih (m / 10)]
    · rw [Nat.div_lt_iff_lt_mul (by omega)]; rw [Nat.pow_succ] at hlt; exact hlt
    · right; rw [Nat.le_div_iff_mul_le (by omega)]; rw [Nat.pow_succ] at h10; exact h10

theorem digitsBE_bounds (m : Nat) :
    m < 10 ^ (digitsBE m).length ∧ ((digitsBE m).length = 1 ∨ 10 ^ ((digitsBE m).length - 1) ≤ m) ∧ 0 < (digitsBE m).length := by
  induction m using Nat.strongRecOn with
  | _ m ih =>
    rw [digitsBE]
    by_cases h : m < 10
    · simp [h]
    · simp only [h, dite_false, List.length_append, List.length_singleton]
      obtain ⟨h1, h2, h3⟩ := ih (m / 10) (by omega)
      obtain ⟨k, hk⟩ : ∃ k, (digitsBE (m / 10)).length = k := ⟨_, rfl⟩
      rw [hk] at h1 h2 h3 ⊢
      refine ⟨?_, ?_, by omega⟩
      · rw [Nat.pow_succ]; omega
      · right
        simp only [Nat.add_sub_cancel]
        cases h2 with
        | inl h2 => subst h2; simp; omega
        | inr h2 =>
          obtain ⟨j, rfl⟩ : ∃ j, k = j + 1 := ⟨k - 1, by omega⟩
          simp only [Nat.add_sub_cancel] at h2
          rw [Nat.pow_succ]; omega

theorem count_thresholds (m j : Nat) (hlt : m < 10 ^ (j + 1)) (hge : j = 0 ∨ 10 ^ j ≤ m) (N : Nat) :
    (((List.range N).map (fun k => 10 ^ (k + 1))).filter (fun t => decide (t ≤ m))).length = min N j := by
  induction N with
  | zero => simp
  | succ n ih =>
    rw [List.range_succ, List.map_append, List.filter_append, List.length_append, ih]
    simp only [List.map_cons, List.map_nil, List.filter_cons, List.filter_nil]
    by_cases hn : n < j
    · have : 10 ^ (n + 1) ≤ m := by
        have : 10 ^ (n + 1) ≤ 10 ^ j := Nat.pow_le_pow_right (by omega) (by omega)
        cases hge with | inl h => omega | inr h => omega
      simp [this]; omega
    · have : ¬ 10 ^ (n + 1) ≤ m := by
        have : 10 ^ (j + 1) ≤ 10 ^ (n + 1) := Nat.pow_le_pow_right (by omega) (by omega)
        omega
      simp [this]; omega

/-- the repaired width is the number of decimal digits (all magnitudes below `10^20`, so all of
int64 and uint64) -/
theorem width_spec (m : Nat) (h : m < 10 ^ 20) : width m = (digitsBE m).length := by
  obtain ⟨h1, h2, h3⟩ := digitsBE_bounds m
  obtain ⟨k, hk⟩ : ∃ k, (digitsBE m).length = k := ⟨_, rfl⟩
  rw [hk] at h1 h2 h3 ⊢
  obtain ⟨j, rfl⟩ : ∃ j, k = j + 1 := ⟨k - 1, by omega⟩
  simp only [Nat.add_sub_cancel] at h2
  have hj : j ≤ 19 := by
    apply Classical.byContradiction
    intro hc
    have : 10 ^ 20 ≤ 10 ^ j := Nat.pow_le_pow_right (by omega) (by omega)
    cases h2 with | inl h => omega | inr h => omega
  unfold width powTable
  rw [count_thresholds m j h1 (by cases h2 with | inl h => left; omega | inr h => right; exact h) 19]
  omega



/-! ### the specification text is core `Int.repr` -/

theorem digitChar_toNat (d : Nat) (h : d < 10) : (Nat.digitChar d).toNat = d + 48 := by
  have : d = 0 ∨ d = 1 ∨ d = 2 ∨ d = 3 ∨ d = 4 ∨ d = 5 ∨ d = 6 ∨ d = 7 ∨ d = 8 ∨ d = 9 := by omega
  rcases this with h | h | h | h | h | h | h | h | h | h <;> subst h <;> rfl

theorem toDigits_eq (m : Nat) : (Nat.toDigits 10 m).map Char.toNat = (digitsBE m).map (· + 48) := by
  induction m using Nat.strongRecOn with
  | _ m ih =>
    rw [Nat.toDigits_eq_if (by omega), digitsBE]
    by_cases h : m < 10
    · simp [h, digitChar_toNat m h]
    · simp only [h, if_false, dite_false, List.map_append, List.map_cons, List.map_nil]
      rw [ih (m / 10) (by omega), digitChar_toNat _ (Nat.mod_lt _ (by omega))]

theorem decimal_nonneg (n : Int) (h : 0 ≤ n) : decimal n = (digitsBE n.natAbs).map (· + 48) := by
  unfold decimal
  rw [Int.toString_eq_repr, Int.repr_eq_if]
  simp only [h, if_true, Nat.toList_repr, toDigits_eq]
  congr 2
  omega

theorem decimal_neg (n : Int) (h : n < 0) : decimal n = 45 :: (digitsBE n.natAbs).map (· + 48) := by
  unfold decimal
  rw [Int.toString_eq_repr, Int.repr_eq_if]
  have : ¬ 0 ≤ n := by omega
  simp only [this, if_false, String.toList_append, List.map_append, Nat.toList_repr, toDigits_eq]
  have h2 : (-n).toNat = n.natAbs := by omega
  rw [h2]
  rfl

/-! ### format_int -/

theorem fmt_digit (m k : Nat) : ((48 : Int) + (m : Int) / 10 ^ k % 10).toNat = m / 10 ^ k % 10 + 48 := by
  have : (m : Int) / 10 ^ k % 10 = ((m / 10 ^ k % 10 : Nat) : Int) := by
    push_cast; rfl
  rw [this]; omega

theorem fmtRow_pos (m L : Nat) :
    fmtRow (m : Int) false (countdown L) = (digitsDown L m).map (· + 48) := by
  simp only [fmtRow, Bool.false_eq_true, if_false, digitsDown, List.map_map]
  apply List.map_congr_left
  intro p _
  simp [fmt_digit]

theorem fmtRow_neg (m L : Nat) :
    fmtRow (m : Int) true (countdown (L + 1)) = 45 :: (digitsDown L m).map (· + 48) := by
  have := fmtRow_pos m L
  simp only [fmtRow, Bool.false_eq_true, if_false] at this
  simp only [fmtRow, if_true, countdown, List.map_cons, List.set_cons_zero, this]

/-- one row, as the repaired code computes it once the power table is known -/
def fmtOne (n : Int) : Bytes :=
  fmtRow (n.natAbs : Int) (decide (n < 0)) (countdown (width n.natAbs + (if n < 0 then 1 else 0)))

theorem width_pos (m : Nat) : 0 < width m := by unfold width; omega

theorem fmtOne_eq (n : Int) (h : n.natAbs < 10 ^ 20) : fmtOne n = decimal n := by
  unfold fmtOne
  have hw := width_spec n.natAbs h
  obtain ⟨h1, h2, h3⟩ := digitsBE_bounds n.natAbs
  obtain ⟨j, hj⟩ : ∃ j, (digitsBE n.natAbs).length = j + 1 := ⟨(digitsBE n.natAbs).length - 1, by omega⟩
  rw [hj] at h1 h2
  simp only [Nat.add_sub_cancel] at h2
  have hd : digitsDown (j + 1) n.natAbs = digitsBE n.natAbs :=
    digitsDown_eq j _ h1 (by cases h2 with | inl h => left; omega | inr h => right; exact h)
  rw [hw, hj]
  by_cases hn : n < 0
  · simp only [hn, decide_true, if_true]
    rw [fmtRow_neg, hd, decimal_neg n hn]
  · simp only [hn, decide_false, if_false, Nat.add_zero]
    rw [fmtRow_pos, hd, decimal_nonneg n (by omega)]

theorem zip_map_self {α β γ} (l : List α) (g : α → β) (f : α × β → γ) :
    (l.zip (l.map g)).map f = l.map (fun a => f (a, g a)) := by
  induction l with
  | nil => rfl
  | cons a as ih => simp [ih]

theorem power_rows (lengths : List Nat) (hpos : ∀ l ∈ lengths, 0 < l) :
    unflatten lengths (buildPowerArray lengths) = lengths.map countdown := by
  rw [power_array lengths hpos]
  have : lengths = (lengths.map countdown).map List.length := by
    simp [List.map_map, Function.comp_def, length_countdown]
  rw (occs := [1]) [this]
  exact unflatten_flatten _

/-- the batch is computed row by row (for every batch, any values) -/
theorem intsToStrings_rows (ns : List Int) : intsToStrings ns = ns.map fmtOne := by
  unfold intsToStrings
  simp only
  rw [power_rows]
  · rw [List.map_map, zip_map_self]
    rfl
  · intro l hl
    simp only [List.mem_map] at hl
    obtain ⟨n, _, rfl⟩ := hl
    have := width_pos n.natAbs
    omega

def int64 (n : Int) : Prop := -9223372036854775808 ≤ n ∧ n < 9223372036854775808

/-- **C18.format_int**: every batch of int64 values is formatted element-wise to the canonical
decimal text (`decimal n` is core `toString n`) -/
theorem format_int (ns : List Int) (h : ∀ n ∈ ns, int64 n) : intsToStrings ns = ns.map decimal := by
  rw [intsToStrings_rows]
  apply List.map_congr_left
  intro n hn
  apply fmtOne_eq
  have := h n hn
  unfold int64 at this
  omega

example : ∀ n ∈ [0, -9223372036854775808, 9223372036854775807, 999999999999999, (-10 : Int)], int64 n := by
  unfold int64; decide



/-! ### parse_int -/

def g (dp : Nat × Int) : Int := (dp.1 : Int) * 10 ^ dp.2.toNat

/-- per-row weighted digit sum, as the code computes it once the power table is known -/
def rowSum (ds : List Nat) : Int := ((ds.zip (countdown ds.length)).map g).sum

theorem sums_rows (drows : List (List Nat)) :
    (unflatten (drows.map List.length)
      ((drows.flatten.zip ((drows.map List.length).map countdown).flatten).map g)).map List.sum
      = drows.map rowSum := by
  induction drows with
  | nil => simp [unflatten]
  | cons ds rest ih =>
    simp only [List.map_cons, List.flatten_cons, unflatten]
    rw [List.zip_append (by simp [length_countdown]), List.map_append]
    have hl : ((ds.zip (countdown ds.length)).map g).length = ds.length := by simp [length_countdown]
    rw [List.take_left' hl, List.drop_left' hl]
    simp only [ih]
    rfl

theorem foldl_horner (ds : List Nat) (acc : Nat) :
    ds.foldl (fun a d => a * 10 + d) acc = acc * 10 ^ ds.length + ofDigits ds := by
  unfold ofDigits
  induction ds generalizing acc with
  | nil => simp
  | cons d r ih =>
    simp only [List.foldl_cons, List.length_cons]
    rw [ih (acc * 10 + d), ih (0 * 10 + d)]
    simp only [Nat.zero_mul, Nat.zero_add, Nat.pow_succ]
    rw [Nat.add_mul, Nat.mul_assoc, Nat.mul_comm 10 (10 ^ r.length)]
    omega

theorem rowSum_cons (d : Nat) (r : List Nat) : rowSum (d :: r) = (d : Int) * 10 ^ r.length + rowSum r := by
  simp [rowSum, countdown, g]

theorem rowSum_eq (ds : List Nat) : rowSum ds = (ofDigits ds : Int) := by
  induction ds with
  | nil => rfl
  | cons d r ih =>
    rw [rowSum_cons, ih]
    have := foldl_horner r d
    unfold ofDigits at this ⊢
    simp only [List.foldl_cons, Nat.zero_mul, Nat.zero_add]
    rw [this]
    push_cast
    rfl

theorem omap_getD {α β} (f : α → Option β) (l : List α) (r : List β) (d : β) (h : omap f l = some r) :
    r = l.map (fun a => (f a).getD d) := by
  induction l generalizing r with
  | nil => simp at h; subst h; rfl
  | cons x xs ih =>
    obtain ⟨b, bs, hb, hbs, rfl⟩ := omap_cons_eq_some f x xs r h
    simp [hb, ← ih bs hbs]

theorem omap_digitVal (t : Bytes) (h : allDigits t = true) : omap digitVal t = some (t.map (· - 48)) := by
  apply omap_some_map
  intro b hb
  unfold allDigits at h
  have := (List.all_eq_true.mp h) b hb
  simp only [Bool.and_eq_true, decide_eq_true_eq] at this
  simp [digitVal, this]

theorem length_stripSign (r : Bytes) : (stripSign r).length = r.length := by
  unfold stripSign; split <;> simp

/-- digits of one row after sign stripping (`[]` when rejected) -/
def rowDigits (r : Bytes) : List Nat := (omap digitVal (stripSign r)).getD []

/-- the code's per-row result -/
def rowValue (r : Bytes) : Int := wrap64 (rowSum (rowDigits r) * (if isNegRow r then -1 else 1))

theorem map_zip_self {α β γ} (l : List α) (g : α → β) (f : β × α → γ) :
    ((l.map g).zip l).map f = l.map (fun a => f (g a, a)) := by
  induction l with
  | nil => rfl
  | cons a as ih => simp [ih]

/-- a row that is only a sign (rejected by the code) -/
def signOnly (r : Bytes) : Bool := (isNegRow r || isPosRow r) && r.length == 1

theorem strToInt_rows (rows : List Bytes) (hne : ∀ r ∈ rows, r ≠ [])
    (hso : ∀ r ∈ rows, signOnly r = false)
    (hok : ∀ r ∈ rows, (omap digitVal (stripSign r)).isSome) :
    strToInt rows = some (rows.map rowValue) := by
  unfold strToInt
  have hany : rows.any (fun r => (isNegRow r || isPosRow r) && r.length == 1) = false := by
    apply Bool.eq_false_iff.mpr
    intro hc
    obtain ⟨r, hr, hrt⟩ := List.any_eq_true.mp hc
    have := hso r hr
    unfold signOnly at this
    rw [this] at hrt
    exact Bool.false_ne_true hrt
  simp only [hany, Bool.false_eq_true, if_false]
  have hsome : (omap (fun r => omap digitVal (stripSign r)) rows).isSome := by
    rw [omap_isSome_iff]; exact hok
  obtain ⟨drows, hd⟩ := Option.isSome_iff_exists.mp hsome
  rw [hd]
  simp only
  have hdr : drows = rows.map rowDigits := omap_getD _ rows drows [] hd
  have hlen : rows.map List.length = drows.map List.length := by
    rw [hdr, List.map_map]
    apply List.map_congr_left
    intro r hr
    obtain ⟨ds, hds⟩ := Option.isSome_iff_exists.mp (hok r hr)
    simp only [Function.comp, rowDigits, hds, Option.getD_some]
    rw [omap_length _ _ _ hds, length_stripSign]
  rw [power_array _ (by
    intro l hl
    simp only [List.mem_map] at hl
    obtain ⟨r, hr, rfl⟩ := hl
    have := hne r hr
    cases r with | nil => exact absurd rfl this | cons _ _ => simp)]
  have hs := sums_rows drows
  have hg : g = fun (x : Nat × Int) => (x.fst : Int) * 10 ^ x.snd.toNat := rfl
  rw [hg] at hs
  rw [hlen, hs, hdr, List.map_map, map_zip_self]
  rfl

theorem wrap64_id (v : Int) (h : int64 v) : wrap64 v = v := by
  unfold int64 at h; unfold wrap64; omega

theorem specNat_some (t : Bytes) (u : Nat) (h : specNat t = some u) :
    t ≠ [] ∧ allDigits t = true ∧ u = ofDigits (t.map (· - 48)) := by
  unfold specNat at h
  split at h
  · rename_i hc; simp at h; exact ⟨hc.1, hc.2, h.symm⟩
  · simp at h

theorem head_digit (t : Bytes) (hne : t ≠ []) (h : allDigits t = true) :
    isNegRow t = false ∧ isPosRow t = false := by
  cases t with
  | nil => exact absurd rfl hne
  | cons b r =>
    unfold allDigits at h
    simp only [List.all_cons, Bool.and_eq_true, decide_eq_true_eq] at h
    simp only [isNegRow, isPosRow, List.head?_cons]
    constructor
    · apply Bool.eq_false_iff.mpr; intro hc; simp at hc; omega
    · apply Bool.eq_false_iff.mpr; intro hc; simp at hc; omega

theorem ofDigits_zero_cons (ds : List Nat) : ofDigits (0 :: ds) = ofDigits ds := by
  simp [ofDigits]

/-- a row in the grammar is accepted by the code and evaluated to the value of the text -/
theorem row_parse (r : Bytes) (v : Int) (h : specParse r = some v) :
    r ≠ [] ∧ (omap digitVal (stripSign r)).isSome ∧ rowValue r = wrap64 v ∧ signOnly r = false := by
  unfold specParse at h
  split at h
  · -- '-' :: t
    rename_i t
    cases hu : specNat t with
    | none => simp [hu] at h
    | some u =>
      simp only [hu, Option.some.injEq] at h
      subst h
      obtain ⟨htne, hall, rfl⟩ := specNat_some t u hu
      have hs : stripSign (45 :: t) = 48 :: t := by simp [stripSign, isNegRow]
      have hd : omap digitVal (48 :: t) = some (0 :: t.map (· - 48)) :=
        omap_cons_some _ _ _ _ _ (by simp [digitVal]) (omap_digitVal t hall)
      refine ⟨by simp, by rw [hs, hd]; rfl, ?_, ?_⟩
      · simp only [rowValue, rowDigits, hs, hd, Option.getD_some, rowSum_eq, ofDigits_zero_cons]
        simp [isNegRow]
      · cases t with
        | nil => exact absurd rfl htne
        | cons _ _ => simp [signOnly]
  · rename_i t
    cases hu : specNat t with
    | none => simp [hu] at h
    | some u =>
      simp only [hu, Option.some.injEq] at h
      subst h
      obtain ⟨htne, hall, rfl⟩ := specNat_some t u hu
      have hs : stripSign (43 :: t) = 48 :: t := by simp [stripSign, isNegRow, isPosRow]
      have hd : omap digitVal (48 :: t) = some (0 :: t.map (· - 48)) :=
        omap_cons_some _ _ _ _ _ (by simp [digitVal]) (omap_digitVal t hall)
      refine ⟨by simp, by rw [hs, hd]; rfl, ?_, ?_⟩
      · simp only [rowValue, rowDigits, hs, hd, Option.getD_some, rowSum_eq, ofDigits_zero_cons]
        simp [isNegRow]
      · cases t with
        | nil => exact absurd rfl htne
        | cons _ _ => simp [signOnly]
  · cases hu : specNat r with
    | none => simp [hu] at h
    | some u =>
      simp only [hu, Option.some.injEq] at h
      subst h
      obtain ⟨hne, hall, rfl⟩ := specNat_some r u hu
      obtain ⟨hn, hp⟩ := head_digit r hne hall
      have hs : stripSign r = r := by simp [stripSign, hn, hp]
      have hd := omap_digitVal r hall
      refine ⟨hne, by rw [hs, hd]; rfl, ?_, by simp [signOnly, hn, hp]⟩
      simp only [rowValue, rowDigits, hs, hd, Option.getD_some, rowSum_eq, hn]
      simp

/-- **C18.parse_int**: every batch of decimal integer texts (optional sign, any number of leading
zeros, any length) whose values fit int64 parses to exactly those values -/
theorem parse_int (rows : List Bytes) (vs : List Int) (h : omap specParse rows = some vs)
    (hr : ∀ v ∈ vs, int64 v) : strToInt rows = some vs := by
  have hvs := omap_getD specParse rows vs 0 h
  have hall : ∀ r ∈ rows, (specParse r).isSome := (omap_isSome_iff specParse rows).mp (by rw [h]; rfl)
  rw [strToInt_rows rows
    (fun r hr' => by
      obtain ⟨v, hv⟩ := Option.isSome_iff_exists.mp (hall r hr'); exact (row_parse r v hv).1)
    (fun r hr' => by
      obtain ⟨v, hv⟩ := Option.isSome_iff_exists.mp (hall r hr'); exact (row_parse r v hv).2.2.2)
    (fun r hr' => by
      obtain ⟨v, hv⟩ := Option.isSome_iff_exists.mp (hall r hr'); exact (row_parse r v hv).2.1)]
  rw [hvs]
  congr 1
  apply List.map_congr_left
  intro r hr'
  obtain ⟨v, hv⟩ := Option.isSome_iff_exists.mp (hall r hr')
  rw [(row_parse r v hv).2.2.1, hv, Option.getD_some]
  apply wrap64_id
  apply hr
  rw [hvs]
  exact List.mem_map.mpr ⟨r, hr', by rw [hv]; rfl⟩

example : omap specParse ["-0012".toList.map Char.toNat, "+7".toList.map Char.toNat,
    "-9223372036854775808".toList.map Char.toNat, "0000000000000000000000042".toList.map Char.toNat]
    = some [-12, 7, -9223372036854775808, 42] := by decide



/-! ### parse_format -/

theorem digitsBE_lt (m : Nat) : ∀ d ∈ digitsBE m, d < 10 := by
  induction m using Nat.strongRecOn with
  | _ m ih =>
    rw [digitsBE]
    by_cases h : m < 10
    · simp [h]
    · simp only [h, dite_false, List.mem_append, List.mem_singleton]
      intro d hd
      cases hd with
      | inl hd => exact ih (m / 10) (by omega) d hd
      | inr hd => omega

theorem ofDigits_snoc (a : List Nat) (d : Nat) : ofDigits (a ++ [d]) = ofDigits a * 10 + d := by
  simp [ofDigits, List.foldl_append]

theorem ofDigits_digitsBE (m : Nat) : ofDigits (digitsBE m) = m := by
  induction m using Nat.strongRecOn with
  | _ m ih =>
    rw [digitsBE]
    by_cases h : m < 10
    · simp [h, ofDigits]
    · simp only [h, dite_false, ofDigits_snoc, ih (m / 10) (by omega)]
      omega

theorem specNat_digits (m : Nat) : specNat ((digitsBE m).map (· + 48)) = some m := by
  have hb := digitsBE_bounds m
  have hlt := digitsBE_lt m
  unfold specNat
  have h1 : (digitsBE m).map (· + 48) ≠ [] := by
    intro hc
    have := congrArg List.length hc
    simp only [List.length_map, List.length_nil] at this
    have := hb.2.2
    omega
  have h2 : allDigits ((digitsBE m).map (· + 48)) = true := by
    unfold allDigits
    simp only [List.all_map, List.all_eq_true, Function.comp, Bool.and_eq_true, decide_eq_true_eq]
    intro d hd
    have := hlt d hd
    omega
  simp only [h1, h2, ne_eq, not_false_eq_true, and_self, if_true, List.map_map, Option.some.injEq]
  have : ((fun x => x - 48) ∘ fun x => x + 48) = (id : Nat → Nat) := by funext x; simp
  rw [this, List.map_id, ofDigits_digitsBE]

theorem specParse_unsigned (b : Nat) (t : Bytes) (h1 : b ≠ 45) (h2 : b ≠ 43) :
    specParse (b :: t) = match specNat (b :: t) with
      | some v => some (v : Int)
      | none => none := by
  unfold specParse
  split
  · rename_i heq; exact absurd (List.cons.inj heq).1 h1
  · rename_i heq; exact absurd (List.cons.inj heq).1 h2
  · rfl

theorem specParse_decimal (n : Int) : specParse (decimal n) = some n := by
  by_cases hn : n < 0
  · rw [decimal_neg n hn]
    unfold specParse
    simp only [specNat_digits]
    congr 1; omega
  · rw [decimal_nonneg n (by omega)]
    have hb := digitsBE_bounds n.natAbs
    have hlt := digitsBE_lt n.natAbs
    cases hds : digitsBE n.natAbs with
    | nil => rw [hds] at hb; simp at hb
    | cons d r =>
      have hd : d < 10 := hlt d (by rw [hds]; simp)
      have hsn := specNat_digits n.natAbs
      rw [hds] at hsn
      simp only [List.map_cons] at hsn ⊢
      rw [specParse_unsigned _ _ (by omega) (by omega), hsn]
      simp only [Option.some.injEq]
      omega

theorem omap_map_some {α β} (f : β → Option α) (g : α → β) (l : List α) (h : ∀ a ∈ l, f (g a) = some a) :
    omap f (l.map g) = some l := by
  induction l with
  | nil => rfl
  | cons x xs ih =>
    simp only [List.map_cons]
    exact omap_cons_some _ _ _ _ _ (h x (by simp)) (ih (fun a ha => h a (by simp [ha])))

/-- **C18.parse_format**: formatting then parsing returns the numbers, for every batch of int64 -/
theorem parse_format (ns : List Int) (h : ∀ n ∈ ns, int64 n) : strToInt (intsToStrings ns) = some ns := by
  rw [format_int ns h]
  exact parse_int _ ns (omap_map_some _ _ _ (fun n _ => specParse_decimal n)) h

/-- the canonical text parses back to the number (specification-level round trip) -/
theorem spec_roundtrip (n : Int) : specParse (decimal n) = some n := specParse_decimal n

/-! ### batch independence -/

theorem intsToStrings_single (n : Int) : intsToStrings [n] = [fmtOne n] := by
  rw [intsToStrings_rows]; rfl

/-- **C18.batch_independent**: the result for a row never depends on the other rows of the batch:
a batch is the concatenation of the one-row results (formatting: every batch; parsing: every batch
whose rows are all accepted) -/
theorem batch_independent (ns : List Int) (rows : List Bytes) (hne : ∀ r ∈ rows, r ≠ [])
    (hso : ∀ r ∈ rows, signOnly r = false)
    (hok : ∀ r ∈ rows, (omap digitVal (stripSign r)).isSome) :
    intsToStrings ns = (ns.map (fun n => intsToStrings [n])).flatten ∧
    strToInt rows = omap (fun r => (strToInt [r]).bind List.head?) rows := by
  constructor
  · rw [intsToStrings_rows]
    induction ns with
    | nil => rfl
    | cons n r ih => simp [intsToStrings_single, ih]
  · rw [strToInt_rows rows hne hso hok]
    symm
    apply omap_some_map
    intro r hr
    rw [strToInt_rows [r] (by simpa using hne r hr) (by simpa using hso r hr) (by simpa using hok r hr)]
    rfl

example : ∀ r ∈ ["-12".toList.map Char.toNat, "007".toList.map Char.toNat],
    r ≠ [] ∧ signOnly r = false ∧ (omap digitVal (stripSign r)).isSome := by decide

/-! ### int_lists -/

theorem unflatten_map_flatten {α β} (rows : List (List α)) (f : α → β) :
    unflatten (rows.map List.length) (rows.flatten.map f) = rows.map (·.map f) := by
  have h1 : rows.flatten.map f = (rows.map (·.map f)).flatten := by simp [List.map_flatten]
  have h2 : rows.map List.length = (rows.map (·.map f)).map List.length := by
    simp [List.map_map, Function.comp_def]
  rw [h1, h2]
  exact unflatten_flatten _

theorem length_joined (strs : List Bytes) (sep : Nat) :
    ((strs.map (· ++ [sep])).flatten).length = (strs.map List.length).sum + strs.length := by
  induction strs with
  | nil => rfl
  | cons s r ih => simp [ih]; omega

theorem dropLast_joined (strs : List Bytes) (sep : Nat) :
    ((strs.map (· ++ [sep])).flatten).dropLast = List.intercalate [sep] strs := by
  induction strs with
  | nil => rfl
  | cons s r ih =>
    cases r with
    | nil => simp [List.intercalate]
    | cons s2 r' =>
      have hne : ((s2 :: r').map (· ++ [sep])).flatten ≠ [] := by simp
      simp only [List.map_cons, List.flatten_cons] at ih hne ⊢
      rw [List.dropLast_append_of_ne_nil hne, ih]
      simp [List.intercalate]

/-- **C18.int_lists**: rows of integers are joined element by element, for every ragged list of
int64 values (empty rows included) -/
theorem int_lists (rows : List (List Int)) (sep : Nat) (keepLast : Bool)
    (h : ∀ r ∈ rows, ∀ n ∈ r, int64 n) :
    intListsToStrings rows sep keepLast = specJoin rows sep keepLast := by
  unfold intListsToStrings specJoin
  have hf : intsToStrings rows.flatten = rows.flatten.map decimal :=
    format_int _ (by
      intro n hn
      obtain ⟨r, hr, hnr⟩ := List.mem_flatten.mp hn
      exact h r hr n hnr)
  simp only [hf, List.map_map]
  rw [unflatten_map_flatten rows (List.length ∘ decimal), map_zip_self]
  have hj : joinKeepLast (rows.flatten.map decimal) sep
      = (rows.map (fun r => ((r.map decimal).map (· ++ [sep])).flatten)).flatten := by
    unfold joinKeepLast
    simp [List.map_flatten, List.flatten_flatten, List.map_map, Function.comp_def]
  rw [hj]
  have hl : rows.map (fun a => (a.map (List.length ∘ decimal)).sum + a.length)
      = (rows.map (fun r => ((r.map decimal).map (· ++ [sep])).flatten)).map List.length := by
    rw [List.map_map]
    apply List.map_congr_left
    intro r _
    simp only [Function.comp]
    rw [length_joined]
    simp [List.map_map, Function.comp_def]
  rw [hl, unflatten_flatten]
  cases keepLast with
  | true => simp
  | false =>
    simp only [Bool.false_eq_true, if_false, List.map_map]
    apply List.map_congr_left
    intro r _
    have := dropLast_joined (r.map decimal) sep
    rw [List.map_map] at this
    exact this



/-! ### split / join -/

theorem splitAux_no_sep (sep : Nat) (cur s : Bytes) (h : sep ∉ s) :
    splitAux sep cur s = [cur.reverse ++ s] := by
  induction s generalizing cur with
  | nil => simp [splitAux]
  | cons b bs ih =>
    have hb : b ≠ sep := fun hc => h (by simp [hc])
    simp only [splitAux, hb, if_false]
    rw [ih (b :: cur) (fun hc => h (by simp [hc]))]
    simp

theorem splitAux_sep (sep : Nat) (cur s rest : Bytes) (h : sep ∉ s) :
    splitAux sep cur (s ++ sep :: rest) = (cur.reverse ++ s) :: splitAux sep [] rest := by
  induction s generalizing cur with
  | nil => simp [splitAux]
  | cons b bs ih =>
    have hb : b ≠ sep := fun hc => h (by simp [hc])
    simp only [List.cons_append, splitAux, hb, if_false]
    rw [ih (b :: cur) (fun hc => h (by simp [hc]))]
    simp

/-- splitting a joined line returns the pieces (pieces free of the separator, at least one piece) -/
theorem split_join (strs : List Bytes) (sep : Nat) (hne : strs ≠ []) (h : ∀ s ∈ strs, sep ∉ s) :
    split (List.intercalate [sep] strs) sep = strs := by
  unfold split
  induction strs with
  | nil => exact absurd rfl hne
  | cons s r ih =>
    cases r with
    | nil => simp [List.intercalate, splitAux_no_sep sep [] s (h s (by simp))]
    | cons s2 r' =>
      have : List.intercalate [sep] (s :: s2 :: r') = s ++ sep :: List.intercalate [sep] (s2 :: r') := by
        simp [List.intercalate]
      rw [this, splitAux_sep sep [] s _ (h s (by simp))]
      rw [ih (by simp) (fun t ht => h t (by simp [ht]))]
      simp

theorem decimal_bytes (n : Int) : ∀ b ∈ decimal n, b = 45 ∨ (48 ≤ b ∧ b ≤ 57) := by
  intro b hb
  have hlt := digitsBE_lt n.natAbs
  by_cases hn : n < 0
  · rw [decimal_neg n hn] at hb
    simp only [List.mem_cons, List.mem_map] at hb
    rcases hb with hb | ⟨d, hd, rfl⟩
    · left; exact hb
    · right; have := hlt d hd; omega
  · rw [decimal_nonneg n (by omega)] at hb
    simp only [List.mem_map] at hb
    obtain ⟨d, hd, rfl⟩ := hb
    right; have := hlt d hd; omega

/-- **C18.int_lists_roundtrip**: a joined `List[int]` field splits and parses back to the same
integers (`','` separator, every non-empty list of int64 values) -/
theorem int_lists_roundtrip (r : List Int) (hne : r ≠ []) (h : ∀ n ∈ r, int64 n) :
    splitParse (List.intercalate [44] (r.map decimal)) 44 = some r := by
  unfold splitParse
  rw [split_join _ 44 (by simpa using hne) (by
    intro s hs
    simp only [List.mem_map] at hs
    obtain ⟨n, _, rfl⟩ := hs
    intro hc
    have := decimal_bytes n 44 hc
    omega)]
  exact parse_int _ r (omap_map_some _ _ _ (fun n _ => specParse_decimal n)) h

example : splitParse ("1,-22,333".toList.map Char.toNat) 44 = some [1, -22, 333] := by decide



/-! ### float parser: digit placement, dot and exponent logic over exact decimals -/

theorem cumsum_replicate_shift (k : Nat) (x : Int) :
    cumsumFrom ((k : Int) + x) (List.replicate k (-1)) = (countdown k).map (· + x) := by
  induction k with
  | zero => rfl
  | succ n ih =>
    simp only [List.replicate_succ, cumsumFrom, countdown, List.map_cons]
    have e : ((n + 1 : Nat) : Int) + x + -1 = (n : Int) + x := by omega
    rw [e, ih]

theorem sum_replicate_neg (k : Nat) : (List.replicate k (-1 : Int)).sum = -(k : Int) := by
  induction k with
  | zero => rfl
  | succ n ih => simp [List.replicate_succ, ih]; omega

theorem set_replicate (c n : Nat) :
    (List.replicate (c + 1 + n) (-1 : Int)).set c 0 = List.replicate c (-1) ++ 0 :: List.replicate n (-1) := by
  induction c with
  | zero =>
    rw [show 0 + 1 + n = n + 1 by omega, List.replicate_succ]
    simp
  | succ k ih =>
    rw [show k + 1 + 1 + n = (k + 1 + n) + 1 by omega, List.replicate_succ, List.set_cons_succ, ih]
    simp [List.replicate_succ]

/-- the power row with a dot at column `c` and `n` digits after it -/
theorem powerRowDot_some (c n : Nat) :
    powerRowDot (c + 1 + n) (some c) = (countdown c).map (· + (n : Int)) ++ (n : Int) :: countdown n := by
  unfold powerRowDot
  simp only [Option.isSome_some, if_true]
  rw [set_replicate]
  cases c with
  | zero =>
    simp only [List.replicate_zero, List.nil_append, List.modifyHead_cons, cumsumFrom, countdown, List.map_nil]
    have e : (0 : Int) + (0 + (((0 + 1 + n : Nat) : Int) - 1)) = (n : Int) := by omega
    rw [e]
    have := cumsum_replicate_shift n 0
    simp only [Int.add_zero] at this
    rw [this]; simp
  | succ k =>
    simp only [List.replicate_succ, List.cons_append, List.modifyHead_cons, cumsumFrom, countdown, List.map_cons]
    have e : (0 : Int) + (-1 + (((k + 1 + 1 + n : Nat) : Int) - 1)) = (k : Int) + (n : Int) := by omega
    rw [e, cumsum_append, cumsum_replicate_shift, sum_replicate_neg]
    simp only [cumsumFrom]
    have e2 : (k : Int) + (n : Int) + -(k : Int) + 0 = (n : Int) := by omega
    rw [e2]
    have := cumsum_replicate_shift n 0
    simp only [Int.add_zero] at this
    rw [this]; simp

/-- the power row without a dot -/
theorem powerRowDot_none (L : Nat) (h : 0 < L) : powerRowDot L none = countdown L := by
  unfold powerRowDot
  obtain ⟨k, rfl⟩ : ∃ k, L = k + 1 := ⟨L - 1, by omega⟩
  simp only [Option.isSome_none, Bool.false_eq_true, if_false, List.replicate_succ, List.modifyHead_cons,
    cumsumFrom, countdown]
  have e : (0 : Int) + (-1 + (((k + 1 : Nat) : Int) - 0)) = (k : Int) + 0 := by omega
  rw [e, cumsum_replicate_shift]; simp

theorem sum_shifted (ds : List Nat) (n : Nat) :
    ((ds.zip ((countdown ds.length).map (· + (n : Int)))).map g).sum = rowSum ds * 10 ^ n := by
  induction ds with
  | nil => simp [rowSum]
  | cons d r ih =>
    simp only [List.length_cons, countdown, List.map_cons, List.zip_cons_cons, List.sum_cons, ih, rowSum_cons]
    have : g (d, (r.length : Int) + (n : Int)) = (d : Int) * 10 ^ r.length * 10 ^ n := by
      simp only [g]
      have : ((r.length : Int) + (n : Int)).toNat = r.length + n := by omega
      rw [this, Int.pow_add, Int.mul_assoc]
    rw [this, Int.add_mul]

/-- digit placement with a dot: `I.F` denotes `(I·10^|F| + F) / 10^|F|` -/
theorem place_dot (dI dF : List Nat) :
    (((dI ++ 0 :: dF).zip (powerRowDot (dI.length + 1 + dF.length) (some dI.length))).map g).sum
      = ((ofDigits dI * 10 ^ dF.length + ofDigits dF : Nat) : Int) := by
  rw [powerRowDot_some, List.zip_append (by simp [length_countdown]), List.map_append, List.sum_append,
    sum_shifted, List.zip_cons_cons, List.map_cons, List.sum_cons]
  have h0 : g (0, (dF.length : Int)) = 0 := by simp [g]
  have hF : ((dF.zip (countdown dF.length)).map g).sum = rowSum dF := rfl
  rw [h0, hF, rowSum_eq, rowSum_eq]
  push_cast
  omega



theorem not_mem_digits (b : Nat) (s : Bytes) (h : allDigits s = true) (hb : b < 48 ∨ 57 < b) : b ∉ s := by
  intro hm
  unfold allDigits at h
  have := (List.all_eq_true.mp h) b hm
  simp only [Bool.and_eq_true, decide_eq_true_eq] at this
  omega

theorem idxOf_append_self (b : Nat) (I F : Bytes) (h : b ∉ I) : (I ++ b :: F).idxOf b = I.length := by
  induction I with
  | nil => simp
  | cons c cs ih =>
    have hc : (c == b) = false := by
      apply Bool.eq_false_iff.mpr; intro hc; simp at hc; exact h (by simp [hc])
    have := ih (fun hm => h (by simp [hm]))
    simp [List.idxOf_cons, hc, this]

theorem findByte_append (b : Nat) (I F : Bytes) (h : b ∉ I) : findByte b (I ++ b :: F) = some I.length := by
  unfold findByte
  simp only [idxOf_append_self b I F h]
  simp

theorem findByte_none (b : Nat) (s : Bytes) (h : b ∉ s) : findByte b s = none := by
  unfold findByte
  have : s.idxOf b = s.length := List.idxOf_eq_length h
  simp [this]

theorem set_append_self (I F : Bytes) (x y : Nat) : (I ++ x :: F).set I.length y = I ++ y :: F := by
  induction I with
  | nil => simp
  | cons c cs ih => simp [ih]

theorem omap_digits_dot (I F : Bytes) (hI : allDigits I = true) (hF : allDigits F = true) :
    omap digitVal (I ++ 48 :: F) = some (I.map (· - 48) ++ 0 :: F.map (· - 48)) := by
  rw [omap_append, omap_digitVal I hI]
  have : omap digitVal (48 :: F) = some (0 :: F.map (· - 48)) :=
    omap_cons_some _ _ _ _ _ (by simp [digitVal]) (omap_digitVal F hF)
  rw [this]

theorem count_digits (b : Nat) (s : Bytes) (h : allDigits s = true) (hb : b < 48 ∨ 57 < b) : s.count b = 0 :=
  List.count_eq_zero.mpr (not_mem_digits b s h hb)

/-- `_decimal_str_to_float` on `[±]I.F` -/
theorem decimal_core_dot (row I' F : Bytes) (hI : allDigits I' = true) (hF : allDigits F = true)
    (hlen : row.length = I'.length + 1 + F.length)
    (hcount : row.count 46 = 1)
    (hdig : 1 ≤ row.length - 1 - (if isNegRow row then 1 else 0) - (if isPosRow row then 1 else 0))
    (hr1 : (if isNegRow row || isPosRow row then row.set 0 48 else row) = I' ++ 46 :: F) :
    decimalRow row = some ⟨(if isNegRow row then -1 else 1) *
      ((ofDigits (I'.map (· - 48)) * 10 ^ F.length + ofDigits (F.map (· - 48)) : Nat) : Int), -(F.length : Int)⟩ := by
  unfold decimalRow
  have hchk : ¬ (row.count 46 > 1 ∨ row.length - row.count 46 - (if isNegRow row then 1 else 0)
      - (if isPosRow row then 1 else 0) < 1) := by
    rw [hcount]; omega
  simp only [hchk, if_false, hr1]
  rw [findByte_append 46 I' F (not_mem_digits 46 I' hI (by omega))]
  simp only [set_append_self, omap_digits_dot I' F hI hF, hlen]
  have := place_dot (I'.map (· - 48)) (F.map (· - 48))
  simp only [List.length_map] at this
  have hg : (fun (x : Nat × Int) => (x.1 : Int) * 10 ^ x.2.toNat) = g := rfl
  simp only [hg, this]
  congr 2
  omega

/-- `_decimal_str_to_float` on `[±]I` (no dot) -/
theorem decimal_core_nodot (row I' : Bytes) (hI : allDigits I' = true) (hne : I' ≠ [])
    (hlen : row.length = I'.length)
    (hcount : row.count 46 = 0)
    (hdig : 1 ≤ row.length - (if isNegRow row then 1 else 0) - (if isPosRow row then 1 else 0))
    (hr1 : (if isNegRow row || isPosRow row then row.set 0 48 else row) = I') :
    decimalRow row = some ⟨(if isNegRow row then -1 else 1) * (ofDigits (I'.map (· - 48)) : Int), 0⟩ := by
  unfold decimalRow
  have hchk : ¬ (row.count 46 > 1 ∨ row.length - row.count 46 - (if isNegRow row then 1 else 0)
      - (if isPosRow row then 1 else 0) < 1) := by
    rw [hcount]; omega
  simp only [hchk, if_false, hr1]
  rw [findByte_none 46 I' (not_mem_digits 46 I' hI (by omega))]
  simp only [omap_digitVal I' hI, hlen]
  have hpos : 0 < I'.length := by cases I' with | nil => exact absurd rfl hne | cons _ _ => simp
  rw [powerRowDot_none _ hpos]
  have hg : (fun (x : Nat × Int) => (x.1 : Int) * 10 ^ x.2.toNat) = g := rfl
  have hs : (((I'.map (· - 48)).zip (countdown I'.length)).map g).sum = rowSum (I'.map (· - 48)) := by
    unfold rowSum; rw [List.length_map]
  simp only [hg, hs, rowSum_eq]
  rfl

/-- the optional sign of a float text -/
inductive Sign where
  | none | minus | plus
deriving DecidableEq

def Sign.bytes : Sign → Bytes
  | .none => []
  | .minus => [45]
  | .plus => [43]

def Sign.factor : Sign → Int
  | .minus => -1
  | _ => 1

theorem head_not_sign (I F : Bytes) (hI : allDigits I = true) :
    isNegRow (I ++ 46 :: F) = false ∧ isPosRow (I ++ 46 :: F) = false := by
  cases I with
  | nil => simp [isNegRow, isPosRow]
  | cons c cs =>
    unfold allDigits at hI
    simp only [List.all_cons, Bool.and_eq_true, decide_eq_true_eq] at hI
    simp only [isNegRow, isPosRow, List.cons_append, List.head?_cons]
    constructor
    · apply Bool.eq_false_iff.mpr; intro hc; simp at hc; omega
    · apply Bool.eq_false_iff.mpr; intro hc; simp at hc; omega

theorem count_dot (I F : Bytes) (hI : allDigits I = true) (hF : allDigits F = true) :
    (I ++ 46 :: F).count 46 = 1 := by
  rw [List.count_append, List.count_cons_self, count_digits 46 I hI (by omega), count_digits 46 F hF (by omega)]

/-- **C18.float_logic_partial** (decimal texts): for every `[±]I.F` (digit strings of any length,
at least one digit in total) the float parser's validity check, sign stripping, dot handling, digit
placement through the power table and final scaling denote exactly `±(I·10^|F| + F)·10^(−|F|)`;
for every `[±]I` exactly `±I`. (Exact decimal `m·10^e`; the IEEE rounding of the floating-point
operations is not modelled — that part of the clause is only corresponded.) -/
theorem float_logic_partial (sg : Sign) (I F : Bytes) (hI : allDigits I = true) (hF : allDigits F = true) :
    (I ++ F ≠ [] → decimalRow (sg.bytes ++ I ++ 46 :: F) = some ⟨sg.factor *
      ((ofDigits (I.map (· - 48)) * 10 ^ F.length + ofDigits (F.map (· - 48)) : Nat) : Int), -(F.length : Int)⟩) ∧
    (I ≠ [] → decimalRow (sg.bytes ++ I) = some ⟨sg.factor * (ofDigits (I.map (· - 48)) : Int), 0⟩) := by
  have hI' : allDigits (48 :: I) = true := by
    unfold allDigits at hI ⊢; simp [hI]
  have hlenIF : I ++ F ≠ [] → 1 ≤ I.length + F.length := by
    intro h
    cases I with
    | nil => cases F with | nil => exact absurd rfl h | cons _ _ => simp
    | cons _ _ => simp; omega
  have hlenI : I ≠ [] → 1 ≤ I.length := by
    intro h; cases I with | nil => exact absurd rfl h | cons _ _ => simp
  have hc := count_dot I F hI hF
  have hc0 := count_digits 46 I hI (by omega)
  cases sg with
  | minus =>
    constructor
    · intro hne
      have := decimal_core_dot (45 :: (I ++ 46 :: F)) (48 :: I) F hI' hF (by simp; omega)
        (by rw [List.count_cons]; simp [hc]) (by have := hlenIF hne; simp [isNegRow, isPosRow]; omega)
        (by simp [isNegRow])
      simpa [Sign.bytes, Sign.factor, isNegRow, ofDigits_zero_cons] using this
    · intro hne
      have := decimal_core_nodot (45 :: I) (48 :: I) hI' (by simp) (by simp)
        (by rw [List.count_cons]; simp [hc0]) (by have := hlenI hne; simp [isNegRow, isPosRow]; omega)
        (by simp [isNegRow])
      simpa [Sign.bytes, Sign.factor, isNegRow, ofDigits_zero_cons] using this
  | plus =>
    constructor
    · intro hne
      have := decimal_core_dot (43 :: (I ++ 46 :: F)) (48 :: I) F hI' hF (by simp; omega)
        (by rw [List.count_cons]; simp [hc]) (by have := hlenIF hne; simp [isNegRow, isPosRow]; omega)
        (by simp [isNegRow, isPosRow])
      simpa [Sign.bytes, Sign.factor, isNegRow, ofDigits_zero_cons] using this
    · intro hne
      have := decimal_core_nodot (43 :: I) (48 :: I) hI' (by simp) (by simp)
        (by rw [List.count_cons]; simp [hc0]) (by have := hlenI hne; simp [isNegRow, isPosRow]; omega)
        (by simp [isNegRow, isPosRow])
      simpa [Sign.bytes, Sign.factor, isNegRow, ofDigits_zero_cons] using this
  | none =>
    constructor
    · intro hne
      obtain ⟨hn, hp⟩ := head_not_sign I F hI
      have := decimal_core_dot (I ++ 46 :: F) I F hI hF (by simp; omega) hc
        (by have := hlenIF hne; simp [hn, hp]; omega) (by simp [hn, hp])
      simpa [Sign.bytes, Sign.factor, hn] using this
    · intro hne
      obtain ⟨hn, hp⟩ := head_digit I hne hI
      have := decimal_core_nodot I I hI hne rfl hc0
        (by have := hlenI hne; simp [hn, hp]; omega) (by simp [hn, hp])
      simpa [Sign.bytes, Sign.factor, hn] using this

example : decimalRow ("-12.345".toList.map Char.toNat) = some ⟨-12345, -3⟩ := by decide
example : decimalRow ("+.5".toList.map Char.toNat) = some ⟨5, -1⟩ := by decide
example : decimalRow ("-.".toList.map Char.toNat) = none := by decide

/-- **C18.float_logic_partial** (scientific texts): `M e X` — mantissa text `M` (anything the decimal
parser evaluates to `m·10^e`, not containing `'e'`), exponent text `X` a decimal integer with
optional sign — denotes exactly `m·10^(e+X)` -/
theorem float_logic_sci_partial (mant ex : Bytes) (d : Dec) (x : Int) (hm : 101 ∉ mant)
    (hd : decimalRow mant = some d) (hx : specParse ex = some x) (hr : int64 x) :
    strToFloatRow (mant ++ 101 :: ex) = some ⟨d.m, d.e + x⟩ := by
  unfold strToFloatRow
  have hc : (mant ++ 101 :: ex).contains 101 = true := by simp
  simp only [hc, if_true]
  unfold scientificRow
  rw [findByte_append 101 mant ex hm]
  simp only [List.take_left]
  have : (mant ++ 101 :: ex).drop (mant.length + 1) = ex := by
    rw [← List.drop_drop, List.drop_left]; rfl
  rw [this, hd]
  have hp := parse_int [ex] [x] (by simp [omap, hx]) (by simpa using hr)
  rw [hp]

example : strToFloatRow ("-1.25e-7".toList.map Char.toNat) = some ⟨-125, -9⟩ := by decide



/-! ### the non-ragged paths and optional columns -/

/-- **C18.parse_single**: the non-ragged path — one unsigned digit string (any leading zeros, any
length) whose value fits int64 parses to its value -/
theorem parse_single (s : Bytes) (v : Nat) (h : specNat s = some v) (hr : int64 (v : Int)) :
    strToInt1 s = some (v : Int) := by
  obtain ⟨_, hall, rfl⟩ := specNat_some s v h
  unfold strToInt1
  rw [omap_digitVal s hall]
  have hg : (fun (x : Nat × Int) => (x.1 : Int) * 10 ^ x.2.toNat) = g := rfl
  have hs : (((s.map (· - 48)).zip (countdown s.length)).map g).sum = rowSum (s.map (· - 48)) := by
    unfold rowSum; rw [List.length_map]
  simp only [hg, hs, rowSum_eq]
  rw [wrap64_id _ hr]

theorem ofDigits_zeros (k : Nat) (ds : List Nat) : ofDigits (List.replicate k 0 ++ ds) = ofDigits ds := by
  induction k with
  | zero => rfl
  | succ n ih => rw [List.replicate_succ, List.cons_append, ofDigits_zero_cons, ih]

theorem allDigits_pad (k : Nat) (r : Bytes) (h : allDigits r = true) :
    allDigits (List.replicate k 48 ++ r) = true := by
  unfold allDigits at h ⊢
  simp only [List.all_append, Bool.and_eq_true, h, and_true, List.all_eq_true]
  intro b hb
  have := List.eq_of_mem_replicate hb
  subst this; decide

theorem matrix_row (k : Nat) (r : Bytes) (h : allDigits r = true) :
    omap digitVal (List.replicate k 48 ++ r) = some (List.replicate k 0 ++ r.map (· - 48)) := by
  rw [omap_digitVal _ (allDigits_pad k r h)]
  simp

/-- **C18.digit_matrix**: the fixed-width digit matrix used for integer columns of files — every
column of unsigned digit strings of any mix of widths parses to its values (the `'0'` fill on the
left never changes a value) -/
theorem digit_matrix (rows : List Bytes) (vs : List Nat) (h : omap specNat rows = some vs)
    (hr : ∀ v ∈ vs, int64 (v : Int)) : strToIntMatrix rows = some (vs.map Int.ofNat) := by
  unfold strToIntMatrix digitMatrix
  obtain ⟨W, hW⟩ : ∃ W, W = (rows.map List.length).foldl max 0 := ⟨_, rfl⟩
  rw [← hW]
  have hall : ∀ r ∈ rows, (specNat r).isSome := (omap_isSome_iff specNat rows).mp (by rw [h]; rfl)
  have hvs := omap_getD specNat rows vs 0 h
  have hrows : omap (fun r => omap digitVal r) (rows.map (fun r => List.replicate (W - r.length) 48 ++ r))
      = some (rows.map (fun r => List.replicate (W - r.length) 0 ++ r.map (· - 48))) := by
    have : ∀ (l : List Bytes), (∀ r ∈ l, (specNat r).isSome) →
        omap (fun r => omap digitVal r) (l.map (fun r => List.replicate (W - r.length) 48 ++ r))
          = some (l.map (fun r => List.replicate (W - r.length) 0 ++ r.map (· - 48))) := by
      intro l hl
      induction l with
      | nil => rfl
      | cons r rs ih =>
        obtain ⟨u, hu⟩ := Option.isSome_iff_exists.mp (hl r (by simp))
        obtain ⟨_, hd, _⟩ := specNat_some r u hu
        simp only [List.map_cons]
        exact omap_cons_some _ _ _ _ _ (matrix_row _ r hd) (ih (fun x hx => hl x (by simp [hx])))
    exact this rows hall
  rw [hrows]
  simp only [List.map_map, Option.some.injEq]
  rw [hvs, List.map_map]
  apply List.map_congr_left
  intro r hrm
  obtain ⟨u, hu⟩ := Option.isSome_iff_exists.mp (hall r hrm)
  obtain ⟨_, hd, hval⟩ := specNat_some r u hu
  simp only [Function.comp, hu, Option.getD_some]
  have hg : (fun (x : Nat × Int) => (x.1 : Int) * 10 ^ x.2.toNat) = g := rfl
  have hs : ∀ ds : List Nat, ((ds.zip (countdown ds.length)).map g).sum = rowSum ds := fun _ => rfl
  rw [hg, hs, rowSum_eq, ofDigits_zeros, ← hval]
  apply wrap64_id
  apply hr
  rw [hvs]
  exact List.mem_map.mpr ⟨r, hrm, by rw [hu]; rfl⟩



theorem specParse_of_unsigned (r : Bytes) (v : Int) (hn : isNegRow r = false) (hp : isPosRow r = false)
    (h : specParse r = some v) : ∃ u : Nat, specNat r = some u ∧ v = (u : Int) := by
  cases r with
  | nil => simp [specParse, specNat] at h
  | cons b t =>
    have hb1 : b ≠ 45 := by intro hc; subst hc; simp [isNegRow] at hn
    have hb2 : b ≠ 43 := by intro hc; subst hc; simp [isPosRow] at hp
    rw [specParse_unsigned b t hb1 hb2] at h
    cases hu : specNat (b :: t) with
    | none => simp [hu] at h
    | some u => simp only [hu, Option.some.injEq] at h; exact ⟨u, rfl, h.symm⟩

/-- **C18.column_ints**: an integer column of a file (fields of any mix of widths; signed fields
switch the whole column to the ragged path) parses to the values of its fields -/
theorem column_ints (rows : List Bytes) (vs : List Int) (h : omap specParse rows = some vs)
    (hr : ∀ v ∈ vs, int64 v) : columnInts rows = some vs := by
  unfold columnInts
  by_cases hs : rows.any (fun r => isNegRow r || isPosRow r) = true
  · simp only [hs, if_true]; exact parse_int rows vs h hr
  · simp only [hs, Bool.false_eq_true, if_false]
    have hun : ∀ r ∈ rows, isNegRow r = false ∧ isPosRow r = false := by
      intro r hrm
      have : (isNegRow r || isPosRow r) = false := by
        apply Bool.eq_false_iff.mpr
        intro hc
        exact hs (List.any_eq_true.mpr ⟨r, hrm, hc⟩)
      simpa using this
    have key : ∀ (l : List Bytes) (ws : List Int), (∀ r ∈ l, isNegRow r = false ∧ isPosRow r = false) →
        omap specParse l = some ws → ∃ us : List Nat, omap specNat l = some us ∧ ws = us.map Int.ofNat := by
      intro l
      induction l with
      | nil => intro ws _ hw; simp at hw; subst hw; exact ⟨[], rfl, rfl⟩
      | cons r rs ih =>
        intro ws hl hw
        obtain ⟨v, vs', hv, hvs', rfl⟩ := omap_cons_eq_some _ r rs ws hw
        obtain ⟨u, hu, rfl⟩ := specParse_of_unsigned r v (hl r (by simp)).1 (hl r (by simp)).2 hv
        obtain ⟨us, hus, rfl⟩ := ih vs' (fun x hx => hl x (by simp [hx])) hvs'
        exact ⟨u :: us, omap_cons_some _ _ _ _ _ hu hus, rfl⟩
    obtain ⟨us, hus, rfl⟩ := key rows vs hun h
    exact digit_matrix rows us hus (by
      intro u hu
      exact hr _ (List.mem_map.mpr ⟨u, hu, rfl⟩))

theorem omap_getD_at {α β} (f : α → Option β) (l : List α) (r : List β) (da : α) (db : β)
    (h : omap f l = some r) (i : Nat) (hi : i < l.length) : f (l.getD i da) = some (r.getD i db) := by
  induction l generalizing r i with
  | nil => simp at hi
  | cons x xs ih =>
    obtain ⟨b, bs, hb, hbs, rfl⟩ := omap_cons_eq_some f x xs r h
    cases i with
    | zero => simpa using hb
    | succ j =>
      have := ih bs hbs j (by simpa using hi)
      simpa using this

/-- **C18.column_ints_selection**: the integer column of ANY selection of the rows of a file (an index
list: any order, repeats, a sub-batch — what `table[idx]` on a lazily read table keeps) is the same
selection of the column's values, whichever of the two routes (fixed-width digit matrix / ragged
path with sign flags) the SELECTED rows take: the route is chosen from the selected rows only, so a
sub-batch without signs of a column with signs goes the other way and must still agree. -/
theorem column_ints_selection (rows : List Bytes) (vs : List Int) (h : omap specParse rows = some vs)
    (hr : ∀ v ∈ vs, int64 v) (idx : List Nat) (hi : ∀ i ∈ idx, i < rows.length) :
    columnInts (idx.map (fun i => rows.getD i [])) = some (idx.map (fun i => vs.getD i 0)) := by
  have hlen := omap_length specParse rows vs h
  apply column_ints
  · rw [show idx.map (fun i => vs.getD i 0) = (idx.map (fun i => rows.getD i [])).map (fun r => (specParse r).getD 0) from ?_]
    · apply omap_some_map
      intro r hrm
      obtain ⟨i, him, rfl⟩ := List.mem_map.mp hrm
      rw [omap_getD_at specParse rows vs [] 0 h i (hi i him)]
      rfl
    · rw [List.map_map]
      apply List.map_congr_left
      intro i him
      simp only [Function.comp]
      rw [omap_getD_at specParse rows vs [] 0 h i (hi i him)]
      rfl
  · intro v hv
    obtain ⟨i, him, rfl⟩ := List.mem_map.mp hv
    have hlt : i < vs.length := by rw [hlen]; exact hi i him
    apply hr
    have : vs.getD i 0 = vs[i] := by simp [List.getD_eq_getElem?_getD, List.getElem?_eq_getElem hlt]
    rw [this]
    exact List.getElem_mem hlt

example : columnInts ([2, 0, 0].map (fun i => [[45, 49], [48, 55], [51]].getD i [])) = some [3, -1, -1] := by decide

theorem compactFrom_fields (data : Bytes) (rows : List LRow) (h : ∀ r ∈ rows, WFRow data r) :
    ∀ (pos : Nat) (pre : Bytes), pre.length = pos →
      (compactFrom data pos rows).2.map (fieldOf (pre ++ (compactFrom data pos rows).1)) = rows.map (fieldOf data) := by
  induction rows with
  | nil => intro pos pre _; rfl
  | cons r rs ih =>
    intro pos pre hpre
    obtain ⟨h1, h2, h3⟩ := h r (by simp)
    have hseg : ((data.drop r.es).take (r.ee - r.es)).length = r.ee - r.es := by
      simp only [List.length_take, List.length_drop]; omega
    simp only [compactFrom, List.map_cons]
    congr 1
    · -- the head row
      unfold fieldOf
      simp only
      have e1 : r.fs + pos - r.es = pre.length + (r.fs - r.es) := by omega
      rw [e1, List.drop_length_add_append]
      rw [List.drop_append_of_le_length (by rw [hseg]; omega)]
      rw [List.take_append_of_le_length (by simp only [List.length_drop, hseg]; omega)]
      rw [List.drop_take, List.take_take, List.drop_drop]
      have e2 : r.es + (r.fs - r.es) = r.fs := by omega
      have e3 : min r.fl (r.ee - r.es - (r.fs - r.es)) = r.fl := by omega
      rw [e2, e3]
    · have := ih (fun x hx => h x (by simp [hx])) (pos + (r.ee - r.es))
        (pre ++ (data.drop r.es).take (r.ee - r.es)) (by rw [List.length_append, hseg, hpre])
      rw [List.append_assoc] at this
      exact this

/-- **C18.compact_fields**: compacting a row selection of a lazily read table (any rows, any order,
repeats) into a new text leaves every selected field's text unchanged -/
theorem compact_fields (data : Bytes) (rows : List LRow) (h : ∀ r ∈ rows, WFRow data r) :
    (compact data rows).2.map (fieldOf (compact data rows).1) = rows.map (fieldOf data) := by
  have := compactFrom_fields data rows h 0 [] rfl
  simpa [compact] using this

/-- **C18.lazy_column_compacted**: the integer column read from a compacted row selection is the
column of the selected fields' texts as they stood in the file — so (with `column_ints`) their values -/
theorem lazy_column_compacted (data : Bytes) (rows : List LRow) (h : ∀ r ∈ rows, WFRow data r)
    (vs : List Int) (hv : omap specParse (rows.map (fieldOf data)) = some vs) (hr : ∀ v ∈ vs, int64 v) :
    columnInts ((compact data rows).2.map (fieldOf (compact data rows).1)) = some vs := by
  rw [compact_fields data rows h]
  exact column_ints _ vs hv hr

example : WFRow [49, 9, 50, 10, 51, 9, 52, 10] ⟨4, 8, 6, 1⟩ := by unfold WFRow; decide
example : (compact [49, 9, 50, 10, 51, 9, 52, 10] [⟨4, 8, 6, 1⟩, ⟨0, 4, 2, 1⟩]).1 = [51, 9, 52, 10, 49, 9, 50, 10] := by decide
example : lazyColumnInts [[[49], [50]], [[51], [45, 52]]] 1 [1, 0, 1] = some [-4, 2, -4] := by decide

/-- `lineBytes` is the usual notion: the fields joined by tabs, then a newline -/
theorem lineBytes_eq_intercalate (fs : List Bytes) : lineBytes fs = List.intercalate [9] fs ++ [10] := by
  induction fs with
  | nil => rfl
  | cons f rest ih =>
    cases rest with
    | nil => simp [lineBytes, List.intercalate]
    | cons g rest' =>
      simp only [lineBytes, ih]
      simp [List.intercalate]

/-- inside one line: the field of column `col` starts after the earlier fields and their tabs, ends
inside the line, and reads back as that field (the empty field when the line has no such column) -/
theorem line_field (fs : List Bytes) : ∀ (col : Nat),
    ((fs.take col).map (fun f => f.length + 1)).sum + (fs.getD col []).length ≤ (lineBytes fs).length ∧
    ((lineBytes fs).drop ((fs.take col).map (fun f => f.length + 1)).sum).take (fs.getD col []).length
      = fs.getD col [] := by
  induction fs with
  | nil => intro col; simp [lineBytes]
  | cons f rest ih =>
    intro col
    cases rest with
    | nil =>
      cases col with
      | zero => simp [lineBytes]
      | succ c => simp [lineBytes]
    | cons g rest' =>
      cases col with
      | zero => simp [lineBytes]
      | succ c =>
        obtain ⟨h1, h2⟩ := ih c
        simp only [List.take_succ_cons, List.map_cons, List.sum_cons, List.getD_cons_succ, lineBytes,
          List.length_append, List.length_cons]
        constructor
        · omega
        · have e : f.length + 1 + ((g :: rest').take c |>.map (fun f => f.length + 1)).sum
              = (f ++ [9]).length + ((g :: rest').take c |>.map (fun f => f.length + 1)).sum := by simp
          have e2 : f ++ 9 :: lineBytes (g :: rest') = (f ++ [9]) ++ lineBytes (g :: rest') := by simp
          rw [e, e2, List.drop_length_add_append]
          exact h2

theorem lineRows_spec (col : Nat) (lines : List (List Bytes)) : ∀ (pre : Bytes),
    (∀ r ∈ lineRows col pre.length lines, WFRow (pre ++ tableText lines) r) ∧
    (lineRows col pre.length lines).map (fieldOf (pre ++ tableText lines)) = lines.map (fun l => l.getD col []) := by
  induction lines with
  | nil => intro pre; simp [lineRows]
  | cons l rest ih =>
    intro pre
    obtain ⟨h1, h2⟩ := line_field l col
    have ht : tableText (l :: rest) = lineBytes l ++ tableText rest := by simp [tableText]
    obtain ⟨iw, if_⟩ := ih (pre ++ lineBytes l)
    rw [List.length_append, List.append_assoc, ← ht] at iw if_
    simp only [lineRows]
    refine ⟨?_, ?_⟩
    · intro r hr
      rcases List.mem_cons.mp hr with rfl | hr
      · refine ⟨by simp, by simp only; omega, ?_⟩
        simp only [ht, List.length_append]; omega
      · exact iw r hr
    · rw [List.map_cons, List.map_cons, if_]
      congr 1
      unfold fieldOf
      simp only
      rw [ht, List.drop_length_add_append, List.drop_append_of_le_length (by omega),
        List.take_append_of_le_length (by simp only [List.length_drop]; omega)]
      exact h2

/-- **C18.lineRows_wf**: every row `lineRows` lays out lies inside `tableText lines` (field inside
its line, line inside the text) — for every table, lines without fields included -/
theorem lineRows_wf (col : Nat) (lines : List (List Bytes)) :
    ∀ r ∈ lineRows col 0 lines, WFRow (tableText lines) r := by
  have := (lineRows_spec col lines []).1
  simpa using this

/-- **C18.lineRows_field**: the bytes at the laid-out positions are the fields of column `col`,
line by line (the empty field for a line without such a column) -/
theorem lineRows_field (col : Nat) (lines : List (List Bytes)) :
    (lineRows col 0 lines).map (fieldOf (tableText lines)) = lines.map (fun l => l.getD col []) := by
  have := (lineRows_spec col lines []).2
  simpa using this

/-- **C18.lazyColumnInts_spec** (no hypothesis): the function the driver runs — lay the table out as
text, select rows by position (any order, repeats; a position outside the table selects the empty
field), compact, read the column from the compacted text — is the column reader applied to the
selected fields' texts -/
theorem lazyColumnInts_spec (lines : List (List Bytes)) (col : Nat) (idx : List Nat) :
    lazyColumnInts lines col idx = columnInts (idx.map (fun i => (lines.getD i []).getD col [])) := by
  unfold lazyColumnInts
  simp only
  have hf := lineRows_field col lines
  have hw := lineRows_wf col lines
  have hlen : (lineRows col 0 lines).length = lines.length := by
    have := congrArg List.length hf
    simpa using this
  have hwf : ∀ r ∈ idx.map (fun i => (lineRows col 0 lines).getD i default), WFRow (tableText lines) r := by
    intro r hr
    obtain ⟨i, _, rfl⟩ := List.mem_map.mp hr
    by_cases hi : i < (lineRows col 0 lines).length
    · have : (lineRows col 0 lines).getD i default = (lineRows col 0 lines)[i] := by
        simp [List.getD_eq_getElem?_getD, List.getElem?_eq_getElem hi]
      rw [this]; exact hw _ (List.getElem_mem hi)
    · have : (lineRows col 0 lines).getD i default = (default : LRow) := by
        simp [List.getD_eq_getElem?_getD, List.getElem?_eq_none (by omega : (lineRows col 0 lines).length ≤ i)]
      rw [this]
      exact ⟨Nat.le_refl _, Nat.zero_le _, Nat.zero_le _⟩
  rw [compact_fields _ _ hwf, List.map_map]
  congr 1
  apply List.map_congr_left
  intro i _
  simp only [Function.comp]
  by_cases hi : i < lines.length
  · have hi' : i < (lineRows col 0 lines).length := by omega
    have e1 : (lineRows col 0 lines).getD i default = (lineRows col 0 lines)[i] := by
      simp [List.getD_eq_getElem?_getD, List.getElem?_eq_getElem hi']
    have e2 : lines.getD i [] = lines[i] := by
      simp [List.getD_eq_getElem?_getD, List.getElem?_eq_getElem hi]
    rw [e1, e2]
    have := congrArg (fun l => l[i]?) hf
    simp only [List.getElem?_map, List.getElem?_eq_getElem hi', List.getElem?_eq_getElem hi, Option.map_some] at this
    exact Option.some.inj this
  · have e1 : (lineRows col 0 lines).getD i default = (default : LRow) := by
      simp [List.getD_eq_getElem?_getD, List.getElem?_eq_none (by omega : (lineRows col 0 lines).length ≤ i)]
    have e2 : lines.getD i [] = [] := by
      simp [List.getD_eq_getElem?_getD, List.getElem?_eq_none (by omega : lines.length ≤ i)]
    rw [e1, e2]
    rfl

/-- **C18.lazy_column_values**: hence, when column `col` of the file holds integer texts with int64
values `vs`, the column read from ANY in-range row selection of the lazily read table — through
layout, selection, compaction and either route of the column reader — is that selection of `vs` -/
theorem lazy_column_values (lines : List (List Bytes)) (col : Nat) (vs : List Int)
    (h : omap specParse (lines.map (fun l => l.getD col [])) = some vs) (hr : ∀ v ∈ vs, int64 v)
    (idx : List Nat) (hi : ∀ i ∈ idx, i < lines.length) :
    lazyColumnInts lines col idx = some (idx.map (fun i => vs.getD i 0)) := by
  rw [lazyColumnInts_spec]
  have := column_ints_selection (lines.map (fun l => l.getD col [])) vs h hr idx (by simpa using hi)
  rw [← this]
  congr 1
  apply List.map_congr_left
  intro i him
  have hlt := hi i him
  simp [List.getD_eq_getElem?_getD, List.getElem?_eq_getElem hlt]

-- the reviewer's witness: a line with no fields between two ordinary lines
example : lazyColumnInts [[[49], [50, 51]], [], [[52, 53, 54], [55]]] 0 [2] = some [456] := by decide

theorem fill_spec (m : Int) (f : Bytes → Int) (rows : List Bytes) :
    fillMissing m rows ((rows.filter (fun r => !isMissing r)).map f)
      = rows.map (fun r => if isMissing r then m else f r) := by
  induction rows with
  | nil => rfl
  | cons r rs ih =>
    by_cases hm : isMissing r = true
    · simp [fillMissing, hm, ih]
    · have hm' : isMissing r = false := by simpa using hm
      simp [fillMissing, hm', ih]

/-- **C18.parse_missing**: an optional integer column — absent fields (empty or a lone `'.'`) become
the missing value, every other field its value, position by position -/
theorem parse_missing (rows : List Bytes) (m : Int)
    (h : ∀ r ∈ rows, isMissing r = true ∨ ∃ v, specParse r = some v ∧ int64 v) :
    strToIntWithMissing rows m = some (rows.map (fun r => if isMissing r then m else (specParse r).getD 0)) := by
  unfold strToIntWithMissing
  obtain ⟨present, hp⟩ : ∃ present, present = rows.filter (fun r => !isMissing r) := ⟨_, rfl⟩
  rw [← hp]
  have hval : ∀ r ∈ present, ∃ v, specParse r = some v ∧ int64 v := by
    intro r hr
    rw [hp, List.mem_filter] at hr
    rcases h r hr.1 with hm | hv
    · simp [hm] at hr
    · exact hv
  have hparse : strToInt present = some (present.map (fun r => (specParse r).getD 0)) ∨ present = [] := by
    by_cases he : present = []
    · right; exact he
    · left
      apply parse_int
      · apply omap_some_map
        intro r hr
        obtain ⟨v, hv, _⟩ := hval r hr
        rw [hv]; rfl
      · intro v hv
        obtain ⟨r, hr, rfl⟩ := List.mem_map.mp hv
        obtain ⟨w, hw, hi⟩ := hval r hr
        rw [hw]; exact hi
  have hvals : (if present = [] then some [] else strToInt present)
      = some (present.map (fun r => (specParse r).getD 0)) := by
    rcases hparse with hq | hq
    · by_cases he : present = []
      · simp [he]
      · simp [he, hq]
    · simp [hq]
  simp only [hvals, Option.some.injEq]
  rw [hp]
  exact fill_spec m _ rows

example : strToIntWithMissing ["12".toList.map Char.toNat, ".".toList.map Char.toNat, [], "-7".toList.map Char.toNat] (-1)
    = some [12, -1, -1, -7] := by decide



/-! ### the float logic against the grammar parser `specFloat` -/

theorem findByte_some (b : Nat) (s : Bytes) (c : Nat) (h : findByte b s = some c) :
    s = s.take c ++ b :: s.drop (c + 1) ∧ b ∉ s.take c := by
  unfold findByte at h
  simp only at h
  split at h
  · rename_i hlt
    simp only [Option.some.injEq] at h
    subst h
    induction s with
    | nil => simp at hlt
    | cons x xs ih =>
      by_cases hx : x = b
      · subst hx; simp
      · have hxb : (x == b) = false := by simpa using hx
        have hlt' : xs.idxOf b < xs.length := by
          simp only [List.idxOf_cons, hxb, cond_false, List.length_cons] at hlt; omega
        obtain ⟨i1, i2⟩ := ih hlt'
        simp only [List.idxOf_cons, hxb, cond_false, List.take_succ_cons, List.drop_succ_cons, List.cons_append,
          List.mem_cons, not_or]
        refine ⟨?_, fun hc => hx hc.symm, i2⟩
        congr 1
  · simp at h

theorem findByte_none_not_mem (b : Nat) (s : Bytes) (h : findByte b s = none) : b ∉ s := by
  unfold findByte at h
  simp only at h
  split at h
  · simp at h
  · rename_i hge
    intro hm
    exact hge (List.idxOf_lt_length_of_mem hm)

theorem specDigits_some (t : Bytes) (u : Nat) (h : specDigits t = some u) :
    allDigits t = true ∧ u = ofDigits (t.map (· - 48)) := by
  unfold specDigits at h
  split at h
  · rename_i hc; simp at h; exact ⟨hc, h.symm⟩
  · simp at h

/-- the unsigned mantissa, after any sign, is evaluated to the value the grammar gives it -/
theorem mantissa_eq (sg : Sign) (r : Bytes) (dm : Dec) (h : specMantissa r = some dm) :
    decimalRow (sg.bytes ++ r) = some ⟨sg.factor * dm.m, dm.e⟩ := by
  unfold specMantissa at h
  cases hf : findByte 46 r with
  | none =>
    simp only [hf] at h
    cases hv : specNat r with
    | none => simp [hv] at h
    | some v =>
      simp only [hv, Option.some.injEq] at h
      subst h
      obtain ⟨hne, hall, rfl⟩ := specNat_some r v hv
      exact (float_logic_partial sg r [] hall rfl).2 hne
  | some c =>
    simp only [hf] at h
    obtain ⟨hdec, _⟩ := findByte_some 46 r c hf
    split at h
    · simp at h
    · rename_i hne
      cases hi : specDigits (r.take c) with
      | none => simp [hi] at h
      | some i =>
        cases hfr : specDigits (r.drop (c + 1)) with
        | none => simp [hi, hfr] at h
        | some f =>
          simp only [hi, hfr, Option.some.injEq] at h
          subst h
          obtain ⟨hI, rfl⟩ := specDigits_some _ i hi
          obtain ⟨hF, rfl⟩ := specDigits_some _ f hfr
          have hne' : r.take c ++ r.drop (c + 1) ≠ [] := by
            intro hc
            apply hne
            simpa using hc
          have := (float_logic_partial sg (r.take c) (r.drop (c + 1)) hI hF).1 hne'
          rw [List.append_assoc, ← hdec] at this
          exact this

theorem signed_eq (s : Bytes) (d : Dec) (h : specSigned s = some d) : decimalRow s = some d := by
  unfold specSigned at h
  split at h
  · rename_i r
    obtain ⟨dm, hdm, rfl⟩ := Option.map_eq_some_iff.mp h
    have := mantissa_eq Sign.minus r dm hdm
    simpa [Sign.bytes, Sign.factor] using this
  · rename_i r
    have := mantissa_eq Sign.plus r d h
    simpa [Sign.bytes, Sign.factor] using this
  · have := mantissa_eq Sign.none s d h
    simpa [Sign.bytes, Sign.factor] using this

/-- **C18.float_logic_spec_partial**: for every text the numeral grammar `[±]I[.F][e[±]X]` accepts
(exponent within int64), the float parser's logic denotes exactly the numeral's value. Together
with `repr` producing a text of this grammar whose value rounds to the double (Python's guarantee,
an external), this is the logic half of "formatting then parsing returns the double"; the rounding
of the parser's own floating-point operations is what is only corresponded. -/
theorem float_logic_spec_partial (t : Bytes) (d : Dec) (h : specFloat t = some d)
    (hx : ∀ c, findByte 101 t = some c → ∀ x, specParse (t.drop (c + 1)) = some x → int64 x) :
    strToFloatRow t = some d := by
  unfold specFloat at h
  cases hf : findByte 101 t with
  | none =>
    simp only [hf] at h
    have hnm := findByte_none_not_mem 101 t hf
    unfold strToFloatRow
    have : t.contains 101 = false := by simpa using hnm
    simp only [this, Bool.false_eq_true, if_false]
    exact signed_eq t d h
  | some c =>
    simp only [hf] at h
    obtain ⟨hdec, hnm⟩ := findByte_some 101 t c hf
    cases hs : specSigned (t.take c) with
    | none => simp [hs] at h
    | some dm =>
      cases hp : specParse (t.drop (c + 1)) with
      | none => simp [hs, hp] at h
      | some x =>
        simp only [hs, hp, Option.some.injEq] at h
        subst h
        have := float_logic_sci_partial (t.take c) (t.drop (c + 1)) dm x hnm (signed_eq _ dm hs) hp (hx c hf x hp)
        rw [← hdec] at this
        exact this

example : specFloat ("+12.5e-3".toList.map Char.toNat) = some ⟨125, -4⟩ := by decide



/-! ### round 4: dropped hypotheses, characterisations in plain list vocabulary, iff statements -/

/-- **C18.format_wide**: `format_int` without the int64 hypothesis — every magnitude below `10^20`
(all of int64 and of uint64) is formatted to the canonical text -/
theorem format_wide (ns : List Int) (h : ∀ n ∈ ns, n.natAbs < 10 ^ 20) : intsToStrings ns = ns.map decimal := by
  rw [intsToStrings_rows]
  exact List.map_congr_left (fun n hn => fmtOne_eq n (h n hn))

example : ∀ n ∈ [(18446744073709551615 : Int), -9223372036854775808, 0], n.natAbs < 10 ^ 20 := by decide

/-- **C18.int_to_str_spec**: the repaired scalar formatter gives the canonical text -/
theorem int_to_str_spec (n : Int) (h : n.natAbs < 10 ^ 20) : intToStr n = decimal n := by
  unfold intToStr
  rw [format_wide [n] (by simpa using h)]
  rfl

/-- the scalar formatter shipped before the repair: a leading `'0'` at `10^15 − 1` (float width 16,
observed on the code) and no sign (`−5 ↦ "5"`; `max(−5, 1) = 1`, `log10 1.0 = 0` exactly) -/
theorem int_to_str_old_unsound (w : Int → Nat) (h1 : w 999999999999999 = 16) (h2 : w 1 = 1) :
    intToStrOld w 999999999999999 = "0999999999999999".toList.map Char.toNat ∧
    intToStrOld w (-5) = "5".toList.map Char.toNat ∧ decimal (-5) = "-5".toList.map Char.toNat := by
  have e1 : max (999999999999999 : Int) 1 = 999999999999999 := by decide
  have e2 : max (-5 : Int) 1 = 1 := by decide
  refine ⟨?_, ?_, by decide⟩
  · unfold intToStrOld; rw [e1, h1]; decide
  · unfold intToStrOld; rw [e2, h2]; decide

/-! canonical digits are pinned by three standard facts: digits `< 10`, no leading zero, value -/

theorem digitsBE_head (m : Nat) : (digitsBE m).length = 1 ∨ (digitsBE m).head? ≠ some 0 := by
  induction m using Nat.strongRecOn with
  | _ m ih =>
    rw [digitsBE]
    by_cases h : m < 10
    · left; simp [h]
    · right
      simp only [h, dite_false]
      have hq : 0 < m / 10 := by omega
      rcases ih (m / 10) (by omega) with h1 | h2
      · -- a single digit: it is m / 10 itself, non-zero
        have hb := digitsBE_bounds (m / 10)
        have hv := ofDigits_digitsBE (m / 10)
        cases hd : digitsBE (m / 10) with
        | nil => rw [hd] at h1; simp at h1
        | cons d r =>
          rw [hd] at h1 hv
          have : r = [] := by simpa using h1
          subst this
          simp only [ofDigits, List.foldl_cons, List.foldl_nil, Nat.zero_mul, Nat.zero_add] at hv
          simp only [List.cons_append, List.head?_cons, ne_eq, Option.some.injEq]
          omega
      · cases hd : digitsBE (m / 10) with
        | nil => have := (digitsBE_bounds (m / 10)).2.2; rw [hd] at this; simp at this
        | cons d r => rw [hd] at h2; simpa using h2

theorem snoc_cases {α} (ds : List α) : ds = [] ∨ ∃ init d, ds = init ++ [d] := by
  by_cases h : ds = []
  · left; exact h
  · right; exact ⟨ds.dropLast, ds.getLast h, (List.dropLast_concat_getLast h).symm⟩

/-- **C18.canonical_unique**: the canonical digit string is the ONLY list of digits `< 10` without a
leading zero (or the single digit `0`) whose value is `m` — so `decimal`, `digitsBE` and the code's
output are pinned by standard notions, not by definition -/
theorem canonical_unique (m : Nat) (ds : List Nat) (hlt : ∀ d ∈ ds, d < 10) (hne : ds ≠ [])
    (hlead : ds.length = 1 ∨ ds.head? ≠ some 0) (hval : ofDigits ds = m) : ds = digitsBE m := by
  have key : ∀ n, ∀ (ds : List Nat) (m : Nat), ds.length = n → (∀ d ∈ ds, d < 10) → ds ≠ [] →
      (ds.length = 1 ∨ ds.head? ≠ some 0) → ofDigits ds = m → ds = digitsBE m := by
    intro n
    induction n with
    | zero => intro ds m hl _ hne; exact absurd (List.eq_nil_of_length_eq_zero hl) hne
    | succ k ih =>
      intro ds m hl hlt hne hlead hval
      rcases snoc_cases ds with h0 | ⟨init, d, rfl⟩
      · exact absurd h0 hne
      · have hd : d < 10 := hlt d (by simp)
        rw [ofDigits_snoc] at hval
        by_cases hi : init = []
        · subst hi
          simp only [ofDigits, List.foldl_nil, Nat.zero_mul, Nat.zero_add] at hval
          subst hval
          rw [digitsBE]; simp [hd]
        · have hinit_lt : ∀ x ∈ init, x < 10 := fun x hx => hlt x (by simp [hx])
          have hlead' : init.head? ≠ some 0 := by
            rcases hlead with h1 | h2
            · simp at h1; exact absurd h1 hi
            · cases init with
              | nil => exact absurd rfl hi
              | cons x xs => simpa using h2
          have hpos : 0 < ofDigits init := by
            cases init with
            | nil => exact absurd rfl hi
            | cons x xs =>
              have hx : x ≠ 0 := by simpa using hlead'
              have := foldl_horner xs x
              unfold ofDigits
              simp only [List.foldl_cons, Nat.zero_mul, Nat.zero_add]
              rw [this]
              have : 0 < x * 10 ^ xs.length := Nat.mul_pos (by omega) (Nat.pow_pos (by omega))
              omega
          have hm10 : ¬ m < 10 := by omega
          rw [digitsBE]
          simp only [hm10, dite_false]
          have hdiv : m / 10 = ofDigits init := by omega
          have hmod : m % 10 = d := by omega
          have hlen : init.length = k := by simp at hl; omega
          rw [hmod, ← ih init (m / 10) hlen hinit_lt hi (Or.inr hlead') hdiv.symm]
  exact key ds.length ds m rfl hlt hne hlead hval

example : [1, 0, 7] = digitsBE 107 :=
  canonical_unique 107 [1, 0, 7] (by decide) (by decide) (Or.inr (by decide)) (by decide)

/-! completeness: the integer parser accepts exactly the grammar -/

theorem allDigits_of_omap (t : Bytes) (h : (omap digitVal t).isSome) : allDigits t = true := by
  unfold allDigits
  rw [List.all_eq_true]
  intro b hb
  have := (omap_isSome_iff digitVal t).mp h b hb
  unfold digitVal at this
  split at this
  · rename_i hc; simp [hc.1, hc.2]
  · simp at this

theorem accept_iff_spec (r : Bytes) (hne : r ≠ []) :
    (signOnly r = false ∧ (omap digitVal (stripSign r)).isSome) ↔ (specParse r).isSome := by
  constructor
  · intro ⟨hso, hok⟩
    cases r with
    | nil => exact absurd rfl hne
    | cons b t =>
      by_cases hb : b = 45 ∨ b = 43
      · have hs : stripSign (b :: t) = 48 :: t := by
          rcases hb with rfl | rfl <;> simp [stripSign, isNegRow, isPosRow]
        rw [hs] at hok
        have htd : allDigits t = true := by
          have := allDigits_of_omap (48 :: t) hok
          unfold allDigits at this ⊢
          simp only [List.all_cons, Bool.and_eq_true] at this
          exact this.2
        have htne : t ≠ [] := by
          intro hc; subst hc
          rcases hb with rfl | rfl <;> simp [signOnly, isNegRow, isPosRow] at hso
        have hn : specNat t = some (ofDigits (t.map (· - 48))) := by
          unfold specNat; simp [htne, htd]
        rcases hb with rfl | rfl
        · unfold specParse; simp [hn]
        · unfold specParse; simp [hn]
      · have hb1 : b ≠ 45 := fun hc => hb (Or.inl hc)
        have hb2 : b ≠ 43 := fun hc => hb (Or.inr hc)
        have hs : stripSign (b :: t) = b :: t := by
          simp [stripSign, isNegRow, isPosRow, hb1, hb2]
        rw [hs] at hok
        have hd := allDigits_of_omap (b :: t) hok
        rw [specParse_unsigned b t hb1 hb2]
        have hn : specNat (b :: t) = some (ofDigits ((b :: t).map (· - 48))) := by
          unfold specNat; simp [hd]
        rw [hn]; rfl
  · intro h
    obtain ⟨v, hv⟩ := Option.isSome_iff_exists.mp h
    have := row_parse r v hv
    exact ⟨this.2.2.2, this.2.1⟩

/-- **C18.parse_int_some_iff**: for every batch of non-empty rows, `str_to_int` succeeds EXACTLY
when every row is a decimal integer text (optional sign followed by at least one digit) -/
theorem parse_int_some_iff (rows : List Bytes) (hne : ∀ r ∈ rows, r ≠ []) :
    (strToInt rows).isSome ↔ ∀ r ∈ rows, (specParse r).isSome := by
  constructor
  · intro h r hr
    -- if some row is not accepted the code raises
    apply Classical.byContradiction
    intro hbad
    have hacc : ¬ (signOnly r = false ∧ (omap digitVal (stripSign r)).isSome) :=
      fun hc => hbad ((accept_iff_spec r (hne r hr)).mp hc)
    unfold strToInt at h
    by_cases hany : rows.any (fun r => (isNegRow r || isPosRow r) && r.length == 1) = true
    · simp [hany] at h
    · have hany' : rows.any (fun r => (isNegRow r || isPosRow r) && r.length == 1) = false := by simpa using hany
      simp only [hany', Bool.false_eq_true, if_false] at h
      have hso : signOnly r = false := by
        apply Bool.eq_false_iff.mpr
        intro hc
        exact hany (List.any_eq_true.mpr ⟨r, hr, hc⟩)
      have hnok : (omap digitVal (stripSign r)).isSome = false := by
        cases hq : (omap digitVal (stripSign r)).isSome with
        | false => rfl
        | true => exact absurd ⟨hso, hq⟩ hacc
      have : (omap (fun r => omap digitVal (stripSign r)) rows).isSome = false := by
        cases hq : (omap (fun r => omap digitVal (stripSign r)) rows).isSome with
        | false => rfl
        | true =>
          have := (omap_isSome_iff _ rows).mp hq r hr
          rw [hnok] at this; exact Bool.noConfusion this
      cases hq : omap (fun r => omap digitVal (stripSign r)) rows with
      | none => rw [hq] at h; simp at h
      | some x => rw [hq] at this; simp at this
  · intro h
    have h1 : ∀ r ∈ rows, signOnly r = false ∧ (omap digitVal (stripSign r)).isSome :=
      fun r hr => (accept_iff_spec r (hne r hr)).mpr (h r hr)
    rw [strToInt_rows rows hne (fun r hr => (h1 r hr).1) (fun r hr => (h1 r hr).2)]
    rfl

example : (strToInt ["12".toList.map Char.toNat, "-".toList.map Char.toNat]).isSome = false := by decide

/-! `split` pinned by `intercalate`: the converse of `split_join`, for every input -/

theorem splitAux_join (sep : Nat) (cur s : Bytes) :
    List.intercalate [sep] (splitAux sep cur s) = cur.reverse ++ s := by
  induction s generalizing cur with
  | nil => simp [splitAux, List.intercalate]
  | cons b bs ih =>
    by_cases hb : b = sep
    · subst hb
      simp only [splitAux, if_true]
      have := ih []
      cases hsp : splitAux b [] bs with
      | nil =>
        -- splitAux never returns []
        exfalso
        have : ∀ c t, splitAux b c t ≠ [] := by
          intro c t; induction t generalizing c with
          | nil => simp [splitAux]
          | cons x xs ih2 => simp only [splitAux]; split <;> simp [ih2]
        exact this [] bs hsp
      | cons p ps =>
        rw [hsp] at this
        have e : List.intercalate [b] (cur.reverse :: p :: ps) = cur.reverse ++ b :: List.intercalate [b] (p :: ps) := by
          simp [List.intercalate]
        rw [e, this]; simp
    · simp only [splitAux, hb, if_false]
      rw [ih (b :: cur)]; simp

/-- **C18.join_split**: joining the pieces of `split` with the separator gives back the input, for
EVERY byte string (and `split_join` is the other direction) — `split` is pinned by `intercalate` -/
theorem join_split (s : Bytes) (sep : Nat) : List.intercalate [sep] (split s sep) = s := by
  unfold split
  simpa using splitAux_join sep [] s

theorem splitAux_no_sep_in_pieces (sep : Nat) (cur s : Bytes) (hc : sep ∉ cur) :
    ∀ p ∈ splitAux sep cur s, sep ∉ p := by
  induction s generalizing cur with
  | nil => intro p hp; simp [splitAux] at hp; subst hp; simpa using hc
  | cons b bs ih =>
    intro p hp
    by_cases hb : b = sep
    · subst hb
      simp only [splitAux, if_true, List.mem_cons] at hp
      rcases hp with rfl | hp
      · simpa using hc
      · exact ih [] (by simp) p hp
    · simp only [splitAux, hb, if_false] at hp
      exact ih (b :: cur) (by
        intro hm; simp only [List.mem_cons] at hm
        rcases hm with hm | hm
        · exact hb hm.symm
        · exact hc hm) p hp

/-- no piece of `split` contains the separator -/
theorem split_pieces (s : Bytes) (sep : Nat) : ∀ p ∈ split s sep, sep ∉ p :=
  splitAux_no_sep_in_pieces sep [] s (by simp)

/-- the multi-separator `split` (list of separators): the pieces concatenate to the input without
its separator bytes, and there is one more piece than separator bytes -/
theorem splitBy_spec (p : Nat → Bool) (s : Bytes) :
    (splitBy p s).flatten = s.filter (fun b => !p b) ∧ (splitBy p s).length = (s.filter p).length + 1 := by
  unfold splitBy
  have key : ∀ (cur : Bytes), (splitByAux p cur s).flatten = cur.reverse ++ s.filter (fun b => !p b) ∧
      (splitByAux p cur s).length = (s.filter p).length + 1 := by
    induction s with
    | nil => intro cur; simp [splitByAux]
    | cons b bs ih =>
      intro cur
      by_cases hb : p b = true
      · obtain ⟨i1, i2⟩ := ih []
        simp [splitByAux, hb, i1, i2]
      · have hb' : p b = false := by simpa using hb
        obtain ⟨i1, i2⟩ := ih (b :: cur)
        simp [splitByAux, hb', i1, i2]
  simpa using key []

/-- **C18.digit_lists**: the `List[bool]` writer (`sep = ""`) gives one digit character per element
exactly when every element is a single digit -/
theorem digit_lists (rows : List (List Nat)) :
    ((digitListsToStrings rows).isSome ↔ ∀ r ∈ rows, ∀ d ∈ r, d < 10) ∧
    ((∀ r ∈ rows, ∀ d ∈ r, d < 10) → digitListsToStrings rows = some (rows.map (·.map (48 + ·)))) := by
  have h2 : (∀ r ∈ rows, ∀ d ∈ r, d < 10) → digitListsToStrings rows = some (rows.map (·.map (48 + ·))) := by
    intro h
    unfold digitListsToStrings
    apply omap_some_map
    intro r hr
    apply omap_some_map
    intro d hd
    simp [h r hr d hd]
  refine ⟨⟨?_, fun h => by rw [h2 h]; rfl⟩, h2⟩
  intro h r hr d hd
  unfold digitListsToStrings at h
  have := (omap_isSome_iff _ rows).mp h r hr
  have := (omap_isSome_iff _ r).mp this d hd
  split at this
  · assumption
  · simp at this

/-- int64 wrap-around is the unique representative of the residue class in the int64 range -/
theorem wrap64_spec (x : Int) : int64 (wrap64 x) ∧ (wrap64 x - x) % 18446744073709551616 = 0 := by
  unfold int64 wrap64; omega

/-- `cumsumFrom` is the running sum -/
theorem cumsum_get (l : List Int) (acc : Int) (i : Nat) (h : i < l.length) :
    (cumsumFrom acc l)[i]? = some (acc + (l.take (i + 1)).sum) := by
  induction l generalizing acc i with
  | nil => simp at h
  | cons x xs ih =>
    cases i with
    | zero => simp [cumsumFrom]
    | succ j =>
      simp only [cumsumFrom, List.getElem?_cons_succ]
      rw [ih (acc + x) j (by simp at h; omega)]
      simp [Int.add_assoc]



/-- **C18.repr_logic_roundtrip_partial**: every text of the `repr` shape (what `float_to_strings`
writes for a finite double; the shape is checked on the real output on every run) is a numeral of the
grammar, and — exponent within int64 — the float parser's logic evaluates it to exactly the value it
denotes. So the logic of `str_to_float ∘ float_to_strings` is the identity on the denoted decimal; what
remains unproved is only the rounding of the parser's floating-point operations (≤ 4 ulps, corresponded)
and Python's guarantee that `repr(x)` denotes a decimal that rounds to `x`. -/
theorem repr_logic_roundtrip_partial (t : Bytes) (h : reprGrammar t = true)
    (hx : ∀ c, findByte 101 t = some c → ∀ x, specParse (t.drop (c + 1)) = some x → int64 x) :
    ∃ d, specFloat t = some d ∧ reprParse t = some d := by
  have hs : (specFloat t).isSome = true := by
    unfold reprGrammar at h
    simp only [Bool.and_eq_true] at h
    exact h.1
  obtain ⟨d, hd⟩ := Option.isSome_iff_exists.mp hs
  refine ⟨d, hd, ?_⟩
  unfold reprParse
  rw [if_pos h]
  exact float_logic_spec_partial t d hd hx

example : reprGrammar ("-1.5e-07".toList.map Char.toNat) = true ∧ reprGrammar ("0.1".toList.map Char.toNat) = true ∧
    reprGrammar ("1e+16".toList.map Char.toNat) = true ∧ reprGrammar ("+1.5".toList.map Char.toNat) = false ∧
    reprGrammar ("15".toList.map Char.toNat) = false ∧ reprGrammar ("1e5".toList.map Char.toNat) = false := by decide

/-- **C18.join_spec**: `join` is `intercalate` (and with `keep_last` every piece is followed by the
separator) — pins the driver op `join` -/
theorem join_spec (strs : List Bytes) (sep : Nat) :
    join strs sep false = List.intercalate [sep] strs ∧
    join strs sep true = (strs.map (· ++ [sep])).flatten := by
  constructor
  · simp only [join, Bool.false_eq_true, if_false, joinKeepLast]
    exact dropLast_joined strs sep
  · simp [join, joinKeepLast]


/-! ### the rule shipped before the repair is refuted (concrete witnesses, replayed on the code) -/

/-- `ints_to_strings([-2^63])` gave `'-2'`: `np.abs` wraps, `max(·,1) = 1`, `log10(1.0) = 0` exactly -/
theorem format_int_old_unsound_min (w : Int → Nat) (hw : w 1 = 1) :
    intsToStringsOld w [-9223372036854775808] = ["-2".toList.map Char.toNat] ∧
    intsToStringsOld w [-9223372036854775808] ≠ [decimal (-9223372036854775808)] := by
  have h : intsToStringsOld w [-9223372036854775808] = ["-2".toList.map Char.toNat] := by
    have e : max (wrap64 (((-9223372036854775808 : Int).natAbs : Nat) : Int)) 1 = 1 := by decide
    unfold intsToStringsOld
    simp only [List.map_cons, List.map_nil, e, hw]
    decide
  rw [h]
  exact ⟨rfl, by decide⟩

/-- `ints_to_strings([10^15-1])` gave a leading `'0'`: `float(10^15-1)` is exact and the correctly
rounded `log10` of it is `15.0`, so the float width is 16 (hypothesis `hw`; observed on the code) -/
theorem format_int_old_unsound_pow (w : Int → Nat) (hw : w 999999999999999 = 16) :
    intsToStringsOld w [999999999999999] = ["0999999999999999".toList.map Char.toNat] ∧
    intsToStringsOld w [999999999999999] ≠ [decimal 999999999999999] := by
  have h : intsToStringsOld w [999999999999999] = ["0999999999999999".toList.map Char.toNat] := by
    have e : max (wrap64 (((999999999999999 : Int).natAbs : Nat) : Int)) 1 = 999999999999999 := by decide
    unfold intsToStringsOld
    simp only [List.map_cons, List.map_nil, e, hw]
    decide
  rw [h]
  exact ⟨rfl, by decide⟩

end C18
