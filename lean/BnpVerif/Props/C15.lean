import BnpVerif.Model.C15
import BnpVerif.Props.C01
/-! C15 property theorems: the reported line number of a format violation does not depend on how
the entries are cut into chunks, and equals the global zero-based line. -/
namespace C15
open C01

/-! ### firstBad is compositional -/

theorem findIdx_append_good {α} (p : α → Bool) (g l : List α) (hg : ∀ a ∈ g, p a = false) :
    (g ++ l).findIdx p = g.length + l.findIdx p := by
  induction g with
  | nil => simp
  | cons x xs ih =>
    have hx : p x = false := hg x (by simp)
    simp only [List.cons_append, List.findIdx_cons, hx, cond_false, List.length_cons]
    rw [ih (fun a ha => hg a (by simp [ha]))]; omega

theorem firstBad_append_good {α} (p : α → Bool) (g l : List α) (hg : ∀ a ∈ g, p a = true) :
    firstBad p (g ++ l) = (firstBad p l).map (· + g.length) := by
  unfold firstBad
  have : (g ++ l).findIdx (fun a => !p a) = g.length + l.findIdx (fun a => !p a) :=
    findIdx_append_good _ g l (fun a ha => by simp [hg a ha])
  simp only [this, List.length_append]
  by_cases h : l.findIdx (fun a => !p a) < l.length
  · have h' : g.length + l.findIdx (fun a => !p a) < g.length + l.length := by omega
    simp [h, h']; omega
  · have h' : ¬ g.length + l.findIdx (fun a => !p a) < g.length + l.length := by omega
    simp [h, h']

theorem firstBad_all_good {α} (p : α → Bool) (g : List α) (hg : ∀ a ∈ g, p a = true) : firstBad p g = none := by
  have := firstBad_append_good p g [] hg
  simpa [firstBad] using this

theorem firstBad_append_right_good {α} (p : α → Bool) (l r : List α) (hr : ∀ a ∈ r, p a = true) :
    firstBad p (l ++ r) = firstBad p l := by
  induction l with
  | nil => simpa [firstBad] using firstBad_all_good p r hr
  | cons x xs ih =>
    unfold firstBad at ih ⊢
    simp only [List.cons_append, List.findIdx_cons, List.length_cons, List.length_append] at ih ⊢
    by_cases hx : p x = true
    · simp only [hx, Bool.not_true, cond_false]
      by_cases h1 : List.findIdx (fun a => !p a) (xs ++ r) < (xs ++ r).length
      · simp only [List.length_append] at h1
        simp only [h1, ↓reduceIte] at ih
        by_cases h2 : List.findIdx (fun a => !p a) xs < xs.length
        · simp only [h2, ↓reduceIte, Option.some.injEq] at ih
          have a1 : List.findIdx (fun a => !p a) (xs ++ r) + 1 < xs.length + r.length + 1 := by omega
          have a2 : List.findIdx (fun a => !p a) xs + 1 < xs.length + 1 := by omega
          have a3 : List.findIdx (fun a => !p a) xs < xs.length + r.length := by omega
          simp [a2, a3, ih]
        · simp [h2] at ih
      · simp only [List.length_append] at h1
        simp only [h1, ↓reduceIte] at ih
        by_cases h2 : List.findIdx (fun a => !p a) xs < xs.length
        · simp [h2] at ih
        · have a1 : ¬ List.findIdx (fun a => !p a) (xs ++ r) + 1 < xs.length + r.length + 1 := by omega
          have a2 : ¬ List.findIdx (fun a => !p a) xs + 1 < xs.length + 1 := by omega
          simp [a1, a2]
    · have hx' : p x = false := by simpa using hx
      simp [hx']

theorem firstBad_none_iff {α} (p : α → Bool) (l : List α) : firstBad p l = none ↔ ∀ a ∈ l, p a = true := by
  constructor
  · intro h
    induction l with
    | nil => intro a ha; simp at ha
    | cons x xs ih =>
      have hx : p x = true := by
        cases hp : p x with
        | true => rfl
        | false => simp [firstBad, hp, List.findIdx_cons] at h
      have := firstBad_append_good p [x] xs (by simp [hx])
      simp only [List.singleton_append] at this
      rw [this] at h
      have hxs : firstBad p xs = none := by cases hh : firstBad p xs <;> simp [hh] at h ⊢
      intro a ha
      rcases List.mem_cons.mp ha with rfl | ha
      · exact hx
      · exact ih hxs a ha
  · exact firstBad_all_good p l

/-- a list with an offending element splits at its FIRST offending element -/
theorem exists_first_bad {α} (p : α → Bool) (l : List α) (h : ¬ ∀ a ∈ l, p a = true) :
    ∃ good bad rest, l = good ++ bad :: rest ∧ (∀ a ∈ good, p a = true) ∧ p bad = false := by
  induction l with
  | nil => exact absurd (by simp) h
  | cons x xs ih =>
    cases hx : p x with
    | false => exact ⟨[], x, xs, rfl, by simp, hx⟩
    | true =>
      have : ¬ ∀ a ∈ xs, p a = true := fun hall => h (fun a ha => by
        rcases List.mem_cons.mp ha with rfl | ha
        · exact hx
        · exact hall a ha)
      obtain ⟨g, b, r, rfl, hg, hb⟩ := ih this
      exact ⟨x :: g, b, r, rfl, fun a ha => by
        rcases List.mem_cons.mp ha with rfl | ha
        · exact hx
        · exact hg a ha, hb⟩

/-! ### one chunk -/

/-- an entry passes both tests the format applies -/
def entryOK (marker : Nat) (checkPlus : Bool) (e : Entry) : Bool :=
  markerOK marker e && (!checkPlus || plusOK e)

theorem firstBad_cons {α} (p : α → Bool) (x : α) (xs : List α) :
    firstBad p (x :: xs) = if p x then (firstBad p xs).map (· + 1) else some 0 := by
  have := firstBad_append_good p [x] xs
  by_cases hx : p x = true
  · simp only [hx, ↓reduceIte]
    simpa using this (by simp [hx])
  · have hx' : p x = false := by simpa using hx
    simp [firstBad, hx', List.findIdx_cons]

theorem validateChunk_good (n marker : Nat) (cp : Bool) (g : List Entry)
    (hg : ∀ e ∈ g, entryOK marker cp e = true) : validateChunk n marker cp g = none := by
  unfold validateChunk
  have hm : ∀ e ∈ g, markerOK marker e = true := fun e he => by
    have := hg e he; unfold entryOK at this; simp at this; exact this.1
  rw [firstBad_all_good _ g hm]
  cases cp with
  | false => simp [minLine]
  | true =>
    have hp : ∀ e ∈ g, plusOK e = true := fun e he => by
      have := hg e he; unfold entryOK at this; simp at this; exact this.2
    simp [firstBad_all_good _ g hp, minLine]

theorem minLine_some_left (a : Nat) (b : Option Nat) : minLine (some a) b ≠ none := by
  cases b <;> simp [minLine]

theorem minLine_shift (a b : Option Nat) (d : Nat) :
    minLine (a.map (· + d)) (b.map (· + d)) = (minLine a b).map (· + d) := by
  cases a <;> cases b <;> simp [minLine]
  split <;> rfl

/-- good entries in front shift the reported local line by their number of lines -/
theorem validateChunk_shift (n marker : Nat) (cp : Bool) (g es : List Entry)
    (hg : ∀ e ∈ g, entryOK marker cp e = true) :
    validateChunk n marker cp (g ++ es) = (validateChunk n marker cp es).map (· + g.length * n) := by
  have hm : ∀ e ∈ g, markerOK marker e = true := fun e he => by
    have := hg e he; unfold entryOK at this; simp at this; exact this.1
  unfold validateChunk
  rw [firstBad_append_good _ g es hm, ← minLine_shift]
  congr 1
  · cases firstBad (markerOK marker) es <;> simp [Nat.add_mul]
  · cases cp with
    | false => simp
    | true =>
      have hp : ∀ e ∈ g, plusOK e = true := fun e he => by
        have := hg e he; unfold entryOK at this; simp at this; exact this.2
      simp only [↓reduceIte]
      rw [firstBad_append_good _ g es hp]
      cases firstBad plusOK es <;> simp [Nat.add_mul]; omega

/-- **the first offending entry decides**: whatever follows it in the chunk (valid or not), the
chunk is diagnosed at the line of its first offending entry. Needs `2 < n` when the `+` line is
checked (FASTQ: n = 4), so that the `+` line of an entry precedes the header of the next. -/
theorem validateChunk_first (n marker : Nat) (cp : Bool) (hn : cp = true → 2 < n) (bad : Entry) (o : Nat)
    (hbad : validateChunk n marker cp [bad] = some o) (rest : List Entry) :
    validateChunk n marker cp (bad :: rest) = some o := by
  unfold validateChunk at hbad ⊢
  simp only [firstBad_cons] at hbad ⊢
  have hnil : ∀ p : Entry → Bool, firstBad p [] = none := fun p => by simp [firstBad]
  simp only [hnil, Option.map_none] at hbad
  by_cases hm : markerOK marker bad = true
  · simp only [hm, ↓reduceIte, Option.map_none] at hbad ⊢
    cases cp with
    | false => simp [minLine] at hbad
    | true =>
      have h2 := hn rfl
      simp only [↓reduceIte] at hbad ⊢
      by_cases hp : plusOK bad = true
      · simp [hp, minLine] at hbad
      · have hp' : plusOK bad = false := by simpa using hp
        simp only [hp', Bool.false_eq_true, ↓reduceIte, Option.map_some, minLine] at hbad ⊢
        cases firstBad (markerOK marker) rest with
        | none => simpa [minLine] using hbad
        | some j =>
          simp only [Option.map_some, minLine, Nat.zero_mul, Nat.zero_add] at hbad ⊢
          have : 2 < (j + 1) * n := by rw [Nat.add_mul]; omega
          simp only [this, ↓reduceIte]; exact hbad
  · have hm' : markerOK marker bad = false := by simpa using hm
    simp only [hm', Bool.false_eq_true, ↓reduceIte, Option.map_some, Nat.zero_mul] at hbad ⊢
    cases cp with
    | false => simpa [minLine] using hbad
    | true =>
      simp only [↓reduceIte] at hbad ⊢
      by_cases hp : plusOK bad = true
      · simp only [hp, ↓reduceIte, Option.map_none, minLine] at hbad
        simp only [hp, ↓reduceIte]
        have ho : o = 0 := by simpa using hbad.symm
        cases firstBad plusOK rest <;> simp [minLine, ho]
      · have hp' : plusOK bad = false := by simpa using hp
        simp only [hp', Bool.false_eq_true, ↓reduceIte, Option.map_some, minLine] at hbad ⊢
        exact hbad

/-! ### every chunking reports the same, global, line -/

/-- **C15.line_number_kline** — FASTA/FASTQ-style formats. Let the entries of the data be
`good ++ bad :: rest` where every entry of `good` is valid, `bad` alone is diagnosed at local line
`o`, and `rest` is ARBITRARY (it may hold further violations of any class). Then for EVERY way `cs`
of cutting the entries into consecutive chunks (this is what every chunk size / mode produces, by
C01), the read reports exactly line `(number of entries before bad)·n + o`, counted from the start
of the data (`L = 0`): the line of the FIRST offending record, independent of the chunking. -/
theorem line_number_kline (n marker : Nat) (cp : Bool) (hn : cp = true → 2 < n) (bad : Entry) (o : Nat)
    (hbad : validateChunk n marker cp [bad] = some o) :
    ∀ (cs : List (List Entry)) (good rest : List Entry) (L : Nat),
      cs.flatten = good ++ bad :: rest →
      (∀ e ∈ good, entryOK marker cp e = true) →
      reported n marker cp L cs = some (L + good.length * n + o) := by
  intro cs
  induction cs with
  | nil => intro good rest L h; simp at h
  | cons c cs ih =>
    intro good rest L hflat hgood
    simp only [List.flatten_cons] at hflat
    rcases List.append_eq_append_iff.mp hflat with ⟨a', h1, h2⟩ | ⟨c', h1, h2⟩
    · -- c is a prefix of good: good = c ++ a'
      have hc : ∀ e ∈ c, entryOK marker cp e = true := fun e he => hgood e (by rw [h1]; simp [he])
      unfold reported
      rw [validateChunk_good n marker cp c hc]
      simp only
      have := ih a' rest (L + c.length * n) h2 (fun e he => hgood e (by rw [h1]; simp [he]))
      rw [this, h1]; simp [Nat.add_mul]; omega
    · -- c = good ++ c', c' ++ cs.flatten = bad :: rest
      cases c' with
      | nil =>
        -- c = good exactly; continue with good := []
        simp only [List.append_nil] at h1
        simp only [List.nil_append] at h2
        have hc : ∀ e ∈ c, entryOK marker cp e = true := fun e he => hgood e (by rw [← h1]; exact he)
        unfold reported
        rw [validateChunk_good n marker cp c hc]
        simp only
        have := ih [] rest (L + c.length * n) (by simpa using h2.symm) (by simp)
        rw [this, h1]; simp
      | cons b r1 =>
        simp only [List.cons_append, List.cons.injEq] at h2
        obtain ⟨hb, _⟩ := h2
        unfold reported
        rw [h1, validateChunk_shift n marker cp good (b :: r1) hgood]
        have : validateChunk n marker cp (b :: r1) = some o := by
          rw [← hb]; exact validateChunk_first n marker cp hn bad o hbad r1
        rw [this]; simp; omega

/-- a read completes exactly when every entry is valid: a file with ANY violation never yields a
table, whatever the chunking; a valid file never raises -/
theorem reported_none_iff (n marker : Nat) (cp : Bool) :
    ∀ (cs : List (List Entry)) (L : Nat),
      reported n marker cp L cs = none ↔ ∀ e ∈ cs.flatten, entryOK marker cp e = true := by
  intro cs
  induction cs with
  | nil => intro L; simp [reported]
  | cons c cs ih =>
    intro L
    unfold reported
    cases hv : validateChunk n marker cp c with
    | some l =>
      simp only [reduceCtorEq, List.flatten_cons, List.mem_append, false_iff]
      intro hall
      have := validateChunk_good n marker cp c (fun e he => hall e (Or.inl he))
      rw [hv] at this; cases this
    | none =>
      simp only [ih, List.flatten_cons, List.mem_append]
      constructor
      · intro h e he
        rcases he with he | he
        · -- every entry of c is valid, else validateChunk would not be none
          unfold validateChunk at hv
          have hm : firstBad (markerOK marker) c = none := by
            cases hfb : firstBad (markerOK marker) c with
            | none => rfl
            | some i => rw [hfb] at hv; exact absurd hv (minLine_some_left _ _)
          have hmk := (firstBad_none_iff (markerOK marker) c).mp hm e he
          cases cp with
          | false => simp [entryOK, hmk]
          | true =>
            rw [hm] at hv
            simp only [Option.map_none, ↓reduceIte, minLine] at hv
            have hp : firstBad plusOK c = none := by
              cases hfb : firstBad plusOK c with
              | none => rfl
              | some i => rw [hfb] at hv; simp at hv
            have := (firstBad_none_iff plusOK c).mp hp e he
            simp [entryOK, hmk, this]
        · exact h e he
      · intro h e he; exact h e (Or.inr he)

/-- **C15.readValidate_line** — end to end over the C01 reader model: a FASTQ / two-line FASTA
file whose entries are `good ++ bad :: rest` (`good` valid, `bad` the first offending record,
diagnosed at local line `o`; `rest` arbitrary) is reported at line `good.length·n + o` for EVERY
chunk size `k ≥ 1` and both reader modes. -/
theorem readValidate_line (n : Nat) (hn : 0 < n) (marker : Nat) (cp : Bool) (hcp : cp = true → 2 < n)
    (mode : Mode) (file : Bytes)
    (hwf : n ∣ countNL (norm file)) (k : Nat) (hk : 0 < k) (good rest : List Entry) (bad : Entry) (o : Nat)
    (hE : entriesK n (norm file) = good ++ bad :: rest)
    (hgood : ∀ e ∈ good, entryOK marker cp e = true)
    (hbad : validateChunk n marker cp [bad] = some o) :
    readValidate n marker cp mode file k = some (good.length * n + o) := by
  unfold readValidate
  have hflat := entries_chunks_kLine n hn mode file hwf k hk
  have := line_number_kline n marker cp hcp bad o hbad
    ((readAll (Fmt.kLine n) true mode file k).map (entriesOf n)) good rest 0
    (by unfold entriesOf; rw [hflat, hE]) hgood
  simpa using this

/-- a valid file is read without error, and a file with any violation raises, for every chunk size -/
theorem readValidate_none_iff (n : Nat) (hn : 0 < n) (marker : Nat) (cp : Bool) (mode : Mode) (file : Bytes)
    (hwf : n ∣ countNL (norm file)) (k : Nat) (hk : 0 < k) :
    readValidate n marker cp mode file k = none ↔ ∀ e ∈ entriesK n (norm file), entryOK marker cp e = true := by
  unfold readValidate
  rw [reported_none_iff]
  have hflat := entries_chunks_kLine n hn mode file hwf k hk
  unfold entriesOf
  rw [hflat]

/-- **C15.chunk_size_independent** — the outcome of reading a FASTA/FASTQ-style file (success, or the
reported line) is the same for every two chunk sizes and reader modes, whatever the file contains
(any number of violations of any class). -/
theorem chunk_size_independent (n : Nat) (hn : 0 < n) (marker : Nat) (cp : Bool) (hcp : cp = true → 2 < n)
    (file : Bytes) (hwf : n ∣ countNL (norm file)) (m₁ m₂ : Mode) (k₁ k₂ : Nat) (h₁ : 0 < k₁) (h₂ : 0 < k₂) :
    readValidate n marker cp m₁ file k₁ = readValidate n marker cp m₂ file k₂ := by
  by_cases hall : ∀ e ∈ entriesK n (norm file), entryOK marker cp e = true
  · rw [(readValidate_none_iff n hn marker cp m₁ file hwf k₁ h₁).mpr hall,
        (readValidate_none_iff n hn marker cp m₂ file hwf k₂ h₂).mpr hall]
  · obtain ⟨good, bad, rest, hE, hgood, hb⟩ := exists_first_bad (entryOK marker cp) (entriesK n (norm file)) hall
    obtain ⟨o, ho⟩ : ∃ o, validateChunk n marker cp [bad] = some o := by
      cases hv : validateChunk n marker cp [bad] with
      | some o => exact ⟨o, rfl⟩
      | none =>
        have := (reported_none_iff n marker cp [[bad]] 0).mp (by simp [reported, hv])
        exact absurd (this bad (by simp)) (by simpa using hb)
    rw [readValidate_line n hn marker cp hcp m₁ file hwf k₁ h₁ good rest bad o hE hgood ho,
        readValidate_line n hn marker cp hcp m₂ file hwf k₂ h₂ good rest bad o hE hgood ho]

/-- the code before the repair was chunk-size dependent: records `[bad '+', bad header]` in one
chunk reported line 4, in two chunks line 2; the repaired rule reports 2 both ways -/
theorem validateOld_chunk_dependent :
    let e0 : Entry := [[64, 97], [65], [45], [73]]     -- @a / A / - / I   (third line is not '+')
    let e1 : Entry := [[88, 98], [65], [43], [73]]     -- Xb / A / + / I   (header marker wrong)
    reportedOld 4 64 true 0 [[e0, e1]] = some 4 ∧ reportedOld 4 64 true 0 [[e0], [e1]] = some 2 ∧
    reported 4 64 true 0 [[e0, e1]] = some 2 ∧ reported 4 64 true 0 [[e0], [e1]] = some 2 := by
  decide

/-! ### delimited columns -/

theorem rowOfOffsetMatrix_spec (w i j : Nat) (hj : j < w) : rowOfOffsetMatrix w (i * w + j) = i := by
  unfold rowOfOffsetMatrix
  have hw : 0 < w := by omega
  rw [Nat.add_comm, Nat.add_mul_div_right _ _ hw, Nat.div_eq_of_lt hj]; omega

theorem cumsum_ge (x : Nat) (l : List Nat) : ∀ c ∈ (cumsum l).map (· + x), x ≤ c := by
  intro c hc
  simp only [List.mem_map] at hc
  obtain ⟨a, _, rfl⟩ := hc; omega

/-- the ragged formula finds the row that contains the offending flat offset, whatever the row
lengths (zero-length rows included) -/
theorem rowOfOffsetRagged_spec (pre : List Nat) (len : Nat) (post : List Nat) (j : Nat) (hj : j < len) :
    rowOfOffsetRagged (pre ++ len :: post) (pre.sum + j) = pre.length := by
  unfold rowOfOffsetRagged
  induction pre generalizing j with
  | nil =>
    simp only [List.nil_append, cumsum, List.sum_nil, Nat.zero_add, List.length_nil]
    rw [List.countP_cons]
    have h1 : ¬ len ≤ j := by omega
    simp only [h1, decide_false, Bool.false_eq_true, ↓reduceIte, Nat.add_zero]
    apply List.countP_eq_zero.mpr
    intro c hc
    have := cumsum_ge len post c hc
    simp; omega
  | cons x xs ih =>
    have hs : (x :: xs).sum + j = x + (xs.sum + j) := by simp [List.sum_cons]; omega
    rw [hs]
    simp only [List.cons_append, cumsum, List.length_cons]
    rw [List.countP_cons, List.countP_map]
    have h1 : x ≤ x + (xs.sum + j) := by omega
    simp only [h1, decide_true, ↓reduceIte]
    rw [← ih j hj]
    congr 1
    apply List.countP_congr
    intro c _
    simp only [Function.comp, decide_eq_true_eq]
    omega

/-- **C15.line_number_delimited** — rows `good ++ false :: rest` (first offending row after
`good.length` parsable rows) cut into chunks in any way: the reported row is `good.length`. -/
theorem line_number_delimited :
    ∀ (cs : List (List Bool)) (good rest : List Bool) (L : Nat),
      cs.flatten = good ++ false :: rest → (∀ b ∈ good, b = true) →
      reportedRows L cs = some (L + good.length) := by
  intro cs
  induction cs with
  | nil => intro good rest L h; simp at h
  | cons c cs ih =>
    intro good rest L hflat hgood
    simp only [List.flatten_cons] at hflat
    rcases List.append_eq_append_iff.mp hflat with ⟨a', h1, h2⟩ | ⟨c', h1, h2⟩
    · have hc : ∀ b ∈ c, id b = true := fun b hb => hgood b (by rw [h1]; simp [hb])
      unfold reportedRows
      rw [firstBad_all_good id c hc]
      simp only
      rw [ih a' rest (L + c.length) h2 (fun b hb => hgood b (by rw [h1]; simp [hb])), h1]
      simp; omega
    · cases c' with
      | nil =>
        simp only [List.append_nil] at h1
        simp only [List.nil_append] at h2
        have hc : ∀ b ∈ c, id b = true := fun b hb => hgood b (by rw [← h1]; exact hb)
        unfold reportedRows
        rw [firstBad_all_good id c hc]
        simp only
        rw [ih [] rest (L + c.length) (by simpa using h2.symm) (by simp), h1]; simp
      | cons b r1 =>
        simp only [List.cons_append, List.cons.injEq] at h2
        unfold reportedRows
        rw [h1, firstBad_append_good id good (b :: r1) (fun b hb => by simpa using hgood b hb)]
        have : firstBad id (b :: r1) = some 0 := by
          rw [← h2.1]; simp [firstBad, List.findIdx_cons]
        rw [this]; simp

/-! ### column counts -/

theorem firstIrregular_regular (n : Nat) (c : List Nat) (h : ∀ x ∈ c, x = n) : firstIrregular c = none := by
  cases c with
  | nil => rfl
  | cons y ys =>
    unfold firstIrregular
    apply firstBad_all_good
    intro a ha
    have h1 := h a ha
    have h2 := h y (by simp)
    simp [h1, h2]

/-- **C15.line_number_cols** — lines `good ++ b :: rest` where every `good` line has `n` columns and `b`
has a different number. For EVERY chunking in which each chunk starts with an `n`-column line (the
offending line is not the first line of its buffer — the library infers the column count per
buffer) the reported line is `good.length`. The excluded chunkings are the recorded known finding. -/
theorem line_number_cols (n b : Nat) (hb : b ≠ n) :
    ∀ (cs : List (List Nat)) (good rest : List Nat) (L : Nat),
      cs.flatten = good ++ b :: rest → (∀ x ∈ good, x = n) →
      (∀ c ∈ cs, c = [] ∨ c.head? = some n) →
      reportedCols L cs = some (L + good.length) := by
  intro cs
  induction cs with
  | nil => intro good rest L h; simp at h
  | cons c cs ih =>
    intro good rest L hflat hgood hhead
    simp only [List.flatten_cons] at hflat
    rcases List.append_eq_append_iff.mp hflat with ⟨a', h1, h2⟩ | ⟨c', h1, h2⟩
    · have hc : ∀ x ∈ c, x = n := fun x hx => hgood x (by rw [h1]; simp [hx])
      unfold reportedCols
      rw [firstIrregular_regular n c hc]
      simp only
      rw [ih a' rest (L + c.length) h2 (fun x hx => hgood x (by rw [h1]; simp [hx]))
        (fun c' hc' => hhead c' (by simp [hc'])), h1]
      simp; omega
    · cases c' with
      | nil =>
        simp only [List.append_nil] at h1
        simp only [List.nil_append] at h2
        have hc : ∀ x ∈ c, x = n := fun x hx => hgood x (by rw [← h1]; exact hx)
        unfold reportedCols
        rw [firstIrregular_regular n c hc]
        simp only
        rw [ih [] rest (L + c.length) (by simpa using h2.symm) (by simp)
          (fun c' hc' => hhead c' (by simp [hc'])), h1]
        simp
      | cons y r1 =>
        simp only [List.cons_append, List.cons.injEq] at h2
        have hy : y = b := h2.1.symm
        have hch := hhead c (by simp)
        unfold reportedCols
        rw [h1] at hch ⊢
        cases good with
        | nil =>
          -- the offending line would be first in its chunk: excluded by the hypothesis
          rcases hch with h0 | h0
          · simp at h0
          · simp at h0; exact absurd (hy ▸ h0) hb
        | cons g gs =>
          have hg : g = n := hgood g (by simp)
          have : firstIrregular ((g :: gs) ++ y :: r1) = some (g :: gs).length := by
            unfold firstIrregular
            simp only [List.cons_append]
            rw [show g :: (gs ++ y :: r1) = (g :: gs) ++ y :: r1 from rfl,
              firstBad_append_good _ (g :: gs) (y :: r1) (fun a ha => by
                have := hgood a ha; simp [this, hg])]
            have : firstBad (fun x => x == g) (y :: r1) = some 0 := by
              have hne : (y == g) = false := by simp [hy, hg, hb]
              simp [firstBad, List.findIdx_cons, hne]
            rw [this]; simp
          rw [this]

/-! ### non-vacuity -/
example : reportedCols 0 [[3, 3], [3, 2, 4, 3]] = some 3 := by decide
example : validateChunk 4 64 true [[[88, 97], [65], [43], [73]]] = some 0 := by decide
example : validateChunk 4 64 true [[[64, 97], [65], [45], [73]]] = some 2 := by decide
example : reported 4 64 true 0 [[[[64, 97], [65], [43], [73]]], [[[64, 98], [67], [45], [73]]]] = some 6 := by decide

end C15

namespace C15
open C01

theorem splitBy_flatten {α} : ∀ (sizes : List Nat) (l : List α), sizes.sum = l.length → (splitBy sizes l).flatten = l := by
  intro sizes
  induction sizes with
  | nil => intro l h; simp at h; simp [splitBy, List.length_eq_zero_iff.mp h.symm]
  | cons n ns ih =>
    intro l h
    simp only [List.sum_cons] at h
    simp only [splitBy, List.flatten_cons]
    rw [ih (l.drop n) (by simp; omega)]
    exact List.take_append_drop n l

theorem countNL_flatten (cs : List Bytes) : countNL cs.flatten = (cs.map countNL).sum := by
  induction cs with
  | nil => rfl
  | cons c cs ih => simp [countNL, List.count_append] at ih ⊢; omega

/-- **C15.readValidateRows_line** — delimited formats end to end over the C01 reader model: for EVERY
file (any bytes), every chunk size `k ≥ 1`, both reader modes and every pattern of parsing / non-parsing
rows `flags = good ++ false :: rest` (`good` all parse, `rest` arbitrary), the reported line is
`good.length`: the first offending row counted from the start of the data. -/
theorem readValidateRows_line (mode : Mode) (file : Bytes) (k : Nat) (hk : 0 < k)
    (good rest : List Bool) (hgood : ∀ b ∈ good, b = true)
    (hlen : (good ++ false :: rest).length = countNL (norm file)) :
    readValidateRows (good ++ false :: rest) mode file k = some good.length := by
  unfold readValidateRows
  have h := readAll_bytes_kLine 1 (by omega) mode file (Nat.one_dvd _) k hk
  have hsum : ((readAll (Fmt.kLine 1) true mode file k).map countNL).sum = (good ++ false :: rest).length := by
    rw [← countNL_flatten, h.1, hlen]
  have := line_number_delimited _ good rest 0 (splitBy_flatten _ _ hsum) hgood
  simpa using this

end C15

namespace C15
open C01

theorem reportedRows_none_iff : ∀ (cs : List (List Bool)) (L : Nat),
    reportedRows L cs = none ↔ ∀ b ∈ cs.flatten, b = true := by
  intro cs
  induction cs with
  | nil => intro L; simp [reportedRows]
  | cons c cs ih =>
    intro L
    unfold reportedRows
    cases hfb : firstBad id c with
    | some i =>
      simp only [reduceCtorEq, List.flatten_cons, List.mem_append, false_iff]
      intro hall
      have := firstBad_all_good id c (fun b hb => by simpa using hall b (Or.inl hb))
      rw [hfb] at this; cases this
    | none =>
      have hc := (firstBad_none_iff id c).mp hfb
      simp only [ih, List.flatten_cons, List.mem_append]
      constructor
      · intro h b hb
        rcases hb with hb | hb
        · simpa using hc b hb
        · exact h b hb
      · intro h b hb; exact h b (Or.inr hb)

/-- a delimited file is read without a parse error exactly when every row parses — for every chunk size -/
theorem readValidateRows_none_iff (flags : List Bool) (mode : Mode) (file : Bytes) (k : Nat) (hk : 0 < k)
    (hlen : flags.length = countNL (norm file)) :
    readValidateRows flags mode file k = none ↔ ∀ b ∈ flags, b = true := by
  unfold readValidateRows
  have h := readAll_bytes_kLine 1 (by omega) mode file (Nat.one_dvd _) k hk
  have hsum : ((readAll (Fmt.kLine 1) true mode file k).map countNL).sum = flags.length := by
    rw [← countNL_flatten, h.1, hlen]
  rw [reportedRows_none_iff, splitBy_flatten _ _ hsum]

/-- **C15.rows_chunk_size_independent** — for every delimited file and every pattern of parsing rows, the
outcome (success or the reported row) is the same for any two chunk sizes and reader modes. -/
theorem rows_chunk_size_independent (flags : List Bool) (file : Bytes) (hlen : flags.length = countNL (norm file))
    (m₁ m₂ : Mode) (k₁ k₂ : Nat) (h₁ : 0 < k₁) (h₂ : 0 < k₂) :
    readValidateRows flags m₁ file k₁ = readValidateRows flags m₂ file k₂ := by
  by_cases hall : ∀ b ∈ flags, id b = true
  · have hall' : ∀ b ∈ flags, b = true := fun b hb => by simpa using hall b hb
    rw [(readValidateRows_none_iff flags m₁ file k₁ h₁ hlen).mpr hall',
        (readValidateRows_none_iff flags m₂ file k₂ h₂ hlen).mpr hall']
  · obtain ⟨good, bad, rest, hE, hgood, hb⟩ := exists_first_bad id flags hall
    have hbf : bad = false := by simpa using hb
    subst hbf
    have hg : ∀ b ∈ good, b = true := fun b hb' => by simpa using hgood b hb'
    rw [hE] at hlen ⊢
    rw [readValidateRows_line m₁ file k₁ h₁ good rest hg hlen, readValidateRows_line m₂ file k₂ h₂ good rest hg hlen]

example : readValidateRows [true, false, true] .seek [97, 10, 98, 10, 99] 2 = some 1 ∧
    readValidateRows [true, false, true] .carry [97, 10, 98, 10, 99] 100 = some 1 := by decide

end C15

namespace C15
open C01

/-! ### the column-count test and the value parsing together (`readValidateDelim`, what the driver runs) -/

theorem reportedBoth_splitBy_false : ∀ (sizes : List Nat) (cols : List Nat) (flags : List Bool) (L : Nat),
    cols.length = flags.length →
    reportedBoth false L (splitBy sizes cols) (splitBy sizes flags) = reportedRows L (splitBy sizes flags) := by
  intro sizes
  induction sizes with
  | nil => intro cols flags L _; simp [splitBy, reportedBoth, reportedRows]
  | cons n ns ih =>
    intro cols flags L hlen
    simp only [splitBy, reportedBoth, reportedRows]
    cases firstBad id (flags.take n) with
    | some i => simp
    | none =>
      simp only [Bool.false_eq_true, ↓reduceIte]
      have h1 : (cols.take n).length = (flags.take n).length := by simp [hlen]
      rw [h1]
      exact ih (cols.drop n) (flags.drop n) _ (by simp [hlen])

/-- formats without a column-count test (SAM): the driver's function is `readValidateRows` -/
theorem readValidateDelim_nocheck (cols : List Nat) (flags : List Bool) (h : cols.length = flags.length)
    (mode : Mode) (file : Bytes) (k : Nat) :
    readValidateDelim false cols flags mode file k = readValidateRows flags mode file k := by
  unfold readValidateDelim readValidateRows
  exact reportedBoth_splitBy_false _ cols flags 0 h

theorem firstIrregular_of_all (n : Nat) (c : List Nat) (h : ∀ x ∈ c, x = n) : firstIrregular c = none :=
  firstIrregular_regular n c h

theorem reportedBoth_splitBy_regular (n : Nat) : ∀ (sizes : List Nat) (cols : List Nat) (flags : List Bool) (L : Nat),
    cols.length = flags.length → (∀ x ∈ cols, x = n) →
    reportedBoth true L (splitBy sizes cols) (splitBy sizes flags) = reportedRows L (splitBy sizes flags) := by
  intro sizes
  induction sizes with
  | nil => intro cols flags L _ _; simp [splitBy, reportedBoth, reportedRows]
  | cons m ns ih =>
    intro cols flags L hlen hreg
    simp only [splitBy, reportedBoth, reportedRows, ↓reduceIte]
    rw [firstIrregular_regular n (cols.take m) (fun x hx => hreg x (List.mem_of_mem_take hx))]
    cases firstBad id (flags.take m) with
    | some i => simp
    | none =>
      simp only
      have h1 : (cols.take m).length = (flags.take m).length := by simp [hlen]
      rw [h1]
      exact ih (cols.drop m) (flags.drop m) _ (by simp [hlen]) (fun x hx => hreg x (List.mem_of_mem_drop hx))

/-- **C15.readValidateDelim_regular** — what the driver runs for BED/VCF/GTF/…: when every line has the
same number of columns the column-count test is silent for every chunking, so the reported line is the
first row that does not parse (`readValidateRows_line`), for every chunk size and mode. -/
theorem readValidateDelim_regular (n : Nat) (cols : List Nat) (flags : List Bool) (h : cols.length = flags.length)
    (hreg : ∀ x ∈ cols, x = n) (mode : Mode) (file : Bytes) (k : Nat) :
    readValidateDelim true cols flags mode file k = readValidateRows flags mode file k := by
  unfold readValidateDelim readValidateRows
  exact reportedBoth_splitBy_regular n _ cols flags 0 h hreg

/-! ### the three layers that add the chunk's offset (reader, table reader, lazy field getter) -/

theorem readLazy_length (L : Nat) (cs : List (List Bool)) : (readLazy L cs).length = cs.length := by
  induction cs generalizing L with
  | nil => rfl
  | cons c cs ih => simp [readLazy, ih]

/-- **C15.lazy_access_any_time** — whenever the `i`-th lazily read chunk is looked at (in whatever order,
after however many later reads), its first non-parsing row is reported at (lines of all earlier chunks)
+ (row within the chunk): the offset is the chunk's own, not the reader's current one. -/
theorem lazy_access_any_time : ∀ (cs : List (List Bool)) (L i : Nat) (hi : i < cs.length),
    ((readLazy L cs)[i]?).bind accessLazy = (firstBad id cs[i]).map (· + (L + (cs.take i).flatten.length)) := by
  intro cs
  induction cs with
  | nil => intro L i hi; simp at hi
  | cons c cs ih =>
    intro L i hi
    cases i with
    | zero => simp [readLazy, accessLazy]
    | succ i =>
      simp only [readLazy, List.getElem?_cons_succ, List.getElem_cons_succ, List.take_succ_cons, List.flatten_cons, List.length_append]
      rw [ih (L + c.length) i (by simpa using hi)]
      congr 1; funext x; omega

/-- **C15.lazy_eq_eager** — looking at the lazily read chunks in file order reports exactly what eager
reading reports (the first non-parsing row of the file, counted from the start of the data). -/
theorem lazy_eq_eager : ∀ (cs : List (List Bool)) (L : Nat),
    (readLazy L cs).findSome? accessLazy = reportedRows L cs := by
  intro cs
  induction cs with
  | nil => intro L; rfl
  | cons c cs ih =>
    intro L
    simp only [readLazy, List.findSome?_cons, accessLazy, reportedRows]
    cases firstBad id c with
    | some i => simp [Nat.add_comm]
    | none => simp [ih]

example : ((readLazy 0 [[true, true], [true, false, true], [false]])[1]?).bind accessLazy = some 3 := by decide

end C15

/-! ### from the flat offset of a rejected character to the row (the whole path of a value error) -/
namespace C15
open C01

theorem firstBad_at_split {α} (p : α → Bool) (good rest : List α) (bad : α) (hg : ∀ a ∈ good, p a = true) (hb : p bad = false) :
    firstBad p (good ++ bad :: rest) = some good.length := by
  rw [firstBad_append_good p good _ hg, firstBad_cons]
  simp [hb]

theorem firstBad_some_split {α} (p : α → Bool) (l : List α) (i : Nat) (h : firstBad p l = some i) :
    ∃ good bad rest, l = good ++ bad :: rest ∧ (∀ a ∈ good, p a = true) ∧ p bad = false ∧ i = good.length := by
  have hne : ¬ ∀ a ∈ l, p a = true := fun hall => by
    rw [firstBad_all_good p l hall] at h; cases h
  obtain ⟨good, bad, rest, hE, hg, hb⟩ := exists_first_bad p l hne
  refine ⟨good, bad, rest, hE, hg, hb, ?_⟩
  rw [hE, firstBad_at_split p good rest bad hg hb] at h
  exact (Option.some.inj h).symm

theorem sum_map_length_flatten {α} (l : List (List α)) : (l.map List.length).sum = l.flatten.length := by
  induction l with
  | nil => rfl
  | cons x xs ih => simp only [List.map_cons, List.sum_cons, List.flatten_cons, List.length_append, ih]

/-- **C15.offset_to_first_bad_row** — the whole path of a value error in a text column: the column's rows
are encoded as ONE flat array, the encoder reports the flat offset of the first character that is not
accepted, and `np.searchsorted(np.cumsum(lengths), offset, side="right")` turns it into a row. For every list
of rows (empty rows included) and every character predicate: that row is the first row containing a
rejected character. -/
theorem offset_to_first_bad_row (ok : Nat → Bool) (rows : List Bytes) (i : Nat)
    (hfb : firstBad (fun r => r.all ok) rows = some i) :
    ∃ off, firstBad ok rows.flatten = some off ∧ rowOfOffsetRagged (rows.map List.length) off = i := by
  obtain ⟨good, bad, rest, hE, hg, hb, hi⟩ := firstBad_some_split _ rows i hfb
  -- the first rejected character inside the first bad row
  have hbad : ¬ ∀ c ∈ bad, ok c = true := fun hall => by
    have : bad.all ok = true := List.all_eq_true.mpr hall
    simp [this] at hb
  obtain ⟨pre, c, post, hB, hpre, hc⟩ := exists_first_bad ok bad hbad
  have hgoodflat : ∀ c ∈ good.flatten, ok c = true := by
    intro x hx
    obtain ⟨r, hr, hxr⟩ := List.mem_flatten.mp hx
    exact (List.all_eq_true.mp (hg r hr)) x hxr
  refine ⟨good.flatten.length + pre.length, ?_, ?_⟩
  · rw [hE, List.flatten_append, List.flatten_cons, hB]
    have : good.flatten ++ ((pre ++ c :: post) ++ rest.flatten) = (good.flatten ++ pre) ++ c :: (post ++ rest.flatten) := by simp
    rw [this, firstBad_at_split ok (good.flatten ++ pre) (post ++ rest.flatten) c
      (fun a ha => by rcases List.mem_append.mp ha with h | h; exact hgoodflat a h; exact hpre a h) hc]
    simp
  · rw [hE, List.map_append, List.map_cons, ← sum_map_length_flatten good]
    rw [rowOfOffsetRagged_spec (good.map List.length) bad.length (rest.map List.length) pre.length (by rw [hB]; simp)]
    simp [hi]

example : firstBad (fun r => r.all (fun c => decide (c < 58))) [[49, 50], [], [51, 120, 52], [120]] = some 2 ∧
    firstBad (fun c => decide (c < 58)) [[49, 50], [], [51, 120, 52], [120]].flatten = some 3 ∧
    rowOfOffsetRagged [2, 0, 3, 1] 3 = 2 := by decide

/-! ### a truncated last record: the end-of-file test (fix a0fa304) -/

/-- the reported line depends only on the sequence of entries, not on how it is cut into chunks -/
theorem reported_flatten_invariant (n marker : Nat) (cp : Bool) (hcp : cp = true → 2 < n)
    (cs₁ cs₂ : List (List Entry)) (h : cs₁.flatten = cs₂.flatten) (L : Nat) :
    reported n marker cp L cs₁ = reported n marker cp L cs₂ := by
  by_cases hall : ∀ e ∈ cs₁.flatten, entryOK marker cp e = true
  · rw [(reported_none_iff n marker cp cs₁ L).mpr hall, (reported_none_iff n marker cp cs₂ L).mpr (h ▸ hall)]
  · obtain ⟨good, bad, rest, hE, hgood, hb⟩ := exists_first_bad (entryOK marker cp) cs₁.flatten hall
    obtain ⟨o, ho⟩ : ∃ o, validateChunk n marker cp [bad] = some o := by
      cases hv : validateChunk n marker cp [bad] with
      | some o => exact ⟨o, rfl⟩
      | none =>
        have := (reported_none_iff n marker cp [[bad]] 0).mp (by simp [reported, hv])
        exact absurd (this bad (by simp)) (by simpa using hb)
    rw [line_number_kline n marker cp hcp bad o ho cs₁ good rest L hE hgood,
        line_number_kline n marker cp hcp bad o ho cs₂ good rest L (h ▸ hE) hgood]

theorem reported_single (n marker : Nat) (cp : Bool) (es : List Entry) :
    reported n marker cp 0 [es] = validateChunk n marker cp es := by
  unfold reported
  cases validateChunk n marker cp es with
  | some l => simp
  | none => simp [reported]

/-- a file whose line count is a whole number of records leaves nothing behind -/
theorem leftover_wf (n : Nat) (hn : 0 < n) (mode : Mode) (file : Bytes) (hwf : n ∣ countNL (norm file))
    (k : Nat) (hk : 0 < k) : leftoverOf n mode file k = [] := by
  unfold leftoverOf
  rw [(readAll_bytes_kLine n hn mode file hwf k hk).1]
  simp

/-- **C15.readValidateT_wf** — on files made of whole records the end-of-file test never fires: the repaired reader
behaves exactly like the reader the other theorems are about. -/
theorem readValidateT_wf (n : Nat) (hn : 0 < n) (marker : Nat) (cp : Bool) (mode : Mode) (file : Bytes)
    (hwf : n ∣ countNL (norm file)) (k : Nat) (hk : 0 < k) :
    readValidateT n marker cp mode file k = readValidate n marker cp mode file k := by
  unfold readValidateT
  rw [leftover_wf n hn mode file hwf k hk]
  cases readValidate n marker cp mode file k <;> simp [isBlank]

/-- **C15.truncated_never_table** — whenever bytes other than line ends are left after the last delivered record,
chunked reading does not complete: either a violation in the complete records is reported, or the truncated record
is, at the line where it starts (= the number of lines delivered). For every chunk size and mode; no hypothesis on
the file. -/
theorem truncated_never_table (n marker : Nat) (cp : Bool) (mode : Mode) (file : Bytes) (k : Nat)
    (hleft : isBlank (leftoverOf n mode file k) = false) :
    readValidateT n marker cp mode file k ≠ none ∧
    (readValidate n marker cp mode file k = none →
      readValidateT n marker cp mode file k = some (countNL (readAll (Fmt.kLine n) true mode file k).flatten)) := by
  unfold readValidateT
  cases readValidate n marker cp mode file k with
  | some l => simp
  | none => simp [hleft]

/-- what `f.read()` delivers of a file with at least one record holds the largest whole number of records -/
theorem whole_delivered_lines (n : Nat) (hn : 0 < n) (c : Bytes) (hc : n ≤ countNL c) :
    countNL (c.take ((Fmt.kLine n).cutLen c)) = countNL c - countNL c % n := by
  have hm := mult_facts n (countNL c) hn hc
  exact (prefix_spec c _ hm.1 hm.2.1).2.2.2

/-- **C15.whole_truncated** — `f.read()` of a file that ends inside a record (bytes other than line ends after the
last complete record) whose complete records are all valid: the error names line `⌊lines / n⌋ · n`, the first line
of the truncated record. -/
theorem whole_truncated (n : Nat) (hn : 0 < n) (marker : Nat) (cp : Bool) (file : Bytes)
    (hc : n ≤ countNL (norm file))
    (hleft : isBlank ((norm file).drop ((Fmt.kLine n).cutLen (norm file))) = false)
    (hgood : validateChunk n marker cp (entriesOf n ((norm file).take ((Fmt.kLine n).cutLen (norm file)))) = none) :
    wholeValidateT n marker cp file = .ok (some (countNL (norm file) / n * n)) := by
  have hne : (norm file).isEmpty = false := by
    cases h : norm file with
    | nil => rw [h] at hc; simp [countNL] at hc; omega
    | cons x xs => rfl
  have hcut : (Fmt.kLine n).cutLen (norm file) ≤ (norm file).length := by
    have hm := mult_facts n (countNL (norm file)) hn hc
    exact (prefix_spec (norm file) _ hm.1 hm.2.1).2.1
  have hlen : ((norm file).take ((Fmt.kLine n).cutLen (norm file))).length = (Fmt.kLine n).cutLen (norm file) := by
    rw [List.length_take]; omega
  unfold wholeValidateT
  simp only [hne, Bool.false_eq_true, ↓reduceIte, Nat.not_lt.mpr hc, hgood, hlen, hleft]
  rw [whole_delivered_lines n hn (norm file) hc]
  have := Nat.div_add_mod (countNL (norm file)) n
  have h2 : countNL (norm file) / n * n = n * (countNL (norm file) / n) := Nat.mul_comm _ _
  congr 2
  omega

/-- **C15.whole_eq_chunks** — on files made of whole records `f.read()` and `read_chunks` with every chunk size and
mode give the same outcome (success, or the same reported line), whatever violations the records contain. -/
theorem whole_eq_chunks (n : Nat) (hn : 0 < n) (marker : Nat) (cp : Bool) (hcp : cp = true → 2 < n) (mode : Mode)
    (file : Bytes) (hwf : n ∣ countNL (norm file)) (hc : n ≤ countNL (norm file)) (k : Nat) (hk : 0 < k) :
    wholeValidateT n marker cp file = .ok (readValidateT n marker cp mode file k) := by
  rw [readValidateT_wf n hn marker cp mode file hwf k hk]
  have hne : (norm file).isEmpty = false := by
    cases h : norm file with
    | nil => rw [h] at hc; simp [countNL] at hc; omega
    | cons x xs => rfl
  have hlast : (norm file).getLast? = some NL := by
    unfold norm at hne ⊢
    by_cases hf : file.isEmpty = true
    · simp [hf] at hne
    · simp only [hf]; exact addNL_getLast file
  have hcut : (Fmt.kLine n).cutLen (norm file) = (norm file).length := by
    show prefixThroughNL (countNL (norm file) - countNL (norm file) % n) (norm file) = _
    rw [Nat.mod_eq_zero_of_dvd hwf, Nat.sub_zero]
    exact prefix_all _ hlast
  unfold wholeValidateT
  simp only [hne, Bool.false_eq_true, ↓reduceIte, Nat.not_lt.mpr hc, hcut, List.take_length, List.drop_length]
  have hflat := entries_chunks_kLine n hn mode file hwf k hk
  have hinv := reported_flatten_invariant n marker cp hcp [entriesOf n (norm file)]
    ((readAll (Fmt.kLine n) true mode file k).map (entriesOf n))
    (by unfold entriesOf; rw [hflat]; simp) 0
  rw [reported_single] at hinv
  unfold readValidate
  rw [← hinv]
  cases validateChunk n marker cp (entriesOf n (norm file)) <;> simp [isBlank]

/-- non-vacuity: `@a/A/+/I/@b` (the file ends inside its second record) read whole and with chunk sizes 1–3, both
modes: line 4; the same file made whole reads without error; a file ending in blank lines is accepted -/
example : wholeValidateT 4 64 true [64,97,10,65,10,43,10,73,10,64,98,10] = .ok (some 4) ∧
    readValidateT 4 64 true .seek [64,97,10,65,10,43,10,73,10,64,98,10] 1 = some 4 ∧
    readValidateT 4 64 true .carry [64,97,10,65,10,43,10,73,10,64,98,10] 3 = some 4 ∧
    readValidateT 4 64 true .seek [64,97,10,65,10,43,10,73,10,64,98] 2 = some 4 ∧
    readValidateT 4 64 true .seek [64,97,10,65,10,43,10,73,10] 2 = none ∧
    readValidateT 4 64 true .carry [64,97,10,65,10,43,10,73,10,10,13,10] 2 = none ∧
    readValidateT 4 64 true .seek [64,97,10,65,10,73,10] 5 = some 0 := by decide

/-! ### files of ANY content: a truncated last record × every chunk size (uses C01.readAll_kLine_any_file) -/

/-- the records that every reading delivers: the first `⌊lines/n⌋·n` lines of the terminated file -/
def wholeRecords (n : Nat) (file : Bytes) : Bytes :=
  (norm file).take (prefixThroughNL (countNL (norm file) - countNL (norm file) % n) (norm file))

/-- **C15.readValidateT_any_file** — no hypothesis on the file (any violations, a last record cut anywhere): chunked
reading with every chunk size and mode reports the first violation among the whole records; if there is none, it
reports the truncated record at line `⌊lines/n⌋·n` when bytes other than line ends follow the whole records, and
completes otherwise. The right-hand side mentions neither `k` nor the mode. -/
theorem readValidateT_any_file (n : Nat) (hn : 0 < n) (marker : Nat) (cp : Bool) (hcp : cp = true → 2 < n)
    (mode : Mode) (file : Bytes) (k : Nat) (hk : 0 < k) :
    readValidateT n marker cp mode file k =
      match validateChunk n marker cp (entriesOf n (wholeRecords n file)) with
      | some l => some l
      | none =>
        if isBlank ((norm file).drop (wholeRecords n file).length) then none
        else some (countNL (norm file) - countNL (norm file) % n) := by
  obtain ⟨hflat, hcount, hall⟩ := readAll_kLine_any_file n hn mode file k hk
  have hent : ((readAll (Fmt.kLine n) true mode file k).map (entriesOf n)).flatten = entriesOf n (wholeRecords n file) := by
    unfold entriesOf wholeRecords
    rw [entriesK_chunks n hn _ hall, hflat]
  have hinv := reported_flatten_invariant n marker cp hcp [entriesOf n (wholeRecords n file)]
    ((readAll (Fmt.kLine n) true mode file k).map (entriesOf n)) (by rw [hent]; simp) 0
  rw [reported_single] at hinv
  unfold readValidateT leftoverOf readValidate
  rw [← hinv, hcount]
  have hlen : (readAll (Fmt.kLine n) true mode file k).flatten.length = (wholeRecords n file).length := by
    unfold wholeRecords; rw [hflat]
  rw [hlen]
  cases validateChunk n marker cp (entriesOf n (wholeRecords n file)) <;> rfl

/-- **C15.chunk_size_independent_any_file** — the outcome of reading a FASTQ / two-line FASTA file — success, or the
reported line — is the same for every two chunk sizes and reader modes, for EVERY file: any number of violations of
any class, including a last record cut off anywhere. (`chunk_size_independent` assumed whole records.) -/
theorem chunk_size_independent_any_file (n : Nat) (hn : 0 < n) (marker : Nat) (cp : Bool) (hcp : cp = true → 2 < n)
    (file : Bytes) (m₁ m₂ : Mode) (k₁ k₂ : Nat) (h₁ : 0 < k₁) (h₂ : 0 < k₂) :
    readValidateT n marker cp m₁ file k₁ = readValidateT n marker cp m₂ file k₂ := by
  rw [readValidateT_any_file n hn marker cp hcp m₁ file k₁ h₁, readValidateT_any_file n hn marker cp hcp m₂ file k₂ h₂]

/-- **C15.whole_eq_chunks_any_file** — `f.read()` and `read_chunks` with every chunk size and mode give the same
outcome for every file that holds at least one record's worth of lines. -/
theorem whole_eq_chunks_any_file (n : Nat) (hn : 0 < n) (marker : Nat) (cp : Bool) (hcp : cp = true → 2 < n) (mode : Mode)
    (file : Bytes) (hc : n ≤ countNL (norm file)) (k : Nat) (hk : 0 < k) :
    wholeValidateT n marker cp file = .ok (readValidateT n marker cp mode file k) := by
  rw [readValidateT_any_file n hn marker cp hcp mode file k hk]
  have hne : (norm file).isEmpty = false := by
    cases h : norm file with
    | nil => rw [h] at hc; simp [countNL] at hc; omega
    | cons x xs => rfl
  have hD : (norm file).take ((Fmt.kLine n).cutLen (norm file)) = wholeRecords n file := rfl
  unfold wholeValidateT
  simp only [hne, Bool.false_eq_true, ↓reduceIte, Nat.not_lt.mpr hc, hD]
  have hcnt : countNL (wholeRecords n file) = countNL (norm file) - countNL (norm file) % n :=
    whole_delivered_lines n hn (norm file) hc
  rw [hcnt]
  cases validateChunk n marker cp (entriesOf n (wholeRecords n file)) with
  | some l => rfl
  | none =>
    simp only
    split <;> rfl

/-- **C15.truncated_line** — the headline case: all whole records valid, bytes other than line ends after them: every
chunk size and mode reports line `⌊lines/n⌋·n`, the line where the truncated record starts; never a table. -/
theorem truncated_line (n : Nat) (hn : 0 < n) (marker : Nat) (cp : Bool) (hcp : cp = true → 2 < n) (mode : Mode)
    (file : Bytes) (k : Nat) (hk : 0 < k)
    (hgood : validateChunk n marker cp (entriesOf n (wholeRecords n file)) = none)
    (hleft : isBlank ((norm file).drop (wholeRecords n file).length) = false) :
    readValidateT n marker cp mode file k = some (countNL (norm file) / n * n) := by
  rw [readValidateT_any_file n hn marker cp hcp mode file k hk, hgood]
  simp only [hleft, Bool.false_eq_true, ↓reduceIte]
  have := Nat.div_add_mod (countNL (norm file)) n
  have h2 : countNL (norm file) / n * n = n * (countNL (norm file) / n) := Nat.mul_comm _ _
  congr 1
  omega

/-- non-vacuity of `truncated_line`: `@a/A/+/I/@b` -/
example : validateChunk 4 64 true (entriesOf 4 (wholeRecords 4 [64,97,10,65,10,43,10,73,10,64,98,10])) = none ∧
    isBlank ((norm [64,97,10,65,10,43,10,73,10,64,98,10]).drop (wholeRecords 4 [64,97,10,65,10,43,10,73,10,64,98,10]).length) = false := by
  decide

/-! ### the reader's own end-of-file test (what the driver runs) -/

/-- **C15.readValidateR_eq** — the end-of-file test as the reader performs it (on the pending chunks when it gives up,
or on the final chunk behind its buffer; `readValidateR`, the function the correspondence runs against the code) decides
exactly as the test on the bytes never delivered (`readValidateT`), for every file, chunk size and mode. All `…T…`
theorems above therefore speak about `readValidateR`. -/
theorem readValidateR_eq (n : Nat) (hn : 0 < n) (marker : Nat) (cp : Bool) (mode : Mode) (file : Bytes) (k : Nat) (hk : 0 < k) :
    readValidateR n marker cp mode file k = readValidateT n marker cp mode file k := by
  unfold readValidateR readValidateT leftoverOf
  rw [readAllRest_blank_iff n hn mode file k hk]

/-- **C15.readValidateR_any_file** — `readValidateT_any_file` for the reader-level function -/
theorem readValidateR_any_file (n : Nat) (hn : 0 < n) (marker : Nat) (cp : Bool) (hcp : cp = true → 2 < n)
    (mode : Mode) (file : Bytes) (k : Nat) (hk : 0 < k) :
    readValidateR n marker cp mode file k =
      match validateChunk n marker cp (entriesOf n (wholeRecords n file)) with
      | some l => some l
      | none =>
        if isBlank ((norm file).drop (wholeRecords n file).length) then none
        else some (countNL (norm file) - countNL (norm file) % n) := by
  rw [readValidateR_eq n hn marker cp mode file k hk]
  exact readValidateT_any_file n hn marker cp hcp mode file k hk

/-- **C15.readValidateR_chunk_size_independent** — every file, any two chunk sizes and modes: the same outcome -/
theorem readValidateR_chunk_size_independent (n : Nat) (hn : 0 < n) (marker : Nat) (cp : Bool) (hcp : cp = true → 2 < n)
    (file : Bytes) (m₁ m₂ : Mode) (k₁ k₂ : Nat) (h₁ : 0 < k₁) (h₂ : 0 < k₂) :
    readValidateR n marker cp m₁ file k₁ = readValidateR n marker cp m₂ file k₂ := by
  rw [readValidateR_eq n hn marker cp m₁ file k₁ h₁, readValidateR_eq n hn marker cp m₂ file k₂ h₂]
  exact chunk_size_independent_any_file n hn marker cp hcp file m₁ m₂ k₁ k₂ h₁ h₂

/-- the two sites are both reached: `@a/A/+/I/@b`, seek mode: chunk size 9 ends at site 1 (pending chunks), chunk size 12
at site 2 (behind the final buffer); both report line 4 -/
example : readAllRest (Fmt.kLine 4) .seek [64,97,10,65,10,43,10,73,10,64,98,10] 9 = [64,98,10] ∧
    readAllRest (Fmt.kLine 4) .seek [64,97,10,65,10,43,10,73,10,64,98,10] 12 = [64,98,10] ∧
    readValidateR 4 64 true .seek [64,97,10,65,10,43,10,73,10,64,98,10] 9 = some 4 ∧
    readValidateR 4 64 true .seek [64,97,10,65,10,43,10,73,10,64,98,10] 12 = some 4 := by decide

/-! ### lazily read chunks joined before they are looked at (`np.concatenate(chunks[j:])`) -/

theorem firstBad_append_of_some {α} (p : α → Bool) (l r : List α) (i : Nat) (h : firstBad p l = some i) :
    firstBad p (l ++ r) = some i := by
  obtain ⟨good, bad, rest, hE, hg, hb, hi⟩ := firstBad_some_split p l i h
  rw [hE, List.append_assoc, List.cons_append, firstBad_at_split p good (rest ++ r) bad hg hb, hi]

theorem reportedRows_eq_flatten : ∀ (cs : List (List Bool)) (L : Nat),
    reportedRows L cs = (firstBad id cs.flatten).map (· + L) := by
  intro cs
  induction cs with
  | nil => intro L; simp [reportedRows, firstBad]
  | cons c cs ih =>
    intro L
    simp only [reportedRows, List.flatten_cons]
    cases hc : firstBad id c with
    | some i =>
      rw [firstBad_append_of_some id c _ i hc]
      simp [Nat.add_comm]
    | none =>
      have hgood : ∀ a ∈ c, id a = true := (firstBad_none_iff id c).mp hc
      rw [firstBad_append_good id c _ hgood, ih (L + c.length)]
      cases firstBad id cs.flatten with
      | none => rfl
      | some j => simp; omega

theorem readLazy_rows : ∀ (cs : List (List Bool)) (L : Nat), (readLazy L cs).map (·.rows) = cs := by
  intro cs
  induction cs with
  | nil => intro L; rfl
  | cons c cs ih => intro L; simp [readLazy, ih]

theorem readLazy_drop : ∀ (cs : List (List Bool)) (L j : Nat),
    (readLazy L cs).drop j = readLazy (L + (cs.take j).flatten.length) (cs.drop j) := by
  intro cs
  induction cs with
  | nil => intro L j; simp [readLazy]
  | cons c cs ih =>
    intro L j
    cases j with
    | zero => simp
    | succ j =>
      simp only [readLazy, List.drop_succ_cons, List.take_succ_cons, List.flatten_cons, List.length_append]
      rw [ih (L + c.length) j]
      congr 1; omega

/-- **C15.lazy_concat_tail** — lazily read chunks `cs[j:]` joined with `np.concatenate` BEFORE any field is looked at, then
looked at: the reported line is the first non-parsing row among them, counted from the start of the data — what eager
reading of those chunks reports (`reportedRows` started at the lines delivered before chunk `j`). The joined object keeps
the start line of its first operand; a join that forgets it (seeded change C15-x1) reports a line short by exactly the
lines of `cs[:j]`. -/
theorem lazy_concat_tail (cs : List (List Bool)) (L j : Nat) (hj : j < cs.length) :
    accessLazy (concatLazy ((readLazy L cs).drop j)) = reportedRows (L + (cs.take j).flatten.length) (cs.drop j) := by
  rw [readLazy_drop, reportedRows_eq_flatten]
  obtain ⟨c, rest, hd⟩ : ∃ c rest, cs.drop j = c :: rest := by
    cases h : cs.drop j with
    | nil => simp at h; omega
    | cons c rest => exact ⟨c, rest, rfl⟩
  unfold accessLazy concatLazy
  rw [readLazy_rows]
  simp [hd, readLazy]

example : accessLazy (concatLazy ((readLazy 0 [[true, true], [true, true, true], [true, false]]).drop 1)) = some 6 := by decide

end C15
