import BnpVerif.Model.C15
import BnpVerif.Props.C01
/-! C15 property theorems: the reported line number of a format violation does not depend on how
the entries are cut into chunks, and equals the global zero-based line. -/
namespace C15
open C01

/-! ### firstBad is compositional -/

theorem findIdx_append_good {α} (p : α → Bool) (g l : List α) (hg : ∀ a ∈ g, p a = false) :
    (g ++ l).findIdx p = g.length + l.findIdx p := by
  induction g with
  | nil => simp
  | cons x xs ih =>
    have hx : p x = false := hg x (by simp)
    simp only [List.cons_append, List.findIdx_cons, hx, cond_false, List.length_cons]
    rw [ih (fun a ha => hg a (by simp [ha]))]; omega

theorem firstBad_append_good {α} (p : α → Bool) (g l : List α) (hg : ∀ a ∈ g, p a = true) :
    firstBad p (g ++ l) = (firstBad p l).map (· + g.length) := by
  unfold firstBad
  have : (g ++ l).findIdx (fun a => !p a) = g.length + l.findIdx (fun a => !p a) :=
    findIdx_append_good _ g l (fun a ha => by simp [hg a ha])
  simp only [this, List.length_append]
  by_cases h : l.findIdx (fun a => !p a) < l.length
  · have h' : g.length + l.findIdx (fun a => !p a) < g.length + l.length := by omega
    simp [h, h']; omega
  · have h' : ¬ g.length + l.findIdx (fun a => !p a) < g.length + l.length := by omega
    simp [h, h']

theorem firstBad_all_good {α} (p : α → Bool) (g : List α) (hg : ∀ a ∈ g, p a = true) : firstBad p g = none := by
  have := firstBad_append_good p g [] hg
  simpa [firstBad] using this

theorem firstBad_append_right_good {α} (p : α → Bool) (l r : List α) (hr : ∀ a ∈ r, p a = true) :
    firstBad p (l ++ r) = firstBad p l := by
  induction l with
  | nil => simpa [firstBad] using firstBad_all_good p r hr
  | cons x xs ih =>
    unfold firstBad at ih ⊢
    simp only [List.cons_append, List.findIdx_cons, List.length_cons, List.length_append] at ih ⊢
    by_cases hx : p x = true
    · simp only [hx, Bool.not_true, cond_false]
      by_cases h1 : List.findIdx (fun a => !p a) (xs ++ r) < (xs ++ r).length
      · simp only [List.length_append] at h1
        simp only [h1, ↓reduceIte] at ih
        by_cases h2 : List.findIdx (fun a => !p a) xs < xs.length
        · simp only [h2, ↓reduceIte, Option.some.injEq] at ih
          have a1 : List.findIdx (fun a => !p a) (xs ++ r) + 1 < xs.length + r.length + 1 := by omega
          have a2 : List.findIdx (fun a => !p a) xs + 1 < xs.length + 1 := by omega
          have a3 : List.findIdx (fun a => !p a) xs < xs.length + r.length := by omega
          simp [a2, a3, ih]
        · simp [h2] at ih
      · simp only [List.length_append] at h1
        simp only [h1, ↓reduceIte] at ih
        by_cases h2 : List.findIdx (fun a => !p a) xs < xs.length
        · simp [h2] at ih
        · have a1 : ¬ List.findIdx (fun a => !p a) (xs ++ r) + 1 < xs.length + r.length + 1 := by omega
          have a2 : ¬ List.findIdx (fun a => !p a) xs + 1 < xs.length + 1 := by omega
          simp [a1, a2]
    · have hx' : p x = false := by simpa using hx
      simp [hx']

/-! ### one chunk -/

/-- an entry passes both tests the format applies -/
def entryOK (marker : Nat) (checkPlus : Bool) (e : Entry) : Bool :=
  markerOK marker e && (!checkPlus || plusOK e)

theorem validateChunk_good (n marker : Nat) (cp : Bool) (g : List Entry)
    (hg : ∀ e ∈ g, entryOK marker cp e = true) : validateChunk n marker cp g = none := by
  unfold validateChunk
  have hm : ∀ e ∈ g, markerOK marker e = true := fun e he => by
    have := hg e he; unfold entryOK at this; simp at this; exact this.1
  rw [firstBad_all_good _ g hm]
  cases cp with
  | false => simp
  | true =>
    have hp : ∀ e ∈ g, plusOK e = true := fun e he => by
      have := hg e he; unfold entryOK at this; simp at this; exact this.2
    simp [firstBad_all_good _ g hp]

/-- good entries in front shift the reported local line by their number of lines -/
theorem validateChunk_shift (n marker : Nat) (cp : Bool) (g es : List Entry)
    (hg : ∀ e ∈ g, entryOK marker cp e = true) :
    validateChunk n marker cp (g ++ es) = (validateChunk n marker cp es).map (· + g.length * n) := by
  have hm : ∀ e ∈ g, markerOK marker e = true := fun e he => by
    have := hg e he; unfold entryOK at this; simp at this; exact this.1
  unfold validateChunk
  rw [firstBad_append_good _ g es hm]
  cases h1 : firstBad (markerOK marker) es with
  | some i => simp [Nat.add_mul]
  | none =>
    simp only [Option.map_none]
    cases cp with
    | false => simp
    | true =>
      have hp : ∀ e ∈ g, plusOK e = true := fun e he => by
        have := hg e he; unfold entryOK at this; simp at this; exact this.2
      simp only [↓reduceIte]
      rw [firstBad_append_good _ g es hp]
      cases h2 : firstBad plusOK es with
      | some i => simp [Nat.add_mul]; omega
      | none => simp

/-- good entries behind the offending one do not change what is reported -/
theorem validateChunk_right_good (n marker : Nat) (cp : Bool) (es r : List Entry)
    (hr : ∀ e ∈ r, entryOK marker cp e = true) :
    validateChunk n marker cp (es ++ r) = validateChunk n marker cp es := by
  have hm : ∀ e ∈ r, markerOK marker e = true := fun e he => by
    have := hr e he; unfold entryOK at this; simp at this; exact this.1
  unfold validateChunk
  rw [firstBad_append_right_good _ es r hm]
  cases cp with
  | false => rfl
  | true =>
    have hp : ∀ e ∈ r, plusOK e = true := fun e he => by
      have := hr e he; unfold entryOK at this; simp at this; exact this.2
    rw [firstBad_append_right_good _ es r hp]

/-! ### every chunking reports the same, global, line -/

/-- **C15.line_number_kline** — FASTA/FASTQ-style formats. Let the entries of the data be
`good ++ bad :: rest` where every entry except `bad` is valid and `bad` alone is diagnosed at local
line `o`. Then for EVERY way `cs` of cutting the entries into consecutive chunks (this is what
every chunk size / mode produces, by C01), the read reports exactly line
`(number of entries before bad)·n + o`, counted from the start of the data (`L = 0`). -/
theorem line_number_kline (n marker : Nat) (cp : Bool) (bad : Entry) (o : Nat)
    (hbad : validateChunk n marker cp [bad] = some o) :
    ∀ (cs : List (List Entry)) (good rest : List Entry) (L : Nat),
      cs.flatten = good ++ bad :: rest →
      (∀ e ∈ good, entryOK marker cp e = true) → (∀ e ∈ rest, entryOK marker cp e = true) →
      reported n marker cp L cs = some (L + good.length * n + o) := by
  intro cs
  induction cs with
  | nil => intro good rest L h; simp at h
  | cons c cs ih =>
    intro good rest L hflat hgood hrest
    simp only [List.flatten_cons] at hflat
    rcases List.append_eq_append_iff.mp hflat with ⟨a', h1, h2⟩ | ⟨c', h1, h2⟩
    · -- c is a prefix of good: good = c ++ a'
      have hc : ∀ e ∈ c, entryOK marker cp e = true := fun e he => hgood e (by rw [h1]; simp [he])
      unfold reported
      rw [validateChunk_good n marker cp c hc]
      simp only
      have := ih a' rest (L + c.length * n) h2 (fun e he => hgood e (by rw [h1]; simp [he])) hrest
      rw [this, h1]; simp [Nat.add_mul]; omega
    · -- c = good ++ c', c' ++ cs.flatten = bad :: rest
      cases c' with
      | nil =>
        -- c = good exactly; continue with good := []
        simp only [List.append_nil] at h1
        simp only [List.nil_append] at h2
        have hc : ∀ e ∈ c, entryOK marker cp e = true := fun e he => hgood e (by rw [← h1]; exact he)
        unfold reported
        rw [validateChunk_good n marker cp c hc]
        simp only
        have := ih [] rest (L + c.length * n) (by simpa using h2.symm) (by simp) hrest
        rw [this, h1]; simp
      | cons b r1 =>
        simp only [List.cons_append, List.cons.injEq] at h2
        obtain ⟨hb, hr⟩ := h2
        have hr1 : ∀ e ∈ r1, entryOK marker cp e = true := fun e he => hrest e (by rw [hr]; simp [he])
        unfold reported
        rw [h1, validateChunk_shift n marker cp good (b :: r1) hgood]
        have : validateChunk n marker cp (b :: r1) = some o := by
          rw [show b :: r1 = [b] ++ r1 from rfl, validateChunk_right_good n marker cp [b] r1 hr1, ← hb]
          exact hbad
        rw [this]; simp; omega

/-- **C15.readValidate_line** — end to end over the C01 reader model: a FASTQ / two-line FASTA
file whose entries are `good ++ bad :: rest` (single violation, diagnosed at local line `o`)
is reported at line `good.length·n + o` for EVERY chunk size `k ≥ 1` and both reader modes. -/
theorem readValidate_line (n : Nat) (hn : 0 < n) (marker : Nat) (cp : Bool) (mode : Mode) (file : Bytes)
    (hwf : n ∣ countNL (norm file)) (k : Nat) (hk : 0 < k) (good rest : List Entry) (bad : Entry) (o : Nat)
    (hE : entriesK n (norm file) = good ++ bad :: rest)
    (hgood : ∀ e ∈ good, entryOK marker cp e = true) (hrest : ∀ e ∈ rest, entryOK marker cp e = true)
    (hbad : validateChunk n marker cp [bad] = some o) :
    readValidate n marker cp mode file k = some (good.length * n + o) := by
  unfold readValidate
  have hflat := entries_chunks_kLine n hn mode file hwf k hk
  have := line_number_kline n marker cp bad o hbad
    ((readAll (Fmt.kLine n) true mode file k).map (entriesOf n)) good rest 0
    (by unfold entriesOf; rw [hflat, hE]) hgood hrest
  simpa using this

/-! ### delimited columns -/

theorem rowOfOffsetMatrix_spec (w i j : Nat) (hj : j < w) : rowOfOffsetMatrix w (i * w + j) = i := by
  unfold rowOfOffsetMatrix
  have hw : 0 < w := by omega
  rw [Nat.add_comm, Nat.add_mul_div_right _ _ hw, Nat.div_eq_of_lt hj]; omega

theorem cumsum_ge (x : Nat) (l : List Nat) : ∀ c ∈ (cumsum l).map (· + x), x ≤ c := by
  intro c hc
  simp only [List.mem_map] at hc
  obtain ⟨a, _, rfl⟩ := hc; omega

/-- the ragged formula finds the row that contains the offending flat offset, whatever the row
lengths (zero-length rows included) -/
theorem rowOfOffsetRagged_spec (pre : List Nat) (len : Nat) (post : List Nat) (j : Nat) (hj : j < len) :
    rowOfOffsetRagged (pre ++ len :: post) (pre.sum + j) = pre.length := by
  unfold rowOfOffsetRagged
  induction pre generalizing j with
  | nil =>
    simp only [List.nil_append, cumsum, List.sum_nil, Nat.zero_add, List.length_nil]
    rw [List.countP_cons]
    have h1 : ¬ len ≤ j := by omega
    simp only [h1, decide_false, Bool.false_eq_true, ↓reduceIte, Nat.add_zero]
    apply List.countP_eq_zero.mpr
    intro c hc
    have := cumsum_ge len post c hc
    simp; omega
  | cons x xs ih =>
    have hs : (x :: xs).sum + j = x + (xs.sum + j) := by simp [List.sum_cons]; omega
    rw [hs]
    simp only [List.cons_append, cumsum, List.length_cons]
    rw [List.countP_cons, List.countP_map]
    have h1 : x ≤ x + (xs.sum + j) := by omega
    simp only [h1, decide_true, ↓reduceIte]
    rw [← ih j hj]
    congr 1
    apply List.countP_congr
    intro c _
    simp only [Function.comp, decide_eq_true_eq]
    omega

/-- **C15.line_number_delimited** — rows `good ++ false :: rest` (first offending row after
`good.length` parsable rows) cut into chunks in any way: the reported row is `good.length`. -/
theorem line_number_delimited :
    ∀ (cs : List (List Bool)) (good rest : List Bool) (L : Nat),
      cs.flatten = good ++ false :: rest → (∀ b ∈ good, b = true) →
      reportedRows L cs = some (L + good.length) := by
  intro cs
  induction cs with
  | nil => intro good rest L h; simp at h
  | cons c cs ih =>
    intro good rest L hflat hgood
    simp only [List.flatten_cons] at hflat
    rcases List.append_eq_append_iff.mp hflat with ⟨a', h1, h2⟩ | ⟨c', h1, h2⟩
    · have hc : ∀ b ∈ c, id b = true := fun b hb => hgood b (by rw [h1]; simp [hb])
      unfold reportedRows
      rw [firstBad_all_good id c hc]
      simp only
      rw [ih a' rest (L + c.length) h2 (fun b hb => hgood b (by rw [h1]; simp [hb])), h1]
      simp; omega
    · cases c' with
      | nil =>
        simp only [List.append_nil] at h1
        simp only [List.nil_append] at h2
        have hc : ∀ b ∈ c, id b = true := fun b hb => hgood b (by rw [← h1]; exact hb)
        unfold reportedRows
        rw [firstBad_all_good id c hc]
        simp only
        rw [ih [] rest (L + c.length) (by simpa using h2.symm) (by simp), h1]; simp
      | cons b r1 =>
        simp only [List.cons_append, List.cons.injEq] at h2
        unfold reportedRows
        rw [h1, firstBad_append_good id good (b :: r1) (fun b hb => by simpa using hgood b hb)]
        have : firstBad id (b :: r1) = some 0 := by
          rw [← h2.1]; simp [firstBad, List.findIdx_cons]
        rw [this]; simp

/-! ### column counts -/

theorem firstIrregular_regular (n : Nat) (c : List Nat) (h : ∀ x ∈ c, x = n) : firstIrregular c = none := by
  cases c with
  | nil => rfl
  | cons y ys =>
    unfold firstIrregular
    apply firstBad_all_good
    intro a ha
    have h1 := h a ha
    have h2 := h y (by simp)
    simp [h1, h2]

/-- **C15.line_number_cols** — lines `good ++ b :: rest` where every `good` line has `n` columns and `b`
has a different number. For EVERY chunking in which each chunk starts with an `n`-column line (the
offending line is not the first line of its buffer — the library infers the column count per
buffer) the reported line is `good.length`. The excluded chunkings are the recorded known finding. -/
theorem line_number_cols (n b : Nat) (hb : b ≠ n) :
    ∀ (cs : List (List Nat)) (good rest : List Nat) (L : Nat),
      cs.flatten = good ++ b :: rest → (∀ x ∈ good, x = n) →
      (∀ c ∈ cs, c = [] ∨ c.head? = some n) →
      reportedCols L cs = some (L + good.length) := by
  intro cs
  induction cs with
  | nil => intro good rest L h; simp at h
  | cons c cs ih =>
    intro good rest L hflat hgood hhead
    simp only [List.flatten_cons] at hflat
    rcases List.append_eq_append_iff.mp hflat with ⟨a', h1, h2⟩ | ⟨c', h1, h2⟩
    · have hc : ∀ x ∈ c, x = n := fun x hx => hgood x (by rw [h1]; simp [hx])
      unfold reportedCols
      rw [firstIrregular_regular n c hc]
      simp only
      rw [ih a' rest (L + c.length) h2 (fun x hx => hgood x (by rw [h1]; simp [hx]))
        (fun c' hc' => hhead c' (by simp [hc'])), h1]
      simp; omega
    · cases c' with
      | nil =>
        simp only [List.append_nil] at h1
        simp only [List.nil_append] at h2
        have hc : ∀ x ∈ c, x = n := fun x hx => hgood x (by rw [← h1]; exact hx)
        unfold reportedCols
        rw [firstIrregular_regular n c hc]
        simp only
        rw [ih [] rest (L + c.length) (by simpa using h2.symm) (by simp)
          (fun c' hc' => hhead c' (by simp [hc'])), h1]
        simp
      | cons y r1 =>
        simp only [List.cons_append, List.cons.injEq] at h2
        have hy : y = b := h2.1.symm
        have hch := hhead c (by simp)
        unfold reportedCols
        rw [h1] at hch ⊢
        cases good with
        | nil =>
          -- the offending line would be first in its chunk: excluded by the hypothesis
          rcases hch with h0 | h0
          · simp at h0
          · simp at h0; exact absurd (hy ▸ h0) hb
        | cons g gs =>
          have hg : g = n := hgood g (by simp)
          have : firstIrregular ((g :: gs) ++ y :: r1) = some (g :: gs).length := by
            unfold firstIrregular
            simp only [List.cons_append]
            rw [show g :: (gs ++ y :: r1) = (g :: gs) ++ y :: r1 from rfl,
              firstBad_append_good _ (g :: gs) (y :: r1) (fun a ha => by
                have := hgood a ha; simp [this, hg])]
            have : firstBad (fun x => x == g) (y :: r1) = some 0 := by
              have hne : (y == g) = false := by simp [hy, hg, hb]
              simp [firstBad, List.findIdx_cons, hne]
            rw [this]; simp
          rw [this]

/-! ### non-vacuity -/
example : reportedCols 0 [[3, 3], [3, 2, 4, 3]] = some 3 := by decide
example : validateChunk 4 64 true [[[88, 97], [65], [43], [73]]] = some 0 := by decide
example : validateChunk 4 64 true [[[64, 97], [65], [45], [73]]] = some 2 := by decide
example : reported 4 64 true 0 [[[[64, 97], [65], [43], [73]]], [[[64, 98], [67], [45], [73]]]] = some 6 := by decide

end C15
