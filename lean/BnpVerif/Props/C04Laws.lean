import BnpVerif.Props.C04Core
/-! C04 — the index semantics pinned by standard list notions, and algebraic laws of the extractor. -/
namespace C04
open PyIdx

/-! ### `pyIndex` in plain List vocabulary -/

theorem gather_range' {α} (l : List α) (a n : Nat) (h : a + n ≤ l.length) :
    gather l (List.range' a n) = (l.drop a).take n := by
  induction n generalizing a with
  | zero => simp [gather]
  | succ n ih =>
    rw [List.range'_succ, gather_cons, List.getElem?_eq_getElem (by omega)]
    simp only
    rw [ih (a + 1) (by omega)]
    rw [List.drop_eq_getElem_cons (by omega : a < l.length), List.take_succ_cons]

theorem rangeUp_eq_range' (stop : Nat) : ∀ (fuel cur : Nat), cur ≤ stop → stop - cur ≤ fuel →
    rangeUp (stop : Int) 1 fuel (cur : Int) = List.range' cur (stop - cur) := by
  intro fuel
  induction fuel with
  | zero => intro cur h1 h2; have : stop - cur = 0 := by omega
            simp [rangeUp, this]
  | succ f ih =>
    intro cur h1 h2
    simp only [rangeUp]
    by_cases hlt : cur < stop
    · have hc : (cur : Int) < (stop : Int) := by omega
      simp only [hc, if_true]
      have hs : stop - cur = (stop - (cur + 1)) + 1 := by omega
      have e : ((cur : Int) + ((1 : Nat) : Int)) = ((cur + 1 : Nat) : Int) := by simp
      rw [e, ih (cur + 1) (by omega) (by omega), hs, List.range'_succ]
      simp
    · have hc : ¬ ((cur : Int) < (stop : Int)) := by omega
      have : stop - cur = 0 := by omega
      simp [hc, this]

/-- **C04.pyIndex_slice_take_drop** — `l[a:b]` (0 ≤ a ≤ b ≤ len) is `take (b-a) (drop a l)` -/
theorem pyIndex_slice_take_drop {α} (l : List α) (a b : Nat) (hab : a ≤ b) (hb : b ≤ l.length) :
    pyIndex l (.slice (some (a : Int)) (some (b : Int)) 1) = some ((l.drop a).take (b - a)) := by
  unfold pyIndex Idx.toList sliceList
  have h1 : sliceStart l.length (some (a : Int)) 1 = (a : Int) := by
    unfold sliceStart clamp; simp; omega
  have h2 : sliceStop l.length (some (b : Int)) 1 = (b : Int) := by
    unfold sliceStop clamp; simp; omega
  have e1 : (1 : Int).toNat = 1 := rfl
  have : rangeUp (b : Int) 1 (l.length + 1) (a : Int) = List.range' a (b - a) :=
    rangeUp_eq_range' b (l.length + 1) a hab (by omega)
  simp only [h1, h2, e1, this]
  simp [gather_range' l a (b - a) (by omega)]

/-- **C04.pyIndex_full** — `l[:]` is `l` -/
theorem pyIndex_full {α} (l : List α) : pyIndex l (.slice none none 1) = some l := by
  unfold pyIndex Idx.toList sliceList
  have h1 : sliceStart l.length none 1 = 0 := by unfold sliceStart; simp
  have h2 : sliceStop l.length none 1 = (l.length : Int) := by unfold sliceStop; simp
  have e1 : (1 : Int).toNat = 1 := rfl
  have := rangeUp_eq_range' l.length (l.length + 1) 0 (by omega) (by omega)
  simp only [Int.natCast_zero, Nat.sub_zero] at this
  simp only [h1, h2, e1, this]
  simp [gather_range' l 0 l.length (by omega)]

theorem rangeDown_rev (k : Nat) : ∀ fuel, k ≤ fuel → rangeDown (-1) 1 fuel ((k : Int) - 1) = (List.range k).reverse := by
  induction k with
  | zero => intro fuel _; cases fuel <;> simp [rangeDown]
  | succ m ih =>
    intro fuel hf
    cases fuel with
    | zero => omega
    | succ f =>
      simp only [rangeDown]
      have hc : (-1 : Int) < ((m + 1 : Nat) : Int) - 1 := by omega
      simp only [hc, if_true]
      have e1 : (((m + 1 : Nat) : Int) - 1).toNat = m := by omega
      have e2 : ((m + 1 : Nat) : Int) - 1 - ((1 : Nat) : Int) = (m : Int) - 1 := by omega
      rw [e1, e2, ih f (by omega), List.range_succ, List.reverse_append]
      simp

theorem gather_reverse {α} (l : List α) (ixs : List Nat) : gather l ixs.reverse = (gather l ixs).reverse := by
  unfold gather; rw [List.filterMap_reverse]

theorem gather_range_self {α} (l : List α) : gather l (List.range l.length) = l := by
  have := gather_range' l 0 l.length (by omega)
  rw [List.range_eq_range']
  simpa using this

/-- **C04.pyIndex_reverse** — `l[::-1]` is `l.reverse` -/
theorem pyIndex_reverse {α} (l : List α) : pyIndex l (.slice none none (-1)) = some l.reverse := by
  unfold pyIndex Idx.toList sliceList
  have h1 : sliceStart l.length none (-1) = (l.length : Int) - 1 := by unfold sliceStart; simp
  have h2 : sliceStop l.length none (-1) = -1 := by unfold sliceStop; simp
  have e1 : (-(-1 : Int)).toNat = 1 := rfl
  have hr := rangeDown_rev l.length (l.length + 1) (by omega)
  have hne : ¬ ((-1 : Int) = 0) := by decide
  have hneg : ¬ ((0 : Int) < -1) := by decide
  simp only [h1, h2, e1, hne, hneg, if_false, hr, Option.map_some]
  rw [gather_reverse, gather_range_self]

theorem gather_mask {α} (l : List α) : ∀ (m : List Bool) (P : List α),
    gather (P ++ l) (maskList m P.length) = ((l.zip m).filter (·.2)).map (·.1) := by
  induction l with
  | nil =>
    intro m P
    have : ∀ (m : List Bool) (k : Nat), P.length ≤ k → gather (P ++ []) (maskList m k) = [] := by
      intro m
      induction m with
      | nil => intro k _; rfl
      | cons b m ihm =>
        intro k hk
        cases b
        · simp only [maskList]; exact ihm (k + 1) (by omega)
        · simp only [maskList, gather_cons]
          rw [List.append_nil, List.getElem?_eq_none hk]
          have := ihm (k + 1) (by omega)
          rw [List.append_nil] at this
          exact this
    simpa using this m P.length (Nat.le_refl _)
  | cons a l ih =>
    intro m P
    cases m with
    | nil => simp [maskList, gather]
    | cons b m =>
      have hP : (P ++ [a]).length = P.length + 1 := by simp
      have happ : P ++ a :: l = (P ++ [a]) ++ l := by simp
      cases b
      · simp only [maskList, List.zip_cons_cons, List.filter_cons, Bool.false_eq_true, if_false]
        rw [happ, ← hP]; exact ih m (P ++ [a])
      · simp only [maskList, List.zip_cons_cons, List.filter_cons, if_true, List.map_cons, gather_cons]
        have : (P ++ a :: l)[P.length]? = some a := by simp
        rw [this]
        simp only
        rw [happ, ← hP, ih m (P ++ [a])]

/-- **C04.pyIndex_mask_filter** — boolean-mask indexing keeps exactly the elements whose flag is set (and needs a flag per element) -/
theorem pyIndex_mask_filter {α} (l : List α) (m : List Bool) :
    pyIndex l (.mask m) = if m.length = l.length then some (((l.zip m).filter (·.2)).map (·.1)) else none := by
  have hg := gather_mask l m []
  simp only [List.nil_append, List.length_nil] at hg
  simp only [pyIndex, Idx.toList]
  by_cases h : m.length = l.length
  · simp [h, hg]
  · simp [h]

/-- **C04.norm_spec** — Python index normalisation: `i` or `len + i`, inside the axis -/
theorem norm_spec (n : Nat) (i : Int) (k : Nat) :
    norm n i = some k ↔ ((0 ≤ i ∧ i = k) ∨ (i < 0 ∧ i + n = k)) ∧ k < n := by
  unfold norm
  constructor
  · intro h
    split at h
    · split at h
      · simp at h; omega
      · simp at h
    · split at h
      · simp at h; omega
      · simp at h
  · intro ⟨h1, h2⟩
    rcases h1 with ⟨a, b⟩ | ⟨a, b⟩
    · have : i.toNat = k := by omega
      simp [a, this, h2]
    · have ha : ¬ (0 ≤ i) := by omega
      have hb : (-i).toNat ≤ n := by omega
      have : n - (-i).toNat = k := by omega
      simp [ha, hb, this]

/-- **C04.pyIndex_ints_none_iff** — an integer-list index fails exactly when one of its entries is outside the axis -/
theorem pyIndex_ints_none_iff {α} (l : List α) (is : List Int) :
    pyIndex l (.ints is) = none ↔ ∃ i ∈ is, norm l.length i = none := by
  unfold pyIndex Idx.toList
  rw [Option.map_eq_none_iff]
  induction is with
  | nil => simp [normAll]
  | cons i is ih =>
    simp only [normAll, List.mem_cons, exists_eq_or_imp]
    cases hn : norm l.length i with
    | none => simp
    | some k =>
      cases hr : normAll l.length is with
      | none => simp [← ih, hr]
      | some ks => simp [← ih, hr]

/-- **C04.pyIndex_ints_get** — when it succeeds, the j-th result is the element at the j-th (normalised) position -/
theorem pyIndex_ints_get {α} (l : List α) (is : List Int) (r : List α) (h : pyIndex l (.ints is) = some r) :
    r.length = is.length ∧ ∀ j, j < is.length → r[j]? = ((is[j]?).bind (norm l.length)).bind (fun k => l[k]?) := by
  unfold pyIndex Idx.toList at h
  induction is generalizing r with
  | nil => simp [normAll] at h; subst h; simp
  | cons i is ih =>
    simp only [normAll] at h
    cases hn : norm l.length i with
    | none => simp [hn] at h
    | some k =>
      cases hr : normAll l.length is with
      | none => simp [hn, hr] at h
      | some ks =>
        simp only [hn, hr, Option.map_some, Option.some.injEq] at h
        have hk := norm_lt hn
        rw [gather_cons, List.getElem?_eq_getElem hk] at h
        simp only at h
        subst h
        obtain ⟨i1, i2⟩ := ih (gather l ks) (by simp [hr])
        refine ⟨by simp [i1], ?_⟩
        intro j hj
        cases j with
        | zero => simp [hn, List.getElem?_eq_getElem hk]
        | succ j => simpa using i2 j (by simpa using hj)

/-! ### algebraic laws of the extractor -/

theorem gather_gather {α} (l : List α) (a b : List Nat) (ha : ∀ k ∈ a, k < l.length) :
    gather (gather l a) b = gather l (gather a b) := by
  have hga : ∀ i : Nat, (gather l a)[i]? = (a[i]?).bind (fun k => l[k]?) := by
    intro i
    induction a generalizing i with
    | nil => simp [gather]
    | cons x xs ih =>
      have hx := ha x (by simp)
      rw [gather_cons, List.getElem?_eq_getElem hx]
      simp only
      cases i with
      | zero => simp [List.getElem?_eq_getElem hx]
      | succ i => simpa using ih (fun k hk => ha k (by simp [hk])) i
  induction b with
  | nil => rfl
  | cons i is ih =>
    rw [gather_cons, gather_cons (l := a), hga i]
    cases hai : a[i]? with
    | none => simp [ih]
    | some k =>
      have hk : k < l.length := ha k (List.mem_of_getElem? hai)
      simp only [Option.bind_some, List.getElem?_eq_getElem hk]
      rw [gather_cons, List.getElem?_eq_getElem hk, ih]

/-- **C04.select_select** — two selections in a row (e.g. `d[::2][1:3]`, with no write in between) are ONE selection
by the composed positions: same data, same field/record tables -/
theorem select_select (e : Ext) (h : LenWF e) (a b : List Nat) (ha : ∀ k ∈ a, k < e.len) :
    (e.select a).select b = e.select (gather a b) := by
  obtain ⟨h1, h2, h3⟩ := h
  unfold Ext.len at ha
  unfold Ext.select
  simp only
  rw [gather_gather _ _ _ ha, gather_gather _ _ _ (by rw [h1]; exact ha), gather_gather _ _ _ (by rw [h2]; exact ha),
    gather_gather _ _ _ (by rw [h3]; exact ha)]

/-- **C04.touch_idempotent** — asking for the bytes twice compacts once -/
theorem touch_idempotent (e : Ext) : e.touch.touch = e.touch := by
  unfold Ext.touch
  by_cases hc : e.contiguous = true
  · simp [hc]
  · have hcc : e.compact.contiguous = true := rfl
    simp [hc, hcc]

/-- **C04.bytes_touch** — writing does not change what a later write produces -/
theorem bytes_touch (e : Ext) : e.touch.bytes = e.bytes := by
  unfold Ext.bytes; rw [touch_idempotent]

/-- **C04.index_none_iff** — indexing the extractor fails exactly when NumPy indexing of an axis of its length fails -/
theorem index_none_iff (e : Ext) (ix : Idx) : e.index ix = none ↔ ix.toList e.len = none := by
  unfold Ext.index; rw [Option.map_eq_none_iff]

/-- **C04.program_none_iff** — a program fails on the extractors exactly when it fails on the lists of records -/
theorem program_none_iff (tabs : List Ext) (ht : ∀ t ∈ tabs, Inv t) (p : Prog) :
    p.evalExt tabs = none ↔ p.evalSpec (tabs.map Ext.abs) = none := by
  have := (program_abs tabs ht p).2
  cases h1 : p.evalExt tabs <;> cases h2 : p.evalSpec (tabs.map Ext.abs) <;> simp_all

/-- **C04.select_all_bytes** — selecting every record in order writes the whole table -/
theorem select_all_bytes (e : Ext) (h : Inv e) : (e.select (List.range e.len)).bytes = specBytes e.abs := by
  have hv : ∀ k ∈ List.range e.len, k < e.len := by intro k hk; simpa using hk
  rw [bytes_spec _ (inv_select e h.1 _ hv), abs_select e h.1.1]
  have hl : e.abs.length = e.len := by
    unfold Ext.abs Ext.len; rw [List.length_map, rows_length e h.1.1]
  rw [← hl, gather_range_self]

/-- **C04.restOld_unsound** — with the repaired record ends, the shipped rest-of-line rule (measured from `entry_ends`)
would return the VCF genotype columns of a CRLF file WITH the carriage return; the repaired rule does not -/
theorem restOld_unsound :
    (buildDelimited true 9 ("a\tb\tGT\t0|1\r\n".toList.map Char.toNat)).map (fun e => (e.restOld 2, e.rest 2))
      = some (["GT\t0|1\r".toList.map Char.toNat], ["GT\t0|1".toList.map Char.toNat]) := by decide +kernel

/-! ### non-vacuity -/
example : pyIndex [10, 11, 12, 13] (.slice (some 1) (some 3) 1) = some [11, 12] := by decide
example : pyIndex [10, 11, 12] (.mask [true, false, true]) = some [10, 12] := by decide
example : pyIndex [10, 11, 12] (.ints [-1, 0, 0]) = some [12, 10, 10] := by decide
example : pyIndex [10, 11, 12] (.ints [3]) = none := by decide
example : norm 5 (-2) = some 3 := by decide
example : (demo.select [2, 0, 1]).select [1, 1] = demo.select [0, 0] := by decide +kernel


/-! ### slices with ANY non-zero step: the k-th selected position is `start + k·step`, and exactly the k with that position
before `stop` are selected (start / stop = CPython's `slice.indices`) -/

theorem rangeUp_getElem? (stop : Int) (s : Nat) (hs : 0 < s) :
    ∀ (fuel : Nat) (cur : Int), (stop - cur).toNat ≤ fuel → ∀ k : Nat,
      (rangeUp stop s fuel cur)[k]? =
        if cur + ((k * s : Nat) : Int) < stop then some (cur + ((k * s : Nat) : Int)).toNat else none := by
  intro fuel
  induction fuel with
  | zero =>
    intro cur hf k
    have : ¬ (cur + ((k * s : Nat) : Int) < stop) := by
      generalize k * s = m; omega
    rw [if_neg this]; rfl
  | succ f ih =>
    intro cur hf k
    unfold rangeUp
    by_cases hc : cur < stop
    · simp only [hc, if_true]
      cases k with
      | zero => simp [hc]
      | succ k =>
        rw [List.getElem?_cons_succ, ih (cur + s) (by omega) k]
        have e : (k + 1) * s = k * s + s := Nat.succ_mul k s
        rw [e]
        generalize k * s = m
        have : cur + (s : Int) + (m : Int) = cur + ((m + s : Nat) : Int) := by omega
        rw [this]
    · simp only [hc, if_false]
      have : ¬ (cur + ((k * s : Nat) : Int) < stop) := by generalize k * s = m; omega
      rw [if_neg this]; rfl

theorem rangeDown_getElem? (stop : Int) (s : Nat) (hs : 0 < s) :
    ∀ (fuel : Nat) (cur : Int), (cur - stop).toNat ≤ fuel → ∀ k : Nat,
      (rangeDown stop s fuel cur)[k]? =
        if stop < cur - ((k * s : Nat) : Int) then some (cur - ((k * s : Nat) : Int)).toNat else none := by
  intro fuel
  induction fuel with
  | zero =>
    intro cur hf k
    have : ¬ (stop < cur - ((k * s : Nat) : Int)) := by
      generalize k * s = m; omega
    rw [if_neg this]; rfl
  | succ f ih =>
    intro cur hf k
    unfold rangeDown
    by_cases hc : stop < cur
    · simp only [hc, if_true]
      cases k with
      | zero => simp [hc]
      | succ k =>
        rw [List.getElem?_cons_succ, ih (cur - s) (by omega) k]
        have e : (k + 1) * s = k * s + s := Nat.succ_mul k s
        rw [e]
        generalize k * s = m
        have : cur - (s : Int) - (m : Int) = cur - ((m + s : Nat) : Int) := by omega
        rw [this]
    · simp only [hc, if_false]
      have : ¬ (stop < cur - ((k * s : Nat) : Int)) := by generalize k * s = m; omega
      rw [if_neg this]; rfl

theorem slice_bounds (n : Nat) (x : Option Int) (s : Int) :
    (0 < s → 0 ≤ sliceStart n x s ∧ sliceStart n x s ≤ n ∧ 0 ≤ sliceStop n x s ∧ sliceStop n x s ≤ n) ∧
    (s < 0 → -1 ≤ sliceStart n x s ∧ sliceStart n x s ≤ (n : Int) - 1 ∧ -1 ≤ sliceStop n x s ∧ sliceStop n x s ≤ (n : Int) - 1) := by
  constructor
  · intro hs
    unfold sliceStart sliceStop clamp
    cases x with
    | none => simp only [hs, if_true]; omega
    | some a => simp only [hs, if_true]; split <;> split <;> (try split) <;> (try split) <;> omega
  · intro hs
    have hn : ¬ (0 < s) := by omega
    unfold sliceStart sliceStop clamp
    cases x with
    | none => simp only [hn, if_false]; omega
    | some a => simp only [hn, if_false]; split <;> split <;> (try split) <;> (try split) <;> omega

theorem gather_getElem? {α} (l : List α) : ∀ (ixs : List Nat), (∀ i ∈ ixs, i < l.length) → ∀ k : Nat,
    (gather l ixs)[k]? = (ixs[k]?).bind (fun i => l[i]?) := by
  intro ixs
  induction ixs with
  | nil => intro _ k; simp [gather]
  | cons i is ih =>
    intro h k
    have hi := h i (by simp)
    have hg : gather l (i :: is) = l[i] :: gather l is := by
      simp [gather, List.filterMap_cons, List.getElem?_eq_getElem hi]
    rw [hg]
    cases k with
    | zero => simp [List.getElem?_eq_getElem hi]
    | succ k => simpa using ih (fun x hx => h x (by simp [hx])) k

/-- **C04.pyIndex_slice_general** — a slice with ANY step s ≠ 0 and any (negative, out-of-range, omitted) bounds selects, with
`start`/`stop` the bounds CPython's `slice.indices(len)` computes: for s > 0 the elements at `start + k·s` for exactly the k
with `start + k·s < stop`; for s < 0 the elements at `start − k·|s|` for exactly the k with `stop < start − k·|s|` — in this order -/
theorem pyIndex_slice_general {α} (l : List α) (a b : Option Int) (s : Int) (hs : s ≠ 0) :
    ∃ r, pyIndex l (.slice a b s) = some r ∧ ∀ k : Nat,
      r[k]? =
        if 0 < s then
          (if sliceStart l.length a s + ((k * s.toNat : Nat) : Int) < sliceStop l.length b s
            then l[(sliceStart l.length a s + ((k * s.toNat : Nat) : Int)).toNat]? else none)
        else
          (if sliceStop l.length b s < sliceStart l.length a s - ((k * (-s).toNat : Nat) : Int)
            then l[(sliceStart l.length a s - ((k * (-s).toNat : Nat) : Int)).toNat]? else none) := by
  have htl : (Idx.slice a b s).toList l.length = sliceList l.length a b s := rfl
  obtain ⟨ba1, ba2⟩ := slice_bounds l.length a s
  obtain ⟨bb1, bb2⟩ := slice_bounds l.length b s
  by_cases hpos : 0 < s
  · have hsl : sliceList l.length a b s = some (rangeUp (sliceStop l.length b s) s.toNat (l.length + 1) (sliceStart l.length a s)) := by
      unfold sliceList; simp [hs, hpos]
    refine ⟨gather l (rangeUp (sliceStop l.length b s) s.toNat (l.length + 1) (sliceStart l.length a s)), ?_, ?_⟩
    · unfold pyIndex; rw [htl, hsl]; rfl
    · intro k
      have hlt := toList_lt l.length (.slice a b s) _ (by rw [htl, hsl])
      rw [gather_getElem? l _ hlt k,
        rangeUp_getElem? _ s.toNat (by omega) (l.length + 1) _ (by have := ba1 hpos; have := bb1 hpos; omega) k]
      simp only [hpos, if_true]
      split <;> simp
  · have hneg : s < 0 := by omega
    have hsl : sliceList l.length a b s = some (rangeDown (sliceStop l.length b s) (-s).toNat (l.length + 1) (sliceStart l.length a s)) := by
      unfold sliceList; simp [hs, hpos]
    refine ⟨gather l (rangeDown (sliceStop l.length b s) (-s).toNat (l.length + 1) (sliceStart l.length a s)), ?_, ?_⟩
    · unfold pyIndex; rw [htl, hsl]; rfl
    · intro k
      have hlt := toList_lt l.length (.slice a b s) _ (by rw [htl, hsl])
      rw [gather_getElem? l _ hlt k,
        rangeDown_getElem? _ (-s).toNat (by omega) (l.length + 1) _ (by have := ba2 hneg; have := bb2 hneg; omega) k]
      simp only [hpos, if_false]
      split <;> simp

/-- the extractor's own `__getitem__` with any stepped slice: the abstraction of the result is that list selection -/
theorem index_slice_general (e : Ext) (h : LenWF e) (a b : Option Int) (s : Int) :
    (e.index (.slice a b s)).map Ext.abs = pyIndex e.abs (.slice a b s) := select_refines e h _

/-! d[::2], d[5:0:-2] on seven elements -/
example : pyIndex [0, 1, 2, 3, 4, 5, 6] (.slice none none 2) = some [0, 2, 4, 6] := by decide
example : pyIndex [0, 1, 2, 3, 4, 5, 6] (.slice (some 5) (some 0) (-2)) = some [5, 3, 1] := by decide

end C04
