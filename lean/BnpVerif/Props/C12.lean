import BnpVerif.Model.C12
import BnpVerif.Gen.C12
/-! C12 property theorems (see `Audit/C12.lean` for the list). -/
namespace C12

/-- **C12.gen_flags** — obligations regenerated from the running code on every run: `chromosome_order`
covers every included name, and both synchronising generators look one item ahead. -/
theorem gen_flags : Gen.C12.orderSkipsUnderscore = false ∧ Gen.C12.iterLookahead = true ∧ Gen.C12.syncLookahead = true := by
  decide

end C12
