import BnpVerif.Model.C12
import BnpVerif.Gen.C12
/-! C12 property theorems (see `Audit/C12.lean` for the list). Helper lemmas first. -/
namespace C12

/-- **C12.gen_flags** — obligations regenerated from the running code on every run: `chromosome_order`
covers every included name, and both synchronising generators look one item ahead. -/
theorem gen_flags : Gen.C12.orderSkipsUnderscore = false ∧ Gen.C12.iterLookahead = true ∧ Gen.C12.syncLookahead = true := by
  decide

/-! ### refutations of the shipped rules (witnesses replayed on the implementation) -/

/-- **C12.zip_second_unsound** — without look-ahead, a mis-ordered stream that is *not* the first
argument of `zip` completes silently: genome order `[0, 1]`, first operand in order, second operand
`[1, 0]`. `zip` completes with two rows and the second operand's entries of contig 0 are left out,
although the property demands an error (`specSync = none`); the same mis-order in the first operand
raises. Holds for `iter_chromosomes` and for `SynchedStream` (forbes / jaccard). -/
theorem zip_second_unsound :
    let good : List Group := [⟨0, [1]⟩, ⟨1, [2]⟩]
    let bad : List Group := [⟨1, [2]⟩, ⟨0, [1]⟩]
    specSync [0, 1] [] bad = none ∧
    zipAll 8 [.iter (IterSt.init [0, 1] [0, 1] [] good), .iter (IterSt.init [0, 1] [0, 1] [] bad)] =
      some [[[1], []], [[2], [2]]] ∧
    zipAll 8 [.iter (IterSt.init [0, 1] [0, 1] [] bad), .iter (IterSt.init [0, 1] [0, 1] [] good)] = none ∧
    zipAll 8 [.sync (SyncSt.init [0, 1] good), .sync (SyncSt.init [0, 1] bad), .plain [[16], [17]]] =
      some [[[1], [], [16]], [[2], [2], [17]]] ∧
    zipAll 8 [.sync (SyncSt.init [0, 1] bad), .sync (SyncSt.init [0, 1] good), .plain [[16], [17]]] = none := by
  decide

/-- **C12.graph_single_stream_unsound** — the same happens with a single data stream when the consumer
pulls another stream first (the computation graph evaluates the chromosome-name stream before the
data stream): the mis-ordered data `[1, 0]` completes with contig 0's entries dropped. -/
theorem graph_single_stream_unsound :
    zipAll 8 [.plain [[], []], .iter (IterSt.init [0, 1] [0, 1] [] [⟨1, [2]⟩, ⟨0, [1]⟩]), .plain [[], []]] =
      some [[[], [], []], [[], [2], []]] := by
  decide

/-- **C12.underscore_unsound** — with `chromosome_order` leaving out an included name (contig 1 carries
a `_` and the filter is disabled: order `[0, 2]`, included `[0, 1, 2]`), pull-all evaluation completes
with contig 1's entries dropped, and sorted data is rejected. -/
theorem underscore_unsound :
    pullAll IterSt.pull 8 (IterSt.init [0, 2] [0, 1, 2] [] [⟨1, [3]⟩]) = some [[], []] ∧
    specSync [0, 1, 2] [] [⟨1, [3]⟩] = some [[], [3], []] ∧
    pullAll IterSt.pull 8 (IterSt.init [0, 2] [0, 1, 2] [] [⟨1, [3]⟩, ⟨2, [4]⟩]) = none ∧
    specSync [0, 1, 2] [] [⟨1, [3]⟩, ⟨2, [4]⟩] = some [[], [3], [4]] := by
  decide

/-- **C12.zip_fixed_witness** — with the look-ahead of the repair the witnesses above raise. -/
theorem zip_fixed_witness :
    let good : List Group := [⟨0, [1]⟩, ⟨1, [2]⟩]
    let bad : List Group := [⟨1, [2]⟩, ⟨0, [1]⟩]
    zipAll 8 [.lookIter (IterSt.init [0, 1] [0, 1] [] good) .fresh, .lookIter (IterSt.init [0, 1] [0, 1] [] bad) .fresh] = none ∧
    zipAll 8 [.lookSync (SyncSt.init [0, 1] good) .fresh, .lookSync (SyncSt.init [0, 1] bad) .fresh, .plain [[16], [17]]] = none ∧
    zipAll 8 [.plain [[], []], .lookIter (IterSt.init [0, 1] [0, 1] [] bad) .fresh, .plain [[], []]] = none ∧
    zipAll 8 [.lookIter (IterSt.init [0, 1] [0, 1] [] good) .fresh, .lookIter (IterSt.init [0, 1] [0, 1] [] good) .fresh] =
      some [[[1], [1]], [[2], [2]]] := by
  decide

/-! ### every chunking gives the same groups -/

theorem joinOne_singleton (e : Name × Nat) (Z : List Group) :
    joinOne { name := e.1, items := [e.2] } Z = consEntry e Z := by
  cases Z with
  | nil => rfl
  | cons h t => simp [joinOne, consEntry]

theorem foldr_join_chunk (a : List (Name × Nat)) (X : List Group) :
    (chunkGroups a).foldr joinOne X = a.foldr consEntry X := by
  induction a with
  | nil => rfl
  | cons e a' ih =>
    simp only [chunkGroups, List.foldr_cons] at ih ⊢
    cases hc : List.foldr consEntry [] a' with
    | nil =>
      rw [hc] at ih
      simp only [List.foldr_nil] at ih
      have h1 : consEntry e [] = [{ name := e.1, items := [e.2] }] := rfl
      rw [h1, List.foldr_cons, List.foldr_nil, ← ih, joinOne_singleton]
    | cons g t =>
      rw [hc] at ih
      simp only [List.foldr_cons] at ih
      by_cases hg : g.name = e.1
      · simp only [consEntry, hg, if_true, List.foldr_cons]
        rw [← ih]
        cases hY : List.foldr joinOne X t with
        | nil => simp [joinOne, hg]
        | cons h t' =>
          by_cases hh : h.name = g.name
          · have : h.name = e.1 := by rw [hh, hg]
            simp [joinOne, hh, hg]
          · have : ¬ h.name = e.1 := by rw [← hg]; exact hh
            simp [joinOne, hg, this]
      · simp only [consEntry, hg, if_false, List.foldr_cons]
        rw [← ih]
        exact joinOne_singleton e _

/-- **C12.groups_chunking** — for *every* chunking of the entries, grouping each chunk and joining
equal consecutive keys across the chunk borders gives the runs of equal contig name of the whole
entry list: the group sequence the synchronisers see does not depend on the chunking. -/
theorem groups_chunking (chunks : List (List (Name × Nat))) :
    groupsOfChunks chunks = chunkGroups chunks.flatten := by
  unfold groupsOfChunks
  induction chunks with
  | nil => rfl
  | cons c rest ih =>
    simp only [List.map_cons, List.flatten_cons, joinGroups, List.foldr_append]
    rw [foldr_join_chunk]
    simp only [joinGroups] at ih
    rw [ih, chunkGroups, chunkGroups, List.foldr_append]

/-! ### change-point detection on ragged (`str`-typed) key columns -/

/-- **C12.ragged_change_iff** — on a `str`-typed key column the change-point detection of `groupby` marks a
boundary between two adjacent rows exactly when the two names differ — also when one name is a proper
prefix of the other (`chr1` followed by `chr10`) and whatever follows in the chunk; without the comparison
of the row lengths a name would swallow a following name that extends it (witness). -/
theorem ragged_change_iff (a b after : List Nat) :
    (raggedChange true a b after = true ↔ a ≠ b) ∧
    raggedChange false [99, 104, 114, 49] [99, 104, 114, 49, 48] [99, 104, 114, 50] = false := by
  refine ⟨?_, by decide⟩
  by_cases hl : a.length = b.length
  · have hwin : ∀ j, j < a.length → (b ++ after).getD j ((b ++ after).getLast?.getD 0) = b.getD j 0 := by
      intro j hj
      have hjb : j < b.length := by omega
      simp [List.getD_eq_getElem?_getD, List.getElem?_append_left hjb, List.getElem?_eq_getElem hjb]
    simp only [raggedChange, hl, bne_self_eq_false, Bool.and_false, Bool.false_or, List.any_eq_true, List.mem_range,
      bne_iff_ne, ne_eq]
    constructor
    · intro ⟨j, hj, hne⟩ hab
      rw [hwin j (by omega), hab] at hne
      exact hne rfl
    · intro hab
      refine Classical.byContradiction fun hno => hab ?_
      apply List.ext_getElem hl
      intro j h1 h2
      have := fun h => hno ⟨j, by omega, h⟩
      rw [hwin j h1] at this
      simp only [List.getD_eq_getElem?_getD, List.getElem?_eq_getElem h1, List.getElem?_eq_getElem h2,
        Option.getD_some] at this
      exact Classical.byContradiction this
  · have : a ≠ b := fun h => hl (by rw [h])
    simp [raggedChange, hl, this]

/-- an empty chunk — also strictly inside a contig's run — does not close the pending group (instance of `groups_chunking`) -/
example : groupsOfChunks [[], [(1, 0)], [], [(1, 1), (2, 2)], [], [(2, 3)], []] = [⟨1, [0, 1]⟩, ⟨2, [2, 3]⟩] := by decide

/-- **C12.repeated_group_unsound** — the rule shipped before repair f720bbc: when the data returns to the contig that
was just handed out with only an ignored contig in between (`chr1, chr1_alt, chr1`; contig 0, ignored 7), pull-all
evaluation completed and the second group's entries were dropped; the repaired generator raises. -/
theorem repeated_group_unsound :
    pullAll IterSt.pullOld 8 (IterSt.init [0, 1] [0, 1] [7] [⟨0, [1]⟩, ⟨7, [2]⟩, ⟨0, [3]⟩]) = some [[1], []] ∧
    pullAll IterSt.pull 8 (IterSt.init [0, 1] [0, 1] [7] [⟨0, [1]⟩, ⟨7, [2]⟩, ⟨0, [3]⟩]) = none ∧
    specSync [0, 1] [7] [⟨0, [1]⟩, ⟨7, [2]⟩, ⟨0, [3]⟩] = none := by
  decide

/-- **C12.compatible_iff_sublist** — the specification's "the contigs of the data come in an order compatible with the
genome" is pinned by a standard notion: the data's contig names form a `List.Sublist` of the genome order. -/
theorem compatible_iff_sublist (l ord : List Name) : compatible l ord = true ↔ l.Sublist ord := by
  induction ord generalizing l with
  | nil =>
    cases l with
    | nil => simp [compatible]
    | cons a l => simp [compatible]
  | cons b ord ih =>
    cases l with
    | nil => simp [compatible]
    | cons a l =>
      simp only [compatible]
      by_cases hab : a = b
      · subst hab
        simp only [if_true, ih l]
        constructor
        · intro h; exact h.cons_cons a
        · intro h
          cases h with
          | cons _ h' => exact (List.sublist_cons_self a l).trans h'
          | cons_cons _ h' => exact h'
      · simp only [hab, if_false, ih (a :: l)]
        constructor
        · intro h; exact h.cons b
        · intro h
          cases h with
          | cons _ h' => exact h'
          | cons_cons _ h' => exact absurd rfl hab

/-- **C12.sync_chunking_independent** — two chunkings of the same entries (any cut positions, empty chunks anywhere)
give the same groups, hence every consumer's result is the same. -/
theorem sync_chunking_independent (c₁ c₂ : List (List (Name × Nat))) (h : c₁.flatten = c₂.flatten) :
    groupsOfChunks c₁ = groupsOfChunks c₂ := by
  rw [groups_chunking, groups_chunking, h]

example : ([[(1, 0)], [], [(1, 1), (2, 2)]] : List (List (Name × Nat))).flatten = [[(1, 0), (1, 1)], [(2, 2)]].flatten := by decide

/-! ### the pull-step machine of `iter_chromosomes` under a pull-all consumer is a walk over the order -/

/-- big-step form of the generator, from the top of the `for name in real_order` loop -/
def walk (O I : List Name) : List Name → List Name → Option Group → List Group → Option (List Item)
  | [], _, _, src =>
    match nextIncluded O I src with
    | some (none, _) => some []
    | _ => none
  | name :: rest, seen, nx, src =>
    match nx with
    | some g =>
      if g.name = name then
        match nextIncluded O I src with
        | none => none
        | some (nx', src') =>
          if (match nx' with | some g' => seen.contains g'.name || g'.name == name | none => false) then none
          else (walk O I rest (seen ++ [name]) nx' src').map (g.items :: ·)
      else (walk O I rest (seen ++ [name]) nx src).map ([] :: ·)
    | none => (walk O I rest (seen ++ [name]) none src).map ([] :: ·)

/-- what a pull-all consumer makes of the result of one pull -/
def cont (fuel : Nat) : Step IterSt → Option (List Item)
  | .error => none
  | .done => some []
  | .yield x s' => (pullAll IterSt.pull fuel s').map (x :: ·)

theorem pullAll_succ (f : Nat) (s : IterSt) : pullAll IterSt.pull (f + 1) s = cont f s.pull := by
  simp only [pullAll, cont]
  cases s.pull <;> rfl

theorem serve_eq_walk (ord : List Name) : ∀ (s : IterSt) (fuel : Nat), s.order = ord → ord.length + 1 ≤ fuel →
    cont fuel s.serve = walk s.included s.ignored ord s.seen s.next s.src := by
  induction ord with
  | nil =>
    intro s fuel ho _
    simp only [IterSt.serve, ho, walk]
    cases nextIncluded s.included s.ignored s.src with
    | none => rfl
    | some r =>
      obtain ⟨nx, src'⟩ := r
      cases nx <;> rfl
  | cons name rest ih =>
    intro s fuel ho hf
    obtain ⟨f, rfl⟩ : ∃ f, fuel = f + 1 := ⟨fuel - 1, by simp at hf; omega⟩
    have hf' : rest.length + 1 ≤ f := by simp at hf; omega
    simp only [IterSt.serve, ho, walk]
    cases hnx : s.next with
    | none =>
      simp only [cont]
      rw [pullAll_succ]
      simp only [IterSt.pull]
      have := ih { s with order := rest, phase := .afterEmpty name, seen := s.seen ++ [name] } f rfl hf'
      simp only [hnx] at this
      rw [this]
    | some g =>
      by_cases hg : g.name = name
      · simp only [hg, if_true, cont]
        rw [pullAll_succ]
        simp only [IterSt.pull]
        cases hni : nextIncluded s.included s.ignored s.src with
        | none => rfl
        | some r =>
          obtain ⟨nx', src'⟩ := r
          simp only []
          cases nx' with
          | none =>
            simp only [Bool.false_eq_true, if_false]
            have := ih { s with order := rest, phase := .afterGroup name, next := none, src := src', seen := s.seen ++ [name] } f rfl hf'
            simp only [] at this
            rw [this]
          | some g' =>
            by_cases hs : g'.name ∈ s.seen ∨ g'.name = name
            · simp [hs, cont]
            · simp only [List.contains_eq_mem, Bool.or_eq_true, decide_eq_true_eq, beq_iff_eq, hs, if_false]
              have := ih { s with order := rest, phase := .afterGroup name, next := some g', src := src', seen := s.seen ++ [name] } f rfl hf'
              simp only [] at this
              rw [this]
      · simp only [hg, if_false, cont]
        rw [pullAll_succ]
        simp only [IterSt.pull]
        have := ih { s with order := rest, phase := .afterEmpty name, seen := s.seen ++ [name] } f rfl hf'
        simp only [hnx] at this
        rw [this]

/-- pull-all evaluation of `iter_chromosomes` in big-step form -/
theorem pullAll_iter_eq_walk (order included ignored : List Name) (gs : List Group) (fuel : Nat)
    (hf : order.length + 2 ≤ fuel) :
    pullAll IterSt.pull fuel (IterSt.init order included ignored gs) =
    match nextIncluded included ignored gs with
    | none => none
    | some (nx, src) => walk included ignored order [] nx src := by
  obtain ⟨f, rfl⟩ : ∃ f, fuel = f + 1 := ⟨fuel - 1, by omega⟩
  rw [pullAll_succ]
  simp only [IterSt.pull, IterSt.init]
  cases hni : nextIncluded included ignored gs with
  | none => rfl
  | some r =>
    obtain ⟨nx, src⟩ := r
    simp only []
    have := serve_eq_walk order { order := order, included := included, ignored := ignored, src := src, next := nx, seen := [], phase := .start } f rfl (by omega)
    simp only [] at this
    rw [this]

/-! ### the walk is the specification -/

/-- the groups the generator does not skip -/
def kept (I : List Name) (src : List Group) : List Group := src.filter (fun g => !I.contains g.name)

/-- `specSync` on an already filtered group list -/
def spec' (ord : List Name) (l : List Group) : Option (List Item) :=
  if compatible (l.map (·.name)) ord then some (ord.map (itemsOf l)) else none

theorem specSync_eq (order ignored : List Name) (gs : List Group) :
    specSync order ignored gs = spec' order (kept ignored gs) := rfl

theorem compatible_mem (l ord : List Name) (h : compatible l ord = true) : ∀ a ∈ l, a ∈ ord := by
  induction ord generalizing l with
  | nil =>
    cases l with
    | nil => simp
    | cons a l => simp [compatible] at h
  | cons b ord ih =>
    cases l with
    | nil => simp
    | cons a l =>
      simp only [compatible] at h
      intro x hx
      by_cases hab : a = b
      · simp only [hab, if_true] at h
        rcases List.mem_cons.mp hx with rfl | hx
        · simp [hab]
        · exact List.mem_cons_of_mem _ (ih l h x hx)
      · simp only [hab, if_false] at h
        exact List.mem_cons_of_mem _ (ih (a :: l) h x hx)

theorem compatible_nil (ord : List Name) : compatible [] ord = true := by
  cases ord <;> rfl

theorem kept_cons (I : List Name) (g : Group) (r : List Group) :
    kept I (g :: r) = if I.contains g.name then kept I r else g :: kept I r := by
  simp only [kept, List.filter_cons]
  cases I.contains g.name <;> simp

theorem nextIncluded_spec (O I : List Name) (src : List Group) :
    match nextIncluded O I src with
    | some (none, r) => kept I src = [] ∧ r = []
    | some (some g, r) => kept I src = g :: kept I r ∧ g.name ∈ O
    | none => ∃ g r, kept I src = g :: r ∧ g.name ∉ O := by
  induction src with
  | nil => simp [nextIncluded, kept]
  | cons g r ih =>
    simp only [nextIncluded]
    by_cases hi : I.contains g.name = true
    · simp only [hi, if_true]
      rw [kept_cons, if_pos hi]
      exact ih
    · simp only [hi, Bool.false_eq_true, if_false]
      rw [kept_cons, if_neg hi]
      by_cases ho : O.contains g.name = true
      · simp only [ho, if_true]
        first
          | exact ⟨rfl, by simpa using ho⟩
          | simpa using ho
      · simp only [ho, Bool.false_eq_true, if_false]
        exact ⟨g, kept I r, rfl, by simpa using ho⟩

theorem nextIncluded_of_kept_nil (O I : List Name) (src : List Group) (h : kept I src = []) :
    ∃ r, nextIncluded O I src = some (none, r) := by
  have := nextIncluded_spec O I src
  cases hn : nextIncluded O I src with
  | none => rw [hn] at this; obtain ⟨g, r, h1, _⟩ := this; rw [h] at h1; cases h1
  | some p =>
    obtain ⟨nx, r⟩ := p
    cases nx with
    | none => exact ⟨r, rfl⟩
    | some g => rw [hn] at this; rw [h] at this; cases this.1

theorem itemsOf_cons_eq (g : Group) (l : List Group) (n : Name) (h : g.name = n) : itemsOf (g :: l) n = g.items := by
  simp [itemsOf, h]

theorem itemsOf_cons_ne (g : Group) (l : List Group) (n : Name) (h : g.name ≠ n) : itemsOf (g :: l) n = itemsOf l n := by
  simp [itemsOf, h]

theorem itemsOf_not_mem (l : List Group) (n : Name) (h : ∀ g ∈ l, g.name ≠ n) : itemsOf l n = [] := by
  induction l with
  | nil => rfl
  | cons g l ih =>
    rw [itemsOf_cons_ne g l n (h g (List.mem_cons_self ..))]
    exact ih (fun x hx => h x (List.mem_cons_of_mem _ hx))

theorem spec'_cons_eq (g : Group) (K : List Group) (name : Name) (rest : List Name) (hg : g.name = name)
    (hn : name ∉ rest) : spec' (name :: rest) (g :: K) = (spec' rest K).map (g.items :: ·) := by
  simp only [spec', List.map_cons, compatible, hg, if_true]
  by_cases hc : compatible (K.map (·.name)) rest = true
  · simp only [hc, if_true, Option.map_some, Option.some.injEq]
    rw [itemsOf_cons_eq g K name hg]
    congr 1
    apply List.map_congr_left
    intro n hnr
    exact itemsOf_cons_ne g K n (by rw [hg]; intro h; exact hn (h ▸ hnr))
  · simp [hc]

theorem spec'_cons_ne (l : List Group) (name : Name) (rest : List Name) (hn : name ∉ rest)
    (hl : ∀ g, l.head? = some g → g.name ≠ name) :
    spec' (name :: rest) l = (spec' rest l).map ([] :: ·) := by
  have hcomp : compatible (l.map (·.name)) (name :: rest) = compatible (l.map (·.name)) rest := by
    cases l with
    | nil => simp [compatible_nil]
    | cons g K =>
      have := hl g rfl
      simp [compatible, this]
  simp only [spec', hcomp]
  by_cases hc : compatible (l.map (·.name)) rest = true
  · simp only [hc, if_true, Option.map_some, Option.some.injEq, List.map_cons]
    congr 1
    apply itemsOf_not_mem
    intro g hg h
    have := compatible_mem _ _ hc g.name (List.mem_map_of_mem hg)
    exact hn (h ▸ this)
  · simp [hc]

theorem walk_spec (O I : List Name) (ord : List Name) : ∀ (seen : List Name) (nx : Option Group) (src : List Group),
    ord.Nodup → (∀ n ∈ ord, n ∈ O) → (∀ n ∈ seen, n ∉ ord) → (∀ n ∈ O, n ∈ seen ∨ n ∈ ord) →
    (∀ g, nx = some g → g.name ∈ ord) → (nx = none → kept I src = []) →
    walk O I ord seen nx src = spec' ord (nx.toList ++ kept I src) := by
  induction ord with
  | nil =>
    intro seen nx src _ _ _ _ hnx hnone
    cases nx with
    | some g => have := hnx g rfl; simp at this
    | none =>
      have hk := hnone rfl
      obtain ⟨r, hr⟩ := nextIncluded_of_kept_nil O I src hk
      simp [walk, hr, hk, spec', compatible]
  | cons name rest ih =>
    intro seen nx src hnd hsub hdis hcov hnx hnone
    have hname : name ∉ rest := (List.nodup_cons.mp hnd).1
    have hrest : rest.Nodup := (List.nodup_cons.mp hnd).2
    have hsub' : ∀ n ∈ rest, n ∈ O := fun n h => hsub n (List.mem_cons_of_mem _ h)
    have hdis' : ∀ n ∈ seen ++ [name], n ∉ rest := by
      intro n hn
      rcases List.mem_append.mp hn with h | h
      · exact fun hr => hdis n h (List.mem_cons_of_mem _ hr)
      · have : n = name := by simpa using h
        rw [this]; exact hname
    have hcov' : ∀ n ∈ O, n ∈ seen ++ [name] ∨ n ∈ rest := by
      intro n hn
      rcases hcov n hn with h | h
      · exact Or.inl (List.mem_append_left _ h)
      · rcases List.mem_cons.mp h with rfl | h
        · exact Or.inl (by simp)
        · exact Or.inr h
    cases nx with
    | none =>
      have hk := hnone rfl
      simp only [walk, Option.toList, List.nil_append, hk]
      rw [ih (seen ++ [name]) none src hrest hsub' hdis' hcov' (by simp) (fun _ => hk)]
      simp only [Option.toList, List.nil_append, hk]
      rw [spec'_cons_ne [] name rest hname (by simp)]
    | some g =>
      have hgo := hnx g rfl
      simp only [Option.toList, List.singleton_append]
      by_cases hg : g.name = name
      · simp only [walk, hg, if_true]
        have hspec := nextIncluded_spec O I src
        cases hni : nextIncluded O I src with
        | none =>
          rw [hni] at hspec
          obtain ⟨k, r, hk, hko⟩ := hspec
          simp only []
          rw [spec'_cons_eq g _ name rest hg hname, hk]
          have : compatible ((k :: r).map (·.name)) rest = false := by
            cases hc : compatible ((k :: r).map (·.name)) rest with
            | false => rfl
            | true =>
              have := compatible_mem _ _ hc k.name (by simp)
              exact absurd (hsub' _ this) hko
          simp only [List.map_cons] at this
          simp [spec', this]
        | some p =>
          obtain ⟨nx', src'⟩ := p
          rw [hni] at hspec
          simp only []
          cases nx' with
          | none =>
            obtain ⟨hk, hr⟩ := hspec
            simp only [Bool.false_eq_true, if_false]
            subst hr
            rw [ih (seen ++ [name]) none [] hrest hsub' hdis' hcov' (by simp) (fun _ => by simp [kept])]
            rw [spec'_cons_eq g _ name rest hg hname, hk]
            simp [kept]
          | some g' =>
            obtain ⟨hk, hgo'⟩ := hspec
            by_cases hs : g'.name ∈ seen ∨ g'.name = name
            · have hb : (seen.contains g'.name || g'.name == name) = true := by
                simpa using hs
              simp only [hb, if_true]
              rw [spec'_cons_eq g _ name rest hg hname, hk]
              have : compatible ((g' :: kept I src').map (·.name)) rest = false := by
                cases hc : compatible ((g' :: kept I src').map (·.name)) rest with
                | false => rfl
                | true =>
                  have hm := compatible_mem _ _ hc g'.name (by simp)
                  rcases hs with h | h
                  · exact absurd (List.mem_cons_of_mem _ hm) (hdis _ h)
                  · rw [h] at hm; exact absurd hm hname
              simp only [List.map_cons] at this
              simp [spec', this]
            · have hb : (seen.contains g'.name || g'.name == name) = false := by
                cases h : (seen.contains g'.name || g'.name == name) with
                | false => rfl
                | true => exact absurd (by simpa using h) hs
              simp only [hb, Bool.false_eq_true, if_false]
              have hg'rest : g'.name ∈ rest := by
                rcases hcov _ hgo' with h | h
                · exact absurd (Or.inl h) hs
                · rcases List.mem_cons.mp h with h | h
                  · exact absurd (Or.inr h) hs
                  · exact h
              rw [ih (seen ++ [name]) (some g') src' hrest hsub' hdis' hcov'
                (by intro x hx; cases hx; exact hg'rest) (by simp)]
              rw [spec'_cons_eq g _ name rest hg hname, hk]
              simp [Option.toList]
      · simp only [walk, hg, if_false]
        have hgrest : g.name ∈ rest := by
          rcases List.mem_cons.mp hgo with h | h
          · exact absurd h hg
          · exact h
        rw [ih (seen ++ [name]) (some g) src hrest hsub' hdis' hcov'
          (by intro x hx; cases hx; exact hgrest) (by simp)]
        simp only [Option.toList, List.singleton_append]
        rw [spec'_cons_ne (g :: kept I src) name rest hname (by intro x hx; simp at hx; rw [← hx]; exact hg)]

/-- **C12.sync_complete** — for every genome order (distinct names), ignored set and sequence of groups —
NO assumption on the group names any more: a name may even repeat (entries of a contig not contiguous);
after the repair that is an error like any other incompatible order — pull-all evaluation of
`iter_chromosomes` (a `for` loop, `list(...)`, `compute` of one stream) is *exactly* the
specification: it completes iff every non-ignored group name is in the order and the names occur in
an order compatible with it, and then output `i` is the group named `order[i]` or the empty table;
otherwise an error is raised. In particular it never completes with entries left out or assigned to
another contig. -/
theorem sync_complete (order ignored : List Name) (gs : List Group) (fuel : Nat)
    (hord : order.Nodup) (hf : order.length + 2 ≤ fuel) :
    pullAll IterSt.pull fuel (IterSt.init order order ignored gs) = specSync order ignored gs ∧
    (∀ out, specSync order ignored gs = some out →
      out = order.map (itemsOf (kept ignored gs)) ∧
      ∀ g ∈ gs, g.name ∈ order ∨ g.name ∈ ignored) := by
  constructor
  · rw [pullAll_iter_eq_walk _ _ _ _ _ hf, specSync_eq]
    have hspec := nextIncluded_spec order ignored gs
    cases hni : nextIncluded order ignored gs with
    | none =>
      rw [hni] at hspec
      obtain ⟨k, r, hk, hko⟩ := hspec
      simp only []
      rw [hk]
      have : compatible ((k :: r).map (·.name)) order = false := by
        cases hc : compatible ((k :: r).map (·.name)) order with
        | false => rfl
        | true => exact absurd (compatible_mem _ _ hc k.name (by simp)) hko
      simp only [List.map_cons] at this
      simp [spec', this]
    | some p =>
      obtain ⟨nx, src⟩ := p
      rw [hni] at hspec
      simp only []
      cases nx with
      | none =>
        obtain ⟨hk, hr⟩ := hspec
        subst hr
        rw [walk_spec order ignored order [] none [] hord (fun _ h => h) (by simp) (fun n h => Or.inr h)
          (by simp) (fun _ => by simp [kept])]
        rw [hk]; simp [kept]
      | some g =>
        obtain ⟨hk, hgo⟩ := hspec
        rw [walk_spec order ignored order [] (some g) src hord (fun _ h => h) (by simp) (fun n h => Or.inr h)
          (by intro x hx; cases hx; exact hgo) (by simp)]
        rw [hk]; simp [Option.toList]
  · intro out hout
    rw [specSync_eq, spec'] at hout
    by_cases hc : compatible ((kept ignored gs).map (·.name)) order = true
    · simp only [hc, if_true, Option.some.injEq] at hout
      refine ⟨hout.symm, ?_⟩
      intro g hg
      by_cases hi : ignored.contains g.name = true
      · exact Or.inr (by simpa using hi)
      · have : g ∈ kept ignored gs := by
          simp only [kept, List.mem_filter]
          exact ⟨hg, by simpa using hi⟩
        exact Or.inl (compatible_mem _ _ hc g.name (List.mem_map_of_mem this))
    · simp [hc] at hout

example : [0, 1, 2].Nodup := by decide

/-! ### the one-item look-ahead: every item handed out is backed by one more successful pull -/

theorem look_holding {σ : Type} (pull : σ → Step σ) (n : Nat) : ∀ (s : σ) (y : Item) (xs : List Item) (st : σ × Hold),
    takeN (lookPull pull) (n + 1) (s, .holding y) = some (xs, st) →
    ∃ xs' s₁, xs = y :: xs' ∧ takeN pull n s = some (xs', s₁) ∧
      ((st = (s₁, .last) ∧ pull s₁ = .done) ∨ ∃ z s₂, st = (s₂, .holding z) ∧ pull s₁ = .yield z s₂) := by
  induction n with
  | zero =>
    intro s y xs st h
    simp only [takeN, lookPull] at h
    cases hp : pull s with
    | error => rw [hp] at h; simp at h
    | done =>
      rw [hp] at h
      simp only [Option.map_some, Option.some.injEq, Prod.mk.injEq] at h
      exact ⟨[], s, h.1.symm, rfl, Or.inl ⟨h.2.symm, hp⟩⟩
    | yield z s₂ =>
      rw [hp] at h
      simp only [Option.map_some, Option.some.injEq, Prod.mk.injEq] at h
      exact ⟨[], s, h.1.symm, rfl, Or.inr ⟨z, s₂, h.2.symm, hp⟩⟩
  | succ n ih =>
    intro s y xs st h
    rw [takeN] at h
    simp only [lookPull] at h
    cases hp : pull s with
    | error => rw [hp] at h; simp at h
    | done =>
      rw [hp] at h
      simp only [takeN, lookPull] at h
      simp at h
    | yield z s₂ =>
      rw [hp] at h
      simp only [] at h
      cases hr : takeN (lookPull pull) (n + 1) (s₂, .holding z) with
      | none => rw [hr] at h; simp at h
      | some r =>
        rw [hr] at h
        simp only [Option.map_some, Option.some.injEq, Prod.mk.injEq] at h
        obtain ⟨xs', s₁, hx, ht, hfin⟩ := ih s₂ z r.1 r.2 (by rw [hr])
        refine ⟨r.1, s₁, h.1.symm, ?_, ?_⟩
        · simp only [takeN, hp, ht, hx, Option.map_some]
        · rw [← h.2]; exact hfin

/-- if the look-ahead generator hands out `n ≥ 1` items, the inner generator yields the same `n` items
and its next pull is not an error -/
theorem look_fresh {σ : Type} (pull : σ → Step σ) (n : Nat) (s : σ) (xs : List Item) (st : σ × Hold)
    (h : takeN (lookPull pull) (n + 1) (s, .fresh) = some (xs, st)) :
    ∃ s₁, takeN pull (n + 1) s = some (xs, s₁) ∧ pull s₁ ≠ .error := by
  rw [takeN] at h
  simp only [lookPull] at h
  cases hp : pull s with
  | error => rw [hp] at h; simp at h
  | done => rw [hp] at h; simp at h
  | yield x s₁ =>
    rw [hp] at h
    simp only [] at h
    cases hp₁ : pull s₁ with
    | error => rw [hp₁] at h; simp at h
    | done =>
      rw [hp₁] at h
      simp only [] at h
      cases n with
      | zero =>
        simp only [takeN, Option.map_some, Option.some.injEq, Prod.mk.injEq] at h
        exact ⟨s₁, by simp [takeN, hp, h.1], by rw [hp₁]; simp⟩
      | succ n => simp [takeN, lookPull] at h
    | yield y s₂ =>
      rw [hp₁] at h
      simp only [] at h
      cases n with
      | zero =>
        simp only [takeN, Option.map_some, Option.some.injEq, Prod.mk.injEq] at h
        exact ⟨s₁, by simp [takeN, hp, h.1], by rw [hp₁]; simp⟩
      | succ n =>
        cases hr : takeN (lookPull pull) (n + 1) (s₂, .holding y) with
        | none => rw [hr] at h; simp at h
        | some r =>
          rw [hr] at h
          simp only [Option.map_some, Option.some.injEq, Prod.mk.injEq] at h
          obtain ⟨xs', s₃, hx, ht, hfin⟩ := look_holding pull n s₂ y r.1 r.2 (by rw [hr])
          refine ⟨s₃, ?_, ?_⟩
          · simp only [takeN, hp, hp₁, ht, Option.map_some, ← h.1, hx]
          · rcases hfin with ⟨_, hd⟩ | ⟨z, s₄, _, hy⟩
            · rw [hd]; simp
            · rw [hy]; simp

theorem pullAll_of_takeN {σ : Type} (pull : σ → Step σ) (n : Nat) : ∀ (s s₁ : σ) (xs : List Item) (fuel : Nat),
    takeN pull n s = some (xs, s₁) → pull s₁ = .done → n + 1 ≤ fuel → pullAll pull fuel s = some xs := by
  induction n with
  | zero =>
    intro s s₁ xs fuel h hd hf
    simp only [takeN, Option.some.injEq, Prod.mk.injEq] at h
    obtain ⟨f, rfl⟩ : ∃ f, fuel = f + 1 := ⟨fuel - 1, by omega⟩
    rw [← h.2] at hd
    simp [pullAll, hd, h.1]
  | succ n ih =>
    intro s s₁ xs fuel h hd hf
    obtain ⟨f, rfl⟩ : ∃ f, fuel = f + 1 := ⟨fuel - 1, by omega⟩
    rw [takeN] at h
    cases hp : pull s with
    | error => rw [hp] at h; simp at h
    | done => rw [hp] at h; simp at h
    | yield x s' =>
      rw [hp] at h
      simp only [] at h
      cases hr : takeN pull n s' with
      | none => rw [hr] at h; simp at h
      | some r =>
        rw [hr] at h
        simp only [Option.map_some, Option.some.injEq, Prod.mk.injEq] at h
        have := ih s' r.2 r.1 f (by rw [hr]) (by rw [h.2]; exact hd) (by omega)
        simp [pullAll, hp, this, h.1]

/-! ### `iter_chromosomes` hands out exactly one item per contig of the order -/

theorem serve_order (s : IterSt) (x : Item) (s' : IterSt) (h : s.serve = .yield x s') :
    s'.order.length + 1 = s.order.length := by
  unfold IterSt.serve at h
  cases ho : s.order with
  | nil =>
    rw [ho] at h
    simp only [] at h
    split at h <;> simp at h
  | cons name rest =>
    rw [ho] at h
    simp only [] at h
    split at h
    · split at h
      · simp only [Step.yield.injEq] at h; rw [← h.2]; simp
      · simp only [Step.yield.injEq] at h; rw [← h.2]; simp
    · simp only [Step.yield.injEq] at h; rw [← h.2]; simp

theorem pull_cases (s : IterSt) : s.pull = .error ∨ ∃ t : IterSt, t.order = s.order ∧ s.pull = t.serve := by
  unfold IterSt.pull
  repeat' split
  all_goals first
    | exact Or.inl rfl
    | (right; refine ⟨_, ?_, rfl⟩; rfl)

theorem pull_order (s : IterSt) (x : Item) (s' : IterSt) (h : s.pull = .yield x s') :
    s'.order.length + 1 = s.order.length := by
  rcases pull_cases s with he | ⟨t, ht, hs⟩
  · rw [he] at h; simp at h
  · rw [hs] at h
    rw [← ht]
    exact serve_order t x s' h

theorem takeN_order (n : Nat) : ∀ (s s₁ : IterSt) (xs : List Item), takeN IterSt.pull n s = some (xs, s₁) →
    s₁.order.length + n = s.order.length := by
  induction n with
  | zero => intro s s₁ xs h; simp only [takeN, Option.some.injEq, Prod.mk.injEq] at h; rw [h.2]; rfl
  | succ n ih =>
    intro s s₁ xs h
    rw [takeN] at h
    cases hp : s.pull with
    | error => rw [hp] at h; simp at h
    | done => rw [hp] at h; simp at h
    | yield x s' =>
      rw [hp] at h
      simp only [] at h
      cases hr : takeN IterSt.pull n s' with
      | none => rw [hr] at h; simp at h
      | some r =>
        rw [hr] at h
        simp only [Option.map_some, Option.some.injEq, Prod.mk.injEq] at h
        have h1 := ih s' r.2 r.1 (by rw [hr])
        have h2 := pull_order s x s' hp
        rw [← h.2]; omega

theorem pull_not_yield_of_order_nil (s : IterSt) (ho : s.order = []) (x : Item) (s' : IterSt) : s.pull ≠ .yield x s' := by
  intro h
  have := pull_order s x s' h
  rw [ho] at this
  simp at this

/-- **C12.sync_complete_any_consumer** — with the one-item look-ahead of the repair, *any* consumer that
obtains all `|order|` items from `iter_chromosomes` — whether or not it ever pulls again (`zip`
next to other streams, the computation graph, a plain loop) — has obtained exactly the
specification's per-contig tables, and the data was compatible with the genome order; on
incompatible data, or data naming an unknown contig, an exception is raised no later than at the
last item. Nothing can be dropped or re-assigned silently by cutting the evaluation short. -/
theorem sync_complete_any_consumer (order ignored : List Name) (gs : List Group)
    (hord : order.Nodup) (hpos : 0 < order.length)
    (xs : List Item) (st : IterSt × Hold)
    (h : takeN (lookPull IterSt.pull) order.length (IterSt.init order order ignored gs, .fresh) = some (xs, st)) :
    specSync order ignored gs = some xs := by
  obtain ⟨n, hn⟩ : ∃ n, order.length = n + 1 := ⟨order.length - 1, by omega⟩
  rw [hn] at h
  obtain ⟨s₁, ht, hne⟩ := look_fresh IterSt.pull n _ xs st h
  have hlen := takeN_order (n + 1) _ s₁ xs ht
  have ho : s₁.order = [] := by
    have : (IterSt.init order order ignored gs).order.length = n + 1 := by simp [IterSt.init, hn]
    rw [this] at hlen
    exact List.length_eq_zero_iff.mp (by omega)
  have hd : s₁.pull = .done := by
    cases hp : s₁.pull with
    | error => exact absurd hp hne
    | done => rfl
    | yield x s' => exact absurd hp (pull_not_yield_of_order_nil s₁ ho x s')
  have := pullAll_of_takeN IterSt.pull (n + 1) _ s₁ xs (order.length + 2) ht hd (by omega)
  rw [(sync_complete order ignored gs (order.length + 2) hord (by omega)).1] at this
  exact this

example : (takeN (lookPull IterSt.pull) 2 (IterSt.init [0, 1] [0, 1] [] [⟨1, [2]⟩], .fresh)).map (·.1) = some [[], [2]] := by
  decide

/-! ### `SynchedStream` (MultiStream attributes, forbes, jaccard) -/

/-- big-step form: place the group `g` (continuation `k` once it is placed) -/
def placeK (g : Group) (k : List Name → Option (List Item)) : List Name → Option (List Item)
  | [] => none
  | n :: rest' => if g.name ≠ n then (placeK g k rest').map ([] :: ·) else (k rest').map (g.items :: ·)

def runTop : List Group → List Name → Option (List Item)
  | [], rest => some (List.replicate rest.length [])
  | g :: r, rest => if g.name ∈ rest then placeK g (runTop r) rest else none

def contS (fuel : Nat) : Step SyncSt → Option (List Item)
  | .error => none
  | .done => some []
  | .yield x s' => (pullAll SyncSt.pull fuel s').map (x :: ·)

theorem pullAllS_succ (f : Nat) (s : SyncSt) : pullAll SyncSt.pull (f + 1) s = contS f s.pull := by
  simp only [pullAll, contS]
  cases s.pull <;> rfl

theorem sync_tail (rest : List Name) : ∀ (s : SyncSt) (fuel : Nat), s.rest = rest → s.cur = none → s.tail = true →
    rest.length + 1 ≤ fuel → pullAll SyncSt.pull fuel s = some (List.replicate rest.length []) := by
  induction rest with
  | nil =>
    intro s fuel hr hc ht hf
    obtain ⟨f, rfl⟩ : ∃ f, fuel = f + 1 := ⟨fuel - 1, by simp at hf; omega⟩
    rw [pullAllS_succ]
    simp [SyncSt.pull, hc, ht, hr, contS]
  | cons n rest ih =>
    intro s fuel hr hc ht hf
    obtain ⟨f, rfl⟩ : ∃ f, fuel = f + 1 := ⟨fuel - 1, by simp at hf; omega⟩
    rw [pullAllS_succ]
    simp only [SyncSt.pull, hc, ht, hr, if_true, contS]
    have := ih { order := s.order, rest := rest, seen := s.seen, src := s.src, cur := s.cur, tail := s.tail } f rfl hc ht
      (by simp at hf; omega)
    simp only [hc, ht] at this
    rw [this]
    simp [List.replicate_succ]

theorem sync_place (order : List Name) (g : Group) (r : List Group) (rest : List Name) :
    ∀ (s : SyncSt) (fuel : Nat), s.rest = rest → s.src = r → s.order = order → s.tail = false →
    order = s.seen ++ rest → rest.length ≤ fuel →
    (∀ (s' : SyncSt) (fuel' : Nat), s'.cur = none → s'.tail = false → s'.src = r → s'.order = order →
      order = s'.seen ++ s'.rest → s'.rest.length + 1 ≤ fuel' → pullAll SyncSt.pull fuel' s' = runTop r s'.rest) →
    contS fuel (s.place g) = placeK g (runTop r) rest := by
  induction rest with
  | nil =>
    intro s fuel hr _ _ _ _ _ _
    simp [SyncSt.place, hr, contS, placeK]
  | cons n rest ih =>
    intro s fuel hr hsrc ho ht hinv hf hK
    obtain ⟨f, rfl⟩ : ∃ f, fuel = f + 1 := ⟨fuel - 1, by simp at hf; omega⟩
    have hf' : rest.length ≤ f := by simp at hf; omega
    simp only [SyncSt.place, hr, placeK]
    by_cases hg : g.name = n
    · simp only [hg, ne_eq, not_true_eq_false, if_false, contS]
      have := hK { s with seen := s.seen ++ [n], rest := rest, cur := none } (f + 1) rfl ht hsrc ho
        (by simp [hinv]) (by simp; omega)
      rw [this]
    · simp only [ne_eq, hg, not_false_eq_true, if_true, contS]
      rw [pullAllS_succ]
      simp only [SyncSt.pull]
      have := ih { s with seen := s.seen ++ [n], rest := rest, cur := some g } f rfl hsrc ho ht (by simp [hinv]) hf' hK
      rw [this]

theorem sync_top (order : List Name) (hnd : order.Nodup) (src : List Group) : ∀ (s : SyncSt) (fuel : Nat),
    s.cur = none → s.tail = false → s.src = src → s.order = order → order = s.seen ++ s.rest →
    s.rest.length + 1 ≤ fuel → pullAll SyncSt.pull fuel s = runTop src s.rest := by
  induction src with
  | nil =>
    intro s fuel hc ht hsrc ho hinv hf
    obtain ⟨f, rfl⟩ : ∃ f, fuel = f + 1 := ⟨fuel - 1, by omega⟩
    rw [pullAllS_succ]
    simp only [SyncSt.pull, hc, ht, hsrc, Bool.false_eq_true, if_false, runTop]
    cases hr : s.rest with
    | nil => simp [contS]
    | cons n rest =>
      simp only [contS]
      rw [hr] at hf
      have := sync_tail rest { s with rest := rest, tail := true } f rfl hc rfl (by simp at hf; omega)
      simp only [hc, hsrc] at this
      rw [this]
      simp [List.replicate_succ]
  | cons g r ih =>
    intro s fuel hc ht hsrc ho hinv hf
    obtain ⟨f, rfl⟩ : ∃ f, fuel = f + 1 := ⟨fuel - 1, by omega⟩
    rw [pullAllS_succ]
    simp only [SyncSt.pull, hc, ht, hsrc, Bool.false_eq_true, if_false, runTop]
    have hnd' : (s.seen ++ s.rest).Nodup := by rw [← hinv]; exact hnd
    by_cases hseen : g.name ∈ s.seen
    · have : g.name ∉ s.rest := fun h => (List.nodup_append.mp hnd').2.2 _ hseen _ h rfl
      simp [hseen, this, contS]
    · by_cases hin : g.name ∈ s.order
      · have hrest : g.name ∈ s.rest := by
          rw [ho, hinv] at hin
          rcases List.mem_append.mp hin with h | h
          · exact absurd h hseen
          · exact h
        simp only [List.contains_eq_mem, decide_eq_true_eq, hseen, if_false, hin, decide_true, Bool.not_true,
          Bool.false_eq_true, hrest, if_true]
        have := sync_place order g r s.rest { s with src := r } f rfl rfl ho ht hinv (by omega)
          (fun s' fuel' h1 h2 h3 h4 h5 h6 => ih s' fuel' h1 h2 h3 h4 h5 h6)
        simp only [hc, ht] at this
        exact this
      · have : g.name ∉ s.rest := by
          intro h; apply hin; rw [ho, hinv]; exact List.mem_append_right _ h
        simp [hseen, hin, this, contS]

theorem placeK_spec (g : Group) (r : List Group) (K : List Name → Option (List Item)) (rest : List Name) :
    rest.Nodup → g.name ∈ rest → (∀ rest', rest'.Nodup → K rest' = spec' rest' r) →
    placeK g K rest = spec' rest (g :: r) := by
  induction rest with
  | nil => intro _ h; simp at h
  | cons n rest ih =>
    intro hnd hin hK
    have hn : n ∉ rest := (List.nodup_cons.mp hnd).1
    have hr : rest.Nodup := (List.nodup_cons.mp hnd).2
    simp only [placeK]
    by_cases hg : g.name = n
    · simp only [hg, ne_eq, not_true_eq_false, if_false]
      rw [hK rest hr, spec'_cons_eq g r n rest hg hn]
    · simp only [ne_eq, hg, not_false_eq_true, if_true]
      have hin' : g.name ∈ rest := by
        rcases List.mem_cons.mp hin with h | h
        · exact absurd h hg
        · exact h
      rw [ih hr hin' hK, spec'_cons_ne (g :: r) n rest hn (by intro x hx; simp at hx; rw [← hx]; exact hg)]

theorem runTop_spec (src : List Group) : ∀ (rest : List Name), rest.Nodup → runTop src rest = spec' rest src := by
  induction src with
  | nil =>
    intro rest _
    simp only [runTop, spec', List.map_nil, compatible_nil, if_true, Option.some.injEq]
    have : ∀ l : List Name, List.replicate l.length ([] : Item) = l.map (itemsOf []) := by
      intro l
      induction l with
      | nil => rfl
      | cons n l ihl => simp [List.replicate_succ, ihl, itemsOf]
    exact this rest
  | cons g r ih =>
    intro rest hnd
    simp only [runTop]
    by_cases hin : g.name ∈ rest
    · simp only [hin, if_true]
      exact placeK_spec g r (runTop r) rest hnd hin ih
    · simp only [hin, if_false]
      have : compatible ((g :: r).map (·.name)) rest = false := by
        cases hc : compatible ((g :: r).map (·.name)) rest with
        | false => rfl
        | true => exact absurd (compatible_mem _ _ hc g.name (by simp)) hin
      simp only [List.map_cons] at this
      simp [spec', this]

theorem kept_nil_ignored (gs : List Group) : kept [] gs = gs := by
  simp [kept]

/-- **C12.synched_complete** — pull-all evaluation of `SynchedStream` (a `MultiStream` attribute) over
any contig order with distinct names is exactly the specification: each contig of the order gets
the group carrying its name or the default, and an error is raised when the data names a contig
outside the order or the groups come in an order incompatible with it (a repeated name included). -/
theorem synched_complete (order : List Name) (gs : List Group) (fuel : Nat) (hord : order.Nodup)
    (hf : order.length + 1 ≤ fuel) :
    pullAll SyncSt.pull fuel (SyncSt.init order gs) = specSync order [] gs := by
  rw [specSync_eq, kept_nil_ignored, ← runTop_spec gs order hord]
  exact sync_top order hord gs (SyncSt.init order gs) fuel rfl rfl rfl rfl (by simp [SyncSt.init]) (by simpa [SyncSt.init] using hf)

/-! ### `SynchedStream` hands out exactly one item per contig -/

theorem syncPull_rest (s : SyncSt) (x : Item) (s' : SyncSt) (h : s.pull = .yield x s') :
    s'.rest.length + 1 = s.rest.length := by
  unfold SyncSt.pull SyncSt.place at h
  repeat' split at h
  all_goals first
    | (simp at h; done)
    | (simp only [Step.yield.injEq] at h; rw [← h.2]; simp_all)

theorem takeNS_rest (n : Nat) : ∀ (s s₁ : SyncSt) (xs : List Item), takeN SyncSt.pull n s = some (xs, s₁) →
    s₁.rest.length + n = s.rest.length := by
  induction n with
  | zero => intro s s₁ xs h; simp only [takeN, Option.some.injEq, Prod.mk.injEq] at h; rw [h.2]; rfl
  | succ n ih =>
    intro s s₁ xs h
    rw [takeN] at h
    cases hp : s.pull with
    | error => rw [hp] at h; simp at h
    | done => rw [hp] at h; simp at h
    | yield x s' =>
      rw [hp] at h
      simp only [] at h
      cases hr : takeN SyncSt.pull n s' with
      | none => rw [hr] at h; simp at h
      | some r =>
        rw [hr] at h
        simp only [Option.map_some, Option.some.injEq, Prod.mk.injEq] at h
        have h1 := ih s' r.2 r.1 (by rw [hr])
        have h2 := syncPull_rest s x s' hp
        rw [← h.2]; omega

/-- **C12.synched_complete_any_consumer** — with the look-ahead of the repair, any consumer that obtains
all `|order|` items of a `SynchedStream` (the `zip` inside `streamable`, hence `forbes` and `jaccard`,
for *every* operand position) has obtained exactly the specification's per-contig tables, and the data
was compatible with the contig order; otherwise an exception is raised no later than at the last item. -/
theorem synched_complete_any_consumer (order : List Name) (gs : List Group) (hord : order.Nodup)
    (hpos : 0 < order.length) (xs : List Item) (st : SyncSt × Hold)
    (h : takeN (lookPull SyncSt.pull) order.length (SyncSt.init order gs, .fresh) = some (xs, st)) :
    specSync order [] gs = some xs := by
  obtain ⟨n, hn⟩ : ∃ n, order.length = n + 1 := ⟨order.length - 1, by omega⟩
  rw [hn] at h
  obtain ⟨s₁, ht, hne⟩ := look_fresh SyncSt.pull n _ xs st h
  have hlen := takeNS_rest (n + 1) _ s₁ xs ht
  have ho : s₁.rest = [] := by
    have : (SyncSt.init order gs).rest.length = n + 1 := by simp [SyncSt.init, hn]
    rw [this] at hlen
    exact List.length_eq_zero_iff.mp (by omega)
  have hd : s₁.pull = .done := by
    cases hp : s₁.pull with
    | error => exact absurd hp hne
    | done => rfl
    | yield x s' =>
      have := syncPull_rest s₁ x s' hp
      rw [ho] at this; simp at this
  have := pullAll_of_takeN SyncSt.pull (n + 1) _ s₁ xs (order.length + 1) ht hd (by omega)
  rw [synched_complete order gs (order.length + 1) hord (by omega)] at this
  exact this

/-! ### `left_join` -/

def runL : List Name → List Group → Option (List Item)
  | [], l => if l.isEmpty then some [] else none
  | _ :: rest, [] => (runL rest []).map ([] :: ·)
  | n :: rest, g :: r =>
    if g.name = n then (runL rest r).map (g.items :: ·) else (runL rest (g :: r)).map ([] :: ·)

def contL (fuel : Nat) : Step LjSt → Option (List Item)
  | .error => none
  | .done => some []
  | .yield x s' => (pullAll LjSt.pull fuel s').map (x :: ·)

theorem pullAllL_succ (f : Nat) (s : LjSt) : pullAll LjSt.pull (f + 1) s = contL f s.pull := by
  simp only [pullAll, contL]
  cases s.pull <;> rfl

theorem lj_started (left : List Name) : ∀ (s : LjSt) (fuel : Nat), s.started = true → s.left = left →
    (s.nr = none → s.right = []) → left.length + 1 ≤ fuel →
    pullAll LjSt.pull fuel s = runL left (s.nr.toList ++ s.right) := by
  induction left with
  | nil =>
    intro s fuel hs hl hinv hf
    obtain ⟨f, rfl⟩ : ∃ f, fuel = f + 1 := ⟨fuel - 1, by simp at hf; omega⟩
    rw [pullAllL_succ]
    simp only [LjSt.pull, hs, if_true, LjSt.body, hl, runL]
    cases hn : s.nr with
    | none => simp [hinv hn, contL]
    | some g => simp [contL]
  | cons n rest ih =>
    intro s fuel hs hl hinv hf
    obtain ⟨f, rfl⟩ : ∃ f, fuel = f + 1 := ⟨fuel - 1, by simp at hf; omega⟩
    have hf' : rest.length + 1 ≤ f := by simp at hf; omega
    rw [pullAllL_succ]
    simp only [LjSt.pull, hs, if_true, LjSt.body, hl]
    cases hn : s.nr with
    | none =>
      have hr := hinv hn
      simp only [Option.toList, List.nil_append, hr, runL, contL]
      have := ih { s with left := rest } f hs rfl hinv hf'
      simp only [hn, hr, hs, Option.toList, List.nil_append] at this
      rw [this]
    | some g =>
      simp only [Option.toList, List.singleton_append, runL]
      by_cases hg : g.name = n
      · simp only [hg, if_true, contL]
        have := ih { s with left := rest, nr := s.right.head?, right := s.right.tail } f hs rfl
          (by intro h; simp only [List.head?_eq_none_iff] at h; simp [h]) hf'
        simp only [hs] at this
        rw [this]
        cases s.right <;> simp [Option.toList]
      · simp only [hg, if_false, contL]
        have := ih { s with left := rest } f hs rfl hinv hf'
        simp only [hn, hs, Option.toList, List.singleton_append] at this
        rw [this]

theorem runL_spec (left : List Name) : ∀ (l : List Group), left.Nodup → runL left l = spec' left l := by
  induction left with
  | nil =>
    intro l _
    cases l with
    | nil => simp [runL, spec', compatible]
    | cons g r => simp [runL, spec', compatible]
  | cons n rest ih =>
    intro l hnd
    have hn : n ∉ rest := (List.nodup_cons.mp hnd).1
    have hr : rest.Nodup := (List.nodup_cons.mp hnd).2
    cases l with
    | nil =>
      simp only [runL]
      rw [ih [] hr, spec'_cons_ne [] n rest hn (by simp)]
    | cons g r =>
      simp only [runL]
      by_cases hg : g.name = n
      · simp only [hg, if_true]
        rw [ih r hr, spec'_cons_eq g r n rest hg hn]
      · simp only [hg, if_false]
        rw [ih (g :: r) hr, spec'_cons_ne (g :: r) n rest hn (by intro x hx; simp at hx; rw [← hx]; exact hg)]

/-- **C12.left_join_complete** — `left_join` of the contig list with a grouped stream, consumed to the end
(`dict(...)`), is exactly the specification: every contig gets its group or the default, and an error is
raised (the trailing assertion) for an unknown contig name or an order incompatible with the contig list. -/
theorem left_join_complete (left : List Name) (gs : List Group) (fuel : Nat) (hl : left.Nodup)
    (hf : left.length + 1 ≤ fuel) :
    pullAll LjSt.pull fuel (LjSt.init left gs) = specSync left [] gs := by
  rw [specSync_eq, kept_nil_ignored, ← runL_spec left gs hl]
  obtain ⟨f, rfl⟩ : ∃ f, fuel = f + 1 := ⟨fuel - 1, by omega⟩
  have h1 := lj_started left { left := left, right := gs.tail, nr := gs.head?, started := true } (f + 1) rfl rfl
    (by intro h; simp only [List.head?_eq_none_iff] at h; simp [h]) hf
  have h2 : pullAll LjSt.pull (f + 1) (LjSt.init left gs) =
      pullAll LjSt.pull (f + 1) { left := left, right := gs.tail, nr := gs.head?, started := true } := by
    rw [pullAllL_succ, pullAllL_succ]
    simp [LjSt.pull, LjSt.init]
  rw [h2, h1]
  cases gs <;> simp [Option.toList]

/-! ### the `zip` consumer: every column of a completed `zip` is a prefix run of its iterator -/

theorem zipRound_row (ms : List M) : ∀ (xs : List Item) (ms' : List M), zipRound ms = .row xs ms' →
    xs.length = ms.length ∧ ms'.length = ms.length ∧
    ∀ i (h : i < ms.length) (h1 : i < xs.length) (h2 : i < ms'.length), ms[i].pull = .yield xs[i] ms'[i] := by
  induction ms with
  | nil =>
    intro xs ms' h
    simp only [zipRound, Round.row.injEq] at h
    obtain ⟨rfl, rfl⟩ := h
    exact ⟨rfl, rfl, fun i h => by simp at h⟩
  | cons m r ih =>
    intro xs ms' h
    simp only [zipRound] at h
    cases hp : m.pull with
    | error => rw [hp] at h; simp at h
    | done => rw [hp] at h; simp at h
    | yield x m' =>
      rw [hp] at h
      simp only [] at h
      cases hr : zipRound r with
      | error => rw [hr] at h; simp at h
      | stop => rw [hr] at h; simp at h
      | row xs₀ ms₀ =>
        rw [hr] at h
        simp only [Round.row.injEq] at h
        obtain ⟨rfl, rfl⟩ := h
        obtain ⟨h1, h2, h3⟩ := ih xs₀ ms₀ hr
        refine ⟨by simp [h1], by simp [h2], ?_⟩
        intro i hi hi1 hi2
        cases i with
        | zero => simpa using hp
        | succ i => simpa using h3 i (by simpa using hi) (by simpa using hi1) (by simpa using hi2)

theorem zipAll_column (f : Nat) : ∀ (ms : List M) (rows : List (List Item)), zipAll f ms = some rows →
    ∀ i (h : i < ms.length), ∃ m', takeN M.pull rows.length ms[i] = some (rows.map (fun r => r.getD i []), m') := by
  induction f with
  | zero => intro ms rows h; simp [zipAll] at h
  | succ f ih =>
    intro ms rows h i hi
    simp only [zipAll] at h
    cases hr : zipRound ms with
    | error => rw [hr] at h; simp at h
    | stop =>
      rw [hr] at h
      simp only [Option.some.injEq] at h
      subst h
      exact ⟨ms[i], by simp [takeN]⟩
    | row xs ms' =>
      rw [hr] at h
      simp only [] at h
      cases hz : zipAll f ms' with
      | none => rw [hz] at h; simp at h
      | some rows' =>
        rw [hz] at h
        simp only [Option.map_some, Option.some.injEq] at h
        subst h
        obtain ⟨h1, h2, h3⟩ := zipRound_row ms xs ms' hr
        obtain ⟨m', hm'⟩ := ih ms' rows' hz i (by omega)
        refine ⟨m', ?_⟩
        have hp := h3 i hi (by omega) (by omega)
        simp only [List.length_cons, takeN, hp, hm', Option.map_some, List.map_cons]
        congr 2
        simp [List.getD_eq_getElem?_getD, List.getElem?_eq_getElem (show i < xs.length by omega)]

theorem takeN_lookIter (n : Nat) : ∀ (s : IterSt) (h : Hold) (xs : List Item) (m' : M),
    takeN M.pull n (.lookIter s h) = some (xs, m') →
    ∃ st, takeN (lookPull IterSt.pull) n (s, h) = some (xs, st) := by
  induction n with
  | zero => intro s h xs m' hh; simp only [takeN, Option.some.injEq, Prod.mk.injEq] at hh; exact ⟨(s, h), by simp [takeN, hh.1]⟩
  | succ n ih =>
    intro s h xs m' hh
    simp only [takeN, M.pull] at hh ⊢
    cases hp : lookPull IterSt.pull (s, h) with
    | error => rw [hp] at hh; simp at hh
    | done => rw [hp] at hh; simp at hh
    | yield x s' =>
      rw [hp] at hh
      simp only [] at hh
      cases hr : takeN M.pull n (.lookIter s'.1 s'.2) with
      | none => rw [hr] at hh; simp at hh
      | some r =>
        rw [hr] at hh
        simp only [Option.map_some, Option.some.injEq, Prod.mk.injEq] at hh
        obtain ⟨st, hst⟩ := ih s'.1 s'.2 r.1 r.2 (by rw [hr])
        exact ⟨st, by simp [hst, hh.1]⟩

theorem takeN_lookSync (n : Nat) : ∀ (s : SyncSt) (h : Hold) (xs : List Item) (m' : M),
    takeN M.pull n (.lookSync s h) = some (xs, m') →
    ∃ st, takeN (lookPull SyncSt.pull) n (s, h) = some (xs, st) := by
  induction n with
  | zero => intro s h xs m' hh; simp only [takeN, Option.some.injEq, Prod.mk.injEq] at hh; exact ⟨(s, h), by simp [takeN, hh.1]⟩
  | succ n ih =>
    intro s h xs m' hh
    simp only [takeN, M.pull] at hh ⊢
    cases hp : lookPull SyncSt.pull (s, h) with
    | error => rw [hp] at hh; simp at hh
    | done => rw [hp] at hh; simp at hh
    | yield x s' =>
      rw [hp] at hh
      simp only [] at hh
      cases hr : takeN M.pull n (.lookSync s'.1 s'.2) with
      | none => rw [hr] at hh; simp at hh
      | some r =>
        rw [hr] at hh
        simp only [Option.map_some, Option.some.injEq, Prod.mk.injEq] at hh
        obtain ⟨st, hst⟩ := ih s'.1 s'.2 r.1 r.2 (by rw [hr])
        exact ⟨st, by simp [hst, hh.1]⟩

/-- **C12.zip_columns_complete** — the `zip` consumer (`streamable._args_stream`, hence `forbes` / `jaccard`,
and the argument evaluation of the computation graph) with the repaired generators: if `zip` over any
list of iterators completes with one row per contig, then *every* column that comes from
`iter_chromosomes` (position `i` arbitrary — first, second, last) is exactly the specification of its
own stream, and likewise every column that comes from a `SynchedStream`. A mis-ordered, unknown or
left-over group in any operand therefore makes the evaluation raise; it cannot complete silently. -/
theorem zip_columns_complete (order : List Name) (hord : order.Nodup) (hpos : 0 < order.length)
    (f : Nat) (ms : List M) (rows : List (List Item)) (hz : zipAll f ms = some rows)
    (hrows : rows.length = order.length) (i : Nat) (hi : i < ms.length) :
    (∀ ignored gs,
      ms[i] = .lookIter (IterSt.init order order ignored gs) .fresh →
      specSync order ignored gs = some (rows.map (fun r => r.getD i []))) ∧
    (∀ gs, ms[i] = .lookSync (SyncSt.init order gs) .fresh →
      specSync order [] gs = some (rows.map (fun r => r.getD i []))) := by
  obtain ⟨m', hm'⟩ := zipAll_column f ms rows hz i hi
  rw [hrows] at hm'
  constructor
  · intro ignored gs hmi
    rw [hmi] at hm'
    obtain ⟨st, hst⟩ := takeN_lookIter _ _ _ _ _ hm'
    exact sync_complete_any_consumer order ignored gs hord hpos _ st hst
  · intro gs hmi
    rw [hmi] at hm'
    obtain ⟨st, hst⟩ := takeN_lookSync _ _ _ _ _ hm'
    exact synched_complete_any_consumer order gs hord hpos _ st hst


/-! ### reviewer items 6-8: what runs (look-ahead), what the specification conserves, the graph consumer -/

/-- the look-ahead wrapper with an item in hand behaves, for a pull-all consumer, like the inner generator one step behind -/
theorem pullAll_look_holding {σ : Type} (pull : σ → Step σ) (n : Nat) : ∀ (s : σ) (y : Item),
    pullAll (lookPull pull) (n + 1) (s, .holding y) = (pullAll pull n s).map (y :: ·) := by
  induction n with
  | zero =>
    intro s y
    simp only [pullAll, lookPull]
    cases pull s <;> simp [pullAll]
  | succ n ih =>
    intro s y
    rw [pullAll]
    simp only [lookPull]
    cases hp : pull s with
    | error => simp [pullAll, hp]
    | done => simp [pullAll, hp, lookPull]
    | yield z s₂ =>
      simp only []
      rw [ih s₂ z]
      simp [pullAll, hp]

/-- **C12.look_transparent** — for a pull-all consumer the one-item look-ahead of the repair changes nothing, for ANY generator
and any fuel: same items, same completion, same error (the wrapper only moves errors earlier for consumers that stop early). -/
theorem look_transparent {σ : Type} (pull : σ → Step σ) (n : Nat) (s : σ) :
    pullAll (lookPull pull) n (s, .fresh) = pullAll pull n s := by
  cases n with
  | zero => rfl
  | succ n =>
    rw [pullAll, pullAll]
    simp only [lookPull]
    cases hp : pull s with
    | error => rfl
    | done => rfl
    | yield x s₁ =>
      simp only []
      cases n with
      | zero => cases pull s₁ <;> simp [pullAll]
      | succ m =>
        cases hp₁ : pull s₁ with
        | error => simp [pullAll, hp₁]
        | done => simp [pullAll, hp₁, lookPull]
        | yield y s₂ =>
          simp only []
          rw [pullAll_look_holding pull m s₂ y]
          simp [pullAll, hp₁]

/-- the driver's wrapped iterators under a pull-all consumer are the unwrapped machines -/
theorem pullAll_M_lookIter (n : Nat) : ∀ (s : IterSt) (h : Hold),
    pullAll M.pull n (.lookIter s h) = pullAll (lookPull IterSt.pull) n (s, h) := by
  induction n with
  | zero => intro s h; rfl
  | succ n ih =>
    intro s h
    rw [pullAll, pullAll]
    simp only [M.pull]
    cases hp : lookPull IterSt.pull (s, h) with
    | error => rfl
    | done => rfl
    | yield x s' => simp only []; rw [ih s'.1 s'.2]

theorem pullAll_M_lookSync (n : Nat) : ∀ (s : SyncSt) (h : Hold),
    pullAll M.pull n (.lookSync s h) = pullAll (lookPull SyncSt.pull) n (s, h) := by
  induction n with
  | zero => intro s h; rfl
  | succ n ih =>
    intro s h
    rw [pullAll, pullAll]
    simp only [M.pull]
    cases hp : lookPull SyncSt.pull (s, h) with
    | error => rfl
    | done => rfl
    | yield x s' => simp only []; rw [ih s'.1 s'.2]

/-- **C12.sync_complete_look** — what actually runs (`checked_to_the_end(iter_chromosomes)`, and the driver's `M.lookIter`):
pull-all evaluation EQUALS the specification, in both directions — compatible data is not rejected, incompatible data raises. -/
theorem sync_complete_look (order ignored : List Name) (gs : List Group) (fuel : Nat)
    (hord : order.Nodup) (hf : order.length + 2 ≤ fuel) :
    pullAll (lookPull IterSt.pull) fuel (IterSt.init order order ignored gs, .fresh) = specSync order ignored gs ∧
    pullAll M.pull fuel (.lookIter (IterSt.init order order ignored gs) .fresh) = specSync order ignored gs := by
  have h := (sync_complete order ignored gs fuel hord hf).1
  exact ⟨by rw [look_transparent, h], by rw [pullAll_M_lookIter, look_transparent, h]⟩

/-- **C12.synched_complete_look** — the same for the look-ahead `SynchedStream` (and the driver's `M.lookSync`). -/
theorem synched_complete_look (order : List Name) (gs : List Group) (fuel : Nat) (hord : order.Nodup)
    (hf : order.length + 1 ≤ fuel) :
    pullAll (lookPull SyncSt.pull) fuel (SyncSt.init order gs, .fresh) = specSync order [] gs ∧
    pullAll M.pull fuel (.lookSync (SyncSt.init order gs) .fresh) = specSync order [] gs := by
  have h := synched_complete order gs fuel hord hf
  exact ⟨by rw [look_transparent, h], by rw [pullAll_M_lookSync, look_transparent, h]⟩

example : [0, 1, 2].Nodup := by decide

/-! ### what the specification conserves, in plain list vocabulary -/

theorem spec'_conserves (ord : List Name) : ∀ (K : List Group) (out : List Item), ord.Nodup → spec' ord K = some out →
    out.length = ord.length ∧ out.flatten = (K.map (·.items)).flatten := by
  induction ord with
  | nil =>
    intro K out _ h
    cases K with
    | nil => simp [spec', compatible] at h; subst h; simp
    | cons g K => simp [spec', compatible] at h
  | cons n rest ih =>
    intro K out hnd h
    have hn : n ∉ rest := (List.nodup_cons.mp hnd).1
    have hr : rest.Nodup := (List.nodup_cons.mp hnd).2
    cases K with
    | nil =>
      rw [spec'_cons_ne [] n rest hn (by simp)] at h
      cases ho : spec' rest [] with
      | none => rw [ho] at h; simp at h
      | some o =>
        rw [ho] at h; simp only [Option.map_some, Option.some.injEq] at h; subst h
        obtain ⟨h1, h2⟩ := ih [] o hr ho
        simp [h1, h2]
    | cons g K' =>
      by_cases hg : g.name = n
      · rw [spec'_cons_eq g K' n rest hg hn] at h
        cases ho : spec' rest K' with
        | none => rw [ho] at h; simp at h
        | some o =>
          rw [ho] at h; simp only [Option.map_some, Option.some.injEq] at h; subst h
          obtain ⟨h1, h2⟩ := ih K' o hr ho
          simp [h1, h2]
      · rw [spec'_cons_ne (g :: K') n rest hn (by intro x hx; simp at hx; rw [← hx]; exact hg)] at h
        cases ho : spec' rest (g :: K') with
        | none => rw [ho] at h; simp at h
        | some o =>
          rw [ho] at h; simp only [Option.map_some, Option.some.injEq] at h; subst h
          obtain ⟨h1, h2⟩ := ih (g :: K') o hr ho
          simp [h1, h2]

theorem mem_itemsOf_iff (K : List Group) (hK : (K.map (·.name)).Nodup) (n : Name) (x : Nat) :
    x ∈ itemsOf K n ↔ ∃ g ∈ K, g.name = n ∧ x ∈ g.items := by
  induction K with
  | nil => simp [itemsOf]
  | cons g K ih =>
    have hK' : g.name ∉ K.map (·.name) ∧ (K.map (·.name)).Nodup := by
      rw [List.map_cons] at hK; exact List.nodup_cons.mp hK
    by_cases hg : g.name = n
    · rw [itemsOf_cons_eq g K n hg]
      constructor
      · intro hx; exact ⟨g, List.mem_cons_self .., hg, hx⟩
      · intro ⟨g', hg', hn', hx⟩
        rcases List.mem_cons.mp hg' with rfl | hm
        · exact hx
        · exfalso; apply hK'.1; rw [hg, ← hn']; exact List.mem_map_of_mem hm
    · rw [itemsOf_cons_ne g K n hg, ih hK'.2]
      constructor
      · intro ⟨g', hg', h⟩; exact ⟨g', List.mem_cons_of_mem _ hg', h⟩
      · intro ⟨g', hg', hn', hx⟩
        rcases List.mem_cons.mp hg' with rfl | hm
        · exact absurd hn' hg
        · exact ⟨g', hm, hn', hx⟩

/-- **C12.specSync_conserves** — what the specification's answer means, in plain list vocabulary: one table per contig of the
order; concatenated in genome order the tables are exactly the non-ignored groups' entries in data order (nothing lost,
nothing duplicated); every group name is in the order or ignored; and an entry is in table `i` iff it belongs to a
non-ignored group named `order[i]` (nothing re-assigned). -/
theorem specSync_conserves (order ignored : List Name) (gs : List Group) (out : List Item) (hord : order.Nodup)
    (h : specSync order ignored gs = some out) :
    out.length = order.length ∧
    out.flatten = ((gs.filter (fun g => !ignored.contains g.name)).map (·.items)).flatten ∧
    (∀ g ∈ gs, g.name ∈ order ∨ g.name ∈ ignored) ∧
    (∀ i (hi : i < order.length) (ho : i < out.length) (x : Nat),
      x ∈ out[i] ↔ ∃ g ∈ gs, g.name ∉ ignored ∧ g.name = order[i] ∧ x ∈ g.items) := by
  have hs := h
  rw [specSync_eq] at hs
  obtain ⟨h1, h2⟩ := spec'_conserves order (kept ignored gs) out hord hs
  have hc : compatible ((kept ignored gs).map (·.name)) order = true := by
    simp only [spec'] at hs
    by_cases hc : compatible ((kept ignored gs).map (·.name)) order = true
    · exact hc
    · simp [hc] at hs
  have hout : out = order.map (itemsOf (kept ignored gs)) := by
    simp only [spec', hc, if_true, Option.some.injEq] at hs; exact hs.symm
  have hK : ((kept ignored gs).map (·.name)).Nodup :=
    ((compatible_iff_sublist _ _).mp hc).nodup hord
  refine ⟨h1, h2, ?_, ?_⟩
  · intro g hg
    by_cases hi : ignored.contains g.name = true
    · exact Or.inr (by simpa using hi)
    · have : g ∈ kept ignored gs := by
        simp only [kept, List.mem_filter]; exact ⟨hg, by simpa using hi⟩
      exact Or.inl (compatible_mem _ _ hc g.name (List.mem_map_of_mem this))
  · intro i hi ho x
    have : out[i] = itemsOf (kept ignored gs) order[i] := by simp [hout]
    rw [this, mem_itemsOf_iff _ hK]
    constructor
    · intro ⟨g, hg, hn, hx⟩
      have hg' := List.mem_filter.mp hg
      exact ⟨g, hg'.1, by simpa using hg'.2, hn, hx⟩
    · intro ⟨g, hg, hni, hn, hx⟩
      exact ⟨g, List.mem_filter.mpr ⟨hg, by simpa using hni⟩, hn, hx⟩

example : specSync [0, 1, 2] [7] [⟨1, [3]⟩, ⟨7, [9]⟩, ⟨2, [4]⟩] = some [[], [3], [4]] := by decide


/-! ### the computation-graph consumer of a streamed array (`graphColumn`) -/

theorem plain_pull_cons (x : Item) (r : List Item) : (M.plain (x :: r)).pull = .yield x (.plain r) := rfl
theorem plain_pull_nil : (M.plain []).pull = .done := rfl

theorem graphColumn_eq_pullUpTo (k : Nat) : ∀ (fuel : Nat) (data : M), k + 1 ≤ fuel →
    graphColumn fuel k data = pullUpTo M.pull k data := by
  induction k with
  | zero =>
    intro fuel data hf
    obtain ⟨f, rfl⟩ : ∃ f, fuel = f + 1 := ⟨fuel - 1, by omega⟩
    simp [graphColumn, zipAll, zipRound, plain_pull_nil, pullUpTo]
  | succ k ih =>
    intro fuel data hf
    obtain ⟨f, rfl⟩ : ∃ f, fuel = f + 1 := ⟨fuel - 1, by omega⟩
    have := ih f
    simp only [graphColumn] at this ⊢
    simp only [zipAll, zipRound, plain_pull_cons, List.replicate_succ, pullUpTo]
    cases hp : data.pull with
    | error => simp
    | done => simp
    | yield x d' =>
      simp only []
      rw [← this d' (by omega)]
      cases zipAll f [M.plain (List.replicate k []), d', M.plain (List.replicate k [])] <;> simp

theorem pullUpTo_M_lookIter (k : Nat) : ∀ (s : IterSt) (h : Hold),
    pullUpTo M.pull k (.lookIter s h) = pullUpTo (lookPull IterSt.pull) k (s, h) := by
  induction k with
  | zero => intro s h; rfl
  | succ k ih =>
    intro s h
    simp only [pullUpTo, M.pull]
    cases hp : lookPull IterSt.pull (s, h) with
    | error => rfl
    | done => rfl
    | yield x s' => simp only []; rw [ih s'.1 s'.2]

/-- a generator that is exhausted after `k` items gives a consumer that stops after `k` items what a pull-all consumer gets -/
theorem pullUpTo_eq_pullAll {σ : Type} (pull : σ → Step σ) (j k : Nat) : ∀ (s : σ),
    (∀ xs s', takeN pull k s = some (xs, s') → pull s' = .done) →
    pullUpTo pull k s = pullAll pull (k + 1 + j) s := by
  induction k with
  | zero =>
    intro s h
    have := h [] s rfl
    simp [pullUpTo, Nat.add_comm 1 j, pullAll, this]
  | succ k ih =>
    intro s h
    have e : k + 1 + 1 + j = (k + 1 + j) + 1 := by omega
    rw [e]
    simp only [pullUpTo, pullAll]
    cases hp : pull s with
    | error => rfl
    | done => rfl
    | yield x s₁ =>
      simp only []
      rw [ih s₁ (fun xs s' ht => h (x :: xs) s' (by simp [takeN, hp, ht]))]


theorem look_fresh_strong {σ : Type} (pull : σ → Step σ) (n : Nat) (s : σ) (xs : List Item) (st : σ × Hold)
    (h : takeN (lookPull pull) (n + 1) (s, .fresh) = some (xs, st)) :
    ∃ s₁, takeN pull (n + 1) s = some (xs, s₁) ∧
      ((st = (s₁, .last) ∧ pull s₁ = .done) ∨ ∃ z s₂, st = (s₂, .holding z) ∧ pull s₁ = .yield z s₂) := by
  rw [takeN] at h
  simp only [lookPull] at h
  cases hp : pull s with
  | error => rw [hp] at h; simp at h
  | done => rw [hp] at h; simp at h
  | yield x s₁ =>
    rw [hp] at h
    simp only [] at h
    cases hp₁ : pull s₁ with
    | error => rw [hp₁] at h; simp at h
    | done =>
      rw [hp₁] at h
      simp only [] at h
      cases n with
      | zero =>
        simp only [takeN, Option.map_some, Option.some.injEq, Prod.mk.injEq] at h
        exact ⟨s₁, by simp [takeN, hp, h.1], Or.inl ⟨h.2.symm, hp₁⟩⟩
      | succ n => simp [takeN, lookPull] at h
    | yield y s₂ =>
      rw [hp₁] at h
      simp only [] at h
      cases n with
      | zero =>
        simp only [takeN, Option.map_some, Option.some.injEq, Prod.mk.injEq] at h
        exact ⟨s₁, by simp [takeN, hp, h.1], Or.inr ⟨y, s₂, h.2.symm, hp₁⟩⟩
      | succ n =>
        cases hr : takeN (lookPull pull) (n + 1) (s₂, .holding y) with
        | none => rw [hr] at h; simp at h
        | some r =>
          rw [hr] at h
          simp only [Option.map_some, Option.some.injEq, Prod.mk.injEq] at h
          obtain ⟨xs', s₃, hx, ht, hfin⟩ := look_holding pull n s₂ y r.1 r.2 (by rw [hr])
          refine ⟨s₃, ?_, ?_⟩
          · simp only [takeN, hp, hp₁, ht, Option.map_some, ← h.1, hx]
          · rw [← h.2]; exact hfin

/-- **C12.graph_column_complete** — the computation-graph consumer the driver runs for `genome_mask` / `track` / `mem_pair`
(`graphColumn`: name stream first, then the data stream, then the sizes; no pull after the last contig) over the repaired
`iter_chromosomes` EQUALS the specification: complete, unpadded column for compatible data, an error otherwise. -/
theorem graph_column_complete (order ignored : List Name) (gs : List Group) (fuel : Nat) (hord : order.Nodup)
    (hpos : 0 < order.length) (hf : order.length + 1 ≤ fuel) :
    graphColumn fuel order.length (.lookIter (IterSt.init order order ignored gs) .fresh) = specSync order ignored gs := by
  rw [graphColumn_eq_pullUpTo _ _ _ hf, pullUpTo_M_lookIter]
  have hdone : ∀ xs st, takeN (lookPull IterSt.pull) order.length (IterSt.init order order ignored gs, .fresh) = some (xs, st) →
      lookPull IterSt.pull st = .done := by
    intro xs st ht
    obtain ⟨n, hn⟩ : ∃ n, order.length = n + 1 := ⟨order.length - 1, by omega⟩
    rw [hn] at ht
    obtain ⟨s₁, ht₁, hfin⟩ := look_fresh_strong IterSt.pull n _ xs st ht
    have hlen := takeN_order (n + 1) _ s₁ xs ht₁
    have ho : s₁.order = [] := by
      have : (IterSt.init order order ignored gs).order.length = n + 1 := by simp [IterSt.init, hn]
      rw [this] at hlen
      exact List.length_eq_zero_iff.mp (by omega)
    rcases hfin with ⟨hst, _⟩ | ⟨z, s₂, _, hy⟩
    · rw [hst]; rfl
    · exact absurd hy (pull_not_yield_of_order_nil s₁ ho z s₂)
  rw [pullUpTo_eq_pullAll (lookPull IterSt.pull) 1 order.length _ hdone]
  exact (sync_complete_look order ignored gs (order.length + 1 + 1) hord (by omega)).1

example : graphColumn 8 2 (.lookIter (IterSt.init [0, 1] [0, 1] [] [⟨1, [2]⟩]) .fresh) = some [[], [2]] := by decide


end C12
