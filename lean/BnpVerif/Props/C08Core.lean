import BnpVerif.Model.C08
/-! C08 — interval-set operations equal their per-base definitions: helper lemmas and the
property theorems that do not depend on generated files (sections headed "Property theorems"; the audited
obligations are listed in Audit/C08.lean). Imported by Props/C08.lean (which adds the traced kernels) and by C09. -/
namespace C08
open Base.Rle

/-! ## stable insertion sort -/
theorem insertBy_perm {α : Type} (le : α → α → Bool) (a : α) (l : List α) : (insertBy le a l).Perm (a :: l) := by
  induction l with
  | nil => exact List.Perm.refl _
  | cons b bs ih =>
    simp only [insertBy]
    split
    · exact List.Perm.refl _
    · exact (List.Perm.cons b ih).trans (List.Perm.swap a b bs)

theorem isort_perm {α : Type} (le : α → α → Bool) (l : List α) : (isort le l).Perm l := by
  induction l with
  | nil => exact List.Perm.refl _
  | cons a as ih => exact (insertBy_perm le a _).trans (List.Perm.cons a ih)

theorem insertBy_pairwise {α : Type} (le : α → α → Bool) (htot : ∀ a b, le a b = true ∨ le b a = true)
    (htr : ∀ a b c, le a b = true → le b c = true → le a c = true) (a : α) (l : List α)
    (h : l.Pairwise (fun x y => le x y = true)) : (insertBy le a l).Pairwise (fun x y => le x y = true) := by
  induction l with
  | nil => simp [insertBy]
  | cons b bs ih =>
    simp only [insertBy]
    rw [List.pairwise_cons] at h
    split
    · rename_i hab
      refine List.pairwise_cons.2 ⟨?_, List.pairwise_cons.2 h⟩
      intro x hx
      rcases List.mem_cons.1 hx with rfl | hx
      · exact hab
      · exact htr _ _ _ hab (h.1 x hx)
    · rename_i hab
      refine List.pairwise_cons.2 ⟨?_, ih h.2⟩
      intro x hx
      have : x ∈ a :: bs := (insertBy_perm le a bs).mem_iff.1 hx
      rcases List.mem_cons.1 this with rfl | hx
      · rcases htot x b with h1 | h1
        · exact absurd h1 hab
        · exact h1
      · exact h.1 x hx

theorem isort_pairwise {α : Type} (le : α → α → Bool) (htot : ∀ a b, le a b = true ∨ le b a = true)
    (htr : ∀ a b c, le a b = true → le b c = true → le a c = true) (l : List α) :
    (isort le l).Pairwise (fun x y => le x y = true) := by
  induction l with
  | nil => simp [isort]
  | cons a as ih => exact insertBy_pairwise le htot htr a _ ih

/-! ## merge: the vectorised form equals the recursive form -/

def vecGo (d cs ce : Nat) (rest : List Iv) : List Iv :=
  let starts := rest.map (·.1)
  let stops := (runMax ce (rest.map (·.2))).map (· + d)
  let valid := List.zipWith (fun s t => decide (s > t)) starts ((ce + d) :: stops)
  (cs :: select valid starts).zip ((select (valid ++ [true]) ((ce + d) :: stops)).map (· - d))

theorem vecGo_eq (d : Nat) (rest : List Iv) : ∀ cs ce, vecGo d cs ce rest = mergeGo d cs ce rest := by
  induction rest with
  | nil => intro cs ce; simp [vecGo, mergeGo, select, runMax]
  | cons x rest ih =>
    intro cs ce
    obtain ⟨s, e⟩ := x
    have ih1 := ih s (max ce e)
    have ih2 := ih cs (max ce e)
    simp only [vecGo] at ih1 ih2 ⊢
    simp only [mergeGo, List.map_cons, runMax, List.zipWith_cons_cons]
    by_cases h : s > ce + d
    · simp only [h, decide_true, select, List.cons_append, List.map_cons, List.zip_cons_cons, ite_true]
      rw [ih1]
      simp
    · simp only [h, decide_false, select, List.cons_append, ite_false]
      rw [ih2]

theorem mergeVec_eq_mergeRec (d : Nat) (I : List Iv) : mergeVec d I = mergeRec d I := by
  cases I with
  | nil => rfl
  | cons x rest =>
    obtain ⟨s, e⟩ := x
    have := vecGo_eq d rest s e
    simp only [vecGo] at this
    simp only [mergeVec, mergeRec, List.map_cons, runMax, List.tail_cons, Nat.zero_max, select]
    rw [← this]

theorem covered_iff (I : List Iv) (p : Nat) : covered I p = true ↔ ∃ iv ∈ I, iv.1 ≤ p ∧ p < iv.2 := by
  simp [covered, inIv, List.any_eq_true]

theorem cov_pos_iff (I : List Iv) (p : Nat) : 0 < cov I p ↔ ∃ iv ∈ I, iv.1 ≤ p ∧ p < iv.2 := by
  simp [cov, inIv, List.countP_pos_iff]

theorem cov_pos_iff_covered (I : List Iv) (p : Nat) : 0 < cov I p ↔ covered I p = true := by
  rw [cov_pos_iff, covered_iff]

theorem covered_cons (x : Iv) (I : List Iv) (p : Nat) :
    covered (x :: I) p = true ↔ (x.1 ≤ p ∧ p < x.2) ∨ covered I p = true := by
  simp [covered, inIv]

def SortedByStart (I : List Iv) : Prop := I.Pairwise (fun a b => a.1 ≤ b.1)

/-- d = 0: the merged runs cover exactly the current run and the covered bases of the rest -/
theorem mergeGo_cover0 (rest : List Iv) : ∀ cs ce, (∀ iv ∈ rest, cs ≤ iv.1) → SortedByStart rest → ∀ p,
    (covered (mergeGo 0 cs ce rest) p = true ↔ (cs ≤ p ∧ p < ce) ∨ covered rest p = true) := by
  induction rest with
  | nil => intro cs ce _ _ p; simp [mergeGo, covered, inIv]
  | cons x rest ih =>
    intro cs ce hcs hs p
    obtain ⟨s, e⟩ := x
    have hs' : SortedByStart rest := (List.pairwise_cons.1 hs).2
    have hle : ∀ iv ∈ rest, s ≤ iv.1 := fun iv h => (List.pairwise_cons.1 hs).1 iv h
    have hcs' : cs ≤ s := hcs (s, e) (by simp)
    simp only [mergeGo, Nat.add_zero]
    split
    · rename_i h
      rw [covered_cons, ih s (max ce e) hle hs' p, covered_cons]
      have key : (s ≤ p ∧ p < max ce e) ↔ (s ≤ p ∧ p < e) := by omega
      simp only [key]
    · rename_i h
      rw [ih cs (max ce e) (fun iv hiv => Nat.le_trans hcs' (hle iv hiv)) hs' p, covered_cons]
      have key : (cs ≤ p ∧ p < max ce e) ↔ ((cs ≤ p ∧ p < ce) ∨ (s ≤ p ∧ p < e)) := by omega
      simp only [key, or_assoc]

/-- every covered base stays covered, for every distance -/
theorem mergeGo_superset (d : Nat) (rest : List Iv) : ∀ cs ce, (∀ iv ∈ rest, cs ≤ iv.1) → SortedByStart rest → ∀ p,
    ((cs ≤ p ∧ p < ce) ∨ covered rest p = true) → covered (mergeGo d cs ce rest) p = true := by
  induction rest with
  | nil => intro cs ce _ _ p; simp [mergeGo, covered, inIv]
  | cons x rest ih =>
    intro cs ce hcs hs p
    obtain ⟨s, e⟩ := x
    have hs' : SortedByStart rest := (List.pairwise_cons.1 hs).2
    have hle : ∀ iv ∈ rest, s ≤ iv.1 := fun iv h => (List.pairwise_cons.1 hs).1 iv h
    have hcs' : cs ≤ s := hcs (s, e) (by simp)
    simp only [mergeGo]
    rw [covered_cons]
    simp only
    split
    · rename_i h
      intro hp
      rw [covered_cons]
      rcases hp with hp | hp | hp
      · exact Or.inl hp
      · exact Or.inr (ih s (max ce e) hle hs' p (Or.inl (by omega)))
      · exact Or.inr (ih s (max ce e) hle hs' p (Or.inr hp))
    · rename_i h
      intro hp
      refine ih cs (max ce e) (fun iv hiv => Nat.le_trans hcs' (hle iv hiv)) hs' p ?_
      rcases hp with hp | hp | hp
      · exact Or.inl (by omega)
      · exact Or.inl (by omega)
      · exact Or.inr hp

/-- outputs' endpoints are input endpoints -/
theorem mergeGo_endpoints (d : Nat) (rest : List Iv) : ∀ cs ce, ∀ x ∈ mergeGo d cs ce rest,
    (x.1 = cs ∨ x.1 ∈ rest.map (·.1)) ∧ (x.2 = ce ∨ x.2 ∈ rest.map (·.2)) := by
  induction rest with
  | nil => intro cs ce x hx; simp [mergeGo] at hx; simp [hx]
  | cons y rest ih =>
    intro cs ce x hx
    obtain ⟨s, e⟩ := y
    simp only [mergeGo] at hx
    split at hx
    · rcases List.mem_cons.1 hx with rfl | hx
      · simp
      · have := ih s (max ce e) x hx
        simp only [List.map_cons, List.mem_cons]
        constructor
        · rcases this.1 with h | h
          · exact Or.inr (Or.inl h)
          · exact Or.inr (Or.inr h)
        · rcases this.2 with h | h
          · rcases Nat.le_total ce e with h2 | h2
            · rw [Nat.max_eq_right h2] at h; exact Or.inr (Or.inl h)
            · rw [Nat.max_eq_left h2] at h; exact Or.inl h
          · exact Or.inr (Or.inr h)
    · have := ih cs (max ce e) x hx
      simp only [List.map_cons, List.mem_cons]
      constructor
      · rcases this.1 with h | h
        · exact Or.inl h
        · exact Or.inr (Or.inr h)
      · rcases this.2 with h | h
        · rcases Nat.le_total ce e with h2 | h2
          · rw [Nat.max_eq_right h2] at h; exact Or.inr (Or.inl h)
          · rw [Nat.max_eq_left h2] at h; exact Or.inl h
        · exact Or.inr (Or.inr h)

/-- every output start is ≥ the current run's start (sorted input) -/
theorem mergeGo_start_ge (d : Nat) (rest : List Iv) (cs ce : Nat) (hcs : ∀ iv ∈ rest, cs ≤ iv.1) :
    ∀ x ∈ mergeGo d cs ce rest, cs ≤ x.1 := by
  intro x hx
  rcases (mergeGo_endpoints d rest cs ce x hx).1 with h | h
  · omega
  · obtain ⟨iv, hiv, h2⟩ := List.mem_map.1 h
    rw [← h2]
    exact hcs iv hiv

/-- maximality: any two outputs are more than `d` apart -/
theorem mergeGo_separated (d : Nat) (rest : List Iv) : ∀ cs ce, (∀ iv ∈ rest, cs ≤ iv.1) → SortedByStart rest →
    (mergeGo d cs ce rest).Pairwise (fun a b => a.2 + d < b.1) := by
  induction rest with
  | nil => intro cs ce _ _; simp [mergeGo]
  | cons x rest ih =>
    intro cs ce hcs hs
    obtain ⟨s, e⟩ := x
    have hs' : SortedByStart rest := (List.pairwise_cons.1 hs).2
    have hle : ∀ iv ∈ rest, s ≤ iv.1 := fun iv h => (List.pairwise_cons.1 hs).1 iv h
    have hcs' : cs ≤ s := hcs (s, e) (by simp)
    simp only [mergeGo]
    split
    · rename_i h
      refine List.pairwise_cons.2 ⟨?_, ih s (max ce e) hle hs'⟩
      intro y hy
      have := mergeGo_start_ge d rest s (max ce e) hle y hy
      simp only
      omega
    · exact ih cs (max ce e) (fun iv hiv => Nat.le_trans hcs' (hle iv hiv)) hs'

/-- inside an output run every base is within `d` of a covered base to its right (only gaps ≤ d are bridged) -/
theorem mergeGo_bridged (d : Nat) (U : Nat → Prop) (rest : List Iv) : ∀ cs ce,
    (∀ iv ∈ rest, iv.1 < iv.2 ∧ ∀ q, iv.1 ≤ q → q < iv.2 → U q) →
    (∀ p, cs ≤ p → p < ce → ∃ q, p ≤ q ∧ q ≤ p + d ∧ U q) →
    ∀ x ∈ mergeGo d cs ce rest, ∀ p, x.1 ≤ p → p < x.2 → ∃ q, p ≤ q ∧ q ≤ p + d ∧ U q := by
  induction rest with
  | nil =>
    intro cs ce _ h x hx p h1 h2
    simp [mergeGo] at hx
    subst hx
    exact h p h1 h2
  | cons y rest ih =>
    intro cs ce hU h x hx
    obtain ⟨s, e⟩ := y
    have hU' : ∀ iv ∈ rest, iv.1 < iv.2 ∧ ∀ q, iv.1 ≤ q → q < iv.2 → U q := fun iv hiv => hU iv (by simp [hiv])
    have hse := hU (s, e) (by simp)
    simp only at hse
    simp only [mergeGo] at hx
    split at hx
    · rename_i hgt
      rcases List.mem_cons.1 hx with rfl | hx
      · exact fun p h1 h2 => h p h1 h2
      · refine ih s (max ce e) hU' ?_ x hx
        intro p h1 h2
        exact ⟨p, Nat.le_refl _, by omega, hse.2 p h1 (by omega)⟩
    · rename_i hgt
      refine ih cs (max ce e) hU' ?_ x hx
      intro p h1 h2
      by_cases hp : p < ce
      · exact h p h1 hp
      · by_cases hps : s ≤ p
        · exact ⟨p, Nat.le_refl _, by omega, hse.2 p hps (by omega)⟩
        · exact ⟨s, by omega, by omega, hse.2 s (Nat.le_refl _) hse.1⟩

theorem mergeGo_nonempty (d : Nat) (rest : List Iv) : ∀ cs ce, cs < ce → (∀ iv ∈ rest, iv.1 < iv.2) →
    ∀ x ∈ mergeGo d cs ce rest, x.1 < x.2 := by
  induction rest with
  | nil => intro cs ce h _ x hx; simp [mergeGo] at hx; subst hx; exact h
  | cons y rest ih =>
    intro cs ce h hne x hx
    obtain ⟨s, e⟩ := y
    have hse : s < e := hne (s, e) (by simp)
    have hne' : ∀ iv ∈ rest, iv.1 < iv.2 := fun iv hiv => hne iv (by simp [hiv])
    simp only [mergeGo] at hx
    split at hx
    · rcases List.mem_cons.1 hx with rfl | hx
      · exact h
      · exact ih s (max ce e) (by omega) hne' x hx
    · exact ih cs (max ce e) (by omega) hne' x hx

/-! ## xor-accumulate expansion equals the dense meaning -/

theorem zipWith_dropLast_left {α β γ : Type} (f : α → β → γ) : ∀ (l : List α) (m : List β), m.length < l.length →
    List.zipWith f l.dropLast m = List.zipWith f l m := by
  intro l
  induction l with
  | nil => intro m h; simp at h
  | cons a l ih =>
    intro m h
    cases l with
    | nil => cases m with
      | nil => rfl
      | cons y m => simp at h
    | cons b l =>
      cases m with
      | nil => simp
      | cons y m =>
        simp only [List.dropLast_cons_cons, List.zipWith_cons_cons]
        rw [ih m (by simpa using h)]

theorem zip_dropLast_left {α β : Type} (l : List α) (m : List β) (h : m.length < l.length) :
    l.dropLast.zip m = l.zip m := by
  simp only [List.zip]
  exact zipWith_dropLast_left _ l m h

theorem set_replicate' {V : Type} (z x : V) : ∀ (m j : Nat), j < m →
    (List.replicate m z).set j x = List.replicate j z ++ x :: List.replicate (m - j - 1) z := by
  intro m
  induction m with
  | zero => intro j h; omega
  | succ m ih =>
    intro j h
    cases j with
    | zero => simp [List.replicate_succ]
    | succ j =>
      simp only [List.replicate_succ, List.set_cons_succ, List.cons_append]
      rw [ih j (by omega)]
      have e : m + 1 - (j + 1) - 1 = m - j - 1 := by omega
      rw [e]

/-- the scattered array written as blocks: zeros, a written value, zeros, … -/
def blk {V : Type} (z : V) (n : Nat) : Nat → List (Nat × V) → List V
  | c, [] => List.replicate (n - c) z
  | c, (i, x) :: ps => List.replicate (i - c) z ++ x :: blk z n (i + 1) ps

theorem scatter_blk {V : Type} (z : V) (n : Nat) (ps : List (Nat × V)) : ∀ (pre : List V) (c : Nat), c = pre.length →
    ps.Pairwise (fun a b => a.1 < b.1) → (∀ p ∈ ps, c ≤ p.1 ∧ p.1 < n) →
    ps.foldl (fun a p => a.set p.1 p.2) (pre ++ List.replicate (n - c) z) = pre ++ blk z n c ps := by
  induction ps with
  | nil => intro pre c _ _ _; simp [blk]
  | cons q ps ih =>
    intro pre c hc hpw hb
    obtain ⟨i, x⟩ := q
    have hi := hb (i, x) (by simp)
    simp only at hi
    simp only [List.foldl_cons, blk]
    rw [List.set_append_right _ _ (by omega), set_replicate' z x (n - c) (i - pre.length) (by omega)]
    have e1 : n - c - (i - pre.length) - 1 = n - (i + 1) := by omega
    have e2 : i - pre.length = i - c := by omega
    rw [e1, e2]
    have := ih (pre ++ List.replicate (i - c) z ++ [x]) (i + 1) (by simp; omega) (List.pairwise_cons.1 hpw).2
      (fun p hp => ⟨(List.pairwise_cons.1 hpw).1 p hp, (hb p (by simp [hp])).2⟩)
    simp only [List.append_assoc, List.singleton_append] at this
    rw [this]

theorem pairwise_zip_fst {α β : Type} (R : α → α → Prop) : ∀ (l : List α) (m : List β), l.Pairwise R →
    (l.zip m).Pairwise (fun a b => R a.1 b.1) := by
  intro l
  induction l with
  | nil => intro m _; simp
  | cons a l ih =>
    intro m h
    cases m with
    | nil => simp
    | cons y m =>
      simp only [List.zip_cons_cons]
      refine List.pairwise_cons.2 ⟨?_, ih m (List.pairwise_cons.1 h).2⟩
      intro p hp
      exact (List.pairwise_cons.1 h).1 p.1 (List.of_mem_zip (a := p.1) (b := p.2) hp).1

theorem lt_getLast_of_mem_dropLast (es : List Nat) (n : Nat) (hpw : es.Pairwise (· < ·)) (hn : es.getLast? = some n) :
    ∀ x ∈ es.dropLast, x < n := by
  intro x hx
  have hne : es ≠ [] := by intro h; simp [h] at hn
  have h1 : es.dropLast ++ [es.getLast hne] = es := List.dropLast_concat_getLast hne
  have h2 : es.getLast hne = n := by
    rw [List.getLast?_eq_some_getLast hne] at hn
    exact Option.some.inj hn
  rw [← h1, h2] at hpw
  exact (List.pairwise_append.1 hpw).2.2 x hx n (by simp)

theorem foldl_set_comm {V : Type} (i : Nat) (x : V) (ps : List (Nat × V)) : ∀ (l : List V), (∀ p ∈ ps, p.1 ≠ i) →
    (ps.foldl (fun a p => a.set p.1 p.2) l).set i x = ps.foldl (fun a p => a.set p.1 p.2) (l.set i x) := by
  induction ps with
  | nil => intro l _; rfl
  | cons q ps ih =>
    intro l h
    simp only [List.foldl_cons]
    rw [ih _ (fun p hp => h p (by simp [hp])), List.set_comm _ _ (h q (by simp))]

theorem accFrom_append {V : Type} (op : V → V → V) : ∀ (A B : List V) (u : V),
    accFrom op u (A ++ B) = accFrom op u A ++ accFrom op (A.foldl op u) B := by
  intro A
  induction A with
  | nil => intro B u; rfl
  | cons a A ih => intro B u; simp [accFrom, ih]

theorem accFrom_replicate {V : Type} (op : V → V → V) (z : V) (hz : ∀ a, op a z = a) (u : V) : ∀ m,
    accFrom op u (List.replicate m z) = List.replicate m u := by
  intro m
  induction m with
  | zero => rfl
  | succ m ih => simp [List.replicate_succ, accFrom, hz, ih]

theorem foldl_replicate {V : Type} (op : V → V → V) (z : V) (hz : ∀ a, op a z = a) (u : V) : ∀ m,
    (List.replicate m z).foldl op u = u := by
  intro m
  induction m with
  | zero => rfl
  | succ m ih => simp [List.replicate_succ, hz, ih]

/-- accumulating over the block form telescopes to the runs -/
theorem acc_blk {V : Type} (op : V → V → V) (z : V) (hz : ∀ a, op a z = a) (hxx : ∀ a b, op a (op a b) = b) (n : Nat)
    (es : List Nat) : ∀ (vs : List V) (c : Nat) (u : V), es.length = vs.length + 1 → (c :: es).Pairwise (· < ·) →
    es.getLast? = some n →
    u :: accFrom op u (blk z n (c + 1) (es.zip (List.zipWith op (u :: vs) vs))) = runs (c :: es) (u :: vs) := by
  induction es with
  | nil => intro vs c u h; simp at h
  | cons e1 es ih =>
    intro vs c u hlen hpw hn
    have hc : c < e1 := (List.pairwise_cons.1 hpw).1 e1 (by simp)
    cases es with
    | nil =>
      have : vs = [] := by cases vs with
        | nil => rfl
        | cons _ _ => simp at hlen
      subst this
      simp only [List.getLast?_singleton, Option.some.injEq] at hn
      subst hn
      simp only [List.zipWith_nil_right, List.zip_nil_right, blk, runs, List.append_nil]
      rw [accFrom_replicate op z hz]
      rw [← List.replicate_succ]
      congr 1
      omega
    | cons e2 es =>
      cases vs with
      | nil => simp at hlen
      | cons v1 vs =>
        simp only [List.zipWith_cons_cons, List.zip_cons_cons, blk]
        rw [accFrom_append, accFrom_replicate op z hz, foldl_replicate op z hz]
        simp only [accFrom, hxx]
        have := ih vs e1 v1 (by simpa using hlen) (List.pairwise_cons.1 hpw).2 (by simpa using hn)
        rw [this]
        rw [runs]
        rw [← List.cons_append, ← List.replicate_succ]
        congr 2
        omega

theorem toArray_dense {V : Type} (op : V → V → V) (z : V) (hz : ∀ a, op a z = a) (hxx : ∀ a b, op a (op a b) = b)
    (r : Rle V) (h : r.WF) : r.toArray op z = r.toDense := by
  obtain ⟨events, values⟩ := r
  obtain ⟨hlen, hhead, hpw⟩ := h
  simp only at hlen hhead hpw
  cases events with
  | nil => simp at hhead
  | cons e0 es =>
    simp only [List.head?_cons, Option.some.injEq] at hhead
    subst hhead
    cases values with
    | nil =>
      have : es = [] := by cases es with
        | nil => rfl
        | cons _ _ => simp at hlen
      subst this
      simp [Rle.toArray, Rle.toDense, Rle.len, runs]
    | cons v0 vs =>
      have hlen' : es.length = vs.length + 1 := by simpa using hlen
      cases es with
      | nil => simp at hlen'
      | cons e1 es =>
        obtain ⟨n, hn⟩ : ∃ n, (e1 :: es).getLast? = some n := by
          cases h : (e1 :: es).getLast? with
          | none => simp at h
          | some n => exact ⟨n, rfl⟩
        have hnpos : 0 < n := by
          have hmem : n ∈ e1 :: es := List.mem_of_getLast? hn
          exact (List.pairwise_cons.1 hpw).1 n hmem
        have hlen_eq : (Rle.len ⟨0 :: e1 :: es, v0 :: vs⟩) = n := by simp [Rle.len, hn]
        simp only [Rle.toArray, Rle.toDense, hlen_eq]
        rw [if_neg (by omega)]
        simp only [List.dropLast_cons_cons, List.tail_cons, scatter]
        have hl2 : es.length = vs.length := by simpa using hlen'
        rw [zipWith_dropLast_left op (v0 :: vs) vs (by simp)]
        have h2 : (e1 :: es).Pairwise (· < ·) := (List.pairwise_cons.1 hpw).2
        have hps_b : ∀ p ∈ (e1 :: es).dropLast.zip (List.zipWith op (v0 :: vs) vs), 1 ≤ p.1 ∧ p.1 < n := by
          intro p hp
          have hm := (List.of_mem_zip (a := p.1) (b := p.2) hp).1
          refine ⟨?_, lt_getLast_of_mem_dropLast _ n h2 hn p.1 hm⟩
          have : 0 < p.1 := (List.pairwise_cons.1 hpw).1 p.1 (List.dropLast_subset _ hm)
          omega
        rw [zip_dropLast_left (e1 :: es) _ (by simp [List.length_zipWith]; omega)] at hps_b ⊢
        have hps_pw : ((e1 :: es).zip (List.zipWith op (v0 :: vs) vs)).Pairwise (fun a b => a.1 < b.1) :=
          pairwise_zip_fst (· < ·) _ _ h2
        rw [foldl_set_comm 0 v0 _ _ (fun p hp => by have := (hps_b p hp).1; omega)]
        have h0 : (List.replicate n z).set 0 v0 = [v0] ++ List.replicate (n - 1) z := by
          rw [set_replicate' z v0 n 0 hnpos]; simp
        rw [h0, scatter_blk z n _ [v0] 1 rfl hps_pw hps_b]
        simp only [List.singleton_append, accumulate]
        exact acc_blk op z hz hxx n (e1 :: es) vs 0 v0 hlen' hpw hn

/-! ## from_intervals: events/values → dense -/

/-- alternating values of a given total length -/
def alt {V : Type} (a b : V) : Nat → List V
  | 0 => []
  | m + 1 => a :: alt b a m

theorem alt_length {V : Type} : ∀ (m : Nat) (a b : V), (alt a b m).length = m := by
  intro m; induction m with
  | zero => intro a b; rfl
  | succ m ih => intro a b; simp [alt, ih]

theorem tile2_eq_alt {V : Type} (a b : V) : ∀ n, tile2 a b n = alt a b (2 * n) := by
  intro n; induction n with
  | zero => rfl
  | succ n ih =>
    have : 2 * (n + 1) = (2 * n + 1) + 1 := by omega
    rw [this]; simp [tile2, alt, ih]

theorem take_alt {V : Type} : ∀ (m j : Nat) (a b : V), j ≤ m → (alt a b m).take j = alt a b j := by
  intro m; induction m with
  | zero => intro j a b h; have : j = 0 := by omega
            subst this; rfl
  | succ m ih =>
    intro j a b h
    cases j with
    | zero => rfl
    | succ j => simp [alt, ih j b a (by omega)]

theorem mem_interleave {α : Type} : ∀ (S E : List α) (x : α), x ∈ interleave S E → x ∈ S ∨ x ∈ E := by
  intro S
  induction S with
  | nil => intro E x h; simp [interleave] at h
  | cons s S ih =>
    intro E x h
    cases E with
    | nil => simp [interleave] at h
    | cons e E =>
      simp only [interleave, List.mem_cons] at h ⊢
      rcases h with h | h | h
      · exact Or.inl (Or.inl h)
      · exact Or.inr (Or.inl h)
      · rcases ih E x h with h | h
        · exact Or.inl (Or.inr h)
        · exact Or.inr (Or.inr h)

theorem interleave_length (K : List Iv) : (interleave (K.map (·.1)) (K.map (·.2))).length = 2 * K.length := by
  induction K with
  | nil => rfl
  | cons x K ih => simp [interleave, ih]; omega

/-- separated, non-empty intervals in increasing order (what `get_boolean_mask` hands to `from_intervals`) -/
def Sep (K : List Iv) : Prop := K.Pairwise (fun a b => a.2 < b.1) ∧ ∀ iv ∈ K, iv.1 < iv.2

theorem Sep.tail {x : Iv} {K : List Iv} (h : Sep (x :: K)) : Sep K :=
  ⟨(List.pairwise_cons.1 h.1).2, fun iv hiv => h.2 iv (by simp [hiv])⟩

theorem events_pairwise (K : List Iv) : Sep K → ∀ (post : List Nat), (∀ x ∈ post, ∀ iv ∈ K, iv.2 < x) →
    post.Pairwise (· < ·) → (interleave (K.map (·.1)) (K.map (·.2)) ++ post).Pairwise (· < ·) := by
  induction K with
  | nil => intro _ post _ hp; simpa [interleave] using hp
  | cons x K ih =>
    intro hsep post hpost hp
    obtain ⟨s, e⟩ := x
    have hse : s < e := hsep.2 (s, e) (by simp)
    have hgt : ∀ iv ∈ K, e < iv.1 := fun iv hiv => (List.pairwise_cons.1 hsep.1).1 iv hiv
    have ihK := ih hsep.tail post (fun x hx iv hiv => hpost x hx iv (by simp [hiv])) hp
    simp only [List.map_cons, interleave, List.cons_append]
    have hall : ∀ y ∈ interleave (K.map (·.1)) (K.map (·.2)) ++ post, e < y := by
      intro y hy
      rcases List.mem_append.1 hy with hy | hy
      · rcases mem_interleave _ _ y hy with h | h
        · obtain ⟨iv, hiv, rfl⟩ := List.mem_map.1 h
          exact hgt iv hiv
        · obtain ⟨iv, hiv, rfl⟩ := List.mem_map.1 h
          have := hgt iv hiv
          have := hsep.2 iv (by simp [hiv])
          omega
      · exact hpost y hy (s, e) (by simp)
    refine List.pairwise_cons.2 ⟨?_, List.pairwise_cons.2 ⟨hall, ihK⟩⟩
    intro y hy
    rcases List.mem_cons.1 hy with rfl | hy
    · exact hse
    · have := hall y hy; omega

theorem ends_lt_size (size : Nat) (K : List Iv) : Sep K → (∀ iv ∈ K, iv.2 ≤ size) →
    (K.map (·.2)).getLast? ≠ some size → ∀ iv ∈ K, iv.2 < size := by
  induction K with
  | nil => intro _ _ _ iv h; simp at h
  | cons x K ih =>
    intro hsep hle hlast iv hiv
    cases K with
    | nil =>
      simp only [List.mem_singleton] at hiv
      subst hiv
      simp only [List.map_cons, List.map_nil, List.getLast?_singleton, ne_eq, Option.some.injEq] at hlast
      have := hle iv (by simp)
      omega
    | cons y K =>
      have ih' := ih hsep.tail (fun iv hiv => hle iv (by simp [hiv])) (by simpa using hlast)
      rcases List.mem_cons.1 hiv with rfl | hiv
      · have h1 : iv.2 < y.1 := (List.pairwise_cons.1 hsep.1).1 y (by simp)
        have h2 : y.1 < y.2 := hsep.2 y (by simp)
        have h3 := hle y (by simp)
        omega
      · exact ih' iv hiv

/-- dense meaning of separated intervals from position `c` on -/
def denseIv (size : Nat) : Nat → List Iv → List Bool
  | c, [] => List.replicate (size - c) false
  | c, (s, e) :: K => List.replicate (s - c) false ++ List.replicate (e - s) true ++ denseIv size e K

def lastEnd : Nat → List Iv → Nat
  | c, [] => c
  | _, (_, e) :: K => lastEnd e K

theorem lastEnd_eq (K : List Iv) : ∀ c, lastEnd c K = ((K.map (·.2)).getLast?).getD c := by
  induction K with
  | nil => intro c; rfl
  | cons x K ih =>
    intro c
    obtain ⟨s, e⟩ := x
    simp only [lastEnd, ih e]
    cases K with
    | nil => rfl
    | cons y K =>
      obtain ⟨v, hv⟩ : ∃ v, (List.map (fun x : Iv => x.2) (y :: K)).getLast? = some v :=
        ⟨_, List.getLast?_eq_some_getLast (by simp)⟩
      simp only [List.map_cons] at hv ⊢
      rw [List.getLast?_cons_cons, hv]; rfl

theorem runs_alt (size : Nat) (K : List Iv) : ∀ (c : Nat) (post : List Nat),
    (post = [size] ∨ (post = [] ∧ lastEnd c K = size)) →
    runs (c :: (interleave (K.map (·.1)) (K.map (·.2)) ++ post)) (alt false true (2 * K.length + post.length))
      = denseIv size c K := by
  induction K with
  | nil =>
    intro c post h
    rcases h with rfl | ⟨rfl, h⟩
    · simp [interleave, alt, runs, denseIv]
    · simp only [lastEnd] at h
      subst h
      simp [interleave, alt, runs, denseIv]
  | cons x K ih =>
    intro c post h
    obtain ⟨s, e⟩ := x
    have e1 : 2 * ((s, e) :: K).length + post.length = (2 * K.length + post.length) + 1 + 1 := by
      simp only [List.length_cons]; omega
    rw [e1]
    simp only [List.map_cons, interleave, List.cons_append, alt, runs, denseIv]
    rw [ih e post (by simpa [lastEnd] using h)]
    simp

theorem fromIntervals_values (K : List Iv) (size : Nat) :
    let S := K.map (·.1); let E := K.map (·.2)
    (fromIntervals S E size true false).values =
      if S.head? = some 0 then alt true false ((fromIntervals S E size true false).events.length - 1)
      else alt false true ((fromIntervals S E size true false).events.length - 1) := by
  intro S E
  simp only [fromIntervals, tile2_eq_alt]
  split
  · rename_i h
    generalize (([] : List Nat) ++ interleave S E ++ if E.getLast? = some size then [] else [size]).length = L
    have hn : 2 * (L / 2 + 1) = (2 * (L / 2) + 1) + 1 := by omega
    rw [hn]
    simp only [alt, List.tail_cons]
    exact take_alt (2 * (L / 2) + 1) (L - 1) true false (by omega)
  · generalize (([0] : List Nat) ++ interleave S E ++ if E.getLast? = some size then [] else [size]).length = L
    exact take_alt (2 * (L / 2 + 1)) (L - 1) false true (by omega)

theorem map_range'_const {β : Type} (f : Nat → β) (v : β) (a n : Nat) (h : ∀ p, a ≤ p → p < a + n → f p = v) :
    (List.range' a n).map f = List.replicate n v := by
  rw [← List.length_range' (s := a) (n := n) (step := 1), ← List.map_const']
  simp only [List.length_range']
  apply List.map_congr_left
  intro p hp
  rw [List.mem_range'_1] at hp
  exact h p hp.1 hp.2

theorem denseIv_eq (size : Nat) (K : List Iv) : ∀ c, (∀ iv ∈ K, c ≤ iv.1) → Sep K → (∀ iv ∈ K, iv.2 ≤ size) → c ≤ size →
    denseIv size c K = (List.range' c (size - c)).map (fun p => covered K p) := by
  induction K with
  | nil =>
    intro c _ _ _ _
    simp only [denseIv]
    exact (map_range'_const _ false c (size - c) (fun p _ _ => by simp [covered])).symm
  | cons x K ih =>
    intro c hc hsep hle hcs
    obtain ⟨s, e⟩ := x
    have hse : s < e := hsep.2 (s, e) (by simp)
    have hes : e ≤ size := hle (s, e) (by simp)
    have hcs' : c ≤ s := hc (s, e) (by simp)
    have hgt : ∀ iv ∈ K, e < iv.1 := fun iv hiv => (List.pairwise_cons.1 hsep.1).1 iv hiv
    have ihK := ih e (fun iv hiv => Nat.le_of_lt (hgt iv hiv)) hsep.tail (fun iv hiv => hle iv (by simp [hiv])) hes
    have hsplit : List.range' c (size - c) = List.range' c (s - c) ++ (List.range' s (e - s) ++ List.range' e (size - e)) := by
      have h1 : List.range' s (e - s) ++ List.range' e (size - e) = List.range' s (size - s) := by
        have := List.range'_append_1 (s := s) (m := e - s) (n := size - e)
        rw [show s + (e - s) = e by omega, show e - s + (size - e) = size - s by omega] at this
        exact this
      have := List.range'_append_1 (s := c) (m := s - c) (n := size - s)
      rw [show c + (s - c) = s by omega, show s - c + (size - s) = size - c by omega] at this
      rw [h1, this]
    rw [hsplit, List.map_append, List.map_append, denseIv, ihK, List.append_assoc]
    have hK_false : ∀ p, p < e → covered K p = false := by
      intro p hp
      cases h : covered K p with
      | false => rfl
      | true =>
        obtain ⟨iv, hiv, h1, _⟩ := (covered_iff K p).1 h
        have := hgt iv hiv
        omega
    congr 1
    · exact (map_range'_const _ false c (s - c) (fun p h1 h2 => by
        cases h : covered ((s, e) :: K) p with
        | false => rfl
        | true =>
          rcases (covered_cons _ _ _).1 h with h3 | h3
          · simp only at h3; omega
          · rw [hK_false p (by omega)] at h3; cases h3)).symm
    congr 1
    · exact (map_range'_const _ true s (e - s) (fun p h1 h2 => (covered_cons _ _ _).2 (Or.inl ⟨h1, by simp only; omega⟩))).symm
    · apply List.map_congr_left
      intro p hp
      rw [List.mem_range'_1] at hp
      cases h : covered K p with
      | true => exact ((covered_cons _ _ _).2 (Or.inr h)).symm
      | false =>
        cases h2 : covered ((s, e) :: K) p with
        | false => rfl
        | true =>
          rcases (covered_cons _ _ _).1 h2 with h3 | h3
          · simp only at h3; omega
          · rw [h] at h3; cases h3

theorem head?_interleave (K : List Iv) : (interleave (K.map (·.1)) (K.map (·.2))).head? = (K.map (·.1)).head? := by
  cases K with
  | nil => rfl
  | cons x K => simp [interleave]

theorem fromIntervals_events (K : List Iv) (size : Nat) :
    (fromIntervals (K.map (·.1)) (K.map (·.2)) size true false).events =
      (if (K.map (·.1)).head? = some 0 then [] else [0]) ++ interleave (K.map (·.1)) (K.map (·.2)) ++
      (if (K.map (·.2)).getLast? = some size then [] else [size]) := rfl

theorem starts_pos (K : List Iv) (hsep : Sep K) (h0 : (K.map (·.1)).head? ≠ some 0) : ∀ iv ∈ K, 0 < iv.1 := by
  cases K with
  | nil => intro iv h; simp at h
  | cons x K =>
    intro iv hiv
    have hx : 0 < x.1 := by
      simp only [List.map_cons, List.head?_cons, ne_eq, Option.some.injEq] at h0
      omega
    rcases List.mem_cons.1 hiv with rfl | hiv
    · exact hx
    · have := (List.pairwise_cons.1 hsep.1).1 iv hiv
      omega

theorem fromIntervals_WF (K : List Iv) (size : Nat) (hsep : Sep K) (hle : ∀ iv ∈ K, iv.2 ≤ size) (hsz : 0 < size) :
    (fromIntervals (K.map (·.1)) (K.map (·.2)) size true false).WF := by
  have hval := fromIntervals_values K size
  simp only at hval
  have hev := fromIntervals_events K size
  generalize fromIntervals (K.map (·.1)) (K.map (·.2)) size true false = r at hval hev
  obtain ⟨events, values⟩ := r
  simp only at hval hev
  have hpost : ∀ x ∈ (if (K.map (·.2)).getLast? = some size then [] else [size]), ∀ iv ∈ K, iv.2 < x := by
    intro x hx iv hiv
    split at hx
    · simp at hx
    · rename_i hl
      simp only [List.mem_singleton] at hx
      subst hx
      exact ends_lt_size x K hsep hle hl iv hiv
  have hpw : (interleave (K.map (·.1)) (K.map (·.2)) ++
      (if (K.map (·.2)).getLast? = some size then [] else [size])).Pairwise (· < ·) :=
    events_pairwise K hsep _ hpost (by split <;> simp)
  have hne : 1 ≤ events.length := by
    rw [hev]
    cases K with
    | nil => simp
    | cons x K => simp [interleave]; omega
  refine ⟨?_, ?_, ?_⟩
  · simp only
    rw [hval]
    split <;> simp [alt_length] <;> omega
  · simp only
    rw [hev]
    by_cases h0 : (K.map (·.1)).head? = some 0
    · rw [if_pos h0, List.nil_append, List.head?_append]
      rw [head?_interleave, h0]
      rfl
    · rw [if_neg h0]; rfl
  · simp only
    rw [hev, List.append_assoc]
    by_cases h0 : (K.map (·.1)).head? = some 0
    · rw [if_pos h0, List.nil_append]; exact hpw
    · rw [if_neg h0]
      refine List.pairwise_append.2 ⟨by simp, hpw, ?_⟩
      intro a ha b hb
      simp only [List.mem_singleton] at ha
      subst ha
      rcases List.mem_append.1 hb with hb | hb
      · rcases mem_interleave _ _ b hb with h | h
        · obtain ⟨iv, hiv, rfl⟩ := List.mem_map.1 h
          exact starts_pos K hsep h0 iv hiv
        · obtain ⟨iv, hiv, rfl⟩ := List.mem_map.1 h
          have := hsep.2 iv hiv
          omega
      · split at hb
        · simp at hb
        · simp only [List.mem_singleton] at hb
          omega

theorem fromIntervals_dense (K : List Iv) (size : Nat) :
    (fromIntervals (K.map (·.1)) (K.map (·.2)) size true false).toDense = denseIv size 0 K := by
  have hval := fromIntervals_values K size
  simp only at hval
  have hev := fromIntervals_events K size
  generalize fromIntervals (K.map (·.1)) (K.map (·.2)) size true false = r at hval hev
  obtain ⟨events, values⟩ := r
  simp only at hval hev
  simp only [Rle.toDense]
  have hG := runs_alt size K 0 (if (K.map (·.2)).getLast? = some size then [] else [size]) (by
    split
    · rename_i h
      right
      refine ⟨rfl, ?_⟩
      rw [lastEnd_eq, h]; rfl
    · left; rfl)
  generalize (if (K.map (·.2)).getLast? = some size then [] else [size]) = post at hev hG
  rw [← hG, hval, hev]
  by_cases h0 : (K.map (·.1)).head? = some 0
  · simp only [if_pos h0, List.nil_append]
    cases K with
    | nil => simp at h0
    | cons x K =>
      obtain ⟨s, e⟩ := x
      simp only [List.map_cons, List.head?_cons, Option.some.injEq] at h0
      subst h0
      have e1 : (interleave (List.map (fun x : Iv => x.1) ((0, e) :: K)) (List.map (fun x : Iv => x.2) ((0, e) :: K)) ++ post).length - 1
          = (2 * K.length + post.length) + 1 := by
        simp only [List.length_append, interleave_length, List.length_cons]; omega
      have e2 : 2 * ((0, e) :: K).length + post.length = (2 * K.length + post.length) + 1 + 1 := by
        simp only [List.length_cons]; omega
      rw [e1, e2]
      simp [interleave, alt, runs]
  · simp only [if_neg h0]
    have e1 : ([0] ++ interleave (List.map (fun x : Iv => x.1) K) (List.map (fun x : Iv => x.2) K) ++ post).length - 1 =
        2 * K.length + post.length := by
      simp only [List.length_append, interleave_length, List.length_cons, List.length_nil]; omega
    rw [e1]
    simp

theorem mergeGo_le (d : Nat) (rest : List Iv) : ∀ cs ce, cs ≤ ce → (∀ iv ∈ rest, iv.1 ≤ iv.2) →
    ∀ x ∈ mergeGo d cs ce rest, x.1 ≤ x.2 := by
  induction rest with
  | nil => intro cs ce h _ x hx; simp [mergeGo] at hx; subst hx; exact h
  | cons y rest ih =>
    intro cs ce h hne x hx
    obtain ⟨s, e⟩ := y
    have hse : s ≤ e := hne (s, e) (by simp)
    have hne' : ∀ iv ∈ rest, iv.1 ≤ iv.2 := fun iv hiv => hne iv (by simp [hiv])
    simp only [mergeGo] at hx
    split at hx
    · rcases List.mem_cons.1 hx with rfl | hx
      · exact h
      · exact ih s (max ce e) (by omega) hne' x hx
    · exact ih cs (max ce e) (by omega) hne' x hx

/-! ## Property theorems: merge_intervals -/

/-- `merge_intervals(I, 0)` covers exactly the bases covered by `I` (input sorted by start). -/
theorem merge_cover (I : List Iv) (hs : SortedByStart I) (p : Nat) :
    covered (mergeVec 0 I) p = true ↔ 0 < cov I p := by
  rw [mergeVec_eq_mergeRec, cov_pos_iff_covered]
  cases I with
  | nil => simp [mergeRec]
  | cons x rest =>
    obtain ⟨s, e⟩ := x
    simp only [mergeRec]
    rw [mergeGo_cover0 rest s e (fun iv h => (List.pairwise_cons.1 hs).1 iv h) (List.pairwise_cons.1 hs).2 p, covered_cons]

/-- every covered base is inside a merged interval, for every distance -/
theorem merge_superset (d : Nat) (I : List Iv) (hs : SortedByStart I) (p : Nat) (h : 0 < cov I p) :
    covered (mergeVec d I) p = true := by
  rw [mergeVec_eq_mergeRec]
  rw [cov_pos_iff_covered] at h
  cases I with
  | nil => simp [covered] at h
  | cons x rest =>
    obtain ⟨s, e⟩ := x
    simp only [mergeRec]
    exact mergeGo_superset d rest s e (fun iv h => (List.pairwise_cons.1 hs).1 iv h) (List.pairwise_cons.1 hs).2 p
      ((covered_cons _ _ _).1 h)

/-- merged endpoints are input endpoints -/
theorem merge_endpoints (d : Nat) (I : List Iv) : ∀ x ∈ mergeVec d I, x.1 ∈ I.map (·.1) ∧ x.2 ∈ I.map (·.2) := by
  rw [mergeVec_eq_mergeRec]
  cases I with
  | nil => intro x hx; simp [mergeRec] at hx
  | cons y rest =>
    obtain ⟨s, e⟩ := y
    intro x hx
    have := mergeGo_endpoints d rest s e x hx
    simp only [List.map_cons, List.mem_cons]
    exact this

/-- maximality: two different merged intervals are more than `d` apart -/
theorem merge_separated (d : Nat) (I : List Iv) (hs : SortedByStart I) :
    (mergeVec d I).Pairwise (fun a b => a.2 + d < b.1) := by
  rw [mergeVec_eq_mergeRec]
  cases I with
  | nil => simp [mergeRec]
  | cons y rest =>
    obtain ⟨s, e⟩ := y
    exact mergeGo_separated d rest s e (fun iv h => (List.pairwise_cons.1 hs).1 iv h) (List.pairwise_cons.1 hs).2

/-- merged intervals are non-empty and begin and end on covered bases -/
theorem merge_tight (d : Nat) (I : List Iv) (hne : ∀ iv ∈ I, iv.1 < iv.2) :
    ∀ x ∈ mergeVec d I, x.1 < x.2 ∧ 0 < cov I x.1 ∧ 0 < cov I (x.2 - 1) := by
  intro x hx
  have hend := merge_endpoints d I x hx
  obtain ⟨a, ha, ha1⟩ := List.mem_map.1 hend.1
  obtain ⟨b, hb, hb2⟩ := List.mem_map.1 hend.2
  refine ⟨?_, ?_, ?_⟩
  · rw [mergeVec_eq_mergeRec] at hx
    cases I with
    | nil => simp [mergeRec] at hx
    | cons y rest =>
      obtain ⟨s, e⟩ := y
      exact mergeGo_nonempty d rest s e (hne (s, e) (by simp)) (fun iv hiv => hne iv (by simp [hiv])) x hx
  · exact (cov_pos_iff I x.1).2 ⟨a, ha, by omega, by have := hne a ha; omega⟩
  · exact (cov_pos_iff I (x.2 - 1)).2 ⟨b, hb, by have := hne b hb; omega, by have := hne b hb; omega⟩

/-- only gaps of at most `d` uncovered bases are bridged: inside a merged interval every base has a
covered base at distance ≤ d to its right -/
theorem merge_bridged (d : Nat) (I : List Iv) (hne : ∀ iv ∈ I, iv.1 < iv.2) :
    ∀ x ∈ mergeVec d I, ∀ p, x.1 ≤ p → p < x.2 → ∃ q, p ≤ q ∧ q ≤ p + d ∧ 0 < cov I q := by
  rw [mergeVec_eq_mergeRec]
  cases I with
  | nil => intro x hx; simp [mergeRec] at hx
  | cons y rest =>
    obtain ⟨s, e⟩ := y
    intro x hx
    refine mergeGo_bridged d (fun q => 0 < cov ((s, e) :: rest) q) rest s e ?_ ?_ x hx
    · intro iv hiv
      refine ⟨hne iv (by simp [hiv]), fun q h1 h2 => (cov_pos_iff _ q).2 ⟨iv, by simp [hiv], h1, h2⟩⟩
    · intro p h1 h2
      exact ⟨p, Nat.le_refl _, by omega, (cov_pos_iff _ p).2 ⟨(s, e), by simp, h1, h2⟩⟩

/-- the merged intervals come out in strictly increasing order -/
theorem merge_sorted (d : Nat) (I : List Iv) (hs : SortedByStart I) (hne : ∀ iv ∈ I, iv.1 < iv.2) :
    (mergeVec d I).Pairwise (fun a b => a.1 < b.1) := by
  have h1 := merge_separated d I hs
  have h2 := merge_tight d I hne
  refine List.Pairwise.imp_of_mem ?_ h1
  intro a b ha _ hab
  have := (h2 a ha).1
  omega

/-! ## Property theorems: get_boolean_mask -/

theorem startLe_total (a b : Iv) : startLe a b = true ∨ startLe b a = true := by
  simp only [startLe, decide_eq_true_eq]; omega

theorem startLe_trans (a b c : Iv) : startLe a b = true → startLe b c = true → startLe a c = true := by
  simp only [startLe, decide_eq_true_eq]; omega

theorem isort_startLe_sorted (I : List Iv) : SortedByStart (isort startLe I) :=
  (isort_pairwise startLe startLe_total startLe_trans I).imp (by simp [startLe])

theorem covered_perm {I J : List Iv} (h : I.Perm J) (p : Nat) : covered I p = covered J p := by
  have : covered I p = true ↔ covered J p = true := by
    rw [covered_iff, covered_iff]
    constructor
    · rintro ⟨iv, hiv, h1⟩; exact ⟨iv, h.mem_iff.1 hiv, h1⟩
    · rintro ⟨iv, hiv, h1⟩; exact ⟨iv, h.mem_iff.2 hiv, h1⟩
  cases h1 : covered I p <;> cases h2 : covered J p <;> simp_all

theorem covered_filter_nonempty (K : List Iv) (p : Nat) :
    covered (K.filter (fun iv => iv.1 != iv.2)) p = covered K p := by
  induction K with
  | nil => rfl
  | cons x K ih =>
    simp only [List.filter_cons]
    split
    · simp only [covered, List.any_cons] at ih ⊢; rw [ih]
    · rename_i h
      simp only [covered, List.any_cons] at ih ⊢
      rw [ih]
      have : inIv p x = false := by
        simp only [bne_iff_ne, ne_eq, Decidable.not_not] at h
        simp only [inIv, h]
        cases h1 : decide (x.2 ≤ p) <;> cases h2 : decide (p < x.2) <;> simp_all
        omega
      simp [this]

/-- `get_boolean_mask`: the run-length array the code builds is well formed and its xor-accumulate
expansion is `cov > 0` at every base — for every multiset of intervals inside the contig (any order,
nested, duplicated, touching, empty intervals, reaching 0 or `size`). -/
theorem mask_dense (I : List Iv) (size : Nat) (hsz : 0 < size) (hI : ∀ iv ∈ I, iv.1 ≤ iv.2 ∧ iv.2 ≤ size) :
    (mask I size).WF ∧ maskDense I size = specMask I size := by
  have hperm := isort_perm startLe I
  have hsorted := isort_startLe_sorted I
  obtain ⟨J, hJ⟩ : ∃ J, J = isort startLe I := ⟨_, rfl⟩
  rw [← hJ] at hperm hsorted
  have hJle : ∀ iv ∈ J, iv.1 ≤ iv.2 ∧ iv.2 ≤ size := fun iv hiv => hI iv (hperm.mem_iff.1 hiv)
  obtain ⟨K, hK⟩ : ∃ K, K = (mergeVec 0 J).filter (fun iv => iv.1 != iv.2) := ⟨_, rfl⟩
  have hmask : mask I size = fromIntervals (K.map (·.1)) (K.map (·.2)) size true false := by
    simp only [mask, ← hJ, ← hK]
  have hle : ∀ x ∈ mergeVec 0 J, x.1 ≤ x.2 := by
    rw [mergeVec_eq_mergeRec]
    cases J with
    | nil => intro x hx; simp [mergeRec] at hx
    | cons y rest =>
      obtain ⟨s, e⟩ := y
      exact mergeGo_le 0 rest s e (hJle (s, e) (by simp)).1 (fun iv hiv => (hJle iv (by simp [hiv])).1)
  have hsep : Sep K := by
    rw [hK]
    refine ⟨List.Pairwise.filter _ ((merge_separated 0 J hsorted).imp (by intro a b h; omega)), ?_⟩
    intro iv hiv
    have h1 := (List.mem_filter.1 hiv)
    have h2 := hle iv h1.1
    have h3 : iv.1 ≠ iv.2 := by simpa using h1.2
    omega
  have hKle : ∀ iv ∈ K, iv.2 ≤ size := by
    intro iv hiv
    rw [hK] at hiv
    obtain ⟨b, hb, hb2⟩ := List.mem_map.1 (merge_endpoints 0 J iv (List.mem_filter.1 hiv).1).2
    rw [← hb2]
    exact (hJle b hb).2
  have hcov : ∀ p, covered K p = decide (0 < cov I p) := by
    intro p
    rw [hK, covered_filter_nonempty]
    have h1 := merge_cover J hsorted p
    rw [cov_pos_iff_covered, covered_perm hperm] at h1
    have h4 := cov_pos_iff_covered I p
    cases h2 : covered (mergeVec 0 J) p <;> cases h3 : covered I p <;> simp_all
  have hwf := fromIntervals_WF K size hsep hKle hsz
  refine ⟨hmask ▸ hwf, ?_⟩
  simp only [maskDense, hmask]
  rw [toArray_dense xor false (by simp) (by intro a b; cases a <;> cases b <;> rfl) _ hwf]
  rw [fromIntervals_dense, denseIv_eq size K 0 (fun _ _ => Nat.zero_le _) hsep hKle (Nat.zero_le _)]
  simp only [specMask, Nat.sub_zero, List.range_eq_range']
  exact List.map_congr_left (fun p _ => hcov p)

/-! ## Property theorems: contingency table, unique_intersect -/

theorem countBoth_map (f g : Nat → Bool) (l : List Nat) (bx bY : Bool) :
    countBoth (l.map f) (l.map g) bx bY = l.countP (fun p => f p == bx && g p == bY) := by
  simp only [countBoth, List.zip_map', List.countP_map]
  rfl

/-- the Jaccard/Forbes contingency table is the table of per-base counts -/
theorem contingency_spec (A B : List Iv) (size : Nat) (hsz : 0 < size)
    (hA : ∀ iv ∈ A, iv.1 ≤ iv.2 ∧ iv.2 ≤ size) (hB : ∀ iv ∈ B, iv.1 ≤ iv.2 ∧ iv.2 ≤ size) :
    contingency A B size = specContingency A B size := by
  simp only [contingency, specContingency, (mask_dense A size hsz hA).2, (mask_dense B size hsz hB).2, specMask,
    countBoth_map]

theorem any_drop_take_map (f : Nat → Bool) (size s e : Nat) (he : e ≤ size) :
    ((((List.range size).map f).drop s).take (e - s)).any id =
      (List.range e).any (fun p => decide (s ≤ p) && f p) := by
  rw [← List.map_drop, ← List.map_take, List.range_eq_range', List.drop_range',
    List.take_range'_of_length_ge (by omega), List.any_map]
  have key : ((List.range' (0 + s * 1) (e - s)).any (id ∘ f) = true) ↔
      ((List.range e).any (fun p => decide (s ≤ p) && f p) = true) := by
    simp only [List.any_eq_true, List.mem_range'_1, List.mem_range, Function.comp, id, Bool.and_eq_true,
      decide_eq_true_eq]
    constructor
    · rintro ⟨p, ⟨h1, h2⟩, h3⟩; exact ⟨p, by omega, by omega, h3⟩
    · rintro ⟨p, h1, h2, h3⟩; exact ⟨p, ⟨by omega, by omega⟩, h3⟩
  exact Bool.eq_iff_iff.2 key

/-- `unique_intersect` keeps exactly the entries of `A` that contain a base covered by `B` -/
theorem uniqueIntersect_spec (A B : List Iv) (size : Nat) (hsz : 0 < size)
    (hA : ∀ iv ∈ A, iv.2 ≤ size) (hB : ∀ iv ∈ B, iv.1 ≤ iv.2 ∧ iv.2 ≤ size) :
    uniqueIntersect A B size = specUniqueIntersect A B := by
  simp only [uniqueIntersect, specUniqueIntersect, (mask_dense B size hsz hB).2, specMask]
  apply List.filter_congr
  intro iv hiv
  exact any_drop_take_map _ size iv.1 iv.2 (hA iv hiv)

/-! ## Property theorems: sort_intervals -/

theorem lex3_total (a b : Rec) : lex3 a b = true ∨ lex3 b a = true := by
  simp only [lex3, Bool.or_eq_true, Bool.and_eq_true, decide_eq_true_eq, beq_iff_eq]; omega

theorem lex3_trans (a b c : Rec) : lex3 a b = true → lex3 b c = true → lex3 a c = true := by
  simp only [lex3, Bool.or_eq_true, Bool.and_eq_true, decide_eq_true_eq, beq_iff_eq]; omega

/-- `sort_intervals` returns a permutation of its input ordered by (chromosome key, start, stop) -/
theorem sort_perm_sorted (xs : List Rec) :
    (sortIntervals xs).Perm xs ∧ (sortIntervals xs).Pairwise (fun a b => lex3 a b = true) :=
  ⟨isort_perm lex3 xs, isort_pairwise lex3 lex3_total lex3_trans xs⟩

/-- `lex3` is the lexicographic order on (chromosome, start, stop) -/
theorem lex3_iff (a b : Rec) : lex3 a b = true ↔
    a.1 < b.1 ∨ (a.1 = b.1 ∧ (a.2.1 < b.2.1 ∨ (a.2.1 = b.2.1 ∧ a.2.2 ≤ b.2.2))) := by
  simp only [lex3, Bool.or_eq_true, Bool.and_eq_true, decide_eq_true_eq, beq_iff_eq]

/-- the rule shipped before the fix (`np.lexsort((start, chromosome))`) is not ordered by stop -/
theorem sortOld_unsound : ¬ (sortIntervalsOld [(0, 0, 3), (0, 0, 2)]).Pairwise (fun a b => lex3 a b = true) := by
  decide

/-! ## the hypotheses are satisfiable by non-trivial values; the restricted domain of count_overlap -/

example : SortedByStart [(0, 3), (1, 2), (3, 5), (9, 12)] ∧ ∀ iv ∈ [((0 : Nat), (3 : Nat)), (1, 2), (3, 5), (9, 12)], iv.1 < iv.2 := by
  unfold SortedByStart; decide

example : mergeVec 2 [(0, 3), (1, 2), (3, 5), (7, 8), (11, 12)] = [(0, 8), (11, 12)] := by decide

example : (0 : Nat) < 20 ∧ ∀ iv ∈ [((3 : Nat), (8 : Nat)), (5, 7), (10, 12), (0, 0), (12, 20)], iv.1 ≤ iv.2 ∧ iv.2 ≤ 20 := by decide

example : maskDense [(3, 8), (5, 7), (0, 0), (0, 1)] 9 = [true, false, false, true, true, true, true, true, false] := by decide

example : (0 : Int) ≤ 10 ∧ (-3 : Int) ≤ 12 ∧ (-3 : Int) ≤ 10 ∧ (0 : Int) ≤ 12 := by decide

/-- for a nested operand the "independently sorted starts and stops" formula of `count_overlap` is not the
per-base value: the precondition "each operand internally non-overlapping" is part of the function's domain -/
theorem countOverlap_nested_not_perbase :
    internallyDisjoint [(0, 3), (1, 2)] = false ∧
    countOverlap [(0, 3), (1, 2)] [(0, 1)] = 2 ∧ specCountOverlap [(0, 3), (1, 2)] [(0, 1)] 3 = 1 := by decide

/-! ## bedgraph.get_pileup: the event algorithm equals the per-base count -/

/-- dense meaning of a position-sorted event list `(position, running value)`: the value holds until the next position -/
def stepRuns : List (Nat × Int) → List Int
  | [] => []
  | [_] => []
  | x :: y :: rest => List.replicate (y.1 - x.1) x.2 ++ stepRuns (y :: rest)

theorem dedupLast_ne_nil {α : Type} (x : Nat × α) (l : List (Nat × α)) : dedupLast (x :: l) ≠ [] := by
  induction l generalizing x with
  | nil => simp [dedupLast]
  | cons y l ih =>
    simp only [dedupLast]
    split
    · exact ih y
    · simp

theorem dedupLast_head {α : Type} (x : Nat × α) (l : List (Nat × α)) :
    ∃ v tl, dedupLast (x :: l) = (x.1, v) :: tl := by
  induction l generalizing x with
  | nil => exact ⟨x.2, [], rfl⟩
  | cons y l ih =>
    simp only [dedupLast]
    split
    · rename_i h
      obtain ⟨v, tl, hv⟩ := ih y
      have : x.1 = y.1 := by simpa using h
      exact ⟨v, tl, by rw [hv, this]⟩
    · exact ⟨x.2, _, rfl⟩

theorem runs_dedupLast (P : List (Nat × Int)) :
    runs ((dedupLast P).map (·.1)) (((dedupLast P).map (·.2)).dropLast) = stepRuns P := by
  induction P with
  | nil => rfl
  | cons x P ih =>
    cases P with
    | nil => simp [dedupLast, stepRuns, runs]
    | cons y P =>
      simp only [dedupLast, stepRuns]
      split
      · rename_i h
        have hxy : x.1 = y.1 := by simpa using h
        rw [ih, hxy]; simp
      · obtain ⟨v, tl, hv⟩ := dedupLast_head y P
        rw [hv] at ih ⊢
        simp only [List.map_cons, List.dropLast_cons_cons, runs] at ih ⊢
        cases tl with
        | nil =>
          rw [← ih]
        | cons z tl =>
          simp only [List.map_cons, List.dropLast_cons_cons] at ih ⊢
          rw [← ih, runs]

/-- events `(position, delta)` turned into `(position, running sum)` -/
def evCum (acc : Int) : List (Nat × Int) → List (Nat × Int)
  | [] => []
  | (q, d) :: rest => (q, acc + d) :: evCum (acc + d) rest

theorem zip_cumsum (L : List (Nat × Int)) : ∀ acc, (L.map (·.1)).zip (cumsum acc (L.map (·.2))) = evCum acc L := by
  induction L with
  | nil => intro acc; rfl
  | cons x L ih => intro acc; obtain ⟨q, d⟩ := x; simp [cumsum, evCum, ih]

/-- sum of the deltas of all events at positions ≤ p -/
def sumLe (L : List (Nat × Int)) (p : Nat) : Int := ((L.filter (fun x => decide (x.1 ≤ p))).map (·.2)).sum

def lastPos (L : List (Nat × Int)) : Nat := (L.getLast?.map (·.1)).getD 0

theorem sumLe_cons (x : Nat × Int) (L : List (Nat × Int)) (p : Nat) :
    sumLe (x :: L) p = (if x.1 ≤ p then x.2 else 0) + sumLe L p := by
  simp only [sumLe, List.filter_cons]
  by_cases h : x.1 ≤ p <;> simp [h]

theorem sumLe_zero_of_lt (L : List (Nat × Int)) (p : Nat) (h : ∀ x ∈ L, p < x.1) : sumLe L p = 0 := by
  induction L with
  | nil => rfl
  | cons x L ih =>
    rw [sumLe_cons, if_neg (by have := h x (by simp); omega), ih (fun y hy => h y (by simp [hy]))]; rfl

theorem lastPos_ge (L : List (Nat × Int)) (x : Nat × Int) (hs : (x :: L).Pairwise (fun a b => a.1 ≤ b.1)) :
    x.1 ≤ lastPos (x :: L) := by
  induction L generalizing x with
  | nil => simp [lastPos]
  | cons y L ih =>
    have h1 : x.1 ≤ y.1 := (List.pairwise_cons.1 hs).1 y (by simp)
    have h2 := ih y (List.pairwise_cons.1 hs).2
    have : lastPos (x :: y :: L) = lastPos (y :: L) := by simp [lastPos]
    omega

/-- the dense meaning of the cumulated events: at base p the running value is the sum of all deltas at positions ≤ p -/
theorem stepRuns_evCum (L : List (Nat × Int)) : ∀ (x : Nat × Int) (acc : Int), (x :: L).Pairwise (fun a b => a.1 ≤ b.1) →
    stepRuns (evCum acc (x :: L)) =
      (List.range' x.1 (lastPos (x :: L) - x.1)).map (fun p => acc + sumLe (x :: L) p) := by
  induction L with
  | nil => intro x acc _; obtain ⟨q, d⟩ := x; simp [evCum, stepRuns, lastPos]
  | cons y L ih =>
    intro x acc hs
    obtain ⟨q0, d0⟩ := x
    have hs' := (List.pairwise_cons.1 hs).2
    have h01 : q0 ≤ y.1 := (List.pairwise_cons.1 hs).1 y (by simp)
    have hlast : lastPos ((q0, d0) :: y :: L) = lastPos (y :: L) := by simp [lastPos]
    have hge := lastPos_ge L y hs'
    have ih' := ih y (acc + d0) hs'
    obtain ⟨q1, d1⟩ := y
    simp only [evCum, stepRuns] at ih' ⊢
    rw [ih', hlast]
    have hsplit : List.range' q0 (lastPos ((q1, d1) :: L) - q0) =
        List.range' q0 (q1 - q0) ++ List.range' q1 (lastPos ((q1, d1) :: L) - q1) := by
      have := List.range'_append_1 (s := q0) (m := q1 - q0) (n := lastPos ((q1, d1) :: L) - q1)
      rw [show q0 + (q1 - q0) = q1 by simp only at h01; omega,
        show q1 - q0 + (lastPos ((q1, d1) :: L) - q1) = lastPos ((q1, d1) :: L) - q0 by simp only at h01 hge; omega] at this
      exact this.symm
    rw [hsplit, List.map_append]
    congr 1
    · refine (map_range'_const _ (acc + d0) q0 (q1 - q0) (fun p h1 h2 => ?_)).symm
      rw [sumLe_cons, if_pos (by simp only; omega)]
      rw [sumLe_zero_of_lt _ p (fun z hz => by
        rcases List.mem_cons.1 hz with rfl | hz
        · simp only at h01 ⊢; omega
        · have := (List.pairwise_cons.1 hs').1 z hz
          simp only at this h01; omega)]
      simp
    · apply List.map_congr_left
      intro p hp
      rw [List.mem_range'_1] at hp
      rw [sumLe_cons (q0, d0), if_pos (by simp only at h01 ⊢; omega)]
      simp only; omega

theorem insertBy_head {α : Type} (le : α → α → Bool) (a : α) (l : List α) (h : ∀ b, le a b = true) :
    insertBy le a l = a :: l := by
  cases l with
  | nil => rfl
  | cons b bs => simp [insertBy, h b]

theorem perm_sum_int {l₁ l₂ : List Int} (h : l₁.Perm l₂) : l₁.sum = l₂.sum := by
  induction h with
  | nil => rfl
  | cons x _ ih => simp [ih]
  | swap x y l => simp only [List.sum_cons]; omega
  | trans _ _ ih1 ih2 => rw [ih1, ih2]

theorem sumLe_perm {L₁ L₂ : List (Nat × Int)} (h : L₁.Perm L₂) (p : Nat) : sumLe L₁ p = sumLe L₂ p :=
  perm_sum_int ((h.filter _).map _)

theorem sumLe_append (L₁ L₂ : List (Nat × Int)) (p : Nat) : sumLe (L₁ ++ L₂) p = sumLe L₁ p + sumLe L₂ p := by
  simp [sumLe]

theorem lastPos_eq_max (L : List (Nat × Int)) (m : Nat) (hs : L.Pairwise (fun a b => a.1 ≤ b.1))
    (hle : ∀ x ∈ L, x.1 ≤ m) (hm : ∃ x ∈ L, x.1 = m) : lastPos L = m := by
  obtain ⟨w, hw, hwm⟩ := hm
  have hne : L ≠ [] := by intro h; simp [h] at hw
  have h1 : L.dropLast ++ [L.getLast hne] = L := List.dropLast_concat_getLast hne
  have hl : lastPos L = (L.getLast hne).1 := by simp [lastPos, List.getLast?_eq_some_getLast hne]
  have hz := hle _ (List.getLast_mem hne)
  rw [hl]
  rw [← h1] at hs hw
  rcases List.mem_append.1 hw with hw | hw
  · have := (List.pairwise_append.1 hs).2.2 w hw (L.getLast hne) (by simp)
    omega
  · simp only [List.mem_singleton] at hw
    rw [← hw]; exact hwm

/-- the delta assigned by `np.where(args >= n + 1, -1, 1)` -/
def wDelta (n : Nat) (a : Nat × Nat) : Int := if a.2 ≥ n + 1 then (-1 : Int) else 1

theorem sumLe_zipIdx_const (n : Nat) (c : Int) (p : Nat) (l : List Nat) : ∀ k,
    (∀ x ∈ l.zipIdx k, wDelta n x = c) →
    sumLe ((l.zipIdx k).map (fun a => (a.1, wDelta n a))) p = c * (l.countP (fun s => decide (s ≤ p)) : Nat) := by
  induction l with
  | nil => intro k _; simp [sumLe]
  | cons s l ih =>
    intro k h
    simp only [List.zipIdx_cons, List.map_cons]
    rw [sumLe_cons, ih (k + 1) (fun x hx => h x (by simp [hx])), h (s, k) (by simp), List.countP_cons]
    by_cases hs : s ≤ p
    · simp only [hs, if_true, decide_true]
      rw [show ((List.countP (fun s => decide (s ≤ p)) l + 1 : Nat) : Int) = (List.countP (fun s => decide (s ≤ p)) l : Int) + 1 by omega,
        Int.mul_add, Int.mul_one, Int.add_comm]
    · simp [hs]

theorem cov_eq_counts' (I : List Iv) (p : Nat) (h : ∀ iv ∈ I, iv.1 ≤ iv.2) :
    (I.countP (fun iv => decide (iv.1 ≤ p)) : Int) - (I.countP (fun iv => decide (iv.2 ≤ p)) : Int) = (cov I p : Int) := by
  induction I with
  | nil => rfl
  | cons x I ih =>
    have ih' := ih (fun iv hiv => h iv (by simp [hiv]))
    have hx := h x (by simp)
    simp only [cov] at ih' ⊢
    simp only [List.countP_cons, inIv]
    by_cases h1 : x.1 ≤ p <;> by_cases h2 : x.2 ≤ p <;> by_cases h3 : p < x.2 <;> simp [h1, h2, h3] <;> omega

theorem cov_eq_counts (I : List Iv) (p : Nat) (h : ∀ iv ∈ I, iv.1 ≤ iv.2) :
    ((I.map (·.1)).countP (fun s => decide (s ≤ p)) : Int) - ((I.map (·.2)).countP (fun s => decide (s ≤ p)) : Int)
      = (cov I p : Int) := by
  rw [← cov_eq_counts' I p h, List.countP_map, List.countP_map]
  rfl

def leP (a b : Nat × Nat) : Bool := natLe a.1 b.1

theorem leP_total (a b : Nat × Nat) : leP a b = true ∨ leP b a = true := by
  simp only [leP, natLe, decide_eq_true_eq]; omega

theorem leP_trans (a b c : Nat × Nat) : leP a b = true → leP b c = true → leP a c = true := by
  simp only [leP, natLe, decide_eq_true_eq]; omega

/-- **event pileup** (`arithmetics.bedgraph.get_pileup`: sort the endpoints, ±1, cumulative sum, drop duplicate
positions): the resulting run-length array is well formed and its dense meaning is the number of intervals
covering each base -/
theorem pileup_events (I : List Iv) (size : Nat) (hI : ∀ iv ∈ I, iv.1 ≤ iv.2 ∧ iv.2 ≤ size) :
    (pileupEvents I size).toDense = (specPileup I size).map Int.ofNat := by
  -- unfold the model
  obtain ⟨T', hT'⟩ : ∃ T', T' = (I.map (fun x : Iv => x.1) ++ I.map (fun x : Iv => x.2) ++ [size]).zipIdx 1 := ⟨_, rfl⟩
  obtain ⟨S', hS'⟩ : ∃ S', S' = isort (fun a b => natLe a.1 b.1) T' := ⟨_, rfl⟩
  have hsorted : isort (fun a b => natLe a.1 b.1) (([0] ++ I.map (fun x : Iv => x.1) ++ I.map (fun x : Iv => x.2) ++ [size]).zipIdx) = (0, 0) :: S' := by
    have : ([0] ++ I.map (fun x : Iv => x.1) ++ I.map (fun x : Iv => x.2) ++ [size]).zipIdx = (0, 0) :: T' := by
      rw [hT']; simp [List.zipIdx_cons]
    rw [this, isort, ← hS']
    exact insertBy_head _ _ _ (fun b => by simp [natLe])
  obtain ⟨L, hL⟩ : ∃ L, L = ((0 : Nat), (0 : Int)) :: S'.map (fun a => (a.1, wDelta I.length a)) := ⟨_, rfl⟩
  have hpos : ((0, 0) :: S').map (·.1) = L.map (·.1) := by rw [hL]; simp [Function.comp_def]
  have hdel : ((((0, 0) :: S').map (fun a => if a.2 ≥ I.length + 1 then (-1 : Int) else 1)).set 0 0) = L.map (·.2) := by
    rw [hL]; simp [Function.comp_def, wDelta]
  have hperm : S'.Perm T' := by rw [hS']; exact isort_perm _ _
  have hS'sorted : S'.Pairwise (fun a b => a.1 ≤ b.1) := by
    rw [hS']
    exact (isort_pairwise leP leP_total leP_trans T').imp (by simp [leP, natLe])
  have hLsorted : L.Pairwise (fun a b => a.1 ≤ b.1) := by
    rw [hL]
    refine List.pairwise_cons.2 ⟨fun _ _ => Nat.zero_le _, ?_⟩
    exact List.pairwise_map.2 hS'sorted
  -- positions of the events
  have hT'mem : ∀ x ∈ T', x.1 ≤ size := by
    intro x hx
    rw [hT'] at hx
    have hx1 : x.1 ∈ (I.map (fun x : Iv => x.1) ++ I.map (fun x : Iv => x.2) ++ [size]) := by
      have := List.mem_map_of_mem (f := Prod.fst) hx
      rwa [List.zipIdx_map_fst] at this
    rcases List.mem_append.1 hx1 with h | h
    · rcases List.mem_append.1 h with h | h
      · obtain ⟨iv, hiv, h2⟩ := List.mem_map.1 h; have := hI iv hiv; omega
      · obtain ⟨iv, hiv, h2⟩ := List.mem_map.1 h; have := hI iv hiv; omega
    · simp only [List.mem_singleton] at h; omega
  have hlast : lastPos L = size := by
    refine lastPos_eq_max L size hLsorted ?_ ?_
    · intro x hx
      rw [hL] at hx
      rcases List.mem_cons.1 hx with rfl | hx
      · exact Nat.zero_le _
      · obtain ⟨a, ha, rfl⟩ := List.mem_map.1 hx
        exact hT'mem a (hperm.mem_iff.1 ha)
    · have : (size, 1 + (I.map (fun x : Iv => x.1) ++ I.map (fun x : Iv => x.2)).length) ∈ T' := by
        rw [hT', List.zipIdx_append]; simp
      exact ⟨_, by rw [hL]; exact List.mem_cons_of_mem _ (List.mem_map_of_mem (hperm.mem_iff.2 this)), rfl⟩
  -- dense meaning
  have hdense : (pileupEvents I size).toDense = (List.range' 0 (size - 0)).map (fun p => (0 : Int) + sumLe L p) := by
    simp only [pileupEvents, Rle.toDense, natLe] at hsorted ⊢
    rw [hsorted, hpos, hdel, runs_dedupLast, zip_cumsum]
    rw [hL] at hLsorted hlast ⊢
    rw [stepRuns_evCum _ _ 0 hLsorted, hlast]
  rw [hdense, specPileup, List.map_map, List.range_eq_range', Nat.sub_zero]
  apply List.map_congr_left
  intro p hp
  rw [List.mem_range'_1] at hp
  -- the sum of the deltas at positions ≤ p
  have h1 : sumLe L p = sumLe (T'.map (fun a => (a.1, wDelta I.length a))) p := by
    rw [hL, sumLe_cons]
    simp only [Nat.zero_le, if_true, Int.zero_add]
    exact sumLe_perm (hperm.map _) p
  have hn : (I.map (fun x : Iv => x.1)).length = I.length := by simp
  have hn2 : (I.map (fun x : Iv => x.2)).length = I.length := by simp
  have h2 : sumLe (T'.map (fun a => (a.1, wDelta I.length a))) p =
      ((I.map (fun x : Iv => x.1)).countP (fun s => decide (s ≤ p)) : Int) - ((I.map (fun x : Iv => x.2)).countP (fun s => decide (s ≤ p)) : Int) := by
    rw [hT', List.zipIdx_append, List.zipIdx_append, List.map_append, List.map_append, sumLe_append, sumLe_append]
    rw [sumLe_zipIdx_const I.length 1 p _ 1 (fun x hx => by
        have := (List.mem_zipIdx (x := x.1) (i := x.2) hx)
        simp only [wDelta]; rw [if_neg (by omega)])]
    rw [sumLe_zipIdx_const I.length (-1) p _ _ (fun x hx => by
        have := (List.mem_zipIdx (x := x.1) (i := x.2) hx)
        simp only [wDelta]; rw [if_pos (by omega)])]
    have h3 : ∀ k, sumLe (List.map (fun a => (a.1, wDelta I.length a)) ([size].zipIdx k)) p = 0 := by
      intro k
      simp only [List.zipIdx_cons, List.zipIdx_nil, List.map_cons, List.map_nil]
      rw [sumLe_cons, if_neg (by simp only; omega)]; rfl
    rw [h3]; omega
  rw [h1, h2, cov_eq_counts I p (fun iv hiv => (hI iv hiv).1)]
  simp

theorem dedupLast_sublist {α : Type} (P : List (Nat × α)) : (dedupLast P).Sublist P := by
  induction P with
  | nil => exact List.Sublist.slnil
  | cons x P ih =>
    cases P with
    | nil => exact List.Sublist.refl _
    | cons y P =>
      simp only [dedupLast]
      split
      · exact List.Sublist.cons _ ih
      · exact List.Sublist.cons₂ _ ih

theorem dedupLast_strict {α : Type} (P : List (Nat × α)) (hs : P.Pairwise (fun a b => a.1 ≤ b.1)) :
    ((dedupLast P).map (·.1)).Pairwise (· < ·) := by
  induction P with
  | nil => simp [dedupLast]
  | cons x P ih =>
    cases P with
    | nil => simp [dedupLast]
    | cons y P =>
      have hs' := (List.pairwise_cons.1 hs).2
      simp only [dedupLast]
      split
      · exact ih hs'
      · rename_i hne
        have hne' : x.1 ≠ y.1 := by simpa using hne
        simp only [List.map_cons]
        refine List.pairwise_cons.2 ⟨?_, ih hs'⟩
        intro z hz
        obtain ⟨w, hw, rfl⟩ := List.mem_map.1 hz
        have hw' : w ∈ y :: P := (dedupLast_sublist (y :: P)).subset hw
        have h1 : x.1 ≤ y.1 := (List.pairwise_cons.1 hs).1 y (by simp)
        rcases List.mem_cons.1 hw' with rfl | hw'
        · omega
        · have := (List.pairwise_cons.1 hs').1 w hw'; omega

/-- the run-length array built by the event pileup is well formed, so `to_array` (xor-accumulate on the 64-bit
words, see C09) returns its dense meaning -/
theorem pileup_events_WF (I : List Iv) (size : Nat) : (pileupEvents I size).WF := by
  obtain ⟨T', hT'⟩ : ∃ T', T' = (I.map (fun x : Iv => x.1) ++ I.map (fun x : Iv => x.2) ++ [size]).zipIdx 1 := ⟨_, rfl⟩
  obtain ⟨S', hS'⟩ : ∃ S', S' = isort (fun a b => natLe a.1 b.1) T' := ⟨_, rfl⟩
  have hsorted : isort (fun a b => natLe a.1 b.1) (([0] ++ I.map (fun x : Iv => x.1) ++ I.map (fun x : Iv => x.2) ++ [size]).zipIdx) = (0, 0) :: S' := by
    have : ([0] ++ I.map (fun x : Iv => x.1) ++ I.map (fun x : Iv => x.2) ++ [size]).zipIdx = (0, 0) :: T' := by
      rw [hT']; simp [List.zipIdx_cons]
    rw [this, isort, ← hS']
    exact insertBy_head _ _ _ (fun b => by simp [natLe])
  have hS'sorted : S'.Pairwise (fun a b => a.1 ≤ b.1) := by
    rw [hS']
    exact (isort_pairwise leP leP_total leP_trans T').imp (by simp [leP, natLe])
  obtain ⟨P, hP⟩ : ∃ P, P = (((0, 0) :: S').map (·.1)).zip (cumsum 0 ((((0, 0) :: S').map
      (fun a => if a.2 ≥ I.length + 1 then (-1 : Int) else 1)).set 0 0)) := ⟨_, rfl⟩
  have hPs : P.Pairwise (fun a b => a.1 ≤ b.1) := by
    rw [hP]
    exact pairwise_zip_fst (· ≤ ·) _ _ (List.pairwise_map.2 (List.pairwise_cons.2 ⟨fun _ _ => Nat.zero_le _, hS'sorted⟩))
  have hr : pileupEvents I size = ⟨(dedupLast P).map (·.1), ((dedupLast P).map (·.2)).dropLast⟩ := by
    simp only [pileupEvents, natLe] at hsorted ⊢
    rw [hsorted, ← hP]
  obtain ⟨c0, Ptl, hPc⟩ : ∃ c0 Ptl, P = (0, c0) :: Ptl := by
    rw [hP]; simp [cumsum]
  obtain ⟨v, tl, hv⟩ := dedupLast_head (0, c0) Ptl
  rw [hr]
  refine ⟨?_, ?_, dedupLast_strict P hPs⟩
  · simp only [List.length_map, List.length_dropLast]
    rw [hPc, hv]; simp
  · rw [hPc, hv]; rfl

/-! ## count_overlap / intersect: the "independently sorted starts and stops" formulas -/

/-- pairs `(start, stop)` whose starts and whose stops are both sorted: the number of pairs containing `x`
is (#starts ≤ x) − (#stops ≤ x) -/
theorem cov_sorted_pairs (Z : List Iv) (x : Nat) (h1 : (Z.map (·.1)).Pairwise (· ≤ ·)) (h2 : (Z.map (·.2)).Pairwise (· ≤ ·)) :
    cov Z x = Z.countP (fun z => decide (z.1 ≤ x)) - Z.countP (fun z => decide (z.2 ≤ x)) := by
  induction Z with
  | nil => rfl
  | cons z Z ih =>
    simp only [List.map_cons] at h1 h2
    have ih' := ih (List.pairwise_cons.1 h1).2 (List.pairwise_cons.1 h2).2
    have hs : ∀ y ∈ Z, z.1 ≤ y.1 := fun y hy => (List.pairwise_cons.1 h1).1 y.1 (List.mem_map_of_mem hy)
    have he : ∀ y ∈ Z, z.2 ≤ y.2 := fun y hy => (List.pairwise_cons.1 h2).1 y.2 (List.mem_map_of_mem hy)
    simp only [cov, List.countP_cons] at ih' ⊢
    simp only [inIv]
    by_cases hx : x < z.2
    · -- no stop is ≤ x
      have hE : Z.countP (fun z => decide (z.2 ≤ x)) = 0 := by
        apply List.countP_eq_zero.2
        intro y hy; have := he y hy; simp; omega
      have hcov : Z.countP (inIv x) = Z.countP (fun z => decide (z.1 ≤ x)) := by
        apply List.countP_congr
        intro y hy; have := he y hy
        simp only [inIv, Bool.and_eq_true, decide_eq_true_eq]
        constructor
        · exact fun h => h.1
        · exact fun h => ⟨h, by omega⟩
      rw [hE, hcov]
      have h4 : ¬ z.2 ≤ x := by omega
      by_cases h3 : z.1 ≤ x <;> simp [h3, hx, h4]
    · by_cases h3 : z.1 ≤ x
      · simp only [h3, hx, decide_true, decide_false, Bool.and_false, Bool.false_eq_true, if_false, if_true,
          show z.2 ≤ x from by omega]
        omega
      · -- no start is ≤ x
        have hS : Z.countP (fun z => decide (z.1 ≤ x)) = 0 := by
          apply List.countP_eq_zero.2
          intro y hy; have := hs y hy; simp; omega
        have hcov : Z.countP (inIv x) = 0 := by
          apply List.countP_eq_zero.2
          intro y hy; have := hs y hy; simp [inIv]; omega
        rw [hS, hcov]
        simp [h3]

theorem natLe_total (a b : Nat) : natLe a b = true ∨ natLe b a = true := by
  simp only [natLe, decide_eq_true_eq]; omega

theorem natLe_trans (a b c : Nat) : natLe a b = true → natLe b c = true → natLe a c = true := by
  simp only [natLe, decide_eq_true_eq]; omega

theorem isort_natLe_sorted (l : List Nat) : (isort natLe l).Pairwise (· ≤ ·) :=
  (isort_pairwise natLe natLe_total natLe_trans l).imp (by simp [natLe])

theorem countLe_isort (l : List Nat) (x : Nat) :
    (isort natLe l).countP (fun s => decide (s ≤ x)) = l.countP (fun s => decide (s ≤ x)) :=
  (isort_perm natLe l).countP_eq _

theorem zipWith_dropLast_right {α β γ : Type} (f : α → β → γ) : ∀ (l : List α) (m : List β), l.length < m.length →
    List.zipWith f l m.dropLast = List.zipWith f l m := by
  intro l m
  induction m generalizing l with
  | nil => intro h; simp at h
  | cons b m ih =>
    intro h
    cases m with
    | nil => cases l with
      | nil => rfl
      | cons a l => simp at h
    | cons c m =>
      cases l with
      | nil => simp
      | cons a l =>
        simp only [List.dropLast_cons_cons, List.zipWith_cons_cons]
        rw [ih l (by simpa using h)]

theorem zip_dropLast_right {α β : Type} (l : List α) (m : List β) (h : l.length < m.length) :
    l.zip m.dropLast = l.zip m := by
  simp only [List.zip]; exact zipWith_dropLast_right _ l m h

theorem countLe_sorted_zero (l : List Nat) (h : Nat) (x : Nat) (hs : (h :: l).Pairwise (· ≤ ·)) (hx : x < h) :
    (h :: l).countP (fun s => decide (s ≤ x)) = 0 := by
  apply List.countP_eq_zero.2
  intro y hy
  rcases List.mem_cons.1 hy with rfl | hy
  · simp; omega
  · have := (List.pairwise_cons.1 hs).1 y hy; simp; omega

theorem countLe_sorted_all (l : List Nat) (x : Nat) (hs : l.Pairwise (· ≤ ·)) (hne : l ≠ []) (hx : l.getLast hne ≤ x) :
    l.countP (fun s => decide (s ≤ x)) = l.length := by
  apply List.countP_eq_length.2
  intro y hy
  have h1 : l.dropLast ++ [l.getLast hne] = l := List.dropLast_concat_getLast hne
  rw [← h1] at hs hy
  rcases List.mem_append.1 hy with hy | hy
  · have := (List.pairwise_append.1 hs).2.2 y hy (l.getLast hne) (by simp); simp; omega
  · simp only [List.mem_singleton] at hy; simp; omega

/-- **key identity**: pairing the (i+1)-th smallest start with the i-th smallest stop gives intervals that cover
every base exactly `depth − 1` times (0 where the depth is 0) -/
theorem cov_pairing (I : List Iv) (h : ∀ iv ∈ I, iv.1 ≤ iv.2) (x : Nat) :
    cov ((isort natLe (I.map (·.1))).tail.zip (isort natLe (I.map (·.2)))) x = cov I x - 1 := by
  obtain ⟨st, hst⟩ : ∃ st, st = isort natLe (I.map (·.1)) := ⟨_, rfl⟩
  obtain ⟨sp, hsp⟩ : ∃ sp, sp = isort natLe (I.map (·.2)) := ⟨_, rfl⟩
  rw [← hst, ← hsp]
  have hstS : st.Pairwise (· ≤ ·) := hst ▸ isort_natLe_sorted _
  have hspS : sp.Pairwise (· ≤ ·) := hsp ▸ isort_natLe_sorted _
  have hlen1 : st.length = I.length := by rw [hst, (isort_perm natLe _).length_eq]; simp
  have hlen2 : sp.length = I.length := by rw [hsp, (isort_perm natLe _).length_eq]; simp
  have hS : st.countP (fun s => decide (s ≤ x)) = I.countP (fun iv => decide (iv.1 ≤ x)) := by
    rw [hst, countLe_isort, List.countP_map]; rfl
  have hE : sp.countP (fun s => decide (s ≤ x)) = I.countP (fun iv => decide (iv.2 ≤ x)) := by
    rw [hsp, countLe_isort, List.countP_map]; rfl
  have hdepth := cov_eq_counts' I x h
  rw [← hS, ← hE] at hdepth
  cases hst' : st with
  | nil =>
    have : I = [] := by cases I with
      | nil => rfl
      | cons a I => rw [hst'] at hlen1; simp at hlen1
    subst this; simp [cov]
  | cons s0 st' =>
    have hspne : sp ≠ [] := by
      intro h0; rw [h0] at hlen2; rw [hst'] at hlen1
      simp only [List.length_cons, List.length_nil] at hlen1 hlen2; omega
    have hzip : (s0 :: st').tail.zip sp = st'.zip sp.dropLast := by
      rw [List.tail_cons, zip_dropLast_right st' sp (by rw [hst'] at hlen1; simp at hlen1; omega)]
    rw [hzip]
    have hl : st'.length = sp.dropLast.length := by
      rw [List.length_dropLast]; rw [hst', List.length_cons] at hlen1; omega
    rw [hst'] at hstS hS hdepth
    have hspD : sp.dropLast.Pairwise (· ≤ ·) := List.Pairwise.sublist (List.dropLast_sublist sp) hspS
    rw [cov_sorted_pairs _ x (by rw [List.map_fst_zip (by omega)]; exact (List.pairwise_cons.1 hstS).2)
      (by rw [List.map_snd_zip (by omega)]; exact hspD)]
    have c1 : (st'.zip sp.dropLast).countP (fun z => decide (z.1 ≤ x)) = st'.countP (fun s => decide (s ≤ x)) := by
      have := List.countP_map (p := fun s => decide (s ≤ x)) (f := Prod.fst) (l := st'.zip sp.dropLast)
      rw [List.map_fst_zip (by omega)] at this
      rw [this]; rfl
    have c2 : (st'.zip sp.dropLast).countP (fun z => decide (z.2 ≤ x)) = sp.dropLast.countP (fun s => decide (s ≤ x)) := by
      have := List.countP_map (p := fun s => decide (s ≤ x)) (f := Prod.snd) (l := st'.zip sp.dropLast)
      rw [List.map_snd_zip (by omega)] at this
      rw [this]; rfl
    rw [c1, c2]
    have hsplit : sp.countP (fun s => decide (s ≤ x)) =
        sp.dropLast.countP (fun s => decide (s ≤ x)) + (if sp.getLast hspne ≤ x then 1 else 0) := by
      conv => lhs; rw [← List.dropLast_concat_getLast hspne]
      rw [List.countP_append]; simp [List.countP_cons]
    have hScons : (s0 :: st').countP (fun s => decide (s ≤ x)) =
        st'.countP (fun s => decide (s ≤ x)) + (if s0 ≤ x then 1 else 0) := by
      simp [List.countP_cons]
    have hSle : (s0 :: st').countP (fun s => decide (s ≤ x)) ≤ (s0 :: st').length := List.countP_le_length
    have hn : (s0 :: st').length = sp.length := by rw [hst'] at hlen1; omega
    by_cases h0 : s0 ≤ x
    · by_cases hL : sp.getLast hspne ≤ x
      · have := countLe_sorted_all sp x hspS hspne hL
        rw [if_pos hL] at hsplit; rw [if_pos h0] at hScons
        omega
      · rw [if_neg hL] at hsplit; rw [if_pos h0] at hScons
        omega
    · have hz := countLe_sorted_zero st' s0 x hstS (by omega)
      by_cases hL : sp.getLast hspne ≤ x
      · have := countLe_sorted_all sp x hspS hspne hL
        have : 0 < sp.length := List.length_pos_iff.2 hspne
        rw [if_pos hL] at hsplit
        omega
      · rw [if_neg hL] at hsplit; rw [if_neg h0] at hScons
        omega

theorem cov_append (A B : List Iv) (x : Nat) : cov (A ++ B) x = cov A x + cov B x := by
  simp [cov, List.countP_append]

theorem cov_filter_nonempty' (Z : List Iv) (x : Nat) : cov (Z.filter (fun p => decide (p.2 > p.1))) x = cov Z x := by
  induction Z with
  | nil => rfl
  | cons z Z ih =>
    simp only [List.filter_cons]
    split
    · simp only [cov, List.countP_cons] at ih ⊢; rw [ih]
    · rename_i h
      simp only [cov, List.countP_cons] at ih ⊢
      rw [ih]
      have : inIv x z = false := by
        simp only [gt_iff_lt, decide_eq_true_eq, Nat.not_lt] at h
        simp only [inIv]
        cases h1 : decide (z.1 ≤ x) <;> cases h2 : decide (x < z.2) <;> simp_all
        omega
      simp [this]

/-- `intersect` (for any two interval lists with start ≤ stop): the returned pieces cover every base
`depth − 1` times, where depth is the number of intervals of `A ++ B` covering it -/
theorem intersect_depth (A B : List Iv) (h : ∀ iv ∈ A ++ B, iv.1 ≤ iv.2) (x : Nat) :
    cov (intersect A B) x = cov (A ++ B) x - 1 := by
  simp only [intersect]
  rw [cov_filter_nonempty', ← List.map_append, ← List.map_append]
  exact cov_pairing (A ++ B) h x

theorem disjointSorted_pairwise (L : List Iv) (h : disjointSorted L = true) :
    L.Pairwise (fun a b => a.2 ≤ b.1) ∧ ∀ a ∈ L, a.1 < a.2 := by
  induction L with
  | nil => simp
  | cons a L ih =>
    cases L with
    | nil => simp [disjointSorted] at h ⊢; exact h
    | cons b L =>
      simp only [disjointSorted, Bool.and_eq_true, decide_eq_true_eq] at h
      obtain ⟨⟨h1, h2⟩, h3⟩ := h
      obtain ⟨ih1, ih2⟩ := ih h3
      refine ⟨List.pairwise_cons.2 ⟨?_, ih1⟩, ?_⟩
      · intro c hc
        rcases List.mem_cons.1 hc with rfl | hc
        · exact h2
        · have := (List.pairwise_cons.1 ih1).1 c hc
          have := ih2 b (by simp)
          omega
      · intro c hc
        rcases List.mem_cons.1 hc with rfl | hc
        · exact h1
        · exact ih2 c hc

theorem cov_le_one_of_pairwise (L : List Iv) (h1 : L.Pairwise (fun a b => a.2 ≤ b.1)) (h2 : ∀ a ∈ L, a.1 < a.2) (x : Nat) :
    cov L x ≤ 1 := by
  induction L with
  | nil => simp [cov]
  | cons a L ih =>
    have ih' := ih (List.pairwise_cons.1 h1).2 (fun b hb => h2 b (by simp [hb]))
    simp only [cov, List.countP_cons] at ih' ⊢
    by_cases hin : inIv x a = true
    · have : L.countP (inIv x) = 0 := by
        apply List.countP_eq_zero.2
        intro b hb
        have := (List.pairwise_cons.1 h1).1 b hb
        simp only [inIv, Bool.and_eq_true, decide_eq_true_eq] at hin ⊢
        omega
      rw [this]; simp [hin]
    · simp [hin]; exact ih'

theorem cov_perm {I J : List Iv} (h : I.Perm J) (x : Nat) : cov I x = cov J x := h.countP_eq _

theorem cov_le_one (A : List Iv) (h : internallyDisjoint A = true) (x : Nat) : cov A x ≤ 1 := by
  obtain ⟨h1, h2⟩ := disjointSorted_pairwise _ h
  rw [← cov_perm (isort_perm startLe A) x]
  exact cov_le_one_of_pairwise _ h1 h2 x

theorem internallyDisjoint_le (A : List Iv) (h : internallyDisjoint A = true) : ∀ iv ∈ A, iv.1 ≤ iv.2 := by
  intro iv hiv
  have := (disjointSorted_pairwise _ h).2 iv ((isort_perm startLe A).mem_iff.2 hiv)
  omega

/-- **intersect** on internally non-overlapping operands: every base covered by both `A` and `B` is covered by
exactly one returned piece, every other base by none -/
theorem intersect_perbase (A B : List Iv) (dA : internallyDisjoint A = true) (dB : internallyDisjoint B = true) (x : Nat) :
    cov (intersect A B) x = if 0 < cov A x ∧ 0 < cov B x then 1 else 0 := by
  rw [intersect_depth A B (fun iv hiv => by
    rcases List.mem_append.1 hiv with h | h
    · exact internallyDisjoint_le A dA iv h
    · exact internallyDisjoint_le B dB iv h) x, cov_append]
  have := cov_le_one A dA x
  have := cov_le_one B dB x
  split <;> omega

theorem count_range_interval (s e : Nat) : ∀ n, (List.range n).countP (fun x => inIv x (s, e)) = min e n - s := by
  intro n
  induction n with
  | zero => simp
  | succ n ih =>
    rw [List.range_succ, List.countP_append, ih]
    simp only [List.countP_cons, List.countP_nil, inIv, Nat.zero_add]
    by_cases h : s ≤ n ∧ n < e
    · simp [h.1, h.2]; omega
    · have : (decide (s ≤ n) && decide (n < e)) = false := by
        simp only [Bool.and_eq_false_imp, decide_eq_true_eq, decide_eq_false_iff_not]
        intro h1 h2; exact h ⟨h1, h2⟩
      simp [this]; omega

theorem countP_eq_sum_ite {α : Type} (p : α → Bool) (l : List α) :
    l.countP p = (l.map (fun a => if p a then 1 else 0)).sum := by
  induction l with
  | nil => rfl
  | cons a l ih => simp only [List.countP_cons, List.map_cons, List.sum_cons, ih]; omega

theorem sum_map_add {α : Type} (f g : α → Nat) (l : List α) :
    (l.map (fun a => f a + g a)).sum = (l.map f).sum + (l.map g).sum := by
  induction l with
  | nil => rfl
  | cons a l ih => simp only [List.map_cons, List.sum_cons, ih]; omega

/-- counting covered (interval, base) pairs by intervals or by bases gives the same number -/
theorem sum_lengths_eq_sum_cov (Z : List Iv) (n : Nat) :
    (Z.map (fun z => (List.range n).countP (fun x => inIv x z))).sum = ((List.range n).map (fun x => cov Z x)).sum := by
  induction Z with
  | nil => simp [cov, List.map_const', List.sum_replicate_nat]
  | cons z Z ih =>
    simp only [List.map_cons, List.sum_cons, ih, cov, List.countP_cons]
    rw [sum_map_add, countP_eq_sum_ite]
    omega

theorem sum_int_cast (l : List Nat) : (l.map (fun n : Nat => (n : Int))).sum = ((l.sum : Nat) : Int) := by
  induction l with
  | nil => rfl
  | cons a l ih => simp only [List.map_cons, List.sum_cons, ih]; omega

/-- `count_overlap` for any two interval lists inside the contig: the sum of `depth − 1` over the bases -/
theorem countOverlap_depth (A B : List Iv) (size : Nat) (h : ∀ iv ∈ A ++ B, iv.1 ≤ iv.2 ∧ iv.2 ≤ size) :
    countOverlap A B = ((((List.range size).map (fun x => cov (A ++ B) x - 1)).sum : Nat) : Int) := by
  obtain ⟨Z, hZ⟩ : ∃ Z, Z = (isort natLe ((A ++ B).map (·.1))).tail.zip (isort natLe ((A ++ B).map (·.2))) := ⟨_, rfl⟩
  have hco : countOverlap A B = (Z.map (fun z => ((z.2 - z.1 : Nat) : Int))).sum := by
    simp only [countOverlap, ← List.map_append]
    rw [hZ, List.zipWith_comm, ← List.map_uncurry_zip_eq_zipWith]
    congr 1
    apply List.map_congr_left
    intro p _
    simp only [Function.uncurry]; omega
  have hle : ∀ z ∈ Z, z.2 ≤ size := by
    intro z hz
    rw [hZ] at hz
    have := (List.of_mem_zip (a := z.1) (b := z.2) hz).2
    obtain ⟨iv, hiv, h2⟩ := List.mem_map.1 ((isort_perm natLe _).mem_iff.1 this)
    rw [← h2]; exact (h iv hiv).2
  rw [hco]
  have : (Z.map (fun z => ((z.2 - z.1 : Nat) : Int))) = (Z.map (fun z : Iv => z.2 - z.1)).map (fun n : Nat => (n : Int)) := by
    rw [List.map_map]; rfl
  rw [this, sum_int_cast]
  congr 1
  have hlen : Z.map (fun z : Iv => z.2 - z.1) = Z.map (fun z => (List.range size).countP (fun x => inIv x z)) := by
    apply List.map_congr_left
    intro z hz
    rw [count_range_interval z.1 z.2 size, Nat.min_eq_left (hle z hz)]
  rw [hlen, sum_lengths_eq_sum_cov]
  congr 1
  apply List.map_congr_left
  intro x _
  rw [hZ]
  exact cov_pairing (A ++ B) (fun iv hiv => (h iv hiv).1) x

/-- **count_overlap** on internally non-overlapping operands equals the number of bases covered by both -/
theorem countOverlap_perbase (A B : List Iv) (size : Nat) (hA : ∀ iv ∈ A, iv.2 ≤ size) (hB : ∀ iv ∈ B, iv.2 ≤ size)
    (dA : internallyDisjoint A = true) (dB : internallyDisjoint B = true) :
    countOverlap A B = (specCountOverlap A B size : Int) := by
  rw [countOverlap_depth A B size (fun iv hiv => by
    rcases List.mem_append.1 hiv with h | h
    · exact ⟨internallyDisjoint_le A dA iv h, hA iv h⟩
    · exact ⟨internallyDisjoint_le B dB iv h, hB iv h⟩)]
  congr 1
  rw [specCountOverlap, countP_eq_sum_ite]
  congr 1
  apply List.map_congr_left
  intro x _
  rw [cov_append]
  have := cov_le_one A dA x
  have := cov_le_one B dB x
  by_cases h1 : 0 < cov A x <;> by_cases h2 : 0 < cov B x <;> simp [h1, h2] <;> omega

example : internallyDisjoint [(5, 8), (0, 3), (3, 4)] = true ∧ internallyDisjoint [(2, 6)] = true := by decide

/-- the part of the exported `get_pileup` that lives in the repository: an empty interval set gives the all-zero
array; any other input is handed unchanged to the external counting engine (npstructures), whose agreement with the
per-base count is correspondence only. (Earlier called `getPileup_dense`; it does not prove the engine.) -/
theorem getPileup_empty_case (ext : List Iv → Nat → List Nat) (size : Nat) :
    getPileup ext [] size = specPileup [] size ∧ ∀ a I, getPileup ext (a :: I) size = ext (a :: I) size := by
  constructor
  · simp only [getPileup, List.isEmpty_nil, if_true, Rle.toDense, runs, List.append_nil, Nat.sub_zero, specPileup]
    rw [List.range_eq_range']
    exact (map_range'_const _ 0 0 size (fun p _ _ => rfl)).symm
  · intro a I; simp [getPileup]

/-! ## spec-level characterisations, uniqueness, idempotence, order independence -/

/-- `cov` in plain list vocabulary: the number of intervals that contain the base -/
theorem cov_eq_length_filter (I : List Iv) (p : Nat) :
    cov I p = (I.filter (fun iv => decide (iv.1 ≤ p ∧ p < iv.2))).length := by
  rw [cov, List.countP_eq_length_filter]
  congr 1
  apply List.filter_congr
  intro iv _
  simp [inIv]

/-- the mask is the pileup thresholded at 1 -/
theorem specMask_eq_map_pileup (I : List Iv) (size : Nat) :
    specMask I size = (specPileup I size).map (fun n => decide (0 < n)) := by
  simp [specMask, specPileup]

/-- a sorted list is determined by its elements: two sorted permutations of each other are equal -/
theorem sorted_perm_unique : ∀ (l₁ l₂ : List Nat), l₁.Perm l₂ → l₁.Pairwise (· ≤ ·) → l₂.Pairwise (· ≤ ·) → l₁ = l₂ := by
  intro l₁
  induction l₁ with
  | nil => intro l₂ h _ _; exact (List.Perm.nil_eq h)
  | cons a l₁ ih =>
    intro l₂ h h1 h2
    cases l₂ with
    | nil => exact absurd h.symm (by intro h'; have := h'.length_eq; simp at this)
    | cons b l₂ =>
      have hab : a = b := by
        have ha : a ∈ b :: l₂ := h.mem_iff.1 (by simp)
        have hb : b ∈ a :: l₁ := h.mem_iff.2 (by simp)
        rcases List.mem_cons.1 ha with rfl | ha
        · rfl
        · rcases List.mem_cons.1 hb with hb | hb
          · exact hb.symm
          · have := (List.pairwise_cons.1 h1).1 b hb
            have := (List.pairwise_cons.1 h2).1 a ha
            omega
      subst hab
      rw [ih l₂ (List.Perm.cons_inv h) (List.pairwise_cons.1 h1).2 (List.pairwise_cons.1 h2).2]

/-- `isort natLe` returns THE sorted permutation: any sorted permutation of the input equals it -/
theorem isort_natLe_unique (l s : List Nat) (hp : s.Perm l) (hs : s.Pairwise (· ≤ ·)) : isort natLe l = s :=
  sorted_perm_unique _ _ ((isort_perm natLe l).trans hp.symm) (isort_natLe_sorted l) hs

theorem isort_natLe_perm_eq {l₁ l₂ : List Nat} (h : l₁.Perm l₂) : isort natLe l₁ = isort natLe l₂ :=
  isort_natLe_unique l₁ _ ((isort_perm natLe l₂).trans h.symm) (isort_natLe_sorted l₂)

/-- sorting is idempotent -/
theorem isort_natLe_idem (l : List Nat) : isort natLe (isort natLe l) = isort natLe l :=
  isort_natLe_unique _ _ (List.Perm.refl _) (isort_natLe_sorted l)

/-- `count_overlap` and `intersect` do not depend on the order of the operands nor on the order inside them -/
theorem countOverlap_perm {A A' B B' : List Iv} (hA : A.Perm A') (hB : B.Perm B') :
    countOverlap A B = countOverlap A' B' ∧ intersect A B = intersect A' B' := by
  have h1 : isort natLe (A.map (·.1) ++ B.map (·.1)) = isort natLe (A'.map (·.1) ++ B'.map (·.1)) :=
    isort_natLe_perm_eq ((hA.map _).append (hB.map _))
  have h2 : isort natLe (A.map (·.2) ++ B.map (·.2)) = isort natLe (A'.map (·.2) ++ B'.map (·.2)) :=
    isort_natLe_perm_eq ((hA.map _).append (hB.map _))
  simp only [countOverlap, intersect, h1, h2, and_self]

theorem countOverlap_comm (A B : List Iv) : countOverlap A B = countOverlap B A ∧ intersect A B = intersect B A := by
  have h1 : isort natLe (A.map (·.1) ++ B.map (·.1)) = isort natLe (B.map (·.1) ++ A.map (·.1)) :=
    isort_natLe_perm_eq List.perm_append_comm
  have h2 : isort natLe (A.map (·.2) ++ B.map (·.2)) = isort natLe (B.map (·.2) ++ A.map (·.2)) :=
    isort_natLe_perm_eq List.perm_append_comm
  simp only [countOverlap, intersect, h1, h2, and_self]

/-- `get_boolean_mask` does not depend on the order of the intervals -/
theorem mask_perm {I J : List Iv} (h : I.Perm J) (size : Nat) (hsz : 0 < size) (hI : ∀ iv ∈ I, iv.1 ≤ iv.2 ∧ iv.2 ≤ size) :
    maskDense I size = maskDense J size := by
  rw [(mask_dense I size hsz hI).2, (mask_dense J size hsz (fun iv hiv => hI iv (h.mem_iff.2 hiv))).2]
  simp only [specMask]
  apply List.map_congr_left
  intro p _
  rw [cov_perm h p]

/-- merging returns nothing only for no intervals -/
theorem merge_eq_nil_iff (d : Nat) (I : List Iv) : mergeVec d I = [] ↔ I = [] := by
  rw [mergeVec_eq_mergeRec]
  cases I with
  | nil => simp [mergeRec]
  | cons x rest =>
    obtain ⟨s, e⟩ := x
    simp only [mergeRec, reduceCtorEq, iff_false]
    generalize e = ce
    generalize s = cs
    induction rest generalizing cs ce with
    | nil => simp [mergeGo]
    | cons y rest ih =>
      obtain ⟨s', e'⟩ := y
      simp only [mergeGo]
      split
      · simp
      · exact ih (max ce e') cs

/-- a list that is already separated by more than `d` is left unchanged: merging is idempotent -/
theorem mergeGo_of_separated (d : Nat) (rest : List Iv) : ∀ cs ce, ((cs, ce) :: rest).Pairwise (fun a b => a.2 + d < b.1) →
    (∀ iv ∈ rest, iv.1 ≤ iv.2) → mergeGo d cs ce rest = (cs, ce) :: rest := by
  induction rest with
  | nil => intro cs ce _ _; rfl
  | cons y rest ih =>
    intro cs ce hp hle
    obtain ⟨s, e⟩ := y
    have h1 : ce + d < s := (List.pairwise_cons.1 hp).1 (s, e) (by simp)
    have h2 : s ≤ e := hle (s, e) (by simp)
    simp only [mergeGo]
    rw [if_pos (by omega), Nat.max_eq_right (by omega)]
    rw [ih s e (List.pairwise_cons.1 hp).2 (fun iv hiv => hle iv (by simp [hiv]))]

theorem merge_idem (d : Nat) (I : List Iv) (hs : SortedByStart I) (hne : ∀ iv ∈ I, iv.1 < iv.2) :
    mergeVec d (mergeVec d I) = mergeVec d I := by
  have hsep := merge_separated d I hs
  have htight := merge_tight d I hne
  obtain ⟨M, hM⟩ : ∃ M, M = mergeVec d I := ⟨_, rfl⟩
  rw [← hM] at hsep htight ⊢
  rw [mergeVec_eq_mergeRec]
  cases M with
  | nil => rfl
  | cons x rest =>
    obtain ⟨s, e⟩ := x
    exact mergeGo_of_separated d rest s e hsep (fun iv hiv => Nat.le_of_lt (htight iv (by simp [hiv])).1)

/-- **completeness for distance 0**: the maximal runs of a set of bases are unique — any list of non-empty intervals
in increasing order, separated by at least one uncovered base, that covers exactly the bases covered by `I`
IS `merge_intervals(I, 0)` -/
theorem runs_unique : ∀ (R S : List Iv), R.Pairwise (fun a b => a.2 < b.1) → S.Pairwise (fun a b => a.2 < b.1) →
    (∀ a ∈ R, a.1 < a.2) → (∀ a ∈ S, a.1 < a.2) → (∀ p, covered R p = covered S p) → R = S := by
  intro R
  induction R with
  | nil =>
    intro S _ _ _ hS h
    cases S with
    | nil => rfl
    | cons b S =>
      have := h b.1
      have hb := hS b (by simp)
      rw [show covered [] b.1 = false from rfl] at this
      have h2 : covered (b :: S) b.1 = true := (covered_cons _ _ _).2 (Or.inl ⟨Nat.le_refl _, hb⟩)
      rw [h2] at this; cases this
  | cons a R ih =>
    intro S hR hSp hRn hSn h
    have ha := hRn a (by simp)
    cases S with
    | nil =>
      have := h a.1
      have h2 : covered (a :: R) a.1 = true := (covered_cons _ _ _).2 (Or.inl ⟨Nat.le_refl _, ha⟩)
      rw [h2] at this; cases this
    | cons b S =>
      have hb := hSn b (by simp)
      have hRgt : ∀ x ∈ R, a.2 < x.1 := fun x hx => (List.pairwise_cons.1 hR).1 x hx
      have hSgt : ∀ x ∈ S, b.2 < x.1 := fun x hx => (List.pairwise_cons.1 hSp).1 x hx
      -- a point p < a.2 is covered by (a :: R) iff a.1 ≤ p
      have covR : ∀ p, p ≤ a.2 → (covered (a :: R) p = true ↔ a.1 ≤ p ∧ p < a.2) := by
        intro p hp
        rw [covered_cons]
        constructor
        · rintro (h1 | h1)
          · exact h1
          · obtain ⟨x, hx, h3, _⟩ := (covered_iff R p).1 h1
            have := hRgt x hx; omega
        · exact Or.inl
      have covS : ∀ p, p ≤ b.2 → (covered (b :: S) p = true ↔ b.1 ≤ p ∧ p < b.2) := by
        intro p hp
        rw [covered_cons]
        constructor
        · rintro (h1 | h1)
          · exact h1
          · obtain ⟨x, hx, h3, _⟩ := (covered_iff S p).1 h1
            have := hSgt x hx; omega
        · exact Or.inl
      -- starts agree
      have h1 : a.1 = b.1 := by
        have e1 : covered (b :: S) a.1 = true := by rw [← h a.1]; exact (covR a.1 (by omega)).2 ⟨Nat.le_refl _, ha⟩
        have e2 : covered (a :: R) b.1 = true := by rw [h b.1]; exact (covS b.1 (by omega)).2 ⟨Nat.le_refl _, hb⟩
        have f1 : b.1 ≤ a.1 := by
          rcases (covered_cons _ _ _).1 e1 with h3 | h3
          · exact h3.1
          · obtain ⟨x, hx, h4, _⟩ := (covered_iff S a.1).1 h3
            have := hSgt x hx; omega
        have f2 : a.1 ≤ b.1 := by
          rcases (covered_cons _ _ _).1 e2 with h3 | h3
          · exact h3.1
          · obtain ⟨x, hx, h4, _⟩ := (covered_iff R b.1).1 h3
            have := hRgt x hx; omega
        omega
      -- stops agree
      have h2 : a.2 = b.2 := by
        rcases Nat.lt_trichotomy a.2 b.2 with hlt | heq | hgt
        · -- a.2 is covered by S but not by R
          have e1 : covered (b :: S) a.2 = true := (covS a.2 (by omega)).2 ⟨by omega, hlt⟩
          rw [← h a.2] at e1
          have := (covR a.2 (Nat.le_refl _)).1 e1
          omega
        · exact heq
        · have e1 : covered (a :: R) b.2 = true := (covR b.2 (by omega)).2 ⟨by omega, hgt⟩
          rw [h b.2] at e1
          have := (covS b.2 (Nat.le_refl _)).1 e1
          omega
      have hab : a = b := Prod.ext h1 h2
      subst hab
      congr 1
      refine ih S (List.pairwise_cons.1 hR).2 (List.pairwise_cons.1 hSp).2 (fun x hx => hRn x (by simp [hx]))
        (fun x hx => hSn x (by simp [hx])) ?_
      intro p
      have hp := h p
      by_cases hpa : p < a.2
      · have r1 : covered R p = false := by
          cases hc : covered R p with
          | false => rfl
          | true => obtain ⟨x, hx, h3, _⟩ := (covered_iff R p).1 hc; have := hRgt x hx; omega
        have s1 : covered S p = false := by
          cases hc : covered S p with
          | false => rfl
          | true => obtain ⟨x, hx, h3, _⟩ := (covered_iff S p).1 hc; have := hSgt x hx; omega
        rw [r1, s1]
      · have r1 : covered (a :: R) p = covered R p := by
          cases hc : covered R p with
          | true => exact (covered_cons _ _ _).2 (Or.inr hc)
          | false =>
            cases hc2 : covered (a :: R) p with
            | false => rfl
            | true =>
              rcases (covered_cons _ _ _).1 hc2 with h3 | h3
              · omega
              · rw [hc] at h3; cases h3
        have s1 : covered (a :: S) p = covered S p := by
          cases hc : covered S p with
          | true => exact (covered_cons _ _ _).2 (Or.inr hc)
          | false =>
            cases hc2 : covered (a :: S) p with
            | false => rfl
            | true =>
              rcases (covered_cons _ _ _).1 hc2 with h3 | h3
              · omega
              · rw [hc] at h3; cases h3
        rw [← r1, ← s1]; exact hp

theorem merge0_unique (I : List Iv) (hs : SortedByStart I) (hne : ∀ iv ∈ I, iv.1 < iv.2) (R : List Iv)
    (hR : R.Pairwise (fun a b => a.2 < b.1)) (hRn : ∀ a ∈ R, a.1 < a.2)
    (hcov : ∀ p, covered R p = true ↔ 0 < cov I p) : R = mergeVec 0 I := by
  refine runs_unique R (mergeVec 0 I) hR ((merge_separated 0 I hs).imp (by intro a b h; omega)) hRn
    (fun a ha => (merge_tight 0 I hne a ha).1) ?_
  intro p
  have h1 := hcov p
  have h2 := merge_cover I hs p
  cases hc1 : covered R p <;> cases hc2 : covered (mergeVec 0 I) p <;> simp_all

example : SortedByStart [(0, 2), (1, 4), (6, 7)] ∧ (∀ iv ∈ [((0 : Nat), (2 : Nat)), (1, 4), (6, 7)], iv.1 < iv.2) ∧
    mergeVec 0 [(0, 2), (1, 4), (6, 7)] = [(0, 4), (6, 7)] := by
  unfold SortedByStart; decide

/-! ## global_intersect: several chromosomes at once -/

theorem insertBy_map {α β : Type} (le1 : α → α → Bool) (le2 : β → β → Bool) (f : α → β) (a : α) (l : List α)
    (h : ∀ b ∈ l, le1 a b = le2 (f a) (f b)) : (insertBy le1 a l).map f = insertBy le2 (f a) (l.map f) := by
  induction l with
  | nil => rfl
  | cons b l ih =>
    simp only [insertBy, List.map_cons]
    rw [← h b (by simp)]
    split
    · rfl
    · simp only [List.map_cons]; rw [ih (fun x hx => h x (by simp [hx]))]

theorem isort_map {α β : Type} (le1 : α → α → Bool) (le2 : β → β → Bool) (f : α → β) (l : List α)
    (h : ∀ a ∈ l, ∀ b ∈ l, le1 a b = le2 (f a) (f b)) : (isort le1 l).map f = isort le2 (l.map f) := by
  induction l with
  | nil => rfl
  | cons a l ih =>
    simp only [isort, List.map_cons]
    rw [insertBy_map le1 le2 f a _ (fun b hb => h a (by simp) b (by simp [(isort_perm le1 l).mem_iff.1 hb])),
      ih (fun x hx y hy => h x (by simp [hx]) y (by simp [hy]))]

/-- position on the concatenation of chromosomes of width `W` -/
def enc (W : Nat) (p : Nat × Nat) : Nat := p.1 * W + p.2

theorem enc_block (W c c' : Nat) (h : c < c') : c * W + W ≤ c' * W := by
  have := Nat.mul_le_mul_right W (Nat.succ_le_of_lt h)
  rw [Nat.succ_mul] at this; exact this

theorem lexCP_enc (W : Nat) (a b : Nat × Nat) (ha : a.2 < W) (hb : b.2 < W) :
    lexCP a b = natLe (enc W a) (enc W b) := by
  rw [Bool.eq_iff_iff]
  have h1 : lexCP a b = true ↔ (a.1 < b.1 ∨ (a.1 = b.1 ∧ a.2 ≤ b.2)) := by
    simp [lexCP]
  have h2 : natLe (enc W a) (enc W b) = true ↔ enc W a ≤ enc W b := by
    unfold natLe; exact decide_eq_true_iff
  rw [h1, h2]
  simp only [enc]
  rcases Nat.lt_trichotomy a.1 b.1 with h | h | h
  · have := enc_block W a.1 b.1 h; constructor <;> intro _ <;> omega
  · rw [h]; constructor <;> intro _ <;> omega
  · have := enc_block W b.1 a.1 h; constructor <;> intro _ <;> omega

/-- a base of chromosome `c` is inside the encoded interval of a record iff the record is on `c` and contains it -/
theorem enc_mem (W c x : Nat) (r : CIv) (hr : r.2.1 ≤ r.2.2) (hW : r.2.2 < W) (hx : x < W) :
    (enc W (r.1, r.2.1) ≤ enc W (c, x) ∧ enc W (c, x) < enc W (r.1, r.2.2)) ↔ (r.1 = c ∧ r.2.1 ≤ x ∧ x < r.2.2) := by
  simp only [enc]
  rcases Nat.lt_trichotomy r.1 c with h | h | h
  · have := enc_block W r.1 c h; constructor <;> intro h2 <;> omega
  · subst h; constructor <;> intro h2 <;> omega
  · have := enc_block W c r.1 h; constructor <;> intro h2 <;> omega

def bnd (L : List CIv) : Nat := L.foldr (fun r acc => max (r.2.2 + 1) acc) 1

theorem lt_bnd (L : List CIv) : ∀ r ∈ L, r.2.2 < bnd L := by
  induction L with
  | nil => intro r h; simp at h
  | cons a L ih =>
    intro r hr
    simp only [bnd, List.foldr_cons] at ih ⊢
    rcases List.mem_cons.1 hr with rfl | hr
    · omega
    · have := ih r hr; omega

/-- the encoded interval list of records -/
def encIv (W : Nat) (L : List CIv) : List Iv := L.map (fun r => (enc W (r.1, r.2.1), enc W (r.1, r.2.2)))

theorem cov_encIv (W c x : Nat) (L : List CIv) (hL : ∀ r ∈ L, r.2.1 ≤ r.2.2 ∧ r.2.2 < W) (hx : x < W) :
    cov (encIv W L) (enc W (c, x)) = covC L c x := by
  simp only [cov, covC, encIv, List.countP_map]
  apply List.countP_congr
  intro r hr
  have := enc_mem W c x r (hL r hr).1 (hL r hr).2 hx
  simp only [Function.comp, inIv, Bool.and_eq_true, decide_eq_true_eq, beq_iff_eq]
  constructor
  · intro h; have := this.1 h; exact ⟨⟨this.1, this.2.1⟩, this.2.2⟩
  · intro h; exact this.2 ⟨h.1.1, h.1.2, h.2⟩

/-- **global_intersect** (repaired code), any records with start ≤ stop: on every chromosome the returned pieces
cover every base `depth − 1` times, where depth counts the records of `A ++ B` on that chromosome containing it -/
theorem globalIntersect_depth (A B : List CIv) (h : ∀ r ∈ A ++ B, r.2.1 ≤ r.2.2) (c x : Nat) :
    covC (globalIntersect A B) c x = covC (A ++ B) c x - 1 := by
  obtain ⟨all, hall⟩ : ∃ all, all = A ++ B := ⟨_, rfl⟩
  obtain ⟨W, hW⟩ : ∃ W, W = bnd all + x + 1 := ⟨_, rfl⟩
  have hWall : ∀ r ∈ all, r.2.1 ≤ r.2.2 ∧ r.2.2 < W := fun r hr =>
    ⟨by rw [hall] at hr; exact h r hr, by have := lt_bnd all r hr; omega⟩
  have hWall1 : ∀ r ∈ all, r.2.2 < W - 1 := fun r hr => by have := lt_bnd all r hr; omega
  have hxW : x < W := by omega
  -- sorted starts / stops and their encodings
  obtain ⟨st, hst⟩ : ∃ st, st = isort lexCP (all.map (fun r => (r.1, r.2.1))) := ⟨_, rfl⟩
  obtain ⟨sp, hsp⟩ : ∃ sp, sp = isort lexCP (all.map (fun r => (r.1, r.2.2))) := ⟨_, rfl⟩
  have hstE : st.map (enc W) = isort natLe ((encIv W all).map (·.1)) := by
    rw [hst, isort_map lexCP natLe (enc W)]
    · simp [encIv, Function.comp_def]
    · intro a ha b hb
      obtain ⟨ra, hra, rfl⟩ := List.mem_map.1 ha
      obtain ⟨rb, hrb, rfl⟩ := List.mem_map.1 hb
      exact lexCP_enc W _ _ (by have := hWall ra hra; simp only; omega) (by have := hWall rb hrb; simp only; omega)
  have hspE : sp.map (enc W) = isort natLe ((encIv W all).map (·.2)) := by
    rw [hsp, isort_map lexCP natLe (enc W)]
    · simp [encIv, Function.comp_def]
    · intro a ha b hb
      obtain ⟨ra, hra, rfl⟩ := List.mem_map.1 ha
      obtain ⟨rb, hrb, rfl⟩ := List.mem_map.1 hb
      exact lexCP_enc W _ _ (hWall ra hra).2 (hWall rb hrb).2
  have hencLe : ∀ iv ∈ encIv W all, iv.1 ≤ iv.2 := by
    intro iv hiv
    obtain ⟨r, hr, rfl⟩ := List.mem_map.1 hiv
    have := (hWall r hr).1
    simp only [enc]; omega
  -- the pairing identity in the encoded space
  have hpair : ∀ q, cov ((st.tail.zip sp).map (fun p => (enc W p.1, enc W p.2))) q = cov (encIv W all) q - 1 := by
    intro q
    have := cov_pairing (encIv W all) hencLe q
    rw [← hstE, ← hspE, ← List.map_tail] at this
    rw [← this]
    congr 1
    rw [List.zip_map]
    rfl
  -- elements of the zip are (start of a record, stop of a record)
  have hZmem : ∀ p ∈ st.tail.zip sp, p.1.2 < W - 1 ∧ p.2.2 < W - 1 := by
    intro p hp
    have hp' := List.of_mem_zip (a := p.1) (b := p.2) hp
    have h1 : p.1 ∈ st := List.mem_of_mem_tail hp'.1
    rw [hst] at h1
    obtain ⟨r1, hr1, e1⟩ := List.mem_map.1 ((isort_perm lexCP _).mem_iff.1 h1)
    have h2 := hp'.2
    rw [hsp] at h2
    obtain ⟨r2, hr2, e2⟩ := List.mem_map.1 ((isort_perm lexCP _).mem_iff.1 h2)
    rw [← e1, ← e2]
    have a1 := hWall r1 hr1
    have a2 := hWall1 r1 hr1
    have a3 := hWall1 r2 hr2
    simp only; omega
  -- no pair straddles two chromosomes
  have hsame : ∀ p ∈ st.tail.zip sp, enc W p.1 < enc W p.2 → p.1.1 = p.2.1 ∧ p.1.2 < p.2.2 := by
    intro p hp hlt
    have hb := hZmem p hp
    simp only [enc] at hlt
    rcases Nat.lt_trichotomy p.1.1 p.2.1 with hc | hc | hc
    · -- the gap point at the end of chromosome p.1.1 would be covered
      exfalso
      have hq := hpair (enc W (p.1.1, W - 1))
      rw [cov_encIv W p.1.1 (W - 1) all hWall (by omega)] at hq
      have hzero : covC all p.1.1 (W - 1) = 0 := by
        apply List.countP_eq_zero.2
        intro r hr
        have := hWall1 r hr
        simp only [Bool.and_eq_true, decide_eq_true_eq, beq_iff_eq, not_and]
        intro _ _; omega
      rw [hzero] at hq
      have hpos : 0 < cov ((st.tail.zip sp).map (fun p => (enc W p.1, enc W p.2))) (enc W (p.1.1, W - 1)) := by
        rw [cov_pos_iff]
        refine ⟨(enc W p.1, enc W p.2), List.mem_map_of_mem hp, ?_, ?_⟩
        · simp only [enc]; omega
        · have := enc_block W p.1.1 p.2.1 hc
          simp only [enc]; omega
      omega
    · rw [hc] at hlt; exact ⟨hc, by omega⟩
    · have := enc_block W p.2.1 p.1.1 hc; omega
  -- count the pieces on chromosome c containing x
  have hL : covC (globalIntersect A B) c x = cov ((st.tail.zip sp).map (fun p => (enc W p.1, enc W p.2))) (enc W (c, x)) := by
    simp only [globalIntersect, globalIntersectWith, ← hall, ← hst, ← hsp, covC, cov, List.countP_map, List.countP_filter]
    apply List.countP_congr
    intro p hp
    have hb := hZmem p hp
    simp only [Function.comp, inIv, Bool.and_eq_true, decide_eq_true_eq, beq_iff_eq, Bool.not_true, Bool.false_or]
    constructor
    · rintro ⟨⟨⟨hc, h1⟩, h2⟩, h3, h4⟩
      simp only [enc]
      rw [← hc, h4]; constructor <;> omega
    · intro hin
      have hlt : enc W p.1 < enc W p.2 := by omega
      obtain ⟨hcc, hse⟩ := hsame p hp hlt
      have := (enc_mem W c x (p.1.1, p.1.2, p.2.2) (by simp only; omega) (by simp only; omega) hxW).1
        ⟨hin.1, by rw [hcc]; exact hin.2⟩
      simp only at this
      exact ⟨⟨⟨this.1, this.2.1⟩, this.2.2⟩, hse, hcc.symm⟩
  rw [hL, hpair, cov_encIv W c x all hWall hxW, hall]

def onChrom (L : List CIv) (c : Nat) : List Iv := (L.filter (fun r => r.1 == c)).map (·.2)

theorem covC_eq_cov_onChrom (L : List CIv) (c x : Nat) : covC L c x = cov (onChrom L c) x := by
  simp only [covC, cov, onChrom, List.countP_map, List.countP_filter]
  apply List.countP_congr
  intro r _
  simp [inIv, Bool.and_assoc, Bool.and_comm]

/-- **global_intersect** on operands that are internally non-overlapping on every chromosome: on each chromosome
every base covered by both operands is covered by exactly one returned piece, every other base by none -/
theorem globalIntersect_perbase (A B : List CIv) (dA : ∀ c, internallyDisjoint (onChrom A c) = true)
    (dB : ∀ c, internallyDisjoint (onChrom B c) = true) (c x : Nat) :
    covC (globalIntersect A B) c x = if 0 < cov (onChrom A c) x ∧ 0 < cov (onChrom B c) x then 1 else 0 := by
  have hle : ∀ r ∈ A ++ B, r.2.1 ≤ r.2.2 := by
    intro r hr
    rcases List.mem_append.1 hr with h | h
    · exact internallyDisjoint_le _ (dA r.1) r.2 (List.mem_map_of_mem (List.mem_filter.2 ⟨h, by simp⟩))
    · exact internallyDisjoint_le _ (dB r.1) r.2 (List.mem_map_of_mem (List.mem_filter.2 ⟨h, by simp⟩))
  rw [globalIntersect_depth A B hle c x]
  have e : covC (A ++ B) c x = cov (onChrom A c) x + cov (onChrom B c) x := by
    rw [← covC_eq_cov_onChrom, ← covC_eq_cov_onChrom]
    simp [covC, List.countP_append]
  rw [e]
  have := cov_le_one _ (dA c) x
  have := cov_le_one _ (dB c) x
  split <;> omega

/-- the rule shipped before fix 35da59d paired the last stop of one chromosome with the first start of the next -/
theorem globalIntersectOld_unsound :
    globalIntersectOld [(0, 0, 10)] [(1, 2, 5)] = [(1, 2, 10)] ∧ globalIntersect [(0, 0, 10)] [(1, 2, 5)] = [] := by decide

example : (∀ c, internallyDisjoint (onChrom [(0, 0, 3), (1, 3, 9), (0, 5, 6)] c) = true) := by
  intro c
  by_cases h0 : c = 0
  · subst h0; decide
  · by_cases h1 : c = 1
    · subst h1; decide
    · have : onChrom [(0, 0, 3), (1, 3, 9), (0, 5, 6)] c = [] := by
        simp only [onChrom, List.filter_cons, List.filter_nil]
        have e0 : ((0 : Nat) == c) = false := by simp; omega
        have e1 : ((1 : Nat) == c) = false := by simp; omega
        simp [e0, e1]
      rw [this]; decide

/-! ## Geometry.sort -/

theorem lexCS2_total (a b : Rec) : lexCS2 a b = true ∨ lexCS2 b a = true := by
  simp only [lexCS2, Bool.or_eq_true, Bool.and_eq_true, decide_eq_true_eq, beq_iff_eq]; omega

theorem lexCS2_trans (a b c : Rec) : lexCS2 a b = true → lexCS2 b c = true → lexCS2 a c = true := by
  simp only [lexCS2, Bool.or_eq_true, Bool.and_eq_true, decide_eq_true_eq, beq_iff_eq]; omega

/-- `Geometry.sort` returns a permutation ordered by (chromosome, start) — position on the concatenated genome -/
theorem geoSort_perm_sorted (xs : List Rec) :
    (geoSort xs).Perm xs ∧ (geoSort xs).Pairwise (fun a b => a.1 < b.1 ∨ (a.1 = b.1 ∧ a.2.1 ≤ b.2.1)) :=
  ⟨isort_perm lexCS2 xs, (isort_pairwise lexCS2 lexCS2_total lexCS2_trans xs).imp (by
    intro a b h
    simpa [lexCS2] using h)⟩

/-- the driver's executable sortedness test is the `SortedByStart` of the theorems -/
theorem sortedByStart_iff (I : List Iv) : sortedByStart I = true ↔ SortedByStart I := by
  induction I with
  | nil => simp [sortedByStart, SortedByStart]
  | cons a I ih =>
    cases I with
    | nil => simp [sortedByStart, SortedByStart]
    | cons b I =>
      have e : sortedByStart (a :: b :: I) = (decide (a.1 ≤ b.1) && sortedByStart (b :: I)) := by
        simp [sortedByStart]
      rw [e, Bool.and_eq_true, ih]
      simp only [SortedByStart, decide_eq_true_eq]
      constructor
      · rintro ⟨h1, h2⟩
        refine List.pairwise_cons.2 ⟨?_, h2⟩
        intro c hc
        rcases List.mem_cons.1 hc with rfl | hc
        · exact h1
        · have := (List.pairwise_cons.1 h2).1 c hc; omega
      · intro h
        exact ⟨(List.pairwise_cons.1 h).1 b (by simp), (List.pairwise_cons.1 h).2⟩

/-- Jaccard / Forbes over several contigs: the model's value is the per-base definition (same IEEE quotient of the
same counts) -/
theorem jaccard_forbes_spec (cs : List Contig2)
    (h : ∀ c ∈ cs, 0 < c.1 ∧ (∀ iv ∈ c.2.1, iv.1 ≤ iv.2 ∧ iv.2 ≤ c.1) ∧ (∀ iv ∈ c.2.2, iv.1 ≤ iv.2 ∧ iv.2 ≤ c.1)) :
    jaccard cs = specJaccard cs ∧ forbes cs = specForbes cs := by
  have : contingencyGenome cs = specContingencyGenome cs := by
    simp only [contingencyGenome, specContingencyGenome]
    congr 1
    apply List.map_congr_left
    intro c hc
    exact contingency_spec c.2.1 c.2.2 c.1 (h c hc).1 (h c hc).2.1 (h c hc).2.2
  simp only [jaccard, specJaccard, forbes, specForbes, this, and_self]

example : ∀ c ∈ [((5 : Nat), [((0 : Nat), (3 : Nat))], [((2 : Nat), (5 : Nat))]), (3, [], [(1, 2)])],
    0 < c.1 ∧ (∀ iv ∈ c.2.1, iv.1 ≤ iv.2 ∧ iv.2 ≤ c.1) ∧ (∀ iv ∈ c.2.2, iv.1 ≤ iv.2 ∧ iv.2 ≤ c.1) := by decide

/-! ## merge_intervals equals the per-base scan `specMerge` -/

theorem mergeGo_absorb (d : Nat) (rest : List Iv) : ∀ cs ce s e, (∀ iv ∈ rest, s ≤ iv.1) → SortedByStart rest →
    mergeGo d cs ce (mergeGo 0 s e rest) = mergeGo d cs ce ((s, e) :: rest) := by
  induction rest with
  | nil => intro cs ce s e _ _; rfl
  | cons y rest ih =>
    intro cs ce s e hs hsorted
    obtain ⟨s', e'⟩ := y
    have hs' : SortedByStart rest := (List.pairwise_cons.1 hsorted).2
    have hle : ∀ iv ∈ rest, s' ≤ iv.1 := fun iv h => (List.pairwise_cons.1 hsorted).1 iv h
    have hss' : s ≤ s' := hs (s', e') (by simp)
    rw [show mergeGo 0 s e ((s', e') :: rest) =
      (if s' > e + 0 then (s, e) :: mergeGo 0 s' (max e e') rest else mergeGo 0 s (max e e') rest) from rfl]
    by_cases h1 : s' > e + 0
    · rw [if_pos h1]
      -- outer step on (s, e), then the absorbed tail
      simp only [mergeGo]
      by_cases h2 : s > ce + d
      · simp only [h2, if_true]
        rw [ih s (max ce e) s' (max e e') hle hs']
        simp only [mergeGo]
        rw [show max (max ce e) (max e e') = max (max ce e) e' by omega]
      · simp only [h2, if_false]
        rw [ih cs (max ce e) s' (max e e') hle hs']
        simp only [mergeGo]
        rw [show max (max ce e) (max e e') = max (max ce e) e' by omega]
    · rw [if_neg h1]
      rw [ih cs ce s (max e e') (fun iv hiv => Nat.le_trans hss' (hle iv hiv)) hs']
      simp only [mergeGo]
      have h3 : ¬ s' > max ce e + d := by omega
      by_cases h2 : s > ce + d
      · simp only [h2, if_true, h3, if_false]
        rw [show max ce (max e e') = max (max ce e) e' by omega]
      · simp only [h2, if_false, h3]
        rw [show max ce (max e e') = max (max ce e) e' by omega]

theorem mergeRec_absorb (d : Nat) (rest : List Iv) : ∀ s e, (∀ iv ∈ rest, s ≤ iv.1) → SortedByStart rest →
    mergeRec d (mergeGo 0 s e rest) = mergeGo d s e rest := by
  induction rest with
  | nil => intro s e _ _; rfl
  | cons y rest ih =>
    intro s e hs hsorted
    obtain ⟨s', e'⟩ := y
    have hs' : SortedByStart rest := (List.pairwise_cons.1 hsorted).2
    have hle : ∀ iv ∈ rest, s' ≤ iv.1 := fun iv h => (List.pairwise_cons.1 hsorted).1 iv h
    have hss' : s ≤ s' := hs (s', e') (by simp)
    rw [show mergeGo 0 s e ((s', e') :: rest) =
      (if s' > e + 0 then (s, e) :: mergeGo 0 s' (max e e') rest else mergeGo 0 s (max e e') rest) from rfl]
    by_cases h1 : s' > e + 0
    · rw [if_pos h1]
      simp only [mergeRec]
      rw [mergeGo_absorb d rest s e s' (max e e') hle hs']
      simp only [mergeGo]
      rw [show max e (max e e') = max e e' by omega]
    · rw [if_neg h1, ih s (max e e') (fun iv hiv => Nat.le_trans hss' (hle iv hiv)) hs']
      simp only [mergeGo]
      rw [if_neg (by omega)]

/-- merging with distance `d` is merging the maximal runs with distance `d` -/
theorem merge_merge0 (d : Nat) (I : List Iv) (hs : SortedByStart I) : mergeRec d (mergeRec 0 I) = mergeRec d I := by
  cases I with
  | nil => rfl
  | cons x rest =>
    obtain ⟨s, e⟩ := x
    exact mergeRec_absorb d rest s e (fun iv h => (List.pairwise_cons.1 hs).1 iv h) (List.pairwise_cons.1 hs).2

theorem scan_uncovered (I : List Iv) (d : Nat) (ps : List Nat) (st : Option Iv) (rest : List Nat)
    (h : ∀ p ∈ ps, ¬ 0 < cov I p) : specMergeGo I d (ps ++ rest) st = specMergeGo I d rest st := by
  induction ps generalizing st with
  | nil => rfl
  | cons p ps ih =>
    have hp := h p (by simp)
    have ih' := fun st => ih st (fun q hq => h q (by simp [hq]))
    cases st with
    | none => simp only [List.cons_append, specMergeGo, if_neg hp]; exact ih' none
    | some r => obtain ⟨s, e⟩ := r; simp only [List.cons_append, specMergeGo, if_neg hp]; exact ih' (some (s, e))

/-- a covered stretch directly after the current run end just extends the run -/
theorem scan_extend (I : List Iv) (d : Nat) (rest : List Nat) (x : Nat) : ∀ (n p : Nat),
    (∀ q, p ≤ q → q < p + n → 0 < cov I q) →
    specMergeGo I d (List.range' p n ++ rest) (some (x, p)) = specMergeGo I d rest (some (x, p + n)) := by
  intro n
  induction n with
  | zero => intro p _; rfl
  | succ n ih =>
    intro p h
    have hp : 0 < cov I p := h p (Nat.le_refl _) (by omega)
    rw [List.range'_succ, List.cons_append]
    simp only [specMergeGo, if_pos hp]
    rw [if_pos (by omega), ih (p + 1) (fun q h1 h2 => h q (by omega) (by omega))]
    congr 3; omega

/-- scanning the bases from `c` on over a coverage given by separated runs `M` reproduces `mergeGo` on those runs -/
theorem scan_runs (I : List Iv) (d size : Nat) (M : List Iv) : ∀ (c : Nat) (st : Option Iv),
    M.Pairwise (fun a b => a.2 < b.1) → (∀ a ∈ M, a.1 < a.2 ∧ c ≤ a.1 ∧ a.2 ≤ size) →
    (∀ p, c ≤ p → (0 < cov I p ↔ covered M p = true)) → (∀ r, st = some r → r.2 ≤ c) → c ≤ size →
    specMergeGo I d (List.range' c (size - c)) st =
      (match st with | none => mergeRec d M | some r => mergeGo d r.1 r.2 M) := by
  induction M with
  | nil =>
    intro c st _ _ hcov _ _
    have := scan_uncovered I d (List.range' c (size - c)) st [] (fun p hp => by
      rw [List.mem_range'_1] at hp
      rw [hcov p hp.1]; simp [covered])
    rw [List.append_nil] at this
    rw [this]
    cases st with
    | none => rfl
    | some r => rfl
  | cons a M ih =>
    intro c st hsep hM hcov hst hcs
    obtain ⟨s, e⟩ := a
    obtain ⟨hse, hcs', hes⟩ := hM (s, e) (by simp)
    simp only at hse hcs' hes
    have hgt : ∀ b ∈ M, e < b.1 := fun b hb => (List.pairwise_cons.1 hsep).1 b hb
    have hsplit : List.range' c (size - c) = List.range' c (s - c) ++ (List.range' s (e - s) ++ List.range' e (size - e)) := by
      have h1 := List.range'_append_1 (s := s) (m := e - s) (n := size - e)
      rw [show s + (e - s) = e by omega, show e - s + (size - e) = size - s by omega] at h1
      have h2 := List.range'_append_1 (s := c) (m := s - c) (n := size - s)
      rw [show c + (s - c) = s by omega, show s - c + (size - s) = size - c by omega] at h2
      rw [h1, h2]
    have hunc : ∀ p ∈ List.range' c (s - c), ¬ 0 < cov I p := by
      intro p hp
      rw [List.mem_range'_1] at hp
      rw [hcov p hp.1]
      intro hc
      rcases (covered_cons _ _ _).1 hc with h3 | h3
      · simp only at h3; omega
      · obtain ⟨b, hb, h4, _⟩ := (covered_iff M p).1 h3
        have := hgt b hb; omega
    have hcovrun : ∀ q, s ≤ q → q < e → 0 < cov I q := fun q h1 h2 =>
      (hcov q (by omega)).2 ((covered_cons _ _ _).2 (Or.inl ⟨h1, h2⟩))
    have hcovrest : ∀ p, e ≤ p → (0 < cov I p ↔ covered M p = true) := by
      intro p hp
      rw [hcov p (by omega)]
      constructor
      · intro hc
        rcases (covered_cons _ _ _).1 hc with h3 | h3
        · simp only at h3; omega
        · exact h3
      · exact fun h3 => (covered_cons _ _ _).2 (Or.inr h3)
    have hM' : ∀ b ∈ M, b.1 < b.2 ∧ e ≤ b.1 ∧ b.2 ≤ size := fun b hb =>
      ⟨(hM b (by simp [hb])).1, Nat.le_of_lt (hgt b hb), (hM b (by simp [hb])).2.2⟩
    rw [hsplit, scan_uncovered I d _ st _ hunc]
    -- the run [s, e): its first base decides between bridging and starting a new run
    have hrun : List.range' s (e - s) = s :: List.range' (s + 1) (e - s - 1) := by
      rw [show e - s = (e - s - 1) + 1 by omega, List.range'_succ]; simp
    have hs0 : 0 < cov I s := hcovrun s (Nat.le_refl _) hse
    have hext := fun x => scan_extend I d (List.range' e (size - e)) x (e - s - 1) (s + 1)
      (fun q h1 h2 => hcovrun q (by omega) (by omega))
    rw [show s + 1 + (e - s - 1) = e by omega] at hext
    rw [hrun, List.cons_append]
    cases st with
    | none =>
      simp only [specMergeGo, if_pos hs0]
      rw [hext s, ih e (some (s, e)) (List.pairwise_cons.1 hsep).2 hM' hcovrest (fun r hr => by cases hr; exact Nat.le_refl _) hes]
      rfl
    | some r =>
      obtain ⟨cs, ce⟩ := r
      have hce : ce ≤ c := hst (cs, ce) rfl
      simp only [specMergeGo, if_pos hs0]
      simp only [mergeGo]
      have hmax : max ce e = e := by omega
      by_cases hb : s ≤ ce + d
      · rw [if_pos hb, hext cs, ih e (some (cs, e)) (List.pairwise_cons.1 hsep).2 hM' hcovrest
          (fun r hr => by cases hr; exact Nat.le_refl _) hes]
        rw [if_neg (by omega), hmax]
      · rw [if_neg hb, hext s, ih e (some (s, e)) (List.pairwise_cons.1 hsep).2 hM' hcovrest
          (fun r hr => by cases hr; exact Nat.le_refl _) hes]
        rw [if_pos (by omega), hmax]

/-- **`merge_intervals(I, d)` is the per-base definition**: the maximal runs of covered bases, with uncovered gaps of
at most `d` bases bridged, obtained by scanning the contig base by base (`specMerge`, the oracle the check compares with) -/
theorem merge_eq_spec (d : Nat) (I : List Iv) (size : Nat) (hs : SortedByStart I)
    (hI : ∀ iv ∈ I, iv.1 < iv.2 ∧ iv.2 ≤ size) : mergeVec d I = specMerge I d size := by
  have hne : ∀ iv ∈ I, iv.1 < iv.2 := fun iv h => (hI iv h).1
  have hsep := (merge_separated 0 I hs).imp (fun {a b} h => by omega : ∀ {a b : Iv}, a.2 + 0 < b.1 → a.2 < b.1)
  have hM : ∀ a ∈ mergeVec 0 I, a.1 < a.2 ∧ 0 ≤ a.1 ∧ a.2 ≤ size := by
    intro a ha
    refine ⟨(merge_tight 0 I hne a ha).1, Nat.zero_le _, ?_⟩
    obtain ⟨b, hb, hb2⟩ := List.mem_map.1 (merge_endpoints 0 I a ha).2
    rw [← hb2]; exact (hI b hb).2
  have hscan := scan_runs I d size (mergeVec 0 I) 0 none hsep hM
    (fun p _ => (merge_cover I hs p).symm) (fun r hr => by cases hr) (Nat.zero_le _)
  simp only [specMerge, List.range_eq_range']
  rw [Nat.sub_zero] at hscan
  rw [hscan, mergeVec_eq_mergeRec 0, merge_merge0 d I hs, mergeVec_eq_mergeRec]

/-- outside its domain the code differs from the scan: an empty interval is returned as a run -/
theorem merge_empty_interval_not_spec : mergeVec 0 [(2, 2)] = [(2, 2)] ∧ specMerge [(2, 2)] 0 5 = [] := by decide

example : SortedByStart [(0, 2), (1, 4), (6, 7)] ∧ ∀ iv ∈ [((0 : Nat), (2 : Nat)), (1, 4), (6, 7)], iv.1 < iv.2 ∧ iv.2 ≤ 9 := by
  unfold SortedByStart; decide

end C08
