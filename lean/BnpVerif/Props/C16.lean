import BnpVerif.Model.C16
import BnpVerif.Gen.C16
/-! C16 property theorems. Helper lemmas first; the property theorems are the ones listed in
`Audit/C16.lean`. -/
namespace C16

/-! ### little-endian round trip -/

theorem toLE_length (w n : Nat) : (toLE w n).length = w := by
  induction w generalizing n with
  | zero => rfl
  | succ w ih => simp [toLE, ih]

theorem fromLE_toLE (w n : Nat) (h : n < 256 ^ w) : fromLE (toLE w n) = n := by
  induction w generalizing n with
  | zero => simp at h; subst h; rfl
  | succ w ih =>
    simp only [toLE, fromLE]
    have : n / 256 < 256 ^ w := by
      rw [Nat.div_lt_iff_lt_mul (by decide)]
      rw [Nat.pow_succ] at h; exact h
    rw [ih _ this]
    omega

theorem asI32_toU32 (i : Int) (h : inI32 i = true) : asI32 (toU32 i) = i := by
  simp only [inI32, Bool.and_eq_true, decide_eq_true_eq] at h
  unfold asI32 toU32
  split <;> omega

theorem toU32_lt (i : Int) : toU32 i < 256 ^ 4 := by
  unfold toU32
  have : (256 : Nat) ^ 4 = 4294967296 := by decide
  omega

/-! ### slices of concatenations -/

theorem slice_append_left (xs ys : Bytes) (a n : Nat) (h : a + n ≤ xs.length) :
    slice (xs ++ ys) a n = slice xs a n := by
  unfold slice
  rw [List.drop_append_of_le_length (by omega)]
  rw [List.take_append_of_le_length (by simp; omega)]

theorem slice_append_right (xs ys : Bytes) (a n : Nat) :
    slice (xs ++ ys) (xs.length + a) n = slice ys a n := by
  unfold slice
  have : List.drop (xs.length + a) (xs ++ ys) = List.drop a ys := by
    rw [List.drop_append, List.drop_eq_nil_of_le (by omega)]; simp
  rw [this]

theorem slice_zero_append (xs ys : Bytes) : slice (xs ++ ys) 0 xs.length = xs := by
  simp [slice]

theorem slice_prefix (xs ys : Bytes) (n : Nat) (h : n = xs.length) : slice (xs ++ ys) 0 n = xs := by
  subst h; exact slice_zero_append xs ys

/-! ### the fixed 36 bytes -/

theorem fixedPart_length (r : Rec) : (fixedPart r).length = 36 := by
  simp [fixedPart, toLE_length]

theorem fixed_block (r : Rec) (rest : Bytes) :
    slice (fixedPart r ++ rest) 0 4 = toLE 4 (32 + (varPart r).length) := by
  simp only [fixedPart, toLE, List.cons_append, List.nil_append]
  rfl

theorem fixed_ref (r : Rec) (rest : Bytes) : slice (fixedPart r ++ rest) 4 4 = toLE 4 (toU32 r.refID) := by
  simp only [fixedPart, toLE, List.cons_append, List.nil_append]
  rfl

theorem fixed_pos (r : Rec) (rest : Bytes) : slice (fixedPart r ++ rest) 8 4 = toLE 4 (toU32 r.pos) := by
  simp only [fixedPart, toLE, List.cons_append, List.nil_append]
  rfl

theorem fixed_lname (r : Rec) (rest : Bytes) : byteAt (fixedPart r ++ rest) 12 = r.name.length + 1 := by
  simp only [fixedPart, toLE, List.cons_append, List.nil_append]
  rfl

theorem fixed_mapq (r : Rec) (rest : Bytes) : byteAt (fixedPart r ++ rest) 13 = r.mapq := by
  simp only [fixedPart, toLE, List.cons_append, List.nil_append]
  rfl

theorem fixed_ncig (r : Rec) (rest : Bytes) : slice (fixedPart r ++ rest) 16 2 = toLE 2 r.cigar.length := by
  simp only [fixedPart, toLE, List.cons_append, List.nil_append]
  rfl

theorem fixed_flag (r : Rec) (rest : Bytes) : slice (fixedPart r ++ rest) 18 2 = toLE 2 r.flag := by
  simp only [fixedPart, toLE, List.cons_append, List.nil_append]
  rfl

theorem fixed_lseq (r : Rec) (rest : Bytes) : slice (fixedPart r ++ rest) 20 4 = toLE 4 r.seq.length := by
  simp only [fixedPart, toLE, List.cons_append, List.nil_append]
  rfl

/-! ### variable part: CIGAR words, nibbles -/

theorem slice_seg (A B C : Bytes) (a n : Nat) (ha : a = A.length) (hn : n = B.length) :
    slice (A ++ (B ++ C)) a n = B := by
  subst ha hn
  have := slice_append_right A (B ++ C) 0 B.length
  simp only [Nat.add_zero] at this
  rw [this]; exact slice_zero_append B C

theorem cigarWords_length (c : List (Nat × Nat)) : (cigarWords c).length = 4 * c.length := by
  induction c with
  | nil => rfl
  | cons p c ih => simp [cigarWords, toLE_length] at ih ⊢; omega

theorem words_append4 (x : Nat) (r : Bytes) : words (toLE 4 x ++ r) = fromLE (toLE 4 x) :: words r := by
  simp only [toLE, List.cons_append, List.nil_append, words]

theorem words_cigarWords (c : List (Nat × Nat)) (h : ∀ p ∈ c, p.1 < 16 ∧ p.2 < 268435456) :
    words (cigarWords c) = c.map (fun p => p.2 * 16 + p.1) := by
  induction c with
  | nil => rfl
  | cons p c ih =>
    have hp := h p (by simp)
    have : cigarWords (p :: c) = toLE 4 (p.2 * 16 + p.1) ++ cigarWords c := by simp [cigarWords]
    have h256 : (256:Nat)^4 = 4294967296 := by decide
    have hlt : p.2 * 16 + p.1 < 256 ^ 4 := by omega
    rw [this, words_append4, fromLE_toLE 4 _ hlt]
    rw [ih (fun q hq => h q (by simp [hq]))]
    simp

theorem and15 (x : Nat) : x &&& 15 = x % 16 := by
  have := Nat.and_two_pow_sub_one_eq_mod x 4
  simpa using this

theorem shr4 (x : Nat) : x >>> 4 = x / 16 := by
  rw [Nat.shiftRight_eq_div_pow]

theorem splitCigar_words (c : List (Nat × Nat)) (h : ∀ p ∈ c, p.1 < 16 ∧ p.2 < 268435456) :
    splitCigar (c.map (fun p => p.2 * 16 + p.1)) = (c.map (·.1), c.map (·.2)) := by
  unfold splitCigar
  simp only [List.map_map, Prod.mk.injEq]
  constructor
  · apply List.map_congr_left
    intro p hp
    have := h p hp
    simp only [Function.comp, and15]; omega
  · apply List.map_congr_left
    intro p hp
    have := h p hp
    simp only [Function.comp, shr4]; omega

theorem packNibbles_length (s : List Nat) : (packNibbles s).length = (s.length + 1) / 2 := by
  fun_induction packNibbles s with
  | case1 => rfl
  | case2 a => simp
  | case3 a b r ih => simp [ih]; omega

theorem unpack_pack (s : List Nat) (h : ∀ c ∈ s, c < 16) :
    (unpackNibbles (packNibbles s)).take s.length = s := by
  fun_induction packNibbles s with
  | case1 => rfl
  | case2 a =>
    have := h a (by simp)
    simp only [unpackNibbles, List.flatMap_cons, List.flatMap_nil, List.append_nil, List.length_cons, List.length_nil,
      Nat.zero_add, List.take_succ_cons, List.take_zero, and15, shr4, List.cons.injEq, and_true]
    omega
  | case3 a b r ih =>
    have ha := h a (by simp)
    have hb := h b (by simp)
    have ih' := ih (fun c hc => h c (by simp [hc]))
    simp only [unpackNibbles, List.flatMap_cons, List.length_cons, List.cons_append, List.nil_append, List.take_succ_cons,
      and15, shr4, Nat.shiftRight_zero, List.cons.injEq] at ih' ⊢
    refine ⟨by omega, by omega, ?_⟩
    exact ih'

/-! ### one record -/

/-- the facts `valid` packs -/
structure ValidFacts (nref : Nat) (r : Rec) : Prop where
  ref_hi : r.refID < (nref : Int)
  refI : inI32 r.refID = true
  posI : inI32 r.pos = true
  flag : r.flag < 65536
  ncig : r.cigar.length < 65536
  cig : ∀ p ∈ r.cigar, p.1 < 16 ∧ p.2 < 268435456
  lseq : r.seq.length < 2147483648
  seq : ∀ c ∈ r.seq, c < 16
  qual : r.qual.length = r.seq.length
  block : 32 + (varPart r).length < 4294967296

theorem valid_facts (nref : Nat) (r : Rec) (hv : valid nref r = true) : ValidFacts nref r := by
  simp only [valid, Bool.and_eq_true, decide_eq_true_eq, List.all_eq_true] at hv
  obtain ⟨⟨⟨⟨⟨⟨⟨⟨⟨hr2, hrI⟩, hpI⟩, hfl⟩, hcl⟩, hca⟩, hsl⟩, hsa⟩, hql⟩, hbs⟩ := hv
  exact { ref_hi := hr2, refI := hrI, posI := hpI, flag := hfl,
          ncig := hcl, cig := fun p hp => by simpa using hca p hp, lseq := hsl,
          seq := fun c hc => by simpa using hsa c hc, qual := hql, block := hbs }

theorem specValid_valid (nref : Nat) (r : Rec) (h : specValid nref r = true) : valid nref r = true := by
  simp only [specValid, Bool.and_eq_true] at h
  exact h.1.1.1.1.1.1.1.1.1.1.1.1

/-- decoding the bytes of one encoded record (followed by anything) gives back its fields -/
theorem decodeRel_encode (names : List Bytes) (nref : Nat) (r : Rec) (hv : valid nref r = true) (post : Bytes) :
    decodeRel false false names (encodeRec r ++ post) =
      { chrom := chromNew names r.refID, name := r.name, flag := r.flag, pos := r.pos, mapq := r.mapq,
        cigOp := r.cigar.map (·.1), cigLen := r.cigar.map (·.2), seq := r.seq, qual := r.qual } := by
  have F := valid_facts nref r hv
  have he : encodeRec r ++ post = fixedPart r ++ (varPart r ++ post) := by simp [encodeRec]
  have h16 : (256 : Nat) ^ 2 = 65536 := by decide
  have h32 : (256 : Nat) ^ 4 = 4294967296 := by decide
  have hname : slice (fixedPart r ++ (varPart r ++ post)) 36 r.name.length = r.name := by
    have : fixedPart r ++ (varPart r ++ post) = fixedPart r ++ (r.name ++ ([0] ++ (cigarWords r.cigar ++ (packNibbles r.seq ++ (r.qual ++ r.tags))) ++ post)) := by
      simp [varPart]
    rw [this]; exact slice_seg _ _ _ _ _ (by simp [fixedPart_length]) rfl
  have hcig : slice (fixedPart r ++ (varPart r ++ post)) (36 + (r.name.length + 1)) (r.cigar.length * 4) = cigarWords r.cigar := by
    have : fixedPart r ++ (varPart r ++ post) = (fixedPart r ++ (r.name ++ [0])) ++ (cigarWords r.cigar ++ ((packNibbles r.seq ++ (r.qual ++ r.tags)) ++ post)) := by
      simp [varPart]
    rw [this]; exact slice_seg _ _ _ _ _ (by simp [fixedPart_length]) (by rw [cigarWords_length]; omega)
  have hseq : slice (fixedPart r ++ (varPart r ++ post)) (36 + (r.name.length + 1) + r.cigar.length * 4) ((r.seq.length + 1) / 2) = packNibbles r.seq := by
    have : fixedPart r ++ (varPart r ++ post) = (fixedPart r ++ (r.name ++ ([0] ++ cigarWords r.cigar))) ++ (packNibbles r.seq ++ ((r.qual ++ r.tags) ++ post)) := by
      simp [varPart]
    rw [this]; exact slice_seg _ _ _ _ _ (by simp [fixedPart_length, cigarWords_length]; omega) (by rw [packNibbles_length])
  have hqual : slice (fixedPart r ++ (varPart r ++ post)) (36 + (r.name.length + 1) + r.cigar.length * 4 + (r.seq.length + 1) / 2) r.seq.length = r.qual := by
    have : fixedPart r ++ (varPart r ++ post) = (fixedPart r ++ (r.name ++ ([0] ++ (cigarWords r.cigar ++ packNibbles r.seq)))) ++ (r.qual ++ (r.tags ++ post)) := by
      simp [varPart]
    rw [this]; exact slice_seg _ _ _ _ _ (by simp [fixedPart_length, cigarWords_length, packNibbles_length]; omega) F.qual.symm
  have hls : (asI32 (r.seq.length : Nat)).toNat = r.seq.length := by
    unfold asI32; have := F.lseq; split <;> omega
  have c1 : fromLE (toLE 2 r.cigar.length) = r.cigar.length := fromLE_toLE 2 _ (by have := F.ncig; omega)
  have c2 : fromLE (toLE 2 r.flag) = r.flag := fromLE_toLE 2 _ (by have := F.flag; omega)
  have c3 : fromLE (toLE 4 r.seq.length) = r.seq.length := fromLE_toLE 4 _ (by have := F.lseq; omega)
  rw [he]
  simp only [decodeRel, fixed_ref, fixed_pos, fixed_lname, fixed_mapq, fixed_ncig, fixed_flag, fixed_lseq,
    fromLE_toLE 4 _ (toU32_lt _), asI32_toU32 _ F.refI, asI32_toU32 _ F.posI,
    c1, c2, c3, hls, cigarBytes, chromOf, Bool.false_eq_true, if_false]
  have e1 : 36 + (r.name.length + 1) - 1 - 36 = r.name.length := by omega
  have e2 : 36 + (r.name.length + 1) + r.cigar.length * 4 - (36 + (r.name.length + 1)) = r.cigar.length * 4 := by omega
  have e3 : 36 + (r.name.length + 1) + r.cigar.length * 4 + (r.seq.length + 1) / 2 - (36 + (r.name.length + 1) + r.cigar.length * 4) = (r.seq.length + 1) / 2 := by omega
  rw [e1, e2, e3, hname, hcig, hseq, hqual, words_cigarWords _ F.cig, splitCigar_words _ F.cig, unpack_pack _ F.seq]

/-! ### record boundaries: `_find_starts` on a concatenation of encoded records -/

/-- the record boundaries the specification defines: running sums of record sizes -/
def bounds (s : Nat) : List Rec → List Nat
  | [] => [s]
  | r :: rs => s :: bounds (s + (encodeRec r).length) rs

def startsOf (s : Nat) : List Rec → List Nat
  | [] => []
  | r :: rs => s :: startsOf (s + (encodeRec r).length) rs

/-- trailing bytes at which the chain stops: shorter than the block they announce
(an incomplete record, nothing, or the newline the reader appends) -/
def Stops (tail : Bytes) : Prop := tail.length < fromLE (slice tail 0 4) + 4

theorem encodeRec_length (r : Rec) : (encodeRec r).length = 36 + (varPart r).length := by
  simp [encodeRec, fixedPart_length]

theorem encodeAll_cons (r : Rec) (rs : List Rec) : encodeAll (r :: rs) = encodeRec r ++ encodeAll rs := by
  simp [encodeAll]

theorem encodeAll_append (a b : List Rec) : encodeAll (a ++ b) = encodeAll a ++ encodeAll b := by
  simp [encodeAll]

theorem findStarts_chain (nref : Nat) (tail : Bytes) (ht : Stops tail) (recs : List Rec) :
    ∀ (pre : Bytes) (fuel : Nat), (∀ r ∈ recs, valid nref r = true) → recs.length + 2 ≤ fuel →
      findStartsAux (pre ++ (encodeAll recs ++ tail)) fuel pre.length = bounds pre.length recs := by
  induction recs with
  | nil =>
    intro pre fuel _ hf
    obtain ⟨f, rfl⟩ : ∃ f, fuel = f + 2 := ⟨fuel - 2, by simp at hf; omega⟩
    have hs : slice (pre ++ ([] ++ tail)) pre.length 4 = slice tail 0 4 := by
      have := slice_append_right pre tail 0 4
      simpa using this
    unfold Stops at ht
    simp only [encodeAll, List.flatMap_nil, findStartsAux, bounds, hs]
    simp only [List.nil_append, List.length_append]
    rw [if_pos (by omega), if_neg (by omega)]
  | cons r rs ih =>
    intro pre fuel hv hf
    obtain ⟨f, rfl⟩ : ∃ f, fuel = f + 1 := ⟨fuel - 1, by simp at hf; omega⟩
    have F := valid_facts nref r (hv r (by simp))
    have hd : pre ++ (encodeAll (r :: rs) ++ tail) = pre ++ (fixedPart r ++ (varPart r ++ (encodeAll rs ++ tail))) := by
      simp [encodeAll_cons, encodeRec]
    have hs : slice (pre ++ (fixedPart r ++ (varPart r ++ (encodeAll rs ++ tail)))) pre.length 4
        = toLE 4 (32 + (varPart r).length) := by
      have := slice_append_right pre (fixedPart r ++ (varPart r ++ (encodeAll rs ++ tail))) 0 4
      simp only [Nat.add_zero] at this
      rw [this, fixed_block]
    have h32 : (256 : Nat) ^ 4 = 4294967296 := by decide
    have hb : fromLE (toLE 4 (32 + (varPart r).length)) = 32 + (varPart r).length :=
      fromLE_toLE 4 _ (by have := F.block; omega)
    have hnext : pre.length + (32 + (varPart r).length) + 4 = (pre ++ encodeRec r).length := by
      simp [encodeRec_length]; omega
    have hd2 : pre ++ (fixedPart r ++ (varPart r ++ (encodeAll rs ++ tail))) = (pre ++ encodeRec r) ++ (encodeAll rs ++ tail) := by
      simp [encodeRec]
    rw [hd]
    simp only [findStartsAux, bounds]
    rw [if_pos (by simp), hs, hb, hnext, hd2, ih (pre ++ encodeRec r) f (fun q hq => hv q (by simp [hq])) (by simp at hf ⊢; omega)]
    simp

theorem bounds_getLast (recs : List Rec) : ∀ s, (bounds s recs).getLast? = some (s + (encodeAll recs).length) := by
  induction recs with
  | nil => intro s; simp [bounds, encodeAll]
  | cons r rs ih =>
    intro s
    have : bounds s (r :: rs) = s :: bounds (s + (encodeRec r).length) rs := rfl
    rw [this, List.getLast?_cons]
    rw [ih]
    simp [encodeAll_cons]; omega

theorem bounds_dropLast (recs : List Rec) : ∀ s, (bounds s recs).dropLast = startsOf s recs := by
  induction recs with
  | nil => intro s; simp [bounds, startsOf]
  | cons r rs ih =>
    intro s
    have hne : bounds (s + (encodeRec r).length) rs ≠ [] := by
      cases rs <;> simp [bounds]
    simp only [bounds, startsOf]
    rw [List.dropLast_cons_of_ne_nil hne, ih]

/-- the decoded value of one record under the repaired reference rule -/
def decoded (names : List Bytes) (r : Rec) : DRec :=
  { chrom := chromNew names r.refID, name := r.name, flag := r.flag, pos := r.pos, mapq := r.mapq,
    cigOp := r.cigar.map (·.1), cigLen := r.cigar.map (·.2), seq := r.seq, qual := r.qual }

theorem map_decodeAt (names : List Bytes) (nref : Nat) (recs : List Rec) :
    ∀ (pre : Bytes), (∀ r ∈ recs, valid nref r = true) →
      (startsOf pre.length recs).map (decodeAt false false names (pre ++ encodeAll recs)) = recs.map (decoded names) := by
  induction recs with
  | nil => intro pre _; rfl
  | cons r rs ih =>
    intro pre hv
    simp only [startsOf, List.map_cons]
    congr 1
    · unfold decodeAt
      rw [List.drop_left' rfl, encodeAll_cons]
      exact decodeRel_encode names nref r (hv r (by simp)) _
    · have h1 : pre.length + (encodeRec r).length = (pre ++ encodeRec r).length := by simp
      have h2 : pre ++ encodeAll (r :: rs) = (pre ++ encodeRec r) ++ encodeAll rs := by simp [encodeAll_cons]
      rw [h1, h2]
      exact ih _ (fun q hq => hv q (by simp [hq]))

theorem chromNew_spec (names : List Bytes) (ref : Int) (h2 : ref < (names.length : Int)) :
    chromNew names ref = (specChrom names ref).getD star := by
  unfold chromNew specChrom
  by_cases h : ref < 0
  · simp [h]
  · simp only [h, if_false]
    have hlt : ref.toNat < names.length := by omega
    rw [List.getElem?_append_left hlt]
    simp [hlt]

theorem decoded_eq_view (names : List Bytes) (r : Rec) (hv : valid names.length r = true) :
    decoded names r = view names r := by
  have F := valid_facts _ r hv
  unfold decoded view
  rw [chromNew_spec names r.refID F.ref_hi]

/-- all complete records of a chunk and the number of bytes they occupy -/
theorem decodeChunk_encode (names : List Bytes) (recs : List Rec) (hv : ∀ r ∈ recs, valid names.length r = true)
    (tail : Bytes) (ht : Stops tail) :
    decodeChunk false false names (encodeAll recs ++ tail) = (recs.map (view names), (encodeAll recs).length) := by
  have hlen : recs.length + 2 ≤ (encodeAll recs ++ tail).length + 2 := by
    have : recs.length ≤ (encodeAll recs).length := by
      clear hv
      induction recs with
      | nil => simp
      | cons r rs ih => simp [encodeAll_cons, encodeRec_length]; omega
    simp; omega
  have hfs : findStarts (encodeAll recs ++ tail) = bounds 0 recs := by
    have := findStarts_chain names.length tail ht recs [] _ hv hlen
    simpa [findStarts] using this
  unfold decodeChunk
  simp only [hfs, bounds_getLast, bounds_dropLast, Option.getD_some, Nat.zero_add]
  have htake : (encodeAll recs ++ tail).take (encodeAll recs).length = encodeAll recs := by simp
  rw [htake]
  have := map_decodeAt names names.length recs [] hv
  simp only [List.length_nil, List.nil_append] at this
  rw [this]
  congr 1
  apply List.map_congr_left
  intro r hr
  exact decoded_eq_view names r (hv r hr)

theorem stops_nil : Stops [] := by simp [Stops, slice]
theorem stops_newline : Stops [10] := by simp [Stops, slice, fromLE]

/-- **C16 decode clause**: for EVERY list of valid records (any names, CIGARs, odd and even
sequence lengths, tags), reading the whole file decodes exactly the records that were encoded. -/
theorem decode_encode (names : List Bytes) (recs : List Rec) (hv : ∀ r ∈ recs, valid names.length r = true) :
    readWhole false false names (encodeAll recs) = recs.map (view names) := by
  unfold readWhole
  cases recs with
  | nil => simp [encodeAll]
  | cons r rs =>
    have hne : (encodeAll (r :: rs)).isEmpty = false := by
      simp [encodeAll_cons, encodeRec, fixedPart, toLE]
    rw [hne]
    simp only [Bool.false_eq_true, if_false, addNewline]
    split
    · have := decodeChunk_encode names (r :: rs) hv [] stops_nil
      simp only [List.append_nil] at this
      rw [this]
    · rw [decodeChunk_encode names (r :: rs) hv [10] stops_newline]

/-! ### write back: selected records are written as their own bytes -/

theorem bounds_get (recs : List Rec) : ∀ (s i : Nat), i ≤ recs.length →
    (bounds s recs)[i]? = some (s + (encodeAll (recs.take i)).length) := by
  induction recs with
  | nil => intro s i hi; simp at hi; subst hi; simp [bounds, encodeAll]
  | cons r rs ih =>
    intro s i hi
    cases i with
    | zero => simp [bounds, encodeAll]
    | succ i =>
      simp only [bounds, List.getElem?_cons_succ, List.take_succ_cons, encodeAll_cons, List.length_append]
      rw [ih _ i (by simpa using hi)]
      simp; omega

theorem slice_record (recs : List Rec) (tail : Bytes) (i : Nat) (r : Rec) (hi : recs[i]? = some r) :
    slice (encodeAll recs ++ tail) (encodeAll (recs.take i)).length (encodeRec r).length = encodeRec r := by
  have hlt : i < recs.length := by
    rcases Nat.lt_or_ge i recs.length with h | h
    · exact h
    · rw [List.getElem?_eq_none h] at hi; cases hi
  have hsplit : recs = recs.take i ++ (r :: recs.drop (i + 1)) := by
    have h1 : recs.drop i = r :: recs.drop (i + 1) := by
      rw [List.drop_eq_getElem_cons hlt]
      congr 1
      rw [List.getElem?_eq_getElem hlt] at hi
      exact Option.some.inj hi
    rw [← h1, List.take_append_drop]
  have : encodeAll recs ++ tail = encodeAll (recs.take i) ++ (encodeRec r ++ (encodeAll (recs.drop (i + 1)) ++ tail)) := by
    conv => lhs; rw [hsplit]
    simp [encodeAll_append, encodeAll_cons]
  rw [this]
  exact slice_seg _ _ _ _ _ rfl rfl

/-- bytes written for a selection (`__getitem__` + `_make_contigous`) = the encoding of the selected records -/
theorem selectBytes_encode (names : List Bytes) (recs : List Rec) (hv : ∀ r ∈ recs, valid names.length r = true)
    (tail : Bytes) (ht : Stops tail) (idx : List Nat) (hidx : ∀ i ∈ idx, i < recs.length) :
    selectBytes (encodeAll recs ++ tail) idx = encodeAll (idx.filterMap (recs[·]?)) := by
  have hlen : recs.length + 2 ≤ (encodeAll recs ++ tail).length + 2 := by
    have : recs.length ≤ (encodeAll recs).length := by
      clear hv hidx
      induction recs with
      | nil => simp
      | cons r rs ih => simp [encodeAll_cons, encodeRec_length]; omega
    simp; omega
  have hfs : findStarts (encodeAll recs ++ tail) = bounds 0 recs := by
    have := findStarts_chain names.length tail ht recs [] _ hv hlen
    simpa [findStarts] using this
  unfold selectBytes
  rw [hfs]
  induction idx with
  | nil => simp [encodeAll]
  | cons i is ih =>
    have hi := hidx i (by simp)
    obtain ⟨r, hr⟩ : ∃ r, recs[i]? = some r := ⟨recs[i], List.getElem?_eq_getElem hi⟩
    have h1 := bounds_get recs 0 i (by omega)
    have h2 := bounds_get recs 0 (i + 1) (by omega)
    have ht1 : recs.take (i + 1) = recs.take i ++ [r] := by
      rw [List.take_add_one, hr]; rfl
    simp only [List.flatMap_cons, List.filterMap_cons, hr, h1, h2, Nat.zero_add, encodeAll_cons]
    rw [ih (fun j hj => hidx j (by simp [hj]))]
    congr 1
    rw [ht1, encodeAll_append]
    have : (encodeAll (recs.take i) ++ encodeAll [r]).length - (encodeAll (recs.take i)).length = (encodeRec r).length := by
      simp [encodeAll]
    rw [this]
    exact slice_record recs tail i r hr

/-- **C16 write clause**: what is written for any selection (whole, filtered, reordered, repeated)
of the records read from a file decodes to exactly the selected records. -/
theorem write_back (names : List Bytes) (recs : List Rec) (hv : ∀ r ∈ recs, valid names.length r = true)
    (idx : List Nat) (hidx : ∀ i ∈ idx, i < recs.length) :
    readWhole false false names (selectBytes (addNewline (encodeAll recs)) idx)
      = (idx.filterMap (recs[·]?)).map (view names) := by
  have hsel : selectBytes (addNewline (encodeAll recs)) idx = encodeAll (idx.filterMap (recs[·]?)) := by
    unfold addNewline
    split
    · have := selectBytes_encode names recs hv [] stops_nil idx hidx
      simpa using this
    · exact selectBytes_encode names recs hv [10] stops_newline idx hidx
  rw [hsel]
  apply decode_encode
  intro r hr
  simp only [List.mem_filterMap] at hr
  obtain ⟨i, _, hi⟩ := hr
  exact hv r (List.mem_of_getElem? hi)

/-! ### chunked reading (prepend mode) -/

theorem encodeRec_pos (r : Rec) : 36 ≤ (encodeRec r).length := by
  rw [encodeRec_length]; omega

/-- a strict prefix of an encoded record (followed by anything) stops the boundary chain -/
theorem stops_prefix (nref : Nat) (r : Rec) (hv : valid nref r = true) (rest : Bytes) (m : Nat)
    (hm : m < (encodeRec r).length) : Stops ((encodeRec r ++ rest).take m) := by
  have F := valid_facts nref r hv
  unfold Stops
  have hl : ((encodeRec r ++ rest).take m).length = m := by
    simp; omega
  rw [hl]
  rcases Nat.lt_or_ge m 4 with h | h
  · omega
  · have h32 : (256 : Nat) ^ 4 = 4294967296 := by decide
    have : slice ((encodeRec r ++ rest).take m) 0 4 = toLE 4 (32 + (varPart r).length) := by
      unfold slice
      simp only [List.drop_zero, List.take_take]
      rw [Nat.min_eq_left h]
      have := fixed_block r (varPart r ++ rest)
      simp only [slice, List.drop_zero] at this
      simpa [encodeRec] using this
    rw [this, fromLE_toLE 4 _ (by have := F.block; omega)]
    rw [encodeRec_length] at hm
    omega

/-- cutting a concatenation of records at any byte position: complete records, then a strict
prefix of the next one -/
theorem split_at (rem : List Rec) : ∀ (n : Nat), n ≤ (encodeAll rem).length →
    ∃ done todo, rem = done ++ todo ∧ (encodeAll done).length ≤ n ∧
      (todo = [] ∧ n = (encodeAll done).length ∨
       ∃ r rs, todo = r :: rs ∧ n < (encodeAll done).length + (encodeRec r).length) := by
  induction rem with
  | nil => intro n hn; exact ⟨[], [], rfl, by simp [encodeAll], Or.inl ⟨rfl, by simpa [encodeAll] using hn⟩⟩
  | cons r rs ih =>
    intro n hn
    rcases Nat.lt_or_ge n (encodeRec r).length with h | h
    · exact ⟨[], r :: rs, rfl, by simp [encodeAll], Or.inr ⟨r, rs, rfl, by simpa [encodeAll] using h⟩⟩
    · rw [encodeAll_cons, List.length_append] at hn
      obtain ⟨d, t, hdt, hle, hcase⟩ := ih (n - (encodeRec r).length) (by omega)
      refine ⟨r :: d, t, by simp [hdt], by simp [encodeAll_cons]; omega, ?_⟩
      rcases hcase with ⟨ht, hn'⟩ | ⟨q, qs, ht, hn'⟩
      · exact Or.inl ⟨ht, by simp [encodeAll_cons]; omega⟩
      · exact Or.inr ⟨q, qs, ht, by simp [encodeAll_cons]; omega⟩

/-- reader invariant: the carried bytes plus the unread bytes are exactly the encoding of the
records not yet delivered, and the carried bytes are a strict prefix of the next record -/
structure Inv (st : RState) (rem : List Rec) : Prop where
  bytes : st.prepend ++ st.rest = encodeAll rem
  short : ∀ r rs, rem = r :: rs → st.prepend.length < (encodeRec r).length
  done : rem = [] → st.prepend = []

/-- a read that returns nothing: all records have been delivered and the reader stops -/
theorem readChunk_end (names : List Bytes) (k : Nat) (st : RState) (rem : List Rec) (inv : Inv st rem)
    (hk : ∀ r ∈ rem, (encodeRec r).length ≤ k) (hgot : (st.rest.take k).length = 0) :
    rem = [] ∧ readChunk false false names k st = none := by
  have hrem : rem = [] := by
    cases rem with
    | nil => rfl
    | cons r rs =>
      exfalso
      have h1 := inv.short r rs rfl
      have h2 := hk r (by simp)
      have h3 := encodeRec_pos r
      have hb := congrArg List.length inv.bytes
      simp only [List.length_append, encodeAll_cons] at hb
      simp only [List.length_take] at hgot
      have : st.rest.length = 0 := by omega
      omega
  refine ⟨hrem, ?_⟩
  have hpre : st.prepend = [] := inv.done hrem
  simp [readChunk, hgot, hpre]

/-- one successful `read_chunk`: a non-empty block `d` of the remaining records is delivered, decoded, together with
exactly its own bytes; afterwards either the reader is finished with nothing left, or the invariant holds for the rest -/
theorem readChunk_step (names : List Bytes) (k : Nat) (st : RState) (rem : List Rec) (inv : Inv st rem)
    (hv : ∀ r ∈ rem, valid names.length r = true) (hk : ∀ r ∈ rem, (encodeRec r).length ≤ k)
    (hgot : ¬ (st.rest.take k).length = 0) :
    ∃ d t st', rem = d ++ t ∧ d ≠ [] ∧
      readChunk false false names k st = some ((d.map (view names), encodeAll d), st') ∧
      ((st'.finished = true ∧ t = [] ∧ st'.rest = [] ∧ st'.prepend = []) ∨
       (st'.finished = false ∧ Inv st' t ∧ st'.rest.length < st.rest.length)) := by
  simp only [readChunk]
  rw [if_neg hgot]
  by_cases hfin : (st.rest.take k).length < k
  · -- last read: the chunk is everything that remains (plus the appended newline)
    have hall : st.rest.take k = st.rest := by
      apply List.take_of_length_le
      simp only [List.length_take] at hfin; omega
    have hfin' : st.rest.length < k := by rw [hall] at hfin; exact hfin
    simp only [hall, hfin', decide_true, if_true]
    have hne : rem ≠ [] := by
      intro h
      have hb := inv.bytes
      rw [h] at hb
      simp only [encodeAll, List.flatMap_nil, List.append_eq_nil_iff] at hb
      rw [hall, hb.2] at hgot; simp at hgot
    have hchunk : ∃ tail, Stops tail ∧ st.prepend ++ addNewline st.rest = encodeAll rem ++ tail := by
      unfold addNewline
      split
      · exact ⟨[], stops_nil, by simp [inv.bytes]⟩
      · exact ⟨[10], stops_newline, by rw [← List.append_assoc, inv.bytes]⟩
    obtain ⟨tail, ht, hc⟩ := hchunk
    have hrest : List.drop k st.rest = [] := by
      apply List.drop_eq_nil_of_le
      simp only [List.length_take] at hfin; omega
    refine ⟨rem, [], { rest := [], prepend := [], finished := true }, by simp, hne, ?_, Or.inl ⟨rfl, rfl, rfl, rfl⟩⟩
    rw [hc, decodeChunk_encode names rem hv tail ht, hrest]
    simp
  · -- a full read of k bytes: complete records are delivered, the rest is carried over
    have hklen : (st.rest.take k).length = k := by
      simp only [List.length_take] at hfin hgot ⊢; omega
    have hkpos : 0 < k := by omega
    have hkle : k ≤ st.rest.length := by
      simp only [List.length_take] at hklen; omega
    simp only [hfin, decide_false, Bool.false_eq_true, if_false]
    have hpre : st.prepend ++ st.rest.take k = (encodeAll rem).take (st.prepend.length + k) := by
      rw [← inv.bytes, List.take_append, List.take_of_length_le (Nat.le_add_right _ _), Nat.add_sub_cancel_left]
    have hn : st.prepend.length + k ≤ (encodeAll rem).length := by
      rw [← inv.bytes]; simp; omega
    obtain ⟨d, t, hdt, hle, hcase⟩ := split_at rem _ hn
    have hvd : ∀ r ∈ d, valid names.length r = true := fun r hr => hv r (by simp [hdt, hr])
    have hvt : ∀ r ∈ t, valid names.length r = true := fun r hr => hv r (by simp [hdt, hr])
    have hkt : ∀ r ∈ t, (encodeRec r).length ≤ k := fun r hr => hk r (by simp [hdt, hr])
    obtain ⟨tail, htail⟩ : ∃ tail, tail = (encodeAll t).take (st.prepend.length + k - (encodeAll d).length) := ⟨_, rfl⟩
    have hchunk : st.prepend ++ st.rest.take k = encodeAll d ++ tail := by
      rw [hpre, hdt, encodeAll_append, List.take_append, htail]
      congr 1
      apply List.take_of_length_le; omega
    have hrestdrop : tail ++ st.rest.drop k = encodeAll t := by
      have h1 : st.rest.drop k = (encodeAll rem).drop (st.prepend.length + k) := by
        rw [← inv.bytes, List.drop_append]
        simp [List.drop_eq_nil_of_le]
      rw [h1, hdt, encodeAll_append, List.drop_append, List.drop_eq_nil_of_le hle, List.nil_append, htail,
        List.take_append_drop]
    have hstops : Stops tail := by
      rcases hcase with ⟨ht, _⟩ | ⟨q, qs, ht, hlt⟩
      · rw [htail, ht]; simp [encodeAll, stops_nil]
      · rw [htail, ht, encodeAll_cons]
        exact stops_prefix names.length q (hvt q (by simp [ht])) _ _ (by omega)
    have hdne : d ≠ [] := by
      intro hd
      rw [hd] at hdt hle hcase
      simp only [List.nil_append] at hdt
      rcases hcase with ⟨ht, hnn⟩ | ⟨q, qs, ht, hlt⟩
      · simp [encodeAll] at hnn; omega
      · have := hkt q (by simp [ht])
        simp [encodeAll] at hlt; omega
    have inv' : Inv { rest := st.rest.drop k, prepend := tail, finished := false } t := by
      refine ⟨hrestdrop, ?_, ?_⟩
      · intro q qs ht
        rcases hcase with ⟨ht', _⟩ | ⟨q', qs', ht', hlt⟩
        · rw [ht'] at ht; cases ht
        · rw [ht'] at ht; cases ht
          rw [htail]; simp only [List.length_take]; omega
      · intro ht
        rw [htail, ht]; simp [encodeAll]
    refine ⟨d, t, { rest := st.rest.drop k, prepend := tail, finished := false }, hdt, hdne, ?_,
      Or.inr ⟨rfl, inv', by simp only [List.length_drop]; omega⟩⟩
    rw [hchunk, decodeChunk_encode names d hvd tail hstops]
    simp

theorem readChunks_finished (names : List Bytes) (k fuel : Nat) (st : RState) (h1 : st.finished = true) (h2 : st.rest = []) :
    readChunks false false names k fuel st = [] := by
  cases fuel with
  | zero => rfl
  | succ f => simp [readChunks, readChunk, h1, h2]

theorem readChunks_spec (names : List Bytes) (k : Nat) :
    ∀ (fuel : Nat) (st : RState) (rem : List Rec), Inv st rem → (∀ r ∈ rem, valid names.length r = true) →
      (∀ r ∈ rem, (encodeRec r).length ≤ k) → st.rest.length < fuel →
      ((readChunks false false names k fuel st).map (·.1)).flatten = rem.map (view names) ∧
      ((readChunks false false names k fuel st).map (·.2)).flatten = encodeAll rem := by
  intro fuel
  induction fuel with
  | zero => intro st rem _ _ _ hf; omega
  | succ fuel ih =>
    intro st rem inv hv hk hf
    by_cases hgot : (st.rest.take k).length = 0
    · obtain ⟨hrem, hnone⟩ := readChunk_end names k st rem inv hk hgot
      simp [readChunks, hnone, hrem, encodeAll]
    · obtain ⟨d, t, st', hdt, hdne, hstep, hnext⟩ := readChunk_step names k st rem inv hv hk hgot
      have hemp : (d.map (view names)).isEmpty = false := by
        cases d with
        | nil => exact absurd rfl hdne
        | cons r rs => rfl
      simp only [readChunks, hstep, hemp, Bool.false_eq_true, if_false, List.map_cons, List.flatten_cons]
      rcases hnext with ⟨hf', ht, hr, _⟩ | ⟨_, inv', hlt⟩
      · rw [readChunks_finished names k fuel st' hf' hr, hdt, ht]
        simp
      · have hvt : ∀ r ∈ t, valid names.length r = true := fun r hr => hv r (by simp [hdt, hr])
        have hkt : ∀ r ∈ t, (encodeRec r).length ≤ k := fun r hr => hk r (by simp [hdt, hr])
        obtain ⟨ih1, ih2⟩ := ih st' t inv' hvt hkt (by omega)
        rw [ih1, ih2, hdt, List.map_append, encodeAll_append]
        exact ⟨rfl, rfl⟩

/-- `NumpyFileReader.read_chunks` (the loop behind `count_entries`) delivers the same chunks -/
theorem readChunksRaw_spec (names : List Bytes) (k : Nat) :
    ∀ (fuel : Nat) (st : RState) (rem : List Rec), Inv st rem → (∀ r ∈ rem, valid names.length r = true) →
      (∀ r ∈ rem, (encodeRec r).length ≤ k) → st.rest.length + 1 < fuel → st.finished = false →
      ((readChunksRaw false false names k fuel st).map (·.1.length)).sum = rem.length := by
  intro fuel
  induction fuel with
  | zero => intro st rem _ _ _ hf; omega
  | succ fuel ih =>
    intro st rem inv hv hk hf hnf
    by_cases hgot : (st.rest.take k).length = 0
    · obtain ⟨hrem, hnone⟩ := readChunk_end names k st rem inv hk hgot
      simp [readChunksRaw, hnone, hrem, hnf]
    · obtain ⟨d, t, st', hdt, hdne, hstep, hnext⟩ := readChunk_step names k st rem inv hv hk hgot
      simp only [readChunksRaw, hnf, Bool.false_eq_true, if_false, hstep, List.map_cons, List.sum_cons, List.length_map]
      rcases hnext with ⟨hf', ht, _, _⟩ | ⟨hf', inv', hlt⟩
      · have : readChunksRaw false false names k fuel st' = [] := by
          cases fuel with
          | zero => rfl
          | succ f => simp [readChunksRaw, hf']
        rw [this, hdt, ht]; simp
      · have hvt : ∀ r ∈ t, valid names.length r = true := fun r hr => hv r (by simp [hdt, hr])
        have hkt : ∀ r ∈ t, (encodeRec r).length ≤ k := fun r hr => hk r (by simp [hdt, hr])
        rw [ih st' t inv' hvt hkt (by omega) hf', hdt, List.length_append]

/-- **`count_entries`** on a BAM file: the number of records, for every chunk size at least the largest record -/
theorem count_entries (names : List Bytes) (recs : List Rec) (hv : ∀ r ∈ recs, valid names.length r = true)
    (k : Nat) (hk : ∀ r ∈ recs, (encodeRec r).length ≤ k) :
    countEntries false false names k (encodeAll recs) = recs.length := by
  unfold countEntries
  apply readChunksRaw_spec names k _ _ recs _ hv hk (by simp) rfl
  exact ⟨by simp, by intro r rs _; simp; have := encodeRec_pos r; omega, fun _ => rfl⟩

theorem readAllChunks_spec (names : List Bytes) (recs : List Rec) (hv : ∀ r ∈ recs, valid names.length r = true)
    (k : Nat) (hk : ∀ r ∈ recs, (encodeRec r).length ≤ k) :
    ((readAllChunks false false names k (encodeAll recs)).map (·.1)).flatten = recs.map (view names) ∧
    ((readAllChunks false false names k (encodeAll recs)).map (·.2)).flatten = encodeAll recs := by
  unfold readAllChunks
  apply readChunks_spec names k _ _ recs _ hv hk (by simp)
  exact ⟨by simp, by intro r rs _; simp; have := encodeRec_pos r; omega, fun _ => rfl⟩

/-- **C16 chunking clause**: for EVERY list of valid records and EVERY chunk size at least as
large as the largest record, `read_chunks` delivers exactly the records of the whole file, in order. -/
theorem chunked (names : List Bytes) (recs : List Rec) (hv : ∀ r ∈ recs, valid names.length r = true)
    (k : Nat) (hk : ∀ r ∈ recs, (encodeRec r).length ≤ k) :
    ((readAllChunks false false names k (encodeAll recs)).map (·.1)).flatten = readWhole false false names (encodeAll recs) := by
  rw [decode_encode names recs hv]
  exact (readAllChunks_spec names recs hv k hk).1

/-- the chunks' own bytes, joined, are the record area of the file: a chunk stream written back reproduces it -/
theorem chunked_bytes (names : List Bytes) (recs : List Rec) (hv : ∀ r ∈ recs, valid names.length r = true)
    (k : Nat) (hk : ∀ r ∈ recs, (encodeRec r).length ≤ k) :
    ((readAllChunks false false names k (encodeAll recs)).map (·.2)).flatten = encodeAll recs :=
  (readAllChunks_spec names recs hv k hk).2

/-! ### header round trip, whole files, write back with header replay and EOF block -/

theorem readZeroTerm_encode (name rest : Bytes) (h : ∀ b ∈ name, b ≠ 0) :
    readZeroTerm (name ++ 0 :: rest) = some (name, rest) := by
  induction name with
  | nil => simp [readZeroTerm]
  | cons b bs ih =>
    have hb : b ≠ 0 := h b (by simp)
    simp only [List.cons_append, readZeroTerm, hb, if_false]
    rw [ih (fun c hc => h c (by simp [hc]))]
    rfl

theorem parseRefs_encode (refs : List (Bytes × Nat)) (rest : Bytes)
    (h : ∀ p ∈ refs, (∀ b ∈ p.1, b ≠ 0) ∧ p.2 < 4294967296) :
    parseRefs refs.length (encodeRefs refs ++ rest) = some (refs, rest) := by
  induction refs with
  | nil => simp [parseRefs, encodeRefs]
  | cons p ps ih =>
    have hp := h p (by simp)
    have h32 : (256 : Nat) ^ 4 = 4294967296 := by decide
    have e : encodeRefs (p :: ps) ++ rest
        = toLE 4 (p.1.length + 1) ++ (p.1 ++ 0 :: (toLE 4 p.2 ++ (encodeRefs ps ++ rest))) := by
      simp [encodeRefs]
    rw [e]
    simp only [List.length_cons, parseRefs]
    rw [List.drop_left' (toLE_length 4 _), readZeroTerm_encode _ _ hp.1]
    simp only
    rw [List.drop_left' (toLE_length 4 _), List.take_left' (toLE_length 4 _),
      fromLE_toLE 4 _ (by omega), ih (fun q hq => h q (by simp [hq]))]
    rfl

theorem validHeader_facts (text : Bytes) (refs : List (Bytes × Nat)) (hv : validHeader text refs = true) :
    text.length < 4294967296 ∧ refs.length < 4294967296 ∧ ∀ p ∈ refs, (∀ b ∈ p.1, b ≠ 0) ∧ p.2 < 4294967296 := by
  simp only [validHeader, Bool.and_eq_true, decide_eq_true_eq, List.all_eq_true, bne_iff_ne, ne_eq] at hv
  exact ⟨hv.1.1, hv.1.2, fun p hp => ⟨fun b hb => (hv.2 p hp).1 b hb, (hv.2 p hp).2⟩⟩

/-- **header round trip**: for every valid header (any text, any number of references, any names without
NUL, any lengths), parsing the encoded header followed by the record area yields the references and
exactly the record area -/
theorem parseHeader_encode (text : Bytes) (refs : List (Bytes × Nat)) (hv : validHeader text refs = true)
    (body : Bytes) : parseHeader (encodeHeader text refs ++ body) = some (refs, body) := by
  obtain ⟨ht, hn, hr⟩ := validHeader_facts text refs hv
  have h32 : (256 : Nat) ^ 4 = 4294967296 := by decide
  have e : encodeHeader text refs ++ body
      = [66, 65, 77, 1] ++ (toLE 4 text.length ++ (text ++ (toLE 4 refs.length ++ (encodeRefs refs ++ body)))) := by
    simp [encodeHeader]
  unfold parseHeader
  rw [e]
  have hmagic : List.take 4 ([66, 65, 77, 1] ++ (toLE 4 text.length ++ (text ++ (toLE 4 refs.length ++ (encodeRefs refs ++ body)))))
      = [66, 65, 77, 1] := by simp
  rw [if_pos hmagic]
  have hl : slice ([66, 65, 77, 1] ++ (toLE 4 text.length ++ (text ++ (toLE 4 refs.length ++ (encodeRefs refs ++ body))))) 4 4
      = toLE 4 text.length := slice_seg _ _ _ _ _ rfl (toLE_length 4 _).symm
  simp only [hl, fromLE_toLE 4 _ (show text.length < 256 ^ 4 by omega)]
  have hd : List.drop (8 + text.length) ([66, 65, 77, 1] ++ (toLE 4 text.length ++ (text ++ (toLE 4 refs.length ++ (encodeRefs refs ++ body)))))
      = toLE 4 refs.length ++ (encodeRefs refs ++ body) := by
    have : [66, 65, 77, 1] ++ (toLE 4 text.length ++ (text ++ (toLE 4 refs.length ++ (encodeRefs refs ++ body))))
        = ([66, 65, 77, 1] ++ (toLE 4 text.length ++ text)) ++ (toLE 4 refs.length ++ (encodeRefs refs ++ body)) := by simp
    rw [this]
    exact List.drop_left' (by simp [toLE_length]; omega)
  rw [hd, List.take_left' (toLE_length 4 _), List.drop_left' (toLE_length 4 _),
    fromLE_toLE 4 _ (show refs.length < 256 ^ 4 by omega)]
  exact parseRefs_encode refs body hr

theorem headerBytes_encode (text : Bytes) (refs : List (Bytes × Nat)) (hv : validHeader text refs = true)
    (body : Bytes) : headerBytes (encodeHeader text refs ++ body) = encodeHeader text refs := by
  unfold headerBytes
  rw [parseHeader_encode text refs hv body]
  simp

/-- **whole file**: a BAM file (any BGZF blocking `members` of header ++ records) reads back as its
references and its records -/
theorem file_roundtrip (text : Bytes) (refs : List (Bytes × Nat)) (hh : validHeader text refs = true)
    (recs : List Rec) (hv : ∀ r ∈ recs, valid refs.length r = true) (members : List Bytes)
    (hm : gunzip members = encodeHeader text refs ++ encodeAll recs) :
    readFile false false members = some (refs, recs.map (view (refs.map Prod.fst))) := by
  have hv' : ∀ r ∈ recs, valid (refs.map Prod.fst).length r = true := by
    intro r hr; rw [List.length_map]; exact hv r hr
  have hd := decode_encode (refs.map Prod.fst) recs hv'
  simp only [readFile, hm, parseHeader_encode text refs hh, hd]

/-- **write back with header replay and EOF block**: writing any selection of the records read from a file
gives a file (header replayed byte for byte, selected records, BGZF EOF block) that reads back as the same
references and exactly the selected records -/
theorem write_file (text : Bytes) (refs : List (Bytes × Nat)) (hh : validHeader text refs = true)
    (recs : List Rec) (hv : ∀ r ∈ recs, valid refs.length r = true) (members : List Bytes)
    (hm : gunzip members = encodeHeader text refs ++ encodeAll recs)
    (idx : List Nat) (hidx : ∀ i ∈ idx, i < recs.length) :
    writeFile members idx = [encodeHeader text refs ++ encodeAll (idx.filterMap (recs[·]?)), []] ∧
    readFile false false (writeFile members idx)
      = some (refs, (idx.filterMap (recs[·]?)).map (view (refs.map Prod.fst))) := by
  have hv' : ∀ r ∈ recs, valid (refs.map Prod.fst).length r = true := by
    intro r hr; rw [List.length_map]; exact hv r hr
  have hsel : selectBytes (addNewline (encodeAll recs)) idx = encodeAll (idx.filterMap (recs[·]?)) := by
    unfold addNewline
    split
    · have := selectBytes_encode (refs.map Prod.fst) recs hv' [] stops_nil idx hidx
      simpa using this
    · exact selectBytes_encode (refs.map Prod.fst) recs hv' [10] stops_newline idx hidx
  have hw : writeFile members idx = [encodeHeader text refs ++ encodeAll (idx.filterMap (recs[·]?)), []] := by
    simp only [writeFile, hm, parseHeader_encode text refs hh, headerBytes_encode text refs hh, hsel]
  refine ⟨hw, ?_⟩
  rw [hw]
  apply file_roundtrip text refs hh _ _ _ (by simp [gunzip])
  intro r hr
  simp only [List.mem_filterMap] at hr
  obtain ⟨i, _, hi⟩ := hr
  exact hv r (List.mem_of_getElem? hi)

/-- **chunk stream written back**: `write(read_chunks(k))` with any chunk size at least the largest record
reproduces header and record area byte for byte (plus the EOF block), so it reads back as the same file -/
theorem write_chunks (text : Bytes) (refs : List (Bytes × Nat)) (hh : validHeader text refs = true)
    (recs : List Rec) (hv : ∀ r ∈ recs, valid refs.length r = true) (members : List Bytes)
    (hm : gunzip members = encodeHeader text refs ++ encodeAll recs)
    (k : Nat) (hk : ∀ r ∈ recs, (encodeRec r).length ≤ k) :
    writeChunks false false members k = [encodeHeader text refs ++ encodeAll recs, []] ∧
    readFile false false (writeChunks false false members k) = some (refs, recs.map (view (refs.map Prod.fst))) := by
  have hv' : ∀ r ∈ recs, valid (refs.map Prod.fst).length r = true := by
    intro r hr; rw [List.length_map]; exact hv r hr
  have hw : writeChunks false false members k = [encodeHeader text refs ++ encodeAll recs, []] := by
    have hb := chunked_bytes (refs.map Prod.fst) recs hv' k hk
    simp only [writeChunks, hm, parseHeader_encode text refs hh, headerBytes_encode text refs hh, hb]
  refine ⟨hw, ?_⟩
  rw [hw]
  exact file_roundtrip text refs hh recs hv _ (by simp [gunzip])

/-- **chunked reading of a whole file**: header, then chunks — for every valid header, every list of valid records, every
BGZF blocking and every chunk size at least the largest record, `read_chunks` yields the file's references and, chunk after
chunk, exactly its records -/
theorem file_chunked (text : Bytes) (refs : List (Bytes × Nat)) (hh : validHeader text refs = true)
    (recs : List Rec) (hv : ∀ r ∈ recs, valid refs.length r = true) (members : List Bytes)
    (hm : gunzip members = encodeHeader text refs ++ encodeAll recs)
    (k : Nat) (hk : ∀ r ∈ recs, (encodeRec r).length ≤ k) :
    ∃ chunks, readFileChunks false false members k = some (refs, chunks) ∧
      (chunks.map (·.1)).flatten = recs.map (view (refs.map Prod.fst)) ∧
      readFile false false members = some (refs, (chunks.map (·.1)).flatten) := by
  have hv' : ∀ r ∈ recs, valid (refs.map Prod.fst).length r = true := by
    intro r hr; rw [List.length_map]; exact hv r hr
  have hc := chunked (refs.map Prod.fst) recs hv' k hk
  have hd := decode_encode (refs.map Prod.fst) recs hv'
  refine ⟨readAllChunks false false (refs.map Prod.fst) k (encodeAll recs), ?_, by rw [hc, hd], ?_⟩
  · simp only [readFileChunks, hm, parseHeader_encode text refs hh]
  · rw [file_roundtrip text refs hh recs hv members hm, hc, hd]

/-- Gen obligation: the EOF block the writer appends is the 28-byte block of the specification; as a gzip
member it has an empty payload (ISIZE = 0, last four bytes) -/
theorem gen_eof_marker : Gen.C16.eofMarker = specEof ∧ specEof.drop 24 = [0, 0, 0, 0] := by decide

/-! ### unmapped records -/

/-- **C16 unmapped clause** (repaired rule): a record with a negative refID decodes to "no
reference" (`*`), whatever the reference list is, and `*` is none of the reference names. -/
theorem unmapped (names : List Bytes) (recs : List Rec) (hv : ∀ r ∈ recs, valid names.length r = true)
    (hs : star ∉ names) (i : Nat) (r : Rec) (hi : recs[i]? = some r) (hr : r.refID < 0) :
    ∃ d, (readWhole false false names (encodeAll recs))[i]? = some d ∧ d.chrom = star ∧ d.chrom ∉ names := by
  rw [decode_encode names recs hv]
  refine ⟨view names r, by simp [hi], ?_⟩
  have : (view names r).chrom = star := by simp [view, specChrom, hr]
  rw [this]; exact ⟨rfl, hs⟩

/-- the rule the code shipped with (`names[refID]`, so `names[-1]`) is unsound: the unmapped
record of the witness decodes to the name of the LAST reference. Kept as the recorded refutation. -/
theorem unmappedOld_unsound :
    let names : List Bytes := [[99, 104, 114, 49], [99, 104, 114, 88]]
    let r : Rec := { refID := -1, pos := -1, mapq := 0, bin := 0, flag := 4, nextRef := -1, nextPos := -1, tlen := 0,
                     name := [117], cigar := [], seq := [1, 2, 4], qual := [9, 9, 9], tags := [] }
    valid 2 r = true ∧
    (readWhole false true names (encodeAll [r])).map (·.chrom) = [[99, 104, 114, 88]] ∧
    specChrom names r.refID = none := by decide +kernel

/-- the rule the code shipped with (`n_cigar_op * 4` evaluated in uint16) is unsound from 16384
CIGAR operations on: the CIGAR is taken to be empty and the sequence is read from the CIGAR bytes. -/
theorem cigarBytesOld_unsound : cigarBytes true 16384 = 0 ∧ cigarBytes false 16384 = 65536 := by decide

/-! ### reference interval -/

theorem consumes_spec (op : Nat) :
    (([true, false, true, true, false, false, false, true, true] : List Bool)[op]?).getD false = specConsumes op := by
  match op with
  | 0 | 1 | 2 | 3 | 4 | 5 | 6 | 7 | 8 => rfl
  | n + 9 => simp [specConsumes]

/-- Gen obligation: the consuming set tabulated from the running code is {M, D, N, =, X} -/
theorem gen_consumes : Gen.C16.consumes = [true, false, true, true, false, false, false, true, true] := by decide

theorem refLen_spec (c : List (Nat × Nat)) :
    refLen Gen.C16.consumes (c.map (·.1)) (c.map (·.2)) = specRefLen c := by
  rw [gen_consumes]
  induction c with
  | nil => rfl
  | cons p c ih =>
    obtain ⟨op, l⟩ := p
    simp only [List.map_cons, refLen, specRefLen, consumes_spec, ih]

theorem and16 (x : Nat) : x &&& 16 = 16 * (x / 16 % 2) := by
  have h1 := @Nat.and_div_two_pow x 16 4
  have h2 := @Nat.and_mod_two_pow x 16 4
  have e1 : (16:Nat) / 2 ^ 4 = 1 := by decide
  have e2 : (16:Nat) % 2 ^ 4 = 0 := by decide
  have e3 : (2:Nat)^4 = 16 := by decide
  rw [e1, Nat.and_one_is_mod] at h1
  rw [e2, Nat.and_zero] at h2
  rw [e3] at h1 h2
  omega

/-- **C16 interval clause**: the interval computed from a decoded record is
`[pos, pos + Σ lengths of reference-consuming ops)` with the consuming set {M,D,N,=,X} (tabulated
from the running code), strand `-` iff flag bit 0x10. -/
theorem ref_interval (names : List Bytes) (r : Rec) :
    intervalOf Gen.C16.consumes (view names r) = specInterval names r := by
  unfold intervalOf specInterval
  simp only [view, refLen_spec, and16]
  congr 1
  have : r.flag / 16 % 2 = 0 ∨ r.flag / 16 % 2 = 1 := by omega
  rcases this with h | h <;> simp [h]

/-- the intervals of a whole file -/
theorem ref_interval_file (names : List Bytes) (recs : List Rec) (hv : ∀ r ∈ recs, valid names.length r = true) :
    (readWhole false false names (encodeAll recs)).map (intervalOf Gen.C16.consumes) = recs.map (specInterval names) := by
  rw [decode_encode names recs hv, List.map_map]
  apply List.map_congr_left
  intro r _
  exact ref_interval names r

/-! ### `count_reference_length` over ragged CIGAR arrays and the column-wise `alignment_to_interval` -/

theorem raggedRows_cons (row rest : List Nat) (lens : List Nat) :
    raggedRows (row ++ rest) (row.length :: lens) = row :: raggedRows rest lens := by
  simp [raggedRows]

theorem maskOf_spec (op : Nat) : maskOf [0, 2, 3, 7, 8] op = if specConsumes op then 1 else 0 := by
  have e : ∀ a : Nat, (a == op) = (op == a) := fun a => by
    cases h : (a == op) <;> cases h' : (op == a) <;> simp_all
  simp only [maskOf, List.any_cons, List.any_nil, Bool.or_false, specConsumes, e, Bool.or_assoc]

theorem rowProd_append (codes o1 o2 l1 l2 : List Nat) (h : o1.length = l1.length) :
    rowProd codes (o1 ++ o2) (l1 ++ l2) = rowProd codes o1 l1 ++ rowProd codes o2 l2 := by
  unfold rowProd
  rw [List.map_append, List.zip_append (by simpa using h), List.map_append]

theorem rowProd_length (codes o l : List Nat) (h : o.length = l.length) : (rowProd codes o l).length = o.length := by
  simp [rowProd, h]

/-- one row of `mask * lengths` summed = the reference length of that CIGAR -/
theorem row_sum (c : List (Nat × Nat)) :
    (rowProd [0, 2, 3, 7, 8] (c.map Prod.fst) (c.map Prod.snd)).sum = specRefLen c := by
  induction c with
  | nil => rfl
  | cons p c ih =>
    obtain ⟨op, l⟩ := p
    unfold rowProd at ih ⊢
    simp only [List.map_cons, List.zip_cons_cons, List.sum_cons, specRefLen, ih, maskOf_spec]
    cases specConsumes op <;> simp

theorem countReferenceLength_rows (cs : List (List (Nat × Nat))) :
    countReferenceLength [0, 2, 3, 7, 8] (cs.map (List.map Prod.fst)).flatten (cs.map (List.map Prod.snd)).flatten
      (cs.map List.length) = cs.map specRefLen := by
  unfold countReferenceLength
  induction cs with
  | nil => rfl
  | cons c cs ih =>
    simp only [List.map_cons, List.flatten_cons]
    rw [rowProd_append _ _ _ _ _ (by simp)]
    have hl : c.length = (rowProd [0, 2, 3, 7, 8] (c.map Prod.fst) (c.map Prod.snd)).length := by
      rw [rowProd_length _ _ _ (by simp)]; simp
    rw [hl, raggedRows_cons, List.map_cons, row_sum, ih]

theorem zip_maps {α β γ δ} (l : List α) (g : α → β) (h : α → γ) (F : α × β × γ → δ) :
    (l.zip ((l.map g).zip (l.map h))).map F = l.map (fun a => F (a, g a, h a)) := by
  induction l with
  | nil => rfl
  | cons a l ih => simp [ih]

/-- Gen obligation: the op codes `count_reference_length` compares with are those of M, D, N, =, X
(derived from the behavioural table `consumes`) -/
theorem gen_consuming_codes : Gen.C16.consumingCodes = [0, 2, 3, 7, 8] ∧
    Gen.C16.consumes = (List.range 9).map (fun op => Gen.C16.consumingCodes.any (· == op)) := by decide

/-- **C16 interval clause, as the code computes it**: `alignment_to_interval` (and `BamIntervalBuffer`),
column-wise over the ragged CIGAR arrays of a whole table of decoded records, gives for every record
`[pos, pos + Σ reference-consuming lengths)`, name, mapq and the strand of flag bit 0x10 -/
theorem alignment_to_interval_cols (names : List Bytes) (recs : List Rec) :
    alignmentToInterval Gen.C16.consumingCodes (recs.map (view names)) = recs.map (specInterval names) := by
  rw [gen_consuming_codes.1]
  unfold alignmentToInterval
  have h1 : (recs.map (view names)).map DRec.cigOp = (recs.map Rec.cigar).map (List.map Prod.fst) := by
    simp [List.map_map, view, Function.comp_def]
  have h2 : (recs.map (view names)).map DRec.cigLen = (recs.map Rec.cigar).map (List.map Prod.snd) := by
    simp [List.map_map, view, Function.comp_def]
  have h3 : (recs.map (view names)).map (fun d => d.cigOp.length) = (recs.map Rec.cigar).map List.length := by
    simp [List.map_map, view, Function.comp_def]
  have hlen : (recs.map Rec.cigar).map specRefLen = (recs.map (view names)).map (fun d => specRefLen (d.cigOp.zip d.cigLen)) := by
    simp only [List.map_map, Function.comp_def, view]
    apply List.map_congr_left
    intro r _
    congr 1
    induction r.cigar with
    | nil => rfl
    | cons p c ih => simp [← ih]
  simp only [h1, h2, h3, countReferenceLength_rows, hlen, zip_maps]
  simp only [List.map_map, Function.comp_def]
  apply List.map_congr_left
  intro r _
  have hz : (view names r).cigOp.zip (view names r).cigLen = r.cigar := by
    simp only [view]
    induction r.cigar with
    | nil => rfl
    | cons p c ih => simp [ih]
  simp only [hz]
  unfold specInterval
  simp only [view, and16]
  congr 1
  have : r.flag / 16 % 2 = 0 ∨ r.flag / 16 % 2 = 1 := by omega
  rcases this with h | h <;> simp [h]

/-! ### Gen obligations: alphabets, repaired rules, fixed offsets (re-extracted from /repo every run) -/

theorem gen_cigar_letters : Gen.C16.cigarLetters = "MIDNSHP=X".toList.map Char.toNat := by decide
theorem gen_seq_letters : Gen.C16.seqLetters = "=ACMGRSVTWYHKDBN".toList.map Char.toNat := by decide

/-- the running code uses the repaired rules (so the model instance the theorems are about,
`oldCig = oldChrom = false`, is the one the correspondence driver runs) -/
theorem gen_rules_repaired : Gen.C16.oldChrom = false ∧ Gen.C16.oldCig = false := by decide

/-- the fixed offsets of the running code are the model's: incrementing each probed byte of a
template record changes exactly the field the model reads there, by the same amount -/
theorem gen_probe_ok : Gen.C16.probe = Gen.C16.probeOffsets.map (probeObs Gen.C16.probePad) := by decide +kernel

/-! ### spec-level characterisations: the model's primitives in plain List / Nat vocabulary -/

/-- byte `i` of the little-endian encoding is digit `i` in base 256 -/
theorem toLE_getElem? (w n i : Nat) (hi : i < w) : (toLE w n)[i]? = some (n / 256 ^ i % 256) := by
  induction w generalizing n i with
  | zero => omega
  | succ w ih =>
    cases i with
    | zero => simp [toLE]
    | succ i =>
      simp only [toLE, List.getElem?_cons_succ]
      rw [ih (n / 256) i (by omega), Nat.div_div_eq_div_mul, Nat.pow_succ, Nat.mul_comm]

theorem toLE_lt (w n : Nat) : ∀ b ∈ toLE w n, b < 256 := by
  induction w generalizing n with
  | zero => intro b hb; simp [toLE] at hb
  | succ w ih =>
    intro b hb
    simp only [toLE, List.mem_cons] at hb
    rcases hb with h | h
    · omega
    · exact ih _ b h

theorem fromLE_lt (bs : Bytes) (h : ∀ b ∈ bs, b < 256) : fromLE bs < 256 ^ bs.length := by
  induction bs with
  | nil => simp [fromLE]
  | cons b bs ih =>
    have hb := h b (by simp)
    have := ih (fun c hc => h c (by simp [hc]))
    simp only [fromLE, List.length_cons, Nat.pow_succ]
    omega

/-- the other direction of the round trip: on byte strings `toLE ∘ fromLE` is the identity, so `toLE w` and `fromLE`
are mutually inverse bijections between numbers below `256^w` and byte strings of length `w` -/
theorem toLE_fromLE (bs : Bytes) (h : ∀ b ∈ bs, b < 256) : toLE bs.length (fromLE bs) = bs := by
  induction bs with
  | nil => rfl
  | cons b bs ih =>
    have hb := h b (by simp)
    simp only [fromLE, List.length_cons, toLE]
    have h1 : (b + 256 * fromLE bs) % 256 = b := by omega
    have h2 : (b + 256 * fromLE bs) / 256 = fromLE bs := by omega
    rw [h1, h2, ih (fun c hc => h c (by simp [hc]))]

theorem fromLE_append (a b : Bytes) : fromLE (a ++ b) = fromLE a + 256 ^ a.length * fromLE b := by
  induction a with
  | nil => simp [fromLE]
  | cons x a ih =>
    simp only [List.cons_append, fromLE, ih, List.length_cons, Nat.pow_succ]
    rw [Nat.mul_add, Nat.add_assoc]
    congr 2
    rw [← Nat.mul_assoc, Nat.mul_comm 256]

/-- `slice d a n` is `d[a], …, d[a+n-1]` -/
theorem slice_getElem? (d : Bytes) (a n i : Nat) : (slice d a n)[i]? = if i < n then d[a + i]? else none := by
  unfold slice
  rw [List.getElem?_take]
  split
  · rw [List.getElem?_drop]
  · rfl

theorem slice_length (d : Bytes) (a n : Nat) : (slice d a n).length = min n (d.length - a) := by
  simp [slice]

/-- nibble unpacking in div/mod vocabulary: high nibble first -/
theorem unpackNibbles_divmod (bs : Bytes) : unpackNibbles bs = bs.flatMap (fun b => [b / 16 % 16, b % 16]) := by
  unfold unpackNibbles
  congr 1
  funext b
  simp [and15, shr4]

/-- byte `i` of the packed sequence holds codes `2i` (high) and `2i+1` (low, 0 when the length is odd) -/
theorem packNibbles_getElem? (s : List Nat) : ∀ i, 2 * i < s.length →
    (packNibbles s)[i]? = some ((s[2 * i]?).getD 0 * 16 + (s[2 * i + 1]?).getD 0) := by
  fun_induction packNibbles s with
  | case1 => intro i h; simp at h
  | case2 a => intro i h; have : i = 0 := by simp at h; omega
               subst this; simp
  | case3 a b r ih =>
    intro i h
    cases i with
    | zero => simp
    | succ i =>
      have := ih i (by simp at h; omega)
      simp only [List.getElem?_cons_succ, this]
      have e1 : 2 * (i + 1) = (2 * i) + 1 + 1 := by omega
      rw [e1]
      simp

/-- CIGAR words in div/mod vocabulary: op = word mod 16, length = word div 16 -/
theorem splitCigar_divmod (ws : List Nat) : splitCigar ws = (ws.map (· % 16), ws.map (· / 16)) := by
  unfold splitCigar
  congr 1
  · apply List.map_congr_left; intro w _; exact and15 w
  · apply List.map_congr_left; intro w _; exact shr4 w

/-- the reference length is the sum of the lengths of the reference-consuming operations -/
theorem specRefLen_eq_sum (c : List (Nat × Nat)) :
    specRefLen c = ((c.filter (fun p => specConsumes p.1)).map (·.2)).sum := by
  induction c with
  | nil => rfl
  | cons p c ih =>
    obtain ⟨op, l⟩ := p
    simp only [specRefLen, ih, List.filter_cons]
    cases specConsumes op <;> simp

/-- the strand bit is bit 4 of the flag -/
theorem strand_testBit (flag : Nat) : ((flag &&& 16) != 0) = flag.testBit 4 := by
  rw [and16, Nat.testBit_eq_decide_div_mod_eq]
  have : flag / 16 % 2 = 0 ∨ flag / 16 % 2 = 1 := by omega
  have e : (2 : Nat) ^ 4 = 16 := by decide
  rw [e]
  rcases this with h | h <;> simp [h]

theorem encodeAll_length (recs : List Rec) :
    (encodeAll recs).length = (recs.map (fun r => (encodeRec r).length)).sum := by
  induction recs with
  | nil => rfl
  | cons r rs ih => simp [encodeAll_cons, ih]

/-- record boundaries are the prefix sums of the record sizes -/
theorem bounds_prefix_sums (recs : List Rec) (s i : Nat) (hi : i ≤ recs.length) :
    (bounds s recs)[i]? = some (s + ((recs.take i).map (fun r => (encodeRec r).length)).sum) := by
  rw [bounds_get recs s i hi, encodeAll_length]

theorem raggedRows_flatten (rows : List (List Nat)) : raggedRows rows.flatten (rows.map List.length) = rows := by
  induction rows with
  | nil => rfl
  | cons r rs ih => simp only [List.flatten_cons, List.map_cons, raggedRows_cons, ih]

/-- `_read_zero_term` = split at the first NUL -/
theorem readZeroTerm_spec (d : Bytes) (h : 0 ∈ d) :
    readZeroTerm d = some (d.takeWhile (· != 0), (d.dropWhile (· != 0)).drop 1) := by
  induction d with
  | nil => simp at h
  | cons b bs ih =>
    by_cases hb : b = 0
    · subst hb; simp [readZeroTerm]
    · have hm : 0 ∈ bs := by
        rcases List.mem_cons.mp h with h' | h'
        · exact absurd h'.symm hb
        · exact h'
      simp [readZeroTerm, hb, ih hm]

/-- completeness: the name reader fails exactly when there is no NUL -/
theorem readZeroTerm_none_iff (d : Bytes) : readZeroTerm d = none ↔ 0 ∉ d := by
  induction d with
  | nil => simp [readZeroTerm]
  | cons b bs ih =>
    by_cases hb : b = 0
    · subst hb; simp [readZeroTerm]
    · simp only [readZeroTerm, hb, if_false, Option.map_eq_none_iff, ih, List.mem_cons, not_or]
      constructor
      · intro h; exact ⟨fun e => hb e.symm, h⟩
      · intro h; exact h.2

/-! ### the boundary chain without any assumption on what follows the records; completeness of `Stops` -/

/-- `_find_starts` on records followed by ANYTHING: it walks through exactly the record starts and then continues
from the end of the last record (no hypothesis on `tail`) -/
theorem findStarts_chain_general (nref : Nat) (tail : Bytes) (recs : List Rec) :
    ∀ (pre : Bytes) (fuel : Nat) (d : Bytes), d = pre ++ (encodeAll recs ++ tail) →
      (∀ r ∈ recs, valid nref r = true) → recs.length ≤ fuel →
      findStartsAux d fuel pre.length
        = startsOf pre.length recs ++ findStartsAux d (fuel - recs.length) (pre.length + (encodeAll recs).length) := by
  induction recs with
  | nil => intro pre fuel d _ _ _; simp [startsOf, encodeAll]
  | cons r rs ih =>
    intro pre fuel d hd hv hf
    obtain ⟨f, rfl⟩ : ∃ f, fuel = f + 1 := ⟨fuel - 1, by simp at hf; omega⟩
    have F := valid_facts nref r (hv r (by simp))
    have hd1 : d = pre ++ (fixedPart r ++ (varPart r ++ (encodeAll rs ++ tail))) := by
      rw [hd]; simp [encodeAll_cons, encodeRec]
    have hs : slice d pre.length 4 = toLE 4 (32 + (varPart r).length) := by
      rw [hd1]
      have := slice_append_right pre (fixedPart r ++ (varPart r ++ (encodeAll rs ++ tail))) 0 4
      simp only [Nat.add_zero] at this
      rw [this, fixed_block]
    have h32 : (256 : Nat) ^ 4 = 4294967296 := by decide
    have hb : fromLE (toLE 4 (32 + (varPart r).length)) = 32 + (varPart r).length :=
      fromLE_toLE 4 _ (by have := F.block; omega)
    have hnext : pre.length + (32 + (varPart r).length) + 4 = (pre ++ encodeRec r).length := by
      simp [encodeRec_length]; omega
    have hd2 : d = (pre ++ encodeRec r) ++ (encodeAll rs ++ tail) := by
      rw [hd]; simp [encodeAll_cons]
    have hle : pre.length ≤ d.length := by rw [hd]; simp
    simp only [findStartsAux, startsOf]
    rw [if_pos hle, hs, hb, hnext, ih (pre ++ encodeRec r) f d hd2 (fun q hq => hv q (by simp [hq])) (by simp at hf ⊢; omega)]
    simp only [List.length_append, List.cons_append, List.length_cons, encodeAll_cons]
    have e1 : pre.length + (encodeRec r).length + (encodeAll rs).length
        = pre.length + ((encodeRec r).length + (encodeAll rs).length) := by omega
    have e2 : f + 1 - (rs.length + 1) = f - rs.length := by omega
    rw [e1, e2]

theorem findStartsAux_ge (d : Bytes) : ∀ (fuel s x : Nat), x ∈ findStartsAux d fuel s → s ≤ x := by
  intro fuel
  induction fuel with
  | zero => intro s x h; simp [findStartsAux] at h
  | succ f ih =>
    intro s x h
    simp only [findStartsAux] at h
    split at h
    · rcases List.mem_cons.mp h with h' | h'
      · omega
      · have := ih _ x h'; omega
    · simp at h

/-- **completeness of the chunk rule**: the decoder consumes exactly the bytes of the records — no more — if and only
if what follows them stops the chain (is shorter than the block it announces). Otherwise it reads past the records. -/
theorem used_bytes_iff (names : List Bytes) (recs : List Rec) (hv : ∀ r ∈ recs, valid names.length r = true) (tail : Bytes) :
    (decodeChunk false false names (encodeAll recs ++ tail)).2 = (encodeAll recs).length ↔ Stops tail := by
  constructor
  · intro h
    have hlen : recs.length ≤ (encodeAll recs).length := by
      clear hv h
      induction recs with
      | nil => simp
      | cons r rs ih => simp [encodeAll_cons, encodeRec_length]; omega
    have hg := findStarts_chain_general names.length tail recs [] ((encodeAll recs ++ tail).length + 2)
      (encodeAll recs ++ tail) (by simp) hv (by simp; omega)
    simp only [List.length_nil, Nat.zero_add] at hg
    obtain ⟨g, hgdef⟩ : ∃ g, (encodeAll recs ++ tail).length + 2 - recs.length = g + 2 :=
      ⟨(encodeAll recs ++ tail).length - recs.length, by simp; omega⟩
    rw [hgdef] at hg
    have hsl : slice (encodeAll recs ++ tail) (encodeAll recs).length 4 = slice tail 0 4 := by
      have := slice_append_right (encodeAll recs) tail 0 4
      simpa using this
    unfold decodeChunk findStarts at h
    simp only [hg] at h
    unfold Stops
    by_cases hst : tail.length < fromLE (slice tail 0 4) + 4
    · exact hst
    · exfalso
      have hR : findStartsAux (encodeAll recs ++ tail) (g + 2) (encodeAll recs).length
          = (encodeAll recs).length :: ((encodeAll recs).length + fromLE (slice tail 0 4) + 4) ::
              findStartsAux (encodeAll recs ++ tail) g ((encodeAll recs).length + fromLE (slice tail 0 4) + 4 +
                fromLE (slice (encodeAll recs ++ tail) ((encodeAll recs).length + fromLE (slice tail 0 4) + 4) 4) + 4) := by
        simp only [findStartsAux, hsl]
        rw [if_pos (by simp), if_pos (by simp; omega)]
      rw [hR] at h
      simp only [List.getLast?_append, List.getLast?_cons_cons] at h
      obtain ⟨y, hy⟩ : ∃ y, (((encodeAll recs).length + fromLE (slice tail 0 4) + 4) ::
              findStartsAux (encodeAll recs ++ tail) g ((encodeAll recs).length + fromLE (slice tail 0 4) + 4 +
                fromLE (slice (encodeAll recs ++ tail) ((encodeAll recs).length + fromLE (slice tail 0 4) + 4) 4) + 4)).getLast? = some y := by
        cases hq : (((encodeAll recs).length + fromLE (slice tail 0 4) + 4) ::
              findStartsAux (encodeAll recs ++ tail) g ((encodeAll recs).length + fromLE (slice tail 0 4) + 4 +
                fromLE (slice (encodeAll recs ++ tail) ((encodeAll recs).length + fromLE (slice tail 0 4) + 4) 4) + 4)).getLast? with
        | none => simp at hq
        | some y => exact ⟨y, rfl⟩
      have hmem := List.mem_of_getLast? hy
      have hge : (encodeAll recs).length + fromLE (slice tail 0 4) + 4 ≤ y := by
        rcases List.mem_cons.mp hmem with h' | h'
        · omega
        · have := findStartsAux_ge _ _ _ _ h'; omega
      rw [hy] at h
      simp at h
      omega
  · intro ht
    rw [decodeChunk_encode names recs hv tail ht]

/-! ### the encoder is faithful: real bytes, and a complete spec-level decoder inverts it (unique parsing) -/

theorem packNibbles_lt (s : List Nat) (h : ∀ c ∈ s, c < 16) : ∀ b ∈ packNibbles s, b < 256 := by
  fun_induction packNibbles s with
  | case1 => intro b hb; simp at hb
  | case2 a => intro b hb; have := h a (by simp); simp at hb; omega
  | case3 a b r ih =>
    intro x hx
    have ha := h a (by simp)
    have hb := h b (by simp)
    simp only [List.mem_cons] at hx
    rcases hx with hx | hx
    · omega
    · exact ih (fun c hc => h c (by simp [hc])) x hx

theorem cigarWords_lt (c : List (Nat × Nat)) : ∀ b ∈ cigarWords c, b < 256 := by
  intro b hb
  simp only [cigarWords, List.mem_flatMap] at hb
  obtain ⟨p, _, hp⟩ := hb
  exact toLE_lt 4 _ b hp

/-- for a record the specification allows, the encoder emits real bytes -/
theorem encodeRec_bytes (nref : Nat) (r : Rec) (h : specValid nref r = true) : ∀ b ∈ encodeRec r, b < 256 := by
  have hv := valid_facts nref r (specValid_valid nref r h)
  simp only [specValid, Bool.and_eq_true, decide_eq_true_eq, List.all_eq_true, bne_iff_ne, ne_eq] at h
  obtain ⟨⟨⟨⟨⟨⟨⟨⟨⟨⟨⟨⟨_, _⟩, hmq⟩, _⟩, _⟩, _⟩, _⟩, _⟩, hn2⟩, hnm⟩, _⟩, hq⟩, ht⟩ := h
  intro b hb
  simp only [encodeRec, fixedPart, varPart, List.mem_append, List.mem_cons, List.mem_singleton, List.not_mem_nil, or_false] at hb
  rcases hb with (hb | hb | hb | (hb | hb) | hb | hb | hb | hb | hb | hb | hb) | hb | hb | hb | hb | hb | hb
  any_goals exact toLE_lt _ _ b hb
  · omega
  · omega
  · exact (hnm b hb).2
  · omega
  · exact cigarWords_lt _ b hb
  · exact packNibbles_lt _ hv.seq b hb
  · exact hq b hb
  · exact ht b hb

theorem fixed_bin (r : Rec) (rest : Bytes) : slice (fixedPart r ++ rest) 14 2 = toLE 2 r.bin := by
  simp only [fixedPart, toLE, List.cons_append, List.nil_append]
  rfl

theorem fixed_nref (r : Rec) (rest : Bytes) : slice (fixedPart r ++ rest) 24 4 = toLE 4 (toU32 r.nextRef) := by
  simp only [fixedPart, toLE, List.cons_append, List.nil_append]
  rfl

theorem fixed_npos (r : Rec) (rest : Bytes) : slice (fixedPart r ++ rest) 28 4 = toLE 4 (toU32 r.nextPos) := by
  simp only [fixedPart, toLE, List.cons_append, List.nil_append]
  rfl

theorem fixed_tlen (r : Rec) (rest : Bytes) : slice (fixedPart r ++ rest) 32 4 = toLE 4 (toU32 r.tlen) := by
  simp only [fixedPart, toLE, List.cons_append, List.nil_append]
  rfl

theorem var_name (r : Rec) (post : Bytes) : slice (fixedPart r ++ (varPart r ++ post)) 36 r.name.length = r.name := by
  have : fixedPart r ++ (varPart r ++ post) = fixedPart r ++ (r.name ++ ([0] ++ (cigarWords r.cigar ++ (packNibbles r.seq ++ (r.qual ++ r.tags))) ++ post)) := by
    simp [varPart]
  rw [this]; exact slice_seg _ _ _ _ _ (by simp [fixedPart_length]) rfl

theorem var_cigar (r : Rec) (post : Bytes) :
    slice (fixedPart r ++ (varPart r ++ post)) (36 + (r.name.length + 1)) (4 * r.cigar.length) = cigarWords r.cigar := by
  have : fixedPart r ++ (varPart r ++ post) = (fixedPart r ++ (r.name ++ [0])) ++ (cigarWords r.cigar ++ ((packNibbles r.seq ++ (r.qual ++ r.tags)) ++ post)) := by
    simp [varPart]
  rw [this]; exact slice_seg _ _ _ _ _ (by simp [fixedPart_length]) (by rw [cigarWords_length])

theorem var_seq (r : Rec) (post : Bytes) :
    slice (fixedPart r ++ (varPart r ++ post)) (36 + (r.name.length + 1) + 4 * r.cigar.length) ((r.seq.length + 1) / 2) = packNibbles r.seq := by
  have : fixedPart r ++ (varPart r ++ post) = (fixedPart r ++ (r.name ++ ([0] ++ cigarWords r.cigar))) ++ (packNibbles r.seq ++ ((r.qual ++ r.tags) ++ post)) := by
    simp [varPart]
  rw [this]; exact slice_seg _ _ _ _ _ (by simp [fixedPart_length, cigarWords_length]; omega) (by rw [packNibbles_length])

theorem var_qual (r : Rec) (post : Bytes) (hq : r.qual.length = r.seq.length) :
    slice (fixedPart r ++ (varPart r ++ post)) (36 + (r.name.length + 1) + 4 * r.cigar.length + (r.seq.length + 1) / 2) r.seq.length = r.qual := by
  have : fixedPart r ++ (varPart r ++ post) = (fixedPart r ++ (r.name ++ ([0] ++ (cigarWords r.cigar ++ packNibbles r.seq)))) ++ (r.qual ++ (r.tags ++ post)) := by
    simp [varPart]
  rw [this]; exact slice_seg _ _ _ _ _ (by simp [fixedPart_length, cigarWords_length, packNibbles_length]; omega) hq.symm

theorem var_tags (r : Rec) (hq : r.qual.length = r.seq.length) :
    slice (fixedPart r ++ (varPart r ++ [])) (36 + (r.name.length + 1) + 4 * r.cigar.length + (r.seq.length + 1) / 2 + r.seq.length) r.tags.length = r.tags := by
  have : fixedPart r ++ (varPart r ++ []) = (fixedPart r ++ (r.name ++ ([0] ++ (cigarWords r.cigar ++ (packNibbles r.seq ++ r.qual))))) ++ (r.tags ++ []) := by
    simp [varPart]
  rw [this]; exact slice_seg _ _ _ _ _ (by simp [fixedPart_length, cigarWords_length, packNibbles_length, hq]; omega) rfl

theorem varPart_length (r : Rec) (hq : r.qual.length = r.seq.length) :
    (varPart r).length = (r.name.length + 1) + 4 * r.cigar.length + (r.seq.length + 1) / 2 + r.seq.length + r.tags.length := by
  simp [varPart, cigarWords_length, packNibbles_length, hq]; omega

/-- **the encoder loses nothing**: the complete spec-level decoder recovers EVERY field of an encoded record (bin, mate
fields, template length and tag bytes included) and hands back exactly the bytes that follow it -/
theorem decodeFull_encode (nref : Nat) (r : Rec) (h : specValid nref r = true) (post : Bytes) :
    decodeFull (encodeRec r ++ post) = some (r, post) := by
  have F := valid_facts nref r (specValid_valid nref r h)
  simp only [specValid, Bool.and_eq_true, decide_eq_true_eq, List.all_eq_true] at h
  obtain ⟨⟨⟨⟨⟨⟨⟨⟨⟨⟨⟨⟨_, _⟩, _⟩, hbin⟩, hnr⟩, hnp⟩, htl⟩, _⟩, _⟩, _⟩, _⟩, _⟩, _⟩ := h
  have h16 : (256 : Nat) ^ 2 = 65536 := by decide
  have h32 : (256 : Nat) ^ 4 = 4294967296 := by decide
  have hvl := varPart_length r F.qual
  have hlen : (encodeRec r ++ post).length = 36 + (varPart r).length + post.length := by
    simp [encodeRec_length]
  have hbs : slice (encodeRec r ++ post) 0 4 = toLE 4 (32 + (varPart r).length) := by
    have : encodeRec r ++ post = fixedPart r ++ (varPart r ++ post) := by simp [encodeRec]
    rw [this, fixed_block]
  have hb : fromLE (toLE 4 (32 + (varPart r).length)) = 32 + (varPart r).length :=
    fromLE_toLE 4 _ (by have := F.block; omega)
  have htake : (encodeRec r ++ post).take (4 + (32 + (varPart r).length)) = fixedPart r ++ (varPart r ++ []) := by
    have : 4 + (32 + (varPart r).length) = (encodeRec r).length := by rw [encodeRec_length]; omega
    rw [this, List.take_left' rfl]; simp [encodeRec]
  have hdrop : (encodeRec r ++ post).drop (4 + (32 + (varPart r).length)) = post := by
    have : 4 + (32 + (varPart r).length) = (encodeRec r).length := by rw [encodeRec_length]; omega
    rw [this, List.drop_left' rfl]
  have c1 : fromLE (toLE 2 r.cigar.length) = r.cigar.length := fromLE_toLE 2 _ (by have := F.ncig; omega)
  have c2 : fromLE (toLE 2 r.flag) = r.flag := fromLE_toLE 2 _ (by have := F.flag; omega)
  have c3 : fromLE (toLE 4 r.seq.length) = r.seq.length := fromLE_toLE 4 _ (by have := F.lseq; omega)
  have c4 : fromLE (toLE 2 r.bin) = r.bin := fromLE_toLE 2 _ (by omega)
  have h36 : ¬ (encodeRec r ++ post).length < 36 := by rw [hlen]; omega
  unfold decodeFull
  rw [if_neg h36]
  simp only [hbs, hb]
  have hcond1 : (decide (32 + (varPart r).length < 32) || decide ((encodeRec r ++ post).length < 4 + (32 + (varPart r).length))) = false := by
    rw [hlen]; simp; omega
  simp only [hcond1, Bool.false_eq_true, if_false, htake, hdrop, fixed_lname, fixed_ncig, fixed_lseq, c1, c3]
  have hcond2 : (decide (r.name.length + 1 = 0) || decide (4 + (32 + (varPart r).length) <
      36 + (r.name.length + 1) + 4 * r.cigar.length + (r.seq.length + 1) / 2 + r.seq.length)) = false := by
    simp; omega
  simp only [hcond2, Bool.false_eq_true, if_false, fixed_ref, fixed_pos, fixed_mapq, fixed_bin, fixed_flag, fixed_nref, fixed_npos,
    fixed_tlen, fromLE_toLE 4 _ (toU32_lt _), asI32_toU32 _ F.refI, asI32_toU32 _ F.posI, asI32_toU32 _ hnr, asI32_toU32 _ hnp,
    asI32_toU32 _ htl, c2, c4]
  have e1 : r.name.length + 1 - 1 = r.name.length := by omega
  have e2 : 4 + (32 + (varPart r).length) - (36 + (r.name.length + 1) + 4 * r.cigar.length + (r.seq.length + 1) / 2 + r.seq.length)
      = r.tags.length := by omega
  rw [e1, e2, var_name, var_cigar, var_seq, var_qual r [] F.qual, var_tags r F.qual, words_cigarWords _ F.cig, unpack_pack _ F.seq]
  have hcig : (r.cigar.map (fun p => p.2 * 16 + p.1)).map (fun w => (w % 16, w / 16)) = r.cigar := by
    rw [List.map_map]
    conv => rhs; rw [← List.map_id r.cigar]
    apply List.map_congr_left
    intro p hp
    have := F.cig p hp
    simp only [Function.comp, id]
    ext <;> simp <;> omega
  rw [hcig]

/-- unique parsing: an encoded record followed by anything determines the record and what follows -/
theorem encodeRec_prefix_free (nref : Nat) (r1 r2 : Rec) (h1 : specValid nref r1 = true) (h2 : specValid nref r2 = true)
    (p1 p2 : Bytes) (h : encodeRec r1 ++ p1 = encodeRec r2 ++ p2) : r1 = r2 ∧ p1 = p2 := by
  have a := decodeFull_encode nref r1 h1 p1
  rw [h, decodeFull_encode nref r2 h2 p2] at a
  simp only [Option.some.injEq, Prod.mk.injEq] at a
  exact ⟨a.1.symm, a.2.symm⟩

theorem encodeRec_injective (nref : Nat) (r1 r2 : Rec) (h1 : specValid nref r1 = true) (h2 : specValid nref r2 = true)
    (h : encodeRec r1 = encodeRec r2) : r1 = r2 :=
  (encodeRec_prefix_free nref r1 r2 h1 h2 [] [] (by rw [h])).1

/-- a whole record area parses back, with the complete decoder, to exactly the list of records that was encoded:
`encodeAll` is injective on lists of allowed records -/
theorem decodeFullAll_encode (nref : Nat) (recs : List Rec) (h : ∀ r ∈ recs, specValid nref r = true) :
    ∀ fuel, recs.length < fuel → decodeFullAll fuel (encodeAll recs) = some recs := by
  induction recs with
  | nil => intro fuel hf; obtain ⟨f, rfl⟩ : ∃ f, fuel = f + 1 := ⟨fuel - 1, by omega⟩; simp [decodeFullAll, encodeAll]
  | cons r rs ih =>
    intro fuel hf
    obtain ⟨f, rfl⟩ : ∃ f, fuel = f + 1 := ⟨fuel - 1, by omega⟩
    have hne : (encodeAll (r :: rs)).isEmpty = false := by
      simp [encodeAll_cons, encodeRec, fixedPart, toLE]
    simp only [decodeFullAll, hne, Bool.false_eq_true, if_false, encodeAll_cons, decodeFull_encode nref r (h r (by simp))]
    rw [ih (fun q hq => h q (by simp [hq])) f (by simp at hf; omega)]
    rfl

theorem encodeAll_injective (nref : Nat) (a b : List Rec) (ha : ∀ r ∈ a, specValid nref r = true)
    (hb : ∀ r ∈ b, specValid nref r = true) (h : encodeAll a = encodeAll b) : a = b := by
  have h1 := decodeFullAll_encode nref a ha (a.length + b.length + 1) (by omega)
  have h2 := decodeFullAll_encode nref b hb (a.length + b.length + 1) (by omega)
  rw [h, h2] at h1
  exact (Option.some.inj h1).symm

/-- **a chunk cut anywhere**: cutting the record area after ANY number of bytes, the decoder returns exactly the records
that are complete before the cut (the longest such prefix) and reports exactly their bytes as used; the partial record
after them is left for the next read -/
theorem decodeChunk_cut (names : List Bytes) (recs : List Rec) (hv : ∀ r ∈ recs, valid names.length r = true)
    (n : Nat) (hn : n ≤ (encodeAll recs).length) :
    ∃ done todo, recs = done ++ todo ∧ (encodeAll done).length ≤ n ∧
      (∀ r rs, todo = r :: rs → n < (encodeAll done).length + (encodeRec r).length) ∧
      decodeChunk false false names ((encodeAll recs).take n) = (done.map (view names), (encodeAll done).length) := by
  obtain ⟨d, t, hdt, hle, hcase⟩ := split_at recs n hn
  have hvd : ∀ r ∈ d, valid names.length r = true := fun r hr => hv r (by simp [hdt, hr])
  have hvt : ∀ r ∈ t, valid names.length r = true := fun r hr => hv r (by simp [hdt, hr])
  have hcut : (encodeAll recs).take n = encodeAll d ++ (encodeAll t).take (n - (encodeAll d).length) := by
    rw [hdt, encodeAll_append, List.take_append]
    congr 1
    apply List.take_of_length_le; omega
  have hstops : Stops ((encodeAll t).take (n - (encodeAll d).length)) := by
    rcases hcase with ⟨ht, _⟩ | ⟨q, qs, ht, hlt⟩
    · rw [ht]; simp [encodeAll, stops_nil]
    · rw [ht, encodeAll_cons]
      exact stops_prefix names.length q (hvt q (by simp [ht])) _ _ (by omega)
  refine ⟨d, t, hdt, hle, ?_, ?_⟩
  · intro r rs ht
    rcases hcase with ⟨ht', _⟩ | ⟨q, qs, ht', hlt⟩
    · rw [ht'] at ht; cases ht
    · rw [ht'] at ht; cases ht; exact hlt
  · rw [hcut]; exact decodeChunk_encode names d hvd _ hstops

/-! ### corollaries: chunk-size independence, idempotent write -/

/-- any two admissible chunk sizes deliver the same records (chunk boundaries may differ, the record stream does not) -/
theorem chunk_size_independent (names : List Bytes) (recs : List Rec) (hv : ∀ r ∈ recs, valid names.length r = true)
    (k1 k2 : Nat) (h1 : ∀ r ∈ recs, (encodeRec r).length ≤ k1) (h2 : ∀ r ∈ recs, (encodeRec r).length ≤ k2) :
    ((readAllChunks false false names k1 (encodeAll recs)).map (·.1)).flatten
      = ((readAllChunks false false names k2 (encodeAll recs)).map (·.1)).flatten := by
  rw [chunked names recs hv k1 h1, chunked names recs hv k2 h2]

theorem range_filterMap_getElem? {α} (l : List α) : (List.range l.length).filterMap (l[·]?) = l := by
  induction l with
  | nil => rfl
  | cons x xs ih =>
    rw [List.length_cons, List.range_succ_eq_map, List.filterMap_cons]
    have : ((fun i => (x :: xs)[i]?) ∘ Nat.succ) = (xs[·]?) := by funext i; simp
    simp only [List.getElem?_cons_zero, List.filterMap_map, this, ih]

/-- writing is idempotent: reading a written file and writing all of it again reproduces the same bytes -/
theorem write_idempotent (text : Bytes) (refs : List (Bytes × Nat)) (hh : validHeader text refs = true)
    (recs : List Rec) (hv : ∀ r ∈ recs, valid refs.length r = true) (members : List Bytes)
    (hm : gunzip members = encodeHeader text refs ++ encodeAll recs)
    (idx : List Nat) (hidx : ∀ i ∈ idx, i < recs.length) :
    writeFile (writeFile members idx) (List.range idx.length) = writeFile members idx := by
  have hw := (write_file text refs hh recs hv members hm idx hidx).1
  have hsel : ∀ r ∈ idx.filterMap (recs[·]?), valid refs.length r = true := by
    intro r hr
    simp only [List.mem_filterMap] at hr
    obtain ⟨i, _, hi⟩ := hr
    exact hv r (List.mem_of_getElem? hi)
  have hlen : (idx.filterMap (recs[·]?)).length = idx.length := by
    clear hw hsel
    induction idx with
    | nil => rfl
    | cons i is ih =>
      have hi := hidx i (by simp)
      simp only [List.filterMap_cons, List.getElem?_eq_getElem hi, List.length_cons]
      rw [ih (fun j hj => hidx j (by simp [hj]))]
  have h2 := (write_file text refs hh (idx.filterMap (recs[·]?)) hsel (writeFile members idx) (by rw [hw]; simp [gunzip])
    (List.range idx.length) (by intro i hi; simp at hi; omega)).1
  rw [h2, hw]
  have : (List.range idx.length).filterMap ((idx.filterMap (recs[·]?))[·]?) = idx.filterMap (recs[·]?) := by
    rw [← hlen]; exact range_filterMap_getElem? _
  rw [this]

/-! ### selection programs: any sequence of selections, writes and reads on one extractor -/

theorem length_le_encodeAll (recs : List Rec) : recs.length ≤ (encodeAll recs).length := by
  induction recs with
  | nil => simp
  | cons r rs ih => simp [encodeAll_cons, encodeRec_length]; omega

/-- the extractor represents the records `rs`: record `i` lies at `starts[i]` in the buffer and ends at `ends[i]` -/
inductive Rep (data : Bytes) : List Nat → List Nat → List Rec → Prop
  | nil : Rep data [] [] []
  | cons (s e : Nat) (r : Rec) (ss es : List Nat) (rs : List Rec) (post : Bytes) :
      data.drop s = encodeRec r ++ post → e = s + (encodeRec r).length → Rep data ss es rs →
      Rep data (s :: ss) (e :: es) (r :: rs)

theorem bounds_head (s : Nat) (rs : List Rec) : bounds s rs = s :: (bounds s rs).drop 1 := by
  cases rs <;> simp [bounds]

theorem rep_chunk (tail : Bytes) (recs : List Rec) : ∀ (pre : Bytes) (D : Bytes), D = pre ++ (encodeAll recs ++ tail) →
    Rep D (startsOf pre.length recs) ((bounds pre.length recs).drop 1) recs := by
  induction recs with
  | nil => intro pre D _; simp [startsOf, bounds]; exact Rep.nil
  | cons r rs ih =>
    intro pre D hD
    have h1 : D.drop pre.length = encodeRec r ++ (encodeAll rs ++ tail) := by
      rw [hD, List.drop_left' rfl]; simp [encodeAll_cons]
    have h2 : D = (pre ++ encodeRec r) ++ (encodeAll rs ++ tail) := by rw [hD]; simp [encodeAll_cons]
    have := ih (pre ++ encodeRec r) D h2
    simp only [List.length_append] at this
    simp only [startsOf, bounds, List.drop_succ_cons, List.drop_zero]
    rw [bounds_head]
    exact Rep.cons _ _ r _ _ rs _ h1 rfl this

theorem rep_get {data : Bytes} {ss es : List Nat} {rs : List Rec} (h : Rep data ss es rs) :
    ∀ i, i < rs.length → ∃ s e r post, ss[i]? = some s ∧ es[i]? = some e ∧ rs[i]? = some r ∧
      data.drop s = encodeRec r ++ post ∧ e = s + (encodeRec r).length := by
  induction h with
  | nil => intro i hi; simp at hi
  | cons s e r ss es rs post h1 h2 _ ih =>
    intro i hi
    cases i with
    | zero => exact ⟨s, e, r, post, rfl, rfl, rfl, h1, h2⟩
    | succ i =>
      obtain ⟨s', e', r', post', a, b, c, d, f⟩ := ih i (by simpa using hi)
      exact ⟨s', e', r', post', by simpa using a, by simpa using b, by simpa using c, d, f⟩

theorem rep_select {data : Bytes} {ss es : List Nat} {rs : List Rec} (h : Rep data ss es rs) (idx : List Nat)
    (hidx : ∀ i ∈ idx, i < rs.length) :
    Rep data (idx.filterMap (ss[·]?)) (idx.filterMap (es[·]?)) (idx.filterMap (rs[·]?)) := by
  induction idx with
  | nil => exact Rep.nil
  | cons i is ih =>
    obtain ⟨s, e, r, post, a, b, c, d, f⟩ := rep_get h i (hidx i (by simp))
    simp only [List.filterMap_cons, a, b, c]
    exact Rep.cons s e r _ _ _ post d f (ih (fun j hj => hidx j (by simp [hj])))

theorem rep_gather {data : Bytes} {ss es : List Nat} {rs : List Rec} (h : Rep data ss es rs) :
    (ss.zip es).map (fun p => p.2 - p.1) = rs.map (fun r => (encodeRec r).length) ∧
    (ss.zip ((ss.zip es).map (fun p => p.2 - p.1))).flatMap (fun p => slice data p.1 p.2) = encodeAll rs := by
  induction h with
  | nil => exact ⟨rfl, rfl⟩
  | cons s e r ss es rs post h1 h2 _ ih =>
    have hl : e - s = (encodeRec r).length := by omega
    have hs : slice data s (encodeRec r).length = encodeRec r := by
      unfold slice; rw [h1]; simp
    constructor
    · simp only [List.zip_cons_cons, List.map_cons, hl, ih.1]
    · simp only [List.zip_cons_cons, List.map_cons, List.flatMap_cons, hl, hs, encodeAll_cons, ih.2]

theorem offsets_startsOf (rs : List Rec) : ∀ s, offsets s (rs.map (fun r => (encodeRec r).length)) = startsOf s rs := by
  induction rs with
  | nil => intro s; rfl
  | cons r rs ih => intro s; simp [offsets, startsOf, ih]

theorem ends_bounds (rs : List Rec) : ∀ s, ((startsOf s rs).zip (rs.map (fun r => (encodeRec r).length))).map (fun p => p.1 + p.2)
    = (bounds s rs).drop 1 := by
  induction rs with
  | nil => intro s; simp [startsOf, bounds]
  | cons r rs ih =>
    intro s
    simp only [startsOf, List.map_cons, List.zip_cons_cons, bounds, List.drop_succ_cons, List.drop_zero, ih]
    conv => rhs; rw [bounds_head (s + (encodeRec r).length) rs]

theorem rep_records {data : Bytes} {ss es : List Nat} {rs : List Rec} (h : Rep data ss es rs) (names : List Bytes)
    (hv : ∀ r ∈ rs, valid names.length r = true) :
    ss.map (decodeAt false false names data) = rs.map (view names) := by
  induction h with
  | nil => rfl
  | cons s e r ss es rs post h1 _ _ ih =>
    simp only [List.map_cons]
    congr 1
    · unfold decodeAt
      rw [h1, decodeRel_encode names names.length r (hv r (by simp)) post]
      exact decoded_eq_view names r (hv r (by simp))
    · exact ih (fun q hq => hv q (by simp [hq]))

theorem filterMap_getElem?_length {α} (l : List α) (idx : List Nat) (h : ∀ i ∈ idx, i < l.length) :
    (idx.filterMap (l[·]?)).length = idx.length := by
  induction idx with
  | nil => rfl
  | cons i is ih =>
    have hi := h i (by simp)
    simp only [List.filterMap_cons, List.getElem?_eq_getElem hi, List.length_cons]
    rw [ih (fun j hj => h j (by simp [hj]))]

/-- extractor invariant: it represents `cur`, and when it is marked contiguous its buffer is exactly their encoding -/
def ExtInv (e : Ext) (cur : List Rec) : Prop :=
  Rep e.data e.starts e.ends cur ∧ (e.contig = true → e.data = encodeAll cur)

theorem compact_inv (e : Ext) (cur : List Rec) (h : ExtInv e cur) :
    ExtInv e.compact cur ∧ e.compact.data = encodeAll cur := by
  unfold Ext.compact
  by_cases hc : e.contig = true
  · rw [if_pos hc]; exact ⟨h, h.2 hc⟩
  · rw [if_neg hc]
    obtain ⟨hl, hg⟩ := rep_gather h.1
    rw [hl] at hg
    simp only [hl, hg, offsets_startsOf, ends_bounds]
    refine ⟨⟨?_, fun _ => rfl⟩, trivial⟩
    have := rep_chunk [] cur [] (encodeAll cur) (by simp)
    simpa using this

theorem runProg_spec (names : List Bytes) (prog : List PStep) : ∀ (e : Ext) (cur : List Rec), ExtInv e cur →
    (∀ r ∈ cur, valid names.length r = true) → progOK cur.length prog = true →
    runProg names e prog = specProg names cur prog := by
  induction prog with
  | nil => intro e cur _ _ _; rfl
  | cons st p ih =>
    intro e cur hinv hv hok
    cases st with
    | select idx =>
      simp only [progOK, Bool.and_eq_true, List.all_eq_true, decide_eq_true_eq] at hok
      simp only [runProg, specProg]
      apply ih
      · exact ⟨rep_select hinv.1 idx hok.1, by intro h; simp [Ext.getitem] at h⟩
      · intro r hr
        simp only [List.mem_filterMap] at hr
        obtain ⟨i, _, hi⟩ := hr
        exact hv r (List.mem_of_getElem? hi)
      · rw [filterMap_getElem?_length cur idx hok.1]; exact hok.2
    | write =>
      obtain ⟨hinv', hdata⟩ := compact_inv e cur hinv
      simp only [runProg, specProg, hdata]
      rw [ih e.compact cur hinv' hv (by simpa [progOK] using hok)]
    | fields =>
      simp only [runProg, specProg, Ext.records, rep_records hinv.1 names hv]
      rw [ih e cur hinv hv (by simpa [progOK] using hok)]

/-- **selection programs**: whatever sequence of selections (mask, index list, slice, reordering, repetition — also of an
already selected or already written table), writes and field reads is applied to the table read from a BAM file, every
write produces exactly the encoding of the records selected at that point, in their order, and every read their views -/
theorem selection_program (names : List Bytes) (recs : List Rec) (hv : ∀ r ∈ recs, valid names.length r = true)
    (prog : List PStep) (hok : progOK recs.length prog = true) :
    runProg names (Ext.ofChunk (addNewline (encodeAll recs))) prog = specProg names recs prog := by
  apply runProg_spec names prog _ recs _ hv hok
  obtain ⟨tail, ht, hc⟩ : ∃ tail, Stops tail ∧ addNewline (encodeAll recs) = encodeAll recs ++ tail := by
    unfold addNewline
    split
    · exact ⟨[], stops_nil, by simp⟩
    · exact ⟨[10], stops_newline, rfl⟩
  have hlen : recs.length + 2 ≤ (encodeAll recs ++ tail).length + 2 := by
    have := length_le_encodeAll recs
    simp; omega
  have hfs : findStarts (encodeAll recs ++ tail) = bounds 0 recs := by
    have := findStarts_chain names.length tail ht recs [] _ hv hlen
    simpa [findStarts] using this
  rw [hc]
  unfold Ext.ofChunk
  simp only [hfs, bounds_getLast, bounds_dropLast, Option.getD_some, Nat.zero_add]
  have htake : (encodeAll recs ++ tail).take (encodeAll recs).length = encodeAll recs := by simp
  rw [htake]
  refine ⟨?_, fun _ => rfl⟩
  have := rep_chunk [] recs [] (encodeAll recs) (by simp)
  simpa using this

/-! ### several tables alive at once -/

/-- table `i` represents the record list `cs[i]` (all of them valid) -/
def TInv (names : List Bytes) (ts : List Ext) (cs : List (List Rec)) : Prop :=
  ts.length = cs.length ∧ ∀ (i : Nat) (e : Ext) (c : List Rec), ts[i]? = some e → cs[i]? = some c → ExtInv e c ∧ ∀ r ∈ c, valid names.length r = true

theorem runTree_spec (names : List Bytes) (prog : List TStep) : ∀ (ts : List Ext) (cs : List (List Rec)), TInv names ts cs →
    treeOK (cs.map List.length) prog = true → runTree names ts prog = specTree names cs prog := by
  induction prog with
  | nil => intro ts cs _ _; rfl
  | cons st p ih =>
    intro ts cs hinv hok
    obtain ⟨hlen, hall⟩ := hinv
    cases st with
    | sel src idx =>
      simp only [treeOK, List.getElem?_map, Bool.and_eq_true] at hok
      cases hc : cs[src]? with
      | none => simp [hc] at hok
      | some c =>
        have hsrc : src < ts.length := by
          rw [hlen]
          rcases Nat.lt_or_ge src cs.length with h | h
          · exact h
          · rw [List.getElem?_eq_none h] at hc; cases hc
        obtain ⟨e, he⟩ : ∃ e, ts[src]? = some e := ⟨ts[src], List.getElem?_eq_getElem hsrc⟩
        obtain ⟨hE, hV⟩ := hall src e c he hc
        simp only [hc, Option.map_some, List.all_eq_true, decide_eq_true_eq] at hok
        simp only [runTree, specTree, he, hc]
        apply ih
        · refine ⟨by simp [hlen], ?_⟩
          intro i e' c' he' hc'
          by_cases hi : i < ts.length
          · rw [List.getElem?_append_left hi] at he'
            rw [List.getElem?_append_left (by rw [← hlen]; exact hi)] at hc'
            exact hall i e' c' he' hc'
          · have hi' : i = ts.length := by
              have : i < (ts ++ [e.getitem idx]).length := by
                rcases Nat.lt_or_ge i (ts ++ [e.getitem idx]).length with h | h
                · exact h
                · rw [List.getElem?_eq_none h] at he'; cases he'
              simp at this; omega
            subst hi'
            rw [List.getElem?_append_right (Nat.le_refl _)] at he'
            rw [List.getElem?_append_right (by rw [hlen]; exact Nat.le_refl _)] at hc'
            simp only [Nat.sub_self, List.getElem?_cons_zero, Option.some.injEq, hlen] at he' hc'
            subst he' hc'
            refine ⟨⟨rep_select hE.1 idx hok.1, by intro h; simp [Ext.getitem] at h⟩, ?_⟩
            intro r hr
            simp only [List.mem_filterMap] at hr
            obtain ⟨j, _, hj⟩ := hr
            exact hV r (List.mem_of_getElem? hj)
        · simp only [List.map_append, List.map_cons, List.map_nil, filterMap_getElem?_length c idx hok.1]
          exact hok.2
    | write i =>
      simp only [treeOK, List.length_map, Bool.and_eq_true, decide_eq_true_eq] at hok
      have hi : i < ts.length := by rw [hlen]; exact hok.1
      obtain ⟨e, he⟩ : ∃ e, ts[i]? = some e := ⟨ts[i], List.getElem?_eq_getElem hi⟩
      obtain ⟨c, hc⟩ : ∃ c, cs[i]? = some c := ⟨cs[i], List.getElem?_eq_getElem hok.1⟩
      obtain ⟨hE, hV⟩ := hall i e c he hc
      obtain ⟨hinv', hdata⟩ := compact_inv e c hE
      simp only [runTree, specTree, he, hc, hdata]
      congr 1
      apply ih _ cs _ hok.2
      refine ⟨by simp [hlen], ?_⟩
      intro j e' c' he' hc'
      by_cases hj : j = i
      · subst hj
        rw [List.getElem?_set_self hi] at he'
        rw [hc] at hc'
        cases he'; cases hc'
        exact ⟨hinv', hV⟩
      · rw [List.getElem?_set_ne (fun h => hj h.symm)] at he'
        exact hall j e' c' he' hc'
    | fields i =>
      simp only [treeOK, List.length_map, Bool.and_eq_true, decide_eq_true_eq] at hok
      have hi : i < ts.length := by rw [hlen]; exact hok.1
      obtain ⟨e, he⟩ : ∃ e, ts[i]? = some e := ⟨ts[i], List.getElem?_eq_getElem hi⟩
      obtain ⟨c, hc⟩ : ∃ c, cs[i]? = some c := ⟨cs[i], List.getElem?_eq_getElem hok.1⟩
      obtain ⟨hE, hV⟩ := hall i e c he hc
      simp only [runTree, specTree, he, hc, Ext.records, rep_records hE.1 names hV]
      congr 1
      exact ih ts cs ⟨hlen, hall⟩ hok.2

/-- **tables that share a parent**: selections keep the table they were taken from; whatever is selected from, written or
read — the parent after a child was written, a child after the parent was written, siblings in any order — every write is the
encoding of that table's records and every read their views. Writing one table never disturbs another. -/
theorem tree_program (names : List Bytes) (recs : List Rec) (hv : ∀ r ∈ recs, valid names.length r = true)
    (prog : List TStep) (hok : treeOK [recs.length] prog = true) :
    runTree names [Ext.ofChunk (addNewline (encodeAll recs))] prog = specTree names [recs] prog := by
  apply runTree_spec names prog _ [recs] _ (by simpa using hok)
  refine ⟨rfl, ?_⟩
  intro i e c he hc
  cases i with
  | zero =>
    simp only [List.getElem?_cons_zero, Option.some.injEq] at he hc
    subst he hc
    refine ⟨?_, hv⟩
    -- the table read from the file (as in `selection_program`)
    obtain ⟨tail, ht, hcq⟩ : ∃ tail, Stops tail ∧ addNewline (encodeAll recs) = encodeAll recs ++ tail := by
      unfold addNewline
      split
      · exact ⟨[], stops_nil, by simp⟩
      · exact ⟨[10], stops_newline, rfl⟩
    have hlen : recs.length + 2 ≤ (encodeAll recs ++ tail).length + 2 := by
      have := length_le_encodeAll recs
      simp; omega
    have hfs : findStarts (encodeAll recs ++ tail) = bounds 0 recs := by
      have := findStarts_chain names.length tail ht recs [] _ hv hlen
      simpa [findStarts] using this
    rw [hcq]
    unfold Ext.ofChunk
    simp only [hfs, bounds_getLast, bounds_dropLast, Option.getD_some, Nat.zero_add]
    have htake : (encodeAll recs ++ tail).take (encodeAll recs).length = encodeAll recs := by simp
    rw [htake]
    refine ⟨?_, fun _ => rfl⟩
    have := rep_chunk [] recs [] (encodeAll recs) (by simp)
    simpa using this
  | succ i => simp at he

/-! ### non-vacuity: the hypotheses are satisfiable by non-trivial values -/

def exNames : List Bytes := [[99, 104, 114, 49], [99, 104, 114, 88]]
/-- mapped, odd sequence length, three CIGAR ops, tags -/
def exR1 : Rec := { refID := 0, pos := 10, mapq := 30, bin := 4681, flag := 0, nextRef := -1, nextPos := -1, tlen := 0,
                    name := [114, 49], cigar := [(0, 5), (1, 2), (2, 3)], seq := [1, 2, 4, 8, 15, 1, 2],
                    qual := [1, 2, 3, 4, 5, 6, 7], tags := [1, 2, 3] }
/-- unmapped, even sequence length, no CIGAR -/
def exR2 : Rec := { refID := -1, pos := -1, mapq := 0, bin := 0, flag := 4, nextRef := -1, nextPos := -1, tlen := 0,
                    name := [117], cigar := [], seq := [1, 2], qual := [9, 9], tags := [] }
/-- reverse strand, all remaining ops -/
def exR3 : Rec := { refID := 1, pos := 99, mapq := 255, bin := 0, flag := 16, nextRef := 0, nextPos := 5, tlen := -7,
                    name := [120, 121, 122], cigar := [(4, 1), (7, 3), (8, 1), (3, 10), (5, 2), (6, 1)], seq := [],
                    qual := [], tags := [] }

example : ∀ r ∈ [exR1, exR2, exR3], valid exNames.length r = true := by decide
example : (encodeRec exR1).length = 65 ∧ (encodeRec exR2).length = 41 ∧ (encodeRec exR3).length = 64 := by decide
example : (readWhole false false exNames (encodeAll [exR1, exR2, exR3])).map (·.chrom) = [[99, 104, 114, 49], star, [99, 104, 114, 88]] := by
  decide +kernel
example : (readAllChunks false false exNames 65 (encodeAll [exR1, exR2, exR3])).map (·.1.length) = [1, 1, 1] := by decide +kernel
example : (recs : List Rec) → recs = [exR1, exR2, exR3] → ∀ i ∈ [2, 0, 0], i < recs.length := by
  intro recs h; subst h; decide
example : (intervalOf Gen.C16.consumes (view exNames exR3)).stop = 113 ∧ (intervalOf Gen.C16.consumes (view exNames exR3)).minus = true := by
  decide +kernel
example : star ∉ exNames := by decide

example : ∀ r ∈ [exR1, exR2, exR3], specValid exNames.length r = true := by decide
example : decodeFull (encodeRec exR1 ++ [7, 7]) = some (exR1, [7, 7]) := by decide +kernel
example : ∀ b ∈ encodeRec exR3, b < 256 := by decide +kernel
example : countEntries false false exNames 65 (encodeAll [exR1, exR2, exR3]) = 3 := by decide +kernel
example : validHeader [64, 72] [([99, 104, 114, 49], 1000), ([99, 104, 114, 88], 500)] = true := by decide
example : Stops [1, 0, 0] ∧ ¬ Stops [0, 0, 0, 0, 9] := by unfold Stops; decide

/-- after a selection has been compacted (`_make_contigous`, e.g. by writing it), the records sit at the NEW boundaries;
field offsets remembered from before the compaction (the shipped code lru-cached `_read_name_start`, `_cigar_start`, … per
extractor) point into the wrong bytes. Here: record 3 selected alone starts at 0 after compaction, its old start was 106.
Fixed in /repo by computing the offsets on every access; the model never caches (`decodeAt` takes the current start). -/
theorem staleOffsets_unsound :
    let compacted := selectBytes (addNewline (encodeAll [exR1, exR2, exR3])) [2]
    decodeAt false false exNames compacted 0 = view exNames exR3 ∧
    (decodeAt false false exNames compacted 106).name ≠ exR3.name := by decide +kernel

example : (decodeChunk false false exNames ((encodeAll [exR1, exR2, exR3]).take 120)).1.length = 2 := by decide +kernel
example : progOK 3 [.select [2, 0, 2], .write, .select [1, 2], .fields, .write] = true := by decide
example : runProg exNames (Ext.ofChunk (addNewline (encodeAll [exR1, exR2, exR3]))) [.select [2, 0, 2], .write, .select [1, 2], .fields, .write]
    = [.written (encodeAll [exR3, exR1, exR3]), .read [view exNames exR1, view exNames exR3], .written (encodeAll [exR1, exR3])] := by
  decide +kernel

example : treeOK [3] [.sel 0 [1, 2], .write 1, .fields 0, .sel 0 [0, 2], .write 2, .write 0] = true := by decide
example : runTree exNames [Ext.ofChunk (addNewline (encodeAll [exR1, exR2, exR3]))] [.sel 0 [1, 2], .write 1, .fields 0, .sel 0 [0, 2], .write 2]
    = [.written (encodeAll [exR2, exR3]), .read [view exNames exR1, view exNames exR2, view exNames exR3], .written (encodeAll [exR1, exR3])] := by
  decide +kernel

/-- the chunk-size bound of the property is needed: with a chunk size below the largest record the
reader (as modelled, and as the code behaves) delivers nothing -/
theorem chunk_bound_needed :
    ((readAllChunks false false exNames 64 (encodeAll [exR1, exR2, exR3])).map (·.1)).flatten = [] := by decide +kernel

/-! ### writer sessions: a refused (raising) call and an empty table leave nothing behind -/

theorem writer_foldl_out (hdr : Bytes) (calls : List (Option Bytes)) (w : Writer) (hw : w.headerWritten = true) :
    (calls.foldl (Writer.write hdr) w).out = w.out ++ (calls.filterMap id).flatten ∧
    (calls.foldl (Writer.write hdr) w).headerWritten = true := by
  induction calls generalizing w with
  | nil => simp [hw]
  | cons c cs ih =>
    cases c with
    | none =>
      have h1 : Writer.write hdr w none = w := by simp [Writer.write, hw]
      simp only [List.foldl_cons, h1]
      simpa using ih w hw
    | some b =>
      have h1 : Writer.write hdr w (some b) = { w with out := w.out ++ b } := by simp [Writer.write, hw]
      simp only [List.foldl_cons, h1]
      have := ih { w with out := w.out ++ b } hw
      simpa [List.append_assoc] using this

/-- ∀ non-empty sequences of calls on one writer — successful ones, refused ones (`none`), empty tables — the file holds the header
ONCE followed by the bytes of the successful calls in order: what a failed call leaves behind is only "the header is out" -/
theorem writer_session_bytes (hdr : Bytes) (calls : List (Option Bytes)) (hne : calls ≠ []) :
    writerSession hdr calls = [hdr ++ (calls.filterMap id).flatten, []] := by
  cases calls with
  | nil => exact absurd rfl hne
  | cons c cs =>
    cases c with
    | none =>
      have := (writer_foldl_out hdr cs { out := [] ++ hdr, headerWritten := true } rfl).1
      simpa [writerSession, Writer.write] using this
    | some b =>
      have := (writer_foldl_out hdr cs { out := [] ++ hdr ++ b, headerWritten := true } rfl).1
      simpa [writerSession, Writer.write, List.append_assoc] using this

theorem encodeAll_flatten (parts : List (List Rec)) : encodeAll parts.flatten = (parts.map encodeAll).flatten := by
  induction parts with
  | nil => rfl
  | cons p ps ih => simp [encodeAll_append, ih]

theorem filterMap_map_encodeAll (calls : List (Option (List Rec))) :
    (calls.map (·.map encodeAll)).filterMap id = (calls.filterMap id).map encodeAll := by
  induction calls with
  | nil => rfl
  | cons c cs ih => cases c <;> simp [ih]

/-- the file of a writer session decodes to the records of the calls that succeeded, in order (∀ valid header, ∀ valid records,
∀ non-empty sequences of calls, each either a list of records or a refusal) -/
theorem writer_session_file (text : Bytes) (refs : List (Bytes × Nat)) (hh : validHeader text refs = true)
    (calls : List (Option (List Rec))) (hne : calls ≠ [])
    (hv : ∀ rs ∈ calls.filterMap id, ∀ r ∈ rs, valid refs.length r = true) :
    readFile false false (writerSession (encodeHeader text refs) (calls.map (·.map encodeAll)))
      = some (refs, ((calls.filterMap id).flatten).map (view (refs.map Prod.fst))) := by
  have hne' : calls.map (·.map encodeAll) ≠ [] := by simpa using hne
  rw [writer_session_bytes _ _ hne']
  apply file_roundtrip text refs hh
  · intro r hr
    obtain ⟨rs, hrs, hr'⟩ := List.mem_flatten.mp hr
    exact hv rs hrs r hr'
  · have hfm := filterMap_map_encodeAll calls
    simp [gunzip, hfm, encodeAll_flatten]

example : writerSession [1, 2] [none, some [7], some [], none, some [8, 9]] = [[1, 2, 7, 8, 9], []] := by decide

/-- the hypotheses of `writer_session_file` are met by a session that starts with a refused call: [refused, [r1, r2], [], refused, [r3]] -/
example : ([none, some [exR1, exR2], some [], none, some [exR3]] : List (Option (List Rec))) ≠ [] ∧
    ∀ rs ∈ ([none, some [exR1, exR2], some [], none, some [exR3]] : List (Option (List Rec))).filterMap id,
      ∀ r ∈ rs, valid exNames.length r = true := by decide

end C16
