import BnpVerif.Model.C16
import BnpVerif.Gen.C16
/-! C16 property theorems. Helper lemmas first; the property theorems are the ones listed in
`Audit/C16.lean`. -/
namespace C16

/-! ### little-endian round trip -/

theorem toLE_length (w n : Nat) : (toLE w n).length = w := by
  induction w generalizing n with
  | zero => rfl
  | succ w ih => simp [toLE, ih]

theorem fromLE_toLE (w n : Nat) (h : n < 256 ^ w) : fromLE (toLE w n) = n := by
  induction w generalizing n with
  | zero => simp at h; subst h; rfl
  | succ w ih =>
    simp only [toLE, fromLE]
    have : n / 256 < 256 ^ w := by
      rw [Nat.div_lt_iff_lt_mul (by decide)]
      rw [Nat.pow_succ] at h; exact h
    rw [ih _ this]
    omega

theorem asI32_toU32 (i : Int) (h : inI32 i = true) : asI32 (toU32 i) = i := by
  simp only [inI32, Bool.and_eq_true, decide_eq_true_eq] at h
  unfold asI32 toU32
  split <;> omega

theorem toU32_lt (i : Int) : toU32 i < 256 ^ 4 := by
  unfold toU32
  have : (256 : Nat) ^ 4 = 4294967296 := by decide
  omega

/-! ### slices of concatenations -/

theorem slice_append_left (xs ys : Bytes) (a n : Nat) (h : a + n ≤ xs.length) :
    slice (xs ++ ys) a n = slice xs a n := by
  unfold slice
  rw [List.drop_append_of_le_length (by omega)]
  rw [List.take_append_of_le_length (by simp; omega)]

theorem slice_append_right (xs ys : Bytes) (a n : Nat) :
    slice (xs ++ ys) (xs.length + a) n = slice ys a n := by
  unfold slice
  have : List.drop (xs.length + a) (xs ++ ys) = List.drop a ys := by
    rw [List.drop_append, List.drop_eq_nil_of_le (by omega)]; simp
  rw [this]

theorem slice_zero_append (xs ys : Bytes) : slice (xs ++ ys) 0 xs.length = xs := by
  simp [slice]

theorem slice_prefix (xs ys : Bytes) (n : Nat) (h : n = xs.length) : slice (xs ++ ys) 0 n = xs := by
  subst h; exact slice_zero_append xs ys

/-! ### the fixed 36 bytes -/

theorem fixedPart_length (r : Rec) : (fixedPart r).length = 36 := by
  simp [fixedPart, toLE_length]

theorem fixed_block (r : Rec) (rest : Bytes) :
    slice (fixedPart r ++ rest) 0 4 = toLE 4 (32 + (varPart r).length) := by
  simp only [fixedPart, toLE, List.cons_append, List.nil_append]
  rfl

theorem fixed_ref (r : Rec) (rest : Bytes) : slice (fixedPart r ++ rest) 4 4 = toLE 4 (toU32 r.refID) := by
  simp only [fixedPart, toLE, List.cons_append, List.nil_append]
  rfl

theorem fixed_pos (r : Rec) (rest : Bytes) : slice (fixedPart r ++ rest) 8 4 = toLE 4 (toU32 r.pos) := by
  simp only [fixedPart, toLE, List.cons_append, List.nil_append]
  rfl

theorem fixed_lname (r : Rec) (rest : Bytes) : byteAt (fixedPart r ++ rest) 12 = r.name.length + 1 := by
  simp only [fixedPart, toLE, List.cons_append, List.nil_append]
  rfl

theorem fixed_mapq (r : Rec) (rest : Bytes) : byteAt (fixedPart r ++ rest) 13 = r.mapq := by
  simp only [fixedPart, toLE, List.cons_append, List.nil_append]
  rfl

theorem fixed_ncig (r : Rec) (rest : Bytes) : slice (fixedPart r ++ rest) 16 2 = toLE 2 r.cigar.length := by
  simp only [fixedPart, toLE, List.cons_append, List.nil_append]
  rfl

theorem fixed_flag (r : Rec) (rest : Bytes) : slice (fixedPart r ++ rest) 18 2 = toLE 2 r.flag := by
  simp only [fixedPart, toLE, List.cons_append, List.nil_append]
  rfl

theorem fixed_lseq (r : Rec) (rest : Bytes) : slice (fixedPart r ++ rest) 20 4 = toLE 4 r.seq.length := by
  simp only [fixedPart, toLE, List.cons_append, List.nil_append]
  rfl

/-! ### variable part: CIGAR words, nibbles -/

theorem slice_seg (A B C : Bytes) (a n : Nat) (ha : a = A.length) (hn : n = B.length) :
    slice (A ++ (B ++ C)) a n = B := by
  subst ha hn
  have := slice_append_right A (B ++ C) 0 B.length
  simp only [Nat.add_zero] at this
  rw [this]; exact slice_zero_append B C

theorem cigarWords_length (c : List (Nat × Nat)) : (cigarWords c).length = 4 * c.length := by
  induction c with
  | nil => rfl
  | cons p c ih => simp [cigarWords, toLE_length] at ih ⊢; omega

theorem words_append4 (x : Nat) (r : Bytes) : words (toLE 4 x ++ r) = fromLE (toLE 4 x) :: words r := by
  simp only [toLE, List.cons_append, List.nil_append, words]

theorem words_cigarWords (c : List (Nat × Nat)) (h : ∀ p ∈ c, p.1 < 16 ∧ p.2 < 268435456) :
    words (cigarWords c) = c.map (fun p => p.2 * 16 + p.1) := by
  induction c with
  | nil => rfl
  | cons p c ih =>
    have hp := h p (by simp)
    have : cigarWords (p :: c) = toLE 4 (p.2 * 16 + p.1) ++ cigarWords c := by simp [cigarWords]
    have h256 : (256:Nat)^4 = 4294967296 := by decide
    have hlt : p.2 * 16 + p.1 < 256 ^ 4 := by omega
    rw [this, words_append4, fromLE_toLE 4 _ hlt]
    rw [ih (fun q hq => h q (by simp [hq]))]
    simp

theorem and15 (x : Nat) : x &&& 15 = x % 16 := by
  have := Nat.and_two_pow_sub_one_eq_mod x 4
  simpa using this

theorem shr4 (x : Nat) : x >>> 4 = x / 16 := by
  rw [Nat.shiftRight_eq_div_pow]

theorem splitCigar_words (c : List (Nat × Nat)) (h : ∀ p ∈ c, p.1 < 16 ∧ p.2 < 268435456) :
    splitCigar (c.map (fun p => p.2 * 16 + p.1)) = (c.map (·.1), c.map (·.2)) := by
  unfold splitCigar
  simp only [List.map_map, Prod.mk.injEq]
  constructor
  · apply List.map_congr_left
    intro p hp
    have := h p hp
    simp only [Function.comp, and15]; omega
  · apply List.map_congr_left
    intro p hp
    have := h p hp
    simp only [Function.comp, shr4]; omega

theorem packNibbles_length (s : List Nat) : (packNibbles s).length = (s.length + 1) / 2 := by
  fun_induction packNibbles s with
  | case1 => rfl
  | case2 a => simp
  | case3 a b r ih => simp [ih]; omega

theorem unpack_pack (s : List Nat) (h : ∀ c ∈ s, c < 16) :
    (unpackNibbles (packNibbles s)).take s.length = s := by
  fun_induction packNibbles s with
  | case1 => rfl
  | case2 a =>
    have := h a (by simp)
    simp only [unpackNibbles, List.flatMap_cons, List.flatMap_nil, List.append_nil, List.length_cons, List.length_nil,
      Nat.zero_add, List.take_succ_cons, List.take_zero, and15, shr4, List.cons.injEq, and_true]
    omega
  | case3 a b r ih =>
    have ha := h a (by simp)
    have hb := h b (by simp)
    have ih' := ih (fun c hc => h c (by simp [hc]))
    simp only [unpackNibbles, List.flatMap_cons, List.length_cons, List.cons_append, List.nil_append, List.take_succ_cons,
      and15, shr4, Nat.shiftRight_zero, List.cons.injEq] at ih' ⊢
    refine ⟨by omega, by omega, ?_⟩
    exact ih'

/-! ### one record -/

/-- the facts `valid` packs -/
structure ValidFacts (nref : Nat) (r : Rec) : Prop where
  ref_lo : -1 ≤ r.refID
  ref_hi : r.refID < (nref : Int)
  refI : inI32 r.refID = true
  posI : inI32 r.pos = true
  flag : r.flag < 65536
  name_pos : 1 ≤ r.name.length
  name_le : r.name.length ≤ 254
  ncig : r.cigar.length < 65536
  cig : ∀ p ∈ r.cigar, p.1 < 16 ∧ p.2 < 268435456
  lseq : r.seq.length < 2147483648
  seq : ∀ c ∈ r.seq, c < 16
  qual : r.qual.length = r.seq.length
  block : 32 + (varPart r).length < 4294967296

theorem valid_facts (nref : Nat) (r : Rec) (hv : valid nref r = true) : ValidFacts nref r := by
  simp only [valid, Bool.and_eq_true, decide_eq_true_eq, List.all_eq_true] at hv
  obtain ⟨⟨⟨⟨⟨⟨⟨⟨⟨⟨⟨⟨⟨⟨⟨⟨⟨⟨⟨⟨hr1, hr2⟩, hrI⟩, hpI⟩, hmq⟩, hbin⟩, hfl⟩, hnr⟩, hnp⟩, htl⟩, hn1⟩, hn2⟩, hnm⟩, hcl⟩, hca⟩, hsl⟩, hsa⟩, hql⟩, hqa⟩, hta⟩, hbs⟩ := hv
  exact { ref_lo := hr1, ref_hi := hr2, refI := hrI, posI := hpI, flag := hfl, name_pos := hn1, name_le := hn2,
          ncig := hcl, cig := fun p hp => by simpa using hca p hp, lseq := hsl,
          seq := fun c hc => by simpa using hsa c hc, qual := hql, block := hbs }

/-- decoding the bytes of one encoded record (followed by anything) gives back its fields -/
theorem decodeRel_encode (names : List Bytes) (nref : Nat) (r : Rec) (hv : valid nref r = true) (post : Bytes) :
    decodeRel false false names (encodeRec r ++ post) =
      { chrom := chromNew names r.refID, name := r.name, flag := r.flag, pos := r.pos, mapq := r.mapq,
        cigOp := r.cigar.map (·.1), cigLen := r.cigar.map (·.2), seq := r.seq, qual := r.qual } := by
  have F := valid_facts nref r hv
  have he : encodeRec r ++ post = fixedPart r ++ (varPart r ++ post) := by simp [encodeRec]
  have h16 : (256 : Nat) ^ 2 = 65536 := by decide
  have h32 : (256 : Nat) ^ 4 = 4294967296 := by decide
  have hname : slice (fixedPart r ++ (varPart r ++ post)) 36 r.name.length = r.name := by
    have : fixedPart r ++ (varPart r ++ post) = fixedPart r ++ (r.name ++ ([0] ++ (cigarWords r.cigar ++ (packNibbles r.seq ++ (r.qual ++ r.tags))) ++ post)) := by
      simp [varPart]
    rw [this]; exact slice_seg _ _ _ _ _ (by simp [fixedPart_length]) rfl
  have hcig : slice (fixedPart r ++ (varPart r ++ post)) (36 + (r.name.length + 1)) (r.cigar.length * 4) = cigarWords r.cigar := by
    have : fixedPart r ++ (varPart r ++ post) = (fixedPart r ++ (r.name ++ [0])) ++ (cigarWords r.cigar ++ ((packNibbles r.seq ++ (r.qual ++ r.tags)) ++ post)) := by
      simp [varPart]
    rw [this]; exact slice_seg _ _ _ _ _ (by simp [fixedPart_length]) (by rw [cigarWords_length]; omega)
  have hseq : slice (fixedPart r ++ (varPart r ++ post)) (36 + (r.name.length + 1) + r.cigar.length * 4) ((r.seq.length + 1) / 2) = packNibbles r.seq := by
    have : fixedPart r ++ (varPart r ++ post) = (fixedPart r ++ (r.name ++ ([0] ++ cigarWords r.cigar))) ++ (packNibbles r.seq ++ ((r.qual ++ r.tags) ++ post)) := by
      simp [varPart]
    rw [this]; exact slice_seg _ _ _ _ _ (by simp [fixedPart_length, cigarWords_length]; omega) (by rw [packNibbles_length])
  have hqual : slice (fixedPart r ++ (varPart r ++ post)) (36 + (r.name.length + 1) + r.cigar.length * 4 + (r.seq.length + 1) / 2) r.seq.length = r.qual := by
    have : fixedPart r ++ (varPart r ++ post) = (fixedPart r ++ (r.name ++ ([0] ++ (cigarWords r.cigar ++ packNibbles r.seq)))) ++ (r.qual ++ (r.tags ++ post)) := by
      simp [varPart]
    rw [this]; exact slice_seg _ _ _ _ _ (by simp [fixedPart_length, cigarWords_length, packNibbles_length]; omega) F.qual.symm
  have hls : (asI32 (r.seq.length : Nat)).toNat = r.seq.length := by
    unfold asI32; have := F.lseq; split <;> omega
  have c1 : fromLE (toLE 2 r.cigar.length) = r.cigar.length := fromLE_toLE 2 _ (by have := F.ncig; omega)
  have c2 : fromLE (toLE 2 r.flag) = r.flag := fromLE_toLE 2 _ (by have := F.flag; omega)
  have c3 : fromLE (toLE 4 r.seq.length) = r.seq.length := fromLE_toLE 4 _ (by have := F.lseq; omega)
  rw [he]
  simp only [decodeRel, fixed_ref, fixed_pos, fixed_lname, fixed_mapq, fixed_ncig, fixed_flag, fixed_lseq,
    fromLE_toLE 4 _ (toU32_lt _), asI32_toU32 _ F.refI, asI32_toU32 _ F.posI,
    c1, c2, c3, hls, cigarBytes, chromOf, Bool.false_eq_true, if_false]
  have e1 : 36 + (r.name.length + 1) - 1 - 36 = r.name.length := by omega
  have e2 : 36 + (r.name.length + 1) + r.cigar.length * 4 - (36 + (r.name.length + 1)) = r.cigar.length * 4 := by omega
  have e3 : 36 + (r.name.length + 1) + r.cigar.length * 4 + (r.seq.length + 1) / 2 - (36 + (r.name.length + 1) + r.cigar.length * 4) = (r.seq.length + 1) / 2 := by omega
  rw [e1, e2, e3, hname, hcig, hseq, hqual, words_cigarWords _ F.cig, splitCigar_words _ F.cig, unpack_pack _ F.seq]

/-! ### record boundaries: `_find_starts` on a concatenation of encoded records -/

/-- the record boundaries the specification defines: running sums of record sizes -/
def bounds (s : Nat) : List Rec → List Nat
  | [] => [s]
  | r :: rs => s :: bounds (s + (encodeRec r).length) rs

def startsOf (s : Nat) : List Rec → List Nat
  | [] => []
  | r :: rs => s :: startsOf (s + (encodeRec r).length) rs

/-- trailing bytes at which the chain stops: shorter than the block they announce
(an incomplete record, nothing, or the newline the reader appends) -/
def Stops (tail : Bytes) : Prop := tail.length < fromLE (slice tail 0 4) + 4

theorem encodeRec_length (r : Rec) : (encodeRec r).length = 36 + (varPart r).length := by
  simp [encodeRec, fixedPart_length]

theorem encodeAll_cons (r : Rec) (rs : List Rec) : encodeAll (r :: rs) = encodeRec r ++ encodeAll rs := by
  simp [encodeAll]

theorem encodeAll_append (a b : List Rec) : encodeAll (a ++ b) = encodeAll a ++ encodeAll b := by
  simp [encodeAll]

theorem findStarts_chain (nref : Nat) (tail : Bytes) (ht : Stops tail) (recs : List Rec) :
    ∀ (pre : Bytes) (fuel : Nat), (∀ r ∈ recs, valid nref r = true) → recs.length + 2 ≤ fuel →
      findStartsAux (pre ++ (encodeAll recs ++ tail)) fuel pre.length = bounds pre.length recs := by
  induction recs with
  | nil =>
    intro pre fuel _ hf
    obtain ⟨f, rfl⟩ : ∃ f, fuel = f + 2 := ⟨fuel - 2, by simp at hf; omega⟩
    have hs : slice (pre ++ ([] ++ tail)) pre.length 4 = slice tail 0 4 := by
      have := slice_append_right pre tail 0 4
      simpa using this
    unfold Stops at ht
    simp only [encodeAll, List.flatMap_nil, findStartsAux, bounds, hs]
    simp only [List.nil_append, List.length_append]
    rw [if_pos (by omega), if_neg (by omega)]
  | cons r rs ih =>
    intro pre fuel hv hf
    obtain ⟨f, rfl⟩ : ∃ f, fuel = f + 1 := ⟨fuel - 1, by simp at hf; omega⟩
    have F := valid_facts nref r (hv r (by simp))
    have hd : pre ++ (encodeAll (r :: rs) ++ tail) = pre ++ (fixedPart r ++ (varPart r ++ (encodeAll rs ++ tail))) := by
      simp [encodeAll_cons, encodeRec]
    have hs : slice (pre ++ (fixedPart r ++ (varPart r ++ (encodeAll rs ++ tail)))) pre.length 4
        = toLE 4 (32 + (varPart r).length) := by
      have := slice_append_right pre (fixedPart r ++ (varPart r ++ (encodeAll rs ++ tail))) 0 4
      simp only [Nat.add_zero] at this
      rw [this, fixed_block]
    have h32 : (256 : Nat) ^ 4 = 4294967296 := by decide
    have hb : fromLE (toLE 4 (32 + (varPart r).length)) = 32 + (varPart r).length :=
      fromLE_toLE 4 _ (by have := F.block; omega)
    have hnext : pre.length + (32 + (varPart r).length) + 4 = (pre ++ encodeRec r).length := by
      simp [encodeRec_length]; omega
    have hd2 : pre ++ (fixedPart r ++ (varPart r ++ (encodeAll rs ++ tail))) = (pre ++ encodeRec r) ++ (encodeAll rs ++ tail) := by
      simp [encodeRec]
    rw [hd]
    simp only [findStartsAux, bounds]
    rw [if_pos (by simp), hs, hb, hnext, hd2, ih (pre ++ encodeRec r) f (fun q hq => hv q (by simp [hq])) (by simp at hf ⊢; omega)]
    simp

theorem bounds_getLast (recs : List Rec) : ∀ s, (bounds s recs).getLast? = some (s + (encodeAll recs).length) := by
  induction recs with
  | nil => intro s; simp [bounds, encodeAll]
  | cons r rs ih =>
    intro s
    have : bounds s (r :: rs) = s :: bounds (s + (encodeRec r).length) rs := rfl
    rw [this, List.getLast?_cons]
    rw [ih]
    simp [encodeAll_cons]; omega

theorem bounds_dropLast (recs : List Rec) : ∀ s, (bounds s recs).dropLast = startsOf s recs := by
  induction recs with
  | nil => intro s; simp [bounds, startsOf]
  | cons r rs ih =>
    intro s
    have hne : bounds (s + (encodeRec r).length) rs ≠ [] := by
      cases rs <;> simp [bounds]
    simp only [bounds, startsOf]
    rw [List.dropLast_cons_of_ne_nil hne, ih]

/-- the decoded value of one record under the repaired reference rule -/
def decoded (names : List Bytes) (r : Rec) : DRec :=
  { chrom := chromNew names r.refID, name := r.name, flag := r.flag, pos := r.pos, mapq := r.mapq,
    cigOp := r.cigar.map (·.1), cigLen := r.cigar.map (·.2), seq := r.seq, qual := r.qual }

theorem map_decodeAt (names : List Bytes) (nref : Nat) (recs : List Rec) :
    ∀ (pre : Bytes), (∀ r ∈ recs, valid nref r = true) →
      (startsOf pre.length recs).map (decodeAt false false names (pre ++ encodeAll recs)) = recs.map (decoded names) := by
  induction recs with
  | nil => intro pre _; rfl
  | cons r rs ih =>
    intro pre hv
    simp only [startsOf, List.map_cons]
    congr 1
    · unfold decodeAt
      rw [List.drop_left' rfl, encodeAll_cons]
      exact decodeRel_encode names nref r (hv r (by simp)) _
    · have h1 : pre.length + (encodeRec r).length = (pre ++ encodeRec r).length := by simp
      have h2 : pre ++ encodeAll (r :: rs) = (pre ++ encodeRec r) ++ encodeAll rs := by simp [encodeAll_cons]
      rw [h1, h2]
      exact ih _ (fun q hq => hv q (by simp [hq]))

theorem chromNew_spec (names : List Bytes) (ref : Int) (h1 : -1 ≤ ref) (h2 : ref < (names.length : Int)) :
    chromNew names ref = (specChrom names ref).getD star := by
  unfold chromNew specChrom
  by_cases h : ref < 0
  · simp [h]
  · simp only [h, if_false]
    have hlt : ref.toNat < names.length := by omega
    rw [List.getElem?_append_left hlt]
    simp [hlt]

theorem decoded_eq_view (names : List Bytes) (r : Rec) (hv : valid names.length r = true) :
    decoded names r = view names r := by
  have F := valid_facts _ r hv
  unfold decoded view
  rw [chromNew_spec names r.refID F.ref_lo F.ref_hi]

/-- all complete records of a chunk and the number of bytes they occupy -/
theorem decodeChunk_encode (names : List Bytes) (recs : List Rec) (hv : ∀ r ∈ recs, valid names.length r = true)
    (tail : Bytes) (ht : Stops tail) :
    decodeChunk false false names (encodeAll recs ++ tail) = (recs.map (view names), (encodeAll recs).length) := by
  have hlen : recs.length + 2 ≤ (encodeAll recs ++ tail).length + 2 := by
    have : recs.length ≤ (encodeAll recs).length := by
      clear hv
      induction recs with
      | nil => simp
      | cons r rs ih => simp [encodeAll_cons, encodeRec_length]; omega
    simp; omega
  have hfs : findStarts (encodeAll recs ++ tail) = bounds 0 recs := by
    have := findStarts_chain names.length tail ht recs [] _ hv hlen
    simpa [findStarts] using this
  unfold decodeChunk
  simp only [hfs, bounds_getLast, bounds_dropLast, Option.getD_some, Nat.zero_add]
  have htake : (encodeAll recs ++ tail).take (encodeAll recs).length = encodeAll recs := by simp
  rw [htake]
  have := map_decodeAt names names.length recs [] hv
  simp only [List.length_nil, List.nil_append] at this
  rw [this]
  congr 1
  apply List.map_congr_left
  intro r hr
  exact decoded_eq_view names r (hv r hr)

theorem stops_nil : Stops [] := by simp [Stops, slice]
theorem stops_newline : Stops [10] := by simp [Stops, slice, fromLE]

/-- **C16 decode clause**: for EVERY list of valid records (any names, CIGARs, odd and even
sequence lengths, tags), reading the whole file decodes exactly the records that were encoded. -/
theorem decode_encode (names : List Bytes) (recs : List Rec) (hv : ∀ r ∈ recs, valid names.length r = true) :
    readWhole false false names (encodeAll recs) = recs.map (view names) := by
  unfold readWhole
  cases recs with
  | nil => simp [encodeAll]
  | cons r rs =>
    have hne : (encodeAll (r :: rs)).isEmpty = false := by
      simp [encodeAll_cons, encodeRec, fixedPart, toLE]
    rw [hne]
    simp only [Bool.false_eq_true, if_false, addNewline]
    split
    · have := decodeChunk_encode names (r :: rs) hv [] stops_nil
      simp only [List.append_nil] at this
      rw [this]
    · rw [decodeChunk_encode names (r :: rs) hv [10] stops_newline]

end C16
