import BnpVerif.Model.C13
import BnpVerif.Lemmas.C13Packed
/-! C13 property theorems. Helper lemmas first; the property theorems are the ones listed in
`Audit/C13.lean`. (`Lemmas/C13Packed.lean` holds the positional `hashLE` lemmas and the packed-path proof.) -/
namespace C13
variable {α β : Type}

/-! ### the shared mechanism -/

theorem windows_length (w : Nat) (f : List α → β) (xs : List α) : (windows w f xs).length = xs.length + 1 - w := by
  simp [windows]

theorem windows_append_take (w : Nat) (hw : 1 ≤ w) (f : List α → β) (r rest : List α) :
    (windows w f (r ++ rest)).take (r.length - (w - 1)) = windows w f r := by
  apply List.ext_getElem
  · simp [windows]; omega
  · intro i h1 h2
    simp [windows] at h1 h2 ⊢
    have : i + w ≤ r.length := by omega
    rw [List.drop_append_of_le_length (by omega)]
    rw [List.take_append_of_le_length (by simp; omega)]

theorem windows_append_drop (w : Nat) (f : List α → β) (r rest : List α) :
    (windows w f (r ++ rest)).drop r.length = windows w f rest := by
  apply List.ext_getElem
  · simp [windows]; omega
  · intro i h1 h2
    simp [windows] at h1 h2 ⊢

/-- the core induction: whatever trails the valid flat windows, re-wrapping with the declared
row lengths and keeping `len - (w-1)` entries per row gives exactly the per-row windows -/
theorem rewrapSlice_windows (w : Nat) (hw : 1 ≤ w) (e : Option Int) (he : ∀ l, endLen l e = l - (w - 1))
    (f : List α → β) (rows : List (List α)) (extra : List β) :
    rewrapSlice e (rows.map List.length) (windows w f rows.flatten ++ extra) = rows.map (windows w f) := by
  induction rows generalizing extra with
  | nil => simp [rewrapSlice]
  | cons r rs ih =>
    simp only [List.map_cons, List.flatten_cons, rewrapSlice, he]
    congr 1
    · rw [List.take_append_of_le_length (by rw [windows_length]; simp; omega)]
      exact windows_append_take w hw f r _
    · rw [List.drop_append, windows_append_drop]
      exact ih _

theorem endLen_trimNew (w : Nat) (hw : 1 ≤ w) (l : Nat) : endLen l (trimNew w) = l - (w - 1) := by
  unfold trimNew
  split
  · rename_i h
    have : w = 1 := by omega
    subst this; simp [endLen]
  · rename_i h
    simp only [endLen]
    have : (-(w : Int) + 1) < 0 := by omega
    simp only [this, if_true]
    omega

/-- **C13.rolling_rowlocal** — for every ragged `rows`, every window `w ≥ 1`, every window function
`f` and whatever trails the valid flat windows: the code's flatten → convolve → re-wrap → trim
returns for each row exactly the values defined on that row alone (one per window inside it, none
for a row shorter than `w`, no window spanning two rows). -/
theorem rolling_rowlocal_extra (w : Nat) (hw : 1 ≤ w) (f : List α → β) (extra : List β) (rows : List (List α)) :
    rollingWith trimNew w f extra rows = spec w f rows :=
  rewrapSlice_windows w hw _ (endLen_trimNew w hw) f rows extra

theorem rolling_rowlocal (w : Nat) (hw : 1 ≤ w) (f : List α → β) (rows : List (List α)) :
    rolling w f rows = spec w f rows := rolling_rowlocal_extra w hw f [] rows

/-- the shipped slice `[..., :(-w+1)]` agrees for `w ≥ 2` … -/
theorem rollingOld_rowlocal_partial (w : Nat) (hw : 2 ≤ w) (f : List α → β) (rows : List (List α)) :
    rollingOld w f rows = spec w f rows := by
  -- gap: `w = 1` excluded (see `rollingOld_w1_empty`)
  refine rewrapSlice_windows w (by omega) _ (fun l => ?_) f rows []
  simp only [trimOld, endLen]
  have : (-(w : Int) + 1) < 0 := by omega
  simp only [this, if_true]
  omega

/-- … and returns EVERY row empty for `w = 1` (`[..., :0]`), whatever the input: recorded refutation -/
theorem rollingOld_w1_empty (f : List α → β) (rows : List (List α)) :
    rollingOld 1 f rows = rows.map (fun _ => []) := by
  unfold rollingOld rollingWith
  generalize windows 1 f rows.flatten ++ [] = c
  induction rows generalizing c with
  | nil => simp [rewrapSlice]
  | cons r rs ih =>
    simp only [List.map_cons, rewrapSlice]
    rw [ih]
    simp [trimOld, endLen]

theorem rollingOld_w1_unsound :
    rollingOld 1 (fun (w : List Nat) => w) [[7], [8, 9]] = [[], []] ∧
    spec 1 (fun (w : List Nat) => w) [[7], [8, 9]] = [[[7]], [[8], [9]]] := by decide

/-- each row yields `len + 1 - w` values (none when shorter than the window) -/
theorem rolling_lengths (w : Nat) (hw : 1 ≤ w) (f : List α → β) (rows : List (List α)) :
    (rolling w f rows).map List.length = rows.map (fun r => r.length + 1 - w) := by
  rw [rolling_rowlocal w hw]; simp [spec, windows_length]

/-- every returned value is `f` of `w` consecutive letters of ITS OWN row -/
theorem rolling_mem_row (w : Nat) (hw : 1 ≤ w) (f : List α → β) (rows : List (List α)) (i j : Nat)
    (hi : i < rows.length) (hj : j + w ≤ rows[i].length) :
    ((rolling w f rows)[i]?.bind (·[j]?)) = some (f ((rows[i].drop j).take w)) := by
  rw [rolling_rowlocal w hw]
  simp only [spec, List.getElem?_map, List.getElem?_eq_getElem hi, Option.map_some, Option.bind_some, windows]
  rw [List.getElem?_range (by omega)]
  rfl

/-! ### the specification pinned by standard list notions; chunk / order independence -/

/-- a sequence has no window iff it is shorter than the window -/
theorem windows_eq_nil_iff (w : Nat) (hw : 1 ≤ w) (f : List α → β) (xs : List α) :
    windows w f xs = [] ↔ xs.length < w := by
  rw [← List.length_eq_zero_iff, windows_length]; omega

/-- window 1 is the element-wise map -/
theorem windows_one (f : List α → β) (xs : List α) : windows 1 f xs = xs.map (fun x => f [x]) := by
  apply List.ext_getElem
  · simp [windows]
  · intro i h1 h2
    simp only [windows, List.getElem_map, List.getElem_range]
    have hi : i < xs.length := by simpa using h2
    congr 1
    rw [List.take_one, List.head?_drop, List.getElem?_eq_getElem hi]
    rfl

/-- the window at position `i` is `f` of letters `i .. i+w-1` -/
theorem windows_getElem? (w : Nat) (f : List α → β) (xs : List α) (i : Nat) (hi : i + w ≤ xs.length) :
    (windows w f xs)[i]? = some (f ((xs.drop i).take w)) := by
  unfold windows
  rw [List.getElem?_map, List.getElem?_range (by omega)]
  rfl

/-- **C13.rolling_chunks** — the result for a collection split anywhere between two rows is the
concatenation of the results of the parts (no value depends on a neighbouring row or chunk) -/
theorem rolling_chunks (w : Nat) (hw : 1 ≤ w) (f : List α → β) (rows1 rows2 : List (List α)) :
    rolling w f (rows1 ++ rows2) = rolling w f rows1 ++ rolling w f rows2 := by
  simp [rolling_rowlocal w hw, spec]

/-- **C13.rolling_order** — re-ordering (here: reversing) the rows re-orders the results and changes nothing else -/
theorem rolling_order (w : Nat) (hw : 1 ≤ w) (f : List α → β) (rows : List (List α)) :
    rolling w f rows.reverse = (rolling w f rows).reverse := by
  simp [rolling_rowlocal w hw, spec, List.map_reverse]

/-! ### `mode="same"` -/

/-- how many leading entries `row[s:] = 0` leaves untouched -/
def keepLen (l : Nat) : Option Int → Nat
  | none => l
  | some s => startIdx l s

theorem zeroFrom_eq (zero : β) (s : Option Int) (row : List β) :
    zeroFrom zero s row = row.take (keepLen row.length s) ++ List.replicate (row.length - keepLen row.length s) zero := by
  cases s with
  | none => simp [zeroFrom, keepLen]
  | some s => rfl

theorem rewrapFull_same (w : Nat) (hw : 1 ≤ w) (s : Option Int) (hs : ∀ l, keepLen l s = l - (w - 1))
    (f : List α → β) (zero : β) (rows : List (List α)) (extra : List β)
    (hlen : (windows w f rows.flatten ++ extra).length = rows.flatten.length) :
    (rewrapFull (rows.map List.length) (windows w f rows.flatten ++ extra)).map (zeroFrom zero s) =
      specSame w f zero rows := by
  induction rows generalizing extra with
  | nil => simp [rewrapFull, specSame]
  | cons r rs ih =>
    simp only [List.flatten_cons, List.length_append] at hlen
    simp only [List.map_cons, List.flatten_cons, rewrapFull, specSame]
    have hwl := windows_length w f (r ++ rs.flatten)
    simp only [List.length_append] at hwl
    congr 1
    · rw [zeroFrom_eq, hs]
      have hrow : ((windows w f (r ++ rs.flatten) ++ extra).take r.length).length = r.length := by
        rw [List.length_take, List.length_append]; omega
      rw [hrow, List.take_take, Nat.min_eq_left (by omega),
        List.take_append_of_le_length (by rw [hwl]; omega), windows_append_take w hw]
      congr 2
      omega
    · rw [List.drop_append, windows_append_drop]
      apply ih
      rw [List.length_append, List.length_drop, windows_length]
      rw [windows_length] at hlen
      simp only [List.length_append] at hlen
      omega

theorem keepLen_sameStartNew (w : Nat) (hw : 1 ≤ w) (l : Nat) : keepLen l (sameStartNew w) = l - (w - 1) := by
  unfold sameStartNew
  split
  · have : w = 1 := by omega
    subst this; simp [keepLen]
  · simp only [keepLen, startIdx]
    have : (-(w : Int) + 1) < 0 := by omega
    simp only [this, if_true]
    omega

/-- **C13.rolling_same** — `rolling_window(..., mode="same")`: for every ragged input, every `w ≥ 1`,
every window function and WHATEVER the function returns on the `w-1` trailing windows that run past
the buffer, every row comes back with its own length: the values of the windows that fit inside
the row, then zeros. -/
theorem rolling_same (w : Nat) (hw : 1 ≤ w) (f : List α → β) (zero : β) (tail : List β) (rows : List (List α))
    (htail : (windows w f rows.flatten ++ tail).length = rows.flatten.length) :
    rollingSame w f zero tail rows = specSame w f zero rows :=
  rewrapFull_same w hw _ (keepLen_sameStartNew w hw) f zero rows tail htail

/-- the shipped `out[..., (-w+1):] = 0` zeroes EVERYTHING for `w = 1`: recorded refutation -/
theorem rollingSameOld_w1_unsound :
    rollingSameOld 1 (fun (win : List Nat) => win == [2]) false [] [[1, 1, 2, 1], [2, 2]] =
      [[false, false, false, false], [false, false]] ∧
    specSame 1 (fun (win : List Nat) => win == [2]) false [[1, 1, 2, 1], [2, 2]] =
      [[false, false, true, false], [true, true]] := by decide

/-! ### regular-expression matchers -/

theorem any_congr_mem {γ : Type} (l : List γ) (p q : γ → Bool) (h : ∀ a ∈ l, p a = q a) : l.any p = l.any q := by
  induction l with
  | nil => rfl
  | cons x xs ih => simp only [List.any_cons, h x (by simp), ih (fun a ha => h a (by simp [ha]))]

theorem maskedMatch_nil (win : List Nat) : maskedMatch [] win = (win.length == 0) := by
  cases win <;> simp [maskedMatch]

theorem maskedMatch_cons_nil (a : Option Nat) (alt : List (Option Nat)) : maskedMatch (a :: alt) [] = false := by
  simp [maskedMatch]

theorem maskedMatch_cons (a : Option Nat) (alt : List (Option Nat)) (c : Nat) (ws : List Nat) :
    maskedMatch (a :: alt) (c :: ws) = ((a.isNone || a == some c) && maskedMatch alt ws) := by
  simp only [maskedMatch, List.length_cons, List.zipWith_cons_cons, List.all_cons, id]
  cases (a.isNone || a == some c) <;> cases h : (ws.length == alt.length) <;> simp_all

theorem matchFixed_cons (e : Elem) (pat : List Elem) (c : Nat) (ws : List Nat) :
    matchFixed (e :: pat) (c :: ws) = (e.ok c && matchFixed pat ws) := by
  simp only [matchFixed, List.length_cons, List.zipWith_cons_cons, List.all_cons, id]
  cases e.ok c <;> cases h : (ws.length == pat.length) <;> simp_all

/-- **C13.expandClasses_sound** — the code's expansion of character classes into masked exact matchers,
and the union it takes, accept exactly the windows that match the pattern position by position -/
theorem expandClasses_sound (pat : List Elem) (win : List Nat) : fixedMatch pat win = matchFixed pat win := by
  unfold fixedMatch
  induction pat generalizing win with
  | nil => simp [expandClasses, maskedMatch_nil, matchFixed]
  | cons e rest ih =>
    cases win with
    | nil =>
      have : matchFixed (e :: rest) [] = false := by simp [matchFixed]
      rw [this]
      cases e with
      | any => simp [expandClasses, List.any_map, Function.comp_def, maskedMatch_cons_nil]
      | oneOf cs => simp [expandClasses, List.any_flatMap, List.any_map, Function.comp_def, maskedMatch_cons_nil]
    | cons c ws =>
      rw [matchFixed_cons, ← ih ws]
      cases e with
      | any =>
        simp [expandClasses, List.any_map, Function.comp_def, maskedMatch_cons, Elem.ok]
      | oneOf cs =>
        simp only [expandClasses, List.any_flatMap, List.any_map, Function.comp_def, maskedMatch_cons, Elem.ok,
          Option.isNone_some, Bool.false_or]
        induction cs with
        | nil => simp
        | cons x xs ihx =>
          simp only [List.any_cons, List.contains_cons, ihx]
          have hx : (some x == some c) = (c == x) := by
            by_cases h : x = c
            · subst h; simp
            · have h' : ¬ c = x := fun e => h e.symm
              simp [h, h']
          rw [hx]
          cases (c == x) <;> cases (xs.contains c) <;> simp [List.any_eq_false]

theorem expandClasses_length (pat : List Elem) : ∀ alt ∈ expandClasses pat, alt.length = pat.length := by
  induction pat with
  | nil => simp [expandClasses]
  | cons e rest ih =>
    intro alt halt
    cases e with
    | any =>
      simp only [expandClasses, List.mem_map] at halt
      obtain ⟨a, ha, rfl⟩ := halt
      simp [ih a ha]
    | oneOf cs =>
      simp only [expandClasses, List.mem_flatMap, List.mem_map] at halt
      obtain ⟨c, _, a, ha, rfl⟩ := halt
      simp [ih a ha]

/-- **C13.fixedRegex_rowlocal** — `FixedLenRegexMatcher(...).rolling_window(seqs)`: every row gets the
pattern matched against each of its own windows -/
theorem fixedRegex_rowlocal (pat : List Elem) (hp : 1 ≤ pat.length) (rows : List (List Nat)) :
    fixedRegex pat rows = spec pat.length (matchFixed pat) rows := by
  unfold fixedRegex
  rw [rolling_rowlocal pat.length hp]
  have : fixedMatch pat = matchFixed pat := funext (expandClasses_sound pat)
  rw [this]

/-- `specSame` for booleans, position by position: "the window fits in the row and matches" -/
theorem specSame_pointwise (w : Nat) (hw : 1 ≤ w) (f : List Nat → Bool) (rows : List (List Nat)) :
    specSame w f false rows =
      rows.map (fun r => (List.range r.length).map (fun i => decide (i + w ≤ r.length) && f ((r.drop i).take w))) := by
  unfold specSame
  apply List.map_congr_left
  intro r _
  apply List.ext_getElem
  · simp [windows]; omega
  · intro i h1 h2
    simp only [List.length_map, List.length_range] at h2
    simp only [List.getElem_map, List.getElem_range]
    rcases Nat.lt_or_ge i (r.length + 1 - w) with h | h
    · rw [List.getElem_append_left (by simpa [windows] using h)]
      simp only [windows, List.getElem_map, List.getElem_range]
      have : decide (i + w ≤ r.length) = true := by simp; omega
      simp [this]
    · rw [List.getElem_append_right (by simpa [windows] using h)]
      have : decide (i + w ≤ r.length) = false := by simp; omega
      simp [this]

theorem orRows_pointwise (rows : List (List Nat)) (g h : List Nat → Nat → Bool) :
    orRows (rows.map (fun r => (List.range r.length).map (g r))) (rows.map (fun r => (List.range r.length).map (h r))) =
      rows.map (fun r => (List.range r.length).map (fun i => g r i || h r i)) := by
  unfold orRows
  induction rows with
  | nil => rfl
  | cons r rs ih =>
    simp only [List.map_cons, List.zipWith_cons_cons, ih, List.cons.injEq, and_true]
    apply List.ext_getElem <;> simp

theorem foldl_orRows {γ : Type} (rows : List (List Nat)) (alts : List γ) (G : γ → List Nat → Nat → Bool)
    (F : γ → List (List Bool)) (hF : ∀ a ∈ alts, F a = rows.map (fun r => (List.range r.length).map (G a r)))
    (H : List Nat → Nat → Bool) :
    alts.foldl (fun out a => orRows out (F a)) (rows.map (fun r => (List.range r.length).map (H r))) =
      rows.map (fun r => (List.range r.length).map (fun i => H r i || alts.any (fun a => G a r i))) := by
  induction alts generalizing H with
  | nil => simp
  | cons a as ih =>
    simp only [List.foldl_cons]
    rw [hF a (by simp), orRows_pointwise, ih (fun b hb => hF b (by simp [hb]))]
    apply List.map_congr_left
    intro r _
    apply List.map_congr_left
    intro i _
    simp [Bool.or_assoc]

/-- **C13.regex_rowlocal** — `RegexMatcher(...).rolling_window(seqs)`: position `i` of a row is marked
iff some expansion of the pattern (gaps unrolled) FITS IN THE ROW at `i` and matches there; no match
continues into the next row. (Every expansion has at least one position.) -/
theorem regex_rowlocal (items : List Item) (hlen : ∀ p ∈ expandGaps items, 1 ≤ p.length) (rows : List (List Nat)) :
    regexMatch items rows = specRegex items rows := by
  unfold regexMatch regexWith specRegex
  simp only
  have hinit : rows.map (fun r => List.replicate r.length false) =
      rows.map (fun r => (List.range r.length).map (fun _ => false)) := by
    apply List.map_congr_left
    intro r _
    apply List.ext_getElem <;> simp
  rw [hinit]
  rw [foldl_orRows rows _ (fun alt r i => decide (i + alt.length ≤ r.length) && maskedMatch alt ((r.drop i).take alt.length))
    _ ?_ (fun _ _ => false)]
  · apply List.map_congr_left
    intro r _
    apply List.map_congr_left
    intro i _
    simp only [Bool.false_or, List.any_flatMap]
    apply any_congr_mem
    intro p hp
    -- all alternatives of one expansion have its length
    have hl := expandClasses_length p
    have : (expandClasses p).any (fun alt => decide (i + alt.length ≤ r.length) && maskedMatch alt ((r.drop i).take alt.length)) =
        (expandClasses p).any (fun alt => decide (i + p.length ≤ r.length) && maskedMatch alt ((r.drop i).take p.length)) := by
      apply any_congr_mem
      intro alt halt
      rw [hl alt halt]
    rw [this]
    have h2 : (expandClasses p).any (fun alt => decide (i + p.length ≤ r.length) && maskedMatch alt ((r.drop i).take p.length)) =
        (decide (i + p.length ≤ r.length) && fixedMatch p ((r.drop i).take p.length)) := by
      unfold fixedMatch
      cases decide (i + p.length ≤ r.length) <;> simp
    rw [h2, expandClasses_sound]
  · intro alt halt
    obtain ⟨p, hp, hap⟩ := List.mem_flatMap.mp halt
    have hw : 1 ≤ alt.length := by rw [expandClasses_length p alt hap]; exact hlen p hp
    have := rolling_same alt.length hw (maskedMatch alt) false
      (List.replicate (rows.flatten.length - (rows.flatten.length + 1 - alt.length)) false) rows
      (by rw [List.length_append, windows_length, List.length_replicate]; omega)
    unfold rollingSame at this
    rw [this, specSame_pointwise alt.length hw]

theorem expandGaps_length_pos (items : List Item) (h : ∃ e, Item.elem e ∈ items) :
    ∀ p ∈ expandGaps items, 1 ≤ p.length := by
  induction items with
  | nil => obtain ⟨e, he⟩ := h; simp at he
  | cons it rest ih =>
    intro p hp
    cases it with
    | elem e =>
      simp only [expandGaps, List.mem_map] at hp
      obtain ⟨q, _, rfl⟩ := hp
      simp
    | gap a b =>
      simp only [expandGaps, List.mem_flatMap, List.mem_map] at hp
      obtain ⟨d, _, q, hq, rfl⟩ := hp
      have hrest : ∃ e, Item.elem e ∈ rest := by
        obtain ⟨e, he⟩ := h
        simp only [List.mem_cons] at he
        rcases he with he | he
        · cases he
        · exact ⟨e, he⟩
      have := ih hrest q hq
      simp; omega

/-- **C13.regex_rowlocal_of_elem** — the same with the hypothesis read off the pattern: it has at least one
position that is not a gap (the pattern grammar of the code requires two) -/
theorem regex_rowlocal_of_elem (items : List Item) (h : ∃ e, Item.elem e ∈ items) (rows : List (List Nat)) :
    regexMatch items rows = specRegex items rows :=
  regex_rowlocal items (expandGaps_length_pos items h) rows

/-- the shipped `RegexMatcher` let a match run into the NEXT row: `CG` "found" at the end of `AC`
because the following row starts with `G`. Recorded refutation. -/
theorem regexOld_leaks :
    regexMatchOld [.elem (.oneOf [1]), .elem (.oneOf [2])] [[0, 1], [2, 3]] = [[false, true], [false, false]] ∧
    specRegex [.elem (.oneOf [1]), .elem (.oneOf [2])] [[0, 1], [2, 3]] = [[false, false], [false, false]] := by
  decide

/-! ### k-mer code -/

theorem powers_succ (n k : Nat) : powers n (k + 1) = 1 :: (powers n k).map (n * ·) := by
  unfold powers
  rw [List.range_succ_eq_map]
  simp [List.map_map, Function.comp_def, Nat.pow_succ, Nat.mul_comm]

theorem dot_map_mul (n : Nat) (xs ps : List Nat) : dot xs (ps.map (n * ·)) = n * dot xs ps := by
  induction xs generalizing ps with
  | nil => simp [dot]
  | cons x xs ih =>
    cases ps with
    | nil => simp [dot]
    | cons p ps =>
      simp only [List.map_cons, dot, ih, Nat.mul_add]
      rw [← Nat.mul_assoc, Nat.mul_comm x n, Nat.mul_assoc]

/-- **C13.kmer_code** — `letters.dot(|A| ** arange(k))` is the little-endian base-`|A|` number -/
theorem kmer_code (n : Nat) (letters : List Nat) : dot letters (powers n letters.length) = hashLE n letters := by
  induction letters with
  | nil => simp [dot, hashLE]
  | cons x xs ih =>
    simp only [List.length_cons, powers_succ, dot, dot_map_mul, ih, hashLE, Nat.mul_one]

theorem wrap64_id (x : Nat) (h : x < 9223372036854775808) : wrap64 (x : Int) = x := by
  unfold wrap64
  have h1 : ((x : Int) % 18446744073709551616) = x := Int.emod_eq_of_lt (by omega) (by omega)
  simp only [h1]
  split
  · rfl
  · omega

/-- under the stated range hypothesis the int64 hash IS the exact little-endian number -/
theorem kmerHash_exact (n : Nat) (letters : List Nat) (hl : ∀ x ∈ letters, x < n)
    (hr : n ^ letters.length ≤ 9223372036854775808) : kmerHash n letters = (hashLE n letters : Int) := by
  unfold kmerHash
  rw [kmer_code]
  exact wrap64_id _ (Nat.lt_of_lt_of_le (hashLE_lt n letters hl) hr)

/-- the range hypothesis is needed: the largest 28-mer over `ACGTN` wraps to a different number -/
theorem kmerHash_wraps_witness :
    kmerHash 5 (List.replicate 28 4) ≠ (hashLE 5 (List.replicate 28 4) : Int) ∧ 5 ^ 28 > 9223372036854775808 := by
  decide +kernel

theorem digit_hashLE (n : Nat) (letters : List Nat) (hl : ∀ x ∈ letters, x < n) (i : Nat) (hi : i < letters.length) :
    hashLE n letters / n ^ i % n = letters[i] := by
  induction letters generalizing i with
  | nil => simp at hi
  | cons x xs ih =>
    have hx : x < n := hl x (by simp)
    have hn : 0 < n := by omega
    cases i with
    | zero =>
      simp only [hashLE, Nat.pow_zero, Nat.div_one, List.getElem_cons_zero]
      rw [Nat.add_mul_mod_self_left]
      exact Nat.mod_eq_of_lt hx
    | succ i =>
      simp only [hashLE, List.getElem_cons_succ]
      rw [Nat.pow_succ, Nat.mul_comm (n ^ i) n, ← Nat.div_div_eq_div_mul]
      rw [Nat.add_mul_div_left _ _ hn, Nat.div_eq_of_lt hx, Nat.zero_add]
      exact ih (fun y hy => hl y (by simp [hy])) i (by simpa using hi)

/-- **C13.kmer_render** — the digits `to_string` extracts from a k-mer code are the window's letters,
so it renders back to the window's text -/
theorem kmer_render (alphabet : List Nat) (letters : List Nat) (hl : ∀ x ∈ letters, x < alphabet.length) :
    render alphabet letters.length (hashLE alphabet.length letters) = letters.map (fun d => alphabet.getD d 0) := by
  unfold render kmerDigits
  rw [List.map_map]
  apply List.ext_getElem
  · simp
  · intro i h1 h2
    simp only [List.getElem_map, List.getElem_range, Function.comp]
    rw [digit_hashLE alphabet.length letters hl i (by simpa using h1)]

theorem mul_sum_map (n : Nat) (l : List Nat) (g : Nat → Nat) : n * (l.map g).sum = (l.map (fun i => n * g i)).sum := by
  induction l with
  | nil => rfl
  | cons a as ih => simp [List.sum_cons, Nat.mul_add, ih]

/-- `hashLE` IS positional notation: the sum of `letter_i * n^i` -/
theorem hashLE_eq_sum (n : Nat) (letters : List Nat) :
    hashLE n letters = ((List.range letters.length).map (fun i => letters.getD i 0 * n ^ i)).sum := by
  induction letters with
  | nil => rfl
  | cons x xs ih =>
    rw [List.length_cons, List.range_succ_eq_map, List.map_cons, List.sum_cons, List.map_map]
    simp only [hashLE, ih, List.getD_cons_zero, Nat.pow_zero, Nat.mul_one, Function.comp_def,
      List.getD_cons_succ, Nat.pow_succ]
    congr 1
    rw [mul_sum_map]
    congr 1
    apply List.map_congr_left
    intro i _
    rw [Nat.mul_comm n, Nat.mul_assoc]

/-- different windows of the same length have different codes -/
theorem hashLE_inj (n : Nat) (a b : List Nat) (hlen : a.length = b.length) (ha : ∀ x ∈ a, x < n) (hb : ∀ x ∈ b, x < n)
    (h : hashLE n a = hashLE n b) : a = b := by
  apply List.ext_getElem hlen
  intro i h1 h2
  rw [← digit_hashLE n a ha i h1, ← digit_hashLE n b hb i h2, h]

/-- the code the implementation computes for a window renders back to the window's text -/
theorem kmerHash_render (alphabet : List Nat) (letters : List Nat) (hl : ∀ x ∈ letters, x < alphabet.length)
    (hr : alphabet.length ^ letters.length ≤ 9223372036854775808) :
    render alphabet letters.length (kmerHash alphabet.length letters).toNat = letters.map (fun d => alphabet.getD d 0) := by
  rw [kmerHash_exact _ _ hl hr]
  exact kmer_render alphabet letters hl

/-- k-mers: every row gets the codes of its own windows -/
theorem kmers_rowlocal (n k : Nat) (hk : 1 ≤ k) (rows : List (List Nat)) :
    getKmers n k rows = spec k (kmerHash n) rows := rolling_rowlocal k hk _ rows

theorem windows_congr (w : Nat) (f g : List α → β) (xs : List α)
    (h : ∀ win : List α, (∀ x ∈ win, x ∈ xs) → win.length = w → f win = g win) :
    windows w f xs = windows w g xs := by
  unfold windows
  apply List.map_congr_left
  intro i hi
  simp only [List.mem_range] at hi
  apply h
  · intro x hx
    exact List.mem_of_mem_drop (List.mem_of_mem_take hx)
  · simp; omega

/-- **C13.kmers** — with letters `< n` and `n^k ≤ 2^63`, `get_kmers` returns for every row the exact
little-endian base-`n` number of each of its windows -/
theorem kmers (n k : Nat) (hk : 1 ≤ k) (hr : n ^ k ≤ 9223372036854775808) (rows : List (List Nat))
    (hl : ∀ r ∈ rows, ∀ x ∈ r, x < n) :
    getKmers n k rows = spec k (fun win => (hashLE n win : Int)) rows := by
  rw [kmers_rowlocal n k hk]
  unfold spec
  apply List.map_congr_left
  intro r hr'
  apply windows_congr k _ _ r
  intro win hmem hlen
  exact kmerHash_exact n win (fun x hx => hl r hr' x (hmem x hx)) (by rw [hlen]; exact hr)

/-! ### the 2-bit packed path equals the generic path -/

theorem windows_map {γ : Type} (w : Nat) (f : List α → β) (g : β → γ) (xs : List α) :
    (windows w f xs).map g = windows w (fun win => g (f win)) xs := by
  simp [windows, List.map_map, Function.comp_def]

/-- **C13.packed_eq_generic** — for letters `< 4` and every `1 ≤ k ≤ 31`, the path `get_kmers` takes
for 4-letter alphabets (pack two bits per letter into uint64 registers, shift/or/mask sliding
window, re-wrap, trim) returns exactly what the generic dot-product path returns -/
theorem packed_eq_generic (k : Nat) (hk1 : 1 ≤ k) (hk : k ≤ 31) (rows : List (List Nat))
    (hl : ∀ r ∈ rows, ∀ x ∈ r, x < 4) : getKmersPacked k rows = getKmers 4 k rows := by
  have hflat : ∀ x ∈ rows.flatten, x < 4 := by
    intro x hx
    obtain ⟨r, hr, hxr⟩ := List.mem_flatten.mp hx
    exact hl r hr x hxr
  unfold getKmersPacked getKmersPackedWith getKmers rolling rollingWith
  have e : windows k (fun win => Int.ofNat (hashLE 4 win)) rows.flatten = windows k (kmerHash 4) rows.flatten := by
    apply windows_congr
    intro win hmem hlen
    refine (kmerHash_exact 4 win (fun x hx => hflat x (hmem x hx)) ?_).symm
    rw [hlen]
    calc 4 ^ k ≤ 4 ^ 31 := Nat.pow_le_pow_right (by omega) hk
      _ ≤ 9223372036854775808 := by decide
  rw [packedKmers_eq _ hflat k hk1 hk, windows_map, List.append_nil, e]

/-- **C13.kmers_dispatch** — whichever path `get_kmers` takes, every row gets the exact little-endian
base-`n` number of each of its own windows (`n^k ≤ 2^63`; for `n = 4` that is `k ≤ 31`) -/
theorem kmers_dispatch (n k : Nat) (hk : 1 ≤ k) (hr : n ^ k ≤ 9223372036854775808) (rows : List (List Nat))
    (hl : ∀ r ∈ rows, ∀ x ∈ r, x < n) :
    getKmersDispatch n k rows = spec k (fun win => (hashLE n win : Int)) rows := by
  unfold getKmersDispatch
  split
  · rename_i h4
    subst h4
    have hk31 : k ≤ 31 := by
      rcases Nat.lt_or_ge 31 k with h | h
      · exfalso
        have : (4 : Nat) ^ 32 ≤ 4 ^ k := Nat.pow_le_pow_right (by omega) h
        have h32 : (4 : Nat) ^ 32 = 18446744073709551616 := by decide
        omega
      · exact h
    rw [packed_eq_generic k hk hk31 rows hl]
    exact kmers 4 k hk hr rows hl
  · exact kmers n k hk hr rows hl

/-! ### minimizers, string matching, counting: instances -/

theorem mapM_minInt_map (l : List (List Int)) (h : ∀ x ∈ l, x ≠ []) :
    l.mapM minInt = some (l.map (fun x => (minInt x).getD 0)) := by
  induction l with
  | nil => rfl
  | cons x xs ih =>
    have hx : x ≠ [] := h x (by simp)
    rw [List.mapM_cons, ih (fun y hy => h y (by simp [hy]))]
    cases x with
    | nil => exact absurd rfl hx
    | cons a as => simp [minInt]

/-- **C13.minimizer** — for `1 ≤ k ≤ w`: the nested flat computation succeeds and returns, for every
row, the minimum k-mer code of each of that row's windows of length `w` -/
theorem minimizer (n k w : Nat) (hk : 1 ≤ k) (hkw : k ≤ w) (rows : List (List Nat)) :
    (minimizers n k w rows).map (·.map (·.map some)) = some (specMinimizers n k w rows) := by
  have hw : 1 ≤ w := by omega
  unfold minimizers minimizersWith
  simp only
  rw [rolling_rowlocal_extra k hk]
  -- every flat window has length w ≥ k, so its k-mer list is non-empty
  have hne : ∀ x ∈ spec k (kmerHash n) (windows w id rows.flatten), x ≠ [] := by
    intro x hx
    simp only [spec, List.mem_map] at hx
    obtain ⟨win, hwin, rfl⟩ := hx
    simp only [windows, List.mem_map, List.mem_range] at hwin
    obtain ⟨i, hi, rfl⟩ := hwin
    intro hempty
    have hlen : ((rows.flatten.drop i).take w).length = w := by
      rw [List.length_take, List.length_drop]; omega
    have h0 := congrArg List.length hempty
    rw [windows_length] at h0
    simp only [id, List.length_nil] at h0
    rw [hlen] at h0
    omega
  rw [mapM_minInt_map _ hne]
  simp only [Option.map_some, Option.some.injEq]
  have : (spec k (kmerHash n) (windows w id rows.flatten)).map (fun x => (minInt x).getD 0) =
      windows w (fun win => (minInt (windows k (kmerHash n) win)).getD 0) rows.flatten := by
    simp [spec, windows, List.map_map, Function.comp_def]
  rw [this]
  have h2 := rewrapSlice_windows w hw (trimNew w) (endLen_trimNew w hw)
    (fun win => (minInt (windows k (kmerHash n) win)).getD 0) rows []
  simp only [List.append_nil] at h2
  rw [h2]
  unfold specMinimizers spec
  rw [List.map_map]
  apply List.map_congr_left
  intro r _
  simp only [Function.comp, windows, List.map_map]
  apply List.map_congr_left
  intro i hi
  simp only [List.mem_range] at hi
  simp only [Function.comp]
  have hlen : ((r.drop i).take w).length = w := by simp; omega
  cases hm : minInt ((List.range (((r.drop i).take w).length + 1 - k)).map
      (fun j => kmerHash n ((((r.drop i).take w).drop j).take k))) with
  | some v => simp
  | none =>
    exfalso
    have : (List.range (((r.drop i).take w).length + 1 - k)).map
      (fun j => kmerHash n ((((r.drop i).take w).drop j).take k)) = [] := by
      cases h : (List.range (((r.drop i).take w).length + 1 - k)).map
        (fun j => kmerHash n ((((r.drop i).take w).drop j).take k)) with
      | nil => rfl
      | cons a as => rw [h] at hm; simp [minInt] at hm
    have := congrArg List.length this
    simp at this
    omega

theorem mapM_none_of_mem {γ δ : Type} (f : γ → Option δ) (l : List γ) (x : γ) (hx : x ∈ l) (hf : f x = none) :
    l.mapM f = none := by
  induction l with
  | nil => simp at hx
  | cons a as ih =>
    rw [List.mapM_cons]
    rcases List.mem_cons.mp hx with e | e
    · subst e; simp [hf]
    · cases f a with
      | none => rfl
      | some b => simp [ih e]

/-- **C13.minimizer_exact** — the same in exact numbers: with letters `< n` and `n^k ≤ 2^63` (no int64 wrap)
every returned minimizer is the minimum of the little-endian base-`n` NUMBERS of the k-mers of its window -/
theorem minimizer_exact (n k w : Nat) (hk : 1 ≤ k) (hkw : k ≤ w) (hr : n ^ k ≤ 9223372036854775808)
    (rows : List (List Nat)) (hl : ∀ r ∈ rows, ∀ x ∈ r, x < n) :
    (minimizers n k w rows).map (·.map (·.map some)) =
      some (spec w (fun win => minInt (windows k (fun km => (hashLE n km : Int)) win)) rows) := by
  rw [minimizer n k w hk hkw rows]
  unfold specMinimizers spec
  refine congrArg some ?_
  apply List.map_congr_left
  intro r hrow
  apply windows_congr w _ _ r
  intro win hwin _
  refine congrArg minInt ?_
  apply windows_congr k _ _ win
  intro km hkm hlen
  exact kmerHash_exact n km (fun x hx => hl r hrow x (hwin x (hkm x hx))) (by rw [hlen]; exact hr)

/-- **C13.minimizers_isSome_iff** — completeness: the nested computation fails (numpy raises on an empty
axis) exactly when the k-mer is longer than the window while at least one window exists -/
theorem minimizers_isSome_iff (n k w : Nat) (hk : 1 ≤ k) (hw : 1 ≤ w) (rows : List (List Nat)) :
    (minimizers n k w rows).isSome ↔ (k ≤ w ∨ rows.flatten.length < w) := by
  constructor
  · intro h
    rcases Nat.lt_or_ge w k with hlt | hge
    · right
      rcases Nat.lt_or_ge rows.flatten.length w with h' | h'
      · exact h'
      · exfalso
        unfold minimizers minimizersWith at h
        simp only at h
        rw [rolling_rowlocal_extra k hk] at h
        have hmem : ((rows.flatten.drop 0).take w) ∈ windows w id rows.flatten := by
          unfold windows
          simp only [List.mem_map, List.mem_range, id]
          exact ⟨0, by omega, rfl⟩
        have hnil : windows k (kmerHash n) ((rows.flatten.drop 0).take w) = [] := by
          rw [windows_eq_nil_iff k hk]; simp; omega
        have : (spec k (kmerHash n) (windows w id rows.flatten)).mapM minInt = none := by
          apply mapM_none_of_mem minInt _ (windows k (kmerHash n) ((rows.flatten.drop 0).take w))
          · exact List.mem_map.mpr ⟨_, hmem, rfl⟩
          · rw [hnil]; rfl
        simp [this] at h
    · left; exact hge
  · intro h
    rcases h with hkw | hshort
    · have := minimizer n k w hk hkw rows
      cases hm : minimizers n k w rows with
      | none => rw [hm] at this; simp at this
      | some v => rfl
    · unfold minimizers minimizersWith
      simp only
      have : windows w id rows.flatten = [] := (windows_eq_nil_iff w hw id _).mpr hshort
      rw [this]
      simp [rollingWith, rewrapSlice, windows]

/-- **C13.match** — `match_string` marks, in every row, exactly the positions where the pattern
occurs inside that row -/
theorem «match» (pat : List Nat) (hp : 1 ≤ pat.length) (rows : List (List Nat)) :
    matchString pat rows = spec pat.length (fun win => win == pat) rows :=
  rolling_rowlocal pat.length hp _ rows

/-- **C13.count** — `count_kmers` counts, per code, the windows inside rows only -/
theorem count (n k : Nat) (hk : 1 ≤ k) (hr : n ^ k ≤ 9223372036854775808) (rows : List (List Nat))
    (hl : ∀ r ∈ rows, ∀ x ∈ r, x < n) :
    countKmers n k rows = specCountKmers n k rows ∧
    countKmersRows n k rows = (spec k (fun win => (hashLE n win : Int)) rows).map (bincount (n ^ k)) := by
  unfold countKmers countKmersRows specCountKmers
  rw [kmers n k hk hr rows hl]
  exact ⟨rfl, rfl⟩

theorem bincount_getElem? (size : Nat) (vals : List Int) (c : Nat) (hc : c < size) :
    (bincount size vals)[c]? = some (vals.count (c : Int)) := by
  unfold bincount
  rw [List.getElem?_map, List.getElem?_range hc]
  simp only [Option.map_some, Option.some.injEq, List.count_eq_countP, List.countP_eq_length_filter]
  congr 1

/-- the label `get_labels` puts at position `code(kmer)` is that k-mer's text -/
theorem label_of_code (alphabet : List Nat) (letters : List Nat) (hl : ∀ x ∈ letters, x < alphabet.length) :
    (getLabels alphabet letters.length)[hashLE alphabet.length letters]? =
      some (letters.map (fun d => alphabet.getD d 0)) := by
  unfold getLabels
  rw [List.getElem?_map, List.getElem?_range (hashLE_lt _ _ hl)]
  simp only [Option.map_some, Option.some.injEq]
  exact kmer_render alphabet letters hl

/-- **C13.count_labeled** — what the caller of `count_kmers` reads off: the number reported under the
label of a k-mer is the number of windows, inside rows only, that spell that k-mer (with `get_kmers`
taking its real path, packed or generic) -/
theorem count_labeled (alphabet : List Nat) (k : Nat) (hk : 1 ≤ k)
    (hr : alphabet.length ^ k ≤ 9223372036854775808) (rows : List (List Nat))
    (hl : ∀ r ∈ rows, ∀ x ∈ r, x < alphabet.length)
    (kmer : List Nat) (hkl : kmer.length = k) (hkm : ∀ x ∈ kmer, x < alphabet.length) :
    let lc := countKmersLabeled alphabet k rows
    lc.1[hashLE alphabet.length kmer]? = some (kmer.map (fun d => alphabet.getD d 0)) ∧
    lc.2[hashLE alphabet.length kmer]? =
      some ((spec k (fun win => (hashLE alphabet.length win : Int)) rows).flatten.count
        (hashLE alphabet.length kmer : Int)) := by
  simp only [countKmersLabeled]
  rw [kmers_dispatch alphabet.length k hk hr rows hl]
  subst hkl
  exact ⟨label_of_code alphabet kmer hkm, bincount_getElem? _ _ _ (hashLE_lt _ _ hkm)⟩

theorem bincount_append (size : Nat) (a b : List Int) :
    bincount size (a ++ b) = addCounts (bincount size a) (bincount size b) := by
  unfold bincount addCounts
  apply List.ext_getElem
  · simp
  · intro i h1 h2
    simp [List.filter_append]

/-- **C13.count_chunks** — counting is additive over chunks of sequences: `count_kmers` of a collection
split anywhere between two rows is the sum (`EncodedCounts.__add__`, `sum` in the streamed form) of
the counts of the parts; in particular no k-mer is gained or lost at a chunk border -/
theorem count_chunks (n k : Nat) (hk : 1 ≤ k) (rows1 rows2 : List (List Nat)) :
    countKmers n k (rows1 ++ rows2) = addCounts (countKmers n k rows1) (countKmers n k rows2) := by
  unfold countKmers
  rw [kmers_rowlocal n k hk, kmers_rowlocal n k hk, kmers_rowlocal n k hk]
  simp only [spec, List.map_append, List.flatten_append]
  exact bincount_append _ _ _

/-- **C13.kmer_inverse** — `KmerEncoder.inverse` gives back the letters of the window -/
theorem kmer_inverse (n : Nat) (letters : List Nat) (hl : ∀ x ∈ letters, x < n) :
    kmerInverse n letters.length (hashLE n letters) = letters := by
  unfold kmerInverse kmerDigits
  apply List.ext_getElem
  · simp
  · intro i h1 h2
    simp only [List.getElem_map, List.getElem_range]
    exact digit_hashLE n letters hl i (by simpa using h1)

/-- **C13.count_rows_labeled** — `count_kmers(seqs, k, axis=-1)` as the driver's per-row op runs it (`get_kmers` on its
real path, labels from `get_labels`): the labels are the texts of the codes in order, and row `i` of the counts is the
histogram of the k-mers of row `i` ALONE -/
theorem count_rows_labeled (alphabet : List Nat) (k : Nat) (hk : 1 ≤ k)
    (hr : alphabet.length ^ k ≤ 9223372036854775808) (rows : List (List Nat))
    (hl : ∀ r ∈ rows, ∀ x ∈ r, x < alphabet.length) :
    (countKmersRowsLabeled alphabet k rows).1 = getLabels alphabet k ∧
    (countKmersRowsLabeled alphabet k rows).2 =
      rows.map (fun r => bincount (alphabet.length ^ k) (windows k (fun win => (hashLE alphabet.length win : Int)) r)) := by
  simp only [countKmersRowsLabeled, true_and]
  rw [kmers_dispatch alphabet.length k hk hr rows hl]
  simp [spec, List.map_map, Function.comp_def]

/-- … read per label: the number in row `i` under the label of a k-mer is how often row `i` spells it -/
theorem count_rows_labeled_entry (alphabet : List Nat) (k : Nat) (hk : 1 ≤ k)
    (hr : alphabet.length ^ k ≤ 9223372036854775808) (rows : List (List Nat))
    (hl : ∀ r ∈ rows, ∀ x ∈ r, x < alphabet.length) (i : Nat) (hi : i < rows.length)
    (kmer : List Nat) (hkl : kmer.length = k) (hkm : ∀ x ∈ kmer, x < alphabet.length) :
    ((countKmersRowsLabeled alphabet k rows).2[i]?.bind (·[hashLE alphabet.length kmer]?)) =
      some ((windows k (fun win => (hashLE alphabet.length win : Int)) rows[i]).count (hashLE alphabet.length kmer : Int)) := by
  rw [(count_rows_labeled alphabet k hk hr rows hl).2, List.getElem?_map, List.getElem?_eq_getElem hi]
  simp only [Option.map_some, Option.bind_some]
  subst hkl
  exact bincount_getElem? _ _ _ (hashLE_lt _ _ hkm)

/-- **C13.count_labeled_chunks** — additivity for the counts the caller gets (real `get_kmers` path): a collection split
between two rows is counted as the sum of its parts, and per row as the concatenation of the parts -/
theorem count_labeled_chunks (alphabet : List Nat) (k : Nat) (hk : 1 ≤ k)
    (hr : alphabet.length ^ k ≤ 9223372036854775808) (rows1 rows2 : List (List Nat))
    (hl1 : ∀ r ∈ rows1, ∀ x ∈ r, x < alphabet.length) (hl2 : ∀ r ∈ rows2, ∀ x ∈ r, x < alphabet.length) :
    (countKmersLabeled alphabet k (rows1 ++ rows2)).2 =
      addCounts (countKmersLabeled alphabet k rows1).2 (countKmersLabeled alphabet k rows2).2 ∧
    (countKmersRowsLabeled alphabet k (rows1 ++ rows2)).2 =
      (countKmersRowsLabeled alphabet k rows1).2 ++ (countKmersRowsLabeled alphabet k rows2).2 := by
  have hl : ∀ r ∈ rows1 ++ rows2, ∀ x ∈ r, x < alphabet.length := by
    intro r hr' x hx
    rcases List.mem_append.mp hr' with h | h
    · exact hl1 r h x hx
    · exact hl2 r h x hx
  simp only [countKmersLabeled, countKmersRowsLabeled]
  rw [kmers_dispatch _ k hk hr _ hl, kmers_dispatch _ k hk hr _ hl1, kmers_dispatch _ k hk hr _ hl2]
  constructor
  · simp only [spec, List.map_append, List.flatten_append]
    exact bincount_append _ _ _
  · simp [spec, List.map_append]

/-- the shipped code counted nothing at `k = 1` -/
theorem countOld_k1_unsound : countKmersOld 4 1 [[0, 1], [1]] = [0, 0, 0, 0] ∧
    specCountKmers 4 1 [[0, 1], [1]] = [1, 2, 0, 0] := by decide +kernel

/-! ### PWM: shifted accumulation = per-window sum in offset order -/

section pwm
variable (add : β → β → β) (zero : β)

/-- the partial sum the loop has built for position `j` after `c` offsets -/
def partialScore (m : List (List β)) (seq : List Nat) (c j : Nat) : β :=
  (List.range c).foldl (fun acc o => add acc (entry zero m o (seq.getD (j + o) 0))) zero

theorem accumUpTo_length (m : List (List β)) (seq : List Nat) (t : Nat) :
    (accumUpTo add zero m seq t).length = seq.length := by
  induction t with
  | zero => simp [accumUpTo]
  | succ t ih => simp [accumUpTo, accumStep, ih]

/-- loop invariant: after `t` offsets, position `j` holds the partial sum over the offsets that
stay inside the flat sequence -/
theorem accumUpTo_getD (m : List (List β)) (seq : List Nat) (t j : Nat) (hj : j < seq.length) :
    (accumUpTo add zero m seq t).getD j zero = partialScore add zero m seq (min t (seq.length - j)) j := by
  induction t with
  | zero => simp [accumUpTo, partialScore, List.getD, hj]
  | succ t ih =>
    simp only [accumUpTo, accumStep, accumUpTo_length]
    rw [List.getD_eq_getElem?_getD, List.getElem?_map, List.getElem?_range hj]
    simp only [Option.map_some, Option.getD_some]
    split
    · rename_i h
      rw [ih]
      have e1 : min t (seq.length - j) = t := by omega
      have e2 : min (t + 1) (seq.length - j) = t + 1 := by omega
      rw [e1, e2]
      simp [partialScore, List.range_succ, List.foldl_append]
    · rename_i h
      rw [ih]
      have e1 : min t (seq.length - j) = seq.length - j := by omega
      have e2 : min (t + 1) (seq.length - j) = seq.length - j := by omega
      rw [e1, e2]

theorem foldl_ext_mem {γ δ : Type} (f g : δ → γ → δ) (l : List γ) (h : ∀ a, ∀ x ∈ l, f a x = g a x) (z : δ) :
    l.foldl f z = l.foldl g z := by
  induction l generalizing z with
  | nil => rfl
  | cons x xs ih =>
    simp only [List.foldl_cons]
    rw [h z x (by simp)]
    exact ih (fun a y hy => h a y (by simp [hy])) _

theorem partialScore_window (m : List (List β)) (seq : List Nat) (c j : Nat) :
    partialScore add zero m seq c j = windowScore add zero m c ((seq.drop j).take c) := by
  unfold partialScore windowScore
  apply foldl_ext_mem
  intro acc o ho
  simp only [List.mem_range] at ho
  congr 2
  simp only [List.getD_eq_getElem?_getD]
  rw [List.getElem?_take_of_lt ho, List.getElem?_drop]

/-- **C13.pwm_shifted** — the shifted accumulation over the flat sequence holds, at every position
whose window fits, exactly the window's score summed in offset order; what trails are partial sums -/
theorem pwm_shifted (m : List (List β)) (hm : 1 ≤ m.length) (seq : List Nat) :
    ∃ extra, calculateScores add zero m seq = windows m.length (windowScore add zero m m.length) seq ++ extra := by
  refine ⟨(calculateScores add zero m seq).drop (seq.length + 1 - m.length), ?_⟩
  have hlen : (calculateScores add zero m seq).length = seq.length := accumUpTo_length add zero m seq _
  conv => lhs; rw [← List.take_append_drop (seq.length + 1 - m.length) (calculateScores add zero m seq)]
  congr 1
  apply List.ext_getElem
  · rw [List.length_take, hlen, windows_length]; omega
  · intro i h1 h2
    have h1' := h1
    rw [List.length_take, hlen] at h1'
    simp only [windows_length] at h2
    simp only [List.getElem_take, windows, List.getElem_map, List.getElem_range]
    have hi : i < seq.length := by omega
    have := accumUpTo_getD add zero m seq m.length i hi
    unfold calculateScores
    rw [List.getD_eq_getElem?_getD, List.getElem?_eq_getElem (by rw [accumUpTo_length]; exact hi)] at this
    simp only [Option.getD_some] at this
    rw [this]
    have e : min m.length (seq.length - i) = m.length := by omega
    rw [e]
    exact partialScore_window add zero m seq m.length i

/-- **C13.motif_scores** — `get_motif_scores` returns for every row the scores of its own windows -/
theorem motif_scores (m : List (List β)) (hm : 1 ≤ m.length) (rows : List (List Nat)) :
    motifScores add zero m rows = specMotifScores add zero m rows := by
  unfold motifScores motifScoresWith specMotifScores
  obtain ⟨extra, he⟩ := pwm_shifted add zero m hm rows.flatten
  rw [he]
  exact rewrapSlice_windows m.length hm _ (endLen_trimNew m.length hm) _ rows extra
end pwm

section pwm2
variable (add : β → β → β) (zero : β)
/-- **C13.motif_scores_rolling** — the older entry (`get_motif_scores_old`, `PositionWeightMatrix.rolling_window`)
scores every row's own windows too -/
theorem motif_scores_rolling (m : List (List β)) (hm : 1 ≤ m.length) (rows : List (List Nat)) :
    motifScoresRolling add zero m rows = specMotifScores add zero m rows :=
  rolling_rowlocal m.length hm _ rows
end pwm2

/-! ### non-vacuity -/
example : rolling 2 (fun (w : List Nat) => w) [[1, 2, 3], [], [4], [5, 6]] = [[[1, 2], [2, 3]], [], [], [[5, 6]]] := by decide
example : rollingSame 2 (fun (win : List Nat) => win == [1, 2]) false [false] [[0, 1, 2], [1], [1, 2]] =
    [[false, true, false], [false], [true, false]] := by decide
example : expandGaps [.elem (.oneOf [0]), .gap 0 1, .elem (.oneOf [2, 3])] =
    [[.oneOf [0], .oneOf [2, 3]], [.oneOf [0], .any, .oneOf [2, 3]]] := by decide
example : regexMatch [.elem (.oneOf [0]), .gap 0 1, .elem (.oneOf [2, 3])] [[0, 1, 2], [0], [3, 0, 3]] =
    [[true, false, false], [false], [false, true, false]] := by decide
example : fixedRegex [.oneOf [0, 2], .any, .oneOf [3]] [[0, 1, 3, 3], [2, 3]] = [[true, false], []] := by decide
example : getKmers 4 1 [[0, 3], [2]] = [[0, 3], [2]] := by decide +kernel
example : getKmersOld 4 1 [[0, 3], [2]] = [[], []] := by decide +kernel
example : getKmersPacked 2 [[0, 1, 2, 3], [3], [1, 0]] = [[4, 9, 14], [], [1]] := by decide +kernel
example : (countKmersLabeled [65, 67] 2 [[0, 1, 1], [1]]).2 = [0, 0, 1, 1] := by decide +kernel
example : minimizers 4 2 3 [[0, 1, 2, 3], [1]] = some [[4, 9], []] := by decide +kernel
example : minimizersOld 4 1 2 [[0, 1, 2, 3], [1]] = none := by decide +kernel
example : (countKmersRowsLabeled [65, 67, 71, 84] 1 [[0, 3, 3], [2]]).2 = [[1, 0, 0, 2], [0, 0, 1, 0]] := by decide +kernel
example : (4 : Nat) ^ 2 ≤ 9223372036854775808 ∧ (∀ r ∈ [[0, 3, 3], [2]], ∀ x ∈ r, x < 4) := by decide
example : (5 : Nat) ^ 27 ≤ 9223372036854775808 ∧ (21 : Nat) ^ 14 ≤ 9223372036854775808 ∧ (4 : Nat) ^ 31 ≤ 9223372036854775808 := by decide
example : motifScores (· + ·) (0 : Int) [[1, 2], [10, 20]] [[0, 1, 1], [0]] = [[21, 22], []] := by decide +kernel

end C13
