import BnpVerif.Props.C04Core
/-! C04 — modified writes, about the functions the driver runs (`Ext.writeModified`, `writeRowsModified` from the Model):
every column that was not replaced is written with the text the denoted record has for it. -/
namespace C04
open PyIdx

/-- a "rest of line" / tags column needs the field it is measured from -/
def KindOK (n : Nat) : ColKind → Prop
  | .rest k => k < n
  | .extra => 0 < n
  | .field _ => True

/-- every record has the fields the entry type's columns are measured from -/
def RecsOK (kinds : List ColKind) (recs : List Rec) : Prop := ∀ r ∈ recs, ∀ kd ∈ kinds, KindOK r.rel.length kd

theorem rel_length (data : Bytes) (r : Row) (h : r.fS.length = r.fL.length) : (absRow data r).rel.length = r.fS.length := by
  unfold absRow; simp only [List.length_zipWith]; omega

/-- every way of fetching a column returns, for every entry, a function of the denoted record alone -/
theorem col_abs (e : Ext) (h : WF e) (kd : ColKind) (hk : ∀ r ∈ e.abs, KindOK r.rel.length kd) :
    e.col kd = e.abs.map (·.col kd) := by
  have hrows : ∀ r ∈ e.rows, KindOK r.fS.length kd := by
    intro r hr
    have := hk (absRow e.data r) (by unfold Ext.abs; exact List.mem_map_of_mem hr)
    rw [rel_length e.data r (h.2 r hr).2.2.1] at this
    exact this
  cases kd with
  | field k => exact field_text e h k
  | rest k =>
    have : e.col (.rest k) = e.rest k := by simp [Ext.col, delimitedFixed]
    rw [this, rest_text e h k (fun r hr => hrows r hr)]
    rfl
  | extra =>
    have : e.col .extra = e.samExtra := rfl
    rw [this, sam_extra_text e h (fun r hr => hrows r hr)]
    rfl

theorem abs_length (e : Ext) (h : WF e) : e.abs.length = e.len := by
  unfold Ext.abs Ext.len; rw [List.length_map, rows_length e h.1]

/-- the assembled columns, read row by row, are the specified rows -/
theorem columns_rows (e : Ext) (h : WF e) (kinds : List ColKind) (repl : List (Nat × List Bytes)) (hk : RecsOK kinds e.abs) :
    transposeN e.len (e.columns kinds repl) = specRows kinds repl e.abs := by
  unfold transposeN specRows specRow Ext.columns
  rw [abs_length e h]
  apply List.map_congr_left
  intro i hi
  rw [List.map_map]
  apply List.map_congr_left
  intro j hj
  simp only [Function.comp]
  have hjk : j < kinds.length := by simpa using hj
  have hil : i < e.abs.length := by rw [abs_length e h]; simpa using hi
  cases hrep : repl.find? (·.1 == j) with
  | some pc => rfl
  | none =>
    simp only
    have hmem : kinds.getD j (.field j) ∈ kinds := by
      rw [List.getD_eq_getElem?_getD, List.getElem?_eq_getElem hjk]; exact List.getElem_mem hjk
    rw [col_abs e h _ (fun r hr => hk r hr _ hmem)]
    simp [List.getD_eq_getElem?_getD, List.getElem?_eq_getElem hil]

theorem transposeN_plus (n : Nat) (cols : List (List Bytes)) :
    transposeN n (cols.take 2 ++ [List.replicate n [43]] ++ cols.drop 2) =
      (transposeN n cols).map (fun row => row.take 2 ++ [[43]] ++ row.drop 2) := by
  unfold transposeN
  rw [List.map_map]
  apply List.map_congr_left
  intro i hi
  have hin : i < n := by simpa using hi
  simp only [Function.comp, List.map_append, List.map_take, List.map_drop, List.map_cons, List.map_nil]
  congr 2
  simp [List.getD_eq_getElem?_getD, List.getElem?_replicate, hin]

/-- `join_fields` lays the columns out record by record -/
theorem writeCols_rows (lay : Layout) (n : Nat) (cols : List (List Bytes)) :
    writeCols lay n cols = ((transposeN n cols).map (layoutRow lay)).flatten := by
  cases lay with
  | delimited sep => rfl
  | kline h plus =>
    cases plus with
    | false =>
      show joinKLine h n cols = _
      unfold joinKLine
      congr 1
    | true =>
      show joinKLine h n (cols.take 2 ++ [List.replicate n [43]] ++ cols.drop 2) = _
      unfold joinKLine
      rw [transposeN_plus, List.map_map]
      congr 1

/-- **C04.replace_fields** — the bytes the driver's modified write (`Ext.writeModified`: `get_buffer` + `join_fields`, for the
delimited layouts, FASTA and FASTQ, with plain, rest-of-line and SAM-tag columns) produces for a well-formed extractor are, record by
record, the replaced columns' new text and for every other column of the entry type the ORIGINAL text of that column in the
denoted record, in the writer's layout -/
theorem replace_fields (e : Ext) (h : WF e) (lay : Layout) (kinds : List ColKind) (repl : List (Nat × List Bytes))
    (hk : RecsOK kinds e.abs) :
    e.writeModified lay kinds repl = ((specRows kinds repl e.abs).map (layoutRow lay)).flatten := by
  unfold Ext.writeModified
  rw [writeCols_rows, columns_rows e h kinds repl hk]

/-- the same for an eager table of field texts (`np.concatenate` of FASTQ / FASTA tables) -/
theorem eager_write_rows (lay : Layout) (nF : Nat) (repl : List (Nat × List Bytes)) (rows : List (List Bytes)) :
    writeRowsModified lay nF repl rows =
      (((List.range rows.length).map (fun i => (List.range nF).map (fun j =>
        match repl.find? (·.1 == j) with
        | some (_, col) => col.getD i []
        | none => (rows.getD i []).getD j []))).map (layoutRow lay)).flatten := by
  unfold writeRowsModified
  rw [writeCols_rows]
  congr 2
  unfold transposeN
  apply List.map_congr_left
  intro i hi
  have hil : i < rows.length := by simpa using hi
  rw [List.map_map]
  apply List.map_congr_left
  intro j _
  simp only [Function.comp]
  cases hrep : repl.find? (·.1 == j) with
  | some pc => rfl
  | none => simp [List.getD_eq_getElem?_getD, List.getElem?_eq_getElem hil]

theorem mem_pyIndex {α} (l r : List α) (ix : Idx) (h : pyIndex l ix = some r) : ∀ x ∈ r, x ∈ l := by
  unfold pyIndex at h
  cases hix : ix.toList l.length with
  | none => simp [hix] at h
  | some ixs =>
    simp [hix] at h
    subst h
    exact fun x hx => mem_gather l ixs x hx

/-- a program only ever hands out records of its input tables -/
theorem evalSpec_mem {α} (tabs : List (List α)) (p : Prog) :
    ∀ l, p.evalSpec tabs = some l → ∀ x ∈ l, ∃ t ∈ tabs, x ∈ t := by
  induction p with
  | leaf k =>
    intro l h x hx
    simp only [Prog.evalSpec] at h
    exact ⟨l, List.mem_of_getElem? h, hx⟩
  | sel p ix ih =>
    intro l h x hx
    simp only [Prog.evalSpec] at h
    cases hp : p.evalSpec tabs with
    | none => simp [hp] at h
    | some l0 =>
      simp [hp] at h
      exact ih l0 hp x (mem_pyIndex l0 l ix h x hx)
  | cat p q ihp ihq =>
    intro l h x hx
    simp only [Prog.evalSpec] at h
    cases hp : p.evalSpec tabs with
    | none => simp [hp] at h
    | some a =>
      cases hq : q.evalSpec tabs with
      | none => simp [hp, hq] at h
      | some b =>
        simp [hp, hq] at h
        subst h
        rcases List.mem_append.mp hx with hx | hx
        · exact ihp a hp x hx
        · exact ihq b hq x hx
  | catRange a n =>
    intro l h x hx
    simp only [Prog.evalSpec] at h
    split at h
    · simp only [Option.some.injEq] at h
      subst h
      obtain ⟨t, ht, hxt⟩ := List.mem_flatten.mp hx
      exact ⟨t, mem_take_drop tabs a n t ht, hxt⟩
    · simp at h
  | touch p ih =>
    intro l h x hx
    exact ih l h x hx
  | seq p q ihp ihq =>
    intro l h x hx
    simp only [Prog.evalSpec] at h
    cases hp : p.evalSpec tabs with
    | none => simp [hp] at h
    | some a =>
      simp [hp] at h
      exact ihq l h x hx

/-- **C04.program_replace** — the same after ANY program of selections, concatenations and in-between writes: the modified
write of the result consists of the replaced columns and, for every other column, the original text of the SELECTED SOURCE
records (or the program fails exactly when it fails on lists) -/
theorem program_replace (tabs : List Ext) (ht : ∀ t ∈ tabs, Inv t) (p : Prog) (lay : Layout) (kinds : List ColKind)
    (repl : List (Nat × List Bytes)) (hk : ∀ t ∈ tabs, RecsOK kinds t.abs) :
    (p.evalExt tabs).map (fun e => e.writeModified lay kinds repl) =
      (p.evalSpec (tabs.map Ext.abs)).map (fun recs => ((specRows kinds repl recs).map (layoutRow lay)).flatten) := by
  obtain ⟨h1, h2⟩ := program_abs tabs ht p
  rw [← h2]
  cases hp : p.evalExt tabs with
  | none => rfl
  | some e =>
    have hmem : RecsOK kinds e.abs := by
      intro r hr
      have hs : p.evalSpec (tabs.map Ext.abs) = some e.abs := by rw [← h2, hp]; rfl
      obtain ⟨t, ht', hrt⟩ := evalSpec_mem (tabs.map Ext.abs) p e.abs hs r hr
      obtain ⟨t0, ht0, rfl⟩ := List.mem_map.mp ht'
      exact hk t0 ht0 r hrt
    simp [replace_fields e (h1 e hp).1 lay kinds repl hmem]

end C04
