import BnpVerif.Model.C05
import BnpVerif.Props.C04Core
/-! C05 property theorems: bisimulation between the lazy three-store table and the eager
column table. Helper lemmas first; property theorems are listed in `Audit/C05.lean`. -/
namespace C05
open PyIdx
set_option linter.unusedSimpArgs false
set_option linter.unusedVariables false

/-! ### association lists (Python dicts) -/

theorem lookup_cons (m : FMap) (g : Nat) (c : Col) (f : Nat) :
    lookup ((g, c) :: m) f = if g = f then some c else lookup m f := by
  unfold lookup
  simp only [List.find?_cons]
  by_cases h : g = f
  · simp [h]
  · have : (g == f) = false := by simp [h]
    simp [h, this]

theorem lookup_erase (m : FMap) (g f : Nat) :
    lookup (erase m g) f = if g = f then none else lookup m f := by
  induction m with
  | nil => simp [erase, lookup]
  | cons p m ih =>
    obtain ⟨k, c⟩ := p
    unfold erase at ih ⊢
    simp only [List.filter_cons]
    by_cases hk : k = g
    · subst hk
      simp only [bne_self_eq_false, Bool.false_eq_true, if_false]
      rw [ih, lookup_cons]
      by_cases h : k = f <;> simp [h]
    · have : (k != g) = true := by simp [hk]
      simp only [this, if_true]
      rw [lookup_cons, lookup_cons, ih]
      by_cases h : g = f
      · subst h; simp [hk]
      · simp [h]

theorem lookup_insert (m : FMap) (g : Nat) (c : Col) (f : Nat) :
    lookup (insert m g c) f = if g = f then some c else lookup m f := by
  unfold insert
  rw [lookup_cons, lookup_erase]
  by_cases h : g = f <;> simp [h]

theorem lookup_mapVals (gf : Col → Col) (m : FMap) (f : Nat) :
    lookup (mapVals gf m) f = (lookup m f).map gf := by
  induction m with
  | nil => simp [mapVals, lookup]
  | cons p m ih =>
    obtain ⟨k, c⟩ := p
    unfold mapVals at ih ⊢
    simp only [List.map_cons]
    rw [lookup_cons, lookup_cons, ih]
    by_cases h : k = f <;> simp [h]

theorem lookup_isSome_iff_mem_keys (m : FMap) (f : Nat) : (lookup m f).isSome = (keys m).contains f := by
  induction m with
  | nil => simp [lookup, keys]
  | cons p m ih =>
    obtain ⟨k, c⟩ := p
    rw [lookup_cons]
    simp only [keys, List.map_cons, List.contains_cons] at ih ⊢
    by_cases h : k = f
    · subst h; simp
    · have : (f == k) = false := by simp; exact fun e => h e.symm
      simp [h, this, ih]

/-! ### the abstraction: what a lazy table shows for field f -/

def view (l : Lazy) (f : Nat) : Col :=
  match lookup l.set f with
  | some c => c
  | none =>
    match lookup l.computed f with
    | some c => c
    | none => fileCol l.buf f

/-- cache coherence: a cached column is what the buffer would parse now -/
def Coh (l : Lazy) : Prop := ∀ f c, lookup l.computed f = some c → c = fileCol l.buf f

/-- row alignment of the overlay with the buffer -/
def Aligned (l : Lazy) : Prop := ∀ f c, lookup l.set f = some c → c.length = l.buf.length

/-- the memoised data object (if any) is current -/
def DataOK (nF : Nat) (l : Lazy) : Prop := ∀ d, l.data = some d → d = (List.range nF).map (view l)

/-- the bisimulation relation -/
def R (nF : Nat) (l : Lazy) (e : Eager) : Prop :=
  Coh l ∧ Aligned l ∧ DataOK nF l ∧ e.cols = (List.range nF).map (view l)

theorem view_of_coh (l : Lazy) (h : Coh l) (f : Nat) :
    view l f = (lookup l.set f).getD (fileCol l.buf f) := by
  unfold view
  cases hs : lookup l.set f with
  | some c => rfl
  | none =>
    cases hc : lookup l.computed f with
    | some c => simp [h f c hc]
    | none => rfl

theorem fileCol_length (buf : List FRow) (f : Nat) : (fileCol buf f).length = buf.length := by
  simp [fileCol]

theorem view_length (l : Lazy) (hc : Coh l) (ha : Aligned l) (f : Nat) : (view l f).length = l.buf.length := by
  rw [view_of_coh l hc]
  cases hs : lookup l.set f with
  | some c => simp [ha f c hs]
  | none => simp [fileCol_length]

theorem R_len (nF : Nat) (hn : 0 < nF) (l : Lazy) (e : Eager) (h : R nF l e) : e.len = l.len := by
  obtain ⟨hc, ha, _, he⟩ := h
  unfold Eager.len Lazy.len
  rw [he]
  cases nF with
  | zero => omega
  | succ n =>
    simp only [List.range_succ_eq_map, List.map_cons, List.headD_cons]
    exact view_length l hc ha 0

theorem R_get_col (nF : Nat) (l : Lazy) (e : Eager) (h : R nF l e) (f : Nat) (hf : f < nF) :
    e.get f = view l f := by
  unfold Eager.get
  rw [h.2.2.2]
  simp [List.getD_eq_getElem?_getD, hf]

/-! ### get -/

theorem get_fst (l : Lazy) (f : Nat) : (l.get f).1 = view l f := by
  unfold Lazy.get view
  cases lookup l.set f with
  | some c => rfl
  | none =>
    cases lookup l.computed f with
    | some c => rfl
    | none => rfl

theorem get_snd_props (l : Lazy) (hc : Coh l) (f : Nat) :
    Coh (l.get f).2 ∧ (l.get f).2.set = l.set ∧ (l.get f).2.buf = l.buf ∧ (l.get f).2.data = l.data ∧
    (∀ g, view (l.get f).2 g = view l g) ∧
    (∀ g, (lookup l.computed g).isSome → (lookup (l.get f).2.computed g).isSome) := by
  unfold Lazy.get
  cases hs : lookup l.set f with
  | some c => exact ⟨hc, rfl, rfl, rfl, fun _ => rfl, fun _ h => h⟩
  | none =>
    cases hcm : lookup l.computed f with
    | some c => exact ⟨hc, rfl, rfl, rfl, fun _ => rfl, fun _ h => h⟩
    | none =>
      refine ⟨?_, rfl, rfl, rfl, ?_, ?_⟩
      · intro g c hg
        simp only at hg
        rw [lookup_insert] at hg
        by_cases h : f = g
        · subst h; simp at hg; exact hg.symm
        · simp [h] at hg; exact hc g c hg
      · intro g
        unfold view
        simp only
        rw [lookup_insert]
        by_cases h : f = g
        · subst h; simp [hs, hcm]
        · simp [h]
      · intro g hg
        rw [lookup_insert]
        by_cases h : f = g <;> simp [h, hg]

theorem R_get (nF : Nat) (l : Lazy) (e : Eager) (h : R nF l e) (f : Nat) : R nF (l.get f).2 e := by
  obtain ⟨hc, ha, hd, he⟩ := h
  obtain ⟨p1, p2, p3, p4, p5, _⟩ := get_snd_props l hc f
  refine ⟨p1, ?_, ?_, ?_⟩
  · intro g c hg; rw [p2] at hg; rw [p3]; exact ha g c hg
  · intro d hdd; rw [p4] at hdd; rw [hd d hdd]; exact List.map_congr_left (fun g _ => (p5 g).symm)
  · rw [he]; exact List.map_congr_left (fun g _ => (p5 g).symm)

/-! ### selection -/

theorem fileCol_gather (buf : List FRow) (f : Nat) (ixs : List Nat) :
    fileCol (gather buf ixs) f = gather (fileCol buf f) ixs := by
  unfold fileCol; rw [gather_map]

theorem view_select (l : Lazy) (hc : Coh l) (ixs : List Nat) (f : Nat) :
    view (l.select ixs) f = gather (view l f) ixs := by
  unfold view Lazy.select
  simp only [lookup_mapVals]
  cases hs : lookup l.set f with
  | some c => rfl
  | none =>
    cases hcm : lookup l.computed f with
    | some c => rfl
    | none => simp [fileCol_gather]

theorem R_select (nF : Nat) (l : Lazy) (e : Eager) (h : R nF l e) (ixs : List Nat)
    (hv : ∀ k ∈ ixs, k < l.len) : R nF (l.select ixs) (e.select ixs) := by
  obtain ⟨hc, ha, hd, he⟩ := h
  refine ⟨?_, ?_, ?_, ?_⟩
  · intro f c hf
    simp only [Lazy.select, lookup_mapVals] at hf
    cases hcm : lookup l.computed f with
    | none => simp [hcm] at hf
    | some c0 =>
      simp [hcm] at hf
      subst hf
      rw [hc f c0 hcm]
      simp only [Lazy.select]
      exact (fileCol_gather l.buf f ixs).symm
  · intro f c hf
    simp only [Lazy.select, lookup_mapVals] at hf
    cases hs : lookup l.set f with
    | none => simp [hs] at hf
    | some c0 =>
      simp [hs] at hf
      subst hf
      simp only [Lazy.select]
      rw [gather_length _ _ (by rw [ha f c0 hs]; exact hv), gather_length _ _ hv]
  · intro d hdd; simp [Lazy.select] at hdd
  · unfold Eager.select
    simp only
    rw [he, List.map_map]
    exact List.map_congr_left (fun f _ => (view_select l hc ixs f).symm)

/-- **C05.step_index** — indexing (every NumPy index form) keeps lazy and eager related, and fails in both or in neither -/
theorem step_index (nF : Nat) (hn : 0 < nF) (l : Lazy) (e : Eager) (h : R nF l e) (ix : Idx) :
    match l.index ix, e.index ix with
    | some l', some e' => R nF l' e'
    | none, none => True
    | _, _ => False := by
  unfold Lazy.index Eager.index
  rw [R_len nF hn l e h]
  cases hix : ix.toList l.len with
  | none => simp
  | some ixs =>
    simp only [Option.map_some]
    exact R_select nF l e h ixs (toList_lt _ _ _ hix)

/-! ### attribute assignment and replace -/

theorem view_setattr (l : Lazy) (f : Nat) (c : Col) (g : Nat) :
    view (l.setattr f c) g = if f = g then c else view l g := by
  unfold view Lazy.setattr
  simp only [lookup_insert, lookup_erase]
  by_cases h : f = g <;> simp [h]

theorem map_range_set {α} (n : Nat) (F : Nat → α) (f : Nat) (c : α) :
    ((List.range n).map F).set f c = (List.range n).map (fun g => if f = g then c else F g) := by
  apply List.ext_getElem
  · simp
  · intro i h1 h2
    simp only [List.length_set, List.length_map, List.length_range] at h1
    simp only [List.getElem_set, List.getElem_map, List.getElem_range]

theorem R_setattr (nF : Nat) (l : Lazy) (e : Eager) (h : R nF l e) (f : Nat) (c : Col)
    (hc : c.length = l.buf.length) : R nF (l.setattr f c) (e.setattr f c) := by
  obtain ⟨hco, ha, _, he⟩ := h
  refine ⟨?_, ?_, ?_, ?_⟩
  · intro g c' hg
    simp only [Lazy.setattr, lookup_erase] at hg
    by_cases hfg : f = g
    · simp [hfg] at hg
    · simp [hfg] at hg; exact hco g c' hg
  · intro g c' hg
    simp only [Lazy.setattr, lookup_insert] at hg
    by_cases hfg : f = g
    · simp [hfg] at hg; subst hg; exact hc
    · simp [hfg] at hg; exact ha g c' hg
  · intro d hd; simp [Lazy.setattr] at hd
  · unfold Eager.setattr
    simp only
    rw [he, map_range_set]
    exact List.map_congr_left (fun g _ => (view_setattr l f c g).symm)

/-- the shipped `__setattr__` keeps a stale memoised data object: after `tolist()`, `t.f = x`, `tolist()`
still shows the old column. Recorded refutation (the repaired rule is `Lazy.setattr`). -/
theorem setattrOld_unsound :
    let row : FRow := ⟨[49, 10], [⟨[49], [49]⟩]⟩
    let l0 := Lazy.ofFile [row]
    let l1 := (l0.dataObject 1).2
    let l2 := l1.setattrOld 0 [[55]]
    (l2.dataObject 1).1 = [[[49]]] ∧ ((Eager.ofFile 1 [row]).setattr 0 [[55]]).cols = [[[55]]] := by
  decide

theorem R_forget_cache (nF : Nat) (l : Lazy) (e : Eager) (h : R nF l e) :
    R nF ⟨l.buf, [], l.set, none⟩ e := by
  obtain ⟨hco, ha, _, he⟩ := h
  have hv : ∀ g, view ⟨l.buf, [], l.set, none⟩ g = view l g := by
    intro g
    have hc0 : Coh ⟨l.buf, [], l.set, none⟩ := by intro f c hf; simp [lookup] at hf
    rw [view_of_coh l hco, view_of_coh _ hc0]
  refine ⟨?_, ha, ?_, ?_⟩
  · intro f c hf; simp [lookup] at hf
  · intro d hd; simp at hd
  · rw [he]; exact List.map_congr_left (fun g _ => (hv g).symm)

theorem R_replace_aux (nF : Nat) (buf : List FRow) (kw : FMap)
    (hkw : ∀ p ∈ kw, p.2.length = buf.length) :
    ∀ (S : FMap) (e : Eager), R nF ⟨buf, [], S, none⟩ e → R nF ⟨buf, [], update S kw, none⟩ (e.replace kw) := by
  induction kw with
  | nil => intro S e h; exact h
  | cons p kw ih =>
    intro S e h
    obtain ⟨f, c⟩ := p
    simp only [update, Eager.replace]
    apply ih (fun q hq => hkw q (by simp [hq]))
    have := R_setattr nF ⟨buf, [], S, none⟩ e h f c (hkw (f, c) (by simp))
    simpa [Lazy.setattr, erase] using this

/-- **C05.step_replace** — `replace(t, **kw)` (new object: cache dropped, overlay updated) keeps lazy and eager related -/
theorem step_replace (nF : Nat) (l : Lazy) (e : Eager) (h : R nF l e) (kw : FMap)
    (hkw : ∀ p ∈ kw, p.2.length = l.buf.length) : R nF (l.replace kw) (e.replace kw) := by
  unfold Lazy.replace
  exact R_replace_aux nF l.buf kw hkw l.set e (R_forget_cache nF l e h)

/-! ### materialisation: get_data_object / tolist / t[i] -/

theorem getAll_spec : ∀ (n f : Nat) (l : Lazy), Coh l →
    (getAll n f l).1 = (List.range' f n).map (view l) ∧ Coh (getAll n f l).2 ∧
    (getAll n f l).2.set = l.set ∧ (getAll n f l).2.buf = l.buf ∧ (getAll n f l).2.data = l.data ∧
    (∀ g, view (getAll n f l).2 g = view l g) := by
  intro n
  induction n with
  | zero => intro f l hc; exact ⟨rfl, hc, rfl, rfl, rfl, fun _ => rfl⟩
  | succ n ih =>
    intro f l hc
    obtain ⟨p1, p2, p3, p4, p5, _⟩ := get_snd_props l hc f
    obtain ⟨i1, i2, i3, i4, i5, i6⟩ := ih (f + 1) (l.get f).2 p1
    simp only [getAll]
    refine ⟨?_, i2, by rw [i3, p2], by rw [i4, p3], by rw [i5, p4], fun g => by rw [i6, p5]⟩
    rw [List.range'_succ, List.map_cons, i1, get_fst]
    congr 1
    exact List.map_congr_left (fun g _ => p5 g)

theorem dataObject_spec (nF : Nat) (l : Lazy) (e : Eager) (h : R nF l e) :
    (l.dataObject nF).1 = e.cols ∧ R nF (l.dataObject nF).2 e ∧ (l.dataObject nF).2.buf = l.buf := by
  obtain ⟨hco, ha, hd, he⟩ := h
  unfold Lazy.dataObject
  cases hdat : l.data with
  | some d => exact ⟨by rw [hd d hdat, he], ⟨hco, ha, hd, he⟩, rfl⟩
  | none =>
    obtain ⟨i1, i2, i3, i4, _, i6⟩ := getAll_spec nF 0 l hco
    simp only
    have hcols : (getAll nF 0 l).1 = (List.range nF).map (view l) := by rw [i1, List.range_eq_range']
    have hv : ∀ g, view { (getAll nF 0 l).2 with data := some (getAll nF 0 l).1 } g = view l g := by
      intro g; rw [← i6 g]; rfl
    refine ⟨by rw [hcols, he], ⟨?_, ?_, ?_, ?_⟩, i4⟩
    · exact i2
    · intro f c hf; simp only at hf; rw [i3] at hf; simp only; rw [i4]; exact ha f c hf
    · intro d hdd
      simp only [Option.some.injEq] at hdd
      rw [← hdd, hcols]
      exact List.map_congr_left (fun g _ => (hv g).symm)
    · rw [he]; exact List.map_congr_left (fun g _ => (hv g).symm)

theorem gather_single_getD {α} (c : List α) (j : Nat) (d : α) : (gather c [j]).getD 0 d = c.getD j d := by
  rw [gather_cons]
  cases h : c[j]? with
  | some x => simp [List.getD_eq_getElem?_getD, h]
  | none => simp [List.getD_eq_getElem?_getD, h]

theorem rowOf_select (cols : List Col) (j : Nat) :
    rowOf (cols.map (fun c => gather c [j])) 0 = rowOf cols j := by
  unfold rowOf
  rw [List.map_map]
  exact List.map_congr_left (fun c _ => gather_single_getD c j [])

/-! ### concatenation -/

theorem getMany_props : ∀ (ns : List Nat) (a : Lazy), Coh a →
    Coh (getMany ns a) ∧ (getMany ns a).set = a.set ∧ (getMany ns a).buf = a.buf ∧
    (getMany ns a).data = a.data ∧ (∀ g, view (getMany ns a) g = view a g) := by
  intro ns
  induction ns with
  | nil => intro a hc; exact ⟨hc, rfl, rfl, rfl, fun _ => rfl⟩
  | cons n ns ih =>
    intro a hc
    obtain ⟨p1, p2, p3, p4, p5, _⟩ := get_snd_props a hc n
    obtain ⟨i1, i2, i3, i4, i5⟩ := ih (a.get n).2 p1
    simp only [getMany]
    exact ⟨i1, by rw [i2, p2], by rw [i3, p3], by rw [i4, p4], fun g => by rw [i5, p5]⟩

theorem R_getMany (nF : Nat) (ns : List Nat) (a : Lazy) (e : Eager) (h : R nF a e) : R nF (getMany ns a) e := by
  induction ns generalizing a with
  | nil => exact h
  | cons n ns ih => exact ih (a.get n).2 (R_get nF a e h n)

theorem getEach_spec (name : Nat) (ls : List Lazy) :
    (getEach name ls).1 = ls.map (fun a => view a name) ∧
    (getEach name ls).2 = ls.map (fun a => (a.get name).2) := by
  induction ls with
  | nil => exact ⟨rfl, rfl⟩
  | cons a r ih =>
    obtain ⟨i1, i2⟩ := ih
    exact ⟨by simp only [getEach, List.map_cons, i1, get_fst], by simp only [getEach, List.map_cons, i2]⟩

theorem concatSet_spec : ∀ (names : List Nat) (ls : List Lazy), (∀ a ∈ ls, Coh a) →
    (concatSet names ls).1 = names.map (fun n => (n, (ls.map (fun a => view a n)).flatten)) ∧
    (concatSet names ls).2 = ls.map (getMany names) := by
  intro names
  induction names with
  | nil => intro ls _; simp [concatSet, getMany]
  | cons n ns ih =>
    intro ls hc
    obtain ⟨g1, g2⟩ := getEach_spec n ls
    have hc1 : ∀ a ∈ (getEach n ls).2, Coh a := by
      intro a ha
      rw [g2, List.mem_map] at ha
      obtain ⟨a0, ha0, rfl⟩ := ha
      exact (get_snd_props a0 (hc a0 ha0) n).1
    obtain ⟨i1, i2⟩ := ih (getEach n ls).2 hc1
    simp only [concatSet, List.map_cons]
    refine ⟨?_, ?_⟩
    · rw [g1, i1, g2]
      congr 1
      apply List.map_congr_left
      intro m _
      simp only [List.map_map]
      congr 2
      apply List.map_congr_left
      intro a ha
      simp only [Function.comp]
      exact (get_snd_props a (hc a ha) n).2.2.2.2.1 m
    · rw [i2, g2, List.map_map]
      rfl

theorem lookup_map_names (names : List Nat) (X : Nat → Col) (f : Nat) :
    lookup (names.map (fun n => (n, X n))) f = if names.contains f then some (X f) else none := by
  induction names with
  | nil => simp [lookup]
  | cons n ns ih =>
    simp only [List.map_cons]
    rw [lookup_cons, ih]
    by_cases h : n = f
    · subst h; simp
    · have hfn : ¬ f = n := fun e => h e.symm
      simp [h, hfn]

theorem fileCol_flatten (bufs : List (List FRow)) (f : Nat) :
    fileCol bufs.flatten f = (bufs.map (fun b => fileCol b f)).flatten := by
  unfold fileCol
  rw [List.map_flatten]

theorem view_mk (buf : List FRow) (comp st : FMap) (d : Option (List Col)) (f : Nat) :
    view ⟨buf, comp, st, d⟩ f =
      (match lookup st f with
       | some c => c
       | none => match lookup comp f with
         | some c => c
         | none => fileCol buf f) := rfl

/-- everything the repaired concatenate guarantees about its result and its operands -/
theorem concatNew_spec (nF : Nat) (af : Bool) (ls : List Lazy) (hne : ls ≠ []) (hc : ∀ a ∈ ls, Coh a) (ha : ∀ a ∈ ls, Aligned a) :
    ∃ r, concatNew nF af ls = some (r, ls.map (getMany ((List.range nF).filter (fun name => af || ls.any (fun a => (lookup a.set name).isSome))))) ∧
      Coh r ∧ Aligned r ∧ r.data = none ∧ r.buf = (ls.map (·.buf)).flatten ∧
      (∀ f, f < nF → view r f = (ls.map (fun a => view a f)).flatten) := by
  cases ls with
  | nil => exact absurd rfl hne
  | cons self rest =>
    obtain ⟨names, hnames⟩ : ∃ names, names = (List.range nF).filter (fun name => af || (self :: rest).any (fun a => (lookup a.set name).isSome)) := ⟨_, rfl⟩
    obtain ⟨s1, s2⟩ := concatSet_spec names (self :: rest) hc
    obtain ⟨ls', hls'⟩ : ∃ ls', ls' = (self :: rest).map (getMany names) := ⟨_, rfl⟩
    have hmem : ∀ f, names.contains f = true ↔ (f < nF ∧ (af = true ∨ ∃ a ∈ (self :: rest), (lookup a.set f).isSome = true)) := by
      intro f
      rw [hnames]
      simp only [List.contains_iff_mem, List.mem_filter, List.mem_range, List.any_eq_true, Bool.or_eq_true]
    -- operands after the getattr calls
    have hls'_props : ∀ a' ∈ ls', ∃ a ∈ (self :: rest), Coh a' ∧ a'.buf = a.buf ∧ a'.set = a.set := by
      intro a' h'
      rw [hls', List.mem_map] at h'
      obtain ⟨a, hmem', rfl⟩ := h'
      obtain ⟨q1, q2, q3, _, _⟩ := getMany_props names a (hc a hmem')
      exact ⟨a, hmem', q1, q3, q2⟩
    -- a cached column of every operand, concatenated, is the file column of the concatenated buffer
    have hcomp : ∀ f, (∀ a' ∈ ls', (lookup a'.computed f).isSome = true) →
        (ls'.map (fun a => (lookup a.computed f).getD [])).flatten = fileCol ((self :: rest).map (·.buf)).flatten f := by
      intro f hall
      rw [fileCol_flatten, hls', List.map_map, List.map_map]
      congr 1
      apply List.map_congr_left
      intro a hmem'
      simp only [Function.comp]
      obtain ⟨q1, _, q3, _, _⟩ := getMany_props names a (hc a hmem')
      have hs := hall (getMany names a) (by rw [hls']; exact List.mem_map_of_mem hmem')
      obtain ⟨c, hcc⟩ := Option.isSome_iff_exists.mp hs
      rw [hcc, Option.getD_some, q1 f c hcc, q3]
    obtain ⟨compV, hcompV⟩ : ∃ compV : FMap, compV =
        ((keys (ls'.headD self).computed).filter (fun name => !names.contains name && ls'.all (fun a => (lookup a.computed name).isSome))).map
          (fun name => (name, (ls'.map (fun a => (lookup a.computed name).getD [])).flatten)) := ⟨_, rfl⟩
    refine ⟨⟨((self :: rest).map (·.buf)).flatten, compV, (concatSet names (self :: rest)).1, none⟩, ?_, ?_, ?_, rfl, rfl, ?_⟩
    · simp only [concatNew]
      rw [← hnames, s2, ← hls', ← hcompV]
    · -- Coh of the result
      intro f c hf
      simp only at hf
      rw [hcompV, lookup_map_names (X := fun name => (ls'.map (fun a => (lookup a.computed name).getD [])).flatten)] at hf
      split at hf
      · rename_i hin
        simp only [List.contains_iff_mem, List.mem_filter, Bool.and_eq_true, List.all_eq_true] at hin
        simp only [Option.some.injEq] at hf
        rw [← hf]
        exact hcomp f hin.2.2
      · simp at hf
    · -- Aligned
      intro f c hf
      simp only at hf
      rw [s1, lookup_map_names (X := fun n => ((self :: rest).map (fun a => view a n)).flatten)] at hf
      split at hf
      · simp only [Option.some.injEq] at hf
        rw [← hf]
        simp only [List.length_flatten, List.map_map]
        congr 1
        apply List.map_congr_left
        intro a hmem'
        simp only [Function.comp]
        exact view_length a (hc a hmem') (ha a hmem') f
      · simp at hf
    · -- the view of the result
      intro f hf
      rw [view_mk, s1, lookup_map_names (X := fun n => ((self :: rest).map (fun a => view a n)).flatten)]
      by_cases hin : names.contains f = true
      · simp only [hin, if_true]
      · simp only [hin, Bool.false_eq_true, if_false]
        -- no operand has f set: every operand shows its file column
        have hnone : ∀ a ∈ (self :: rest), lookup a.set f = none := by
          intro a hmem'
          cases hl : lookup a.set f with
          | none => rfl
          | some c => exact absurd ((hmem f).mpr ⟨hf, Or.inr ⟨a, hmem', by simp [hl]⟩⟩) hin
        have hviews : ((self :: rest).map (fun a => view a f)).flatten = fileCol ((self :: rest).map (·.buf)).flatten f := by
          rw [fileCol_flatten, List.map_map]
          congr 1
          apply List.map_congr_left
          intro a hmem'
          simp only [Function.comp]
          rw [view_of_coh a (hc a hmem'), hnone a hmem']; rfl
        rw [hcompV, lookup_map_names (X := fun name => (ls'.map (fun a => (lookup a.computed name).getD [])).flatten)]
        split
        · rename_i c heq
          split at heq
          · rename_i hin2
            simp only [List.contains_iff_mem, List.mem_filter, Bool.and_eq_true, List.all_eq_true] at hin2
            simp only [Option.some.injEq] at heq
            rw [← heq, hviews]
            exact hcomp f hin2.2.2
          · simp at heq
        · exact hviews.symm

theorem appendCols_map (n : Nat) (F G : Nat → Col) :
    appendCols ((List.range' 0 n).map F) ((List.range' 0 n).map G) = (List.range' 0 n).map (fun g => F g ++ G g) := by
  generalize 0 = s
  induction n generalizing s with
  | zero => rfl
  | succ n ih => simp only [List.range'_succ, List.map_cons, appendCols, ih]

/-- **C05.step_concat** — `np.concatenate([t, u])` (repaired rule) on related pairs gives related results, and leaves
both operands related to their eager counterparts (only their caches may have been filled) -/
theorem step_concat (nF : Nat) (af : Bool) (la lb : Lazy) (ea eb : Eager) (h1 : R nF la ea) (h2 : R nF lb eb) :
    ∃ r la' lb', concatNew nF af [la, lb] = some (r, [la', lb']) ∧
      R nF r ⟨appendCols ea.cols eb.cols⟩ ∧ R nF la' ea ∧ R nF lb' eb ∧ Eager.concat [ea, eb] = some ⟨appendCols ea.cols eb.cols⟩ := by
  have hc : ∀ a ∈ [la, lb], Coh a := by
    intro a ha; simp at ha; rcases ha with rfl | rfl
    · exact h1.1
    · exact h2.1
  have hal : ∀ a ∈ [la, lb], Aligned a := by
    intro a ha; simp at ha; rcases ha with rfl | rfl
    · exact h1.2.1
    · exact h2.2.1
  obtain ⟨r, hr, c1, c2, c3, c4, c5⟩ := concatNew_spec nF af [la, lb] (by simp) hc hal
  refine ⟨r, _, _, hr, ⟨c1, c2, ?_, ?_⟩, R_getMany nF _ la ea h1, R_getMany nF _ lb eb h2, rfl⟩
  · intro d hd; rw [c3] at hd; simp at hd
  · simp only
    rw [h1.2.2.2, h2.2.2.2, List.range_eq_range', appendCols_map]
    apply List.map_congr_left
    intro f hf
    rw [c5 f (by simpa using hf)]
    simp

/-- the shipped rule is refuted: `np.concatenate([t, replace(u, f0=[7])])` shows u's FILE value where the eager tables
show 7; and with f0 cached only in `t` the shipped rule fails (KeyError) where the eager concatenate succeeds. -/
theorem concatOld_unsound :
    let rowT : FRow := ⟨[49, 10], [⟨[49], [49]⟩]⟩
    let rowU : FRow := ⟨[51, 10], [⟨[51], [51]⟩]⟩
    let t := Lazy.ofFile [rowT]
    let u := (Lazy.ofFile [rowU]).replace [(0, [[55]])]
    (concatOld [t, u]).map (fun r => view r 0) = some [[49], [51]] ∧
    (Eager.concat [Eager.ofFile 1 [rowT], (Eager.ofFile 1 [rowU]).replace [(0, [[55]])]]).map (·.cols) = some [[[49], [55]]] ∧
    concatOld [(t.get 0).2, u] = none := by
  decide

/-! ### writing -/

/-- a file whose text is canonical for the entry type: every record is exactly the join of its
fields' texts, there are no columns beyond the entry type, and every text is the canonical spelling
of its value (`dump (parse bytes) = bytes`) -/
def Canon (nF : Nat) (join : List Bytes → Bytes) (buf : List FRow) : Prop :=
  ∀ r ∈ buf, r.cells.length = nF ∧ r.raw = join (r.cells.map (·.text)) ∧ ∀ c ∈ r.cells, c.text = c.val

theorem lookup_of_isEmpty (m : FMap) (h : m.isEmpty = true) (f : Nat) : lookup m f = none := by
  cases m with
  | nil => rfl
  | cons p m => simp at h

theorem fileCol_getD (buf : List FRow) (f i : Nat) :
    (fileCol buf f).getD i [] = (((buf[i]?).bind (fun r => r.cells[f]?)).map (·.val)).getD [] := by
  unfold fileCol
  simp only [List.getD_eq_getElem?_getD, List.getElem?_map]
  cases buf[i]? with
  | none => rfl
  | some r => simp

/-- **C05.write_equal** — for a canonical file, what the lazy table writes (raw bytes when untouched; original field text
joined with the overlay's values otherwise) is byte-for-byte what the eager table writes -/
theorem write_equal (nF : Nat) (hn : 0 < nF) (join : List Bytes → Bytes) (l : Lazy) (e : Eager) (h : R nF l e)
    (hcan : Canon nF join l.buf) : l.write join nF = e.write join := by
  have hlen := R_len nF hn l e h
  obtain ⟨hco, _, _, he⟩ := h
  unfold Eager.write transposeN
  rw [hlen, he]
  unfold Lazy.len rowOf
  simp only [List.map_map]
  unfold Lazy.write
  split
  · rename_i hemp
    congr 1
    apply List.ext_getElem
    · simp
    · intro i h1 h2
      simp only [List.length_map] at h1
      simp only [List.getElem_map, List.getElem_range, Function.comp]
      obtain ⟨c1, c2, c3⟩ := hcan l.buf[i] (List.getElem_mem _)
      rw [c2]
      congr 1
      apply List.ext_getElem
      · simp [c1]
      · intro f hf1 hf2
        simp only [List.length_map] at hf1
        simp only [List.getElem_map, List.getElem_range, Function.comp]
        rw [view_of_coh l hco, lookup_of_isEmpty _ hemp, Option.getD_none, fileCol_getD]
        simp [List.getElem?_eq_getElem h1, List.getElem?_eq_getElem hf1, c3 _ (List.getElem_mem hf1)]
  · congr 1
    apply List.map_congr_left
    intro i hi
    simp only [Function.comp, List.mem_range] at hi ⊢
    congr 1
    apply List.map_congr_left
    intro f hf
    simp only [List.mem_range] at hf
    simp only [Function.comp]
    rw [view_of_coh l hco]
    cases hs : lookup l.set f with
    | some c => rfl
    | none =>
      simp only [Option.getD_none]
      rw [fileCol_getD]
      obtain ⟨c1, _, c3⟩ := hcan l.buf[i] (List.getElem_mem _)
      have hf' : f < l.buf[i].cells.length := by omega
      simp [List.getElem?_eq_getElem hi, List.getElem?_eq_getElem hf', c3 _ (List.getElem_mem hf')]

/-! ### the register machine: every step preserves the relation and gives equal observations -/

def RAll (nF : Nat) (ls : List Lazy) (es : List Eager) : Prop :=
  ls.length = es.length ∧ ∀ (i : Nat) (l : Lazy) (e : Eager), ls[i]? = some l → es[i]? = some e → R nF l e

theorem RAll_some (nF : Nat) (ls : List Lazy) (es : List Eager) (h : RAll nF ls es) (a : Nat) (l : Lazy)
    (hl : ls[a]? = some l) : ∃ e, es[a]? = some e ∧ R nF l e := by
  have ha : a < ls.length := by
    cases hlt : decide (a < ls.length) with
    | true => exact of_decide_eq_true hlt
    | false =>
      have : ls.length ≤ a := Nat.le_of_not_lt (of_decide_eq_false hlt)
      rw [List.getElem?_eq_none this] at hl; simp at hl
  have hb : a < es.length := by rw [← h.1]; exact ha
  exact ⟨es[a], List.getElem?_eq_getElem hb, h.2 a l es[a] hl (List.getElem?_eq_getElem hb)⟩

theorem RAll_none (nF : Nat) (ls : List Lazy) (es : List Eager) (h : RAll nF ls es) (a : Nat)
    (hl : ls[a]? = none) : es[a]? = none := by
  rw [List.getElem?_eq_none_iff] at hl ⊢
  rw [← h.1]; exact hl

theorem RAll_set (nF : Nat) (ls : List Lazy) (es : List Eager) (h : RAll nF ls es) (a : Nat) (l' : Lazy) (e' : Eager)
    (hr : R nF l' e') : RAll nF (ls.set a l') (es.set a e') := by
  refine ⟨by simp [h.1], ?_⟩
  intro i l e hl he
  rw [List.getElem?_set] at hl he
  by_cases hai : a = i
  · simp only [hai, if_true] at hl he
    split at hl
    · split at he
      · simp at hl he; subst hl; subst he; exact hr
      · simp at he
    · simp at hl
  · simp only [hai, if_false] at hl he
    exact h.2 i l e hl he

theorem set_self_of_getElem? {α} (l : List α) (a : Nat) (x : α) (h : l[a]? = some x) : l.set a x = l := by
  apply List.ext_getElem?
  intro i
  rw [List.getElem?_set]
  by_cases hai : a = i
  · subst hai
    have : a < l.length := by
      cases hlt : decide (a < l.length) with
      | true => exact of_decide_eq_true hlt
      | false => rw [List.getElem?_eq_none (Nat.le_of_not_lt (of_decide_eq_false hlt))] at h; simp at h
    rw [h]; simp [this]
  · simp [hai]

def Op.isWrite : Op → Bool
  | .write _ => true
  | _ => false

/-- the arguments of an operation fit the table it is applied to: replacement columns have one value per row. (This is the
DOMAIN of the property, not a totalisation: on an ill-sized column the real lazy table accepts the assignment and fails at the
next materialisation while the real eager `replace` raises at once — a caller error the two modes do not agree on;
`illsized_setattr_diverges` shows the model's two sides diverge there too. A field number outside the entry type is NOT
guarded: both machines fail, as both real tables raise AttributeError.) -/
def OpOK (op : Op) (ls : List Lazy) : Prop :=
  match op with
  | .replace a _ kw => ∀ l, ls[a]? = some l → ∀ p ∈ kw, p.2.length = l.buf.length
  | .setattr a _ c => ∀ l, ls[a]? = some l → c.length = l.buf.length
  | _ => True

/-- hide the PAYLOAD of a written-bytes observation; failure stays failure -/
def maskObs : Obs → Obs
  | .bytes _ => .bytes []
  | o => o

def CanonAll (nF : Nat) (join : List Bytes → Bytes) (ls : List Lazy) : Prop := ∀ l ∈ ls, Canon nF join l.buf

theorem CanonAll_set (nF : Nat) (join : List Bytes → Bytes) (ls : List Lazy) (h : CanonAll nF join ls) (a : Nat) (l' : Lazy)
    (hl : Canon nF join l'.buf) : CanonAll nF join (ls.set a l') := by
  intro l hmem
  rcases List.mem_or_eq_of_mem_set hmem with h1 | h1
  · exact h l h1
  · subst h1; exact hl

theorem canon_of_getElem? (nF : Nat) (join : List Bytes → Bytes) (ls : List Lazy) (h : CanonAll nF join ls) (a : Nat) (l : Lazy)
    (hl : ls[a]? = some l) : Canon nF join l.buf := h l (List.mem_of_getElem? hl)

theorem canon_gather (nF : Nat) (join : List Bytes → Bytes) (buf : List FRow) (h : Canon nF join buf) (ixs : List Nat) :
    Canon nF join (gather buf ixs) := fun r hr => h r (mem_gather _ _ _ hr)

/-- the core of `step_preserves` -/
theorem step_core (k : Cfg) (hn : 0 < k.nF) (hfc : k.fixedConcat = true) (hfs : k.fixedSetattr = true)
    (canon : Bool) (op : Op) (ls : List Lazy) (es : List Eager)
    (h : RAll k.nF ls es) (hcan : canon = true → CanonAll k.nF k.join ls) (hok : OpOK op ls) :
    ((stepLazy k op ls).1 = (stepEager k op es).1 ∨
      (op.isWrite = true ∧ (canon = false ∨ k.modWrite = false ∨ k.eagerWrite = false))) ∧
    RAll k.nF (stepLazy k op ls).2 (stepEager k op es).2 ∧
    (canon = true → CanonAll k.nF k.join (stepLazy k op ls).2) := by
  cases op with
  | len a =>
    cases hl : ls[a]? with
    | none => simp only [stepLazy, stepEager, hl, RAll_none _ _ _ h a hl]; exact ⟨Or.inl (by first | rfl | trivial), h, hcan⟩
    | some l =>
      obtain ⟨e, he, hr⟩ := RAll_some _ _ _ h a l hl
      simp only [stepLazy, stepEager, hl, he, hfs, if_true]
      exact ⟨Or.inl (by simp [R_len k.nF hn l e hr]), h, hcan⟩
  | get a f =>
    cases hl : ls[a]? with
    | none => simp only [stepLazy, stepEager, hl, RAll_none _ _ _ h a hl]; exact ⟨Or.inl (by first | rfl | trivial), h, hcan⟩
    | some l =>
      obtain ⟨e, he, hr⟩ := RAll_some _ _ _ h a l hl
      simp only [stepLazy, stepEager, hl, he, hfs, if_true]
      by_cases hf : f < k.nF
      · simp only [hf, if_true]
        refine ⟨Or.inl (by simp only [get_fst, R_get_col k.nF l e hr f hf]), ?_, ?_⟩
        · have := RAll_set _ _ _ h a (l.get f).2 e (R_get k.nF l e hr f)
          rwa [set_self_of_getElem? _ _ _ he] at this
        · intro hc
          exact CanonAll_set _ _ _ (hcan hc) a _ (by rw [(get_snd_props l hr.1 f).2.2.1]; exact canon_of_getElem? _ _ _ (hcan hc) a l hl)
      · simp only [hf, if_false]
        exact ⟨Or.inl (by first | rfl | trivial), h, hcan⟩
  | index a d ix =>
    cases hl : ls[a]? with
    | none => simp only [stepLazy, stepEager, hl, RAll_none _ _ _ h a hl]; exact ⟨Or.inl (by first | rfl | trivial), h, hcan⟩
    | some l =>
      obtain ⟨e, he, hr⟩ := RAll_some _ _ _ h a l hl
      simp only [stepLazy, stepEager, hl, he, hfs, if_true]
      have hs := step_index k.nF hn l e hr ix
      cases hli : l.index ix with
      | none =>
        cases hei : e.index ix with
        | none => exact ⟨Or.inl (by first | rfl | trivial), h, hcan⟩
        | some e' => rw [hli, hei] at hs; exact absurd hs id
      | some l' =>
        cases hei : e.index ix with
        | none => rw [hli, hei] at hs; exact absurd hs id
        | some e' =>
          rw [hli, hei] at hs
          refine ⟨Or.inl (by simp [R_len k.nF hn l' e' hs]), RAll_set _ _ _ h d l' e' hs, ?_⟩
          intro hc
          apply CanonAll_set _ _ _ (hcan hc) d
          unfold Lazy.index at hli
          cases hix : ix.toList l.len with
          | none => simp [hix] at hli
          | some ixs =>
            simp [hix] at hli; subst hli
            exact canon_gather _ _ _ (canon_of_getElem? _ _ _ (hcan hc) a l hl) ixs
  | row a i =>
    cases hl : ls[a]? with
    | none => simp only [stepLazy, stepEager, hl, RAll_none _ _ _ h a hl]; exact ⟨Or.inl (by first | rfl | trivial), h, hcan⟩
    | some l =>
      obtain ⟨e, he, hr⟩ := RAll_some _ _ _ h a l hl
      simp only [stepLazy, stepEager, hl, he, R_len k.nF hn l e hr]
      cases hj : norm l.len i with
      | none => exact ⟨Or.inl (by first | rfl | trivial), h, hcan⟩
      | some j =>
        refine ⟨Or.inl ?_, h, hcan⟩
        have hv : ∀ x ∈ [j], x < l.len := by intro x hx; simp at hx; subst hx; exact norm_lt hj
        have hsel := R_select k.nF l e hr [j] hv
        obtain ⟨d1, _, _⟩ := dataObject_spec k.nF (l.select [j]) (e.select [j]) hsel
        simp only [d1, Eager.select, rowOf_select]
  | cat a b =>
    cases hla : ls[a]? with
    | none => simp only [stepLazy, stepEager, hla, RAll_none _ _ _ h a hla]; exact ⟨Or.inl (by first | rfl | trivial), h, hcan⟩
    | some la =>
      obtain ⟨ea, hea, hra⟩ := RAll_some _ _ _ h a la hla
      cases hlb : ls[b]? with
      | none => simp only [stepLazy, stepEager, hla, hea, hlb, RAll_none _ _ _ h b hlb]; exact ⟨Or.inl (by first | rfl | trivial), h, hcan⟩
      | some lb =>
        obtain ⟨eb, heb, hrb⟩ := RAll_some _ _ _ h b lb hlb
        simp only [stepLazy, stepEager, hla, hea, hlb, heb, hfc, if_true]
        obtain ⟨r, la', lb', hcat, hrr, _, hrb', hec⟩ := step_concat k.nF (!k.bufferConcat) la lb ea eb hra hrb
        obtain ⟨_, hcs, _, _, _, hbuf, _⟩ := concatNew_spec k.nF (!k.bufferConcat) [la, lb] (by simp)
          (by intro x hx; simp at hx; rcases hx with rfl | rfl; exact hra.1; exact hrb.1)
          (by intro x hx; simp at hx; rcases hx with rfl | rfl; exact hra.2.1; exact hrb.2.1)
        rw [hcat] at hcs
        simp only [Option.some.injEq, Prod.mk.injEq] at hcs
        rw [hcat, hec]
        simp only
        have hlen : r.len = (⟨appendCols ea.cols eb.cols⟩ : Eager).len := (R_len k.nF hn r _ hrr).symm
        refine ⟨Or.inl (by rw [hlen]), ?_, ?_⟩
        · by_cases hab : a = b
          · simp only [hab, beq_self_eq_true, if_true]
            exact RAll_set _ _ _ h b r _ hrr
          · have hab' : (a == b) = false := by simp [hab]
            simp only [hab', Bool.false_eq_true, if_false]
            have h1 := RAll_set _ _ _ h b lb' eb hrb'
            rw [set_self_of_getElem? _ _ _ heb] at h1
            exact RAll_set _ _ _ h1 a r _ hrr
        · intro hc
          have hcr : Canon k.nF k.join r.buf := by
            rw [← hcs.1] at hbuf
            rw [hbuf]
            intro row hrow
            simp only [List.map_cons, List.map_nil, List.flatten_cons, List.flatten_nil, List.append_nil, List.mem_append] at hrow
            rcases hrow with h1 | h1
            · exact canon_of_getElem? _ _ _ (hcan hc) a la hla row h1
            · exact canon_of_getElem? _ _ _ (hcan hc) b lb hlb row h1
          have hclb : Canon k.nF k.join lb'.buf := by
            have hlb' : lb' = getMany ((List.range k.nF).filter (fun name => (!k.bufferConcat) || [la, lb].any (fun a => (lookup a.set name).isSome))) lb := by
              have := hcs.2
              simp only [List.map_cons, List.map_nil, List.cons.injEq, and_true] at this
              exact this.2
            rw [hlb', (getMany_props _ lb hrb.1).2.2.1]
            exact canon_of_getElem? _ _ _ (hcan hc) b lb hlb
          by_cases hab : a = b
          · simp only [hab, beq_self_eq_true, if_true]
            exact CanonAll_set _ _ _ (hcan hc) b r hcr
          · have hab' : (a == b) = false := by simp [hab]
            simp only [hab', Bool.false_eq_true, if_false]
            exact CanonAll_set _ _ _ (CanonAll_set _ _ _ (hcan hc) b lb' hclb) a r hcr
  | replace a d kw =>
    cases hl : ls[a]? with
    | none => simp only [stepLazy, stepEager, hl, RAll_none _ _ _ h a hl]; exact ⟨Or.inl (by first | rfl | trivial), h, hcan⟩
    | some l =>
      obtain ⟨e, he, hr⟩ := RAll_some _ _ _ h a l hl
      simp only [stepLazy, stepEager, hl, he, hfs, if_true]
      refine ⟨Or.inl (by first | rfl | trivial), RAll_set _ _ _ h d _ _ (step_replace k.nF l e hr kw (hok l hl)), ?_⟩
      intro hc
      exact CanonAll_set _ _ _ (hcan hc) d _ (canon_of_getElem? _ _ _ (hcan hc) a l hl)
  | setattr a f c =>
    cases hl : ls[a]? with
    | none => simp only [stepLazy, stepEager, hl, RAll_none _ _ _ h a hl]; exact ⟨Or.inl (by first | rfl | trivial), h, hcan⟩
    | some l =>
      obtain ⟨e, he, hr⟩ := RAll_some _ _ _ h a l hl
      simp only [stepLazy, stepEager, hl, he, hfs, if_true]
      refine ⟨Or.inl (by first | rfl | trivial), RAll_set _ _ _ h a _ _ (R_setattr k.nF l e hr f c (hok l hl)), ?_⟩
      intro hc
      exact CanonAll_set _ _ _ (hcan hc) a _ (canon_of_getElem? _ _ _ (hcan hc) a l hl)
  | tolist a =>
    cases hl : ls[a]? with
    | none => simp only [stepLazy, stepEager, hl, RAll_none _ _ _ h a hl]; exact ⟨Or.inl (by first | rfl | trivial), h, hcan⟩
    | some l =>
      obtain ⟨e, he, hr⟩ := RAll_some _ _ _ h a l hl
      simp only [stepLazy, stepEager, hl, he, hfs, if_true]
      obtain ⟨d1, d2, d3⟩ := dataObject_spec k.nF l e hr
      refine ⟨Or.inl (by simp only [d1, R_len k.nF hn l e hr]), ?_, ?_⟩
      · have := RAll_set _ _ _ h a _ e d2
        rwa [set_self_of_getElem? _ _ _ he] at this
      · intro hc
        exact CanonAll_set _ _ _ (hcan hc) a _ (by rw [d3]; exact canon_of_getElem? _ _ _ (hcan hc) a l hl)
  | write a =>
    cases hl : ls[a]? with
    | none => simp only [stepLazy, stepEager, hl, RAll_none _ _ _ h a hl]; exact ⟨Or.inl (by first | rfl | trivial), h, hcan⟩
    | some l =>
      obtain ⟨e, he, hr⟩ := RAll_some _ _ _ h a l hl
      simp only [stepLazy, stepEager, hl, he, hfs, if_true]
      by_cases hall : canon = true ∧ k.modWrite = true ∧ k.eagerWrite = true
      · obtain ⟨hcb, hm, he'⟩ := hall
        simp only [hm, he', Bool.not_true, Bool.false_and, Bool.false_eq_true, if_false]
        refine ⟨Or.inl ?_, h, fun _ => hcan hcb⟩
        rw [write_equal k.nF hn k.join l e hr (canon_of_getElem? _ _ _ (hcan hcb) a l hl)]
      · refine ⟨Or.inr ⟨rfl, ?_⟩, ?_, ?_⟩
        · cases canon <;> cases hm : k.modWrite <;> cases he' : k.eagerWrite <;> simp_all
        · split <;> split <;> exact h
        · intro hc; split <;> exact hcan hc

/-- **C05.step_preserves** — one step of any operation on related register files (with the repaired concatenate
and attribute assignment) yields equal observations — or failure in both — and related register files again.
Written BYTES are claimed equal when the files are canonical (`canon = true`) and the buffer type can write both kinds of table;
for every file, a write step still agrees on success-vs-failure (only the payload is masked by `maskObs`); values always. -/
theorem step_preserves (k : Cfg) (hn : 0 < k.nF) (hfc : k.fixedConcat = true) (hfs : k.fixedSetattr = true)
    (canon : Bool) (op : Op) (ls : List Lazy) (es : List Eager)
    (h : RAll k.nF ls es) (hcan : canon = true → CanonAll k.nF k.join ls) (hok : OpOK op ls) :
    ((stepLazy k op ls).1 = (stepEager k op es).1 ∨
      (op.isWrite = true ∧ (canon = false ∨ k.modWrite = false ∨ k.eagerWrite = false))) ∧
    RAll k.nF (stepLazy k op ls).2 (stepEager k op es).2 ∧
    (canon = true → CanonAll k.nF k.join (stepLazy k op ls).2) ∧
    (k.modWrite = true → k.eagerWrite = true → maskObs (stepLazy k op ls).1 = maskObs (stepEager k op es).1) := by
  obtain ⟨s1, s2, s3⟩ := step_core k hn hfc hfs canon op ls es h hcan hok
  refine ⟨s1, s2, s3, ?_⟩
  intro hm he'
  rcases s1 with s1 | ⟨hw, _⟩
  · rw [s1]
  · cases op with
    | write a =>
      cases hl : ls[a]? with
      | none => simp only [stepLazy, stepEager, hl, RAll_none _ _ _ h a hl]
      | some l =>
        obtain ⟨e, he, _⟩ := RAll_some _ _ _ h a l hl
        simp only [stepLazy, stepEager, hl, he, hm, he', Bool.not_true, Bool.false_and, Bool.false_eq_true, if_false, maskObs]
    | _ => simp [Op.isWrite] at hw

/-! ### programs -/

/-- every operation of the sequence is applied with well-sized arguments (checked along the run) -/
def RunOK (k : Cfg) : List Op → List Lazy → Prop
  | [], _ => True
  | op :: ops, ls => OpOK op ls ∧ RunOK k ops (stepLazy k op ls).2

/-- hide the observations of `write` steps (used when the file text is not canonical) -/
def maskWrites : List Op → List Obs → List Obs
  | op :: ops, o :: os => (if op.isWrite then Obs.unit else o) :: maskWrites ops os
  | _, _ => []

theorem R_ofFile (nF : Nat) (buf : List FRow) : R nF (Lazy.ofFile buf) (Eager.ofFile nF buf) := by
  refine ⟨?_, ?_, ?_, ?_⟩
  · intro f c h; simp [Lazy.ofFile, lookup] at h
  · intro f c h; simp [Lazy.ofFile, lookup] at h
  · intro d h; simp [Lazy.ofFile] at h
  · unfold Eager.ofFile
    simp only
    apply List.map_congr_left
    intro f _
    simp [view, Lazy.ofFile, lookup]

theorem RAll_ofFile (nF : Nat) (bufs : List (List FRow)) :
    RAll nF (bufs.map Lazy.ofFile) (bufs.map (Eager.ofFile nF)) := by
  refine ⟨by simp, ?_⟩
  intro i l e hl he
  simp only [List.getElem?_map] at hl he
  cases hb : bufs[i]? with
  | none => simp [hb] at hl
  | some b =>
    simp [hb] at hl he
    subst hl; subst he
    exact R_ofFile nF b

/-- **C05.programs** — for canonical files and a buffer type that writes both kinds of table: every finite sequence of public
operations gives the same observation trace (lengths, columns, rows, written BYTES, or failure) on the lazy and on the eager
register file -/
theorem programs (k : Cfg) (hn : 0 < k.nF) (hfc : k.fixedConcat = true) (hfs : k.fixedSetattr = true)
    (hmw : k.modWrite = true) (hew : k.eagerWrite = true) (ops : List Op) :
    ∀ (ls : List Lazy) (es : List Eager), RAll k.nF ls es → CanonAll k.nF k.join ls → RunOK k ops ls →
      runLazy k ops ls = runEager k ops es := by
  induction ops with
  | nil => intro ls es _ _ _; rfl
  | cons op ops ih =>
    intro ls es h hcan hok
    obtain ⟨s1, s2, s3, _⟩ := step_preserves k hn hfc hfs true op ls es h (fun _ => hcan) hok.1
    simp only [runLazy, runEager]
    rcases s1 with s1 | s1
    · rw [s1, ih _ _ s2 (s3 rfl) hok.2]
    · rcases s1.2 with h1 | h1 | h1
      · exact absurd h1 (by decide)
      · rw [hmw] at h1; exact absurd h1 (by decide)
      · rw [hew] at h1; exact absurd h1 (by decide)

/-- hide only the PAYLOAD of the `write` observations: success-vs-failure of a write stays visible -/
def maskPayload (os : List Obs) : List Obs := os.map maskObs

/-- **C05.programs_values** — for ALL files (canonical text or not) and a buffer type that writes both kinds of table: the
traces agree at every step, a write step included as far as its SUCCESS OR FAILURE goes — only the written payload is masked
(for non-canonical text C04 makes the lazy write keep the original spelling while the eager write re-formats) -/
theorem programs_values (k : Cfg) (hn : 0 < k.nF) (hfc : k.fixedConcat = true) (hfs : k.fixedSetattr = true)
    (hmw : k.modWrite = true) (hew : k.eagerWrite = true) (ops : List Op) :
    ∀ (ls : List Lazy) (es : List Eager), RAll k.nF ls es → RunOK k ops ls →
      maskPayload (runLazy k ops ls) = maskPayload (runEager k ops es) := by
  induction ops with
  | nil => intro ls es _ _; rfl
  | cons op ops ih =>
    intro ls es h hok
    obtain ⟨_, s2, _, s4⟩ := step_preserves k hn hfc hfs false op ls es h (fun hf => absurd hf (by decide)) hok.1
    have := ih _ _ s2 hok.2
    unfold maskPayload at this ⊢
    simp only [runLazy, runEager, List.map_cons]
    rw [this, s4 hmw hew]

/-- **C05.programs_nonwrite** — for EVERY configuration (BAM included, whose buffer type writes neither modified nor eager
tables): the traces agree at every step that is not a write -/
theorem programs_nonwrite (k : Cfg) (hn : 0 < k.nF) (hfc : k.fixedConcat = true) (hfs : k.fixedSetattr = true) (ops : List Op) :
    ∀ (ls : List Lazy) (es : List Eager), RAll k.nF ls es → RunOK k ops ls →
      maskWrites ops (runLazy k ops ls) = maskWrites ops (runEager k ops es) := by
  induction ops with
  | nil => intro ls es _ _; rfl
  | cons op ops ih =>
    intro ls es h hok
    obtain ⟨s1, s2, _, _⟩ := step_preserves k hn hfc hfs false op ls es h (fun hf => absurd hf (by decide)) hok.1
    simp only [runLazy, runEager, maskWrites]
    rw [ih _ _ s2 hok.2]
    rcases s1 with s1 | s1
    · rw [s1]
    · simp [s1.1]

/-- **C05.bam_untouched_write_diverges** — where the two modes really differ: with a buffer type that writes neither modified
nor eager tables (BAM), an UNTOUCHED lazy table is written (its records' original bytes) while the eager table cannot be written -/
theorem bam_untouched_write_diverges (k : Cfg) (hmw : k.modWrite = false) (hew : k.eagerWrite = false)
    (ls : List Lazy) (es : List Eager) (a : Nat) (l : Lazy) (e : Eager) (hl : ls[a]? = some l) (he : es[a]? = some e)
    (hs : l.set = []) :
    (stepLazy k (.write a) ls).1 = .bytes (l.buf.map (·.raw)).flatten ∧ (stepEager k (.write a) es).1 = .err := by
  simp [stepLazy, stepEager, hl, he, hmw, hew, hs, Lazy.write]

/-- **C05.bam_modified_write_both_err** — with such a buffer type a lazy table with replaced columns fails to write, like the eager one -/
theorem bam_modified_write_both_err (k : Cfg) (hmw : k.modWrite = false) (hew : k.eagerWrite = false)
    (ls : List Lazy) (es : List Eager) (a : Nat) (l : Lazy) (e : Eager) (hl : ls[a]? = some l) (he : es[a]? = some e)
    (hs : l.set ≠ []) :
    (stepLazy k (.write a) ls).1 = .err ∧ (stepEager k (.write a) es).1 = .err := by
  have : l.set.isEmpty = false := by cases hx : l.set with | nil => exact absurd hx hs | cons _ _ => rfl
  simp [stepLazy, stepEager, hl, he, hmw, hew, this]

/-- **C05.lazy_eager_equiv** — the property itself: tables read lazily and eagerly from the same files are
observationally equivalent under every operation sequence: (1) at every non-write step for every configuration; (2) including
success-vs-failure of every write when the buffer type writes both kinds of table; (3) including the written BYTES when moreover
the files' text is canonical -/
theorem lazy_eager_equiv (k : Cfg) (hn : 0 < k.nF) (hfc : k.fixedConcat = true) (hfs : k.fixedSetattr = true)
    (bufs : List (List FRow)) (ops : List Op) (hok : RunOK k ops (bufs.map Lazy.ofFile)) :
    maskWrites ops (runLazy k ops (bufs.map Lazy.ofFile)) = maskWrites ops (runEager k ops (bufs.map (Eager.ofFile k.nF))) ∧
    (k.modWrite = true → k.eagerWrite = true →
      maskPayload (runLazy k ops (bufs.map Lazy.ofFile)) = maskPayload (runEager k ops (bufs.map (Eager.ofFile k.nF)))) ∧
    ((∀ b ∈ bufs, Canon k.nF k.join b) → k.modWrite = true → k.eagerWrite = true →
      runLazy k ops (bufs.map Lazy.ofFile) = runEager k ops (bufs.map (Eager.ofFile k.nF))) := by
  refine ⟨programs_nonwrite k hn hfc hfs ops _ _ (RAll_ofFile k.nF bufs) hok,
    fun hmw hew => programs_values k hn hfc hfs hmw hew ops _ _ (RAll_ofFile k.nF bufs) hok, ?_⟩
  intro hc hmw hew
  apply programs k hn hfc hfs hmw hew ops _ _ (RAll_ofFile k.nF bufs) _ hok
  intro l hl
  simp only [List.mem_map] at hl
  obtain ⟨b, hb, rfl⟩ := hl
  exact hc b hb

/-! ### the domain check the driver evaluates is sound -/

theorem opOKb_sound (op : Op) (ls : List Lazy) (h : opOKb op ls = true) : OpOK op ls := by
  cases op with
  | replace a d kw =>
    intro l hl p hp
    simp only [opOKb, hl, List.all_eq_true, beq_iff_eq] at h
    exact h p hp
  | setattr a f c =>
    intro l hl
    simp only [opOKb, hl, beq_iff_eq] at h
    exact h
  | _ => trivial

/-- **C05.runOKb_sound** — `runOKb = true` (reported by the driver for every request) establishes the hypothesis `RunOK` of the
program theorems -/
theorem runOKb_sound (k : Cfg) (ops : List Op) : ∀ (ls : List Lazy), runOKb k ops ls = true → RunOK k ops ls := by
  induction ops with
  | nil => intro _ _; trivial
  | cons op ops ih =>
    intro ls h
    simp only [runOKb, Bool.and_eq_true] at h
    exact ⟨opOKb_sound op ls h.1, ih _ h.2⟩

/-! ### non-vacuity -/

def demoRow (a b : Nat) : FRow := ⟨[a, 9, b, 10], [⟨[a], [a]⟩, ⟨[b], [b]⟩]⟩
def demoJoin (fs : List Bytes) : Bytes := (match fs with | [] => [] | f :: r => r.foldl (fun acc x => acc ++ [9] ++ x) f) ++ [10]
def demoCfg : Cfg := ⟨2, demoJoin, true, true, true, true, true⟩
def demoCfgK : Cfg := ⟨2, demoJoin, true, false, true, true, true⟩
def demoOps : List Op :=
  [.get 0 1, .replace 1 1 [(0, [[55], [56]])], .cat 0 1, .index 0 0 (.slice none none (-1)), .setattr 0 1 [[65], [66], [67]],
   .tolist 0, .write 0, .row 0 (-1)]

example : runLazy demoCfg demoOps [Lazy.ofFile [demoRow 49 50], Lazy.ofFile [demoRow 51 52, demoRow 53 54]]
    = runEager demoCfg demoOps [Eager.ofFile 2 [demoRow 49 50], Eager.ofFile 2 [demoRow 51 52, demoRow 53 54]] := by decide +kernel
example : (runLazy demoCfg demoOps [Lazy.ofFile [demoRow 49 50], Lazy.ofFile [demoRow 51 52, demoRow 53 54]]).getD 5 .err
    = .rows [[[56], [65]], [[55], [66]], [[49], [67]]] := by decide +kernel

example : runLazy demoCfgK demoOps [Lazy.ofFile [demoRow 49 50], Lazy.ofFile [demoRow 51 52, demoRow 53 54]]
    = runEager demoCfgK demoOps [Eager.ofFile 2 [demoRow 49 50], Eager.ofFile 2 [demoRow 51 52, demoRow 53 54]] := by decide +kernel

example : Canon 2 demoJoin [demoRow 51 52, demoRow 53 54] := by
  intro r hr
  simp only [List.mem_cons, List.not_mem_nil, or_false] at hr
  rcases hr with rfl | rfl <;> refine ⟨rfl, by decide, ?_⟩ <;> intro c hc <;>
    simp only [demoRow, List.mem_cons, List.not_mem_nil, or_false] at hc <;> rcases hc with rfl | rfl <;> rfl

example : RunOK demoCfg [.get 0 1, .replace 1 1 [(0, [[55], [56]])], .cat 0 1]
    [Lazy.ofFile [demoRow 49 50], Lazy.ofFile [demoRow 51 52, demoRow 53 54]] := by
  refine ⟨trivial, ?_, trivial, trivial⟩
  intro l hl p hp
  have h12 : 1 < demoCfg.nF := by decide
  simp [stepLazy, Lazy.ofFile, Lazy.get, lookup, insert, erase, h12] at hl
  subst hl
  simp at hp
  subst hp
  rfl

/-! ### the buffer abstraction is justified by C04: an item getter over the pass-through extractor
denotes the list of parsed file rows, and indexing / concatenating the buffer is list indexing / append -/

/-- the file rows an extractor denotes, given the per-record parser (C02: parsing is a function of the record) -/
def rowsOfExt (parse : C04.Rec → FRow) (e : C04.Ext) : List FRow := e.abs.map parse

/-- **C05.buffer_index_refines** — `ItemGetter.__getitem__` (= `buffer[idx]`) on the extractor is NumPy indexing of the rows it denotes -/
theorem buffer_index_refines (parse : C04.Rec → FRow) (e : C04.Ext) (h : C04.LenWF e) (ix : Idx) :
    (e.index ix).map (rowsOfExt parse) = pyIndex (rowsOfExt parse e) ix := by
  unfold rowsOfExt
  rw [pyIndex_map, ← C04.select_refines e h ix]
  cases e.index ix <;> rfl

/-- **C05.buffer_concat_refines** — `ItemGetter.concatenate` (= `buffer.concatenate`) appends the denoted rows -/
theorem buffer_concat_refines (parse : C04.Rec → FRow) (es : List C04.Ext) (h : ∀ e ∈ es, C04.WF e) :
    rowsOfExt parse (C04.Ext.concat es) = (es.map (rowsOfExt parse)).flatten := by
  unfold rowsOfExt
  rw [C04.concat_refines es h, List.map_flatten, List.map_map]
  rfl

end C05
