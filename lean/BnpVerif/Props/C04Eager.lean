import BnpVerif.Props.C04Core
/-! C04 — tables whose buffer has no `concatenate` (FASTQ, two-line FASTA): after any program of
selections and (eager) concatenations every entry-type field still carries the original text of the
selected source records. -/
namespace C04
open PyIdx

/-- the entry-type fields of an abstract record -/
def Rec.entry (fidx : List Nat) (r : Rec) : List Bytes := fidx.map r.field

theorem entryRows_abs (fidx : List Nat) (e : Ext) (h : WF e) : e.entryRows fidx = e.abs.map (Rec.entry fidx) := by
  have hl : e.abs.length = e.len := by
    unfold Ext.abs Ext.len; rw [List.length_map, rows_length e h.1]
  unfold Ext.entryRows transposeRows
  apply List.ext_getElem
  · simp [hl]
  · intro i h1 h2
    simp only [List.length_map, List.length_range] at h1
    simp only [List.getElem_map, List.getElem_range, List.map_map, Rec.entry]
    apply List.map_congr_left
    intro j _
    simp only [Function.comp]
    rw [field_text e h j]
    have hi : i < e.abs.length := by rw [hl]; exact h1
    simp [List.getD_eq_getElem?_getD, List.getElem?_eq_getElem hi]

theorem opt_none_of_map {α β} (f : α → β) (o : Option α) (h : none = o.map f) : o = none := by
  cases o with
  | none => rfl
  | some x => simp at h

def TabInv : Tab → Prop
  | .lz e => Inv e
  | .eg _ => True

theorem tab_rows_lz (fidx : List Nat) (e : Ext) (h : Inv e) : (Tab.lz e).rows fidx = e.abs.map (Rec.entry fidx) :=
  entryRows_abs fidx e h.1

/-- **C04.eager_fields** — for every program over tables whose buffer type may or may not support `concatenate`
(`canCat`), the rows of entry-type field texts of the result are those of the selected source records, in order -/
theorem eager_fields (canCat : Bool) (fidx : List Nat) (tabs : List Ext) (ht : ∀ t ∈ tabs, Inv t) (p : Prog) :
    (∀ t, p.evalTab canCat fidx tabs = some t → TabInv t) ∧
    (p.evalTab canCat fidx tabs).map (Tab.rows fidx) = (p.evalSpec (tabs.map Ext.abs)).map (·.map (Rec.entry fidx)) := by
  induction p with
  | leaf k =>
    simp only [Prog.evalTab, Prog.evalSpec, List.getElem?_map]
    cases hk : tabs[k]? with
    | none => simp
    | some e =>
      have hI := ht e (List.mem_of_getElem? hk)
      refine ⟨fun t h => by simp at h; subst h; exact hI, ?_⟩
      simp [tab_rows_lz fidx e hI]
  | sel p ix ih =>
    obtain ⟨ih1, ih2⟩ := ih
    simp only [Prog.evalTab, Prog.evalSpec]
    cases hp : p.evalTab canCat fidx tabs with
    | none =>
      rw [hp] at ih2
      have hsp := opt_none_of_map _ _ ih2
      simp [hsp]
    | some t =>
      rw [hp] at ih2
      simp only [Option.map_some] at ih2
      have hI := ih1 t hp
      cases t with
      | lz e =>
        have hI' : Inv e := hI
        rw [tab_rows_lz fidx e hI'] at ih2
        have hs := select_refines e hI'.1.1 ix
        cases hsp : p.evalSpec (tabs.map Ext.abs) with
        | none => rw [hsp] at ih2; simp at ih2
        | some recs =>
          rw [hsp] at ih2
          simp only [Option.map_some, Option.some.injEq] at ih2
          simp only [Option.bind_some]
          refine ⟨?_, ?_⟩
          · intro t' ht'
            cases hidx : e.index ix with
            | none => simp [hidx] at ht'
            | some e' => simp [hidx] at ht'; subst ht'; exact index_inv e hI' ix e' hidx
          · cases hidx : e.index ix with
            | none =>
              rw [hidx] at hs
              simp only [Option.map_none] at hs ⊢
              have h2 : pyIndex (e.abs.map (Rec.entry fidx)) ix = none := by rw [pyIndex_map, ← hs]; rfl
              rw [ih2, pyIndex_map] at h2
              cases hq : pyIndex recs ix with
              | none => rfl
              | some x => rw [hq] at h2; simp at h2
            | some e' =>
              rw [hidx] at hs
              simp only [Option.map_some] at hs ⊢
              have hI2 := index_inv e hI' ix e' hidx
              rw [tab_rows_lz fidx e' hI2]
              have h2 : pyIndex (e.abs.map (Rec.entry fidx)) ix = some (e'.abs.map (Rec.entry fidx)) := by
                rw [pyIndex_map, ← hs]; rfl
              rw [ih2, pyIndex_map] at h2
              cases hq : pyIndex recs ix with
              | none => rw [hq] at h2; simp at h2
              | some x => rw [hq] at h2; simpa using h2.symm
      | eg r =>
        cases hsp : p.evalSpec (tabs.map Ext.abs) with
        | none => rw [hsp] at ih2; simp at ih2
        | some recs =>
          rw [hsp] at ih2
          simp only [Tab.rows, Option.map_some, Option.some.injEq] at ih2
          simp only [Option.bind_some]
          refine ⟨fun t' ht' => by
            cases hq : pyIndex r ix with
            | none => simp [hq] at ht'
            | some x => simp [hq] at ht'; subst ht'; trivial, ?_⟩
          rw [ih2, pyIndex_map]
          cases pyIndex recs ix <;> simp [Tab.rows]
  | cat p q ihp ihq =>
    obtain ⟨p1, p2⟩ := ihp
    obtain ⟨q1, q2⟩ := ihq
    simp only [Prog.evalTab, Prog.evalSpec]
    cases hp : p.evalTab canCat fidx tabs with
    | none =>
      rw [hp] at p2
      have hsp := opt_none_of_map _ _ p2
      cases q.evalTab canCat fidx tabs <;> simp [hsp]
    | some a =>
      rw [hp] at p2; simp only [Option.map_some] at p2
      cases hq : q.evalTab canCat fidx tabs with
      | none =>
        rw [hq] at q2
        have hsq := opt_none_of_map _ _ q2
        cases a <;> cases p.evalSpec (tabs.map Ext.abs) <;> simp [hsq]
      | some b =>
        rw [hq] at q2; simp only [Option.map_some] at q2
        cases hsp : p.evalSpec (tabs.map Ext.abs) with
        | none => rw [hsp] at p2; simp at p2
        | some ra =>
          cases hsq : q.evalSpec (tabs.map Ext.abs) with
          | none => rw [hsq] at q2; simp at q2
          | some rb =>
            rw [hsp] at p2; rw [hsq] at q2
            simp only [Option.map_some, Option.some.injEq] at p2 q2
            have hIa := p1 a hp
            have hIb := q1 b hq
            cases a with
            | lz ea =>
              cases b with
              | lz eb =>
                have hIa' : Inv ea := hIa
                have hIb' : Inv eb := hIb
                by_cases hc : canCat = true
                · simp only [hc, if_true]
                  have hall : ∀ e ∈ [ea, eb], Inv e := by
                    intro e he
                    simp only [List.mem_cons, List.not_mem_nil, or_false] at he
                    rcases he with rfl | rfl
                    · exact hIa'
                    · exact hIb'
                  have hcI := inv_concat _ hall
                  refine ⟨fun t ht' => by simp at ht'; subst ht'; exact hcI, ?_⟩
                  simp only [Option.map_some, Option.some.injEq]
                  rw [tab_rows_lz fidx _ hcI, concat_refines _ (fun e he => (hall e he).1)]
                  rw [tab_rows_lz fidx ea hIa'] at p2
                  rw [tab_rows_lz fidx eb hIb'] at q2
                  simp [p2, q2]
                · have hc' : canCat = false := by cases canCat <;> simp_all
                  simp only [hc', Bool.false_eq_true, if_false]
                  refine ⟨fun t ht' => by simp at ht'; subst ht'; trivial, ?_⟩
                  simp only [Option.map_some, Option.some.injEq, Tab.rows] at p2 q2 ⊢
                  rw [p2, q2]; simp
              | eg rb' =>
                refine ⟨fun t ht' => by simp at ht'; subst ht'; trivial, ?_⟩
                simp only [Option.map_some, Option.some.injEq, Tab.rows] at p2 q2 ⊢
                rw [p2, q2]; simp
            | eg ra' =>
              refine ⟨fun t ht' => by cases b <;> (simp at ht'; subst ht'; trivial), ?_⟩
              cases b <;> (simp only [Option.map_some, Option.some.injEq, Tab.rows] at p2 q2 ⊢; rw [p2, q2]; simp)
  | catRange a n =>
    simp only [Prog.evalTab, Prog.evalSpec, List.length_map]
    split
    · have hall : ∀ e ∈ (tabs.drop a).take n, Inv e := fun e he => ht e (mem_take_drop _ _ _ _ he)
      by_cases hc : canCat = true
      · simp only [hc, if_true]
        have hcI := inv_concat _ hall
        refine ⟨fun t ht' => by simp at ht'; subst ht'; exact hcI, ?_⟩
        simp only [Option.map_some, Option.some.injEq]
        rw [tab_rows_lz fidx _ hcI, concat_refines _ (fun e he => (hall e he).1)]
        simp [List.map_take, List.map_drop, List.map_flatten]
      · have hc' : canCat = false := by cases canCat <;> simp_all
        simp only [hc', Bool.false_eq_true, if_false]
        refine ⟨fun t ht' => by simp at ht'; subst ht'; trivial, ?_⟩
        simp only [Option.map_some, Option.some.injEq, Tab.rows]
        rw [List.map_flatten]
        congr 1
        simp only [List.map_take, List.map_drop, List.map_map]
        have : ∀ e ∈ (tabs.drop a).take n, e.entryRows fidx = (e.abs.map (Rec.entry fidx)) :=
          fun e he => entryRows_abs fidx e (hall e he).1
        rw [← List.map_drop, ← List.map_take, ← List.map_drop, ← List.map_take]
        exact List.map_congr_left this
    · simp
  | touch p ih =>
    obtain ⟨ih1, ih2⟩ := ih
    simp only [Prog.evalTab, Prog.evalSpec]
    cases hp : p.evalTab canCat fidx tabs with
    | none =>
      rw [hp] at ih2
      have hsp := opt_none_of_map _ _ ih2
      simp [hsp]
    | some t =>
      rw [hp] at ih2
      have hI := ih1 t hp
      cases t with
      | lz e =>
        have hI' : Inv e := hI
        refine ⟨fun t' ht' => by simp at ht'; subst ht'; exact inv_touch e hI', ?_⟩
        rw [← ih2]
        simp only [Option.map_some, Option.some.injEq]
        rw [tab_rows_lz fidx _ (inv_touch e hI'), tab_rows_lz fidx e hI', touch_abs e hI'.1]
      | eg r =>
        refine ⟨fun t' ht' => by simp at ht'; subst ht'; trivial, ?_⟩
        rw [← ih2]
  | seq p q ihp ihq =>
    obtain ⟨_, p2⟩ := ihp
    obtain ⟨q1, q2⟩ := ihq
    simp only [Prog.evalTab, Prog.evalSpec]
    cases hp : p.evalTab canCat fidx tabs with
    | none =>
      rw [hp] at p2
      have hsp := opt_none_of_map _ _ p2
      simp [hsp]
    | some a =>
      rw [hp] at p2
      cases hsp : p.evalSpec (tabs.map Ext.abs) with
      | none => rw [hsp] at p2; simp at p2
      | some x => simp only [Option.bind_some]; exact ⟨q1, q2⟩


/-! ### the driver evaluates FASTQ / FASTA programs with `evalTab`: on programs without concatenation (and on all programs
when the buffer type has `concatenate`) that is `evalExt`, so the pass-through theorems apply to what the driver runs -/

def Prog.catFree : Prog → Bool
  | .leaf _ => true
  | .sel p _ => p.catFree
  | .cat _ _ => false
  | .catRange _ _ => false
  | .touch p => p.catFree
  | .seq p q => p.catFree && q.catFree

/-- **C04.evalTab_lz** — the table evaluator the driver runs is the extractor evaluator whenever no eager fallback can occur -/
theorem evalTab_lz (canCat : Bool) (fidx : List Nat) (tabs : List Ext) (p : Prog) (h : canCat = true ∨ p.catFree = true) :
    p.evalTab canCat fidx tabs = (p.evalExt tabs).map Tab.lz := by
  induction p with
  | leaf k => rfl
  | sel p ix ih =>
    have ih' := ih (by rcases h with h | h; exact Or.inl h; exact Or.inr (by simpa [Prog.catFree] using h))
    simp only [Prog.evalTab, Prog.evalExt, ih']
    cases p.evalExt tabs with
    | none => rfl
    | some e => rfl
  | cat p q ihp ihq =>
    have hc : canCat = true := by rcases h with h | h; exact h; simp [Prog.catFree] at h
    have ihp' := ihp (Or.inl hc)
    have ihq' := ihq (Or.inl hc)
    simp only [Prog.evalTab, Prog.evalExt, ihp', ihq']
    cases p.evalExt tabs <;> cases q.evalExt tabs <;> simp [hc]
  | catRange a n =>
    have hc : canCat = true := by rcases h with h | h; exact h; simp [Prog.catFree] at h
    simp only [Prog.evalTab, Prog.evalExt, hc]
    split <;> simp
  | touch p ih =>
    have ih' := ih (by rcases h with h | h; exact Or.inl h; exact Or.inr (by simpa [Prog.catFree] using h))
    simp only [Prog.evalTab, Prog.evalExt, ih']
    cases p.evalExt tabs with
    | none => rfl
    | some e => rfl
  | seq p q ihp ihq =>
    have hp' := ihp (by rcases h with h | h; exact Or.inl h; exact Or.inr (by simp [Prog.catFree] at h; exact h.1))
    have hq' := ihq (by rcases h with h | h; exact Or.inl h; exact Or.inr (by simp [Prog.catFree] at h; exact h.2))
    simp only [Prog.evalTab, Prog.evalExt, hp', hq']
    cases p.evalExt tabs with
    | none => rfl
    | some e => rfl

end C04
