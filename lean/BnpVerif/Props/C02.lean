import BnpVerif.Model.C02
import BnpVerif.Gen.C02
/-! C02 property theorems. Helper lemmas first; the property theorems are the ones listed in
`Audit/C02.lean`. -/
namespace C02
open Base

/-! ### splitOn / joinWith -/

theorem splitOn_ne_nil (d : Nat) (l : Bytes) : splitOn d l ≠ [] := by
  induction l with
  | nil => simp [splitOn]
  | cons b bs ih =>
    simp only [splitOn]
    split
    · simp
    · cases h : splitOn d bs with
      | nil => exact absurd h ih
      | cons p ps => simp [consHead]

theorem joinWith_consHead (d b : Nat) (ps : List Bytes) (h : ps ≠ []) :
    joinWith d (consHead b ps) = b :: joinWith d ps := by
  cases ps with
  | nil => exact absurd rfl h
  | cons p qs =>
    cases qs with
    | nil => simp [consHead, joinWith]
    | cons q rs => simp [consHead, joinWith]

theorem joinWith_nil_cons (d : Nat) (ps : List Bytes) (h : ps ≠ []) :
    joinWith d ([] :: ps) = d :: joinWith d ps := by
  cases ps with
  | nil => exact absurd rfl h
  | cons p qs => simp [joinWith]

/-- joining the pieces of a split gives the text back -/
theorem joinWith_splitOn (d : Nat) (l : Bytes) : joinWith d (splitOn d l) = l := by
  induction l with
  | nil => simp [splitOn, joinWith]
  | cons b bs ih =>
    simp only [splitOn]
    split
    · rename_i h
      rw [joinWith_nil_cons d _ (splitOn_ne_nil d bs), ih, h]
    · rw [joinWith_consHead d b _ (splitOn_ne_nil d bs), ih]

theorem mem_consHead {b : Nat} {ps : List Bytes} {p : Bytes} (h : p ∈ consHead b ps) :
    (∃ q, p = b :: q ∧ (q ∈ ps ∨ (ps = [] ∧ q = []))) ∨ p ∈ ps := by
  cases ps with
  | nil => simp [consHead] at h; exact Or.inl ⟨[], h, Or.inr ⟨rfl, rfl⟩⟩
  | cons r rs =>
    simp only [consHead, List.mem_cons] at h
    cases h with
    | inl h => exact Or.inl ⟨r, h, Or.inl (by simp)⟩
    | inr h => exact Or.inr (by simp [h])

/-- no piece of a split contains the separator, and every byte of a piece is a byte of the text -/
theorem splitOn_pieces (d : Nat) (l : Bytes) : ∀ p ∈ splitOn d l, d ∉ p ∧ ∀ x ∈ p, x ∈ l := by
  induction l with
  | nil => intro p hp; simp [splitOn] at hp; subst hp; simp
  | cons b bs ih =>
    intro p hp
    simp only [splitOn] at hp
    split at hp
    · simp only [List.mem_cons] at hp
      cases hp with
      | inl h => subst h; simp
      | inr h =>
        have := ih p h
        exact ⟨this.1, fun x hx => List.mem_cons_of_mem _ (this.2 x hx)⟩
    · rename_i hbd
      rcases mem_consHead hp with ⟨q, rfl, hq⟩ | hmem
      · cases hq with
        | inl hq =>
          have := ih q hq
          refine ⟨?_, ?_⟩
          · intro hm
            simp only [List.mem_cons] at hm
            cases hm with
            | inl h => exact hbd h.symm
            | inr h => exact this.1 h
          · intro x hx
            simp only [List.mem_cons] at hx
            cases hx with
            | inl h => simp [h]
            | inr h => exact List.mem_cons_of_mem _ (this.2 x h)
        | inr hq =>
          exact absurd hq.1 (splitOn_ne_nil d bs)
      · have := ih p hmem
        exact ⟨this.1, fun x hx => List.mem_cons_of_mem _ (this.2 x hx)⟩

/-! ### pieces: structural view of "text between consecutive delimiters" -/

def prependHead (acc : Bytes) : List Bytes → List Bytes
  | [] => [acc]
  | p :: ps => (acc ++ p) :: ps

theorem prependHead_consHead (acc : Bytes) (b : Nat) (ps : List Bytes) (h : ps ≠ []) :
    prependHead acc (consHead b ps) = prependHead (acc ++ [b]) ps := by
  cases ps with
  | nil => exact absurd rfl h
  | cons p qs => simp [consHead, prependHead]

theorem prependHead_nil' (ps : List Bytes) (h : ps ≠ []) : prependHead [] ps = ps := by
  cases ps with
  | nil => exact absurd rfl h
  | cons p qs => simp [prependHead]

/-- a delimiter-terminated stretch in which `isD` coincides with "is the separator `d`" contributes exactly the
`splitOn d` pieces of the stretch -/
theorem piecesAcc_stretch (isD : Nat → Bool) (d : Nat) (l : Bytes) (x : Nat) (rest acc : Bytes)
    (hl : ∀ b ∈ l, isD b = (b == d)) (hx : isD x = true) :
    piecesAcc isD acc (l ++ x :: rest) = prependHead acc (splitOn d l) ++ pieces isD rest := by
  induction l generalizing acc with
  | nil => simp [piecesAcc, hx, splitOn, prependHead, pieces]
  | cons b bs ih =>
    have hb := hl b (by simp)
    have hbs : ∀ c ∈ bs, isD c = (c == d) := fun c hc => hl c (by simp [hc])
    by_cases hbd : b = d
    · have hD : isD b = true := by rw [hb]; simp [hbd]
      have e1 : piecesAcc isD acc ((b :: bs) ++ x :: rest) = acc :: piecesAcc isD [] (bs ++ x :: rest) := by
        simp [piecesAcc, hD]
      have e2 : splitOn d (b :: bs) = [] :: splitOn d bs := by simp [splitOn, hbd]
      rw [e1, e2, ih [] hbs, prependHead_nil' _ (splitOn_ne_nil d bs)]
      simp [prependHead]
    · have hD : isD b = false := by rw [hb]; simp [hbd]
      have e1 : piecesAcc isD acc ((b :: bs) ++ x :: rest) = piecesAcc isD (acc ++ [b]) (bs ++ x :: rest) := by
        simp [piecesAcc, hD]
      have e2 : splitOn d (b :: bs) = consHead b (splitOn d bs) := by simp [splitOn, hbd]
      rw [e1, e2, ih (acc ++ [b]) hbs, prependHead_consHead acc b _ (splitOn_ne_nil d bs)]

theorem prependHead_nil (ps : List Bytes) (h : ps ≠ []) : prependHead [] ps = ps := by
  cases ps with
  | nil => exact absurd rfl h
  | cons p qs => simp [prependHead]

theorem pieces_stretch (isD : Nat → Bool) (d : Nat) (l : Bytes) (x : Nat) (rest : Bytes)
    (hl : ∀ b ∈ l, isD b = (b == d)) (hx : isD x = true) :
    pieces isD (l ++ x :: rest) = splitOn d l ++ pieces isD rest := by
  unfold pieces
  rw [piecesAcc_stretch isD d l x rest [] hl hx, prependHead_nil _ (splitOn_ne_nil d l)]
  rfl

theorem piecesAcc_free (isD : Nat → Bool) (l acc : Bytes) (hl : ∀ b ∈ l, isD b = false) :
    piecesAcc isD acc l = [] := by
  induction l generalizing acc with
  | nil => rfl
  | cons b bs ih =>
    simp only [piecesAcc, hl b (by simp)]
    exact ih _ (fun c hc => hl c (by simp [hc]))

/-- all pieces of a text made of complete lines = the fields of every line, in order -/
theorem pieces_unlines (d : Nat) (_hd : d ≠ 10) (ls : List Bytes) (hfree : ∀ l ∈ ls, 10 ∉ l) :
    pieces (isDelim d) (unlines ls) = (ls.map (splitOn d)).flatten := by
  induction ls with
  | nil => simp [unlines, pieces, piecesAcc]
  | cons l rest ih =>
    have h1 : unlines (l :: rest) = l ++ 10 :: unlines rest := by simp [unlines]
    rw [h1, pieces_stretch (isDelim d) d l 10 (unlines rest)]
    · simp [ih (fun l' hl' => hfree l' (by simp [hl']))]
    · intro b hb
      have : b ≠ 10 := fun h => hfree l (by simp) (h ▸ hb)
      simp [isDelim, this]
    · simp [isDelim]

/-! ### the bridge: (start, end) pairs computed from delimiter positions are the pieces -/

theorem slice_eq (bs : Bytes) (s e : Nat) : slice bs s e = (bs.drop s).take (e - s) := rfl

theorem slice_snoc (pre : Bytes) (b : Nat) (post : Bytes) (s : Nat) (hs : s ≤ pre.length) :
    slice (pre ++ b :: post) s (pre.length + 1) = slice (pre ++ b :: post) s pre.length ++ [b] := by
  simp only [slice]
  have h1 : (pre ++ b :: post).drop s = pre.drop s ++ b :: post := by
    rw [List.drop_append_of_le_length hs]
  rw [h1]
  have hlen : (pre.drop s).length = pre.length - s := by simp
  have key : ∀ (q : Bytes), List.take (q.length + 1) (q ++ b :: post) = q ++ [b] := by
    intro q
    induction q with
    | nil => simp
    | cons x xs ih => simp [ih]
  have e1 : pre.length + 1 - s = (pre.drop s).length + 1 := by omega
  have e2 : pre.length - s = (pre.drop s).length := by omega
  rw [e1, key, e2, List.take_left]

theorem slice_self (bs : Bytes) (s : Nat) : slice bs s s = [] := by simp [slice]

/-- general form: `pre` already consumed, the open piece started at `s` -/
theorem bridge_aux (isD : Nat → Bool) (bs pre : Bytes) (s : Nat) (hs : s ≤ pre.length) :
    List.zipWith (slice (pre ++ bs)) (s :: (delimsFrom isD pre.length bs).map (· + 1)) (delimsFrom isD pre.length bs)
      = piecesAcc isD (slice (pre ++ bs) s pre.length) bs := by
  induction bs generalizing pre s with
  | nil => simp [delimsFrom, piecesAcc]
  | cons b rest ih =>
    simp only [delimsFrom, piecesAcc]
    have hpre : pre ++ b :: rest = (pre ++ [b]) ++ rest := by simp
    have hlen : (pre ++ [b]).length = pre.length + 1 := by simp
    split
    · simp only [List.map_cons, List.zipWith_cons_cons, List.cons.injEq, true_and]
      have := ih (pre ++ [b]) (pre.length + 1) (by simp)
      rw [hlen] at this
      rw [hpre, this, slice_self]
    · have := ih (pre ++ [b]) s (by simp; omega)
      rw [hlen] at this
      rw [hpre, this, ← hpre, slice_snoc pre b rest s hs]

/-- `zip (0 :: delims+1) delims` then slicing = the complete pieces of the buffer -/
theorem bridge (isD : Nat → Bool) (bs : Bytes) :
    List.zipWith (slice bs) (0 :: (delimsFrom isD 0 bs).map (· + 1)) (delimsFrom isD 0 bs) = pieces isD bs := by
  have := bridge_aux isD bs [] 0 (by simp)
  simpa [pieces, slice] using this

theorem zipWith_dropLast {α β γ} (f : α → β → γ) (g : β → α) (a : α) (l : List β) :
    List.zipWith f (a :: l.dropLast.map g) l = List.zipWith f (a :: l.map g) l := by
  induction l generalizing a with
  | nil => simp
  | cons x xs ih =>
    cases xs with
    | nil => simp
    | cons y ys =>
      simp only [List.dropLast_cons_cons, List.map_cons, List.zipWith_cons_cons, List.cons.injEq, true_and]
      have := ih (g x)
      simpa using this

/-! ### lines -/

theorem splitOn_eq_lines_tail (bs : Bytes) : splitOn 10 bs = linesOf bs ++ [tailOf bs] := by
  unfold linesOf tailOf
  have h := splitOn_ne_nil 10 bs
  rw [List.getLast?_eq_some_getLast h]
  simp [List.dropLast_concat_getLast h]

theorem joinWith_snoc (d : Nat) (ls : List Bytes) (t : Bytes) :
    joinWith d (ls ++ [t]) = (ls.map (· ++ [d])).flatten ++ t := by
  induction ls with
  | nil => simp [joinWith]
  | cons l rest ih =>
    cases rest with
    | nil => simp [joinWith]
    | cons r rs =>
      simp only [List.cons_append, joinWith] at ih ⊢
      rw [ih]
      simp

/-- every buffer is its complete lines followed by an unterminated tail -/
theorem unlines_linesOf (bs : Bytes) : bs = unlines (linesOf bs) ++ tailOf bs := by
  have h := joinWith_splitOn 10 bs
  rw [splitOn_eq_lines_tail, joinWith_snoc] at h
  exact h.symm

theorem linesOf_free (bs : Bytes) : ∀ l ∈ linesOf bs, 10 ∉ l := by
  intro l hl
  have : l ∈ splitOn 10 bs := by
    rw [splitOn_eq_lines_tail]; simp [hl]
  exact (splitOn_pieces 10 bs l this).1

theorem tailOf_free (bs : Bytes) : 10 ∉ tailOf bs := by
  have : tailOf bs ∈ splitOn 10 bs := by
    rw [splitOn_eq_lines_tail]; simp
  exact (splitOn_pieces 10 bs _ this).1

theorem dropWhile_append_stop {α} (p : α → Bool) (xs : List α) (y : α) (ys : List α)
    (hx : ∀ x ∈ xs, p x = true) (hy : p y = false) :
    (xs ++ y :: ys).dropWhile p = y :: ys := by
  induction xs with
  | nil => simp [hy]
  | cons x rest ih =>
    simp only [List.cons_append, List.dropWhile_cons, hx x (by simp), if_true]
    exact ih (fun z hz => hx z (by simp [hz]))

theorem dropWhile_all {α} (p : α → Bool) (xs : List α) (hx : ∀ x ∈ xs, p x = true) :
    xs.dropWhile p = [] := by
  induction xs with
  | nil => rfl
  | cons x rest ih =>
    simp only [List.dropWhile, hx x (by simp)]
    exact ih (fun z hz => hx z (by simp [hz]))

theorem unlines_snoc (ls : List Bytes) (l : Bytes) : unlines (ls ++ [l]) = unlines ls ++ l ++ [10] := by
  simp [unlines]

/-- `chunk[:last_newline+1]` is exactly the complete lines -/
theorem complete_eq (bs : Bytes) : complete bs = unlines (linesOf bs) := by
  have hfree := tailOf_free bs
  have hall : ∀ x ∈ (tailOf bs).reverse, (fun b => b != 10) x = true := by
    intro x hx
    have : x ∈ tailOf bs := by simpa using hx
    have : x ≠ 10 := fun h => hfree (h ▸ this)
    simp [this]
  unfold complete
  conv => lhs; rw [unlines_linesOf bs]
  rw [List.reverse_append]
  cases hls : (linesOf bs).reverse with
  | nil =>
    have : linesOf bs = [] := by simpa using hls
    rw [this]
    simp only [unlines, List.map_nil, List.flatten_nil, List.reverse_nil, List.append_nil]
    rw [dropWhile_all _ _ hall]; rfl
  | cons l rest =>
    have h2 : linesOf bs = rest.reverse ++ [l] := by
      have := congrArg List.reverse hls
      simpa using this
    rw [h2, unlines_snoc]
    have : (unlines rest.reverse ++ l ++ [10]).reverse = 10 :: (unlines rest.reverse ++ l).reverse := by simp
    rw [this, dropWhile_append_stop _ _ 10 _ hall (by simp)]
    simp

theorem linesOf_unlines (ls : List Bytes) (hfree : ∀ l ∈ ls, 10 ∉ l) : linesOf (unlines ls) = ls := by
  have key : ∀ ls : List Bytes, (∀ l ∈ ls, 10 ∉ l) → splitOn 10 (unlines ls) = ls ++ [[]] := by
    intro ls
    induction ls with
    | nil => intro _; simp [unlines, splitOn]
    | cons l rest ih =>
      intro hf
      have h1 : unlines (l :: rest) = l ++ 10 :: unlines rest := by simp [unlines]
      have hl : 10 ∉ l := hf l (by simp)
      have : ∀ (l : Bytes) (r : Bytes), 10 ∉ l → splitOn 10 (l ++ 10 :: r) = l :: splitOn 10 r := by
        intro l r hl
        induction l with
        | nil => simp [splitOn]
        | cons b bs ihb =>
          have hb : b ≠ 10 := fun h => hl (by simp [h])
          have hbs : 10 ∉ bs := fun h => hl (by simp [h])
          simp only [List.cons_append, splitOn, hb, if_false, ihb hbs, consHead]
      rw [h1, this l _ hl, ih (fun l' hl' => hf l' (by simp [hl']))]
      simp
  unfold linesOf
  rw [key ls hfree]
  simp

/-! ### reshape -/

theorem chunkF_flatten {α} (n : Nat) (rows : List (List α)) (h : ∀ r ∈ rows, r.length = n) :
    chunkF n rows.length rows.flatten = rows := by
  induction rows with
  | nil => simp [chunkF]
  | cons r rs ih =>
    have hr : r.length = n := h r (by simp)
    simp only [List.length_cons, chunkF, List.flatten_cons]
    rw [List.take_append_of_le_length (by omega), List.take_of_length_le (by omega)]
    rw [List.drop_append_of_le_length (by omega), List.drop_of_length_le (by omega)]
    simp [ih (fun r' hr' => h r' (by simp [hr']))]

theorem length_flatten_const {α} (n : Nat) (rows : List (List α)) (h : ∀ r ∈ rows, r.length = n) :
    rows.flatten.length = rows.length * n := by
  induction rows with
  | nil => simp
  | cons r rs ih =>
    simp only [List.flatten_cons, List.length_append, List.length_cons]
    rw [ih (fun r' hr' => h r' (by simp [hr'])), h r (by simp)]
    rw [Nat.add_mul]; omega

theorem count_joinWith (d : Nat) (ps : List Bytes) (hne : ps ≠ []) (hfree : ∀ p ∈ ps, d ∉ p) :
    (joinWith d ps).count d + 1 = ps.length := by
  induction ps with
  | nil => exact absurd rfl hne
  | cons p qs ih =>
    cases qs with
    | nil =>
      simp only [joinWith, List.length_cons, List.length_nil]
      have : p.count d = 0 := List.count_eq_zero.mpr (hfree p (by simp))
      omega
    | cons q rs =>
      simp only [joinWith, List.count_append, List.count_cons_self, List.length_cons]
      have hp : p.count d = 0 := List.count_eq_zero.mpr (hfree p (by simp))
      have := ih (by simp) (fun p' hp' => hfree p' (by simp [hp']))
      simp only [List.length_cons] at this
      omega

theorem takeWhile_append_stop {α} (p : α → Bool) (xs : List α) (y : α) (ys : List α)
    (hx : ∀ x ∈ xs, p x = true) (hy : p y = false) :
    (xs ++ y :: ys).takeWhile p = xs := by
  induction xs with
  | nil => simp [hy]
  | cons x rest ih =>
    simp only [List.cons_append, List.takeWhile, hx x (by simp)]
    rw [ih (fun z hz => hx z (by simp [hz]))]

theorem delimsFrom_length_eq_pieces (isD : Nat → Bool) (bs : Bytes) (k : Nat) (acc : Bytes) :
    (delimsFrom isD k bs).length = (piecesAcc isD acc bs).length := by
  induction bs generalizing k acc with
  | nil => rfl
  | cons b rest ih =>
    simp only [delimsFrom, piecesAcc]
    split
    · simp [ih (k + 1) []]
    · exact ih (k + 1) _

/-! ## C02.fieldTable_spec -/

/-- **fieldTable_spec.** For every byte string with at least one complete line in which every line has the
same number `n` of TAB-separated fields, the delimiter-offset table computed as the code computes it
(positions of TAB/newline in the complete part, `n` from the first line, starts = previous delimiter + 1,
reshape to `n` columns) succeeds, has `n` columns, and slicing the buffer at its (start, end) pairs gives
exactly `lines.map (splitOn TAB)`. -/
theorem fieldTable_spec (d : Nat) (hd : d ≠ 10) (bs : Bytes) (n : Nat)
    (hne : linesOf bs ≠ [])
    (huni : ∀ l ∈ linesOf bs, (splitOn d l).length = n) :
    ∃ t, fieldTable d bs = .ok t ∧ t.nCols = n ∧
      tableFields (complete bs) t = (linesOf bs).map (splitOn d) := by
  have hcomp := complete_eq bs
  have hfree := linesOf_free bs
  obtain ⟨l0, rest, hl⟩ : ∃ l0 rest, linesOf bs = l0 :: rest := by
    cases h : linesOf bs with
    | nil => exact absurd h hne
    | cons a b => exact ⟨a, b, rfl⟩
  have hdata_ne : complete bs ≠ [] := by
    rw [hcomp, hl]; simp [unlines]
  -- the column count read off the first line
  have hn : ((complete bs).takeWhile (fun b => b != 10)).count d + 1 = n := by
    rw [hcomp, hl]
    have h1 : unlines (l0 :: rest) = l0 ++ 10 :: unlines rest := by simp [unlines]
    rw [h1, takeWhile_append_stop _ l0 10 _ _ (by simp)]
    · have hj := joinWith_splitOn d l0
      have := count_joinWith d (splitOn d l0) (splitOn_ne_nil d l0) (fun p hp => (splitOn_pieces d l0 p hp).1)
      rw [hj] at this
      rw [this]
      exact huni l0 (by rw [hl]; simp)
    · intro x hx
      have : x ≠ 10 := fun h => hfree l0 (by rw [hl]; simp) (h ▸ hx)
      simp [this]
  have hnpos : 0 < n := by omega
  -- the pieces of the complete part
  have hpieces : pieces (isDelim d) (complete bs) = ((linesOf bs).map (splitOn d)).flatten := by
    rw [hcomp]; exact pieces_unlines d hd _ hfree
  have hrowlen : ∀ r ∈ (linesOf bs).map (splitOn d), r.length = n := by
    intro r hr
    simp only [List.mem_map] at hr
    obtain ⟨l, hl', rfl⟩ := hr
    exact huni l hl'
  have hdslen : (delimsFrom (isDelim d) 0 (complete bs)).length = (linesOf bs).length * n := by
    rw [delimsFrom_length_eq_pieces (isDelim d) (complete bs) 0 []]
    change (pieces (isDelim d) (complete bs)).length = _
    rw [hpieces, length_flatten_const n _ hrowlen]
    simp
  refine ⟨⟨n, 0 :: (delimsFrom (isDelim d) 0 (complete bs)).dropLast.map (· + 1), delimsFrom (isDelim d) 0 (complete bs)⟩, ?_, rfl, ?_⟩
  · have hvalid : ((linesOf (complete bs)).map (fun l => l.count d + 1)).findIdx? (fun c => c != n) = none := by
      rw [List.findIdx?_eq_none_iff]
      intro c hc
      rw [hcomp, linesOf_unlines _ hfree] at hc
      simp only [List.mem_map] at hc
      obtain ⟨l, hl', rfl⟩ := hc
      have hj := joinWith_splitOn d l
      have := count_joinWith d (splitOn d l) (splitOn_ne_nil d l) (fun p hp => (splitOn_pieces d l p hp).1)
      rw [hj, huni l hl'] at this
      simp [this]
    unfold fieldTable
    simp only [hdata_ne, if_false, hn, hvalid, hdslen, Nat.mul_mod_left]
    simp
  · unfold tableFields Table.rows Table.pairs
    simp only
    rw [hdslen, Nat.mul_div_cancel _ hnpos]
    -- map slice over chunks = chunks of mapped slices
    have hmap : ∀ (k : Nat) (xs : List (Nat × Nat)),
        (chunkF n k xs).map (fun r => r.map (fun p => slice (complete bs) p.1 p.2))
          = chunkF n k (xs.map (fun p => slice (complete bs) p.1 p.2)) := by
      intro k
      induction k with
      | zero => intro xs; simp [chunkF]
      | succ k ih => intro xs; simp [chunkF, ih, List.map_take, List.map_drop]
    rw [hmap]
    have hz : (List.zip (0 :: (delimsFrom (isDelim d) 0 (complete bs)).dropLast.map (· + 1)) (delimsFrom (isDelim d) 0 (complete bs))).map
        (fun p => slice (complete bs) p.1 p.2)
        = List.zipWith (slice (complete bs)) (0 :: (delimsFrom (isDelim d) 0 (complete bs)).dropLast.map (· + 1)) (delimsFrom (isDelim d) 0 (complete bs)) := by
      rw [List.zip, List.map_zipWith]
    rw [hz, zipWith_dropLast, bridge, hpieces]
    have := chunkF_flatten n ((linesOf bs).map (splitOn d)) hrowlen
    simpa using this

/-! ### digits -/

theorem foldl_dec (acc : Nat) (ds : List Nat) :
    ds.foldl (fun a x => 10 * a + x) acc = acc * 10 ^ ds.length + decVal ds := by
  unfold decVal
  induction ds generalizing acc with
  | nil => simp
  | cons x xs ih =>
    simp only [List.foldl_cons, List.length_cons]
    rw [ih (10 * acc + x), ih (10 * 0 + x)]
    simp only [Nat.mul_zero, Nat.zero_add, Nat.pow_succ]
    rw [Nat.add_mul, Nat.add_assoc]
    congr 1
    rw [Nat.mul_comm 10 acc, Nat.mul_assoc, Nat.mul_comm 10]

theorem decVal_cons (x : Nat) (xs : List Nat) : decVal (x :: xs) = x * 10 ^ xs.length + decVal xs := by
  have := foldl_dec (10 * 0 + x) xs
  simpa [decVal] using this

theorem decVal_append (a b : List Nat) : decVal (a ++ b) = decVal a * 10 ^ b.length + decVal b := by
  have := foldl_dec (decVal a) b
  unfold decVal at this ⊢
  rw [List.foldl_append]
  exact this

theorem decVal_replicate_zero (k : Nat) : decVal (List.replicate k 0) = 0 := by
  induction k with
  | zero => rfl
  | succ k ih => rw [List.replicate_succ, decVal_cons, ih]; simp

/-- leading zeros do not change the value -/
theorem decVal_zeros (k : Nat) (ds : List Nat) : decVal (List.replicate k 0 ++ ds) = decVal ds := by
  rw [decVal_append, decVal_replicate_zero]; simp

theorem powersDesc_succ (n : Nat) : powersDesc (n + 1) = 10 ^ n :: powersDesc n := by
  simp [powersDesc, List.range_succ]

/-- `digits.dot(10 ** arange(w)[::-1])` is the Horner value of the digit row -/
theorem dot_powers (ds : List Nat) : dot ds (powersDesc ds.length) = decVal ds := by
  induction ds with
  | nil => simp [dot, powersDesc, decVal]
  | cons x xs ih =>
    rw [List.length_cons, powersDesc_succ, decVal_cons, ← ih]
    simp [dot]

theorem le_maxWidth_aux (fs : List (Nat × Nat)) (m : Nat) :
    m ≤ fs.foldl (fun m p => max m (p.2 - p.1)) m ∧
    ∀ p ∈ fs, p.2 - p.1 ≤ fs.foldl (fun m p => max m (p.2 - p.1)) m := by
  induction fs generalizing m with
  | nil => simp
  | cons q qs ih =>
    simp only [List.foldl_cons, List.mem_cons]
    have h := ih (max m (q.2 - q.1))
    refine ⟨Nat.le_trans (Nat.le_max_left _ _) h.1, ?_⟩
    intro p hp
    cases hp with
    | inl hp => subst hp; exact Nat.le_trans (Nat.le_max_right _ _) h.1
    | inr hp => exact h.2 p hp

theorem le_maxWidth (fs : List (Nat × Nat)) : ∀ p ∈ fs, p.2 - p.1 ≤ maxWidth fs :=
  (le_maxWidth_aux fs 0).2

theorem slice_length (data : Bytes) (s e : Nat) (he : e ≤ data.length) : (slice data s e).length = e - s := by
  simp [slice]; omega

theorem slice_getElem (data : Bytes) (s e i : Nat) (he : e ≤ data.length) (hi : i < e - s) :
    (slice data s e)[i]'(by rw [slice_length data s e he]; exact hi) = data.getD (s + i) 0 := by
  simp only [slice, List.getElem_take, List.getElem_drop]
  rw [List.getD_eq_getElem?_getD, List.getElem?_eq_getElem (by omega)]
  simp

/-- a row of the digit matrix is the field, right-aligned, with '0' in front -/
theorem digitRow_eq (data : Bytes) (w : Nat) (p : Nat × Nat) (hp : p.1 ≤ p.2 ∧ p.2 ≤ data.length)
    (hw : p.2 - p.1 ≤ w) :
    digitRow data w p = List.replicate (w - (p.2 - p.1)) 48 ++ slice data p.1 p.2 := by
  apply List.ext_getElem
  · simp [digitRow, slice_length data p.1 p.2 hp.2]; omega
  · intro j h1 h2
    simp only [digitRow, List.getElem_map, List.getElem_range]
    have hjw : j < w := by simpa [digitRow] using h1
    by_cases hj : j < w - (p.2 - p.1)
    · simp only [hj, if_true]
      rw [List.getElem_append_left (by simpa using hj)]
      simp
    · simp only [hj, if_false]
      rw [List.getElem_append_right (by simp; omega)]
      rw [slice_getElem data p.1 p.2 _ hp.2 (by simp; omega)]
      congr 1
      simp; omega

theorem all_digit_row (data : Bytes) (w : Nat) (p : Nat × Nat) (hp : p.1 ≤ p.2 ∧ p.2 ≤ data.length)
    (hw : p.2 - p.1 ≤ w) (hd : (slice data p.1 p.2).all isDigit = true) :
    (digitRow data w p).all isDigit = true := by
  rw [digitRow_eq data w p hp hw, List.all_append, hd]
  simp [isDigit]

theorem row_value (data : Bytes) (w : Nat) (p : Nat × Nat) (hp : p.1 ≤ p.2 ∧ p.2 ≤ data.length)
    (hw : p.2 - p.1 ≤ w) :
    dot ((digitRow data w p).map (· - 48)) (powersDesc (digitRow data w p).length)
      = decVal ((slice data p.1 p.2).map (· - 48)) := by
  have hlen : (digitRow data w p).length = ((digitRow data w p).map (· - 48)).length := by simp
  rw [hlen, dot_powers, digitRow_eq data w p hp hw]
  simp only [List.map_append, List.map_replicate]
  exact decVal_zeros _ _

/-- **digitMatrix_value.** For any column of fields (arbitrary, unequal widths) whose bytes are decimal digits,
the zero-filled right-aligned digit matrix dotted with the powers of ten gives, for every row, that row's own
value — no row's result depends on any other row's width or content. -/
theorem digitMatrix_value (data : Bytes) (fs : List (Nat × Nat))
    (hwf : ∀ p ∈ fs, p.1 ≤ p.2 ∧ p.2 ≤ data.length)
    (hdig : ∀ p ∈ fs, (slice data p.1 p.2).all isDigit = true) :
    digitMatrixValues data fs
      = .ok (fs.map (fun p => ((decVal ((slice data p.1 p.2).map (· - 48)) : Nat) : Int))) := by
  unfold digitMatrixValues
  have hbad : firstBadRow (digitMatrix data fs) isDigit = none := by
    unfold firstBadRow
    have : (digitMatrix data fs).findIdx (fun r => !r.all isDigit) = (digitMatrix data fs).length := by
      apply List.findIdx_eq_length_of_false
      intro r hr
      simp only [digitMatrix, List.mem_map] at hr
      obtain ⟨p, hp, rfl⟩ := hr
      simp [all_digit_row data _ p (hwf p hp) (le_maxWidth fs p hp) (hdig p hp)]
    simp [this]
  simp only [hbad]
  congr 1
  simp only [digitMatrix, List.map_map]
  apply List.map_congr_left
  intro p hp
  simp only [Function.comp]
  rw [row_value data _ p (hwf p hp) (le_maxWidth fs p hp)]

/-- the value of an unsigned integer column is the standard reading of each field's text -/
theorem digitMatrix_specNat (data : Bytes) (fs : List (Nat × Nat))
    (hwf : ∀ p ∈ fs, p.1 ≤ p.2 ∧ p.2 ≤ data.length)
    (hdig : ∀ p ∈ fs, ∃ v, specNat (slice data p.1 p.2) = some v) :
    ∃ vs, digitMatrixValues data fs = .ok vs ∧
      omap (fun p => (specNat (slice data p.1 p.2)).map (fun n => (n : Int))) fs = some vs := by
  have hd : ∀ p ∈ fs, (slice data p.1 p.2).all isDigit = true := by
    intro p hp
    obtain ⟨v, hv⟩ := hdig p hp
    unfold specNat at hv
    split at hv
    · rename_i h; exact h.2
    · simp at hv
  refine ⟨_, digitMatrix_value data fs hwf hd, ?_⟩
  apply omap_some_map
  intro p hp
  obtain ⟨v, hv⟩ := hdig p hp
  unfold specNat at hv ⊢
  split at hv
  · rename_i h; simp [h]
  · simp at hv

/-! ### signed integers: whichever path `get_digit_array` takes, the value is the standard reading -/

theorem specNat_some (t : Bytes) (v : Nat) (h : specNat t = some v) :
    t ≠ [] ∧ t.all isDigit = true ∧ v = decVal (t.map (· - 48)) := by
  unfold specNat at h
  split at h
  · rename_i hc; exact ⟨hc.1, hc.2, by simpa using h.symm⟩
  · simp at h

theorem isDigit_not_sign (b : Nat) (h : isDigit b = true) : b ≠ 45 ∧ b ≠ 43 := by
  simp only [isDigit, Bool.and_eq_true, decide_eq_true_eq] at h
  omega

/-- `str_to_int` on one ragged row = the standard optionally-signed reading, whenever the text is an integer -/
theorem signedRow_spec (t : Bytes) (v : Int) (h : specInt t = some v) : signedRow t = some v := by
  unfold specInt at h
  have plain : ∀ (t : Bytes) (n : Nat), specNat t = some n → t.head? ≠ some 45 → t.head? ≠ some 43 →
      signedRow t = some (n : Int) := by
    intro t n hn h1 h2
    obtain ⟨_, hd, rfl⟩ := specNat_some t n hn
    unfold signedRow
    simp only [h1, h2, decide_false, Bool.or_self, Bool.false_and, Bool.false_eq_true, if_false, hd, if_true]
    have hl : t.length = (t.map (· - 48)).length := by simp
    rw [hl, dot_powers]
  have signed : ∀ (c : Nat) (r : Bytes) (n : Nat), (c = 45 ∨ c = 43) → specNat r = some n →
      signedRow (c :: r) = some (if c = 45 then -(n : Int) else (n : Int)) := by
    intro c r n hc hn
    obtain ⟨hrne, hd, rfl⟩ := specNat_some r n hn
    unfold signedRow
    have hlen1 : ((c :: r).length == 1) = false := by
      cases r with
      | nil => exact absurd rfl hrne
      | cons x xs => simp
    have hbody : ((48 :: r).all isDigit) = true := by simp [hd, isDigit]
    have hval : dot ((48 :: r).map (· - 48)) (powersDesc (48 :: r).length) = decVal (r.map (· - 48)) := by
      have hl : (48 :: r).length = ((48 :: r).map (· - 48)).length := by simp
      rw [hl, dot_powers]
      have : (48 :: r).map (· - 48) = List.replicate 1 0 ++ r.map (· - 48) := by simp
      rw [this, decVal_zeros]
    have hval' : dot (0 :: r.map (· - 48)) (powersDesc (r.length + 1)) = decVal (r.map (· - 48)) := by
      simpa using hval
    cases hc with
    | inl hc => subst hc; simp [hbody, hval', hrne]
    | inr hc => subst hc; simp [hbody, hval', hrne]
  match t, h with
  | 45 :: r, h =>
    cases hn : specNat r with
    | none => simp [hn] at h
    | some n =>
      simp [hn] at h
      rw [signed 45 r n (Or.inl rfl) hn, ← h]; simp
  | 43 :: r, h =>
    cases hn : specNat r with
    | none => simp [hn] at h
    | some n =>
      simp [hn] at h
      rw [signed 43 r n (Or.inr rfl) hn, ← h]; simp
  | [], h => simp [specNat] at h
  | c :: r, h =>
    by_cases h45 : c = 45
    · subst h45
      cases hn : specNat r with
      | none => simp [hn] at h
      | some n =>
        simp [hn] at h
        rw [signed 45 r n (Or.inl rfl) hn, ← h]; simp
    · by_cases h43 : c = 43
      · subst h43
        cases hn : specNat r with
        | none => simp [hn] at h
        | some n =>
          simp [hn] at h
          rw [signed 43 r n (Or.inr rfl) hn, ← h]; simp
      · have h' : (specNat (c :: r)).map (fun n => (n : Int)) = some v := by
          simpa [h45, h43] using h
        cases hn : specNat (c :: r) with
        | none => simp [hn] at h'
        | some n =>
          simp [hn] at h'
          rw [plain (c :: r) n hn (by simp [h45]) (by simp [h43]), h']

theorem omap_map {α β γ} (f : β → Option γ) (g : α → β) (l : List α) :
    omap f (l.map g) = omap (fun a => f (g a)) l := by
  induction l with
  | nil => rfl
  | cons x xs ih => simp only [List.map_cons, omap, ih]

theorem slice_head (data : Bytes) (s e : Nat) (h : s < e) (he : e ≤ data.length) :
    (slice data s e).head? = some (data.getD s 0) := by
  have hl : 0 < (slice data s e).length := by rw [slice_length data s e he]; omega
  rw [List.head?_eq_getElem?, List.getElem?_eq_getElem hl, slice_getElem data s e 0 he (by omega)]
  simp

theorem specInt_nonempty (t : Bytes) (v : Int) (h : specInt t = some v) : t ≠ [] := by
  intro ht; subst ht; simp [specInt, specNat] at h

theorem specInt_unsigned (t : Bytes) (h1 : t.head? ≠ some 45) (h2 : t.head? ≠ some 43) :
    specInt t = (specNat t).map (fun n => (n : Int)) := by
  unfold specInt
  match t with
  | [] => rfl
  | c :: r =>
    have hc1 : c ≠ 45 := by simpa using h1
    have hc2 : c ≠ 43 := by simpa using h2
    split
    · rename_i heq; simp at heq; exact absurd heq.1 hc1
    · rename_i heq; simp at heq; exact absurd heq.1 hc2
    · rfl

/-- **intColumn_spec.** An integer column (any mixture of widths; with or without signs, i.e. whichever of the
two code paths `get_digit_array` selects) parses to the standard reading of each field's own text. -/
theorem intColumn_spec (data : Bytes) (fs : List (Nat × Nat))
    (hwf : ∀ p ∈ fs, p.1 ≤ p.2 ∧ p.2 ≤ data.length)
    (hint : ∀ p ∈ fs, ∃ v, specInt (slice data p.1 p.2) = some v) :
    ∃ vs, intColumn data fs = .ok vs ∧ omap (fun p => specInt (slice data p.1 p.2)) fs = some vs := by
  have hsome : (omap (fun p => specInt (slice data p.1 p.2)) fs).isSome := by
    rw [omap_isSome_iff]
    intro p hp
    obtain ⟨v, hv⟩ := hint p hp
    simp [hv]
  obtain ⟨vs, hvs⟩ := Option.isSome_iff_exists.mp hsome
  refine ⟨vs, ?_, hvs⟩
  unfold intColumn
  simp only
  split
  · -- sign path
    unfold signedValues
    have : omap signedRow (fs.map (fun p => slice data p.1 p.2)) = some vs := by
      rw [omap_map, ← hvs]
      apply omap_congr
      intro p hp
      obtain ⟨v, hv⟩ := hint p hp
      rw [hv]; exact signedRow_spec _ v hv
    simp [this]
  · -- digit matrix path: no field starts with a sign
    rename_i hns
    have hns' : ∀ p ∈ fs, data.getD p.1 0 ≠ 45 ∧ data.getD p.1 0 ≠ 43 := by
      intro p hp
      have := hns
      simp only [List.any_eq_true, not_exists, not_and, Bool.or_eq_true, decide_eq_true_eq, not_or] at this
      exact this p hp
    have hnat : ∀ p ∈ fs, ∃ n, specNat (slice data p.1 p.2) = some n := by
      intro p hp
      obtain ⟨v, hv⟩ := hint p hp
      have hne := specInt_nonempty _ v hv
      have hlt : p.1 < p.2 := by
        rcases Nat.lt_or_ge p.1 p.2 with h | h
        · exact h
        · exfalso; apply hne; simp [slice]; omega
      have hh := slice_head data p.1 p.2 hlt (hwf p hp).2
      have hu := specInt_unsigned (slice data p.1 p.2) (by rw [hh]; simpa using (hns' p hp).1)
        (by rw [hh]; simpa using (hns' p hp).2)
      rw [hu] at hv
      cases hn : specNat (slice data p.1 p.2) with
      | none => simp [hn] at hv
      | some n => exact ⟨n, rfl⟩
    obtain ⟨ws, hw1, hw2⟩ := digitMatrix_specNat data fs hwf hnat
    rw [hw1]
    have : omap (fun p => specInt (slice data p.1 p.2)) fs
        = omap (fun p => (specNat (slice data p.1 p.2)).map (fun n => (n : Int))) fs := by
      apply omap_congr
      intro p hp
      obtain ⟨v, hv⟩ := hint p hp
      have hne := specInt_nonempty _ v hv
      have hlt : p.1 < p.2 := by
        rcases Nat.lt_or_ge p.1 p.2 with h | h
        · exact h
        · exfalso; apply hne; simp [slice]; omega
      have hh := slice_head data p.1 p.2 hlt (hwf p hp).2
      exact specInt_unsigned (slice data p.1 p.2) (by rw [hh]; simpa using (hns' p hp).1)
        (by rw [hh]; simpa using (hns' p hp).2)
    rw [this, hw2] at hvs
    simp at hvs
    rw [hvs]

/-! ### list-valued columns -/

theorem unflatten_flatten {α} (rows : List (List α)) :
    unflatten (rows.map List.length) rows.flatten = rows := by
  induction rows with
  | nil => simp [unflatten]
  | cons r rs ih => simp [unflatten, ih]

theorem pieces_texts (sep : Nat) (rows : List Bytes) :
    pieces (· == sep) ((rows.map (· ++ [sep])).flatten) = (rows.map (splitOn sep)).flatten := by
  induction rows with
  | nil => simp [pieces, piecesAcc]
  | cons r rest ih =>
    have h1 : ((r :: rest).map (· ++ [sep])).flatten = r ++ sep :: (rest.map (· ++ [sep])).flatten := by simp
    rw [h1, pieces_stretch (· == sep) sep r sep _ (fun _ _ => rfl) (by simp), ih]
    simp

theorem count_sep (sep : Nat) (r : Bytes) : (r ++ [sep]).count sep = (splitOn sep r).length := by
  have hj := joinWith_splitOn sep r
  have := count_joinWith sep (splitOn sep r) (splitOn_ne_nil sep r) (fun p hp => (splitOn_pieces sep r p hp).1)
  rw [hj] at this
  simp [List.count_append]; omega

/-- **listColumn_spec.** The flat split-and-regroup of a list column gives, for every row, the non-empty
`splitOn ','` items of that row's own text (so a trailing comma adds no element and rows do not leak
into each other). -/
theorem listColumn_spec (sep : Nat) (rows : List Bytes) :
    splitRows sep rows = rows.map (fun f => (splitOn sep f).filter (· ≠ [])) := by
  unfold splitRows
  simp only
  rw [pieces_texts]
  have hc : (rows.map (· ++ [sep])).map (·.count sep) = (rows.map (splitOn sep)).map List.length := by
    simp only [List.map_map]
    apply List.map_congr_left
    intro r _
    exact count_sep sep r
  rw [hc, unflatten_flatten]
  simp [List.map_map, Function.comp_def]

/-- the regrouping shipped before the repair: `10,20,` / `7,` came out as `[10,20,7]` / `[]` -/
theorem splitRowsOld_unsound :
    splitRowsOld 44 [[49,48,44,50,48,44], [55,44]] = [[[49,48],[50,48],[55]], []] ∧
    splitRows 44 [[49,48,44,50,48,44], [55,44]] = [[[49,48],[50,48]], [[55]]] := by decide

theorem intListColumn_spec (rows : List Bytes) (vs : List (List Int))
    (h : omap specIntList rows = some vs) : intListColumn rows = .ok vs := by
  unfold intListColumn
  simp only
  rw [listColumn_spec]
  have : omap (omap signedRow) (rows.map (fun f => (splitOn 44 f).filter (· ≠ []))) = some vs := by
    rw [omap_map, ← h]
    apply omap_congr
    intro r hr
    have hs : (specIntList r).isSome := by
      have := (omap_isSome_iff specIntList rows).mp (by simp [h]) r hr
      exact this
    obtain ⟨w, hw⟩ := Option.isSome_iff_exists.mp hs
    rw [hw]
    unfold specIntList at hw
    rw [← hw]
    apply omap_congr
    intro t ht
    have := (omap_isSome_iff specInt _).mp (by rw [hw]; rfl) t ht
    obtain ⟨v, hv⟩ := Option.isSome_iff_exists.mp this
    rw [hv]; exact signedRow_spec t v hv
  rw [this]

/-! ### optional integers -/

theorem optIntColumn_spec (texts : List Bytes)
    (h : ∀ t ∈ texts, t = [] ∨ t = [46] ∨ ∃ v, specInt t = some v) :
    optIntColumn texts = .ok (texts.map (fun t => if t = [] ∨ t = [46] then 0 else (specInt t).getD 0)) := by
  unfold optIntColumn
  simp only
  have hpres : (omap signedRow (texts.filter (fun t => t ≠ [] && t ≠ [46]))).isSome := by
    rw [omap_isSome_iff]
    intro t ht
    simp only [List.mem_filter, Bool.and_eq_true, decide_eq_true_eq] at ht
    rcases h t ht.1 with h1 | h1 | ⟨v, hv⟩
    · exact absurd h1 ht.2.1
    · exact absurd h1 ht.2.2
    · simp [signedRow_spec t v hv]
  obtain ⟨ws, hws⟩ := Option.isSome_iff_exists.mp hpres
  simp only [signedValues, hws]
  congr 1
  apply List.map_congr_left
  intro t ht
  rcases h t ht with h1 | h1 | ⟨v, hv⟩
  · simp [h1]
  · simp [h1]
  · have hne := specInt_nonempty t v hv
    have hnd : t ≠ [46] := by
      intro hd; subst hd; simp [specInt, specNat, isDigit] at hv
    simp [hne, hnd, signedRow_spec t v hv, hv]

/-- the rule shipped before the repair raised on a '.' next to a number -/
theorem optIntColumnOld_unsound :
    (match optIntColumnOld [[46], [53]] with | .error (.format 0) => true | _ => false) = true ∧
    (match optIntColumn [[46], [53]] with | .ok [0, 5] => true | _ => false) = true := by decide

/-! ### identifier columns (right-padded matrix) -/

theorem paddedRow_eq (data : Bytes) (w : Nat) (p : Nat × Nat) (hp : p.1 ≤ p.2 ∧ p.2 ≤ data.length)
    (hw : p.2 - p.1 ≤ w) :
    paddedRow data w p = slice data p.1 p.2 ++ List.replicate (w - (p.2 - p.1)) 0 := by
  apply List.ext_getElem
  · simp [paddedRow, slice_length data p.1 p.2 hp.2]; omega
  · intro j h1 h2
    simp only [paddedRow, List.getElem_map, List.getElem_range]
    have hjw : j < w := by simpa [paddedRow] using h1
    by_cases hj : j < p.2 - p.1
    · simp only [hj, if_true]
      rw [List.getElem_append_left (by rw [slice_length data p.1 p.2 hp.2]; exact hj)]
      rw [slice_getElem data p.1 p.2 j hp.2 hj]
      congr 1
      omega
    · simp only [hj, if_false]
      rw [List.getElem_append_right (by rw [slice_length data p.1 p.2 hp.2]; omega)]
      simp

theorem stripNul_padded (t : Bytes) (k : Nat) (h : t.getLast? ≠ some 0) :
    stripNul (t ++ List.replicate k 0) = t := by
  unfold stripNul
  rw [List.reverse_append, List.reverse_replicate]
  cases hr : t.reverse with
  | nil =>
    have : t = [] := by simpa using hr
    subst this
    rw [List.append_nil, dropWhile_all _ _ (by intro x hx; simp [List.mem_replicate] at hx; simp [hx.2])]
    rfl
  | cons a rest =>
    have ht : t = rest.reverse ++ [a] := by
      have := congrArg List.reverse hr
      simpa using this
    have ha : a ≠ 0 := by
      intro h0; apply h; rw [ht, h0]; simp
    rw [dropWhile_append_stop _ _ a rest (by intro x hx; simp [List.mem_replicate] at hx; simp [hx.2]) (by simp [ha])]
    rw [ht]; simp

/-- **idColumn_spec.** An identifier column (right-padded NUL matrix, read back as fixed-width byte strings)
shows each row's own text, for any mixture of widths. -/
theorem idColumn_spec (data : Bytes) (fs : List (Nat × Nat))
    (hwf : ∀ p ∈ fs, p.1 ≤ p.2 ∧ p.2 ≤ data.length)
    (hnul : ∀ p ∈ fs, (slice data p.1 p.2).getLast? ≠ some 0) :
    (paddedMatrix data fs).map stripNul = fs.map (fun p => slice data p.1 p.2) := by
  unfold paddedMatrix
  rw [List.map_map]
  apply List.map_congr_left
  intro p hp
  simp only [Function.comp]
  rw [paddedRow_eq data _ p (hwf p hp) (le_maxWidth fs p hp)]
  exact stripNul_padded _ _ (hnul p hp)

/-! ### generated obligations: the package's schemas are the documented ones -/

/-- declared kind ↦ documented kind: the package has one `int` type (signed text accepted), and types the INFO
column by the header (text when no key is declared) -/
def normKind (k : String) : String := if k = "sint" then "int" else k
def genKind (k : String) : String := if k = "info" then "str" else k

def schemaMatches (fmt : String) (D : DocFmt) : Bool :=
  match Gen.C02.all.find? (·.1 == fmt) with
  | none => false
  | some (_, S) =>
    S.cols.map (fun c => (c.1, genKind c.2)) == D.cols.map (fun c => (c.1, normKind c.2)) &&
    S.delim == 9 && S.comment == D.comment && S.interiorComments == D.interior && S.linesPerEntry == 1

/-- column order, names and types of every delimited format, delimiter, comment character, interior-comment
support: what the running package declares = what the format documents define (re-checked every run) -/
theorem gen_schemas : docFormats.all (fun p => schemaMatches p.1 p.2) = true := by decide +kernel

/-- FASTA/FASTQ line roles: lines per entry, header-marker offset, record marker -/
theorem gen_kline :
    (Gen.C02.all.find? (·.1 == "fasta2")).map (fun p => (p.2.linesPerEntry, p.2.lineOffsets, p.2.marker)) = some (2, [1, 0], 62) ∧
    (Gen.C02.all.find? (·.1 == "fastq")).map (fun p => (p.2.linesPerEntry, p.2.lineOffsets, p.2.marker)) = some (4, [1, 0, 0, 0], 64) ∧
    (Gen.C02.all.find? (·.1 == "fasta")).map (fun p => p.2.marker) = some 62 ∧
    (Gen.C02.all.find? (·.1 == "fastq")).map (fun p => p.2.cols.map (·.1)) = some ["name", "sequence", "quality"] := by
  decide +kernel

/-- coordinate conventions measured on the running code: VCF POS is shifted by −1, BED/SAM/GTF are kept -/
theorem gen_shifts : Gen.C02.vcfPosShift = -1 ∧ Gen.C02.bedStartShift = 0 ∧ Gen.C02.samPosShift = 0 ∧
    Gen.C02.gtfStartShift = 0 := by decide

/-- VCF: the position column of the parse is the text's value minus one (and nothing else is shifted) -/
theorem vcf_pos (cols : List Col) (v : List Int) (h : cols[1]? = some (Col.ints v)) :
    (shiftCol 1 Gen.C02.vcfPosShift cols)[1]? = some (Col.ints (v.map (· - 1))) := by
  have hs : Gen.C02.vcfPosShift = -1 := gen_shifts.1
  have hlen : 1 < cols.length := by
    rcases Nat.lt_or_ge 1 cols.length with h' | h'
    · exact h'
    · rw [List.getElem?_eq_none h'] at h; simp at h
  have hget : cols[1] = Col.ints v := by
    rw [List.getElem?_eq_getElem hlen] at h; simpa using h
  unfold shiftCol
  rw [List.getElem?_map, List.getElem?_eq_getElem (by simp; exact hlen)]
  simp only [List.getElem_zip, List.getElem_range, Option.map_some, hget, hs]
  simp [Int.sub_eq_add_neg]

/-! ### interior comments and wrapped FASTA: the repaired index arithmetic, and the refutation of the old one -/

/-- "a\tb\n#x\ty\nc\td\n": the shipped rule cannot build the table when a comment line contains a TAB;
the repaired rule yields the two records -/
theorem commentTableOld_unsound :
    (match commentTableOld 9 35 [97,9,98,10,35,120,9,121,10,99,9,100,10] with | .error _ => true | .ok _ => false) = true ∧
    (match commentTable 9 35 [97,9,98,10,35,120,9,121,10,99,9,100,10] with
      | .ok t => tableFields [97,9,98,10,35,120,9,121,10,99,9,100,10] t == [[[97],[98]], [[99],[100]]]
      | .error _ => false) = true := by decide

theorem psum_getD (a : Nat) (l : List Nat) (i : Nat) (hi : i ≤ l.length) :
    (psum a l).getD i 0 = a + (l.take i).sum := by
  induction l generalizing a i with
  | nil => simp at hi; subst hi; simp [psum]
  | cons x xs ih =>
    cases i with
    | zero => simp [psum]
    | succ j =>
      simp only [psum, List.getD_cons_succ, List.take_succ_cons, List.sum_cons]
      rw [ih (a + x) j (by simpa using hi)]
      omega

theorem sum_take_add (l : List Nat) (a n : Nat) :
    (l.take (a + n)).sum = (l.take a).sum + ((l.drop a).take n).sum := by
  induction l generalizing a with
  | nil => simp
  | cons x xs ih =>
    cases a with
    | zero => simp
    | succ b =>
      have : b + 1 + n = (b + n) + 1 := by omega
      rw [this]
      simp only [List.take_succ_cons, List.sum_cons, List.drop_succ_cons, ih b]
      omega

theorem seqLensAux_spec (lens : List Nat) (off : Nat) (ns : List Nat) (h : off + ns.sum ≤ lens.length) :
    seqLensAux (psum 0 lens) off ns = (unflatten ns (lens.drop off)).map List.sum := by
  induction ns generalizing off with
  | nil => simp [seqLensAux, unflatten]
  | cons n rest ih =>
    simp only [List.sum_cons] at h
    simp only [seqLensAux, unflatten, List.map_cons]
    rw [psum_getD 0 lens (off + n) (by omega), psum_getD 0 lens off (by omega), sum_take_add]
    rw [ih (off + n) (by omega), List.drop_drop]
    congr 1
    omega

/-- **fasta_seqLens.** For any numbers of sequence lines per record — zero included — the repaired arithmetic
gives each record the total length of its own lines. -/
theorem fasta_seqLens (lens nLines : List Nat) (h : nLines.sum ≤ lens.length) :
    seqLens lens nLines = (unflatten nLines lens).map List.sum := by
  have := seqLensAux_spec lens 0 nLines (by omega)
  simpa [seqLens] using this

/-- the shipped arithmetic `ends[offsets[1:]-1] - starts[offsets[:-1]]`: a record without sequence lines at
the end indexes past the array (IndexError); at the front it wraps around to the last line -/
theorem seqLensOld_unsound :
    seqLensOld [2] [1, 0] = none ∧ seqLens [2] [1, 0] = [2, 0] ∧
    seqLensOld [2] [0, 1] = some [2, 2] ∧ seqLens [2] [0, 1] = [0, 2] := by decide

/-! ### carriage returns -/

/-- **crAdjust_spec.** When the first line ends in CR, the last field of every row loses exactly one trailing CR
(if it has one), all other fields are untouched; when it does not, nothing changes. -/
theorem crAdjust_spec (data : Bytes) (rows : List (List (Nat × Nat))) (r0 : List (Nat × Nat)) (rest : List (List (Nat × Nat)))
    (s0 e0 : Nat) (hrows : rows = r0 :: rest) (hlast : r0.getLast? = some (s0, e0)) (he0 : e0 ≠ 0) :
    crAdjustRows data rows =
      if data.getD (e0 - 1) 0 = 13 then
        rows.map (fun r => match r.getLast? with
          | none => r
          | some (s, e) => r.dropLast ++ [(s, if data.getD (e - 1) 0 = 13 then e - 1 else e)])
      else rows := by
  subst hrows
  unfold crAdjustRows
  simp only [hlast]
  rw [if_neg he0]
  split <;> rfl

/-- slicing with the end moved one to the left drops exactly the last byte -/
theorem slice_dropLast (data : Bytes) (s e : Nat) (hse : s < e) (he : e ≤ data.length) :
    slice data s (e - 1) = (slice data s e).dropLast := by
  simp only [slice]
  rw [List.dropLast_eq_take, List.length_take, List.length_drop, List.take_take]
  congr 1
  omega

theorem slice_getLast (data : Bytes) (s e : Nat) (hse : s < e) (he : e ≤ data.length) :
    (slice data s e).getLast? = some (data.getD (e - 1) 0) := by
  have hl : (slice data s e).length = e - s := slice_length data s e he
  rw [List.getLast?_eq_getElem?, hl]
  have : e - s - 1 < (slice data s e).length := by omega
  rw [List.getElem?_eq_getElem this, slice_getElem data s e _ he (by omega)]
  congr 2
  omega

/-- the adjusted (start, end) pair of a non-empty field denotes the field text without its trailing CR -/
theorem crField_spec (data : Bytes) (s e : Nat) (hse : s < e) (he : e ≤ data.length) :
    slice data s (if data.getD (e - 1) 0 = 13 then e - 1 else e) = stripCR (slice data s e) := by
  unfold stripCR
  rw [slice_getLast data s e hse he]
  by_cases h : data.getD (e - 1) 0 = 13
  · rw [if_pos h, if_pos (by rw [h]), slice_dropLast data s e hse he]
  · rw [if_neg h, if_neg (by intro h'; exact h (by simpa using h'))]

/-! ### k-line formats (2-line FASTA, FASTQ): line roles -/

theorem splitOn_free' (d : Nat) (f : Bytes) (h : d ∉ f) : splitOn d f = [f] := by
  induction f with
  | nil => rfl
  | cons b bs ih =>
    have hb : b ≠ d := fun e => h (by simp [e])
    have hbs : d ∉ bs := fun e => h (by simp [e])
    simp [splitOn, hb, ih hbs, consHead]

/-- the newline-terminated pieces of a buffer are its complete lines -/
theorem pieces_nl (bs : Bytes) : pieces (· == 10) bs = linesOf bs := by
  have hfree := linesOf_free bs
  have htail := tailOf_free bs
  conv => lhs; rw [unlines_linesOf bs]
  generalize linesOf bs = ls at hfree
  induction ls with
  | nil =>
    simp only [unlines, List.map_nil, List.flatten_nil, List.nil_append]
    exact piecesAcc_free _ _ [] (fun b hb => by
      have : b ≠ 10 := fun h => htail (h ▸ hb)
      simp [this])
  | cons l rest ih =>
    have h1 : unlines (l :: rest) ++ tailOf bs = l ++ 10 :: (unlines rest ++ tailOf bs) := by simp [unlines]
    rw [h1, pieces_stretch (· == 10) 10 l 10 _ (fun _ _ => rfl) (by simp)]
    rw [splitOn_free' 10 l (hfree l (by simp)), ih (fun l' hl' => hfree l' (by simp [hl']))]
    rfl

theorem chunkF_map {α β} (f : α → β) (n k : Nat) (xs : List α) :
    (chunkF n k xs).map (fun r => r.map f) = chunkF n k (xs.map f) := by
  induction k generalizing xs with
  | zero => simp [chunkF]
  | succ k ih => simp [chunkF, ih, List.map_take, List.map_drop]

theorem slice_add (bs : Bytes) (s o e : Nat) : slice bs (s + o) e = (slice bs s e).drop o := by
  simp only [slice]
  rw [List.drop_take, List.drop_drop]
  congr 1
  omega

/-- **kline_roles.** For every buffer whose number of complete lines is a positive multiple of `k` (2-line FASTA:
k = 2, FASTQ: k = 4) the (start, end) table built from the newline positions denotes, for record `i` and line
role `j`, exactly line `k·i + j` of the text with the role's offset (the header marker) dropped. -/
theorem kline_roles (k : Nat) (offsets : List Nat) (bs : Bytes) (hk : 0 < k)
    (hmul : (linesOf bs).length % k = 0) (hpos : k ≤ (linesOf bs).length) :
    ∃ rows, klineTable k offsets bs = .ok rows ∧
      rows.map (fun r => r.map (fun p => slice bs p.1 p.2))
        = (chunkF k ((linesOf bs).length / k) (linesOf bs)).map (fun e =>
            (List.zip e (offsets ++ List.replicate k 0)).map (fun lo => lo.1.drop lo.2)) := by
  have hlen : (delimsFrom (· == 10) 0 bs).length = (linesOf bs).length := by
    rw [delimsFrom_length_eq_pieces (· == 10) bs 0 []]
    change (pieces (· == 10) bs).length = _
    rw [pieces_nl]
  have hlines : (List.zip (0 :: (delimsFrom (· == 10) 0 bs).dropLast.map (· + 1)) (delimsFrom (· == 10) 0 bs)).map
      (fun p => slice bs p.1 p.2) = linesOf bs := by
    rw [List.zip, List.map_zipWith]
    have := bridge (· == 10) bs
    rw [pieces_nl] at this
    rw [← this, zipWith_dropLast]
  obtain ⟨nls, hnls⟩ : ∃ x, x = delimsFrom (· == 10) 0 bs := ⟨_, rfl⟩
  rw [← hnls] at hlen hlines
  have htake : nls.take (nls.length - nls.length % k) = nls := by
    rw [hlen, hmul]; exact List.take_of_length_le (by omega)
  have hT : klineTable k offsets bs = .ok ((chunkF k (nls.length / k) (List.zip (0 :: nls.dropLast.map (· + 1)) nls)).map
      (fun r => (List.zip r (offsets ++ List.replicate k 0)).map (fun po => (po.1.1 + po.2, po.1.2)))) := by
    unfold klineTable
    simp only [← hnls]
    have : ¬ (k = 0 ∨ nls.length < k) := by omega
    simp only [this, if_false, htake]
  refine ⟨_, hT, ?_⟩
  rw [hlen]
  simp only [List.map_map]
  rw [← hlines, ← chunkF_map, List.map_map]
  apply List.map_congr_left
  intro r _
  simp only [Function.comp]
  rw [List.zip_map_left, List.map_map, List.map_map]
  apply List.map_congr_left
  intro po _
  simp only [Function.comp, Prod.map, id]
  exact slice_add bs po.1.1 po.2 po.1.2

theorem zip_prev_take (g : Nat → Nat) (a : Nat) (l : List Nat) (t : Nat) :
    List.zip (a :: (l.take t).map g) (l.take t) = (List.zip (a :: l.map g) l).take t := by
  induction l generalizing a t with
  | nil => simp
  | cons x xs ih =>
    cases t with
    | zero => simp
    | succ t' =>
      simp only [List.take_succ_cons, List.map_cons, List.zip_cons_cons, List.cons.injEq, true_and]
      exact ih (g x) t'

theorem zip_dropLast_eq (g : Nat → Nat) (a : Nat) (l : List Nat) :
    List.zip (a :: l.dropLast.map g) l = List.zip (a :: l.map g) l := by
  have := zipWith_dropLast (fun (x : Nat) (y : Nat) => (x, y)) g a l
  simpa [List.zip] using this

theorem chunkF_take {α} (n k : Nat) (xs : List α) : chunkF n k (xs.take (n * k)) = chunkF n k xs := by
  induction k generalizing xs with
  | zero => simp [chunkF]
  | succ k ih =>
    simp only [chunkF]
    have h1 : (xs.take (n * (k + 1))).take n = xs.take n := by
      rw [List.take_take]; congr 1; rw [Nat.mul_succ]; omega
    have h2 : (xs.take (n * (k + 1))).drop n = (xs.drop n).take (n * k) := by
      rw [List.drop_take]; congr 1; rw [Nat.mul_succ]; omega
    rw [h1, h2, ih]

/-- **kline_roles_any.** The same without assuming a whole number of records: for every buffer with at least `k`
complete lines the table covers the first ⌊lines / k⌋ records, line `k·i + j` for record `i`, role `j`; left-over
lines of an incomplete last record are not parsed. -/
theorem kline_roles_any (k : Nat) (offsets : List Nat) (bs : Bytes) (hk : 0 < k) (hpos : k ≤ (linesOf bs).length) :
    ∃ rows, klineTable k offsets bs = .ok rows ∧
      rows.map (fun r => r.map (fun p => slice bs p.1 p.2))
        = (chunkF k ((linesOf bs).length / k) (linesOf bs)).map (fun e =>
            (List.zip e (offsets ++ List.replicate k 0)).map (fun lo => lo.1.drop lo.2)) := by
  have hlen : (delimsFrom (· == 10) 0 bs).length = (linesOf bs).length := by
    rw [delimsFrom_length_eq_pieces (· == 10) bs 0 []]
    change (pieces (· == 10) bs).length = _
    rw [pieces_nl]
  have hlines : (List.zip (0 :: (delimsFrom (· == 10) 0 bs).map (· + 1)) (delimsFrom (· == 10) 0 bs)).map
      (fun p => slice bs p.1 p.2) = linesOf bs := by
    rw [List.zip, List.map_zipWith]
    have := bridge (· == 10) bs
    rw [pieces_nl] at this
    rw [← this]
  obtain ⟨nls, hnls⟩ : ∃ x, x = delimsFrom (· == 10) 0 bs := ⟨_, rfl⟩
  rw [← hnls] at hlen hlines
  obtain ⟨t, htdef⟩ : ∃ t, t = nls.length - nls.length % k := ⟨_, rfl⟩
  have htq : t = k * (nls.length / k) := by
    have := Nat.div_add_mod nls.length k
    omega
  have htl : (nls.take t).length = t := by rw [List.length_take]; omega
  have hq : t / k = nls.length / k := by rw [htq, Nat.mul_div_cancel_left _ hk]
  have hT : klineTable k offsets bs = .ok ((chunkF k (nls.length / k)
      (List.zip (0 :: (nls.take t).dropLast.map (· + 1)) (nls.take t))).map
      (fun r => (List.zip r (offsets ++ List.replicate k 0)).map (fun po => (po.1.1 + po.2, po.1.2)))) := by
    unfold klineTable
    simp only [← hnls]
    have : ¬ (k = 0 ∨ nls.length < k) := by omega
    simp only [this, if_false, ← htdef, htl, hq]
  refine ⟨_, hT, ?_⟩
  rw [zip_dropLast_eq, zip_prev_take, hlen] at *
  simp only [List.map_map]
  have hmapped : ((List.zip (0 :: nls.map (· + 1)) nls).take t).map (fun p => slice bs p.1 p.2) = (linesOf bs).take t := by
    rw [List.map_take, hlines]
  rw [← chunkF_take k ((linesOf bs).length / k) (linesOf bs)]
  have htq' : k * ((linesOf bs).length / k) = t := by rw [htq, hlen]
  rw [htq', ← hmapped, ← chunkF_map, List.map_map]
  apply List.map_congr_left
  intro r _
  simp only [Function.comp]
  rw [List.zip_map_left, List.map_map, List.map_map]
  apply List.map_congr_left
  intro po _
  simp only [Function.comp, Prod.map, id]
  exact slice_add bs po.1.1 po.2 po.1.2

/-! ## the per-file composition: offset table + CR rule + typed columns = reference parser -/

/-! ### position facts about the (start, end) pairs -/

def wfPair (isD : Nat → Bool) (whole : Bytes) (s0 : Nat) (p : Nat × Nat) : Prop :=
  p.1 ≤ p.2 ∧ p.2 < whole.length ∧ isD (whole.getD p.2 0) = true ∧
  (p.1 = s0 ∨ (0 < p.1 ∧ isD (whole.getD (p.1 - 1) 0) = true))

theorem getD_append_mid (pre : Bytes) (b : Nat) (post : Bytes) : (pre ++ b :: post).getD pre.length 0 = b := by
  simp [List.getD_eq_getElem?_getD]

theorem pairs_wf_aux (isD : Nat → Bool) (bs pre : Bytes) (s : Nat) (hs : s ≤ pre.length) :
    ∀ p ∈ List.zip (s :: (delimsFrom isD pre.length bs).map (· + 1)) (delimsFrom isD pre.length bs),
      wfPair isD (pre ++ bs) s p := by
  induction bs generalizing pre s with
  | nil => intro p hp; simp [delimsFrom] at hp
  | cons b rest ih =>
    have hpre : pre ++ b :: rest = (pre ++ [b]) ++ rest := by simp
    have hlen : (pre ++ [b]).length = pre.length + 1 := by simp
    intro p hp
    simp only [delimsFrom] at hp
    split at hp
    · rename_i hD
      simp only [List.map_cons, List.zip_cons_cons, List.mem_cons] at hp
      rcases hp with rfl | hp
      · refine ⟨hs, by simp, ?_, Or.inl rfl⟩
        simp only [getD_append_mid, hD]
      · have := ih (pre ++ [b]) (pre.length + 1) (by simp) p (by rw [hlen]; exact hp)
        rw [← hpre] at this
        obtain ⟨h1, h2, h3, h4⟩ := this
        refine ⟨h1, h2, h3, Or.inr ?_⟩
        rcases h4 with h4 | h4
        · rw [h4]
          refine ⟨by omega, ?_⟩
          simp only [Nat.add_sub_cancel, getD_append_mid, hD]
        · exact h4
    · have := ih (pre ++ [b]) s (by simp; omega) p (by rw [hlen]; exact hp)
      rw [← hpre] at this
      exact this

theorem pairs_wf (isD : Nat → Bool) (bs : Bytes) :
    ∀ p ∈ List.zip (0 :: (delimsFrom isD 0 bs).dropLast.map (· + 1)) (delimsFrom isD 0 bs), wfPair isD bs 0 p := by
  have h := pairs_wf_aux isD bs [] 0 (by simp)
  have e : List.zip (0 :: (delimsFrom isD 0 bs).dropLast.map (· + 1)) (delimsFrom isD 0 bs)
      = List.zip (0 :: (delimsFrom isD 0 bs).map (· + 1)) (delimsFrom isD 0 bs) := by
    have := zipWith_dropLast (fun (a : Nat) (b : Nat) => (a, b)) (· + 1) 0 (delimsFrom isD 0 bs)
    simpa [List.zip] using this
  rw [e]
  simpa using h

theorem mem_chunkF {α} (n k : Nat) (xs : List α) (r : List α) (hr : r ∈ chunkF n k xs) : ∀ x ∈ r, x ∈ xs := by
  induction k generalizing xs with
  | zero => simp [chunkF] at hr
  | succ k ih =>
    simp only [chunkF, List.mem_cons] at hr
    rcases hr with rfl | hr
    · intro x hx; exact List.mem_of_mem_take hx
    · intro x hx; exact List.mem_of_mem_drop (ih _ hr x hx)

theorem lastField_getLast (d : Nat) (l f : Bytes) (hf : (splitOn d l).getLast? = some f) (hne : f ≠ []) :
    l.getLast? = f.getLast? := by
  have h := splitOn_ne_nil d l
  have hfs : splitOn d l = (splitOn d l).dropLast ++ [f] := by
    have := List.dropLast_concat_getLast h
    rw [List.getLast?_eq_some_getLast h] at hf
    simp only [Option.some.injEq] at hf
    rw [hf] at this
    exact this.symm
  have hj := joinWith_splitOn d l
  rw [hfs, joinWith_snoc] at hj
  rw [← hj, List.getLast?_append]
  cases hfl : f.getLast? with
  | none => exact absurd (List.getLast?_eq_none_iff.mp hfl) hne
  | some x => simp

theorem columnOf_map {α β} (f : α → β) (rows : List (List α)) (j : Nat) :
    columnOf (rows.map (fun r => r.map f)) j = (columnOf rows j).map f := by
  unfold columnOf
  induction rows with
  | nil => rfl
  | cons r rs ih =>
    simp only [List.map_cons, List.filterMap_cons, List.getElem?_map]
    cases r[j]? <;> simp [ih]

theorem omap_eq_some_getD {α β} (f : α → Option β) (d : β) (l : List α) (r : List β) (h : omap f l = some r) :
    r = l.map (fun a => (f a).getD d) := by
  induction l generalizing r with
  | nil => simp at h; subst h; rfl
  | cons x xs ih =>
    obtain ⟨b, bs, hb, hbs, rfl⟩ := omap_cons_eq_some f x xs r h
    simp [hb, ih bs hbs]

theorem specInt_of_specNat (t : Bytes) (n : Nat) (h : specNat t = some n) : specInt t = some (n : Int) := by
  obtain ⟨hne, hd, _⟩ := specNat_some t n h
  have hh : ∀ c, t.head? = some c → isDigit c = true := by
    intro c hc
    cases t with
    | nil => simp at hc
    | cons x xs =>
      simp at hc; subst hc
      simp only [List.all_cons, Bool.and_eq_true] at hd
      exact hd.1
  rw [specInt_unsigned t (fun h45 => (isDigit_not_sign 45 (hh 45 h45)).1 rfl)
    (fun h43 => (isDigit_not_sign 43 (hh 43 h43)).2 rfl), h]
  rfl

def modelledKind (k : String) : Prop :=
  k = "int" ∨ k = "sint" ∨ k = "oint" ∨ k = "id" ∨ k = "str" ∨ k = "float" ∨ k = "ilist" ∨ k = "strand"

/-- every modelled column type: the typed extraction of a column equals the documented reading of the column's
texts, whenever that reading exists -/
theorem typedColumn_spec (sk : String) (data : Bytes) (fs : List (Nat × Nat))
    (hwf : ∀ p ∈ fs, p.1 ≤ p.2 ∧ p.2 ≤ data.length) (c : Col)
    (hs : specColumn sk (fs.map (fun p => slice data p.1 p.2)) = some c) :
    typedColumn (normKind sk) data fs = .ok c := by
  unfold specColumn at hs
  by_cases h1 : sk = "int"
  · subst h1
    simp only [if_true, Option.map_eq_some_iff] at hs
    obtain ⟨vs, ho, rfl⟩ := hs
    rw [omap_map] at ho
    have hnat : ∀ p ∈ fs, ∃ n, specNat (slice data p.1 p.2) = some n := by
      intro p hp
      have := (omap_isSome_iff _ _).mp (by rw [ho]; rfl) p hp
      unfold specNatI at this
      cases hn : specNat (slice data p.1 p.2) with
      | none => simp [hn] at this
      | some n => exact ⟨n, rfl⟩
    have hint : ∀ p ∈ fs, ∃ v, specInt (slice data p.1 p.2) = some v := by
      intro p hp
      obtain ⟨n, hn⟩ := hnat p hp
      exact ⟨n, specInt_of_specNat _ n hn⟩
    obtain ⟨ws, hw1, hw2⟩ := intColumn_spec data fs hwf hint
    have e : omap (fun p => specInt (slice data p.1 p.2)) fs = omap (fun p => specNatI (slice data p.1 p.2)) fs := by
      apply omap_congr
      intro p hp
      obtain ⟨n, hn⟩ := hnat p hp
      rw [specInt_of_specNat _ n hn]
      simp [specNatI, hn]
    rw [e, ho] at hw2
    have : ws = vs := (Option.some.inj hw2).symm
    subst this
    simp [typedColumn, normKind, hw1, Except.map]
  · by_cases h2 : sk = "sint"
    · subst h2
      simp only [h1, if_false, if_true, Option.map_eq_some_iff] at hs
      obtain ⟨vs, ho, rfl⟩ := hs
      rw [omap_map] at ho
      have hint : ∀ p ∈ fs, ∃ v, specInt (slice data p.1 p.2) = some v := by
        intro p hp
        have := (omap_isSome_iff _ _).mp (by rw [ho]; rfl) p hp
        exact Option.isSome_iff_exists.mp this
      obtain ⟨ws, hw1, hw2⟩ := intColumn_spec data fs hwf hint
      rw [ho] at hw2
      have : ws = vs := (Option.some.inj hw2).symm
      subst this
      simp [typedColumn, normKind, hw1, Except.map]
    · by_cases h3 : sk = "oint"
      · subst h3
        simp only [h1, h2, if_false, if_true, Option.map_eq_some_iff] at hs
        obtain ⟨vs, ho, rfl⟩ := hs
        · have hall : ∀ t ∈ fs.map (fun p => slice data p.1 p.2), t = [] ∨ t = [46] ∨ ∃ v, specInt t = some v := by
            intro t ht
            have := (omap_isSome_iff _ _).mp (by rw [ho]; rfl) t ht
            unfold specOInt at this
            by_cases hm : t = [] ∨ t = [46]
            · rcases hm with hm | hm
              · exact Or.inl hm
              · exact Or.inr (Or.inl hm)
            · simp only [hm, if_false] at this
              exact Or.inr (Or.inr (Option.isSome_iff_exists.mp this))
          have hspec := optIntColumn_spec _ hall
          have hv := omap_eq_some_getD specOInt 0 _ vs ho
          have : vs = (fs.map (fun p => slice data p.1 p.2)).map
              (fun t => if t = [] ∨ t = [46] then 0 else (specInt t).getD 0) := by
            rw [hv]
            apply List.map_congr_left
            intro t _
            unfold specOInt
            split <;> simp
          simp [typedColumn, normKind, hspec, Except.map, this]
      · by_cases h4 : sk = "id"
        · subst h4
          simp only [h1, h2, h3, if_false, if_true] at hs
          split at hs
          · rename_i hall
            simp at hs; subst hs
            have hnul : ∀ p ∈ fs, (slice data p.1 p.2).getLast? ≠ some 0 := by
              intro p hp
              have := (List.all_eq_true.mp hall) (slice data p.1 p.2) (List.mem_map.mpr ⟨p, hp, rfl⟩)
              simpa using this
            simp [typedColumn, normKind, idColumn_spec data fs hwf hnul]
          · simp at hs
        · by_cases h5 : sk = "str"
          · subst h5
            simp only [h1, h2, h3, h4, if_false, if_true] at hs
            simp at hs; subst hs
            simp [typedColumn, normKind]
          · by_cases h6 : sk = "float"
            · subst h6
              simp only [h1, h2, h3, h4, h5, if_false, if_true] at hs
              simp at hs; subst hs
              simp [typedColumn, normKind]
            · by_cases h7 : sk = "ilist"
              · subst h7
                simp only [h1, h2, h3, h4, h5, h6, if_false, if_true, Option.map_eq_some_iff] at hs
                obtain ⟨vs, ho, rfl⟩ := hs
                simp [typedColumn, normKind, intListColumn_spec _ vs ho, Except.map]
              · by_cases h8 : sk = "strand"
                · subst h8
                  simp only [h1, h2, h3, h4, h5, h6, h7, if_false, if_true] at hs
                  split at hs
                  · rename_i hall
                    simp at hs; subst hs
                    have hbad : firstBadRow (fs.map (fun p => slice data p.1 p.2)) strandOK = none := by
                      unfold firstBadRow
                      have : (fs.map (fun p => slice data p.1 p.2)).findIdx (fun r => !r.all strandOK)
                          = (fs.map (fun p => slice data p.1 p.2)).length := by
                        apply List.findIdx_eq_length_of_false
                        intro r hr
                        have := (List.all_eq_true.mp hall) r hr
                        simp only [Bool.and_eq_true] at this
                        simp [this.2]
                      simp [this]
                    have hlen1 : (fs.map (fun p => slice data p.1 p.2)).any (fun t => t.length != 1) = false := by
                      rw [Bool.eq_false_iff]
                      intro hany
                      obtain ⟨t, ht, hne⟩ := List.any_eq_true.mp hany
                      have := (List.all_eq_true.mp hall) t ht
                      simp only [Bool.and_eq_true] at this
                      have h1' : t.length = 1 := by simpa using this.1
                      simp [h1'] at hne
                    simp [typedColumn, normKind, hbad, hlen1]
                  · simp at hs
                · simp [h1, h2, h3, h4, h5, h6, h7, h8] at hs

theorem mem_columnOf {α} (rows : List (List α)) (j : Nat) (x : α) (hx : x ∈ columnOf rows j) :
    ∃ r ∈ rows, x ∈ r := by
  unfold columnOf at hx
  simp only [List.mem_filterMap] at hx
  obtain ⟨r, hr, hrx⟩ := hx
  exact ⟨r, hr, List.mem_of_getElem? hrx⟩

theorem typedColumnsFrom_spec (data : Bytes) (rows : List (List (Nat × Nat)))
    (hwf : ∀ r ∈ rows, ∀ p ∈ r, p.1 ≤ p.2 ∧ p.2 ≤ data.length)
    (sks : List String) (j : Nat) (cs : List Col)
    (hs : specColumnsFrom (rows.map (fun r => r.map (fun p => slice data p.1 p.2))) j sks = some cs) :
    typedColumnsFrom data rows j (sks.map normKind) = .ok cs := by
  induction sks generalizing j cs with
  | nil => simp [specColumnsFrom] at hs; subst hs; rfl
  | cons k ks ih =>
    simp only [specColumnsFrom] at hs
    split at hs
    · rename_i c cs' hc hcs
      simp only [Option.some.injEq] at hs; subst hs
      rw [columnOf_map] at hc
      have h1 := typedColumn_spec k data (columnOf rows j)
        (fun p hp => by obtain ⟨r, hr, hpr⟩ := mem_columnOf rows j p hp; exact hwf r hr p hpr) c hc
      simp only [List.map_cons, typedColumnsFrom, h1, ih (j + 1) cs' hcs]
    · simp at hs

theorem fieldTable_shape (d : Nat) (bs : Bytes) (t : Table) (h : fieldTable d bs = .ok t) :
    t.starts = 0 :: (delimsFrom (isDelim d) 0 (complete bs)).dropLast.map (· + 1) ∧
    t.ends = delimsFrom (isDelim d) 0 (complete bs) := by
  unfold fieldTable at h
  simp only at h
  split at h
  · simp at h
  · split at h
    · simp at h
    · split at h
      · simp at h
      · simp only [Except.ok.injEq] at h
        subst h
        exact ⟨rfl, rfl⟩

theorem consHead_snoc (x : Nat) (ps : List Bytes) (hne : ps ≠ []) (tl : Bytes) :
    consHead x (ps.dropLast ++ [ps.getLast?.getD [] ++ tl])
      = (consHead x ps).dropLast ++ [(consHead x ps).getLast?.getD [] ++ tl] := by
  cases ps with
  | nil => exact absurd rfl hne
  | cons p qs =>
    cases qs with
    | nil => simp [consHead]
    | cons q rs => simp [consHead, List.getLast?_cons_cons]

theorem splitOn_snoc (d b : Nat) (hb : b ≠ d) (l : Bytes) :
    splitOn d (l ++ [b]) = (splitOn d l).dropLast ++ [(splitOn d l).getLast?.getD [] ++ [b]] := by
  induction l with
  | nil => simp [splitOn, hb, consHead]
  | cons x xs ih =>
    have hne := splitOn_ne_nil d xs
    simp only [List.cons_append, splitOn]
    split
    · rw [ih]
      cases h : splitOn d xs with
      | nil => exact absurd h hne
      | cons p ps => simp [List.getLast?_cons_cons]
    · rw [ih]
      exact consHead_snoc x _ hne [b]

def adjRow (data : Bytes) (r : List (Nat × Nat)) : List (Nat × Nat) :=
  match r.getLast? with
  | none => r
  | some (s, e) => r.dropLast ++ [(s, if data.getD (e - 1) 0 = 13 then e - 1 else e)]

/-- one row under the CR rule: when the line ends in CR, the adjusted pairs denote the fields of the line
without its CR -/
theorem adjRow_spec (data : Bytes) (d : Nat) (hd13 : d ≠ 13) (r : List (Nat × Nat)) (l : Bytes)
    (htext : r.map (fun p => slice data p.1 p.2) = splitOn d l)
    (hwf : ∀ p ∈ r, p.1 ≤ p.2 ∧ p.2 ≤ data.length)
    (hcr : l.getLast? = some 13) :
    (adjRow data r).map (fun p => slice data p.1 p.2) = splitOn d l.dropLast ∧
    (∀ p ∈ adjRow data r, p.1 ≤ p.2 ∧ p.2 ≤ data.length) ∧
    (∀ s e, r.getLast? = some (s, e) → e ≠ 0 ∧ data.getD (e - 1) 0 = 13) := by
  have hlne : l ≠ [] := by intro h; subst h; simp at hcr
  have hl : l = l.dropLast ++ [13] := by
    have := List.dropLast_concat_getLast hlne
    rw [List.getLast?_eq_some_getLast hlne] at hcr
    simp only [Option.some.injEq] at hcr
    rw [hcr] at this
    exact this.symm
  have hsp := splitOn_snoc d 13 (fun h => hd13 h.symm) l.dropLast
  rw [← hl] at hsp
  have hne' := splitOn_ne_nil d l.dropLast
  have hrne : r ≠ [] := by
    intro h; subst h
    simp at htext
    exact splitOn_ne_nil d l htext
  obtain ⟨⟨s, e⟩, hp⟩ : ∃ q, r.getLast hrne = q := ⟨_, rfl⟩
  have hr : r = r.dropLast ++ [(s, e)] := by
    rw [← hp]; exact (List.dropLast_concat_getLast hrne).symm
  have hlast : r.getLast? = some (s, e) := by rw [List.getLast?_eq_some_getLast hrne, hp]
  have hmem : (s, e) ∈ r := List.mem_of_getLast? hlast
  obtain ⟨hse, hel⟩ := hwf (s, e) hmem
  simp only at hse hel
  rw [hr, List.map_append, hsp] at htext
  have hlen : (r.dropLast.map (fun p => slice data p.1 p.2)).length = (splitOn d l.dropLast).dropLast.length := by
    have := congrArg List.length htext
    simp at this
    simp; omega
  obtain ⟨hinit, hlastf⟩ := List.append_inj htext hlen
  simp only [List.map_cons, List.map_nil, List.cons.injEq, and_true] at hlastf
  have hslt : s < e := by
    rcases Nat.lt_or_ge s e with h | h
    · exact h
    · have : slice data s e = [] := by simp [slice]; omega
      rw [this] at hlastf
      simp at hlastf
  have h13 : data.getD (e - 1) 0 = 13 := by
    have := slice_getLast data s e hslt hel
    rw [hlastf] at this
    simpa using this.symm
  refine ⟨?_, ?_, ?_⟩
  · unfold adjRow
    simp only [hlast, h13, if_true]
    rw [List.map_append, hinit]
    simp only [List.map_cons, List.map_nil]
    rw [slice_dropLast data s e hslt hel, hlastf]
    simp only [List.dropLast_concat]
    rw [List.getLast?_eq_some_getLast hne']
    exact List.dropLast_concat_getLast hne'
  · intro p hp'
    unfold adjRow at hp'
    simp only [hlast, h13, if_true, List.mem_append, List.mem_singleton] at hp'
    rcases hp' with hp' | rfl
    · exact hwf p (List.dropLast_subset r hp')
    · simp only; omega
  · intro s' e' h'
    rw [hlast] at h'
    simp only [Option.some.injEq, Prod.mk.injEq] at h'
    obtain ⟨rfl, rfl⟩ := h'
    exact ⟨by omega, h13⟩

theorem map_eq_map_of_pairwise {α β γ} (f f' : α → γ) (g g' : β → γ) (xs : List α) (ys : List β)
    (h : xs.map f = ys.map g) (hp : ∀ x ∈ xs, ∀ y ∈ ys, f x = g y → f' x = g' y) :
    xs.map f' = ys.map g' := by
  induction xs generalizing ys with
  | nil => cases ys with
    | nil => rfl
    | cons y ys => simp at h
  | cons x xs ih =>
    cases ys with
    | nil => simp at h
    | cons y ys =>
      simp only [List.map_cons, List.cons.injEq] at h ⊢
      exact ⟨hp x (by simp) y (by simp) h.1, ih ys h.2 (fun a ha b hb => hp a (by simp [ha]) b (by simp [hb]))⟩

/-- the CR rule on a whole table of a CRLF file -/
theorem crAdjust_crlf (data : Bytes) (d : Nat) (hd13 : d ≠ 13) (rows : List (List (Nat × Nat))) (lines : List Bytes)
    (hne : lines ≠ [])
    (htexts : rows.map (fun r => r.map (fun p => slice data p.1 p.2)) = lines.map (splitOn d))
    (hwf : ∀ r ∈ rows, ∀ p ∈ r, p.1 ≤ p.2 ∧ p.2 ≤ data.length)
    (hcr : ∀ l ∈ lines, l.getLast? = some 13) :
    (crAdjustRows data rows).map (fun r => r.map (fun p => slice data p.1 p.2)) = lines.map (fun l => splitOn d l.dropLast) ∧
    (∀ r ∈ crAdjustRows data rows, ∀ p ∈ r, p.1 ≤ p.2 ∧ p.2 ≤ data.length) := by
  obtain ⟨l0, lrest, hl⟩ : ∃ l0 lrest, lines = l0 :: lrest := by
    cases h : lines with
    | nil => exact absurd h hne
    | cons a b => exact ⟨a, b, rfl⟩
  obtain ⟨r0, rest, hrows⟩ : ∃ r0 rest, rows = r0 :: rest := by
    cases h : rows with
    | nil => rw [h, hl] at htexts; simp at htexts
    | cons a b => exact ⟨a, b, rfl⟩
  have h0 : r0.map (fun p => slice data p.1 p.2) = splitOn d l0 := by
    rw [hrows, hl] at htexts
    simp only [List.map_cons, List.cons.injEq] at htexts
    exact htexts.1
  have hspec0 := adjRow_spec data d hd13 r0 l0 h0 (hwf r0 (by rw [hrows]; simp)) (hcr l0 (by rw [hl]; simp))
  have hr0ne : r0 ≠ [] := by
    intro h; subst h; simp at h0; exact splitOn_ne_nil d l0 h0
  obtain ⟨⟨s0, e0⟩, hp⟩ : ∃ q, r0.getLast hr0ne = q := ⟨_, rfl⟩
  have hlast0 : r0.getLast? = some (s0, e0) := by rw [List.getLast?_eq_some_getLast hr0ne, hp]
  obtain ⟨he0, h13⟩ := hspec0.2.2 s0 e0 hlast0
  have hadj : crAdjustRows data rows = rows.map (adjRow data) := by
    unfold crAdjustRows
    rw [hrows]
    simp only [hlast0]
    rw [if_neg he0, if_pos h13]
    rfl
  rw [hadj]
  refine ⟨?_, ?_⟩
  · rw [List.map_map]
    apply map_eq_map_of_pairwise (fun r => r.map (fun p => slice data p.1 p.2)) _ (splitOn d) _ rows lines htexts
    intro r hr l hl' h
    exact (adjRow_spec data d hd13 r l h (hwf r hr) (hcr l hl')).1
  · intro r hr p hp'
    simp only [List.mem_map] at hr
    obtain ⟨r', hr', rfl⟩ := hr
    -- r' corresponds to some line: use its own text equation
    have hidx : ∃ l ∈ lines, r'.map (fun p => slice data p.1 p.2) = splitOn d l := by
      have hm : r'.map (fun p => slice data p.1 p.2) ∈ rows.map (fun r => r.map (fun p => slice data p.1 p.2)) :=
        List.mem_map.mpr ⟨r', hr', rfl⟩
      rw [htexts] at hm
      obtain ⟨l, hl', hle⟩ := List.mem_map.mp hm
      exact ⟨l, hl', hle.symm⟩
    obtain ⟨l, hl', hle⟩ := hidx
    exact (adjRow_spec data d hd13 r' l hle (hwf r' hr') (hcr l hl')).2.1 p hp'


/-- the rows of the offset table of a file whose lines all have `n` fields: texts and positions -/
theorem table_rows_facts (d : Nat) (hd : d ≠ 10) (bs : Bytes) (n : Nat) (hne : linesOf bs ≠ [])
    (hlen : ∀ l ∈ linesOf bs, (splitOn d l).length = n) :
    ∃ t, fieldTable d bs = .ok t ∧
      t.rows.map (fun r => r.map (fun p => slice (complete bs) p.1 p.2)) = (linesOf bs).map (splitOn d) ∧
      (∀ r ∈ t.rows, ∀ p ∈ r, wfPair (isDelim d) (complete bs) 0 p) := by
  obtain ⟨t, ht, _, htexts⟩ := fieldTable_spec d hd bs n hne hlen
  obtain ⟨hst, hen⟩ := fieldTable_shape d bs t ht
  refine ⟨t, ht, htexts, ?_⟩
  intro r hr p hp
  have hmem := mem_chunkF _ _ _ r hr p hp
  unfold Table.pairs at hmem
  rw [hst, hen] at hmem
  exact pairs_wf (isDelim d) (complete bs) p hmem

/-! ### row selection on the buffer commutes with parsing -/

theorem pickIdx_map {α β : Type} (f : α → β) (idx : List Nat) (l : List α) :
    pickIdx idx (l.map f) = (pickIdx idx l).map f := by
  simp [pickIdx, List.map_filterMap, List.getElem?_map]

theorem mem_pickIdx {α : Type} (idx : List Nat) (l : List α) (x : α) (h : x ∈ pickIdx idx l) : x ∈ l := by
  unfold pickIdx at h
  obtain ⟨i, _, hi⟩ := List.mem_filterMap.mp h
  exact List.mem_of_getElem? hi

theorem pickIdx_length_range {α : Type} (idx : List Nat) (l : List α) :
    (pickIdx idx l).length = (pickIdx idx (List.range l.length)).length := by
  unfold pickIdx
  induction idx with
  | nil => rfl
  | cons i rest ih =>
    simp only [List.filterMap_cons]
    rcases Nat.lt_or_ge i l.length with h | h
    · rw [List.getElem?_eq_getElem h, List.getElem?_eq_getElem (by simpa using h)]
      simp [ih]
    · rw [List.getElem?_eq_none h, List.getElem?_eq_none (by simpa using h)]
      exact ih

theorem omap_getElem? {α β : Type} (f : α → Option β) (l : List α) (v : List β) (h : omap f l = some v) (i : Nat) :
    v[i]? = (l[i]?).bind f := by
  induction l generalizing v i with
  | nil => simp at h; subst h; simp
  | cons a as ih =>
    obtain ⟨b, bs, hb, hbs, rfl⟩ := omap_cons_eq_some f a as v h
    cases i with
    | zero => simp [hb]
    | succ j => simpa using ih bs hbs j

theorem omap_pickIdx {α β : Type} (f : α → Option β) (l : List α) (v : List β) (idx : List Nat)
    (h : omap f l = some v) : omap f (pickIdx idx l) = some (pickIdx idx v) := by
  have hlen : v.length = l.length := omap_length f l v h
  unfold pickIdx
  induction idx with
  | nil => rfl
  | cons i rest ih =>
    simp only [List.filterMap_cons]
    have hi := omap_getElem? f l v h i
    cases hx : l[i]? with
    | none =>
      rw [hx] at hi
      simp only [Option.bind_none] at hi
      simp only [hi]; exact ih
    | some x =>
      rw [hx] at hi
      simp only [Option.bind_some] at hi
      have hlt : i < v.length := by
        rcases Nat.lt_or_ge i l.length with h' | h'
        · omega
        · rw [List.getElem?_eq_none h'] at hx; simp at hx
      rw [List.getElem?_eq_getElem hlt] at hi
      rw [List.getElem?_eq_getElem hlt]
      exact omap_cons_some _ _ _ _ _ hi.symm ih

theorem columnOf_pickIdx {α : Type} (idx : List Nat) (recs : List (List α)) (j : Nat) (h : ∀ r ∈ recs, j < r.length) :
    columnOf (pickIdx idx recs) j = pickIdx idx (columnOf recs j) := by
  unfold columnOf pickIdx
  induction idx with
  | nil => rfl
  | cons i rest ih =>
    simp only [List.filterMap_cons]
    rcases Nat.lt_or_ge i recs.length with hi | hi
    · have hcol : (List.filterMap (fun x => x[j]?) recs)[i]? = some ((recs[i])[j]'(h _ (List.getElem_mem hi))) := by
        have hall : List.filterMap (fun x : List α => x[j]?) recs = recs.pmap (fun r hr => r[j]'hr) h := by
          clear hi ih
          induction recs with
          | nil => rfl
          | cons r rs ihr =>
            have hr : j < r.length := h r (by simp)
            simp only [List.filterMap_cons, List.getElem?_eq_getElem hr, List.pmap]
            rw [ihr (fun r' hr' => h r' (by simp [hr']))]
        rw [hall, List.getElem?_pmap]
        simp [List.getElem?_eq_getElem hi]
      rw [List.getElem?_eq_getElem hi, hcol]
      simp only [List.filterMap_cons, List.getElem?_eq_getElem (h _ (List.getElem_mem hi))]
      rw [ih]
    · have hcol : (List.filterMap (fun x : List α => x[j]?) recs)[i]? = none := by
        apply List.getElem?_eq_none
        have := List.length_filterMap_le (fun x : List α => x[j]?) recs
        omega
      rw [List.getElem?_eq_none hi, hcol]
      exact ih

theorem all_pickIdx {α : Type} (p : α → Bool) (idx : List Nat) (l : List α) (h : l.all p = true) :
    (pickIdx idx l).all p = true := by
  rw [List.all_eq_true] at h ⊢
  intro x hx
  exact h x (mem_pickIdx idx l x hx)

theorem specColumn_pick (k : String) (texts : List Bytes) (c : Col) (idx : List Nat)
    (h : specColumn k texts = some c) : specColumn k (pickIdx idx texts) = some (colPick idx c) := by
  unfold specColumn at h ⊢
  split
  · rw [if_pos (by assumption)] at h
    cases ho : omap specNatI texts with
    | none => rw [ho] at h; simp at h
    | some v =>
      rw [ho] at h; simp only [Option.map_some, Option.some.injEq] at h; subst h
      rw [omap_pickIdx _ _ _ idx ho]; rfl
  · rw [if_neg (by assumption)] at h
    split
    · rw [if_pos (by assumption)] at h
      cases ho : omap specInt texts with
      | none => rw [ho] at h; simp at h
      | some v =>
        rw [ho] at h; simp only [Option.map_some, Option.some.injEq] at h; subst h
        rw [omap_pickIdx _ _ _ idx ho]; rfl
    · rw [if_neg (by assumption)] at h
      split
      · rw [if_pos (by assumption)] at h
        cases ho : omap specOInt texts with
        | none => rw [ho] at h; simp at h
        | some v =>
          rw [ho] at h; simp only [Option.map_some, Option.some.injEq] at h; subst h
          rw [omap_pickIdx _ _ _ idx ho]; rfl
      · rw [if_neg (by assumption)] at h
        split
        · rw [if_pos (by assumption)] at h
          split at h
          · rename_i hall
            simp only [Option.some.injEq] at h; subst h
            rw [if_pos (all_pickIdx _ idx texts hall)]; rfl
          · simp at h
        · rw [if_neg (by assumption)] at h
          split
          · rw [if_pos (by assumption)] at h
            simp only [Option.some.injEq] at h; subst h; rfl
          · rw [if_neg (by assumption)] at h
            split
            · rw [if_pos (by assumption)] at h
              simp only [Option.some.injEq] at h; subst h; rfl
            · rw [if_neg (by assumption)] at h
              split
              · rw [if_pos (by assumption)] at h
                cases ho : omap specIntList texts with
                | none => rw [ho] at h; simp at h
                | some v =>
                  rw [ho] at h; simp only [Option.map_some, Option.some.injEq] at h; subst h
                  rw [omap_pickIdx _ _ _ idx ho]; rfl
              · rw [if_neg (by assumption)] at h
                split
                · rw [if_pos (by assumption)] at h
                  split at h
                  · rename_i hall
                    simp only [Option.some.injEq] at h; subst h
                    rw [if_pos (all_pickIdx _ idx texts hall)]; rfl
                  · simp at h
                · rw [if_neg (by assumption)] at h
                  simp at h

theorem specColumnsFrom_pick (recs : List (List Bytes)) (idx : List Nat) (j : Nat) (sks : List String) (cs : List Col)
    (n : Nat) (hrect : ∀ r ∈ recs, r.length = n) (hj : j + sks.length ≤ n)
    (h : specColumnsFrom recs j sks = some cs) :
    specColumnsFrom (pickIdx idx recs) j sks = some (cs.map (colPick idx)) := by
  induction sks generalizing j cs with
  | nil => simp [specColumnsFrom] at h ⊢; subst h; rfl
  | cons k ks ih =>
    simp only [specColumnsFrom] at h ⊢
    split at h
    · rename_i c cs' hc hcs
      simp only [Option.some.injEq] at h; subst h
      simp only [List.length_cons] at hj
      rw [columnOf_pickIdx idx recs j (fun r hr => by rw [hrect r hr]; omega), specColumn_pick k _ c idx hc,
        ih (j + 1) cs' (by omega) hcs]
      rfl
    · simp at h


theorem parse_assemble (S : Schema) (sks : List String) (bs : Bytes) (t : Table)
    (hk : S.cols.map (·.2) = sks.map normKind) (ht : fieldTable S.delim bs = .ok t)
    (recs : List (List Bytes))
    (htx : (crAdjustRows (complete bs) t.rows).map (fun r => r.map (fun p => slice (complete bs) p.1 p.2)) = recs)
    (hwf : ∀ r ∈ crAdjustRows (complete bs) t.rows, ∀ p ∈ r, p.1 ≤ p.2 ∧ p.2 ≤ (complete bs).length)
    (cs : List Col) (hspec : specColumnsFrom recs 0 sks = some cs)
    (sel : Option (List Nat)) (hrect : ∀ r ∈ recs, r.length = sks.length) (hsel : selOK sel recs.length = true) :
    parseDelimited S bs sel = .ok (resPick sel (recs.length, cs)) := by
  have hlen : (crAdjustRows (complete bs) t.rows).length = recs.length := by
    have := congrArg List.length htx
    simpa using this
  cases sel with
  | none =>
    have hcols : typedColumns (S.cols.map (·.2)) (complete bs) (crAdjustRows (complete bs) t.rows) = .ok cs := by
      unfold typedColumns
      rw [hk]
      exact typedColumnsFrom_spec (complete bs) _ hwf sks 0 cs (by rw [htx]; exact hspec)
    unfold parseDelimited
    simp only [ht, pickRows_none, hcols, hlen, selOK, resPick]
    rfl
  | some idx =>
    have hpick : pickRows (some idx) (crAdjustRows (complete bs) t.rows) = pickIdx idx (crAdjustRows (complete bs) t.rows) := rfl
    have htx' : (pickIdx idx (crAdjustRows (complete bs) t.rows)).map (fun r => r.map (fun p => slice (complete bs) p.1 p.2))
        = pickIdx idx recs := by
      rw [← pickIdx_map, htx]
    have hwf' : ∀ r ∈ pickIdx idx (crAdjustRows (complete bs) t.rows), ∀ p ∈ r, p.1 ≤ p.2 ∧ p.2 ≤ (complete bs).length :=
      fun r hr => hwf r (mem_pickIdx idx _ r hr)
    have hcols : typedColumns (S.cols.map (·.2)) (complete bs) (pickIdx idx (crAdjustRows (complete bs) t.rows))
        = .ok (cs.map (colPick idx)) := by
      unfold typedColumns
      rw [hk]
      exact typedColumnsFrom_spec (complete bs) _ hwf' sks 0 _ (by
        rw [htx']
        exact specColumnsFrom_pick recs idx 0 sks cs sks.length hrect (by omega) hspec)
    have hl : (pickIdx idx (crAdjustRows (complete bs) t.rows)).length = (pickIdx idx (List.range recs.length)).length := by
      rw [pickIdx_length_range, hlen]
    unfold parseDelimited
    simp only [ht, hpick, hcols, hlen, hsel, hl, resPick]
    rfl

/-- the CR rule leaves a table alone when the first line does not end in CR -/
theorem crAdjust_lf (data : Bytes) (d : Nat) (hd13 : d ≠ 13) (rows : List (List (Nat × Nat))) (lines : List Bytes)
    (htexts : rows.map (fun r => r.map (fun p => slice data p.1 p.2)) = lines.map (splitOn d))
    (hwfp : ∀ r ∈ rows, ∀ p ∈ r, wfPair (isDelim d) data 0 p)
    (hnocr : ∀ l ∈ lines, l.getLast? ≠ some 13) :
    crAdjustRows data rows = rows := by
  unfold crAdjustRows
  cases hrows : rows with
  | nil => rfl
  | cons r0 rest =>
    simp only
    cases hlast : r0.getLast? with
    | none => rfl
    | some pe =>
      obtain ⟨s0, e0⟩ := pe
      simp only
      by_cases he0 : e0 = 0
      · simp [he0]
      · simp only [he0, if_false]
        have hmem0 : r0 ∈ rows := by rw [hrows]; simp
        have hp0 : (s0, e0) ∈ r0 := List.mem_of_getLast? hlast
        obtain ⟨h1, h2, h3, h4⟩ := hwfp r0 hmem0 (s0, e0) hp0
        obtain ⟨l0, lrest, hl⟩ : ∃ l0 lrest, lines = l0 :: lrest := by
          cases h : lines with
          | nil => rw [hrows, h] at htexts; simp at htexts
          | cons a b => exact ⟨a, b, rfl⟩
        have hrec0 : r0.map (fun p => slice data p.1 p.2) = splitOn d l0 := by
          have := htexts
          rw [hrows, hl] at this
          simp only [List.map_cons, List.cons.injEq] at this
          exact this.1
        have hne13 : data.getD (e0 - 1) 0 ≠ 13 := by
          simp only at h1 h2 h4
          rcases Nat.lt_or_ge s0 e0 with hlt | hge
          · have hf : (splitOn d l0).getLast? = some (slice data s0 e0) := by
              rw [← hrec0, List.getLast?_map, hlast]; rfl
            have hfne : slice data s0 e0 ≠ [] := by
              intro h0
              have := slice_length data s0 e0 (by omega)
              rw [h0] at this; simp at this; omega
            have := lastField_getLast d l0 _ hf hfne
            rw [slice_getLast data s0 e0 hlt (by omega)] at this
            intro h13
            rw [h13] at this
            exact hnocr l0 (by rw [hl]; simp) this
          · have hse : s0 = e0 := by omega
            rcases h4 with h4 | ⟨_, h4⟩
            · omega
            · rw [hse] at h4
              simp only [isDelim, Bool.or_eq_true, beq_iff_eq] at h4
              rcases h4 with h4 | h4 <;> omega
        rw [if_neg hne13]

/-- one row under the CR rule, whether or not its line ends in CR: the adjusted pairs denote the fields of the
line without a trailing CR -/
theorem adjRow_general (data : Bytes) (d : Nat) (hd13 : d ≠ 13) (r : List (Nat × Nat)) (l : Bytes)
    (htext : r.map (fun p => slice data p.1 p.2) = splitOn d l)
    (hwfp : ∀ p ∈ r, wfPair (isDelim d) data 0 p) :
    (adjRow data r).map (fun p => slice data p.1 p.2) = splitOn d (stripCR l) ∧
    (∀ p ∈ adjRow data r, p.1 ≤ p.2 ∧ p.2 ≤ data.length) := by
  have hwf : ∀ p ∈ r, p.1 ≤ p.2 ∧ p.2 ≤ data.length := by
    intro p hp; obtain ⟨h1, h2, _, _⟩ := hwfp p hp; exact ⟨h1, by omega⟩
  by_cases hcr : l.getLast? = some 13
  · obtain ⟨h1, h2, _⟩ := adjRow_spec data d hd13 r l htext hwf hcr
    refine ⟨?_, h2⟩
    rw [h1]; simp [stripCR, hcr]
  · -- the line does not end in CR: nothing moves
    have hsame : adjRow data r = r := by
      unfold adjRow
      cases hlast : r.getLast? with
      | none => rfl
      | some pe =>
        obtain ⟨s, e⟩ := pe
        simp only
        have hmem : (s, e) ∈ r := List.mem_of_getLast? hlast
        obtain ⟨h1, h2, h3, h4⟩ := hwfp (s, e) hmem
        simp only at h1 h2 h3 h4
        have hne13 : data.getD (e - 1) 0 ≠ 13 := by
          rcases Nat.lt_or_ge s e with hlt | hge
          · have hf : (splitOn d l).getLast? = some (slice data s e) := by
              rw [← htext, List.getLast?_map, hlast]; rfl
            have hfne : slice data s e ≠ [] := by
              intro h0
              have := slice_length data s e (by omega)
              rw [h0] at this; simp at this; omega
            have := lastField_getLast d l _ hf hfne
            rw [slice_getLast data s e hlt (by omega)] at this
            intro h13
            rw [h13] at this
            exact hcr this
          · have hse : s = e := by omega
            rcases h4 with h4 | ⟨hpos, h4⟩
            · -- s = e = 0: the byte at 0 is the delimiter itself
              have he0 : e = 0 := by omega
              subst he0
              simp only [isDelim, Bool.or_eq_true, beq_iff_eq] at h3
              simp only [Nat.zero_sub]
              rcases h3 with h3 | h3 <;> omega
            · rw [hse] at h4
              simp only [isDelim, Bool.or_eq_true, beq_iff_eq] at h4
              rcases h4 with h4 | h4 <;> omega
        rw [if_neg hne13]
        have hrne : r ≠ [] := by intro h; rw [h] at hlast; simp at hlast
        have := List.dropLast_concat_getLast hrne
        rw [List.getLast?_eq_some_getLast hrne] at hlast
        simp only [Option.some.injEq] at hlast
        rw [hlast] at this
        exact this
    rw [hsame]
    refine ⟨?_, hwf⟩
    rw [htext]; simp [stripCR, hcr]

/-- the CR rule on a whole table when the first line ends in CR: every row denotes its line without a trailing CR -/
theorem crAdjust_crmode (data : Bytes) (d : Nat) (hd13 : d ≠ 13) (rows : List (List (Nat × Nat))) (lines : List Bytes)
    (htexts : rows.map (fun r => r.map (fun p => slice data p.1 p.2)) = lines.map (splitOn d))
    (hwfp : ∀ r ∈ rows, ∀ p ∈ r, wfPair (isDelim d) data 0 p)
    (hfirst : (lines.head?.bind List.getLast?) = some 13) :
    (crAdjustRows data rows).map (fun r => r.map (fun p => slice data p.1 p.2)) = lines.map (fun l => splitOn d (stripCR l)) ∧
    (∀ r ∈ crAdjustRows data rows, ∀ p ∈ r, p.1 ≤ p.2 ∧ p.2 ≤ data.length) := by
  obtain ⟨l0, lrest, hl⟩ : ∃ l0 lrest, lines = l0 :: lrest := by
    cases h : lines with
    | nil => rw [h] at hfirst; simp at hfirst
    | cons a b => exact ⟨a, b, rfl⟩
  have hcr0 : l0.getLast? = some 13 := by rw [hl] at hfirst; simpa using hfirst
  obtain ⟨r0, rest, hrows⟩ : ∃ r0 rest, rows = r0 :: rest := by
    cases h : rows with
    | nil => rw [h, hl] at htexts; simp at htexts
    | cons a b => exact ⟨a, b, rfl⟩
  have h0 : r0.map (fun p => slice data p.1 p.2) = splitOn d l0 := by
    rw [hrows, hl] at htexts
    simp only [List.map_cons, List.cons.injEq] at htexts
    exact htexts.1
  have hwf0 : ∀ p ∈ r0, p.1 ≤ p.2 ∧ p.2 ≤ data.length := by
    intro p hp; obtain ⟨h1, h2, _, _⟩ := hwfp r0 (by rw [hrows]; simp) p hp; exact ⟨h1, by omega⟩
  have hspec0 := adjRow_spec data d hd13 r0 l0 h0 hwf0 hcr0
  have hr0ne : r0 ≠ [] := by
    intro h; subst h; simp at h0; exact splitOn_ne_nil d l0 h0
  obtain ⟨⟨s0, e0⟩, hp⟩ : ∃ q, r0.getLast hr0ne = q := ⟨_, rfl⟩
  have hlast0 : r0.getLast? = some (s0, e0) := by rw [List.getLast?_eq_some_getLast hr0ne, hp]
  obtain ⟨he0, h13⟩ := hspec0.2.2 s0 e0 hlast0
  have hadj : crAdjustRows data rows = rows.map (adjRow data) := by
    unfold crAdjustRows
    rw [hrows]
    simp only [hlast0]
    rw [if_neg he0, if_pos h13]
    rfl
  rw [hadj]
  refine ⟨?_, ?_⟩
  · rw [List.map_map]
    apply map_eq_map_of_pairwise (fun r => r.map (fun p => slice data p.1 p.2)) _ (splitOn d) _ rows lines htexts
    intro r hr l _ h
    exact (adjRow_general data d hd13 r l h (hwfp r hr)).1
  · intro r hr p hp'
    simp only [List.mem_map] at hr
    obtain ⟨r', hr', rfl⟩ := hr
    have hidx : ∃ l ∈ lines, r'.map (fun p => slice data p.1 p.2) = splitOn d l := by
      have hm : r'.map (fun p => slice data p.1 p.2) ∈ rows.map (fun r => r.map (fun p => slice data p.1 p.2)) :=
        List.mem_map.mpr ⟨r', hr', rfl⟩
      rw [htexts] at hm
      obtain ⟨l, hl', hle⟩ := List.mem_map.mp hm
      exact ⟨l, hl', hle.symm⟩
    obtain ⟨l, _, hle⟩ := hidx
    exact (adjRow_general data d hd13 r' l hle (hwfp r' hr')).2 p hp'

theorem splitOn_stripCR_length (d : Nat) (hd13 : d ≠ 13) (l : Bytes) :
    (splitOn d (stripCR l)).length = (splitOn d l).length := by
  unfold stripCR
  split
  · rename_i h
    have hlne : l ≠ [] := by intro h0; rw [h0] at h; simp at h
    have hl13 : l = l.dropLast ++ [13] := by
      have := List.dropLast_concat_getLast hlne
      rw [List.getLast?_eq_some_getLast hlne] at h
      simp only [Option.some.injEq] at h
      rw [h] at this
      exact this.symm
    conv => rhs; rw [hl13, splitOn_snoc d 13 (fun h => hd13 h.symm)]
    have hne' := splitOn_ne_nil d l.dropLast
    have hlenpos : 0 < (splitOn d l.dropLast).length := List.length_pos_iff.mpr hne'
    simp only [List.length_append, List.length_dropLast, List.length_cons, List.length_nil]
    omega
  · rfl

theorem crlfText_first (ls : List Bytes) (h : crlfText ls = true) : (ls.head?.bind List.getLast?) = some 13 := by
  unfold crlfText at h
  simp only [Bool.and_eq_true, List.all_eq_true, List.any_eq_true] at h
  obtain ⟨hall, l, hl, h13⟩ := h
  cases ls with
  | nil => simp at hl
  | cons a rest =>
    cases rest with
    | nil =>
      simp only [List.mem_singleton] at hl
      subst hl
      simpa using h13
    | cons b rest' =>
      have := hall a (by simp [List.dropLast])
      simpa using this

/-- the lines as the format reads them: when every line ends in CR (a CRLF file) the CR is not part of the line -/
def specLines (bs : Bytes) : List Bytes :=
  let ls := linesOf bs
  if crlfText ls then ls.map stripCR else ls

/-- **parse_delimited.** For every schema made of the modelled column types (int, signed int, optional int,
identifier, text, float-as-text, int list, strand), every delimiter other than LF/CR, and every file — LF, or
CRLF where the last line may lack its CR (unterminated, or ended by a bare LF) — with at least one record and one field per column on every line: the code's parse (offset table
→ CR adjustment → typed column extraction) returns exactly the reference parse, `lines.map (splitOn TAB)` read
column by column in the documented way, with one entry per line. -/
theorem parse_delimited (S : Schema) (sks : List String) (bs : Bytes)
    (hk : S.cols.map (·.2) = sks.map normKind) (hd : S.delim ≠ 10) (hd13 : S.delim ≠ 13)
    (hne : linesOf bs ≠ [])
    (huni : (∀ l ∈ linesOf bs, l.getLast? ≠ some 13) ∨ crlfText (linesOf bs) = true)
    (hlen : ∀ l ∈ specLines bs, (splitOn S.delim l).length = sks.length)
    (cs : List Col)
    (hspec : specColumnsFrom ((specLines bs).map (splitOn S.delim)) 0 sks = some cs)
    (sel : Option (List Nat) := none) (hsel : selOK sel (linesOf bs).length = true := by rfl) :
    parseDelimited S bs sel = .ok (resPick sel ((linesOf bs).length, cs)) := by
  rcases huni with hnocr | hcr
  · -- LF
    have hsl : specLines bs = linesOf bs := by
      unfold specLines
      simp only
      split
      · rename_i h
        unfold crlfText at h
        simp only [Bool.and_eq_true, List.any_eq_true] at h
        obtain ⟨l, hl, h13⟩ := h.2
        exact absurd (by simpa using h13) (hnocr l hl)
      · rfl
    rw [hsl] at hlen hspec
    obtain ⟨t, ht, htexts, hwfp⟩ := table_rows_facts S.delim hd bs sks.length hne hlen
    have hcr := crAdjust_lf (complete bs) S.delim hd13 t.rows (linesOf bs) htexts hwfp hnocr
    have := parse_assemble S sks bs t hk ht _ (by rw [hcr]; exact htexts)
      (by rw [hcr]; intro r hr p hp; obtain ⟨h1, h2, _, _⟩ := hwfp r hr p hp; exact ⟨h1, by omega⟩) cs hspec sel
      (by intro r hr; obtain ⟨l, hl, rfl⟩ := List.mem_map.mp hr; exact hlen l hl) (by simpa using hsel)
    simpa using this
  · -- CRLF text: every line but possibly the last ends in CR
    have hsl : specLines bs = (linesOf bs).map stripCR := by
      unfold specLines
      simp only [hcr, if_true]
    rw [hsl] at hlen hspec
    have hlen' : ∀ l ∈ linesOf bs, (splitOn S.delim l).length = sks.length := by
      intro l hl
      rw [← splitOn_stripCR_length S.delim hd13 l]
      exact hlen (stripCR l) (List.mem_map.mpr ⟨l, hl, rfl⟩)
    obtain ⟨t, ht, htexts, hwfp⟩ := table_rows_facts S.delim hd bs sks.length hne hlen'
    obtain ⟨htx, hwf'⟩ := crAdjust_crmode (complete bs) S.delim hd13 t.rows (linesOf bs) htexts hwfp
      (crlfText_first _ hcr)
    have := parse_assemble S sks bs t hk ht _ (by rw [htx]) hwf' cs (by
      rw [List.map_map] at hspec
      exact hspec) sel
      (by intro r hr; obtain ⟨l, hl, rfl⟩ := List.mem_map.mp hr
          exact hlen (stripCR l) (List.mem_map.mpr ⟨l, hl, rfl⟩)) (by simpa using hsel)
    simpa using this

/-! ### wrapped FASTA: grouping the lines into records -/

/-- the lines of a FASTA text given its records: header line (marker ++ name), then the record's sequence lines -/
def fastaSer (marker : Nat) (es : List (Bytes × List Bytes)) : List Bytes :=
  es.flatMap (fun e => (marker :: e.1) :: e.2)

def offs : Nat → List (Bytes × List Bytes) → List Nat
  | _, [] => []
  | k, e :: es => k :: offs (k + 1 + e.2.length) es

def totalLines (es : List (Bytes × List Bytes)) : Nat := (es.map (fun e => 1 + e.2.length)).sum

theorem headerIdx_skip (m k : Nat) (body rest : List Bytes) (hb : ∀ l ∈ body, l.head? ≠ some m) :
    headerIdx m k (body ++ rest) = headerIdx m (k + body.length) rest := by
  induction body generalizing k with
  | nil => simp
  | cons l ls ih =>
    simp only [List.cons_append, headerIdx, hb l (by simp), if_false, List.length_cons]
    rw [ih (k + 1) (fun l' hl' => hb l' (by simp [hl']))]
    congr 1; omega

theorem headerIdx_ser (m k : Nat) (es : List (Bytes × List Bytes)) (hb : ∀ e ∈ es, ∀ l ∈ e.2, l.head? ≠ some m) :
    headerIdx m k (fastaSer m es) = offs k es := by
  induction es generalizing k with
  | nil => rfl
  | cons e rest ih =>
    simp only [fastaSer, List.flatMap_cons, List.cons_append, headerIdx, List.head?_cons, if_true, offs]
    rw [headerIdx_skip m (k + 1) e.2 _ (hb e (by simp))]
    have := ih (k + 1 + e.2.length) (fun e' he' => hb e' (by simp [he']))
    simp only [fastaSer] at this
    rw [this]

theorem length_ser (m : Nat) (es : List (Bytes × List Bytes)) : (fastaSer m es).length = totalLines es := by
  induction es with
  | nil => rfl
  | cons e rest ih =>
    simp only [fastaSer, List.flatMap_cons, List.length_append, List.length_cons, totalLines, List.map_cons, List.sum_cons] at ih ⊢
    rw [ih]; omega

theorem head_offs (k : Nat) (es : List (Bytes × List Bytes)) (x : Nat) :
    (offs k es ++ [x]).head? = some (if es = [] then x else k) := by
  cases es <;> simp [offs]

theorem nLines_offs (k : Nat) (es : List (Bytes × List Bytes)) :
    (List.zip (offs k es ++ [k + totalLines es]) ((offs k es ++ [k + totalLines es]).drop 1)).map (fun ab => ab.2 - ab.1 - 1)
      = es.map (fun e => e.2.length) := by
  induction es generalizing k with
  | nil => simp [offs]
  | cons e rest ih =>
    have hk : k + totalLines (e :: rest) = (k + 1 + e.2.length) + totalLines rest := by
      simp [totalLines]; omega
    simp only [offs, List.cons_append, List.drop_succ_cons, List.drop_zero, hk]
    have hh := head_offs (k + 1 + e.2.length) rest (k + 1 + e.2.length + totalLines rest)
    cases hrest : offs (k + 1 + e.2.length) rest ++ [k + 1 + e.2.length + totalLines rest] with
    | nil => simp at hrest
    | cons y ys =>
      rw [hrest] at hh
      simp only [List.head?_cons, Option.some.injEq] at hh
      have hy : y = k + 1 + e.2.length := by
        rw [hh]
        split
        · rename_i h; subst h; simp [totalLines]
        · rfl
      have := ih (k + 1 + e.2.length)
      rw [hrest] at this
      simp only [List.zip_cons_cons, List.map_cons, List.drop_succ_cons, List.drop_zero] at this ⊢
      rw [this, hy]
      simp
      omega

theorem filter_ser_headers (m : Nat) (es : List (Bytes × List Bytes)) (hb : ∀ e ∈ es, ∀ l ∈ e.2, l.head? ≠ some m) :
    (fastaSer m es).filter (fun l => l.head? = some m) = es.map (fun e => m :: e.1) ∧
    (fastaSer m es).filter (fun l => !(decide (l.head? = some m))) = (es.map (·.2)).flatten := by
  induction es with
  | nil => simp [fastaSer]
  | cons e rest ih =>
    have ih' := ih (fun e' he' => hb e' (by simp [he']))
    have hbody1 : e.2.filter (fun l => l.head? = some m) = [] :=
      List.filter_eq_nil_iff.mpr (fun l hl => by simpa using hb e (by simp) l hl)
    have hbody2 : e.2.filter (fun l => !(decide (l.head? = some m))) = e.2 :=
      List.filter_eq_self.mpr (fun l hl => by simpa using hb e (by simp) l hl)
    simp only [fastaSer, List.flatMap_cons, List.cons_append, List.filter_cons, List.head?_cons, List.filter_append] at ih' ⊢
    simp [hbody1, hbody2, ih'.1, ih'.2]

theorem unflatten_map_flatten {α} (ls : List (List (List α))) :
    unflatten (ls.map (fun b => b.flatten.length)) (ls.map List.flatten).flatten = ls.map List.flatten := by
  have := unflatten_flatten (ls.map List.flatten)
  simpa [List.map_map, Function.comp_def] using this

/-- **fasta_wrapped_join.** For every list of records — any name, any number of sequence lines per record including
none, lines of any (unequal) widths — the reader's grouping of the lines of the text (header positions → lines per
record → cumulative line lengths → one cut of the flat sequence text) returns each record's name and the
concatenation of exactly its own sequence lines. -/
theorem fasta_wrapped_join (m : Nat) (es : List (Bytes × List Bytes))
    (hb : ∀ e ∈ es, ∀ l ∈ e.2, l.head? ≠ some m) :
    fastaGroup m (fastaSer m es) = (es.map (·.1), es.map (fun e => e.2.flatten)) := by
  unfold fastaGroup
  simp only
  obtain ⟨hf1, hf2⟩ := filter_ser_headers m es hb
  have hf2' : (fastaSer m es).filter (fun l => !(decide (l.head? = some m))) = (es.map (·.2)).flatten := hf2
  rw [hf1, hf2', headerIdx_ser m 0 es hb, length_ser]
  have hn := nLines_offs 0 es
  simp only [Nat.zero_add] at hn
  rw [hn]
  have hsum : (es.map (fun e => e.2.length)).sum ≤ ((es.map (·.2)).flatten.map List.length).length := by
    simp [List.length_flatten, List.map_map, Function.comp_def]
  rw [fasta_seqLens _ _ hsum]
  have hlens : (unflatten (es.map (fun e => e.2.length)) ((es.map (·.2)).flatten.map List.length)).map List.sum
      = es.map (fun e => e.2.flatten.length) := by
    have h1 : (es.map (·.2)).flatten.map List.length = ((es.map (·.2)).map (fun b => b.map List.length)).flatten := by
      simp [List.map_flatten]
    have h2 : es.map (fun e => e.2.length) = ((es.map (·.2)).map (fun b => b.map List.length)).map List.length := by
      simp [List.map_map, Function.comp_def]
    rw [h1, h2, unflatten_flatten]
    simp [List.map_map, Function.comp_def, List.length_flatten]
  rw [hlens]
  have := unflatten_map_flatten (es.map (·.2))
  simp only [List.map_map, Function.comp_def] at this
  rw [List.flatten_flatten]
  have e2 : List.map List.flatten (List.map (fun x : Bytes × List Bytes => x.2) es) = List.map (fun x => x.2.flatten) es := by
    simp [List.map_map, Function.comp_def]
  rw [e2, this]
  simp [List.map_map, Function.comp_def]

/-! ### SAM: eleven fixed columns and the rest of the line -/

theorem delimsFrom_append (isD : Nat → Bool) (k : Nat) (a b : Bytes) :
    delimsFrom isD k (a ++ b) = delimsFrom isD k a ++ delimsFrom isD (k + a.length) b := by
  induction a generalizing k with
  | nil => simp [delimsFrom]
  | cons x xs ih =>
    simp only [List.cons_append, delimsFrom, List.length_cons]
    have e : k + 1 + xs.length = k + (xs.length + 1) := by omega
    split <;> simp [ih (k + 1), e]

theorem delimsFrom_range (isD : Nat → Bool) (k : Nat) (bs : Bytes) :
    ∀ e ∈ delimsFrom isD k bs, k ≤ e ∧ e < k + bs.length := by
  induction bs generalizing k with
  | nil => intro e he; simp [delimsFrom] at he
  | cons b rest ih =>
    intro e he
    simp only [delimsFrom] at he
    split at he
    · simp only [List.mem_cons] at he
      rcases he with rfl | he
      · simp
      · have := ih (k + 1) e he; simp; omega
    · have := ih (k + 1) e he; simp; omega

theorem slice_append_left (A post : Bytes) (s e : Nat) (he : e ≤ A.length) :
    slice (A ++ post) s e = slice A s e := by
  simp only [slice]
  rcases Nat.lt_or_ge A.length s with h | h
  · have : e - s = 0 := by omega
    simp [this]
  · rw [List.drop_append_of_le_length h, List.take_append_of_le_length (by simp; omega)]

theorem slice_split (A : Bytes) (s x e : Nat) (hsx : s ≤ x) (hxe : x < e) (he : e ≤ A.length) :
    slice A s e = slice A s x ++ A.getD x 0 :: slice A (x + 1) e := by
  have h1 : slice A s e = slice A s x ++ slice A x e := by
    simp only [slice]
    have h3 : e - s = (x - s) + (e - x) := by omega
    have h4 : s + (x - s) = x := by omega
    rw [h3, List.take_add, List.drop_drop, h4]
  have h2 : slice A x e = A.getD x 0 :: slice A (x + 1) e := by
    simp only [slice]
    have hx : x < A.length := by omega
    rw [List.drop_eq_getElem_cons hx]
    have : e - x = (e - (x + 1)) + 1 := by omega
    rw [this, List.take_succ_cons]
    simp [List.getD_eq_getElem?_getD, List.getElem?_eq_getElem hx]
  rw [h1, h2]

/-- consecutive fields with their separators: the slice from the start of the first to the end of the last
is the fields joined by the separator -/
theorem join_consecutive (A : Bytes) (d : Nat) (R : List Nat) (a : Nat) (hR : R ≠ [])
    (hwf : ∀ p ∈ List.zip (a :: R.map (· + 1)) R, p.1 ≤ p.2)
    (hlt : ∀ e ∈ R, e < A.length)
    (hsep : ∀ e ∈ R.dropLast, A.getD e 0 = d) :
    a ≤ R.getLast?.getD 0 ∧
    slice A a (R.getLast?.getD 0) = joinWith d ((List.zip (a :: R.map (· + 1)) R).map (fun p => slice A p.1 p.2)) := by
  induction R generalizing a with
  | nil => exact absurd rfl hR
  | cons x rest ih =>
    cases rest with
    | nil =>
      have := hwf (a, x) (by simp)
      simp [joinWith]
      exact this
    | cons y rest' =>
      have h0 := hwf (a, x) (by simp)
      have hrec := ih (x + 1) (by simp)
        (fun p hp => hwf p (by simp only [List.map_cons, List.zip_cons_cons, List.mem_cons] at hp ⊢; exact Or.inr hp))
        (fun e he => hlt e (by simp only [List.mem_cons] at he ⊢; exact Or.inr he))
        (fun e he => hsep e (by simp only [List.dropLast_cons_cons, List.mem_cons] at he ⊢; exact Or.inr he))
      have hlast : (x :: y :: rest').getLast?.getD 0 = (y :: rest').getLast?.getD 0 := by
        simp [List.getLast?_cons_cons]
      have hlen : (y :: rest').getLast?.getD 0 < A.length := by
        have hne : (y :: rest') ≠ [] := by simp
        rw [List.getLast?_eq_some_getLast hne]
        simp only [Option.getD_some]
        exact hlt _ (List.mem_cons_of_mem _ (List.getLast_mem hne))
      rw [hlast]
      simp only at h0
      refine ⟨by omega, ?_⟩
      rw [slice_split A a x _ h0 (by omega) (by omega), hsep x (by simp), hrec.2]
      simp [joinWith]

theorem zip_cons_map_split (g : Nat → Nat) (a : Nat) (r1 r2 : List Nat) (hne : r1 ≠ []) :
    List.zip (a :: (r1 ++ r2).map g) (r1 ++ r2)
      = List.zip (a :: r1.map g) r1 ++ List.zip (g (r1.getLast hne) :: r2.map g) r2 := by
  induction r1 generalizing a with
  | nil => exact absurd rfl hne
  | cons x xs ih =>
    cases xs with
    | nil => simp
    | cons y ys =>
      have := ih (g x) (by simp)
      simp only [List.cons_append, List.map_cons, List.zip_cons_cons] at this ⊢
      rw [this]
      simp [List.getLast_cons]

theorem delimsFrom_getD (isD : Nat → Bool) (bs pre post : Bytes) :
    ∀ e ∈ delimsFrom isD pre.length bs,
      isD ((pre ++ bs ++ post).getD e 0) = true ∧ (pre ++ bs ++ post).getD e 0 ∈ bs := by
  induction bs generalizing pre with
  | nil => intro e he; simp [delimsFrom] at he
  | cons b rest ih =>
    intro e he
    have hpre : pre ++ b :: rest ++ post = (pre ++ [b]) ++ rest ++ post := by simp
    have hlen : (pre ++ [b]).length = pre.length + 1 := by simp
    simp only [delimsFrom] at he
    have hrec : ∀ e ∈ delimsFrom isD (pre.length + 1) rest,
        isD ((pre ++ b :: rest ++ post).getD e 0) = true ∧ (pre ++ b :: rest ++ post).getD e 0 ∈ b :: rest := by
      intro e he
      have := ih (pre ++ [b]) e (by rw [hlen]; exact he)
      rw [← hpre] at this
      exact ⟨this.1, List.mem_cons_of_mem _ this.2⟩
    split at he
    · rename_i hD
      simp only [List.mem_cons] at he
      rcases he with rfl | he
      · have : (pre ++ b :: rest ++ post).getD pre.length 0 = b := by
          simp [List.getD_eq_getElem?_getD]
        rw [this]; exact ⟨hD, by simp⟩
      · exact hrec e he
    · exact hrec e he

/-- **sam_extra.** For every SAM line with at least `k` TAB-separated fields (k = 11), wherever it sits in the
buffer: the first `k` (start, end) pairs denote the first `k` fields, and the rest-of-line pair denotes the remaining
fields joined by TAB — the empty text when there are exactly `k` fields. -/
theorem sam_extra (d : Nat) (_hd : d ≠ 10) (pre l post : Bytes) (hl : 10 ∉ l) (k : Nat) (hk1 : 1 ≤ k)
    (hk : k ≤ (splitOn d l).length) (hnocr : (pre ++ l).getLast? ≠ some 13) :
    ((samRow (pre ++ (l ++ [10]) ++ post) false k pre.length (delimsFrom (isDelim d) pre.length (l ++ [10]))).1.map
        (fun p => slice (pre ++ (l ++ [10]) ++ post) p.1 p.2) = (splitOn d l).take k) ∧
    (let x := (samRow (pre ++ (l ++ [10]) ++ post) false k pre.length (delimsFrom (isDelim d) pre.length (l ++ [10]))).2
     slice (pre ++ (l ++ [10]) ++ post) x.1 x.2 = joinWith d ((splitOn d l).drop k)) := by
  obtain ⟨A, hA⟩ : ∃ A, A = pre ++ (l ++ [10]) := ⟨_, rfl⟩
  obtain ⟨r, hr⟩ : ∃ r, r = delimsFrom (isDelim d) pre.length (l ++ [10]) := ⟨_, rfl⟩
  rw [← hA, ← hr]
  have hAlen : A.length = pre.length + l.length + 1 := by rw [hA]; simp; omega
  have hrlt : ∀ e ∈ r, e < A.length := by
    intro e he
    have := delimsFrom_range (isDelim d) pre.length (l ++ [10]) e (hr ▸ he)
    simp at this; omega
  -- texts of all fields of the line
  have hP : (List.zip (pre.length :: r.map (· + 1)) r).map (fun p => slice A p.1 p.2) = splitOn d l := by
    have hb := bridge_aux (isDelim d) (l ++ [10]) pre pre.length (Nat.le_refl _)
    rw [← hr, ← hA, slice_self] at hb
    rw [List.zip, List.map_zipWith]
    have hps : piecesAcc (isDelim d) [] (l ++ [10]) = splitOn d l := by
      have := pieces_stretch (isDelim d) d l 10 [] (fun b hb => by
        have : b ≠ 10 := fun h => hl (h ▸ hb)
        simp [isDelim, this]) (by simp [isDelim])
      simpa [pieces, piecesAcc] using this
    rw [← hps, ← hb]
  have hrlen : r.length = (splitOn d l).length := by
    have := congrArg List.length hP
    simpa using this
  have hsl : ∀ p ∈ List.zip (pre.length :: r.map (· + 1)) r,
      slice (A ++ post) p.1 p.2 = slice A p.1 p.2 := by
    intro p hp
    exact slice_append_left A post p.1 p.2 (Nat.le_of_lt (hrlt p.2 (List.of_mem_zip hp).2))
  have hwf := pairs_wf_aux (isDelim d) (l ++ [10]) pre pre.length (Nat.le_refl _)
  rw [← hr, ← hA] at hwf
  -- split the delimiters after the k-th
  have hrk : k ≤ r.length := by omega
  obtain ⟨r1, r2, hr12, hr1len⟩ : ∃ r1 r2, r = r1 ++ r2 ∧ r1.length = k :=
    ⟨r.take k, r.drop k, (List.take_append_drop k r).symm, by simp; omega⟩
  have hr1ne : r1 ≠ [] := by intro h; rw [h] at hr1len; simp at hr1len; omega
  have hsplit := zip_cons_map_split (· + 1) pre.length r1 r2 hr1ne
  rw [← hr12] at hsplit
  have hlen1 : (List.zip (pre.length :: r1.map (· + 1)) r1).length = k := by simp [hr1len]
  have hrne : r ≠ [] := by intro h; rw [h] at hrk; simp at hrk; omega
  -- the model's expressions
  have hstarts : List.zip (pre.length :: r.dropLast.map (· + 1)) (r.dropLast ++ [r.getLast?.getD 0])
      = List.zip (pre.length :: r.map (· + 1)) r := by
    have h1 : r.dropLast ++ [r.getLast?.getD 0] = r := by
      rw [List.getLast?_eq_some_getLast hrne]; exact List.dropLast_concat_getLast hrne
    rw [h1]
    have := zipWith_dropLast (fun (a : Nat) (b : Nat) => (a, b)) (· + 1) pre.length r
    simpa [List.zip] using this
  have hfields : (samRow (A ++ post) false k pre.length r).1 = List.zip (pre.length :: r1.map (· + 1)) r1 := by
    simp only [samRow, Bool.false_and, Bool.false_eq_true, if_false]
    rw [hstarts, hsplit, List.take_left' hlen1]
  have hP1 : (List.zip (pre.length :: r1.map (· + 1)) r1).map (fun p => slice A p.1 p.2) = (splitOn d l).take k := by
    rw [← hP, hsplit, List.map_append, List.take_left' (by simp [hr1len])]
  have hP2 : (List.zip ((r1.getLast hr1ne + 1) :: r2.map (· + 1)) r2).map (fun p => slice A p.1 p.2) = (splitOn d l).drop k := by
    rw [← hP, hsplit, List.map_append, List.drop_left' (by simp [hr1len])]
  constructor
  · rw [hfields, ← hP1]
    apply List.map_congr_left
    intro p hp
    exact hsl p (by rw [hsplit]; exact List.mem_append_left _ hp)
  · simp only
    have he : ((samRow (A ++ post) false k pre.length r).1.getLast?.map (·.2)).getD 0 = r1.getLast hr1ne := by
      rw [hfields]
      have hz : (List.zip (pre.length :: r1.map (· + 1)) r1).map (·.2) = r1 := by
        rw [List.zip, List.map_zipWith]
        have : ∀ (xs : List Nat) (ys : List Nat), xs.length = ys.length + 1 → List.zipWith (fun _ b => b) xs ys = ys := by
          intro xs ys
          induction ys generalizing xs with
          | nil => intro _; simp
          | cons y ys ih =>
            intro h
            cases xs with
            | nil => simp at h
            | cons x xs' => simp at h; simp [ih xs' h]
        exact this _ _ (by simp)
      rw [← List.getLast?_map, hz, List.getLast?_eq_some_getLast hr1ne]
      rfl
    have hx : (samRow (A ++ post) false k pre.length r).2 =
        (r1.getLast hr1ne + 1, max (r.getLast?.getD 0) (r1.getLast hr1ne + 1)) := by
      have hrl : r.getLast?.getD 0 = (pre ++ l).length := by
        rw [hr, delimsFrom_append]
        simp [delimsFrom, isDelim]
      have hno13 : (A ++ post).getD (r.getLast?.getD 0 - 1) 0 ≠ 13 := by
        rw [hrl, hA]
        have e1 : pre ++ (l ++ [10]) ++ post = (pre ++ l) ++ 10 :: post := by simp
        rw [e1]
        cases hpl : (pre ++ l).reverse with
        | nil =>
          have : pre ++ l = [] := List.reverse_eq_nil_iff.mp hpl
          rw [this]; simp
        | cons z zs =>
          have hpl' : pre ++ l = zs.reverse ++ [z] := by
            have := congrArg List.reverse hpl; simpa using this
          have hz : z ≠ 13 := by
            intro h13; apply hnocr; rw [hpl', h13]; simp
          rw [hpl']
          simp [List.getD_eq_getElem?_getD, hz]
      have : (samRow (A ++ post) false k pre.length r).2 =
          (((samRow (A ++ post) false k pre.length r).1.getLast?.map (·.2)).getD 0 + 1,
           max (r.getLast?.getD 0) (((samRow (A ++ post) false k pre.length r).1.getLast?.map (·.2)).getD 0 + 1)) := by
        simp only [samRow]
        rw [if_neg hno13]
      rw [this, he]
    rw [hx]
    simp only
    cases hr2 : r2 with
    | nil =>
      -- exactly k fields: the rest is empty
      have hr1 : r = r1 := by rw [hr12, hr2]; simp
      have hlast : r.getLast?.getD 0 = r1.getLast hr1ne := by
        rw [hr1, List.getLast?_eq_some_getLast hr1ne]; rfl
      rw [hlast, ← hP2, hr2]
      simp [slice, joinWith]
    | cons y ys =>
      have hr2ne : r2 ≠ [] := by rw [hr2]; simp
      have hlast : r.getLast?.getD 0 = r2.getLast?.getD 0 := by
        rw [hr12, List.getLast?_append, List.getLast?_eq_some_getLast hr2ne]
        simp
      have hj := join_consecutive A d r2 (r1.getLast hr1ne + 1) hr2ne
        (fun p hp => (hwf p (by rw [hsplit]; exact List.mem_append_right _ hp)).1)
        (fun e he => hrlt e (by rw [hr12]; exact List.mem_append_right _ he))
        (fun e he => by
          -- a delimiter that is not the last of the line lies inside `l`, so it is the TAB
          have hmem : e ∈ r.dropLast := by
            rw [hr12, List.dropLast_append_of_ne_nil hr2ne]
            exact List.mem_append_right _ he
          have hrd : r.dropLast = delimsFrom (isDelim d) pre.length l := by
            rw [hr, delimsFrom_append]
            simp [delimsFrom, isDelim]
          rw [hrd] at hmem
          have := delimsFrom_getD (isDelim d) l pre ([10] ++ post) e hmem
          have hAe : (pre ++ l ++ ([10] ++ post)).getD e 0 = A.getD e 0 := by
            have hlt := (delimsFrom_range (isDelim d) pre.length l e hmem).2
            rw [hA]
            simp only [List.getD_eq_getElem?_getD]
            have e1 : pre ++ l ++ ([10] ++ post) = (pre ++ (l ++ [10])) ++ post := by simp
            rw [e1, List.getElem?_append_left (by simp; omega)]
          rw [hAe] at this
          have hne10 : A.getD e 0 ≠ 10 := fun h => hl (h ▸ this.2)
          have := this.1
          simp only [isDelim, Bool.or_eq_true, beq_iff_eq] at this
          rcases this with h | h
          · exact absurd h hne10
          · exact h)
      rw [hlast, Nat.max_eq_left hj.1]
      rw [slice_append_left A post _ _ (by
        have : r2.getLast?.getD 0 < A.length := by
          rw [List.getLast?_eq_some_getLast hr2ne]
          exact hrlt _ (by rw [hr12]; exact List.mem_append_right _ (List.getLast_mem hr2ne))
        omega)]
      rw [hj.2, hP2]

/-! ### interior comments: the pairs of a buffer line by line; comment lines never become entries -/

/-- the (start, end) pairs of one line that starts at position `k` -/
def linePairsOf (d : Nat) (k : Nat) (l : Bytes) : List (Nat × Nat) :=
  List.zip (k :: (delimsFrom (isDelim d) k (l ++ [10])).map (· + 1)) (delimsFrom (isDelim d) k (l ++ [10]))

/-- the lines with their start positions -/
def lineStarts : Nat → List Bytes → List (Nat × Bytes)
  | _, [] => []
  | k, l :: ls => (k, l) :: lineStarts (k + l.length + 1) ls

theorem delimsFrom_line_last (d k : Nat) (l : Bytes) :
    delimsFrom (isDelim d) k (l ++ [10]) = delimsFrom (isDelim d) k l ++ [k + l.length] := by
  rw [delimsFrom_append]
  simp [delimsFrom, isDelim]

theorem zip_cons_map_nil_right (a : Nat) (r : List Nat) (hne : r ≠ []) (r2 : List Nat) :
    List.zip (a :: (r ++ r2).map (· + 1)) (r ++ r2)
      = List.zip (a :: r.map (· + 1)) r ++ List.zip ((r.getLast hne + 1) :: r2.map (· + 1)) r2 :=
  zip_cons_map_split (· + 1) a r r2 hne

/-- the pairs of a text made of complete lines are, line by line, the pairs of each line at its own offset -/
theorem pairs_by_line (d : Nat) (ls : List Bytes) (k : Nat) :
    List.zip (k :: (delimsFrom (isDelim d) k (unlines ls)).map (· + 1)) (delimsFrom (isDelim d) k (unlines ls))
      = (lineStarts k ls).flatMap (fun kl => linePairsOf d kl.1 kl.2) := by
  induction ls generalizing k with
  | nil => simp [unlines, delimsFrom, lineStarts]
  | cons l rest ih =>
    have hu : unlines (l :: rest) = (l ++ [10]) ++ unlines rest := by simp [unlines]
    rw [hu, delimsFrom_append]
    have hne : delimsFrom (isDelim d) k (l ++ [10]) ≠ [] := by rw [delimsFrom_line_last]; simp
    rw [zip_cons_map_nil_right k _ hne]
    have hlast : (delimsFrom (isDelim d) k (l ++ [10])).getLast hne = k + l.length := by
      simp [delimsFrom_line_last]
    rw [hlast]
    have hk : k + (l ++ [10]).length = k + l.length + 1 := by simp; omega
    rw [hk, ih (k + l.length + 1)]
    simp [lineStarts, linePairsOf]

/-- the texts of one line's pairs are the line's fields, wherever the line sits -/
theorem linePairs_texts (d : Nat) (pre l post : Bytes) (hl : 10 ∉ l) :
    (linePairsOf d pre.length l).map (fun p => slice (pre ++ (l ++ [10]) ++ post) p.1 p.2) = splitOn d l := by
  unfold linePairsOf
  have hb := bridge_aux (isDelim d) (l ++ [10]) pre pre.length (Nat.le_refl _)
  rw [slice_self] at hb
  have hps : piecesAcc (isDelim d) [] (l ++ [10]) = splitOn d l := by
    have := pieces_stretch (isDelim d) d l 10 [] (fun b hb => by
      have : b ≠ 10 := fun h => hl (h ▸ hb)
      simp [isDelim, this]) (by simp [isDelim])
    simpa [pieces, piecesAcc] using this
  have hA : ∀ p ∈ List.zip (pre.length :: (delimsFrom (isDelim d) pre.length (l ++ [10])).map (· + 1))
      (delimsFrom (isDelim d) pre.length (l ++ [10])),
      slice (pre ++ (l ++ [10]) ++ post) p.1 p.2 = slice (pre ++ (l ++ [10])) p.1 p.2 := by
    intro p hp
    have := delimsFrom_range (isDelim d) pre.length (l ++ [10]) p.2 (List.of_mem_zip hp).2
    exact slice_append_left _ post p.1 p.2 (by simp at this ⊢; omega)
  rw [List.map_congr_left hA, ← hps, ← hb, List.zip, List.map_zipWith]

theorem takeWhile_all {α} (p : α → Bool) (xs : List α) (hx : ∀ x ∈ xs, p x = true) : xs.takeWhile p = xs := by
  induction xs with
  | nil => rfl
  | cons x rest ih =>
    simp only [List.takeWhile_cons, hx x (by simp), if_true]
    rw [ih (fun z hz => hx z (by simp [hz]))]

theorem lineStarts_mem (k0 : Nat) (ls : List Bytes) (k : Nat) (l : Bytes) (h : (k, l) ∈ lineStarts k0 ls) :
    ∃ before after, ls = before ++ l :: after ∧ k = k0 + (unlines before).length := by
  induction ls generalizing k0 with
  | nil => simp [lineStarts] at h
  | cons x xs ih =>
    simp only [lineStarts, List.mem_cons] at h
    rcases h with h | h
    · simp only [Prod.mk.injEq] at h
      exact ⟨[], xs, by simp [h.2], by simp [unlines, h.1]⟩
    · obtain ⟨b, a, hxs, hk⟩ := ih (k0 + x.length + 1) h
      refine ⟨x :: b, a, by simp [hxs], ?_⟩
      rw [hk]
      simp [unlines]
      omega

theorem unlines_reverse_head (before : List Bytes) (hne : before ≠ []) :
    ∃ tl, (unlines before).reverse = 10 :: tl := by
  obtain ⟨init, lastl, hb⟩ : ∃ init lastl, before = init ++ [lastl] :=
    ⟨before.dropLast, before.getLast hne, (List.dropLast_concat_getLast hne).symm⟩
  rw [hb, unlines_snoc]
  exact ⟨(unlines init ++ lastl).reverse, by simp⟩

/-- the start of the line containing position `e`, for a position inside (or at the newline of) line `l` -/
theorem lineStartOf_line (before : List Bytes) (l post : Bytes) (hl : 10 ∉ l) (e : Nat)
    (h1 : (unlines before).length ≤ e) (h2 : e ≤ (unlines before).length + l.length) :
    lineStartOf (unlines before ++ (l ++ [10]) ++ post) e = (unlines before).length := by
  unfold lineStartOf
  obtain ⟨j, hj⟩ : ∃ j, e = (unlines before).length + j := ⟨e - (unlines before).length, by omega⟩
  have hjl : j ≤ l.length := by omega
  have htake : (unlines before ++ (l ++ [10]) ++ post).take e = unlines before ++ l.take j := by
    rw [hj, List.append_assoc, List.take_append, List.take_of_length_le (by omega)]
    have : (unlines before).length + j - (unlines before).length = j := by omega
    rw [this, List.append_assoc, List.take_append_of_le_length (by omega)]
  rw [htake, List.reverse_append]
  have hfree : ∀ x ∈ (l.take j).reverse, (fun b => b != 10) x = true := by
    intro x hx
    have : x ∈ l := List.mem_of_mem_take (by simpa using hx)
    have : x ≠ 10 := fun h => hl (h ▸ this)
    simp [this]
  have hlen : ((l.take j).reverse ++ (unlines before).reverse).takeWhile (fun b => b != 10) = (l.take j).reverse := by
    by_cases hb : before = []
    · subst hb
      simp only [unlines, List.map_nil, List.flatten_nil, List.reverse_nil, List.append_nil]
      exact takeWhile_all _ _ hfree
    · obtain ⟨tl, htl⟩ := unlines_reverse_head before hb
      rw [htl]
      exact takeWhile_append_stop _ _ 10 tl hfree (by simp)
  rw [hlen]
  simp
  omega

theorem unlines_append (a b : List Bytes) : unlines (a ++ b) = unlines a ++ unlines b := by
  simp [unlines]

theorem unlines_cons (l : Bytes) (rest : List Bytes) : unlines (l :: rest) = (l ++ [10]) ++ unlines rest := by
  simp [unlines]

/-- whether the pairs of a line are kept depends only on the line: it is kept iff it does not start with the
comment character -/
theorem keep_line (d c : Nat) (hc : c ≠ 10) (ls : List Bytes) (hfree : ∀ l ∈ ls, 10 ∉ l)
    (k : Nat) (l : Bytes) (hkl : (k, l) ∈ lineStarts 0 ls) (p : Nat × Nat) (hp : p ∈ linePairsOf d k l) :
    decide ((unlines ls).getD (lineStartOf (unlines ls) p.2) 0 ≠ c) = decide (l.head? ≠ some c) := by
  obtain ⟨before, after, hls, hk⟩ := lineStarts_mem 0 ls k l hkl
  simp only [Nat.zero_add] at hk
  have hl : 10 ∉ l := hfree l (by rw [hls]; simp)
  have hdata : unlines ls = unlines before ++ (l ++ [10]) ++ unlines after := by
    rw [hls, unlines_append, unlines_cons]; simp
  have hr := delimsFrom_range (isDelim d) k (l ++ [10]) p.2 (List.of_mem_zip hp).2
  simp only [List.length_append, List.length_cons, List.length_nil] at hr
  rw [hdata, lineStartOf_line before l (unlines after) hl p.2 (by omega) (by omega)]
  have hget : (unlines before ++ (l ++ [10]) ++ unlines after).getD (unlines before).length 0 = (l ++ [10]).headD 0 := by
    rw [List.append_assoc]
    simp only [List.getD_eq_getElem?_getD]
    rw [List.getElem?_append_right (Nat.le_refl _)]
    simp only [Nat.sub_self]
    cases l <;> simp
  rw [hget]
  cases l with
  | nil => simp; exact fun h => hc h.symm
  | cons x xs => simp

theorem filter_flatMap_const {α β} (L : List α) (f : α → List β) (q : β → Bool) (P : α → Bool)
    (h : ∀ a ∈ L, ∀ x ∈ f a, q x = P a) :
    (L.flatMap f).filter q = L.flatMap (fun a => if P a then f a else []) := by
  induction L with
  | nil => rfl
  | cons a rest ih =>
    simp only [List.flatMap_cons, List.filter_append]
    rw [ih (fun a' ha' => h a' (by simp [ha']))]
    congr 1
    by_cases hP : P a = true
    · simp only [hP, if_true]
      exact List.filter_eq_self.mpr (fun x hx => by rw [h a (by simp) x hx, hP])
    · simp only [hP]
      exact List.filter_eq_nil_iff.mpr (fun x hx => by rw [h a (by simp) x hx]; simpa using hP)

theorem lineStarts_flatMap_snd {β} (g : Bytes → List β) (k : Nat) (ls : List Bytes) :
    (lineStarts k ls).flatMap (fun kl => g kl.2) = ls.flatMap g := by
  induction ls generalizing k with
  | nil => rfl
  | cons l rest ih => simp [lineStarts, ih]

theorem flatMap_if_filter {α β} (q : α → Bool) (g : α → List β) (ls : List α) :
    ls.flatMap (fun l => if q l then g l else []) = ((ls.filter q).map g).flatten := by
  induction ls with
  | nil => rfl
  | cons l rest ih =>
    simp only [List.flatMap_cons, List.filter_cons, ih]
    split <;> simp

/-- the kept pairs, as texts: the fields of the lines that are not comments -/
theorem kept_texts (d c : Nat) (ls : List Bytes) (hfree : ∀ l ∈ ls, 10 ∉ l) :
    ((lineStarts 0 ls).flatMap (fun kl => if decide (kl.2.head? ≠ some c) then linePairsOf d kl.1 kl.2 else [])).map
        (fun p => slice (unlines ls) p.1 p.2)
      = ((dataLines c ls).map (splitOn d)).flatten := by
  rw [List.map_flatMap]
  have hcongr : (lineStarts 0 ls).flatMap (fun kl =>
        (if decide (kl.2.head? ≠ some c) then linePairsOf d kl.1 kl.2 else []).map (fun p => slice (unlines ls) p.1 p.2))
      = (lineStarts 0 ls).flatMap (fun kl => if decide (kl.2.head? ≠ some c) then splitOn d kl.2 else []) := by
    rw [List.flatMap_def, List.flatMap_def]
    congr 1
    apply List.map_congr_left
    intro kl hkl
    obtain ⟨k, l⟩ := kl
    simp only
    split
    · obtain ⟨before, after, hls, hk⟩ := lineStarts_mem 0 ls k l hkl
      simp only [Nat.zero_add] at hk
      have hdata : unlines ls = unlines before ++ (l ++ [10]) ++ unlines after := by
        rw [hls, unlines_append, unlines_cons]; simp
      rw [hdata, hk]
      exact linePairs_texts d (unlines before) l (unlines after) (hfree l (by rw [hls]; simp))
    · rfl
  rw [hcongr, lineStarts_flatMap_snd (fun l => if decide (l.head? ≠ some c) then splitOn d l else [])]
  unfold dataLines
  exact flatMap_if_filter _ _ ls

theorem findIdx?_append_hit {α} (p : α → Bool) (xs : List α) (y : α) (ys : List α)
    (hx : ∀ x ∈ xs, p x = false) (hy : p y = true) :
    (xs ++ y :: ys).findIdx? p = some xs.length := by
  induction xs with
  | nil => simp [List.findIdx?_cons, hy]
  | cons x rest ih =>
    simp only [List.cons_append, List.findIdx?_cons, hx x (by simp), List.length_cons]
    rw [ih (fun z hz => hx z (by simp [hz]))]
    simp

theorem map_snd_zip_cons (a : Nat) (r : List Nat) : (List.zip (a :: r.map (· + 1)) r).map (·.2) = r := by
  induction r generalizing a with
  | nil => rfl
  | cons x xs ih => simp [ih (x + 1)]

theorem zip_fst_snd {α β} (l : List (α × β)) : List.zip (l.map (·.1)) (l.map (·.2)) = l := by
  induction l with
  | nil => rfl
  | cons x xs ih => simp [ih]

/-- the kept pairs begin with the pairs of the first non-comment line -/
theorem kept_head (d c : Nat) (ls : List Bytes) (k0 : Nat) (l1 : Bytes) (rest' : List Bytes)
    (h : ls.filter (fun l => decide (l.head? ≠ some c)) = l1 :: rest') :
    ∃ k1 tailK, (lineStarts k0 ls).flatMap (fun kl => if decide (kl.2.head? ≠ some c) then linePairsOf d kl.1 kl.2 else [])
        = linePairsOf d k1 l1 ++ tailK ∧ (k1, l1) ∈ lineStarts k0 ls := by
  induction ls generalizing k0 with
  | nil => simp at h
  | cons l rest ih =>
    simp only [List.filter_cons] at h
    split at h
    · rename_i hq
      simp only [List.cons.injEq] at h
      obtain ⟨rfl, _⟩ := h
      refine ⟨k0, (lineStarts (k0 + l.length + 1) rest).flatMap
        (fun kl => if decide (kl.2.head? ≠ some c) then linePairsOf d kl.1 kl.2 else []), ?_, by simp [lineStarts]⟩
      simp only [lineStarts, List.flatMap_cons, hq, if_true]
    · rename_i hq
      obtain ⟨k1, tailK, h1, h2⟩ := ih (k0 + l.length + 1) h
      refine ⟨k1, tailK, ?_, by simp [lineStarts, h2]⟩
      have hq' : decide (l.head? ≠ some c) = false := by simpa using hq
      simp only [lineStarts, List.flatMap_cons, hq', Bool.false_eq_true, if_false, List.nil_append]
      exact h1

/-- **commentTable_spec.** For every buffer whose non-comment lines (at least one) all have `n` fields — comment lines
anywhere: before, between and after the records, with or without delimiters inside them — the repaired
start/end computation yields a table of `n` columns whose texts are exactly the fields of the non-comment lines:
comment lines never become entries. -/
theorem commentTable_spec (d c : Nat) (_hd : d ≠ 10) (hc : c ≠ 10) (bs : Bytes) (n : Nat)
    (hdata : dataLines c (linesOf bs) ≠ [])
    (huni : ∀ l ∈ dataLines c (linesOf bs), (splitOn d l).length = n) :
    ∃ t, commentTable d c bs = .ok t ∧ t.nCols = n ∧
      tableFields (complete bs) t = (dataLines c (linesOf bs)).map (splitOn d) := by
  have hcomp := complete_eq bs
  obtain ⟨ls, hls⟩ : ∃ ls, ls = linesOf bs := ⟨_, rfl⟩
  rw [← hls] at hdata huni hcomp ⊢
  have hfree : ∀ l ∈ ls, 10 ∉ l := by rw [hls]; exact linesOf_free bs
  obtain ⟨l1, rest', hdl⟩ : ∃ l1 rest', dataLines c ls = l1 :: rest' := by
    cases h : dataLines c ls with
    | nil => exact absurd h hdata
    | cons a b => exact ⟨a, b, rfl⟩
  have hlsne : ls ≠ [] := by intro h; subst h; simp [dataLines] at hdl
  have hdata_ne : complete bs ≠ [] := by
    rw [hcomp]
    cases ls with
    | nil => exact absurd rfl hlsne
    | cons a b => simp [unlines]
  -- all pairs, line by line; the kept ones
  obtain ⟨ds, hds⟩ : ∃ ds, ds = delimsFrom (isDelim d) 0 (unlines ls) := ⟨_, rfl⟩
  have hpairs : List.zip (0 :: ds.dropLast.map (· + 1)) ds
      = (lineStarts 0 ls).flatMap (fun kl => linePairsOf d kl.1 kl.2) := by
    have e := zipWith_dropLast (fun (a : Nat) (b : Nat) => (a, b)) (· + 1) 0 ds
    have e' : List.zip (0 :: ds.dropLast.map (· + 1)) ds = List.zip (0 :: ds.map (· + 1)) ds := by
      simpa [List.zip] using e
    rw [e', hds]
    exact pairs_by_line d ls 0
  obtain ⟨kept, hkept⟩ : ∃ kept, kept = (List.zip (0 :: ds.dropLast.map (· + 1)) ds).filter
      (fun p => decide ((unlines ls).getD (lineStartOf (unlines ls) p.2) 0 ≠ c)) := ⟨_, rfl⟩
  have hkept2 : kept = (lineStarts 0 ls).flatMap
      (fun kl => if decide (kl.2.head? ≠ some c) then linePairsOf d kl.1 kl.2 else []) := by
    rw [hkept, hpairs]
    exact filter_flatMap_const (lineStarts 0 ls) (fun kl => linePairsOf d kl.1 kl.2) _
      (fun (kl : Nat × Bytes) => decide (kl.2.head? ≠ some c))
      (fun kl hkl p hp => keep_line d c hc ls hfree kl.1 kl.2 hkl p hp)
  have htexts : kept.map (fun p => slice (unlines ls) p.1 p.2) = ((dataLines c ls).map (splitOn d)).flatten := by
    rw [hkept2]; exact kept_texts d c ls hfree
  have hrowlen : ∀ r ∈ (dataLines c ls).map (splitOn d), r.length = n := by
    intro r hr
    simp only [List.mem_map] at hr
    obtain ⟨l, hl', rfl⟩ := hr
    exact huni l hl'
  have hklen : kept.length = (dataLines c ls).length * n := by
    have := congrArg List.length htexts
    rw [List.length_map, length_flatten_const n _ hrowlen] at this
    simpa using this
  -- the column count read off the first kept newline
  obtain ⟨k1, tailK, hk1, hmem1⟩ := kept_head d c ls 0 l1 rest' (by unfold dataLines at hdl; exact hdl)
  rw [← hkept2] at hk1
  have hl1n : (splitOn d l1).length = n := huni l1 (by rw [hdl]; simp)
  have hnpos : 0 < n := by
    rw [← hl1n]; exact List.length_pos_iff.mpr (splitOn_ne_nil d l1)
  obtain ⟨before, after, hlsplit, hk1eq⟩ := lineStarts_mem 0 ls k1 l1 hmem1
  simp only [Nat.zero_add] at hk1eq
  have hl1free : 10 ∉ l1 := hfree l1 (by rw [hlsplit]; simp)
  have hdatasplit : unlines ls = unlines before ++ (l1 ++ [10]) ++ unlines after := by
    rw [hlsplit, unlines_append, unlines_cons]; simp
  have hends : kept.map (·.2) = delimsFrom (isDelim d) k1 l1 ++ (k1 + l1.length) :: tailK.map (·.2) := by
    rw [hk1, List.map_append]
    unfold linePairsOf
    rw [map_snd_zip_cons, delimsFrom_line_last]
    simp
  have hr1len : (delimsFrom (isDelim d) k1 l1).length + 1 = n := by
    have h1 := linePairs_texts d (unlines before) l1 (unlines after) hl1free
    have h2 := congrArg List.length h1
    rw [List.length_map, hl1n, ← hk1eq] at h2
    unfold linePairsOf at h2
    rw [List.length_zip, delimsFrom_line_last] at h2
    simp at h2
    omega
  have hfind : (kept.map (·.2)).findIdx? (fun e => decide ((unlines ls).getD e 0 = 10)) = some (n - 1) := by
    rw [hends, findIdx?_append_hit]
    · congr 1; omega
    · intro e he
      rw [hk1eq] at he
      have := delimsFrom_getD (isDelim d) l1 (unlines before) ([10] ++ unlines after) e he
      have hAe : unlines before ++ l1 ++ ([10] ++ unlines after) = unlines ls := by rw [hdatasplit]; simp
      rw [hAe] at this
      have : (unlines ls).getD e 0 ≠ 10 := fun h => hl1free (h ▸ this.2)
      simpa using this
    · rw [hdatasplit, hk1eq]
      have : (unlines before ++ (l1 ++ [10]) ++ unlines after).getD ((unlines before).length + l1.length) 0 = 10 := by
        have e1 : unlines before ++ (l1 ++ [10]) ++ unlines after = (unlines before ++ l1) ++ 10 :: unlines after := by simp
        rw [e1]
        have e2 : (unlines before).length + l1.length = (unlines before ++ l1).length := by simp
        rw [e2]
        simp [List.getD_eq_getElem?_getD]
      simpa using this
  refine ⟨⟨n, kept.map (·.1), kept.map (·.2)⟩, ?_, rfl, ?_⟩
  · unfold commentTable
    simp only [hdata_ne, if_false]
    rw [hcomp, ← hds, ← hkept]
    unfold tableOfStartsEnds
    simp only [hfind]
    have hn1 : n - 1 + 1 = n := by omega
    simp only [hn1, List.length_map, hklen, Nat.mul_mod_left]
    simp
  · unfold tableFields Table.rows Table.pairs
    simp only
    rw [zip_fst_snd, List.length_map, hklen, Nat.mul_div_cancel _ hnpos, chunkF_map, hcomp, htexts]
    have := chunkF_flatten n ((dataLines c ls).map (splitOn d)) hrowlen
    simpa using this

/-! ### SAM, whole buffer: the ragged delimiter array line by line -/

def lineDelimsOf (d : Nat) (kl : Nat × Bytes) : List Nat := delimsFrom (isDelim d) kl.1 (kl.2 ++ [10])

theorem delims_by_line (d : Nat) (ls : List Bytes) (k : Nat) :
    delimsFrom (isDelim d) k (unlines ls) = (lineStarts k ls).flatMap (lineDelimsOf d) := by
  induction ls generalizing k with
  | nil => simp [unlines, delimsFrom, lineStarts]
  | cons l rest ih =>
    rw [unlines_cons, delimsFrom_append]
    have hk : k + (l ++ [10]).length = k + l.length + 1 := by simp; omega
    rw [hk, ih (k + l.length + 1)]
    simp [lineStarts, lineDelimsOf]

theorem delimsFrom_length_count (d k : Nat) (l : Bytes) (hl : 10 ∉ l) :
    (delimsFrom (isDelim d) k l).length = l.count d := by
  induction l generalizing k with
  | nil => rfl
  | cons b bs ih =>
    have hb : b ≠ 10 := fun h => hl (by simp [h])
    have hbs : 10 ∉ bs := fun h => hl (by simp [h])
    simp only [delimsFrom, isDelim, List.count_cons]
    by_cases hbd : b = d
    · subst hbd; simp [ih (k + 1) hbs]
    · have : (b == d) = false := by simpa using hbd
      simp [hb, this, ih (k + 1) hbs]

theorem lineDelimsOf_length (d : Nat) (k : Nat) (l : Bytes) (hl : 10 ∉ l) :
    (lineDelimsOf d (k, l)).length = l.count d + 1 := by
  unfold lineDelimsOf
  rw [delimsFrom_line_last]
  simp [delimsFrom_length_count d k l hl]

theorem lineStarts_map_snd (k : Nat) (ls : List Bytes) : (lineStarts k ls).map (·.2) = ls := by
  induction ls generalizing k with
  | nil => rfl
  | cons l rest ih => simp [lineStarts, ih]

theorem lineStarts_length (k : Nat) (ls : List Bytes) : (lineStarts k ls).length = ls.length := by
  have := congrArg List.length (lineStarts_map_snd k ls); simpa using this

/-- `RaggedArray(delimiters, n_fields)`: the delimiters of a buffer grouped by line are each line's own delimiters -/
theorem lineDelims_spec (d : Nat) (ls : List Bytes) (hfree : ∀ l ∈ ls, 10 ∉ l) :
    lineDelims d (unlines ls) = (lineStarts 0 ls).map (lineDelimsOf d) := by
  unfold lineDelims
  simp only
  rw [linesOf_unlines ls hfree, delims_by_line d ls 0]
  have hc : ls.map (fun l => l.count d + 1) = ((lineStarts 0 ls).map (lineDelimsOf d)).map List.length := by
    rw [List.map_map]
    conv => lhs; rw [← lineStarts_map_snd 0 ls, List.map_map]
    apply List.map_congr_left
    intro kl hkl
    obtain ⟨k, l⟩ := kl
    have hl : 10 ∉ l := hfree l (by
      have := List.mem_map_of_mem (f := (·.2)) hkl
      rw [lineStarts_map_snd] at this; exact this)
    simp only [Function.comp]
    exact (lineDelimsOf_length d k l hl).symm
  rw [hc, List.flatMap_def, unflatten_flatten]

theorem lineDelimsOf_last (d : Nat) (kl : Nat × Bytes) : (lineDelimsOf d kl).getLast?.getD 0 = kl.1 + kl.2.length := by
  unfold lineDelimsOf
  rw [delimsFrom_line_last]
  simp

/-- the entry starts computed from the previous line's newline are the line starts -/
theorem prevs_spec (d : Nat) (ls : List Bytes) (k : Nat) :
    k :: ((lineStarts k ls).map (fun kl => (lineDelimsOf d kl).getLast?.getD 0 + 1)).dropLast
      = if ls = [] then [k] else (lineStarts k ls).map (·.1) := by
  induction ls generalizing k with
  | nil => simp [lineStarts]
  | cons l rest ih =>
    simp only [lineStarts, List.map_cons, lineDelimsOf_last]
    cases rest with
    | nil => simp [lineStarts]
    | cons l2 rest2 =>
      have := ih (k + l.length + 1)
      simp only [List.cons_ne_nil, if_false] at this ⊢
      simp only [lineStarts, List.map_cons, lineDelimsOf_last] at this ⊢
      rw [List.dropLast_cons_cons]
      simp only [List.cons.injEq, true_and]
      exact (List.cons.inj this).2

theorem zip_map_map {α β γ} (f : α → β) (g : α → γ) (l : List α) :
    List.zip (l.map f) (l.map g) = l.map (fun a => (f a, g a)) := by
  induction l with
  | nil => rfl
  | cons x xs ih => simp [ih]

/-- **sam_rows_spec.** For every LF SAM buffer with at least one line, every line having at least `k ≥ 1` fields
(k = 11): the per-line (start, end) tables built from the ragged delimiter array denote, line by line, the first
`k` fields and — as the optional-fields column — the remaining fields joined by TAB (empty when there are none). -/
theorem sam_rows_spec (d : Nat) (hd : d ≠ 10) (bs : Bytes) (k : Nat) (hk1 : 1 ≤ k)
    (hne : linesOf bs ≠ [])
    (hk : ∀ l ∈ linesOf bs, k ≤ (splitOn d l).length)
    (hnocr : ∀ l ∈ linesOf bs, l.getLast? ≠ some 13) :
    ∃ rows, samRows d k bs = .ok rows ∧
      rows.map (fun r => (r.1.map (fun p => slice (complete bs) p.1 p.2), slice (complete bs) r.2.1 r.2.2))
        = (linesOf bs).map (fun l => ((splitOn d l).take k, joinWith d ((splitOn d l).drop k))) := by
  have hcomp := complete_eq bs
  obtain ⟨ls, hls⟩ : ∃ ls, ls = linesOf bs := ⟨_, rfl⟩
  rw [← hls] at hne hk hnocr hcomp ⊢
  have hfree : ∀ l ∈ ls, 10 ∉ l := by rw [hls]; exact linesOf_free bs
  obtain ⟨l0, lrest, hl0⟩ : ∃ l0 lrest, ls = l0 :: lrest := by
    cases h : ls with
    | nil => exact absurd h hne
    | cons a b => exact ⟨a, b, rfl⟩
  have hdata_ne : complete bs ≠ [] := by rw [hcomp, hl0]; simp [unlines]
  have hld := lineDelims_spec d ls hfree
  -- the CR flag is off: the first line does not end in CR
  have hcr : ((((lineStarts 0 ls).map (lineDelimsOf d)).head?.bind (·.getLast?)).getD 0 ≠ 0 &&
      decide ((unlines ls).getD ((((lineStarts 0 ls).map (lineDelimsOf d)).head?.bind (·.getLast?)).getD 0 - 1) 0 = 13)) = false := by
    have hfe : (((lineStarts 0 ls).map (lineDelimsOf d)).head?.bind (·.getLast?)).getD 0 = l0.length := by
      rw [hl0]
      simp only [lineStarts, List.map_cons, List.head?_cons, Option.bind_some]
      have := lineDelimsOf_last d (0, l0)
      simpa using this
    rw [hfe]
    by_cases h0 : l0.length = 0
    · simp [h0]
    · have hl0ne : l0 ≠ [] := by intro h; rw [h] at h0; simp at h0
      have hget : (unlines ls).getD (l0.length - 1) 0 = l0.getLast hl0ne := by
        rw [hl0, unlines_cons, List.append_assoc]
        simp only [List.getD_eq_getElem?_getD]
        rw [List.getElem?_append_left (by omega), List.getLast_eq_getElem, List.getElem?_eq_getElem (by omega)]
        rfl
      have : l0.getLast hl0ne ≠ 13 := by
        intro h13
        apply hnocr l0 (by rw [hl0]; simp)
        rw [List.getLast?_eq_some_getLast hl0ne, h13]
      have hne13 : (unlines ls).getD (l0.length - 1) 0 ≠ 13 := by rw [hget]; exact this
      rw [Bool.and_eq_false_iff]
      right
      exact decide_eq_false hne13
  have hprevs := prevs_spec d ls 0
  rw [if_neg hne] at hprevs
  have hzip : List.zip (0 :: (((lineStarts 0 ls).map (lineDelimsOf d)).map (fun r => r.getLast?.getD 0 + 1)).dropLast)
      ((lineStarts 0 ls).map (lineDelimsOf d)) = (lineStarts 0 ls).map (fun kl => (kl.1, lineDelimsOf d kl)) := by
    rw [List.map_map]
    have : ((fun r : List Nat => r.getLast?.getD 0 + 1) ∘ lineDelimsOf d) = (fun kl => (lineDelimsOf d kl).getLast?.getD 0 + 1) := rfl
    rw [this, hprevs, zip_map_map]
  have hlens : ((lineStarts 0 ls).map (lineDelimsOf d)).any (fun r => decide (r.length < k)) = false := by
    rw [List.any_eq_false]
    intro r hr
    simp only [List.mem_map] at hr
    obtain ⟨⟨k0, l⟩, hkl, rfl⟩ := hr
    have hlmem : l ∈ ls := by
      have := List.mem_map_of_mem (f := (·.2)) hkl
      rw [lineStarts_map_snd] at this; exact this
    have hj := joinWith_splitOn d l
    have hcnt := count_joinWith d (splitOn d l) (splitOn_ne_nil d l) (fun p hp => (splitOn_pieces d l p hp).1)
    rw [hj] at hcnt
    rw [lineDelimsOf_length d k0 l (hfree l hlmem), hcnt]
    have := hk l hlmem
    simp; omega
  refine ⟨(lineStarts 0 ls).map (fun kl => samRow (unlines ls) false k kl.1 (lineDelimsOf d kl)), ?_, ?_⟩
  · unfold samRows
    simp only [hdata_ne, if_false]
    rw [hcomp, hld]
    simp only [hcr, hlens, Bool.false_eq_true, if_false]
    rw [hzip, List.map_map]
    rfl
  · rw [hcomp, List.map_map]
    conv => rhs; rw [← lineStarts_map_snd 0 ls, List.map_map]
    apply List.map_congr_left
    intro kl hkl
    obtain ⟨k0, l⟩ := kl
    obtain ⟨before, after, hsplit, hk0⟩ := lineStarts_mem 0 ls k0 l hkl
    simp only [Nat.zero_add] at hk0
    have hlmem : l ∈ ls := by rw [hsplit]; simp
    have hdata : unlines ls = unlines before ++ (l ++ [10]) ++ unlines after := by
      rw [hsplit, unlines_append, unlines_cons]; simp
    have hnc : (unlines before ++ l).getLast? ≠ some 13 := by
      by_cases hle : l = []
      · subst hle
        rw [List.append_nil]
        by_cases hb : before = []
        · subst hb; simp [unlines]
        · obtain ⟨tl, htl⟩ := unlines_reverse_head before hb
          have : (unlines before).getLast? = some 10 := by
            rw [← List.head?_reverse, htl]; rfl
          rw [this]; simp
      · rw [List.getLast?_append]
        cases hgl : l.getLast? with
        | none => exact absurd (List.getLast?_eq_none_iff.mp hgl) hle
        | some x =>
          simp only [Option.some_or]
          rw [← hgl]; exact hnocr l hlmem
    have := sam_extra d hd (unlines before) l (unlines after) (hfree l hlmem) k hk1 (hk l hlmem) hnc
    simp only [Function.comp, lineDelimsOf]
    rw [hdata, hk0]
    exact Prod.ext this.1 this.2

/-! ### VCF INFO lookup and genotype triplets -/

/-- **info_subfields_spec.** Splitting the flat INFO text once at every `;` / row end and regrouping per row gives,
for every row, exactly `splitOn ';'` of that row's own INFO text. -/
theorem info_subfields_spec (rows : List Bytes) : infoSubfields rows = rows.map (splitOn 59) := by
  unfold infoSubfields
  simp only
  rw [pieces_texts]
  have hc : (rows.map (· ++ [59])).map (·.count 59) = (rows.map (splitOn 59)).map List.length := by
    simp only [List.map_map]
    apply List.map_congr_left
    intro r _
    exact count_sep 59 r
  rw [hc, unflatten_flatten]

/-- **info_lookup_partial.** The key lookup on a row's items: no item `key=…` → empty text (missing); exactly one
→ its value, verbatim; the typed reading of that value is `optIntColumn_spec` / `intListColumn_spec` /
`listColumn_spec`. Gap (corresponded only): how the header declaration selects the type, and the index
arithmetic that finds the items in the flat buffer (sorted merge, `searchsorted`, `maximum.accumulate`),
which is modelled at the level of per-row item lists. -/
theorem info_lookup_partial (name v : Bytes) (pre post : List Bytes)
    (hpre : ∀ f ∈ pre, isPrefix (name ++ [61]) f = false)
    (hpost : ∀ f ∈ post, isPrefix (name ++ [61]) f = false) :
    infoLookup name (pre ++ post) = some [] ∧
    infoLookup name (pre ++ (name ++ 61 :: v) :: post) = some v := by
  have h1 : pre.filter (isPrefix (name ++ [61])) = [] := List.filter_eq_nil_iff.mpr (fun f hf => by simp [hpre f hf])
  have h2 : post.filter (isPrefix (name ++ [61])) = [] := List.filter_eq_nil_iff.mpr (fun f hf => by simp [hpost f hf])
  have hself : isPrefix (name ++ [61]) (name ++ 61 :: v) = true := by
    unfold isPrefix
    have : name ++ 61 :: v = (name ++ [61]) ++ v := by simp
    rw [this, List.take_left]
    simp
  constructor
  · unfold infoLookup
    rw [List.filter_append, h1, h2]
    rfl
  · unfold infoLookup
    rw [List.filter_append, h1, List.filter_cons, hself, h2]
    simp only [if_true, List.nil_append]
    have : name ++ 61 :: v = (name ++ [61]) ++ v := by simp
    rw [this]
    have hl : name.length + 1 = (name ++ [61]).length := by simp
    rw [hl, List.drop_left]

/-- **genotype_triplets.** For every genotype `a sep b` with alleles 0 1 2 . and separators | / — all 32 —
decoding the int8 code the reader stores (36·a + 6·sep + b, wrapped) gives the three characters back, and distinct
genotypes get distinct codes. -/
theorem genotype_triplets :
    (gtAlleles.all (fun a => gtSeps.all (fun s => gtAlleles.all (fun b => gtDecode (gtEncode [a, s, b]) == [a, s, b])))) = true ∧
    ((gtAlleles.flatMap (fun a => gtSeps.flatMap (fun s => gtAlleles.map (fun b => gtEncode [a, s, b])))).Nodup) := by
  decide +kernel

/-! ### spec-level characterisations of the index-level vocabulary -/

/-- **delimsFrom_mem_iff.** The delimiter positions are exactly the positions (counted from `k`) whose byte is a
delimiter. -/
theorem delimsFrom_mem_iff (isD : Nat → Bool) (k : Nat) (bs : Bytes) (e : Nat) :
    e ∈ delimsFrom isD k bs ↔ k ≤ e ∧ e < k + bs.length ∧ isD (bs.getD (e - k) 0) = true := by
  induction bs generalizing k with
  | nil => simp [delimsFrom]; omega
  | cons b rest ih =>
    simp only [delimsFrom, List.length_cons]
    by_cases hek : e = k
    · subst hek
      have hnot : e ∉ delimsFrom isD (e + 1) rest := by
        intro h; have := (ih (e + 1)).mp h; omega
      by_cases hD : isD b = true
      · simp [hD]
      · simp [hD, hnot]
    · have hstep : (e ∈ delimsFrom isD (k + 1) rest) ↔ k ≤ e ∧ e < k + (rest.length + 1) ∧ isD ((b :: rest).getD (e - k) 0) = true := by
        rw [ih (k + 1)]
        constructor
        · rintro ⟨h1, h2, h3⟩
          refine ⟨by omega, by omega, ?_⟩
          have : e - k = (e - (k + 1)) + 1 := by omega
          rw [this, List.getD_cons_succ]; exact h3
        · rintro ⟨h1, h2, h3⟩
          have hk : k < e := by omega
          refine ⟨by omega, by omega, ?_⟩
          have : e - k = (e - (k + 1)) + 1 := by omega
          rw [this, List.getD_cons_succ] at h3; exact h3
      split
      · simp only [List.mem_cons, hek, false_or]; exact hstep
      · exact hstep

/-- **delimsFrom_sorted.** Delimiter positions come out strictly increasing. -/
theorem delimsFrom_sorted (isD : Nat → Bool) (k : Nat) (bs : Bytes) :
    List.Pairwise (· < ·) (delimsFrom isD k bs) := by
  induction bs generalizing k with
  | nil => simp [delimsFrom]
  | cons b rest ih =>
    simp only [delimsFrom]
    split
    · rw [List.pairwise_cons]
      refine ⟨fun e he => ?_, ih (k + 1)⟩
      have := (delimsFrom_mem_iff isD (k + 1) rest e).mp he
      omega
    · exact ih (k + 1)

/-- **splitOn_length.** A text with `c` separators has `c + 1` fields. -/
theorem splitOn_length (d : Nat) (l : Bytes) : (splitOn d l).length = l.count d + 1 := by
  have hj := joinWith_splitOn d l
  have := count_joinWith d (splitOn d l) (splitOn_ne_nil d l) (fun p hp => (splitOn_pieces d l p hp).1)
  rw [hj] at this
  omega

/-- **linesOf_length.** The number of complete lines is the number of newline bytes. -/
theorem linesOf_length (bs : Bytes) : (linesOf bs).length = bs.count 10 := by
  have h := splitOn_length 10 bs
  rw [splitOn_eq_lines_tail] at h
  simp at h
  omega

/-- **chunkF_flatten_take.** `reshape(k, n)` only rearranges: flattening the rows gives the first `n·k` elements back. -/
theorem chunkF_flatten_take {α} (n k : Nat) (xs : List α) : (chunkF n k xs).flatten = xs.take (n * k) := by
  induction k generalizing xs with
  | zero => simp [chunkF]
  | succ k ih =>
    simp only [chunkF, List.flatten_cons, ih]
    rw [Nat.mul_succ, Nat.add_comm (n * k) n, List.take_add]

/-- **fieldTable_ok_iff.** The offset table is built exactly for buffers with at least one complete line whose lines
all have as many fields as the first one; every other buffer is rejected. -/
theorem fieldTable_ok_iff (d : Nat) (hd : d ≠ 10) (bs : Bytes) :
    (∃ t, fieldTable d bs = .ok t) ↔
      linesOf bs ≠ [] ∧ ∀ l ∈ linesOf bs, (splitOn d l).length = (splitOn d ((linesOf bs).headD [])).length := by
  constructor
  · rintro ⟨t, ht⟩
    have hcomp := complete_eq bs
    have hfree := linesOf_free bs
    unfold fieldTable at ht
    simp only at ht
    split at ht
    · simp at ht
    · rename_i hne
      have hlne : linesOf bs ≠ [] := by
        intro h; apply hne; rw [hcomp, h]; rfl
      refine ⟨hlne, ?_⟩
      obtain ⟨l0, rest, hl⟩ : ∃ l0 rest, linesOf bs = l0 :: rest := by
        cases h : linesOf bs with
        | nil => exact absurd h hlne
        | cons a b => exact ⟨a, b, rfl⟩
      have hn : ((complete bs).takeWhile (fun b => b != 10)).count d + 1 = (splitOn d l0).length := by
        rw [hcomp, hl]
        have h1 : unlines (l0 :: rest) = l0 ++ 10 :: unlines rest := by simp [unlines]
        rw [h1, takeWhile_append_stop _ l0 10 _ _ (by simp), splitOn_length]
        intro x hx
        have : x ≠ 10 := fun h => hfree l0 (by rw [hl]; simp) (h ▸ hx)
        simp [this]
      split at ht
      · simp at ht
      · rename_i hfind
        rw [List.findIdx?_eq_none_iff] at hfind
        intro l hlmem
        rw [hl]; simp only [List.headD_cons]
        have hc := hfind (l.count d + 1) (by
          rw [hcomp, linesOf_unlines _ hfree]
          exact List.mem_map.mpr ⟨l, hlmem, rfl⟩)
        rw [splitOn_length, ← hn]
        simpa using hc
  · rintro ⟨hne, huni⟩
    obtain ⟨t, ht, _⟩ := fieldTable_spec d hd bs _ hne huni
    exact ⟨t, ht⟩

/-- **signedRow_eq_specInt.** On every non-empty text the code's per-row integer conversion and the standard
optionally-signed decimal reading agree completely: same value when the text is an integer, rejection otherwise
(a lone sign, a sign inside, any non-digit). -/
theorem signedRow_eq_specInt (t : Bytes) (hne : t ≠ []) : signedRow t = specInt t := by
  cases hs : specInt t with
  | some v => exact signedRow_spec t v hs
  | none =>
    -- specInt rejects: show signedRow rejects too
    match t, hne, hs with
    | c :: r, _, hs =>
      unfold signedRow
      by_cases hsign : c = 45 ∨ c = 43
      · have hnat : specNat r = none := by
          unfold specInt at hs
          rcases hsign with h | h <;> subst h <;> (cases hn : specNat r <;> simp [hn] at hs ⊢)
        have hr : r = [] ∨ r.all isDigit = false := by
          unfold specNat at hnat
          by_cases h0 : r = []
          · exact Or.inl h0
          · right
            by_cases hall : r.all isDigit = true
            · simp [h0, hall] at hnat
            · simpa using hall
        rcases hr with hr | hr
        · subst hr
          rcases hsign with h | h <;> subst h <;> simp
        · cases r with
          | nil => simp at hr
          | cons x xs =>
            have hb : ((48 :: x :: xs).all isDigit) = false := by
              rw [List.all_cons, hr]; simp
            rcases hsign with h | h <;> subst h <;> simp [hb]
      · have h45 : c ≠ 45 := fun h => hsign (Or.inl h)
        have h43 : c ≠ 43 := fun h => hsign (Or.inr h)
        have hu := specInt_unsigned (c :: r) (by simp [h45]) (by simp [h43])
        rw [hu] at hs
        have hnat : specNat (c :: r) = none := by
          cases hn : specNat (c :: r) <;> simp [hn] at hs ⊢
        have hall : (c :: r).all isDigit = false := by
          unfold specNat at hnat
          by_cases hall : (c :: r).all isDigit = true
          · simp [hall] at hnat
          · simpa using hall
        have hns : (decide (List.head? (c :: r) = some 45) || decide (List.head? (c :: r) = some 43)) = false := by
          simp [h45, h43]
        simp only [hns, Bool.false_and, Bool.false_eq_true, if_false, hall]

/-- the one text on which they differ: an EMPTY integer field is read as 0 by the code (no digit to reject) while
it is not an integer — rejecting it is the business of the malformed-input property (C15) -/
theorem signedRow_empty : signedRow [] = some 0 ∧ specInt [] = none := by decide

/-- **infoLookup_none_iff.** The INFO key lookup fails (FormatException "found multiple times") exactly when at
least two items of the row start with `key=`. -/
theorem infoLookup_none_iff (name : Bytes) (subs : List Bytes) :
    infoLookup name subs = none ↔ 2 ≤ (subs.filter (isPrefix (name ++ [61]))).length := by
  unfold infoLookup
  cases h : subs.filter (isPrefix (name ++ [61])) with
  | nil => simp
  | cons a rest =>
    cases rest with
    | nil => simp
    | cons b rest' => simp

/-- (unfolds the definition; a lemma, not a counted obligation) the flag is True iff an item IS the name -/
theorem infoFlag_iff (name : Bytes) (subs : List Bytes) : infoFlag name subs = true ↔ name ∈ subs := by
  simp [infoFlag]

/-- an item that continues the name (`DBX`, `DBX=1`, `DBSNP=b151` for `DB`) is not the name, and it is an item
`name=…` only if the continuation starts with `=` -/
theorem info_longer_item (name ext : Bytes) (hext : ext ≠ []) :
    name ++ ext ≠ name ∧ (isPrefix (name ++ [61]) (name ++ ext) = true ↔ ext.head? = some 61) := by
  constructor
  · intro h
    have := congrArg List.length h
    simp at this
    exact hext this
  · cases ext with
    | nil => exact absurd rfl hext
    | cons c r =>
      unfold isPrefix
      have : (name ++ c :: r).take (name ++ [61]).length = name ++ [c] := by
        rw [List.take_append, List.take_of_length_le (by simp)]
        simp
      rw [this]
      simp

/-- a RELATIVE of the key `name`: an item that starts with the name and goes on, but not with `=` — another flag
`DBX`, another key `DBSNP=b151`, for `DB`; neither `DB` itself nor `DB=…` -/
def infoRelative (name f : Bytes) : Bool :=
  isPrefix name f && decide (name.length < f.length) && !(isPrefix (name ++ [61]) f)

/-- the decidable test says what the comment says -/
theorem infoRelative_iff (name f : Bytes) :
    infoRelative name f = true ↔ ∃ ext, f = name ++ ext ∧ ext ≠ [] ∧ ext.head? ≠ some 61 := by
  constructor
  · intro h
    simp only [infoRelative, Bool.and_eq_true, decide_eq_true_eq, Bool.not_eq_true'] at h
    obtain ⟨⟨hp, hl⟩, hn⟩ := h
    have hf : f = name ++ f.drop name.length := by
      have : f.take name.length = name := by simpa [isPrefix] using hp
      conv => lhs; rw [← List.take_append_drop name.length f, this]
    have hne : f.drop name.length ≠ [] := by
      intro h0
      have := congrArg List.length h0
      simp at this
      omega
    refine ⟨f.drop name.length, hf, hne, ?_⟩
    intro hh
    have := (info_longer_item name _ hne).2.mpr hh
    rw [← hf, hn] at this
    exact Bool.false_ne_true this
  · rintro ⟨ext, rfl, hne, hh⟩
    simp only [infoRelative, Bool.and_eq_true, decide_eq_true_eq, Bool.not_eq_true']
    refine ⟨⟨?_, ?_⟩, ?_⟩
    · simp [isPrefix]
    · have : 0 < ext.length := List.length_pos_iff.mpr hne
      simp; omega
    · cases hp : isPrefix (name ++ [61]) (name ++ ext) with
      | false => rfl
      | true => exact absurd ((info_longer_item name ext hne).2.mp hp) hh

/-- **infoFlag_only_name.** The flag of a key depends on nothing but the items that ARE the name: removing (or, read
from right to left, adding) any items other than the name — whatever they look like — leaves it unchanged. -/
theorem infoFlag_only_name (name : Bytes) (p : Bytes → Bool) (hp : p name = true) (subs : List Bytes) :
    infoFlag name (subs.filter p) = infoFlag name subs := by
  rw [Bool.eq_iff_iff, infoFlag_iff, infoFlag_iff, List.mem_filter]
  exact ⟨fun h => h.1, fun h => ⟨h, hp⟩⟩

/-- **info_relatives_irrelevant.** Keys are compared by their whole name: in ANY row — relatives mixed with other
items in any order, e.g. `AF=0.5;DBX;DB=3;DBSNP=b1` — taking the relatives of a key out changes neither the key's
value lookup (missing / value / "found twice") nor its flag. -/
theorem info_relatives_irrelevant (name : Bytes) (subs : List Bytes) :
    infoLookup name subs = infoLookup name (subs.filter (fun f => !infoRelative name f)) ∧
    infoFlag name subs = infoFlag name (subs.filter (fun f => !infoRelative name f)) := by
  constructor
  · unfold infoLookup
    rw [List.filter_filter]
    have : subs.filter (isPrefix (name ++ [61])) =
        subs.filter (fun a => isPrefix (name ++ [61]) a && !infoRelative name a) := by
      apply List.filter_congr
      intro f _
      cases hp : isPrefix (name ++ [61]) f <;> simp [infoRelative, hp]
    rw [this]
  · refine (infoFlag_only_name name _ ?_ subs).symm
    simp [infoRelative]

/-- **info_key_family.** The corollary for a row ALL of whose items are relatives of the key (other flags `DBX`,
other keys `DBSNP=…`): it reads as "key absent" — the flag is False and the lookup gives the empty (missing) text. -/
theorem info_key_family (name : Bytes) (subs : List Bytes)
    (h : ∀ f ∈ subs, ∃ ext, f = name ++ ext ∧ ext ≠ [] ∧ ext.head? ≠ some 61) :
    infoFlag name subs = false ∧ infoLookup name subs = some [] := by
  have hnil : subs.filter (fun f => !infoRelative name f) = [] := by
    apply List.filter_eq_nil_iff.mpr
    intro f hf
    simp [(infoRelative_iff name f).mpr (h f hf)]
  obtain ⟨h1, h2⟩ := info_relatives_irrelevant name subs
  rw [h1, h2, hnil]
  exact ⟨rfl, rfl⟩

-- key DB, row "AF=0.5;DBX;DB=3;DBSNP=b1": two relatives among other items; without them "AF=0.5;DB=3"
example : [[65,70,61,48,46,53], [68,66,88], [68,66,61,51], [68,66,83,78,80,61,98,49]].filter (fun f => !infoRelative [68,66] f)
    = [[65,70,61,48,46,53], [68,66,61,51]] := by decide
example : infoLookup [68,66] [[65,70,61,48,46,53], [68,66,88], [68,66,61,51], [68,66,83,78,80,61,98,49]] = some [51] := by decide
-- flag DB, row "DBX;DBSNP=b1": relatives only
example : ∀ f ∈ [[68,66,88], [68,66,83,78,80,61,98,49]], ∃ ext, f = [68,66] ++ ext ∧ ext ≠ [] ∧ ext.head? ≠ some 61 := by
  intro f hf
  simp at hf
  rcases hf with rfl | rfl
  · exact ⟨[88], by decide, by decide, by decide⟩
  · exact ⟨[83,78,80,61,98,49], by decide, by decide, by decide⟩
example : infoFlag [68,66] [[68,66,88], [68,66,83,78,80,61,98,49], [68,66]] = true := by decide

/-! ### non-vacuity -/

-- "c\t1\t22\nxy\t333\t4\n" : two lines, three fields each
example : linesOf [99,9,49,9,50,50,10,120,121,9,51,51,51,9,52,10] ≠ [] := by decide
example : ∀ l ∈ linesOf [99,9,49,9,50,50,10,120,121,9,51,51,51,9,52,10], (splitOn 9 l).length = 3 := by decide
example : (match fieldTable 9 [99,9,49,9,50,50,10,120,121,9,51,51,51,9,52,10] with
    | .ok t => tableFields [99,9,49,9,50,50,10,120,121,9,51,51,51,9,52,10] t
    | .error _ => []) = [[[99],[49],[50,50]], [[120,121],[51,51,51],[52]]] := by decide
-- digit matrix on fields "1", "333" of unequal width
example : (match digitMatrixValues [49,9,51,51,51,10] [(0,1),(2,5)] with | .ok v => v | _ => []) = [1, 333] := by decide
example : (match intColumn [45,53,9,51,51,10] [(0,2),(3,5)] with | .ok v => v | _ => []) = [-5, 33] := by decide
example : specIntList [49,48,44,50,48,44] = some [10, 20] := by decide
example : omap specIntList [[49,48,44,50,48,44], [55,44]] = some [[10,20],[7]] := by decide
example : specInt [45,53] = some (-5) := by decide
-- "@r\nAC\n+\nII\n": one FASTQ record
example : (linesOf [64,114,10,65,67,10,43,10,73,73,10]).length % 4 = 0 ∧ 4 ≤ (linesOf [64,114,10,65,67,10,43,10,73,73,10]).length := by decide

-- parse_delimited: the hypotheses hold for BED3 on "c\t1\t22\nxy\t333\t4\n"
example : Gen.C02.bed3.cols.map (·.2) = ["id", "int", "int"].map normKind := by decide
example : ∀ l ∈ specLines [99,9,49,9,50,50,10,120,121,9,51,51,51,9,52,10], (splitOn 9 l).length = 3 := by decide
example : specColumnsFrom ((specLines [99,9,49,9,50,50,10,120,121,9,51,51,51,9,52,10]).map (splitOn 9)) 0 ["id", "int", "int"]
    = some [Col.strs [[99], [120, 121]], Col.ints [1, 333], Col.ints [22, 4]] := by decide
-- and on the CRLF variant "c\t1\r\nd\t22\r\n" of chrom.sizes
example : (∀ l ∈ linesOf [99,9,49,13,10,100,9,50,50,13,10], l.getLast? = some 13) ∧
    specColumnsFrom ((specLines [99,9,49,13,10,100,9,50,50,13,10]).map (splitOn 9)) 0 ["str", "int"]
      = some [Col.strs [[99], [100]], Col.ints [1, 22]] := by decide

-- sam_extra: "a\tb\tc" has 3 ≥ k = 2 fields and no newline
example : 10 ∉ [97, 9, 98, 9, 99] ∧ 2 ≤ (splitOn 9 [97, 9, 98, 9, 99]).length := by decide
example : infoLookup [68, 80] [[68, 66], [68, 80, 61, 53], [65, 70, 61, 49]] = some [53] := by decide

-- fasta_wrapped_join: records a:[AC,G], b:[] (no sequence line), c:[T]
example : fastaGroup 62 (fastaSer 62 [([97], [[65, 67], [71]]), ([98], []), ([99], [[84]])])
    = ([[97], [98], [99]], [[65, 67, 71], [], [84]]) := by decide

-- commentTable_spec: "a\tb\n#x\ty\nc\td\n" has two data lines of 2 fields and a comment with a TAB
example : dataLines 35 (linesOf [97,9,98,10,35,120,9,121,10,99,9,100,10]) ≠ [] ∧
    ∀ l ∈ dataLines 35 (linesOf [97,9,98,10,35,120,9,121,10,99,9,100,10]), (splitOn 9 l).length = 2 := by decide

-- sam_rows_spec: "a\tb\tc\nd\te\n" with k = 2
example : linesOf [97,9,98,9,99,10,100,9,101,10] ≠ [] ∧ (∀ l ∈ linesOf [97,9,98,9,99,10,100,9,101,10], 2 ≤ (splitOn 9 l).length) ∧
    (∀ l ∈ linesOf [97,9,98,9,99,10,100,9,101,10], l.getLast? ≠ some 13) := by decide

-- fieldTable_ok_iff / signedRow_eq_specInt: a ragged file is rejected, a lone sign is rejected by both readings
example : (match fieldTable 9 [97, 9, 98, 10, 99, 10] with | .error (.format 1) => true | _ => false) = true := by decide
example : signedRow [45] = none ∧ specInt [45] = none ∧ signedRow [45, 55] = some (-7) := by decide

-- kline_roles_any: five lines, k = 2 (one left-over line); parse_delimited: CRLF text whose last line has no CR
example : 2 ≤ (linesOf [62,97,10,65,10,62,98,10,67,10,62,99,10]).length := by decide
example : crlfText (linesOf [99,9,49,13,10,100,9,50,50,10]) = true := by decide


/-! ### round 4: GTF attribute scan, digit-matrix acceptance -/

theorem gtfScan_cons (key : Bytes) (fuel : Nat) (prev : Bool) (b : Nat) (t : Bytes) :
    gtfScan key (fuel + 1) prev (b :: t) =
      (if !prev && (b :: t).take (key ++ [32, 34]).length == key ++ [32, 34] then
        (if (((b :: t).drop (key ++ [32, 34]).length).takeWhile (· != 34)).length < ((b :: t).drop (key ++ [32, 34]).length).length then
          (((b :: t).drop (key ++ [32, 34]).length).takeWhile (· != 34)) ::
            gtfScan key fuel false (((b :: t).drop (key ++ [32, 34]).length).drop
              ((((b :: t).drop (key ++ [32, 34]).length).takeWhile (· != 34)).length + 1))
        else gtfScan key fuel (isWordByte b) t)
      else gtfScan key fuel (isWordByte b) t) := by
  rw [gtfScan]

/-- **gtfScan_value.** At a position where `key "` starts a word and the value is closed by a quote, the scan
yields that value (up to the first closing quote) and goes on right after the quote. -/
theorem gtfScan_value (key v rest : Bytes) (fuel : Nat) (hv : 34 ∉ v) (hk : key ≠ []) :
    gtfScan key (fuel + 1) false (key ++ [32, 34] ++ v ++ 34 :: rest) = v :: gtfScan key fuel false rest := by
  obtain ⟨b, t, hbt⟩ : ∃ b t, key ++ [32, 34] ++ v ++ 34 :: rest = b :: t := by
    cases key with
    | nil => exact absurd rfl hk
    | cons x xs => exact ⟨x, _, rfl⟩
  rw [hbt, gtfScan_cons, ← hbt]
  have hpat : (key ++ [32, 34] ++ v ++ 34 :: rest).take (key ++ [32, 34]).length = key ++ [32, 34] := by
    rw [List.append_assoc, List.take_left]
  have hdrop : (key ++ [32, 34] ++ v ++ 34 :: rest).drop (key ++ [32, 34]).length = v ++ 34 :: rest := by
    rw [List.append_assoc, List.drop_left]
  have htw : (v ++ 34 :: rest).takeWhile (· != 34) = v := by
    apply takeWhile_append_stop
    · intro x hx
      have : x ≠ 34 := fun h => hv (h ▸ hx)
      simp [this]
    · simp
  have hlt : v.length < (v ++ 34 :: rest).length := by
    rw [List.length_append, List.length_cons]; omega
  have hdrop2 : (v ++ 34 :: rest).drop (v.length + 1) = rest := by
    have : v ++ 34 :: rest = (v ++ [34]) ++ rest := by simp
    rw [this]
    have hl : v.length + 1 = (v ++ [34]).length := by simp
    rw [hl, List.drop_left]
  rw [hpat, hdrop, htw]
  simp only [Bool.not_false, Bool.true_and, beq_self_eq_true, if_true, hlt, hdrop2]

/-- **gtfScan_skip.** Where the pattern does not start (or the previous byte is a word character: the key would
only be the tail of a longer key), the scan moves on by one byte. -/
theorem gtfScan_skip (key : Bytes) (fuel : Nat) (prev : Bool) (b : Nat) (t : Bytes)
    (h : prev = true ∨ (b :: t).take (key ++ [32, 34]).length ≠ key ++ [32, 34]) :
    gtfScan key (fuel + 1) prev (b :: t) = gtfScan key fuel (isWordByte b) t := by
  rw [gtfScan_cons]
  rcases h with h | h
  · simp [h]
  · have : ((b :: t).take (key ++ [32, 34]).length == key ++ [32, 34]) = false := by simpa using h
    rw [this, Bool.and_false]
    rfl

/-- the repaired rule on the text `ref_gene_id "R"; gene_id "G";`: only the attribute whose key is `gene_id` -/
theorem gtfKeySuffix_example :
    gtfAttr [103,101,110,101,95,105,100]
      [[114,101,102,95,103,101,110,101,95,105,100,32,34,82,34,59,32,103,101,110,101,95,105,100,32,34,71,34,59]]
      = [[71]] := by decide

/-- **digitMatrixValues_ok_iff.** The digit-matrix path accepts a column exactly when every field consists of
digits only (for fields inside the buffer); otherwise it reports a format error. -/
theorem digitMatrixValues_ok_iff (data : Bytes) (fs : List (Nat × Nat))
    (hwf : ∀ p ∈ fs, p.1 ≤ p.2 ∧ p.2 ≤ data.length) :
    (∃ vs, digitMatrixValues data fs = .ok vs) ↔ ∀ p ∈ fs, (slice data p.1 p.2).all isDigit = true := by
  constructor
  · rintro ⟨vs, hvs⟩ p hp
    unfold digitMatrixValues at hvs
    simp only at hvs
    split at hvs
    · simp at hvs
    · rename_i hbad
      unfold firstBadRow at hbad
      simp only at hbad
      split at hbad
      · simp at hbad
      · rename_i hge
        have hlen : (digitMatrix data fs).findIdx (fun r => !r.all isDigit) = (digitMatrix data fs).length := by
          have := List.findIdx_le_length (p := fun r : Bytes => !r.all isDigit) (xs := digitMatrix data fs)
          omega
        have hall := List.findIdx_eq_length.mp hlen
        have hrow := hall (digitRow data (maxWidth fs) p) (by
          unfold digitMatrix; exact List.mem_map.mpr ⟨p, hp, rfl⟩)
        have hrow' : (digitRow data (maxWidth fs) p).all isDigit = true := by simpa using hrow
        rw [digitRow_eq data _ p (hwf p hp) (le_maxWidth fs p hp), List.all_append] at hrow'
        simp only [Bool.and_eq_true] at hrow'
        exact hrow'.2
  · intro h
    exact ⟨_, digitMatrix_value data fs hwf h⟩


/-- the attribute scan before repair d6d4b59: `key "` is matched anywhere, also at the end of a longer key -/
def gtfScanOld (key : Bytes) : Nat → Bytes → List Bytes
  | 0, _ => []
  | _, [] => []
  | fuel + 1, b :: t =>
    let pat := key ++ [32, 34]
    if (b :: t).take pat.length == pat then
      let rest := (b :: t).drop pat.length
      let v := rest.takeWhile (· != 34)
      if v.length < rest.length then v :: gtfScanOld key fuel (rest.drop (v.length + 1))
      else gtfScanOld key fuel t
    else gtfScanOld key fuel t

/-- **gtfKeyOld_unsound.** On `ref_gene_id "R"; gene_id "G";` the old scan reports two `gene_id` values, the first
of which belongs to `ref_gene_id`; the repaired scan (`gtfKeySuffix_example`) reports `G` only. -/
theorem gtfKeyOld_unsound :
    gtfScanOld [103,101,110,101,95,105,100] 30
      [114,101,102,95,103,101,110,101,95,105,100,32,34,82,34,59,32,103,101,110,101,95,105,100,32,34,71,34,59]
      = [[82], [71]] := by decide

-- gtfScan_value: key `a`, value `x`, nothing after; gtfScan_skip: previous byte is a word byte;
-- digitMatrixValues_ok_iff: one two-digit field
example : gtfScan [97] 1 false ([97] ++ [32, 34] ++ [120] ++ 34 :: []) = [120] :: gtfScan [97] 0 false [] :=
  gtfScan_value [97] [120] [] 0 (by decide) (by decide)
example : gtfScan [97] 5 true [97, 32, 34, 120, 34] = gtfScan [97] 4 (isWordByte 97) [32, 34, 120, 34] :=
  gtfScan_skip [97] 4 true 97 _ (Or.inl rfl)
example : ∃ vs, digitMatrixValues [52, 50, 9] [(0, 2)] = .ok vs :=
  (digitMatrixValues_ok_iff [52, 50, 9] [(0, 2)] (by decide)).mpr (by decide)


/-! ### review round: coordinate shift touches one column; genotype matrix reader tabulated from the package -/


theorem shiftCol_length (j : Nat) (d : Int) (cols : List Col) : (shiftCol j d cols).length = cols.length := by
  simp [shiftCol]

/-- **shiftCol_others.** The coordinate shift touches column `j` only: every other column of the parse — and column
`j` itself when it does not hold integers — is handed through unchanged. -/
theorem shiftCol_others (j : Nat) (d : Int) (cols : List Col) (i : Nat)
    (h : i ≠ j ∨ ∀ v, cols[i]? ≠ some (Col.ints v)) : (shiftCol j d cols)[i]? = cols[i]? := by
  unfold shiftCol
  rw [List.getElem?_map]
  rcases Nat.lt_or_ge i cols.length with hi | hi
  · rw [List.getElem?_eq_getElem (by simp; exact hi), List.getElem?_eq_getElem hi]
    simp only [List.getElem_zip, List.getElem_range, Option.map_some, Option.some.injEq]
    cases hc : cols[i] with
    | ints v =>
      rcases h with h | h
      · simp [h]
      · exact absurd (by rw [List.getElem?_eq_getElem hi, hc]) (h v)
    | _ => rfl
  · rw [List.getElem?_eq_none (by simp; exact hi), List.getElem?_eq_none hi]; rfl

example : (shiftCol 1 (-1) [Col.strs [[99]], Col.ints [7], Col.ints [9]])[2]? = some (Col.ints [9]) := by decide



set_option maxRecDepth 200000 in
/-- **gen_genotype_table.** On every three-byte sample field over 0 1 2 3 . | / A (512 fields, re-measured on the
running package every run) the model agrees with the genotype-matrix reader: the field is rejected exactly when
`gtOK` says so, and otherwise the reader shows the model's decode ∘ encode. -/
theorem gen_genotype_table :
    Gen.C02.gtTable.all (fun e => (if gtOK "VCFMatrixBuffer" e.1 then gtDecode (gtEncode e.1) else []) == e.2) = true := by
  decide

set_option maxRecDepth 200000 in
/-- of those 512 fields the reader accepts exactly the 32 genotypes `a sep b` with alleles 0 1 2 . — and shows each
of them unchanged -/
theorem gen_genotype_accepted :
    (Gen.C02.gtTable.filter (fun e => e.2 != [])).map (·.1)
      = gtAlleles.flatMap (fun a => gtSeps.flatMap (fun s => gtAlleles.map (fun b => [a, s, b]))) ∧
    (Gen.C02.gtTable.filter (fun e => e.2 != [])).all (fun e => e.1 == e.2) = true := by decide

/-- **genotype_accept_iff.** The genotype-matrix reader accepts a sample field exactly when its first three bytes are
`allele sep allele` with alleles 0 1 2 . and separator | or / — for EVERY field, not only the tabulated ones; and
what it then shows is the field itself (`genotype_triplets`). An allele number above 2 is an EncodingError (before
repair 2e63fc1 it was shown as allele 0: `gtUnknownOld_unsound`). -/
theorem genotype_accept_iff (a s b : Nat) (rest : Bytes) :
    gtOK "VCFMatrixBuffer" (a :: s :: b :: rest) = true ↔ a ∈ gtAlleles ∧ s ∈ gtSeps ∧ b ∈ gtAlleles := by
  simp [gtOK, List.contains_iff_mem, and_assoc]

/-- every accepted field is shown unchanged -/
theorem genotype_accepted_id (a s b : Nat) (h : gtOK "VCFMatrixBuffer" [a, s, b] = true) :
    gtDecode (gtEncode [a, s, b]) = [a, s, b] := by
  obtain ⟨ha, hs, hb⟩ := (genotype_accept_iff a s b []).mp h
  simp only [gtAlleles, gtSeps, List.mem_cons, List.not_mem_nil, or_false] at ha hs hb
  rcases ha with rfl | rfl | rfl | rfl <;> rcases hs with rfl | rfl <;> rcases hb with rfl | rfl | rfl | rfl <;> decide

/-- the rule before the repair: no check — "3/1" went through the lookup as index 0 and was shown as "0/1" -/
theorem gtUnknownOld_unsound :
    gtDecode (gtEncode [51, 47, 49]) = [48, 47, 49] ∧ gtOK "VCFMatrixBuffer" [51, 47, 49] = false := by decide

example : gtOK "VCFMatrixBuffer" [49, 124, 46] = true := by decide


/-! ### whole-file parse of the plain delimited family = the documented reading (`parseFile` vs `specParse`) -/

theorem splitOn_unlines_tail (ls : List Bytes) (t : Bytes) (hfree : ∀ l ∈ ls, 10 ∉ l) (ht : 10 ∉ t) :
    splitOn 10 (unlines ls ++ t) = ls ++ [t] := by
  induction ls with
  | nil => simpa [unlines] using splitOn_free' 10 t ht
  | cons l rest ih =>
    have h1 : unlines (l :: rest) ++ t = l ++ 10 :: (unlines rest ++ t) := by simp [unlines]
    have hl : 10 ∉ l := hfree l (by simp)
    have key : ∀ (l : Bytes) (r : Bytes), 10 ∉ l → splitOn 10 (l ++ 10 :: r) = l :: splitOn 10 r := by
      intro l r hl
      induction l with
      | nil => simp [splitOn]
      | cons b bs ihb =>
        have hb : b ≠ 10 := fun h => hl (by simp [h])
        have hbs : 10 ∉ bs := fun h => hl (by simp [h])
        simp only [List.cons_append, splitOn, hb, if_false, ihb hbs, consHead]
    rw [h1, key l _ hl, ih (fun l' hl' => hfree l' (by simp [hl']))]
    simp

theorem linesOf_unlines_tail (ls : List Bytes) (t : Bytes) (hfree : ∀ l ∈ ls, 10 ∉ l) (ht : 10 ∉ t) :
    linesOf (unlines ls ++ t) = ls ∧ tailOf (unlines ls ++ t) = t := by
  unfold linesOf tailOf
  rw [splitOn_unlines_tail ls t hfree ht]
  simp

theorem unlines_getLast (ls : List Bytes) (h : ls ≠ []) : (unlines ls).getLast? = some 10 := by
  obtain ⟨init, l, rfl⟩ : ∃ init l, ls = init ++ [l] := ⟨ls.dropLast, ls.getLast h, (List.dropLast_concat_getLast h).symm⟩
  rw [unlines_snoc]
  simp

/-- the lines of a text whose last line may be unterminated: the complete lines, then the tail if there is one -/
theorem linesOf_ensureNl (bs : Bytes) :
    linesOf (ensureNl bs) = linesOf bs ++ (if tailOf bs = [] then [] else [tailOf bs]) := by
  have hdec := unlines_linesOf bs
  by_cases ht : tailOf bs = []
  · have hcond : bs = [] ∨ bs.getLast? = some 10 := by
      rw [ht, List.append_nil] at hdec
      by_cases hl : linesOf bs = []
      · left; rw [hdec, hl]; rfl
      · right; rw [hdec]; exact unlines_getLast _ hl
    unfold ensureNl
    rw [if_pos hcond, if_pos ht, List.append_nil]
  · have hne : bs ≠ [] := by
      intro h; rw [h] at ht; exact ht rfl
    have hlast : bs.getLast? ≠ some 10 := by
      intro h
      have : (tailOf bs).getLast? = some 10 := by
        rw [hdec, List.getLast?_append] at h
        cases hq : (tailOf bs).getLast? with
        | none => exact absurd (List.getLast?_eq_none_iff.mp hq) ht
        | some x => rw [hq] at h; simpa using h
      exact tailOf_free bs (List.mem_of_getLast? this)
    unfold ensureNl
    rw [if_neg (by intro h; rcases h with h | h; exact hne h; exact hlast h), if_neg ht]
    have : bs ++ [10] = unlines (linesOf bs ++ [tailOf bs]) ++ [] := by
      rw [unlines_snoc, List.append_nil]
      conv => lhs; rw [hdec]
    rw [this]
    exact (linesOf_unlines_tail _ [] (by
      intro l hl
      simp only [List.mem_append, List.mem_singleton] at hl
      rcases hl with hl | rfl
      · exact linesOf_free bs l hl
      · exact tailOf_free bs) (by simp)).1

theorem dropHeaderLines_snoc (c : Nat) (ls : List Bytes) (t : Bytes) (h : ¬(c ≠ 0 ∧ t.head? = some c)) :
    dropHeaderLines c (ls ++ [t]) = dropHeaderLines c ls ++ [t] := by
  induction ls with
  | nil => simp [dropHeaderLines, h]
  | cons l rest ih =>
    simp only [List.cons_append, dropHeaderLines]
    split
    · exact ih
    · rfl

theorem dropHeaderLines_free (c : Nat) (ls : List Bytes) (h : ∀ l ∈ ls, 10 ∉ l) : ∀ l ∈ dropHeaderLines c ls, 10 ∉ l := by
  induction ls with
  | nil => simp [dropHeaderLines]
  | cons l rest ih =>
    simp only [dropHeaderLines]
    split
    · exact ih (fun l' hl' => h l' (by simp [hl']))
    · exact h

/-- what `bnp.open` hands to the buffer (header lines read off, final newline supplied) has as its complete lines the
lines of the text without the leading comment lines -/
theorem linesOf_openInput (c : Nat) (bs0 : Bytes) (htail : ¬(c ≠ 0 ∧ (tailOf bs0).head? = some c)) :
    linesOf (ensureNl (dropHeader c bs0)) = dropHeaderLines c (linesOf (ensureNl bs0)) := by
  have hfree := dropHeaderLines_free c _ (linesOf_free bs0)
  obtain ⟨hl, ht⟩ := linesOf_unlines_tail (dropHeaderLines c (linesOf bs0)) (tailOf bs0) hfree (tailOf_free bs0)
  rw [linesOf_ensureNl, linesOf_ensureNl]
  unfold dropHeader
  rw [hl, ht]
  by_cases h0 : tailOf bs0 = []
  · simp [h0]
  · simp only [h0, if_false]
    exact (dropHeaderLines_snoc c _ _ htail).symm

theorem dropHeaderLines_suffix (c : Nat) (ls : List Bytes) : ∃ pre, ls = pre ++ dropHeaderLines c ls := by
  induction ls with
  | nil => exact ⟨[], rfl⟩
  | cons l rest ih =>
    simp only [dropHeaderLines]
    split
    · obtain ⟨pre, hpre⟩ := ih
      exact ⟨l :: pre, by rw [List.cons_append, ← hpre]⟩
    · exact ⟨[], rfl⟩

theorem stripCR_id (l : Bytes) (h : l.getLast? ≠ some 13) : stripCR l = l := by
  unfold stripCR; rw [if_neg h]

theorem head_stripCR (c : Nat) (hc : c ≠ 13) (l : Bytes) : ((stripCR l).head? = some c) ↔ (l.head? = some c) := by
  unfold stripCR
  split
  · rename_i h
    match l, h with
    | [x], h =>
      simp only [List.getLast?_singleton, Option.some.injEq] at h
      subst h
      simp [hc.symm]
    | x :: y :: rest, _ => simp [List.dropLast]
  · rfl

theorem dropHeaderLines_map_stripCR (c : Nat) (hc : c ≠ 13) (ls : List Bytes) :
    dropHeaderLines c (ls.map stripCR) = (dropHeaderLines c ls).map stripCR := by
  induction ls with
  | nil => rfl
  | cons l rest ih =>
    simp only [List.map_cons, dropHeaderLines]
    by_cases h : c ≠ 0 ∧ l.head? = some c
    · rw [if_pos h, if_pos ⟨h.1, (head_stripCR c hc l).mpr h.2⟩, ih]
    · rw [if_neg h, if_neg (fun h' => h ⟨h'.1, (head_stripCR c hc l).mp h'.2⟩)]
      rfl

/-- line-end style of the data lines of a text, given the style of the whole text -/
theorem style_of_suffix (L pre Dl : List Bytes) (hL : L = pre ++ Dl) (hne : Dl ≠ []) :
    (crlfText L = true → (crlfText Dl = true ∨ ∀ l ∈ Dl, l.getLast? ≠ some 13)) ∧
    (crlfText L = false → (∀ l ∈ L, 13 ∉ l) → crlfText Dl = false ∧ ∀ l ∈ Dl, l.getLast? ≠ some 13) := by
  constructor
  · intro h
    unfold crlfText at h
    simp only [Bool.and_eq_true, List.all_eq_true] at h
    have hall : ∀ l ∈ Dl.dropLast, (decide (l.getLast? = some 13)) = true := by
      intro l hl
      apply h.1
      rw [hL, List.dropLast_append_of_ne_nil hne]
      simp [hl]
    by_cases hany : Dl.any (fun l => l.getLast? = some 13) = true
    · left
      unfold crlfText
      simp only [Bool.and_eq_true, List.all_eq_true]
      exact ⟨hall, hany⟩
    · right
      intro l hl h13
      apply hany
      rw [List.any_eq_true]
      exact ⟨l, hl, by simpa using h13⟩
  · intro _ hno
    have hnone : ∀ l ∈ Dl, l.getLast? ≠ some 13 := by
      intro l hl h13
      exact hno l (by rw [hL]; simp [hl]) (List.mem_of_getLast? h13)
    refine ⟨?_, hnone⟩
    unfold crlfText
    rw [Bool.and_eq_false_iff]
    right
    rw [Bool.eq_false_iff]
    intro hany
    rw [List.any_eq_true] at hany
    obtain ⟨l, hl, h13⟩ := hany
    exact hnone l hl (by simpa using h13)

/-- **parseFile_delimited_spec.** The driver-level statement for the plain delimited family (BED3/6/12, bedGraph,
narrowPeak, chrom.sizes, GTF, pairs): for every text — read through `bnp.open` (leading comment lines skipped, final
newline supplied; an unterminated last line that is itself a comment excluded) or handed over as a raw buffer ending in
a newline —, LF or CRLF, and every row selection within the table: WHENEVER the documented reading `specParse` of the
text exists, the code's parse `parseFile` (header skip → offset table → CR rule → row selection → typed extraction)
returns exactly that table with the selected rows. `parseFile`, `specParse` and `resPick` are the functions the driver
replies with. -/
theorem parseFile_delimited_spec (fmt : String) (S : Schema) (D : DocFmt) (viaOpen : Bool) (bs0 : Bytes)
    (shift : Int) (sel : Option (List Nat))
    (hf1 : fmt ≠ "fasta") (hf2 : fmt ≠ "sam") (hf3 : fmt ≠ "vcf") (hf4 : fmt ≠ "gfa")
    (hk1 : ¬ S.linesPerEntry > 1) (hi1 : S.interiorComments = false) (hi2 : D.interior = false)
    (hdoc : docFormats.find? (·.1 == fmt) = some (fmt, D))
    (hk : S.cols.map (·.2) = (D.cols.map (·.2)).map normKind) (hd : S.delim = 9) (hc : S.comment = D.comment)
    (hc13 : D.comment ≠ 13)
    (htail : if viaOpen then ¬(D.comment ≠ 0 ∧ (tailOf bs0).head? = some D.comment) else tailOf bs0 = [])
    (r : Nat × List Col) (hspec : specParse fmt viaOpen bs0 = some r) (hsel : selOK sel r.1 = true) :
    parseFile fmt S viaOpen bs0 shift sel = .ok (resPick sel r) := by
  -- the model falls through to the plain delimited parser
  have hmodel : parseFile fmt S viaOpen bs0 shift sel
      = parseDelimited S (if viaOpen then ensureNl (dropHeader S.comment bs0) else bs0) sel := by
    unfold parseFile
    simp only [hf1, hf2, hf3, hf4, hk1, hi1, if_false, Bool.false_eq_true]
  rw [hmodel]
  -- the spec side
  simp only [specParse, hdoc] at hspec
  cases hrec : specRecords D viaOpen fmt bs0 with
  | none => rw [hrec] at hspec; simp at hspec
  | some recs =>
    rw [hrec] at hspec
    simp only at hspec
    split at hspec
    · simp at hspec
    · rename_i hrne
      cases hcols : specColumnsFrom recs 0 (D.cols.map (·.2)) with
      | none => rw [hcols] at hspec; simp at hspec
      | some cols =>
        rw [hcols] at hspec
        simp only [hf3, if_false, Option.some.injEq] at hspec
        subst hspec
        unfold specRecords at hrec
        simp only [hi2, hf2, hf3, hf4, if_false, Bool.false_eq_true] at hrec
        -- names for the pieces
        generalize hLdef : linesOf (ensureNl bs0) = L at hrec
        generalize hL'def : (if crlfText L = true then List.map stripCR L else L) = L' at hrec
        generalize hL''def : (if viaOpen = true then dropHeaderLines D.comment L' else L') = L'' at hrec
        split at hrec
        · simp at hrec
        · rename_i hno13
          split at hrec
          · rename_i hall
            simp only [Option.some.injEq] at hrec
            -- the complete lines of the model's input are the data lines of the text
            obtain ⟨Dl, hDl⟩ : ∃ Dl : List Bytes, Dl = (if viaOpen = true then dropHeaderLines D.comment L else L) := ⟨_, rfl⟩
            have hlines : linesOf (if viaOpen = true then ensureNl (dropHeader S.comment bs0) else bs0) = Dl := by
              rw [hDl]
              cases viaOpen with
              | true =>
                simp only [if_true] at htail ⊢
                rw [hc, linesOf_openInput D.comment bs0 htail, hLdef]
              | false =>
                simp only [Bool.false_eq_true, if_false] at htail ⊢
                rw [← hLdef, linesOf_ensureNl, htail]
                simp
            have hsuf : ∃ pre, L = pre ++ Dl := by
              rw [hDl]
              cases viaOpen with
              | true => exact dropHeaderLines_suffix D.comment L
              | false => exact ⟨[], rfl⟩
            obtain ⟨pre, hpre⟩ := hsuf
            -- the spec's lines in terms of the data lines
            have hspecLines : L'' = (if crlfText L = true then Dl.map stripCR else Dl) := by
              rw [← hL''def, ← hL'def, hDl]
              cases viaOpen with
              | true =>
                by_cases hcr : crlfText L = true
                · simp only [hcr, if_true]; exact dropHeaderLines_map_stripCR D.comment hc13 L
                · simp only [hcr, if_false, if_true]; rfl
              | false => simp only [Bool.false_eq_true, if_false]
            rw [hspecLines] at hrec hall
            have hDne : Dl ≠ [] := by
              intro h0
              apply hrne
              rw [← hrec, h0]
              split <;> rfl
            have hstyle := style_of_suffix L pre Dl hpre hDne
            -- line-end style of the data lines, and the lines as the format reads them
            have hfacts : ((∀ l ∈ Dl, l.getLast? ≠ some 13) ∨ crlfText Dl = true) ∧
                (if crlfText Dl = true then Dl.map stripCR else Dl) = (if crlfText L = true then Dl.map stripCR else Dl) := by
              by_cases hcr : crlfText L = true
              · rcases hstyle.1 hcr with h1 | h1
                · exact ⟨Or.inr h1, by simp [hcr, h1]⟩
                · refine ⟨Or.inl h1, ?_⟩
                  have hid : Dl.map stripCR = Dl := by
                    conv => rhs; rw [← List.map_id Dl]
                    exact List.map_congr_left (fun l hl => stripCR_id l (h1 l hl))
                  simp only [hcr, if_true, hid]
                  split <;> rfl
              · have hcrf : crlfText L = false := by simpa using hcr
                have hno : ∀ l ∈ L, 13 ∉ l := by
                  intro l hl h13
                  apply hno13
                  rw [← hL'def]
                  simp only [hcrf, Bool.false_eq_true, if_false, List.any_eq_true]
                  exact ⟨l, hl, by simpa using h13⟩
                obtain ⟨h1, h2⟩ := hstyle.2 hcrf hno
                exact ⟨Or.inl h2, by simp [hcrf, h1]⟩
            have hsl : specLines (if viaOpen = true then ensureNl (dropHeader S.comment bs0) else bs0)
                = (if crlfText L = true then Dl.map stripCR else Dl) := by
              unfold specLines
              simp only [hlines]
              exact hfacts.2
            have hlen2 : (linesOf (if viaOpen = true then ensureNl (dropHeader S.comment bs0) else bs0)).length = recs.length := by
              rw [hlines, ← hrec]
              split <;> simp
            have := parse_delimited S (D.cols.map (·.2)) _ hk (by rw [hd]; decide) (by rw [hd]; decide)
              (by rw [hlines]; exact hDne) (by rw [hlines]; exact hfacts.1)
              (by
                rw [hsl, hd]
                intro l hl
                rw [List.all_eq_true] at hall
                have := hall (splitOn 9 l) (List.mem_map.mpr ⟨l, hl, rfl⟩)
                simpa using this)
              cols (by rw [hsl, hd, hrec]; exact hcols) sel (by rw [hlen2]; exact hsel)
            rw [this, hlen2]
          · simp at hrec

/-- **parseFile_sel_out_of_range.** A row index outside the table is an error (IndexError), never a row left out. -/
theorem parseDelimited_sel_out_of_range (S : Schema) (bs : Bytes) (t : Table) (idx : List Nat)
    (ht : fieldTable S.delim bs = .ok t) (h : ∃ i ∈ idx, (crAdjustRows (complete bs) t.rows).length ≤ i) :
    parseDelimited S bs (some idx) = .error .shape := by
  have hsel : selOK (some idx) (crAdjustRows (complete bs) t.rows).length = false := by
    obtain ⟨i, hi, hle⟩ := h
    simp only [selOK]
    rw [Bool.eq_false_iff]
    intro hall
    have := (List.all_eq_true.mp hall) i hi
    simp at this
    omega
  unfold parseDelimited
  simp only [ht, hsel]
  rfl

/-- the hypotheses of `parseFile_delimited_spec` about the schema hold for every format of the plain delimited family,
with the schema regenerated from the running package and the documented format typed in `docFormats` -/
theorem gen_delimited_family :
    ["bed3", "bed6", "bed12", "bdg", "narrowpeak", "sizes", "gtf", "pairs"].all (fun fmt =>
      match Gen.C02.all.find? (·.1 == fmt), docFormats.find? (·.1 == fmt) with
      | some (_, S), some (f, D) =>
        f == fmt && !(S.linesPerEntry > 1) && !S.interiorComments && !D.interior &&
        S.cols.map (·.2) == (D.cols.map (·.2)).map normKind && S.delim == 9 && S.comment == D.comment && D.comment != 13
      | _, _ => false) = true := by decide

-- non-vacuity of `parseFile_delimited_spec`: a CRLF BED file with a header line, an unterminated last line, rows picked
-- in reverse order ("#h\r\nc\t1\t2\r\nd\t3\t44")
example :
    parseFile "bed3" Gen.C02.bed3 true [35,104,13,10, 99,9,49,9,50,13,10, 100,9,51,9,52,52] (-1) (some [1, 0])
      = .ok (resPick (some [1, 0]) (2, [Col.strs [[99], [100]], Col.ints [1, 3], Col.ints [2, 44]])) :=
  parseFile_delimited_spec "bed3" Gen.C02.bed3 ⟨bed3Doc, 35, false⟩ true _ (-1) (some [1, 0])
    (by decide) (by decide) (by decide) (by decide) (by decide) (by decide) rfl rfl (by decide) (by decide)
    (by decide) (by decide) (by decide) _ (by decide) (by decide)


/-! ### completeness of the strand column -/

theorem strandTexts_ok_iff (texts : List Bytes) (c : Col) :
    (if texts.any (fun t => t.length != 1) then (.error .other : Except Err Col) else
        match firstBadRow texts strandOK with
        | some i => .error (.format i)
        | none => .ok (Col.strs texts)) = .ok c ↔ specColumn "strand" texts = some c := by
  have hspec : specColumn "strand" texts =
      (if texts.all (fun t => t.length == 1 && t.all strandOK) then some (Col.strs texts) else none) := by
    simp [specColumn]
  rw [hspec]
  constructor
  · intro h'
    split at h'
    · simp at h'
    · rename_i hany
      split at h'
      · simp at h'
      · rename_i hbad
        simp only [Except.ok.injEq] at h'
        subst h'
        rw [if_pos]
        rw [List.all_eq_true]
        intro t ht
        have h1 : t.length = 1 := by
          apply Classical.byContradiction
          intro hne
          apply hany
          rw [List.any_eq_true]
          exact ⟨t, ht, by simpa using hne⟩
        have h2 : t.all strandOK = true := by
          unfold firstBadRow at hbad
          simp only at hbad
          split at hbad
          · simp at hbad
          · rename_i hge
            have hlen : texts.findIdx (fun r => !r.all strandOK) = texts.length := by
              have := List.findIdx_le_length (p := fun r : Bytes => !r.all strandOK) (xs := texts)
              omega
            have := (List.findIdx_eq_length.mp hlen) t ht
            simpa using this
        simp [h1, h2]
  · intro h
    split at h
    · rename_i hall
      simp only [Option.some.injEq] at h
      subst h
      have hlen1 : texts.any (fun t => t.length != 1) = false := by
        rw [Bool.eq_false_iff]
        intro hany
        obtain ⟨t, ht, hne⟩ := List.any_eq_true.mp hany
        have := (List.all_eq_true.mp hall) t ht
        simp only [Bool.and_eq_true] at this
        have h1' : t.length = 1 := by simpa using this.1
        simp [h1'] at hne
      have hbad : firstBadRow texts strandOK = none := by
        unfold firstBadRow
        have : texts.findIdx (fun r => !r.all strandOK) = texts.length := by
          apply List.findIdx_eq_length_of_false
          intro r hr
          have := (List.all_eq_true.mp hall) r hr
          simp only [Bool.and_eq_true] at this
          simp [this.2]
        simp [this]
      simp [hlen1, hbad]
    · simp at h

/-- **strandColumn_ok_iff.** Completeness for the strand column: it is accepted exactly when every field is one of the
single characters + - . (a two-character field such as `+-`, an empty field or any other character is refused), and
then it is shown verbatim. -/
theorem strandColumn_ok_iff (data : Bytes) (fs : List (Nat × Nat)) (c : Col) :
    typedColumn "strand" data fs = .ok c ↔
      specColumn "strand" (fs.map (fun p => slice data p.1 p.2)) = some c := by
  have h := strandTexts_ok_iff (fs.map (fun p : Nat × Nat => slice data p.1 p.2)) c
  have hdef : typedColumn "strand" data fs =
      (if (fs.map (fun p : Nat × Nat => slice data p.1 p.2)).any (fun t => t.length != 1) then (.error .other : Except Err Col) else
        match firstBadRow (fs.map (fun p : Nat × Nat => slice data p.1 p.2)) strandOK with
        | some i => .error (.format i)
        | none => .ok (Col.strs (fs.map (fun p : Nat × Nat => slice data p.1 p.2)))) := rfl
  rw [hdef]
  exact h

example : specColumn "strand" [[43, 45]] = none ∧ specColumn "strand" [[43], [46]] = some (Col.strs [[43], [46]]) := by decide

end C02
