import BnpVerif.Model.C08
import BnpVerif.Gen.C08
namespace C08
theorem placeholder : True := trivial
end C08
