import BnpVerif.Props.C08Core
import BnpVerif.Gen.C08
/-! C08 — the part of the property theorems that is about code re-generated on every run: the `clip` /
`extend_to_size` kernels traced from the source into `Gen/C08.lean`. Everything else is in `Props/C08Core.lean`
(kept free of generated imports so that other properties can build on it). -/
namespace C08
open Base.Rle

/-! ## Property theorems: clip / extend_to_size kernels (traced from the source into Gen/C08.lean) -/

/-- the hand model used by the driver is the traced code -/
theorem kernels_traced (fwd : Bool) (start stop len size : Int) :
    clipK start stop size = (Gen.C08.clipStart start stop size, Gen.C08.clipStop start stop size) ∧
    clipK start stop size = (Gen.C08.geoClipStart start stop size, Gen.C08.geoClipStop start stop size) ∧
    extendK fwd start stop len size = (Gen.C08.extStart fwd start stop len size, Gen.C08.extStop fwd start stop len size) ∧
    extendK fwd start stop len size = (Gen.C08.geoExtStart fwd start stop len size, Gen.C08.geoExtStop fwd start stop len size) := by
  simp only [clipK, extendK, Gen.C08.clipStart, Gen.C08.clipStop, Gen.C08.geoClipStart, Gen.C08.geoClipStop,
    Gen.C08.extStart, Gen.C08.extStop, Gen.C08.geoExtStart, Gen.C08.geoExtStop]
  cases fwd <;> simp

/-- the repaired `-` strand start `stop - min len stop` is, over the integers, the shipped `max (stop - len) 0` (the two differ
only in machine arithmetic: on an unsigned column `stop - len` wraps around before the maximum is taken) -/
theorem extendK_eq_old (fwd : Bool) (start stop len size : Int) :
    extendK fwd start stop len size = extendKOld fwd start stop len size := by
  simp only [extendK, extendKOld]
  cases fwd
  · simp only [Bool.false_eq_true, ↓reduceIte]; congr 1; omega
  · rfl

/-- clipping is intersection with the contig: a base is in the clipped interval iff it is in the interval and in `[0, size)` -/
theorem clip_perbase (start stop size p : Int) :
    (Gen.C08.clipStart start stop size ≤ p ∧ p < Gen.C08.clipStop start stop size) ↔
      (start ≤ p ∧ p < stop) ∧ (0 ≤ p ∧ p < size) := by
  simp only [Gen.C08.clipStart, Gen.C08.clipStop]; omega

/-- an interval that meets the contig stays a well-formed interval inside it -/
theorem clip_inside (start stop size : Int) (h0 : 0 ≤ size) (h1 : start ≤ stop) (h2 : start ≤ size) (h3 : 0 ≤ stop) :
    0 ≤ Gen.C08.clipStart start stop size ∧ Gen.C08.clipStart start stop size ≤ Gen.C08.clipStop start stop size ∧
      Gen.C08.clipStop start stop size ≤ size := by
  simp only [Gen.C08.clipStart, Gen.C08.clipStop]; omega

/-- extension keeps the interval inside the contig -/
theorem extend_inside (fwd : Bool) (start stop len size : Int) (h1 : 0 ≤ start) (h2 : start ≤ stop) (h3 : stop ≤ size)
    (h4 : 0 ≤ len) :
    0 ≤ Gen.C08.extStart fwd start stop len size ∧
      Gen.C08.extStart fwd start stop len size ≤ Gen.C08.extStop fwd start stop len size ∧
      Gen.C08.extStop fwd start stop len size ≤ size := by
  simp only [Gen.C08.extStart, Gen.C08.extStop]
  cases fwd
  · simp only [Bool.false_eq_true, ↓reduceIte]; omega
  · simp only [↓reduceIte]; omega

/-- `+` keeps the start, `-` keeps the stop -/
theorem extend_keeps (start stop len size : Int) :
    Gen.C08.extStart true start stop len size = start ∧ Gen.C08.extStop false start stop len size = stop := by
  simp [Gen.C08.extStart, Gen.C08.extStop]

/-- the extended interval has the requested length, cut at the contig boundary -/
theorem extend_length (start stop len size : Int) :
    Gen.C08.extStop true start stop len size - Gen.C08.extStart true start stop len size = min len (size - start) ∧
    Gen.C08.extStop false start stop len size - Gen.C08.extStart false start stop len size = min len stop := by
  simp only [Gen.C08.extStart, Gen.C08.extStop, Bool.false_eq_true, ↓reduceIte]; omega

/-- the same for the kernels of `Geometry.clip` / `Geometry.extend_to_size` (size looked up per row) -/
theorem geo_kernels_inside (fwd : Bool) (start stop len size : Int) (h1 : 0 ≤ start) (h2 : start ≤ stop) (h3 : stop ≤ size)
    (h4 : 0 ≤ len) :
    (0 ≤ Gen.C08.geoExtStart fwd start stop len size ∧
      Gen.C08.geoExtStart fwd start stop len size ≤ Gen.C08.geoExtStop fwd start stop len size ∧
      Gen.C08.geoExtStop fwd start stop len size ≤ size) ∧
    (0 ≤ Gen.C08.geoClipStart start stop size ∧ Gen.C08.geoClipStart start stop size ≤ Gen.C08.geoClipStop start stop size ∧
      Gen.C08.geoClipStop start stop size ≤ size) := by
  simp only [Gen.C08.geoExtStart, Gen.C08.geoExtStop, Gen.C08.geoClipStart, Gen.C08.geoClipStop]
  cases fwd
  · simp only [Bool.false_eq_true, ↓reduceIte]; omega
  · simp only [↓reduceIte]; omega

/-- `Geometry.extend_to_size` on several chromosomes: row `i` of the result stays inside the chromosome of row `i` -/
theorem geoExtend_inside (chromSizes : List Int) (len : Int) (hlen : 0 ≤ len) (rows : List (Nat × Bool × Int × Int))
    (h : ∀ r ∈ rows, 0 ≤ r.2.2.1 ∧ r.2.2.1 ≤ r.2.2.2 ∧ r.2.2.2 ≤ chromSizes.getD r.1 0)
    (i : Nat) (hi : i < rows.length) :
    let o := (geoExtend chromSizes len rows)[i]'(by simpa [geoExtend] using hi)
    0 ≤ o.1 ∧ o.1 ≤ o.2 ∧ o.2 ≤ chromSizes.getD (rows[i]).1 0 := by
  simp only [geoExtend, List.getElem_map]
  have hr := h rows[i] (List.getElem_mem hi)
  have hk := (kernels_traced (rows[i]).2.1 (rows[i]).2.2.1 (rows[i]).2.2.2 len (chromSizes.getD (rows[i]).1 0)).2.2.2
  rw [hk]
  exact (geo_kernels_inside _ _ _ len _ hr.1 hr.2.1 hr.2.2 hlen).1

/-- `Geometry.clip` on several chromosomes: row `i` is clipped to the chromosome of row `i` -/
theorem geoClip_inside (chromSizes : List Int) (rows : List (Nat × Int × Int))
    (h : ∀ r ∈ rows, 0 ≤ chromSizes.getD r.1 0 ∧ r.2.1 ≤ r.2.2 ∧ r.2.1 ≤ chromSizes.getD r.1 0 ∧ 0 ≤ r.2.2)
    (i : Nat) (hi : i < rows.length) :
    let o := (geoClip chromSizes rows)[i]'(by simpa [geoClip] using hi)
    0 ≤ o.1 ∧ o.1 ≤ o.2 ∧ o.2 ≤ chromSizes.getD (rows[i]).1 0 := by
  simp only [geoClip, List.getElem_map]
  have hr := h rows[i] (List.getElem_mem hi)
  have hk := (kernels_traced true (rows[i]).2.1 (rows[i]).2.2 0 (chromSizes.getD (rows[i]).1 0)).2.1
  rw [hk]
  simp only [Gen.C08.geoClipStart, Gen.C08.geoClipStop]
  omega

/-- clipping and extension are idempotent: a second application changes nothing -/
theorem clip_extend_idem (fwd : Bool) (start stop len size : Int) (h0 : 0 ≤ size) :
    (clipK (clipK start stop size).1 (clipK start stop size).2 size = clipK start stop size) ∧
    (extendK fwd (extendK fwd start stop len size).1 (extendK fwd start stop len size).2 len size = extendK fwd start stop len size) := by
  simp only [clipK, extendK]
  constructor
  · apply Prod.ext <;> simp only <;> omega
  · cases fwd
    · simp only [Bool.false_eq_true, ↓reduceIte]
    · simp only [↓reduceIte]

/-- **total form of `clip_inside`**: the clipped interval is a well-formed interval inside the contig exactly when the
input meets the contig; an interval entirely beyond the end (or before 0) comes out inverted -/
theorem clip_inside_iff (start stop size : Int) (h0 : 0 ≤ size) :
    (0 ≤ Gen.C08.clipStart start stop size ∧ Gen.C08.clipStart start stop size ≤ Gen.C08.clipStop start stop size ∧
      Gen.C08.clipStop start stop size ≤ size) ↔ (start ≤ stop ∧ start ≤ size ∧ 0 ≤ stop) := by
  simp only [Gen.C08.clipStart, Gen.C08.clipStop]; omega

/-- the excluded region is real: an interval beyond the contig end is NOT brought inside (also on the real code:
`clip((7,9), 5)` gives `(7,5)`); the check's domain for `clip` is "the interval meets the contig" -/
theorem clip_outside_not_inside : clipK 12 15 10 = (12, 10) ∧ clipK (-5) (-2) 10 = (0, -2) := by decide

/-- every kernel in `Gen/C08.lean` was obtained by tracing the real function: when the tracer fails, `regenerate()`
writes the hand-written expression with the flag `false`, and this obligation breaks -/
theorem all_traced : Gen.C08.clipTraced = true ∧ Gen.C08.geoClipTraced = true ∧ Gen.C08.extTraced = true ∧
    Gen.C08.geoExtTraced = true := by decide

end C08
